(* Proofs about the UnsafeLoop model (UnsafeLoopDefs.v).
   - no_uninit_read_refuted: with the link fields uninitialised (the code as it is) a two-step
     schedule -- request_stop, then start of a schedule_after(d > 0) operation -- makes the cancel
     callback read prevPtr_ before anything wrote it.
   - no_uninit_read_fixed: with the link fields initialised to null (the proposed fix) no schedule
     ever reads an uninitialised link.
   - for both variants and every schedule: never_early, at_most_once, unlinked_after_completion,
     queue_sorted, cancel_prompt. *)
From Coq Require Import ZArith List Bool Arith Lia Permutation.
From V Require Import Base.Sched Arith.SortedInsertDefs Arith.SortedInsertProofs
  Proto.TimerQueueDefs Proto.TimerQueueProofs Proto.UnsafeLoopDefs.
Import ListNotations.
Import UnsafeLoop.
Local Open Scope Z_scope.

(* ------------------------------------------------------------------------------------------- *)
(* the refutation                                                                               *)

Definition is_uninit (e : ev) : bool := match e with EUninit _ => true | _ => false end.

Theorem no_uninit_read_refuted :
  exists specs sched,
    existsb is_uninit (snd (run step sched (init LUninit 1000 specs, []))) = true.
Proof. exists [(true, 10)], [2%nat; 1%nat]. vm_compute. reflexivity. Qed.

(* the same two steps are harmless when the delay is zero or when the fields are initialised *)
Example prestopped_zero_delay_no_read :
  existsb is_uninit (snd (run step [2%nat; 1%nat] (init LUninit 1000 [(true, 0)], []))) = false.
Proof. vm_compute. reflexivity. Qed.

(* ------------------------------------------------------------------------------------------- *)
(* invariant                                                                                    *)

Definition pq (o : op) : nat := match ph o with PQueued => 1%nat | _ => 0%nat end.
Definition pd (o : op) : nat := match ph o with PDone => 1%nat | _ => 0%nat end.

Record uinv (l0 : lnk) (nw : Z) (qq : list timer) (j : nat) (o : op) : Prop := {
  u_cnt : cnt j qq = pq o;
  u_comp : ncomp o = pd o;
  u_new : ph o = PNew -> orig o = None /\ cbreg o = false /\ links o = l0;
  u_set : ph o <> PNew -> links o = LSet /\ exists d, orig o = Some d;
  u_orig : ph o <> PNew -> sreq o = false -> orig o = Some (dueT o);
  u_reg : cbreg o = true -> ph o = PQueued /\ sreq o = false;
  u_reg2 : ph o = PQueued -> sreq o = false -> cbreg o = true;
  u_cancel : sreq o = true -> ph o = PQueued -> dueT o <= nw
}.

Definition uqdue (qq : list timer) (os : list op) : Prop :=
  forall x, In x qq -> exists o, nth_error os (id x) = Some o /\ dueT o = due x.

Definition Inv (l0 : lnk) (s : st) : Prop :=
  sorted_due (q s) /\ NoDup (map id (q s)) /\ uqdue (q s) (ops s) /\ lastTime s <= now s /\
  forall j o, nth_error (ops s) j = Some o -> uinv l0 (now s) (q s) j o.

Lemma uinv_frame : forall l0 nw nw' qq qq' j o,
  uinv l0 nw qq j o -> nw <= nw' -> cnt j qq' = cnt j qq -> uinv l0 nw' qq' j o.
Proof.
  intros l0 nw nw' qq qq' j o [h1 h2 h3 h4 h5 h6 h6' h7] Hn Hc.
  constructor; auto; [congruence|]. intros A B. specialize (h7 A B). lia.
Qed.

Lemma uqdue_put_same : forall qq os i o o',
  uqdue qq os -> nth_error os i = Some o -> dueT o' = dueT o -> uqdue qq (set_nth i o' os).
Proof.
  intros qq os i o o' H Hn Hd x Hx. destruct (H x Hx) as [o1 [E1 E2]].
  destruct (Nat.eq_dec i (id x)) as [E|E].
  - subst i. exists o'. unfold set_nth. rewrite (nth_set_nth_eq _ _ _ _ Hn). split; [reflexivity|]. congruence.
  - exists o1. unfold set_nth. rewrite nth_set_nth_neq by exact E. tauto.
Qed.

Lemma uqdue_put_absent : forall qq os i o',
  uqdue qq os -> ~ In i (map id qq) -> uqdue qq (set_nth i o' os).
Proof.
  intros qq os i o' H Hn x Hx. destruct (H x Hx) as [o1 [E1 E2]].
  exists o1. unfold set_nth. rewrite nth_set_nth_neq; [tauto|]. intros E. apply Hn. subst i. apply in_map. exact Hx.
Qed.

(* generic: operation i rewritten to o', queue becomes qq' *)
Lemma inv_step_op : forall l0 s s' i o o',
  Inv l0 s -> nth_error (ops s) i = Some o ->
  now s' = now s -> lastTime s' = lastTime s -> ops s' = set_nth i o' (ops s) ->
  sorted_due (q s') -> NoDup (map id (q s')) -> uqdue (q s') (set_nth i o' (ops s)) ->
  (forall j, j <> i -> cnt j (q s') = cnt j (q s)) ->
  uinv l0 (now s) (q s') i o' ->
  Inv l0 s'.
Proof.
  intros l0 s s' i o o' [Hs [Hnd [Hq [Hl Ho]]]] Hn En El Eo Hs' Hnd' Hq' Hfr Hnew.
  split; [exact Hs'|]. split; [exact Hnd'|]. split; [rewrite Eo; exact Hq'|]. split; [lia|].
  rewrite Eo, En. intros j o'' Hj. destruct (Nat.eq_dec i j) as [E|E].
  - subst j. unfold set_nth in Hj. rewrite (nth_set_nth_eq _ _ _ _ Hn) in Hj. inversion Hj; subst. exact Hnew.
  - unfold set_nth in Hj. rewrite nth_set_nth_neq in Hj by exact E.
    eapply uinv_frame; [apply Ho, Hj | lia | apply Hfr; congruence].
Qed.

Ltac ufields := unfold pq, pd in *; cbn in *.
Ltac urebuild Hold :=
  let h1 := fresh "h" in let h2 := fresh "h" in let h3 := fresh "h" in let h4 := fresh "h" in
  let h5 := fresh "h" in let h6 := fresh "h" in let h7 := fresh "h" in let h8 := fresh "h" in
  destruct Hold as [h1 h2 h3 h4 h5 h6 h8 h7];
  constructor; ufields;
  repeat match goal with H : ?x = _ |- _ => rewrite H in * end; cbn in *;
  try solve [intuition (try congruence; try lia; eauto)].

(* enqueue of operation i with record o' (whose dueT is d) *)
Lemma inv_enqueue : forall l0 s s' i o o' d,
  Inv l0 s -> nth_error (ops s) i = Some o -> cnt i (q s) = 0%nat ->
  now s' = now s -> lastTime s' = lastTime s -> ops s' = set_nth i o' (ops s) ->
  q s' = insert_timed (d, i) (q s) -> dueT o' = d ->
  uinv l0 (now s) (insert_timed (d, i) (q s)) i o' ->
  Inv l0 s'.
Proof.
  intros l0 s s' i o o' d HI Hn Hc En El Eo Eq Hd Hnew. pose proof HI as [Hs [Hnd [Hq [Hl Ho]]]].
  eapply inv_step_op with (1 := HI) (2 := Hn); eauto; rewrite ?Eq; auto.
  - apply insert_timed_sorted, Hs.
  - apply insert_timed_NoDup_ids; [exact Hnd|]. cbn. apply cnt_zero_notin, Hc.
  - intros x Hx. apply insert_timed_In in Hx. destruct Hx as [-> | Hx].
    + exists o'. cbn. unfold set_nth. rewrite (nth_set_nth_eq _ _ _ _ Hn). auto.
    + apply (uqdue_put_absent (q s) (ops s) i o' Hq); [apply cnt_zero_notin, Hc | exact Hx].
  - intros j Hj. rewrite cnt_insert. cbn. assert (Nat.eqb i j = false) as -> by (apply Nat.eqb_neq; congruence). reflexivity.
Qed.


Ltac usolve := try solve [intuition (try congruence; try lia; eauto)].

Lemma start_inv : forall l0 i s s' evs, l0 <> LSet -> Inv l0 s -> crashed s = false -> step_start i s = Some (s', evs) -> Inv l0 s'.
Proof.
  intros l0 i s s' evs Hl0 HI Hcs H. unfold step_start in H.
  destruct (nth_error (ops s) i) as [o|] eqn:Hn; [|discriminate].
  pose proof HI as [Hs [Hnd [Hq [Hl Ho]]]]. pose proof (Ho i o Hn) as Hold.
  destruct (ph o) eqn:Hp; try discriminate.
  assert (Hc0 : cnt i (q s) = 0%nat) by (rewrite (u_cnt _ _ _ _ _ Hold); unfold pq; rewrite Hp; reflexivity).
  destruct (u_new _ _ _ _ _ Hold Hp) as [Hog [Hcb Hlk]].
  destruct (sreq o) eqn:Hr.
  - unfold cancel_cb in H. cbn [dueT upd] in H.
    destruct (now s <? (if o_after o then now s + o_t o else o_t o)) eqn:El.
    + cbn [links upd] in H. destruct (links o) eqn:Hk.
      * cbn in H. inversion H; subst. exact HI.
      * cbn in H. destruct (crashed s) eqn:Ec; inversion H; subst; clear H; [congruence|].
        eapply inv_enqueue with (1 := HI) (2 := Hn) (d := now s); [exact Hc0 | reflexivity | reflexivity | reflexivity | reflexivity | reflexivity | ].
        destruct Hold as [h1 h2 h3 h4 h5 h6 h8 h7]. constructor; unfold pq, pd in *; cbn; rewrite ?cnt_insert; cbn; rewrite ?Nat.eqb_refl; rewrite ?Hp in *; usolve.
      * congruence.
    + apply Z.ltb_ge in El. cbn in H. destruct (crashed s) eqn:Ec; inversion H; subst; clear H; [congruence|].
      eapply inv_enqueue with (1 := HI) (2 := Hn) (d := (if o_after o then now s + o_t o else o_t o)); [exact Hc0 | reflexivity | reflexivity | reflexivity | reflexivity | reflexivity | ].
      destruct Hold as [h1 h2 h3 h4 h5 h6 h8 h7]. constructor; unfold pq, pd in *; cbn; rewrite ?cnt_insert; cbn; rewrite ?Nat.eqb_refl; rewrite ?Hp in *; usolve.
  - inversion H; subst; clear H.
    eapply inv_enqueue with (1 := HI) (2 := Hn) (d := (if o_after o then now s + o_t o else o_t o)); [exact Hc0 | reflexivity | reflexivity | reflexivity | reflexivity | reflexivity | ].
    destruct Hold as [h1 h2 h3 h4 h5 h6 h8 h7]. constructor; unfold pq, pd in *; cbn; rewrite ?cnt_insert; cbn; rewrite ?Nat.eqb_refl; rewrite ?Hp in *; usolve.
Qed.

Lemma stop_inv : forall l0 i s s' evs, l0 <> LSet -> Inv l0 s -> crashed s = false -> step_stop i s = Some (s', evs) -> Inv l0 s'.
Proof.
  intros l0 i s s' evs Hl0 HI Hcs H. unfold step_stop in H.
  destruct (nth_error (ops s) i) as [o|] eqn:Hn; [|discriminate].
  pose proof HI as [Hs [Hnd [Hq [Hl Ho]]]]. pose proof (Ho i o Hn) as Hold.
  destruct (sreq o) eqn:Hr; [discriminate|].
  destruct (cbreg o) eqn:Hc.
  - destruct (u_reg _ _ _ _ _ Hold Hc) as [Hp _].
    destruct (u_set _ _ _ _ _ Hold) as [Hk _]; [congruence|].
    unfold cancel_cb in H. cbn [dueT upd links] in H. rewrite Hk in H.
    destruct (now s <? dueT o) eqn:El.
    + apply Z.ltb_lt in El. cbn in H. destruct (crashed s) eqn:Ec; inversion H; subst; clear H; [congruence|].
      assert (H1 : (1 <= cnt i (q s))%nat) by (rewrite (u_cnt _ _ _ _ _ Hold); unfold pq; rewrite Hp; lia).
      pose proof (cnt_remove_same i (q s) H1) as Hrm.
      assert (Hone : cnt i (q s) = 1%nat) by (rewrite (u_cnt _ _ _ _ _ Hold); unfold pq; rewrite Hp; reflexivity).
      eapply inv_step_op with (1 := HI) (2 := Hn); [reflexivity | reflexivity | reflexivity | | | | | ]; cbn [q now ops lastTime put set_q].
      * apply insert_timed_sorted, heap_remove_sorted, Hs.
      * apply (requeue_NoDup_ids i (now s) (q s) Hnd).
      * intros x Hx. apply insert_timed_In in Hx. destruct Hx as [-> | Hx].
        -- eexists. cbn. unfold set_nth. rewrite (nth_set_nth_eq _ _ _ _ Hn). split; reflexivity.
        -- eapply (uqdue_put_absent (heap_remove i (q s)) (ops s) i); [ | apply heap_remove_gone, Hnd | exact Hx].
           intros y Hy. apply Hq. eapply In_heap_remove; eauto.
      * intros j Hj. rewrite cnt_insert. cbn. assert (Nat.eqb i j = false) as -> by (apply Nat.eqb_neq; congruence).
        cbn. apply cnt_remove_other. congruence.
      * destruct Hold as [h1 h2 h3 h4 h5 h6 h8 h7]. constructor; unfold pq, pd in *; cbn; rewrite ?cnt_insert; cbn;
          rewrite ?Nat.eqb_refl; rewrite ?Hp in *; usolve.
    + apply Z.ltb_ge in El. cbn in H. destruct (crashed s) eqn:Ec; inversion H; subst; clear H; [congruence|].
      eapply inv_step_op with (1 := HI) (2 := Hn); [reflexivity | reflexivity | reflexivity | exact Hs | exact Hnd | | auto | ]; cbn [q now ops lastTime put set_q].
      * eapply uqdue_put_same; eauto.
      * destruct Hold as [h1 h2 h3 h4 h5 h6 h8 h7]. constructor; unfold pq, pd in *; cbn; rewrite ?Hp in *; usolve.
  - inversion H; subst; clear H.
    eapply inv_step_op with (1 := HI) (2 := Hn); [reflexivity | reflexivity | reflexivity | exact Hs | exact Hnd | | auto | ]; cbn [q now ops lastTime put set_q].
    + eapply uqdue_put_same; eauto.
    + destruct Hold as [h1 h2 h3 h4 h5 h6 h8 h7]. constructor; unfold pq, pd in *; cbn; usolve.
Qed.

Lemma loop_inv : forall l0 s s' evs, Inv l0 s -> step_loop s = Some (s', evs) -> Inv l0 s'.
Proof.
  intros l0 s s' evs HI H. unfold step_loop in H. pose proof HI as [Hs [Hnd [Hq [Hl Ho]]]].
  destruct (inloop s).
  2:{ inversion H; subst; clear H. split; [exact Hs|]. split; [exact Hnd|]. split; [exact Hq|]. split; [cbn; lia|]. exact Ho. }
  destruct (q s) as [|x tl] eqn:Eq.
  { inversion H; subst; clear H. unfold Inv. cbn. split; [exact Hs|]. split; [exact Hnd|]. split; [exact Hq|]. split; [exact Hl|exact Ho]. }
  destruct (nth_error (ops s) (id x)) as [o|] eqn:Hn; [|discriminate].
  inversion H; subst; clear H.
  set (lt1 := if lastTime s <? due x then now s else lastTime s).
  set (now2 := if lt1 <? due x then Z.max (now s) (due x) else now s).
  assert (Hlt1 : lt1 <= now s) by (unfold lt1; destruct (lastTime s <? due x); lia).
  assert (Hn2 : now s <= now2) by (unfold now2; destruct (lt1 <? due x); lia).
  pose proof (Ho _ _ Hn) as Hold.
  assert (Hc1 : cnt (id x) (x :: tl) = 1%nat).
  { pose proof (cnt_nodup_le1 (id x) _ Hnd). rewrite cnt_cons, Nat.eqb_refl in *. lia. }
  assert (Hc0 : cnt (id x) tl = 0%nat) by (rewrite cnt_cons, Nat.eqb_refl in Hc1; lia).
  assert (Hp : ph o = PQueued).
  { pose proof (u_cnt _ _ _ _ _ Hold) as Hu. rewrite Hc1 in Hu. unfold pq in Hu. destruct (ph o); try discriminate; reflexivity. }
  split; [eapply sorted_due_tail; exact Hs|]. split; [inversion Hnd; assumption|]. cbn [q ops now lastTime]. split; [|split].
  - apply uqdue_put_absent; [|apply cnt_zero_notin, Hc0]. intros y Hy. apply Hq. right. exact Hy.
  - fold lt1. fold now2. destruct (lt1 <? due x); lia.
  - fold lt1. fold now2. intros j o'' Hj. destruct (Nat.eq_dec (id x) j) as [E|E].
    + subst j. unfold set_nth in Hj. rewrite (nth_set_nth_eq _ _ _ _ Hn) in Hj. inversion Hj; subst o''.
      destruct Hold as [h1 h2 h3 h4 h5 h6 h8 h7]. constructor; unfold pq, pd in *; cbn; rewrite ?Hp in *; usolve.
    + unfold set_nth in Hj. rewrite nth_set_nth_neq in Hj by exact E.
      eapply uinv_frame; [apply Ho, Hj | exact Hn2 | ]. rewrite cnt_cons. apply Nat.eqb_neq in E. rewrite E. reflexivity.
Qed.

Lemma clock_inv : forall l0 k s s' evs, Inv l0 s -> step_clock k s = Some (s', evs) -> Inv l0 s'.
Proof.
  intros l0 k s s' evs [Hs [Hnd [Hq [Hl Ho]]]] H. unfold step_clock in H. inversion H; subst; clear H.
  split; [exact Hs|]. split; [exact Hnd|]. split; [exact Hq|]. split; [cbn; lia|].
  cbn. intros j o Hj. eapply uinv_frame; [apply Ho, Hj | lia | reflexivity].
Qed.

Lemma step_inv : forall l0 s t s' evs, l0 <> LSet -> Inv l0 s -> step t s = Some (s', evs) -> Inv l0 s'.
Proof.
  intros l0 s t s' evs Hl0 HI H. unfold step in H. destruct (crashed s) eqn:Hcs; [discriminate|].
  destruct (Nat.eqb t 0); [eapply loop_inv; eauto|].
  destruct (Nat.leb t (nops s)); [eapply start_inv; eauto|].
  destruct (Nat.leb t (2 * nops s)); [eapply stop_inv; eauto|].
  eapply clock_inv; eauto.
Qed.

Lemma init_inv : forall l0 now0 specs, Inv l0 (init l0 now0 specs).
Proof.
  intros l0 now0 specs. split; [reflexivity|]. split; [constructor|]. split; [intros x []|]. split; [cbn; lia|].
  cbn. intros j o Hj. apply nth_error_In in Hj. apply in_map_iff in Hj.
  destruct Hj as [sp [<- _]]. constructor; cbn; try reflexivity; try discriminate; auto; congruence.
Qed.

Theorem inv_run : forall l0 now0 specs sched, l0 <> LSet ->
  Inv l0 (fst (run step sched (init l0 now0 specs, []))).
Proof.
  intros. apply (run_invariant_state _ _ _ step (Inv l0)); [|apply init_inv].
  intros s t s' ev HI Hs. eapply step_inv; eauto.
Qed.
(* ------------------------------------------------------------------------------------------- *)
(* effect of one step on the ghosts; events                                                     *)

Definition is_comp (j : nat) (e : ev) : bool :=
  match e with EFire i _ | EDone i _ => Nat.eqb i j | _ => false end.
Definition ccount (j : nat) (tr : list ev) : nat := length (filter (is_comp j) tr).

Lemma ccount_app : forall j a b, ccount j (a ++ b) = (ccount j a + ccount j b)%nat.
Proof. intros. unfold ccount. rewrite filter_app, app_length. reflexivity. Qed.

Definition ueffect (l0 : lnk) (s s' : st) (evs : list ev) : Prop :=
  length (ops s') = length (ops s) /\
  (forall j t, In (EFire j t) evs -> exists o d, nth_error (ops s) j = Some o /\ orig o = Some d /\ d <= t) /\
  (forall j, In (EUninit j) evs -> l0 = LUninit) /\
  forall j o, nth_error (ops s) j = Some o ->
    exists o', nth_error (ops s') j = Some o' /\ (ph o <> PNew -> orig o' = orig o) /\
               ncomp o' = (ncomp o + ccount j evs)%nat.

Lemma ueff_put : forall l0 s s' i o o' evs,
  nth_error (ops s) i = Some o -> ops s' = set_nth i o' (ops s) ->
  (ph o <> PNew -> orig o' = orig o) -> ncomp o' = (ncomp o + ccount i evs)%nat ->
  (forall j, j <> i -> ccount j evs = 0%nat) ->
  (forall j t, In (EFire j t) evs -> exists o d, nth_error (ops s) j = Some o /\ orig o = Some d /\ d <= t) ->
  (forall j, In (EUninit j) evs -> l0 = LUninit) ->
  ueffect l0 s s' evs.
Proof.
  intros l0 s s' i o o' evs Hn Eo Ho Hc Hz Hf Hu. split; [rewrite Eo; apply length_set_nth|]. split; [exact Hf|]. split; [exact Hu|].
  intros j o1 Hj. rewrite Eo. destruct (Nat.eq_dec i j) as [E|E].
  - subst j. rewrite Hn in Hj. inversion Hj; subst o1. exists o'. unfold set_nth. rewrite (nth_set_nth_eq _ _ _ _ Hn). auto.
  - exists o1. unfold set_nth. rewrite nth_set_nth_neq by exact E. repeat split; auto. rewrite Hz by congruence. lia.
Qed.

Lemma ueff_same : forall l0 s s' evs,
  ops s' = ops s -> (forall j, ccount j evs = 0%nat) -> (forall j t, ~ In (EFire j t) evs) ->
  (forall j, In (EUninit j) evs -> l0 = LUninit) -> ueffect l0 s s' evs.
Proof.
  intros l0 s s' evs Eo Hz Hf Hu. split; [rewrite Eo; reflexivity|]. split; [intros j t H; exfalso; eapply Hf; eauto|]. split; [exact Hu|].
  intros j o Hj. exists o. rewrite Eo. repeat split; auto. rewrite Hz. lia.
Qed.

Ltac nofire := cbn; intros; intuition discriminate.

Lemma step_effect : forall l0 s t s' evs, l0 <> LSet -> Inv l0 s -> step t s = Some (s', evs) -> ueffect l0 s s' evs.
Proof.
  intros l0 s t s' evs Hl0 HI H. pose proof HI as [Hs [Hnd [Hq [Hl Ho]]]].
  unfold step in H. destruct (crashed s) eqn:Hcs; [discriminate|].
  destruct (Nat.eqb t 0).
  { unfold step_loop in H. destruct (inloop s).
    2:{ inversion H; subst; clear H. eapply ueff_same; [reflexivity | intros; reflexivity | nofire | nofire]. }
    destruct (q s) as [|x tl] eqn:Eq.
    { inversion H; subst; clear H. eapply ueff_same; [reflexivity | intros; reflexivity | nofire | nofire]. }
    destruct (nth_error (ops s) (id x)) as [o|] eqn:Hn; [|discriminate]. inversion H; subst; clear H.
    set (lt1 := if lastTime s <? due x then now s else lastTime s).
    set (now2 := if lt1 <? due x then Z.max (now s) (due x) else now s).
    assert (Hge : due x <= now2).
    { unfold now2. destruct (lt1 <? due x) eqn:E; [lia|]. apply Z.ltb_ge in E. unfold lt1 in *. destruct (lastTime s <? due x); lia. }
    pose proof (Ho _ _ Hn) as Hold.
    assert (Hp : ph o = PQueued).
    { pose proof (u_cnt _ _ _ _ _ Hold) as Hu. rewrite cnt_cons, Nat.eqb_refl in Hu. unfold pq in Hu. destruct (ph o); try discriminate; reflexivity. }
    destruct (Hq x (or_introl eq_refl)) as [o1 [E1 E2]]. rewrite Hn in E1. inversion E1; subst o1.
    eapply ueff_put with (1 := Hn); [reflexivity | cbn; auto | | | | intros j Hin; destruct (sreq o); cbn in Hin; destruct Hin as [Hin|[]]; discriminate].
    - cbn. unfold ccount. destruct (sreq o); cbn; rewrite Nat.eqb_refl; cbn; lia.
    - intros j Hj. unfold ccount. destruct (sreq o); cbn; (assert (Nat.eqb (id x) j = false) as -> by (apply Nat.eqb_neq; congruence)); reflexivity.
    - intros j t0 Hin. destruct (sreq o) eqn:Er; cbn in Hin; destruct Hin as [Hin|[]]; [discriminate|]. inversion Hin; subst.
      exists o, (dueT o). split; [exact Hn|]. split; [|fold lt1; fold now2; lia].
      apply (u_orig _ _ _ _ _ Hold); [congruence | exact Er]. }
  destruct (Nat.leb t (nops s)).
  { unfold step_start in H. remember (t - 1)%nat as i. clear Heqi.
    destruct (nth_error (ops s) i) as [o|] eqn:Hn; [|discriminate].
    pose proof (Ho _ _ Hn) as Hold.
    destruct (ph o) eqn:Hp; try discriminate.
    destruct (u_new _ _ _ _ _ Hold Hp) as [Hog [Hcb Hlk]].
    destruct (sreq o) eqn:Hr.
    - unfold cancel_cb in H. cbn [dueT upd] in H.
      destruct (now s <? (if o_after o then now s + o_t o else o_t o)).
      + cbn [links upd] in H. destruct (links o) eqn:Hk.
        * cbn in H. inversion H; subst; clear H.
          eapply ueff_same; [reflexivity | intros; reflexivity | nofire | intros j _; congruence].
        * cbn in H. rewrite Hcs in H. inversion H; subst; clear H.
          eapply ueff_put with (1 := Hn); [reflexivity | congruence | cbn; lia | intros; reflexivity | nofire | nofire].
        * congruence.
      + cbn in H. rewrite Hcs in H. inversion H; subst; clear H.
        eapply ueff_put with (1 := Hn); [reflexivity | congruence | cbn; lia | intros; reflexivity | nofire | nofire].
    - inversion H; subst; clear H.
      eapply ueff_put with (1 := Hn); [reflexivity | congruence | cbn; lia | intros; reflexivity | nofire | nofire]. }
  destruct (Nat.leb t (2 * nops s)).
  { unfold step_stop in H. remember (t - 1 - nops s)%nat as i. clear Heqi.
    destruct (nth_error (ops s) i) as [o|] eqn:Hn; [|discriminate].
    pose proof (Ho _ _ Hn) as Hold.
    destruct (sreq o) eqn:Hr; [discriminate|].
    destruct (cbreg o) eqn:Hc.
    - destruct (u_reg _ _ _ _ _ Hold Hc) as [Hp _].
      destruct (u_set _ _ _ _ _ Hold) as [Hk _]; [congruence|].
      unfold cancel_cb in H. cbn [dueT upd links] in H. rewrite Hk in H.
      destruct (now s <? dueT o); cbn in H; rewrite Hcs in H; inversion H; subst; clear H;
        (eapply ueff_put with (1 := Hn); [reflexivity | cbn; auto | cbn; lia | intros; reflexivity | nofire | nofire]).
    - inversion H; subst; clear H.
      eapply ueff_put with (1 := Hn); [reflexivity | cbn; auto | cbn; lia | intros; reflexivity | nofire | nofire]. }
  unfold step_clock in H. inversion H; subst; clear H.
  eapply ueff_same; [reflexivity | intros; reflexivity | nofire | nofire].
Qed.

(* ------------------------------------------------------------------------------------------- *)
(* invariant over configurations and the theorems                                               *)

Definition fire_ok (s : st) (e : ev) : Prop :=
  match e with
  | EFire i t => exists o d, nth_error (ops s) i = Some o /\ orig o = Some d /\ d <= t
  | _ => True
  end.

Definition TInv (l0 : lnk) (c : st * list ev) : Prop :=
  Inv l0 (fst c) /\
  (forall j o, nth_error (ops (fst c)) j = Some o -> ccount j (snd c) = ncomp o) /\
  Forall (fire_ok (fst c)) (snd c) /\
  (existsb is_uninit (snd c) = true -> l0 = LUninit).

Lemma existsb_uninit_app : forall a b, existsb is_uninit (a ++ b) = existsb is_uninit a || existsb is_uninit b.
Proof. intros. apply existsb_app. Qed.

Lemma tinv_step : forall l0 c t s' evs, l0 <> LSet ->
  TInv l0 c -> step t (fst c) = Some (s', evs) -> TInv l0 (s', snd c ++ evs).
Proof.
  intros l0 [s tr] t s' evs Hl0 [HI [Hc [Hf Hu]]] H. cbn [fst snd] in *.
  pose proof (step_effect _ _ _ _ _ Hl0 HI H) as [Hlen [Hex [Hun Heff]]].
  split; [eapply step_inv; eauto|]. split; [|split].
  - cbn [fst snd]. intros j o' Hj.
    assert (exists o, nth_error (ops s) j = Some o) as [o Ho].
    { destruct (nth_error (ops s) j) eqn:E; [eauto|]. apply nth_error_None in E.
      assert (nth_error (ops s') j <> None) as Hx by congruence. apply nth_error_Some in Hx. lia. }
    destruct (Heff j o Ho) as [o'' [E1 [_ E3]]]. rewrite Hj in E1. inversion E1; subst o''.
    rewrite ccount_app, (Hc j o Ho). lia.
  - cbn [fst snd]. apply Forall_app. split.
    + eapply Forall_impl; [|exact Hf]. intros e He. destruct e; cbn in *; auto.
      destruct He as [o [d [E1 [E2 E3]]]]. destruct (Heff i o E1) as [o' [F1 [F2 _]]].
      exists o', d. split; [exact F1|]. split; [|exact E3]. rewrite F2; [exact E2|].
      intros Hp. destruct (u_new _ _ _ _ _ (proj2 (proj2 (proj2 (proj2 HI))) i o E1) Hp) as [Hx _]. congruence.
    + apply Forall_forall. intros e He. destruct e; cbn; auto.
      destruct (Hex i t0 He) as [o [d [E1 [E2 E3]]]]. destruct (Heff i o E1) as [o' [F1 [F2 _]]].
      exists o', d. split; [exact F1|]. split; [|exact E3]. rewrite F2; [exact E2|].
      intros Hp. destruct (u_new _ _ _ _ _ (proj2 (proj2 (proj2 (proj2 HI))) i o E1) Hp) as [Hx _]. congruence.
  - cbn [fst snd]. rewrite existsb_uninit_app. intros Hx. apply orb_true_iff in Hx. destruct Hx as [Hx|Hx]; [auto|].
    apply existsb_exists in Hx. destruct Hx as [e [He1 He2]]. destruct e; try discriminate. eapply Hun; eauto.
Qed.

Lemma tinv_run : forall l0 now0 specs sched, l0 <> LSet -> TInv l0 (run step sched (init l0 now0 specs, [])).
Proof.
  intros l0 now0 specs sched Hl0. apply (run_invariant _ _ _ step (TInv l0)).
  - intros c t s' ev Hc H. eapply tinv_step; eauto.
  - split; [apply init_inv|]. split; [|split; [constructor | cbn; discriminate]].
    cbn. intros j o Hj. apply nth_error_In in Hj. apply in_map_iff in Hj. destruct Hj as [sp [<- _]]. reflexivity.
Qed.

(* with the link fields initialised to null no schedule reads an uninitialised link *)
Theorem no_uninit_read_fixed : forall now0 specs sched,
  existsb is_uninit (snd (run step sched (init LNull now0 specs, []))) = false.
Proof.
  intros. destruct (tinv_run LNull now0 specs sched) as [_ [_ [_ Hu]]]; [discriminate|].
  destruct (existsb is_uninit _); [|reflexivity]. specialize (Hu eq_refl). discriminate.
Qed.

Theorem never_early : forall l0 now0 specs sched i t, l0 <> LSet ->
  let c := run step sched (init l0 now0 specs, []) in
  In (EFire i t) (snd c) ->
  exists o d, nth_error (ops (fst c)) i = Some o /\ orig o = Some d /\ d <= t.
Proof.
  intros l0 now0 specs sched i t Hl0 c Hin. destruct (tinv_run l0 now0 specs sched Hl0) as [_ [_ [Hf _]]].
  fold c in Hf. rewrite Forall_forall in Hf. apply (Hf _ Hin).
Qed.

Theorem at_most_once : forall l0 now0 specs sched i o, l0 <> LSet ->
  let c := run step sched (init l0 now0 specs, []) in
  nth_error (ops (fst c)) i = Some o ->
  (ccount i (snd c) <= 1)%nat /\ ccount i (snd c) = ncomp o /\
  ((1 <= ccount i (snd c))%nat -> ph o = PDone).
Proof.
  intros l0 now0 specs sched i o Hl0 c Hn. destruct (tinv_run l0 now0 specs sched Hl0) as [HI [Hc _]]. fold c in HI, Hc.
  pose proof (u_comp _ _ _ _ _ (proj2 (proj2 (proj2 (proj2 HI))) i o Hn)) as Hh. rewrite (Hc i o Hn), Hh.
  unfold pd. destruct (ph o); repeat split; try lia; auto.
Qed.

(* a completed operation is not in the queue and its callback is not registered *)
Theorem unlinked_after_completion : forall l0 now0 specs sched i o, l0 <> LSet ->
  let c := run step sched (init l0 now0 specs, []) in
  nth_error (ops (fst c)) i = Some o -> (1 <= ccount i (snd c))%nat ->
  ~ In i (map id (q (fst c))) /\ cbreg o = false.
Proof.
  intros l0 now0 specs sched i o Hl0 c Hn H1.
  destruct (at_most_once l0 now0 specs sched i o Hl0 Hn) as [_ [_ Hd]]. fold c in Hd. specialize (Hd H1).
  destruct (tinv_run l0 now0 specs sched Hl0) as [HI _]. fold c in HI.
  pose proof (proj2 (proj2 (proj2 (proj2 HI))) i o Hn) as Hu. split.
  - apply cnt_zero_notin. rewrite (u_cnt _ _ _ _ _ Hu). unfold pq. rewrite Hd. reflexivity.
  - destruct (cbreg o) eqn:E; [|reflexivity]. destruct (u_reg _ _ _ _ _ Hu E). congruence.
Qed.

Theorem queue_sorted : forall l0 now0 specs sched, l0 <> LSet ->
  let s := fst (run step sched (init l0 now0 specs, [])) in
  sorted_due (q s) /\ NoDup (map id (q s)).
Proof.
  intros l0 now0 specs sched Hl0 s. destruct (inv_run l0 now0 specs sched Hl0) as [Hs [Hnd _]]. split; assumption.
Qed.

(* after request_stop a queued operation is due: its entry and everything in front of it have due <= now,
   so the next iterations of run_until_empty take them without sleeping *)
Theorem cancel_prompt : forall l0 now0 specs sched i o, l0 <> LSet ->
  let s := fst (run step sched (init l0 now0 specs, [])) in
  nth_error (ops s) i = Some o -> sreq o = true -> ph o = PQueued ->
  dueT o <= now s /\
  forall l1 d l2, q s = l1 ++ (d, i) :: l2 -> d = dueT o /\ Forall (fun y => due y <= now s) (l1 ++ [(d, i)]).
Proof.
  intros l0 now0 specs sched i o Hl0 s Hn Hr Hp. destruct (inv_run l0 now0 specs sched Hl0) as [Hs [Hnd [Hq [_ Ho]]]].
  fold s in Hs, Hnd, Hq, Ho. pose proof (u_cancel _ _ _ _ _ (Ho i o Hn) Hr Hp) as Hd. split; [exact Hd|].
  intros l1 d l2 Eq. rewrite Eq in Hs, Hq.
  destruct (Hq (d, i)) as [o1 [E1 E2]]; [apply in_or_app; right; left; reflexivity|].
  cbn in E1, E2. rewrite Hn in E1. inversion E1; subst o1. split; [symmetry; exact E2|].
  apply Forall_app. split.
  - eapply Forall_impl; [|apply (sorted_due_before _ _ _ Hs)]. cbn. intros y Hy. lia.
  - constructor; [cbn; lia | constructor].
Qed.
