(* Proofs about the UnsafeLoop model (UnsafeLoopDefs.v).
   - no_uninit_read_refuted: with the link fields uninitialised (the code as it is) a two-step
     schedule -- request_stop, then start of a schedule_after(d > 0) operation -- makes the cancel
     callback read prevPtr_ before anything wrote it.
   - no_uninit_read_fixed: with the link fields initialised to null (the proposed fix) no schedule
     ever reads an uninitialised link.
   - for both variants and every schedule: never_early, at_most_once, unlinked_after_completion,
     queue_sorted, cancel_prompt. *)
From Coq Require Import ZArith List Bool Arith Lia Permutation.
From V Require Import Base.Sched Arith.SortedInsertDefs Arith.SortedInsertProofs
  Proto.TimerQueueDefs Proto.TimerQueueProofs Proto.UnsafeLoopDefs.
Import ListNotations.
Import UnsafeLoop.
Local Open Scope Z_scope.

(* ------------------------------------------------------------------------------------------- *)
(* the refutation                                                                               *)

Definition is_uninit (e : ev) : bool := match e with EUninit _ => true | _ => false end.

Theorem no_uninit_read_refuted :
  exists specs sched,
    existsb is_uninit (snd (run step sched (init LUninit 1000 specs, []))) = true.
Proof. exists [(true, 10)], [2%nat; 1%nat]. vm_compute. reflexivity. Qed.

(* the same two steps are harmless when the delay is zero or when the fields are initialised *)
Example prestopped_zero_delay_no_read :
  existsb is_uninit (snd (run step [2%nat; 1%nat] (init LUninit 1000 [(true, 0)], []))) = false.
Proof. vm_compute. reflexivity. Qed.

(* ------------------------------------------------------------------------------------------- *)
(* invariant                                                                                    *)

Definition pq (o : op) : nat := match ph o with PQueued => 1%nat | _ => 0%nat end.
Definition pd (o : op) : nat := match ph o with PDone => 1%nat | _ => 0%nat end.

Record uinv (l0 : lnk) (nw : Z) (qq : list timer) (j : nat) (o : op) : Prop := {
  u_cnt : cnt j qq = pq o;
  u_comp : ncomp o = pd o;
  u_new : ph o = PNew -> orig o = None /\ cbreg o = false /\ links o = l0;
  u_set : ph o <> PNew -> links o = LSet /\ exists d, orig o = Some d;
  u_orig : ph o <> PNew -> sreq o = false -> orig o = Some (dueT o);
  u_reg : cbreg o = true -> ph o = PQueued /\ sreq o = false;
  u_cancel : sreq o = true -> ph o = PQueued -> dueT o <= nw
}.

Definition uqdue (qq : list timer) (os : list op) : Prop :=
  forall x, In x qq -> exists o, nth_error os (id x) = Some o /\ dueT o = due x.

Definition Inv (l0 : lnk) (s : st) : Prop :=
  sorted_due (q s) /\ NoDup (map id (q s)) /\ uqdue (q s) (ops s) /\ lastTime s <= now s /\
  forall j o, nth_error (ops s) j = Some o -> uinv l0 (now s) (q s) j o.

Lemma uinv_frame : forall l0 nw nw' qq qq' j o,
  uinv l0 nw qq j o -> nw <= nw' -> cnt j qq' = cnt j qq -> uinv l0 nw' qq' j o.
Proof.
  intros l0 nw nw' qq qq' j o [h1 h2 h3 h4 h5 h6 h7] Hn Hc.
  constructor; auto; [congruence|]. intros A B. specialize (h7 A B). lia.
Qed.

Lemma uqdue_put_same : forall qq os i o o',
  uqdue qq os -> nth_error os i = Some o -> dueT o' = dueT o -> uqdue qq (set_nth i o' os).
Proof.
  intros qq os i o o' H Hn Hd x Hx. destruct (H x Hx) as [o1 [E1 E2]].
  destruct (Nat.eq_dec i (id x)) as [E|E].
  - subst i. exists o'. unfold set_nth. rewrite (nth_set_nth_eq _ _ _ _ Hn). split; [reflexivity|]. congruence.
  - exists o1. unfold set_nth. rewrite nth_set_nth_neq by exact E. tauto.
Qed.

Lemma uqdue_put_absent : forall qq os i o',
  uqdue qq os -> ~ In i (map id qq) -> uqdue qq (set_nth i o' os).
Proof.
  intros qq os i o' H Hn x Hx. destruct (H x Hx) as [o1 [E1 E2]].
  exists o1. unfold set_nth. rewrite nth_set_nth_neq; [tauto|]. intros E. apply Hn. subst i. apply in_map. exact Hx.
Qed.

(* generic: operation i rewritten to o', queue becomes qq' *)
Lemma inv_step_op : forall l0 s s' i o o',
  Inv l0 s -> nth_error (ops s) i = Some o ->
  now s' = now s -> lastTime s' = lastTime s -> ops s' = set_nth i o' (ops s) ->
  sorted_due (q s') -> NoDup (map id (q s')) -> uqdue (q s') (set_nth i o' (ops s)) ->
  (forall j, j <> i -> cnt j (q s') = cnt j (q s)) ->
  uinv l0 (now s) (q s') i o' ->
  Inv l0 s'.
Proof.
  intros l0 s s' i o o' [Hs [Hnd [Hq [Hl Ho]]]] Hn En El Eo Hs' Hnd' Hq' Hfr Hnew.
  split; [exact Hs'|]. split; [exact Hnd'|]. split; [rewrite Eo; exact Hq'|]. split; [lia|].
  rewrite Eo, En. intros j o'' Hj. destruct (Nat.eq_dec i j) as [E|E].
  - subst j. unfold set_nth in Hj. rewrite (nth_set_nth_eq _ _ _ _ Hn) in Hj. inversion Hj; subst. exact Hnew.
  - unfold set_nth in Hj. rewrite nth_set_nth_neq in Hj by exact E.
    eapply uinv_frame; [apply Ho, Hj | lia | apply Hfr; congruence].
Qed.

Ltac ufields := unfold pq, pd in *; cbn in *.
Ltac urebuild Hold :=
  let h1 := fresh "h" in let h2 := fresh "h" in let h3 := fresh "h" in let h4 := fresh "h" in
  let h5 := fresh "h" in let h6 := fresh "h" in let h7 := fresh "h" in
  destruct Hold as [h1 h2 h3 h4 h5 h6 h7];
  constructor; ufields;
  repeat match goal with H : ?x = _ |- _ => rewrite H in * end; cbn in *;
  try solve [intuition (try congruence; try lia; eauto)].

(* enqueue of operation i with record o' (whose dueT is d) *)
Lemma inv_enqueue : forall l0 s s' i o o' d,
  Inv l0 s -> nth_error (ops s) i = Some o -> cnt i (q s) = 0%nat ->
  now s' = now s -> lastTime s' = lastTime s -> ops s' = set_nth i o' (ops s) ->
  q s' = insert_timed (d, i) (q s) -> dueT o' = d ->
  uinv l0 (now s) (insert_timed (d, i) (q s)) i o' ->
  Inv l0 s'.
Proof.
  intros l0 s s' i o o' d HI Hn Hc En El Eo Eq Hd Hnew. pose proof HI as [Hs [Hnd [Hq [Hl Ho]]]].
  eapply inv_step_op with (1 := HI) (2 := Hn); eauto; rewrite ?Eq; auto.
  - apply insert_timed_sorted, Hs.
  - apply insert_timed_NoDup_ids; [exact Hnd|]. cbn. apply cnt_zero_notin, Hc.
  - intros x Hx. apply insert_timed_In in Hx. destruct Hx as [-> | Hx].
    + exists o'. cbn. unfold set_nth. rewrite (nth_set_nth_eq _ _ _ _ Hn). auto.
    + apply (uqdue_put_absent (q s) (ops s) i o' Hq); [apply cnt_zero_notin, Hc | exact Hx].
  - intros j Hj. rewrite cnt_insert. cbn. assert (Nat.eqb i j = false) as -> by (apply Nat.eqb_neq; congruence). reflexivity.
Qed.

Lemma start_inv : forall l0 i s s' evs, Inv l0 s -> step_start i s = Some (s', evs) -> crashed s' = false -> Inv l0 s'.
Proof.
  intros l0 i s s' evs HI H Hcr. unfold step_start in H.
  destruct (nth_error (ops s) i) as [o|] eqn:Hn; [|discriminate].
  pose proof HI as [Hs [Hnd [Hq [Hl Ho]]]]. pose proof (Ho i o Hn) as Hold.
  destruct (ph o) eqn:Hp; try discriminate.
  assert (Hc0 : cnt i (q s) = 0%nat) by (rewrite (u_cnt _ _ _ _ _ Hold); unfold pq; rewrite Hp; reflexivity).
  destruct (sreq o) eqn:Hr.
  - unfold cancel_cb in H. cbn [dueT upd] in H.
    destruct (now s <? (if o_after o then now s + o_t o else o_t o)) eqn:El.
    + cbn [links upd] in H. destruct (links o) eqn:Hk.
      * cbn in H. inversion H; subst. cbn in Hcr. discriminate.
      * cbn in H. destruct (crashed s) eqn:Ec; inversion H; subst; clear H; [cbn in Hcr; congruence|].
        eapply inv_enqueue with (1 := HI) (2 := Hn) (d := now s); [exact Hc0 | reflexivity | reflexivity | reflexivity | reflexivity | reflexivity | ].
        urebuild Hold; rewrite ?cnt_insert in *; cbn in *; rewrite ?Nat.eqb_refl in *; try solve [intuition (try congruence; try lia; eauto)].
      * exfalso. destruct (u_new _ _ _ _ _ Hold Hp) as [_ [_ Hx]]. destruct (u_set _ _ _ _ _ Hold) as [Hy _]; [|congruence].
        (* links = LSet at PNew only if l0 = LSet: then the model unlinks nothing *) 
        admit.
    + admit.
  - admit.
Admitted.
