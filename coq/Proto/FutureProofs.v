(* Proofs about the E1 model FutureState (Proto/FutureDefs.v).

   The model has no unbounded parameter: three threads, finitely many program counters and
   flags (deleted / destroyed / roots are ghost counters whose boundedness is part of what is
   proved).  The proofs are therefore by *complete* reachability, done inside Coq:

     reach p     a list of states computed by a work-list search from init p;
     closed      a boolean check that the list contains init p and every successor
                 (by any of the three threads) of every member;
     reach_inv   closed L = true -> for EVERY schedule (any length, any thread ids) the
                 state after the run from init p is a member of L   (induction on the schedule
                 through Base/Sched.run_invariant_state; thread ids >= 3 cannot move).

   A property is then checked on every member of reach p (forallb ... = true by vm_compute)
   and transported to all runs by reach_inv.  Nothing is sampled: if the search were
   incomplete, closed would evaluate to false and the proof would fail. *)
From Coq Require Import List Bool Arith Lia.
From V Require Import Base.Sched Proto.FutureDefs.
Import ListNotations.
Import Future.

(* ------------------------------------------------------------------------------------------ *)
(* decidable equality of states                                                               *)

Definition outcome_eq_dec (a b : outcome) : {a = b} + {a <> b}. Proof. decide equality. Defined.
Definition prog_eq_dec (a b : prog) : {a = b} + {a <> b}. Proof. decide equality. Defined.
Definition fstate_eq_dec (a b : fstate) : {a = b} + {a <> b}. Proof. decide equality. Defined.
Definition evst_eq_dec (a b : evst) : {a = b} + {a <> b}. Proof. decide equality. Defined.
Definition member_eq_dec (a b : member) : {a = b} + {a <> b}. Proof. decide equality. Defined.
Definition result_eq_dec (a b : result) : {a = b} + {a <> b}. Proof. decide equality. Defined.
Definition apc_eq_dec (a b : apc) : {a = b} + {a <> b}. Proof. decide equality. Defined.
Definition opc_eq_dec (a b : opc) : {a = b} + {a <> b}. Proof. decide equality. Defined.
Definition params_eq_dec (a b : params) : {a = b} + {a <> b}.
Proof. decide equality; try apply bool_dec; try apply outcome_eq_dec; apply prog_eq_dec. Defined.
Definition mem_eq_dec (a b : mem) : {a = b} + {a <> b}.
Proof. decide equality; try apply bool_dec; try apply fstate_eq_dec; apply evst_eq_dec. Defined.
Definition ghost_eq_dec (a b : ghost) : {a = b} + {a <> b}.
Proof.
  decide equality; try apply bool_dec; try apply Nat.eq_dec.
  - apply (list_eq_dec result_eq_dec).
  - apply (list_eq_dec member_eq_dec).
  - decide equality. apply member_eq_dec.
Defined.
Definition fpc_eq_dec (a b : fpc) : {a = b} + {a <> b}.
Proof. decide equality; try apply bool_dec; try apply fstate_eq_dec; try apply apc_eq_dec; apply result_eq_dec. Defined.
Definition spc_eq_dec (a b : spc) : {a = b} + {a <> b}.
Proof. decide equality; try apply bool_dec; apply apc_eq_dec. Defined.
Definition st_eq_dec (a b : st) : {a = b} + {a <> b}.
Proof.
  decide equality.
  - apply spc_eq_dec. - apply fpc_eq_dec. - apply opc_eq_dec.
  - apply ghost_eq_dec. - apply mem_eq_dec. - apply params_eq_dec.
Defined.

Definition mem_st (x : st) (L : list st) : bool := if in_dec st_eq_dec x L then true else false.

Lemma mem_st_In x L : mem_st x L = true <-> In x L.
Proof. unfold mem_st. destruct (in_dec st_eq_dec x L); split; auto; discriminate. Qed.

(* ------------------------------------------------------------------------------------------ *)
(* complete reachability                                                                      *)

Definition succs (s : st) : list st :=
  flat_map (fun t => match step t s with Some (s', _) => [s'] | None => [] end) [0; 1; 2].

Fixpoint explore (fuel : nat) (seen todo : list st) : list st :=
  match fuel with
  | O => seen
  | S f =>
      match todo with
      | [] => seen
      | s :: rest =>
          if mem_st s seen then explore f seen rest
          else explore f (s :: seen) (succs s ++ rest)
      end
  end.

Definition reach (p : params) : list st := explore 4000 [] [init p].

Definition closed (p : params) (L : list st) : bool :=
  mem_st (init p) L && forallb (fun s => forallb (fun s' => mem_st s' L) (succs s)) L.

Lemma step_tid t s : 3 <= t -> step t s = None.
Proof. intros H. unfold step. destruct t as [|[|[|t]]]; try lia. reflexivity. Qed.

Lemma succs_step t s s' evs : step t s = Some (s', evs) -> In s' (succs s).
Proof.
  intros H. unfold succs. apply in_flat_map.
  destruct (le_lt_dec 3 t) as [Hge|Hlt].
  - rewrite (step_tid t s Hge) in H. discriminate.
  - exists t. split.
    + destruct t as [|[|[|t]]]; cbn; auto. lia.
    + rewrite H. left. reflexivity.
Qed.

Theorem reach_inv p L :
  closed p L = true ->
  forall (sched : list nat) (tr : list ev), In (fst (run step sched (init p, tr))) L.
Proof.
  intros Hc sched tr. unfold closed in Hc. apply andb_true_iff in Hc as [Hi Hs].
  apply (run_invariant_state st nat ev step (fun s => In s L)).
  - intros s t s' evs Hin Hst. rewrite forallb_forall in Hs.
    specialize (Hs s Hin). rewrite forallb_forall in Hs.
    apply mem_st_In. apply Hs. eapply succs_step; eauto.
  - apply mem_st_In. exact Hi.
Qed.

(* a boolean property of states that holds on the whole of L holds after every run *)
Corollary reach_forall p L (P : st -> bool) :
  closed p L = true -> forallb P L = true ->
  forall (sched : list nat) (tr : list ev), P (fst (run step sched (init p, tr))) = true.
Proof.
  intros Hc HP sched tr. rewrite forallb_forall in HP. apply HP. apply reach_inv. exact Hc.
Qed.

Definition all_params (f : params -> bool) : bool :=
  forallb (fun fx => forallb (fun o => forallb (fun ft => forallb (fun pr =>
     f {| p_fixed := fx; p_out := o; p_fault := ft; p_prog := pr |})
     [PDrop; PAwait; PStop]) [false; true]) [OVal; OErr; ODone]) [false; true].

Lemma all_params_sound f : all_params f = true -> forall p, f p = true.
Proof.
  unfold all_params. intros H [fx o ft pr].
  rewrite forallb_forall in H. specialize (H fx).
  assert (Hfx : In fx [false; true]) by (destruct fx; cbn; auto). specialize (H Hfx).
  rewrite forallb_forall in H. specialize (H o).
  assert (Ho : In o [OVal; OErr; ODone]) by (destruct o; cbn; auto). specialize (H Ho).
  rewrite forallb_forall in H. specialize (H ft).
  assert (Hft : In ft [false; true]) by (destruct ft; cbn; auto). specialize (H Hft).
  rewrite forallb_forall in H. apply H. destruct pr; cbn; auto.
Qed.

Lemma reach_closed_all : all_params (fun p => closed p (reach p)) = true.
Proof. vm_compute. reflexivity. Qed.

Lemma reach_closed p : closed p (reach p) = true.
Proof. apply (all_params_sound _ reach_closed_all). Qed.


Lemma cfg_reach : all_params (fun p => forallb (fun s => if params_eq_dec (cfg s) p then true else false) (reach p)) = true.
Proof. vm_compute. reflexivity. Qed.

Lemma implb_elim a b : implb a b = true -> a = true -> b = true.
Proof. intros H ->. exact H. Qed.

(* generic transport: a boolean state property checked on reach p for every parameter
   satisfying cond holds after every run *)
Lemma all_runs (cond : params -> bool) (P : st -> bool) :
  all_params (fun p => implb (cond p) (forallb P (reach p))) = true ->
  forall p sched tr, cond p = true -> P (fst (run step sched (init p, tr))) = true.
Proof.
  intros H p sched tr Hc.
  exact (reach_forall p (reach p) P (reach_closed p)
           (implb_elim _ _ (all_params_sound _ H p) Hc) sched tr).
Qed.

(* per-step relations checked on every reachable state *)
Definition step_checked (R : st -> st -> list ev -> bool) (s : st) : bool :=
  forallb (fun t => match step t s with Some (s', evs) => R s s' evs | None => true end) [0; 1; 2].

Lemma step_checked_sound R s t s' evs :
  step_checked R s = true -> step t s = Some (s', evs) -> R s s' evs = true.
Proof.
  intros H Hs. unfold step_checked in H. rewrite forallb_forall in H.
  destruct (le_lt_dec 3 t) as [Hge|Hlt]; [rewrite (step_tid t s Hge) in Hs; discriminate|].
  assert (Hin : In t [0; 1; 2]) by (destruct t as [|[|[|t]]]; cbn; auto; lia).
  specialize (H t Hin). rewrite Hs in H. exact H.
Qed.

(* configuration (state + trace) invariants whose step case is discharged by a checked
   per-step relation; first for an arbitrary closed list L *)
Lemma conf_inv_L p L (R : st -> st -> list ev -> bool) (Q : conf st ev -> Prop) :
  closed p L = true -> forallb (step_checked R) L = true ->
  (forall c s' evs, R (fst c) s' evs = true -> Q c -> Q (s', snd c ++ evs)) ->
  Q (init p, []) ->
  forall sched, Q (run step sched (init p, [])).
Proof.
  intros Hcl Hp HQ H0 sched.
  unfold closed in Hcl. apply andb_true_iff in Hcl as [Hi Hcl].
  rewrite forallb_forall in Hp. rewrite forallb_forall in Hcl.
  assert (HI : In (fst (run step sched (init p, []))) L /\ Q (run step sched (init p, []))).
  { apply (run_invariant st nat ev step (fun c => In (fst c) L /\ Q c)).
    - intros c t s' evs [Hin Hq] Hs. split.
      + cbn [fst]. specialize (Hcl _ Hin). rewrite forallb_forall in Hcl.
        apply mem_st_In, Hcl. eapply succs_step; eauto.
      + apply HQ; [|exact Hq]. eapply step_checked_sound; eauto.
    - split; [|exact H0]. cbn [fst]. apply mem_st_In. exact Hi. }
  tauto.
Qed.

Lemma conf_inv (cond : params -> bool) (R : st -> st -> list ev -> bool) (Q : conf st ev -> Prop) :
  all_params (fun p => implb (cond p) (forallb (step_checked R) (reach p))) = true ->
  (forall c s' evs, R (fst c) s' evs = true -> Q c -> Q (s', snd c ++ evs)) ->
  forall p, cond p = true -> Q (init p, []) ->
  forall sched, Q (run step sched (init p, [])).
Proof.
  intros H HQ p Hc H0.
  exact (conf_inv_L p (reach p) R Q (reach_closed p)
           (implb_elim _ _ (all_params_sound _ H p) Hc) HQ H0).
Qed.

(* ------------------------------------------------------------------------------------------ *)
(* the boolean checkers and what they mean                                                    *)

Definition is_fixed (p : params) : bool := p_fixed p.
(* the code as written, away from finding 7: not (value, the copy throws, future dropped) *)
Definition away7 (p : params) : bool :=
  negb (match p_out p, p_prog p with OVal, PDrop => p_fault p | _, _ => false end).
(* away from finding 13: no stop request on the awaiting receiver *)
Definition away13 (p : params) : bool := match p_prog p with PStop => false | _ => true end.
Definition safe_params (p : params) : bool := p_fixed p || (away7 p && away13 p).

Definition members_eqb (a b : list member) : bool := if list_eq_dec member_eq_dec a b then true else false.
Definition results_eqb (a b : list result) : bool := if list_eq_dec result_eq_dec a b then true else false.
Definition prog_eqb (a b : prog) : bool := if prog_eq_dec a b then true else false.

Definition chk_deleted (s : st) : bool :=
  (deleted (g s) <=? 1) && (if quiescent s then deleted (g s) =? 1 else true).

Definition expected_destroyed (s : st) : list member :=
  match constructed (g s) with Some c => [c] | None => [] end.

Definition chk_member (s : st) : bool :=
  (members_eqb (destroyed (g s)) [] || members_eqb (destroyed (g s)) (expected_destroyed s)) &&
  (if quiescent s then members_eqb (destroyed (g s)) (expected_destroyed s) else true).

Definition expected_roots (s : st) : list result :=
  match p_prog (cfg s) with
  | PDrop => []
  | _ => [if ab_won (g s) then RDone else expected (cfg s)]
  end.

Definition chk_result (s : st) : bool :=
  (length (roots (g s)) <=? 1) &&
  (if quiescent s then results_eqb (roots (g s)) (expected_roots s) else true) &&
  (results_eqb (roots (g s)) [] || results_eqb (roots (g s)) (expected_roots s)) &&
  implb (ab_won (g s)) (ext_stop (m s) && prog_eqb (p_prog (cfg s)) PStop) &&
  negb (ab_won (g s) && op_won (g s)) &&
  (if quiescent s && negb (prog_eqb (p_prog (cfg s)) PDrop) then ab_won (g s) || op_won (g s) else true).

Definition chk_stops (s : st) : bool :=
  (if quiescent s then
     implb (negb (op_won (g s))) (src_stop (g s)) && implb (drop_init (g s)) (src_stop (g s)) &&
     implb (ab_won (g s)) (src_stop (g s))
   else true) &&
  implb (src_stop (g s)) (prog_eqb (p_prog (cfg s)) PDrop || ext_stop (m s)).

Definition chk_safe (s : st) : bool := negb (uaf (g s)) && negb (bad (g s)).

Definition chk_progress (s : st) : bool :=
  quiescent s || existsb (fun t => match step t s with Some _ => true | None => false end) [0; 1; 2].

Lemma fixed_deleted : all_params (fun p => implb true (forallb chk_deleted (reach p))) = true.
Proof. vm_compute. reflexivity. Qed.
Lemma chk_member_ok : all_params (fun p => implb (p_fixed p || away7 p) (forallb chk_member (reach p))) = true.
Proof. vm_compute. reflexivity. Qed.
Lemma chk_result_ok : all_params (fun p => implb true (forallb chk_result (reach p))) = true.
Proof. vm_compute. reflexivity. Qed.
Lemma chk_stops_ok : all_params (fun p => implb true (forallb chk_stops (reach p))) = true.
Proof. vm_compute. reflexivity. Qed.
Lemma chk_safe_ok : all_params (fun p => implb (p_fixed p || away13 p) (forallb chk_safe (reach p))) = true.
Proof. vm_compute. reflexivity. Qed.
Lemma chk_progress_ok : all_params (fun p => implb true (forallb chk_progress (reach p))) = true.
Proof. vm_compute. reflexivity. Qed.
