(* Proofs about the E1 model FutureState (Proto/FutureDefs.v).

   The model has no unbounded parameter: three threads, finitely many program counters and
   flags (deleted / destroyed / roots are ghost counters whose boundedness is part of what is
   proved).  The proofs are therefore by *complete* reachability, done inside Coq:

     reach p     a list of states computed by a work-list search from init p;
     closed      a boolean check that the list contains init p and every successor
                 (by any of the three threads) of every member;
     reach_inv   closed L = true -> for EVERY schedule (any length, any thread ids) the
                 state after the run from init p is a member of L   (induction on the schedule
                 through Base/Sched.run_invariant_state; thread ids >= 3 cannot move).

   A property is then checked on every member of reach p (forallb ... = true by vm_compute)
   and transported to all runs by reach_inv.  Nothing is sampled: if the search were
   incomplete, closed would evaluate to false and the proof would fail. *)
From Coq Require Import List Bool Arith Lia.
From V Require Import Base.Sched Proto.FutureDefs.
Import ListNotations.
Import Future.

(* ------------------------------------------------------------------------------------------ *)
(* decidable equality of states                                                               *)

Definition outcome_eq_dec (a b : outcome) : {a = b} + {a <> b}. Proof. decide equality. Defined.
Definition prog_eq_dec (a b : prog) : {a = b} + {a <> b}. Proof. decide equality. Defined.
Definition fstate_eq_dec (a b : fstate) : {a = b} + {a <> b}. Proof. decide equality. Defined.
Definition evst_eq_dec (a b : evst) : {a = b} + {a <> b}. Proof. decide equality. Defined.
Definition member_eq_dec (a b : member) : {a = b} + {a <> b}. Proof. decide equality. Defined.
Definition result_eq_dec (a b : result) : {a = b} + {a <> b}. Proof. decide equality. Defined.
Definition apc_eq_dec (a b : apc) : {a = b} + {a <> b}. Proof. decide equality. Defined.
Definition opc_eq_dec (a b : opc) : {a = b} + {a <> b}. Proof. decide equality. Defined.
Definition params_eq_dec (a b : params) : {a = b} + {a <> b}.
Proof. decide equality; try apply bool_dec; try apply outcome_eq_dec; apply prog_eq_dec. Defined.
Definition mem_eq_dec (a b : mem) : {a = b} + {a <> b}.
Proof. decide equality; try apply bool_dec; try apply fstate_eq_dec; apply evst_eq_dec. Defined.
Definition ghost_eq_dec (a b : ghost) : {a = b} + {a <> b}.
Proof.
  decide equality; try apply bool_dec; try apply Nat.eq_dec.
  - apply (list_eq_dec result_eq_dec).
  - apply (list_eq_dec member_eq_dec).
  - decide equality. apply member_eq_dec.
Defined.
Definition fpc_eq_dec (a b : fpc) : {a = b} + {a <> b}.
Proof. decide equality; try apply bool_dec; try apply fstate_eq_dec; try apply apc_eq_dec; apply result_eq_dec. Defined.
Definition spc_eq_dec (a b : spc) : {a = b} + {a <> b}.
Proof. decide equality; try apply bool_dec; apply apc_eq_dec. Defined.
Definition st_eq_dec (a b : st) : {a = b} + {a <> b}.
Proof.
  decide equality.
  - apply spc_eq_dec. - apply fpc_eq_dec. - apply opc_eq_dec.
  - apply ghost_eq_dec. - apply mem_eq_dec. - apply params_eq_dec.
Defined.

Definition mem_st (x : st) (L : list st) : bool := if in_dec st_eq_dec x L then true else false.

Lemma mem_st_In x L : mem_st x L = true <-> In x L.
Proof. unfold mem_st. destruct (in_dec st_eq_dec x L); split; auto; discriminate. Qed.

(* ------------------------------------------------------------------------------------------ *)
(* complete reachability                                                                      *)

Definition succs (s : st) : list st :=
  flat_map (fun t => match step t s with Some (s', _) => [s'] | None => [] end) [0; 1; 2].

Fixpoint explore (fuel : nat) (seen todo : list st) : list st :=
  match fuel with
  | O => seen
  | S f =>
      match todo with
      | [] => seen
      | s :: rest =>
          if mem_st s seen then explore f seen rest
          else explore f (s :: seen) (succs s ++ rest)
      end
  end.

Definition reach (p : params) : list st := explore 4000 [] [init p].

Definition closed (p : params) (L : list st) : bool :=
  mem_st (init p) L && forallb (fun s => forallb (fun s' => mem_st s' L) (succs s)) L.

Lemma step_tid t s : 3 <= t -> step t s = None.
Proof. intros H. unfold step. destruct t as [|[|[|t]]]; try lia. reflexivity. Qed.

Lemma succs_step t s s' evs : step t s = Some (s', evs) -> In s' (succs s).
Proof.
  intros H. unfold succs. apply in_flat_map.
  destruct (le_lt_dec 3 t) as [Hge|Hlt].
  - rewrite (step_tid t s Hge) in H. discriminate.
  - exists t. split.
    + destruct t as [|[|[|t]]]; cbn; auto. lia.
    + rewrite H. left. reflexivity.
Qed.

Theorem reach_inv p L :
  closed p L = true ->
  forall (sched : list nat) (tr : list ev), In (fst (run step sched (init p, tr))) L.
Proof.
  intros Hc sched tr. unfold closed in Hc. apply andb_true_iff in Hc as [Hi Hs].
  apply (run_invariant_state st nat ev step (fun s => In s L)).
  - intros s t s' evs Hin Hst. rewrite forallb_forall in Hs.
    specialize (Hs s Hin). rewrite forallb_forall in Hs.
    apply mem_st_In. apply Hs. eapply succs_step; eauto.
  - apply mem_st_In. exact Hi.
Qed.

(* a boolean property of states that holds on the whole of L holds after every run *)
Corollary reach_forall p L (P : st -> bool) :
  closed p L = true -> forallb P L = true ->
  forall (sched : list nat) (tr : list ev), P (fst (run step sched (init p, tr))) = true.
Proof.
  intros Hc HP sched tr. rewrite forallb_forall in HP. apply HP. apply reach_inv. exact Hc.
Qed.

Definition all_params (f : params -> bool) : bool :=
  forallb (fun fx => forallb (fun o => forallb (fun ft => forallb (fun pr =>
     f {| p_fixed := fx; p_out := o; p_fault := ft; p_prog := pr |})
     [PDrop; PAwait; PStop; PConnDrop]) [false; true]) [OVal; OErr; ODone]) [false; true].

Lemma all_params_sound f : all_params f = true -> forall p, f p = true.
Proof.
  unfold all_params. intros H [fx o ft pr].
  rewrite forallb_forall in H. specialize (H fx).
  assert (Hfx : In fx [false; true]) by (destruct fx; cbn; auto). specialize (H Hfx).
  rewrite forallb_forall in H. specialize (H o).
  assert (Ho : In o [OVal; OErr; ODone]) by (destruct o; cbn; auto). specialize (H Ho).
  rewrite forallb_forall in H. specialize (H ft).
  assert (Hft : In ft [false; true]) by (destruct ft; cbn; auto). specialize (H Hft).
  rewrite forallb_forall in H. apply H. destruct pr; cbn; auto.
Qed.

Lemma reach_closed_all : all_params (fun p => closed p (reach p)) = true.
Proof. vm_cast_no_check (eq_refl true). Qed.

Lemma reach_closed p : closed p (reach p) = true.
Proof. apply (all_params_sound _ reach_closed_all). Qed.


Definition chk_cfg (p : params) (s : st) : bool := if params_eq_dec (cfg s) p then true else false.
Lemma cfg_reach : all_params (fun p => forallb (chk_cfg p) (reach p)) = true.
Proof. vm_cast_no_check (eq_refl true). Qed.

Lemma implb_elim a b : implb a b = true -> a = true -> b = true.
Proof. intros H ->. exact H. Qed.

(* generic transport: a boolean state property checked on reach p for every parameter
   satisfying cond holds after every run *)
Lemma all_runs (cond : params -> bool) (P : st -> bool) :
  all_params (fun p => implb (cond p) (forallb P (reach p))) = true ->
  forall p sched tr, cond p = true -> P (fst (run step sched (init p, tr))) = true.
Proof.
  intros H p sched tr Hc.
  exact (reach_forall p (reach p) P (reach_closed p)
           (implb_elim _ _ (all_params_sound _ H p) Hc) sched tr).
Qed.

(* per-step relations checked on every reachable state *)
Definition step_checked (R : st -> st -> list ev -> bool) (s : st) : bool :=
  forallb (fun t => match step t s with Some (s', evs) => R s s' evs | None => true end) [0; 1; 2].

Lemma step_checked_sound R s t s' evs :
  step_checked R s = true -> step t s = Some (s', evs) -> R s s' evs = true.
Proof.
  intros H Hs. unfold step_checked in H. rewrite forallb_forall in H.
  destruct (le_lt_dec 3 t) as [Hge|Hlt]; [rewrite (step_tid t s Hge) in Hs; discriminate|].
  assert (Hin : In t [0; 1; 2]) by (destruct t as [|[|[|t]]]; cbn; auto; lia).
  specialize (H t Hin). rewrite Hs in H. exact H.
Qed.

(* configuration (state + trace) invariants whose step case is discharged by a checked
   per-step relation; first for an arbitrary closed list L *)
Lemma conf_inv_L p L (R : st -> st -> list ev -> bool) (Q : conf st ev -> Prop) :
  closed p L = true -> forallb (step_checked R) L = true ->
  (forall c s' evs, R (fst c) s' evs = true -> Q c -> Q (s', snd c ++ evs)) ->
  Q (init p, []) ->
  forall sched, Q (run step sched (init p, [])).
Proof.
  intros Hcl Hp HQ H0 sched.
  unfold closed in Hcl. apply andb_true_iff in Hcl as [Hi Hcl].
  rewrite forallb_forall in Hp. rewrite forallb_forall in Hcl.
  assert (HI : In (fst (run step sched (init p, []))) L /\ Q (run step sched (init p, []))).
  { apply (run_invariant st nat ev step (fun c => In (fst c) L /\ Q c)).
    - intros c t s' evs [Hin Hq] Hs. split.
      + cbn [fst]. specialize (Hcl _ Hin). rewrite forallb_forall in Hcl.
        apply mem_st_In, Hcl. eapply succs_step; eauto.
      + apply HQ; [|exact Hq]. eapply step_checked_sound; eauto.
    - split; [|exact H0]. cbn [fst]. apply mem_st_In. exact Hi. }
  tauto.
Qed.

Lemma conf_inv (cond : params -> bool) (R : st -> st -> list ev -> bool) (Q : conf st ev -> Prop) :
  all_params (fun p => implb (cond p) (forallb (step_checked R) (reach p))) = true ->
  (forall c s' evs, R (fst c) s' evs = true -> Q c -> Q (s', snd c ++ evs)) ->
  forall p, cond p = true -> Q (init p, []) ->
  forall sched, Q (run step sched (init p, [])).
Proof.
  intros H HQ p Hc H0.
  exact (conf_inv_L p (reach p) R Q (reach_closed p)
           (implb_elim _ _ (all_params_sound _ H p) Hc) HQ H0).
Qed.

(* ------------------------------------------------------------------------------------------ *)
(* the boolean checkers and what they mean                                                    *)

Definition is_fixed (p : params) : bool := p_fixed p.
(* the code as written, away from finding 7: not (value, the copy throws, future dropped) *)
Definition away7 (p : params) : bool :=
  negb (match p_out p, p_prog p with OVal, (PDrop | PConnDrop) => p_fault p | _, _ => false end).
(* away from finding 13: no stop request while the future is awaited *)
Definition away13 (p : params) : bool := match p_prog p with PStop => false | _ => true end.
(* away from finding 14: the future is not destroyed between connect and start *)
Definition away14 (p : params) : bool := match p_prog p with PConnDrop => false | _ => true end.
Definition awaited (p : params) : bool := match p_prog p with PAwait | PStop => true | _ => false end.

Definition members_eqb (a b : list member) : bool := if list_eq_dec member_eq_dec a b then true else false.
Definition results_eqb (a b : list result) : bool := if list_eq_dec result_eq_dec a b then true else false.
Definition prog_eqb (a b : prog) : bool := if prog_eq_dec a b then true else false.

Definition chk_deleted (s : st) : bool :=
  (deleted (g s) <=? 1) && (if quiescent s then deleted (g s) =? 1 else true).

Definition expected_destroyed (s : st) : list member :=
  match constructed (g s) with Some c => [c] | None => [] end.

Definition chk_member (s : st) : bool :=
  (members_eqb (destroyed (g s)) [] || members_eqb (destroyed (g s)) (expected_destroyed s)) &&
  (if quiescent s then members_eqb (destroyed (g s)) (expected_destroyed s) else true).

Definition expected_roots (s : st) : list result :=
  if awaited (cfg s) then [if ab_won (g s) then RDone else expected (cfg s)] else [].

Definition chk_result (s : st) : bool :=
  (length (roots (g s)) <=? 1) &&
  (if quiescent s then results_eqb (roots (g s)) (expected_roots s) else true) &&
  (results_eqb (roots (g s)) [] || results_eqb (roots (g s)) (expected_roots s)) &&
  implb (ab_won (g s)) (ext_stop (m s) && negb (away13 (cfg s) && away14 (cfg s))) &&
  negb (ab_won (g s) && op_won (g s)) &&
  (if quiescent s && awaited (cfg s) then ab_won (g s) || op_won (g s) else true).

Definition chk_stops (s : st) : bool :=
  (if quiescent s then
     implb (negb (op_won (g s))) (src_stop (g s)) && implb (drop_init (g s)) (src_stop (g s)) &&
     implb (ab_won (g s)) (src_stop (g s))
   else true) &&
  implb (src_stop (g s)) (negb (awaited (cfg s)) || ext_stop (m s)).

Definition chk_safe (s : st) : bool := negb (uaf (g s)) && negb (bad (g s)).

Definition chk_progress (s : st) : bool :=
  quiescent s || existsb (fun t => match step t s with Some _ => true | None => false end) [0; 1; 2].

Lemma chk_deleted_ok : all_params (fun p => implb (p_fixed p || away14 p) (forallb chk_deleted (reach p))) = true.
Proof. vm_cast_no_check (eq_refl true). Qed.
Lemma chk_member_ok : all_params (fun p => implb (p_fixed p || (away7 p && away14 p)) (forallb chk_member (reach p))) = true.
Proof. vm_cast_no_check (eq_refl true). Qed.
Lemma chk_result_ok : all_params (fun p => implb true (forallb chk_result (reach p))) = true.
Proof. vm_cast_no_check (eq_refl true). Qed.
Lemma chk_stops_ok : all_params (fun p => implb true (forallb chk_stops (reach p))) = true.
Proof. vm_cast_no_check (eq_refl true). Qed.
Lemma chk_safe_ok : all_params (fun p => implb (p_fixed p || (away13 p && away14 p)) (forallb chk_safe (reach p))) = true.
Proof. vm_cast_no_check (eq_refl true). Qed.
Lemma chk_progress_ok : all_params (fun p => implb true (forallb chk_progress (reach p))) = true.
Proof. vm_cast_no_check (eq_refl true). Qed.

(* ------------------------------------------------------------------------------------------ *)
(* from the checkers to propositions                                                          *)

Lemma members_eqb_eq a b : members_eqb a b = true -> a = b.
Proof. unfold members_eqb. destruct (list_eq_dec member_eq_dec a b); [auto|discriminate]. Qed.
Lemma results_eqb_eq a b : results_eqb a b = true -> a = b.
Proof. unfold results_eqb. destruct (list_eq_dec result_eq_dec a b); [auto|discriminate]. Qed.
Lemma prog_eqb_eq a b : prog_eqb a b = true -> a = b.
Proof. unfold prog_eqb. destruct (prog_eq_dec a b); [auto|discriminate]. Qed.
Lemma prog_eqb_neq a b : prog_eqb a b = false -> a <> b.
Proof. unfold prog_eqb. destruct (prog_eq_dec a b); [discriminate|auto]. Qed.

Definition final (p : params) (sched : list nat) : st := fst (run step sched (init p, [])).

Lemma cfg_final p sched : cfg (final p sched) = p.
Proof.
  pose proof (reach_forall p (reach p) (chk_cfg p) (reach_closed p)
                (all_params_sound _ cfg_reach p) sched []) as H.
  unfold final. unfold chk_cfg in H.
  destruct (params_eq_dec (cfg (fst (run step sched (init p, [])))) p); [auto|discriminate].
Qed.

Section Main.
  Variable p : params.
  Variable sched : list nat.
  Let s := final p sched.

  (* 1. the shared state is deleted at most once, and exactly once when everybody is done *)
  Theorem deleted_once :
    p_fixed p || away14 p = true ->
    deleted (g s) <= 1 /\ (quiescent s = true -> deleted (g s) = 1).
  Proof.
    intros Hc.
    pose proof (all_runs (fun p => p_fixed p || away14 p) chk_deleted chk_deleted_ok p sched [] Hc) as H.
    fold (final p sched) in H. fold s in H. unfold chk_deleted in H.
    apply andb_true_iff in H as [H1 H2]. apply Nat.leb_le in H1. split; [exact H1|].
    intros Hq. rewrite Hq in H2. apply Nat.eqb_eq in H2. exact H2.
  Qed.

  (* 2. a destructor runs on a result member at most once, only on the member that was
        constructed, and at quiescence exactly the constructed member has been destroyed *)
  Theorem result_destroyed_once_and_matching :
    p_fixed p || (away7 p && away14 p) = true ->
    (destroyed (g s) = [] \/ exists c, constructed (g s) = Some c /\ destroyed (g s) = [c]) /\
    (quiescent s = true ->
       destroyed (g s) = match constructed (g s) with Some c => [c] | None => [] end).
  Proof.
    intros Hc.
    pose proof (all_runs (fun p => p_fixed p || (away7 p && away14 p)) chk_member chk_member_ok p sched [] Hc) as H.
    fold (final p sched) in H. fold s in H. unfold chk_member in H.
    apply andb_true_iff in H as [H1 H2]. split.
    - apply orb_true_iff in H1 as [H1|H1]; apply members_eqb_eq in H1; [left; exact H1|].
      unfold expected_destroyed in H1. destruct (constructed (g s)) as [c|]; [right; eauto|left; exact H1].
    - intros Hq. rewrite Hq in H2. apply members_eqb_eq in H2. exact H2.
  Qed.

  (* 3. the awaiting receiver is completed at most once; at quiescence exactly once for an
        awaited future (never for a dropped one) with: done if the future was cancelled before
        the result was available (abandon won the race from init), otherwise the operation's own
        result -- a result that is already there wins over a stop request.  For an awaited
        future exactly one of abandon / complete wins the race from init. *)
  Theorem future_result :
    length (roots (g s)) <= 1 /\
    (roots (g s) = [] \/
     roots (g s) = [if ab_won (g s) then RDone else expected p]) /\
    (quiescent s = true ->
       roots (g s) = if awaited p then [if ab_won (g s) then RDone else expected p] else []) /\
    (ab_won (g s) = true -> ext_stop (m s) = true /\ (p_prog p = PStop \/ p_prog p = PConnDrop)) /\
    (ab_won (g s) = true -> op_won (g s) = true -> False) /\
    (quiescent s = true -> awaited p = true -> ab_won (g s) = true \/ op_won (g s) = true).
  Proof.
    pose proof (all_runs (fun _ => true) chk_result chk_result_ok p sched [] eq_refl) as H.
    fold (final p sched) in H. fold s in H. unfold chk_result in H.
    pose proof (cfg_final p sched) as Hcfg. fold s in Hcfg.
    apply andb_true_iff in H as [H HF]. apply andb_true_iff in H as [H HE].
    apply andb_true_iff in H as [H HD]. apply andb_true_iff in H as [H HC].
    apply andb_true_iff in H as [HA HB].
    unfold expected_roots in *. rewrite Hcfg in *.
    split; [apply Nat.leb_le; exact HA|].
    split.
    { apply orb_true_iff in HC as [HC|HC]; apply results_eqb_eq in HC; [left; exact HC|].
      destruct (awaited p); [right|left]; exact HC. }
    split.
    { intros Hq. rewrite Hq in HB. apply results_eqb_eq. exact HB. }
    split.
    { intros Ha. rewrite Ha in HD. cbn in HD. apply andb_true_iff in HD as [HD1 HD2].
      split; [exact HD1|]. unfold away13, away14 in HD2.
      destruct (p_prog p); cbn in HD2; try discriminate; auto. }
    split.
    { intros Ha Ho. rewrite Ha, Ho in HE. discriminate. }
    intros Hq Hw. rewrite Hq, Hw in HF. cbn in HF. apply orb_true_iff. exact HF.
  Qed.

  (* 4. dropping or cancelling the future requests stop on the spawned operation: whenever the
        operation finds the future gone (its CAS from init fails), whenever drop saw init and
        whenever abandon won, stopSource_.request_stop has been called by quiescence; and it is
        only ever called because the future was dropped or a stop request reached it *)
  Theorem drop_or_cancel_stops_op :
    (quiescent s = true ->
       (op_won (g s) = false -> src_stop (g s) = true) /\
       (drop_init (g s) = true -> src_stop (g s) = true) /\
       (ab_won (g s) = true -> src_stop (g s) = true)) /\
    (src_stop (g s) = true -> awaited p = false \/ ext_stop (m s) = true).
  Proof.
    pose proof (all_runs (fun _ => true) chk_stops chk_stops_ok p sched [] eq_refl) as H.
    fold (final p sched) in H. fold s in H. unfold chk_stops in H.
    pose proof (cfg_final p sched) as Hcfg. fold s in Hcfg. rewrite Hcfg in H.
    apply andb_true_iff in H as [H1 H2]. split.
    - intros Hq. rewrite Hq in H1.
      apply andb_true_iff in H1 as [H1 H3]. apply andb_true_iff in H1 as [H1 H4].
      repeat split; intros Hx; rewrite Hx in *; cbn in *; assumption.
    - intros Hx. rewrite Hx in H2. cbn in H2. apply orb_true_iff in H2 as [H2|H2];
        [left; apply negb_true_iff; exact H2|right; exact H2].
  Qed.

  (* 5. no step touches the shared state after it was freed, and no branch guarded by an
        assertion / std::terminate is taken *)
  Theorem no_access_after_delete :
    p_fixed p || (away13 p && away14 p) = true -> uaf (g s) = false /\ bad (g s) = false.
  Proof.
    intros Hc.
    pose proof (all_runs (fun p => p_fixed p || (away13 p && away14 p)) chk_safe chk_safe_ok p sched [] Hc) as H.
    fold (final p sched) in H. fold s in H. unfold chk_safe in H.
    apply andb_true_iff in H as [H1 H2]. split; apply negb_true_iff; assumption.
  Qed.

  (* 6. no deadlock: in a non-quiescent reachable state some thread can move *)
  Theorem progress : quiescent s = false -> exists t, step t s <> None.
  Proof.
    intros Hq.
    pose proof (all_runs (fun _ => true) chk_progress chk_progress_ok p sched [] eq_refl) as H.
    fold (final p sched) in H. fold s in H. unfold chk_progress in H. rewrite Hq in H.
    cbn [orb] in H. apply existsb_exists in H as (t & _ & Ht). exists t.
    destruct (step t s); [discriminate|discriminate Ht].
  Qed.
End Main.

(* ------------------------------------------------------------------------------------------ *)
(* trace level                                                                                *)

Definition root_evs (tr : list ev) : list result :=
  flat_map (fun e => match e with ERoot r => [r] | _ => [] end) tr.
Definition is_dealloc (e : ev) : bool := match e with EDealloc => true | _ => false end.
(* events that access the shared state *)
Definition shared_ev (e : ev) : bool :=
  match e with
  | EStL _ | EStLa _ | EStS _ | EStC _ _ _ _ | EEvX _ | EEvL _ | EEvC _ _ | ESrcSet | ESrcEnd
  | EValCtor | EValDtor _ => true
  | _ => false
  end.
Definition no_shared (tr : list ev) : bool := forallb (fun e => negb (shared_ev e)) tr.
(* nothing touches the shared state after the first deallocation *)
Fixpoint trace_safe (tr : list ev) : bool :=
  match tr with
  | [] => true
  | e :: r => if is_dealloc e then no_shared r else trace_safe r
  end.

Lemma root_evs_app a b : root_evs (a ++ b) = root_evs a ++ root_evs b.
Proof. unfold root_evs. apply flat_map_app. Qed.

Definition R_roots (s s' : st) (evs : list ev) : bool :=
  results_eqb (roots (g s')) (rev (root_evs evs) ++ roots (g s)).
Definition R_dealloc (s s' : st) (evs : list ev) : bool :=
  deleted (g s') =? deleted (g s) + length (filter is_dealloc evs).
Definition R_safe (s s' : st) (evs : list ev) : bool :=
  (if freed (g s) then no_shared evs else trace_safe evs) &&
  implb (existsb is_dealloc evs) (freed (g s')) && implb (freed (g s)) (freed (g s')).

Lemma R_roots_ok : all_params (fun p => implb true (forallb (step_checked R_roots) (reach p))) = true.
Proof. vm_cast_no_check (eq_refl true). Qed.
Lemma R_dealloc_ok : all_params (fun p => implb true (forallb (step_checked R_dealloc) (reach p))) = true.
Proof. vm_cast_no_check (eq_refl true). Qed.
Lemma R_safe_ok : all_params (fun p => implb (p_fixed p || away13 p) (forallb (step_checked R_safe) (reach p))) = true.
Proof. vm_cast_no_check (eq_refl true). Qed.

(* the ERoot events of the trace are the recorded completions, in order *)
Theorem trace_roots p sched :
  let c := run step sched (init p, []) in root_evs (snd c) = rev (roots (g (fst c))).
Proof.
  cbv zeta.
  apply (conf_inv (fun _ => true) R_roots
           (fun c => root_evs (snd c) = rev (roots (g (fst c)))) R_roots_ok); [|reflexivity|reflexivity].
  intros c s' evs HR HQ. cbn [fst snd]. unfold R_roots in HR. apply results_eqb_eq in HR.
  rewrite root_evs_app, HQ, HR, rev_app_distr, rev_involutive. reflexivity.
Qed.

(* the EDealloc events of the trace are counted by deleted *)
Theorem trace_deallocs p sched :
  let c := run step sched (init p, []) in
  length (filter is_dealloc (snd c)) = deleted (g (fst c)).
Proof.
  cbv zeta.
  apply (conf_inv (fun _ => true) R_dealloc
           (fun c => length (filter is_dealloc (snd c)) = deleted (g (fst c))) R_dealloc_ok);
    [|reflexivity|reflexivity].
  intros c s' evs HR HQ. cbn [fst snd]. unfold R_dealloc in HR. apply Nat.eqb_eq in HR.
  rewrite filter_app, app_length, HQ, HR. reflexivity.
Qed.

Lemma no_shared_app a b : no_shared (a ++ b) = no_shared a && no_shared b.
Proof. unfold no_shared. apply forallb_app. Qed.

Lemma trace_safe_app_noshared a b :
  trace_safe a = true -> no_shared b = true -> trace_safe (a ++ b) = true.
Proof.
  induction a as [|e r IH]; cbn; intros Ha Hb.
  - destruct b as [|e b]; [reflexivity|]. cbn in *. apply andb_true_iff in Hb as [He Hb].
    destruct (is_dealloc e); [exact Hb|].
    clear He. induction b as [|e' b IHb]; [reflexivity|]. cbn in *.
    apply andb_true_iff in Hb as [_ Hb]. destruct (is_dealloc e'); auto.
  - destruct (is_dealloc e).
    + rewrite no_shared_app, Ha, Hb. reflexivity.
    + auto.
Qed.

Lemma trace_safe_app_fresh a b :
  existsb is_dealloc a = false -> trace_safe (a ++ b) = trace_safe b.
Proof.
  induction a as [|e r IH]; cbn; [reflexivity|]. intros H.
  apply orb_false_iff in H as [He Hr]. rewrite He. auto.
Qed.

(* trace form of 5: after the EDealloc event no event of the trace accesses the shared state *)
Theorem trace_no_access_after_delete p sched :
  p_fixed p || away13 p = true ->
  trace_safe (snd (run step sched (init p, []))) = true.
Proof.
  intros Hc.
  assert (H : trace_safe (snd (run step sched (init p, []))) = true /\
              (freed (g (fst (run step sched (init p, [])))) = false ->
               existsb is_dealloc (snd (run step sched (init p, []))) = false)).
  { apply (conf_inv (fun p => p_fixed p || away13 p) R_safe
             (fun c => trace_safe (snd c) = true /\
                       (freed (g (fst c)) = false -> existsb is_dealloc (snd c) = false))
             R_safe_ok); [|exact Hc|split; reflexivity].
    intros c s' evs HR [HQ1 HQ2]. cbn [fst snd]. unfold R_safe in HR.
    apply andb_true_iff in HR as [HR H3]. apply andb_true_iff in HR as [H1 H2].
    destruct (freed (g (fst c))) eqn:Ef.
    - cbn in H3. split; [apply trace_safe_app_noshared; assumption|].
      intros Hx. rewrite H3 in Hx. discriminate.
    - specialize (HQ2 eq_refl). split.
      + rewrite trace_safe_app_fresh; assumption.
      + intros Hx. rewrite Hx in H2. rewrite existsb_app, HQ2. cbn [orb].
        destruct (existsb is_dealloc evs); [discriminate H2|reflexivity]. }
  tauto.
Qed.

(* ------------------------------------------------------------------------------------------ *)
(* the code as written violates two of the statements (findings 7 and 13)                    *)

Definition p_finding7 : params := {| p_fixed := false; p_out := OVal; p_fault := true; p_prog := PDrop |}.
Definition p_finding13 : params := {| p_fixed := false; p_out := OVal; p_fault := false; p_prog := PStop |}.

(* Op: CAS init -> value ; Fut: drop loads value ; Op: the copy throws, store error, error_
   constructed, evt_.set ; Fut: evt_.ready, deleter_ value: destroys the never-constructed
   values_ and leaks error_ *)
Definition sched_finding7 : list nat := [0; 1; 0; 0; 1].

Theorem result_destroyed_matching_refuted :
  exists sched,
    let s := final p_finding7 sched in
    quiescent s = true /\ constructed (g s) = Some MErr /\ destroyed (g s) = [MVal] /\
    In (EValDtor false) (snd (run step sched (init p_finding7, []))).
Proof. exists sched_finding7. vm_compute. repeat split; auto 10. Qed.

(* Fut: connect (callback registered), start (waiter pushed) ; Op: CAS init -> value, evt_.set
   (continuation posted) ; Fut: continuation loads value, deleter_ ; Stop: request_stop pops
   the still registered callback, unlocks, abandon: CAS on the freed state_ *)
Definition sched_finding13 : list nat := [1; 1; 1; 1; 0; 0; 1; 2; 2; 2].

Theorem no_access_after_delete_refuted :
  exists sched,
    let c := run step sched (init p_finding13, []) in
    uaf (g (fst c)) = true /\ deleted (g (fst c)) = 1 /\ trace_safe (snd c) = false /\
    snd c = [EExtAcq true 0 2; EExtRel 0; EEvL EvNull; EEvC EvNull true;
             EStC CsComplete FInit FValue true; EValCtor; EEvX EvWaiter; EPost;
             EStL FValue; EValDtor true; EDealloc;
             EExtAcq true 0 3; EExtRel 1; EStC CsAbandon FPoison FAband false].
Proof. exists sched_finding13. vm_compute. repeat split. Qed.

(* finding 14: connect registers the stop callback; a stop request runs abandon (init ->
   abandoned, request_stop, evt_.set); the operation state of the never-started future is
   destroyed: drop reads abandoned and calls std::terminate; the shared state is never freed *)
Definition p_finding14 : params := {| p_fixed := false; p_out := OVal; p_fault := false; p_prog := PConnDrop |}.
Definition sched_finding14 : list nat := [1; 1; 2; 2; 2; 2; 2; 2; 2; 2; 2; 1; 1; 1; 1; 0; 0].

Theorem drop_after_abandon_refuted :
  exists sched,
    let c := run step sched (init p_finding14, []) in
    quiescent (fst c) = true /\ bad (g (fst c)) = true /\ deleted (g (fst c)) = 0 /\
    In ETerminate (snd c) /\ src_stop (g (fst c)) = true.
Proof. exists sched_finding14. vm_compute. repeat split; auto 30. Qed.

(* ------------------------------------------------------------------------------------------ *)
(* SpawnFault: every path through the start-up of spawn_detached / spawn_future deallocates   *)
(* what it allocated and gives back every scope reference                                     *)

Module SpawnFaultProofs.
Import SpawnFault.

Definition fault_valid (g : fn) (f : option stage) : Prop :=
  match f with Some s => has_stage g s = true | None => True end.

Theorem spawn_fault_clean (g : fn) (f : option stage) :
  fault_valid g f ->
  let s := run false g f in
  allocs s = deallocs s /\ refs s = 0 /\
  (threw s = true <-> f <> None) /\
  (threw s = true -> started s = 0) /\
  (threw s = false -> started s = 1 /\ completed s = 1 /\ allocs s = 1) /\
  allocs s = (match f with Some SAlloc => 0 | _ => 1 end).
Proof.
  destruct g; destruct f as [[]|]; cbn; intros Hv; try discriminate Hv;
    repeat split; try reflexivity; try discriminate; intros H; try discriminate H; try congruence.
Qed.

(* the variant whose deallocating guard is armed after nest(): a throwing nest leaks the block *)
Theorem spawn_fault_late_guard_refuted :
  let s := run true Detached (Some SNestOp) in
  threw s = true /\ allocs s = 1 /\ deallocs s = 0.
Proof. cbn. repeat split. Qed.
End SpawnFaultProofs.
