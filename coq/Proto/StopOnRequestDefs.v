(* E1 model StopOnRequest(n): the first-callback-completes election of stop_on_request
   (include/unifex/stop_on_request.hpp: _op::type::{start, constructCallbacks, request_stop,
   complete}) over n+1 stop sources: source 0 is the receiver's stop token, sources 1..n are the
   tokens handed to stop_on_request(tok1, ..., tokn).  Every source has its own requester thread.
   The stop sources themselves (inplace_stop_token.hpp / source/inplace_stop_token.cpp, property
   C03) are abstracted at their linearisation points:
     REG i   try_add_callback of callback i by the start thread: the lock CAS 0 -> 2, or the
             load / failed CAS that observes the stop bit (then the callback runs INLINE inside
             its constructor on the start thread and its source_ is cleared)
     SET i   request_stop of source i: the CAS 0 -> 3; under the lock just taken the registered
             callback (if any) is claimed for execution on requester thread i+1
     DEREG i remove_callback's lock acquisition: still registered -> unlinked; executing on the
             same thread -> removedDuringCallback; executing on another thread -> must wait
     WAIT i  the spin on callbackCompleted_ of callback i (blocking step)
     CBDONE i  the requester stores callbackCompleted_ after the callback returned (skipped
             when the callback was removed during its own execution)
   Thread ids: 0 = start(); i+1 = requester of source i (i = 0..n); n+2 = the owner of the
   receiver, who destroys the operation as soon as the receiver has been completed.
   Executable definitions only. *)
From Coq Require Import List Bool Arith.
Import ListNotations.

Module StopOnRequest.

(* callbackState_  (stop_on_request.hpp:36-40) *)
Inductive cbstate := INIT | ALLC | ATLEAST.

(* life of the stop callback object of source i (a member of the operation state) *)
Inductive cbst :=
| BNew        (* not constructed yet *)
| BReg        (* constructed and linked into the source's list *)
| BInline     (* the source was already stopped: ran inline in its constructor, source_ = nullptr;
                 its destructor does nothing *)
| BExec       (* claimed by request_stop of its source: executing on the requester thread *)
| BDone       (* executed and callbackCompleted_ = true *)
| BUnlinked   (* destructed while still registered: unlinked *)
| BRemoved    (* destructed from inside its own execution: removedDuringCallback set *)
| BJoined.    (* destructed after the executing thread had stored callbackCompleted_ *)

(* start()  (stop_on_request.hpp:136-184) and the complete() it may call (75-81).
   A thread inside complete() carries [w] = spinning on callbackCompleted_ of the head of [todo],
   and [todo] = the callbacks still to destruct, in order; [] = about to set_done. *)
Inductive spc :=
| SReg (i : nat)      (* about to construct callback i (0 = receiverStopCallback_, then 1..n) *)
| SInl (i : nat)      (* callback i runs inline: request_stop, about to exchange callbackState_ *)
| SCas                (* about to compare_exchange INIT -> ALL_CONSTRUCTED_NOT_CALLED *)
| SComp (ret : option nat) (w : bool) (todo : list nat)
                      (* inside complete(); ret = Some i: called from the inline callback i
                         (never happens, but request_stop is the same function), None: called
                         by start() after the failed CAS *)
| SFin.

(* requester of source i: inplace_stop_source::request_stop  (inplace_stop_token.cpp:39-75) *)
Inductive rpc :=
| RSet                (* about to CAS the source's state 0 -> 3 *)
| RXchg               (* its callback was claimed: cancel_callback -> request_stop, about to
                         exchange callbackState_ *)
| RComp (w : bool) (todo : list nat)   (* inside complete(), called from its own callback *)
| RStore              (* callback returned, not removed: about to store callbackCompleted_ *)
| RFin.

Record st := {
  nsrc : nat;                (* n = number of external tokens; sources are 0..n *)
  cbs : cbstate;             (* callbackState_ *)
  stp : nat -> bool;         (* stop flag of source i *)
  cb : nat -> cbst;          (* callback object of source i *)
  sp : spc;
  rq : nat -> rpc;
  (* ghost *)
  freed : bool;              (* the receiver has been completed: the operation may be destroyed *)
  destroyed : bool;          (* the owner destroyed it *)
  completions : nat;         (* number of set_done calls on the receiver *)
  late : nat;                (* accesses to operation state (callbackState_, a callback object)
                                made after [freed] *)
  badtd : nat                (* completions at which some callback was not yet torn down *)
}.

Inductive ev :=
| EReg (i : nat) (inl : bool)        (* REG i; inl: the stop bit was observed *)
| ESet (i : nat)                     (* SET i *)
| EXchg (old : cbstate)              (* callbackState_.exchange(AT_LEAST_ONE_CALLED) *)
| ECas (old : cbstate)               (* callbackState_ CAS INIT -> ALLC; succeeded iff old = INIT *)
| EDereg (i : nat) (stopped : bool)  (* DEREG i: lock() of source i, stop bit as given *)
| EWait (i : nat)                    (* callbackCompleted_ of callback i read as true *)
| ECbDone (i : nat)                  (* callbackCompleted_ of callback i stored *)
| ERoot                              (* set_done(receiver) *)
| EDestroy.                          (* the owner destroys the operation *)

Definition upd {A} (f : nat -> A) (i : nat) (v : A) : nat -> A :=
  fun j => if Nat.eqb j i then v else f j.

Definition set_cbs (s : st) (v : cbstate) : st :=
  {| nsrc := nsrc s; cbs := v; stp := stp s; cb := cb s; sp := sp s; rq := rq s;
     freed := freed s; destroyed := destroyed s; completions := completions s;
     late := late s; badtd := badtd s |}.
Definition set_stp (s : st) (i : nat) : st :=
  {| nsrc := nsrc s; cbs := cbs s; stp := upd (stp s) i true; cb := cb s; sp := sp s; rq := rq s;
     freed := freed s; destroyed := destroyed s; completions := completions s;
     late := late s; badtd := badtd s |}.
Definition set_cb (s : st) (i : nat) (v : cbst) : st :=
  {| nsrc := nsrc s; cbs := cbs s; stp := stp s; cb := upd (cb s) i v; sp := sp s; rq := rq s;
     freed := freed s; destroyed := destroyed s; completions := completions s;
     late := late s; badtd := badtd s |}.
Definition set_sp (s : st) (p : spc) : st :=
  {| nsrc := nsrc s; cbs := cbs s; stp := stp s; cb := cb s; sp := p; rq := rq s;
     freed := freed s; destroyed := destroyed s; completions := completions s;
     late := late s; badtd := badtd s |}.
Definition set_rq (s : st) (i : nat) (p : rpc) : st :=
  {| nsrc := nsrc s; cbs := cbs s; stp := stp s; cb := cb s; sp := sp s; rq := upd (rq s) i p;
     freed := freed s; destroyed := destroyed s; completions := completions s;
     late := late s; badtd := badtd s |}.
(* an access to operation state: late if the receiver has already been completed *)
Definition touch (s : st) : st :=
  {| nsrc := nsrc s; cbs := cbs s; stp := stp s; cb := cb s; sp := sp s; rq := rq s;
     freed := freed s; destroyed := destroyed s; completions := completions s;
     late := if freed s then S (late s) else late s; badtd := badtd s |}.

(* a callback that needs nothing more from its destructor / has been destructed *)
Definition torn (b : cbst) : bool :=
  match b with BInline | BUnlinked | BRemoved | BJoined => true | _ => false end.
Definition all_torn (s : st) : bool :=
  forallb (fun i => torn (cb s i)) (seq 0 (S (nsrc s))).

(* set_done(receiver)  (stop_on_request.hpp:80) *)
Definition finish (s : st) : st :=
  {| nsrc := nsrc s; cbs := cbs s; stp := stp s; cb := cb s; sp := sp s; rq := rq s;
     freed := true; destroyed := destroyed s; completions := S (completions s);
     late := late s; badtd := if all_torn s then badtd s else S (badtd s) |}.

(* complete() destructs stopCallbacks_ 1..n in order, then receiverStopCallback_ (75-79) *)
Definition order (n : nat) : list nat := seq 1 n ++ [0].

(* the destructor of a callback that ran inline (source_ = nullptr) does nothing at all
   (inplace_stop_token.hpp:196-200): no step *)
Fixpoint skip (c : nat -> cbst) (todo : list nat) : list nat :=
  match todo with
  | [] => []
  | k :: r => match c k with BInline => skip c r | _ => todo end
  end.

(* One step of thread [t] inside complete(); yields the new state (the caller sets the thread's
   program counter) and either the continuation (w', todo') or None = the receiver was completed.
   remove_callback: inplace_stop_token.cpp:142-173. *)
Definition comp_step (t : nat) (w : bool) (todo : list nat) (s : st)
  : option (st * list ev * option (bool * list nat)) :=
  match todo with
  | [] => Some (finish s, [ERoot], None)
  | k :: r =>
    if w then
      match cb s k with
      | BDone => let s1 := set_cb (touch s) k BJoined in
                 Some (s1, [EWait k], Some (false, skip (cb s1) r))
      | _ => None
      end
    else
      match cb s k with
      | BReg => let s1 := set_cb (touch s) k BUnlinked in
                Some (s1, [EDereg k (stp s k)], Some (false, skip (cb s1) r))
      | BExec =>
          if Nat.eqb t (S k)
          then let s1 := set_cb (touch s) k BRemoved in
               Some (s1, [EDereg k (stp s k)], Some (false, skip (cb s1) r))
          else Some (touch s, [EDereg k (stp s k)], Some (true, todo))
      | BDone =>
          if Nat.eqb t (S k)
          then let s1 := set_cb (touch s) k BJoined in
               Some (s1, [EDereg k (stp s k)], Some (false, skip (cb s1) r))
          else Some (touch s, [EDereg k (stp s k)], Some (true, todo))
      | _ => None
      end
  end.

Definition after_reg (n i : nat) : spc := if Nat.ltb i n then SReg (S i) else SCas.
Definition ret_pc (n : nat) (ret : option nat) : spc :=
  match ret with Some i => after_reg n i | None => SFin end.

(* thread 0 *)
Definition step_start (s : st) : option (st * list ev) :=
  match sp s with
  | SReg i =>
      (* callback_.construct(token, cancel_callback) -> register_callback -> try_add_callback
         (stop_on_request.hpp:142-152, 121-122; inplace_stop_token.hpp:211-220) *)
      if Nat.leb i (nsrc s) then
        if stp s i
        then Some (set_sp (set_cb (touch s) i BInline) (SInl i), [EReg i true])
        else Some (set_sp (set_cb (touch s) i BReg) (after_reg (nsrc s) i), [EReg i false])
      else None
  | SInl i =>
      (* request_stop on the start thread (56-73) *)
      let old := cbs s in
      let s1 := set_cbs (touch s) ATLEAST in
      match old with
      | ALLC => Some (set_sp s1 (SComp (Some i) false (skip (cb s1) (order (nsrc s)))), [EXchg old])
      | _ => Some (set_sp s1 (after_reg (nsrc s) i), [EXchg old])
      end
  | SCas =>
      (* 170-182 *)
      match cbs s with
      | INIT => Some (set_sp (set_cbs (touch s) ALLC) SFin, [ECas INIT])
      | old => let s1 := touch s in
               Some (set_sp s1 (SComp None false (skip (cb s1) (order (nsrc s)))), [ECas old])
      end
  | SComp ret w todo =>
      match comp_step 0 w todo s with
      | None => None
      | Some (s1, evs, Some (w', todo')) => Some (set_sp s1 (SComp ret w' todo'), evs)
      | Some (s1, evs, None) => Some (set_sp s1 (ret_pc (nsrc s) ret), evs)
      end
  | SFin => None
  end.

(* after the callback returned: inplace_stop_token.cpp:63-66 *)
Definition after_cb (s : st) (i : nat) : rpc :=
  match cb s i with BRemoved => RFin | _ => RStore end.

(* thread i+1 *)
Definition step_req (i : nat) (s : st) : option (st * list ev) :=
  match rq s i with
  | RSet =>
      if stp s i then None
      else match cb s i with
           | BReg => Some (set_rq (set_cb (set_stp (touch s) i) i BExec) i RXchg, [ESet i])
           | _ => Some (set_rq (set_stp s i) i RFin, [ESet i])
           end
  | RXchg =>
      let old := cbs s in
      let s1 := set_cbs (touch s) ATLEAST in
      match old with
      | ALLC => Some (set_rq s1 i (RComp false (skip (cb s1) (order (nsrc s)))), [EXchg old])
      | _ => Some (set_rq s1 i (after_cb s1 i), [EXchg old])
      end
  | RComp w todo =>
      match comp_step (S i) w todo s with
      | None => None
      | Some (s1, evs, Some (w', todo')) => Some (set_rq s1 i (RComp w' todo'), evs)
      | Some (s1, evs, None) => Some (set_rq s1 i (after_cb s1 i), evs)
      end
  | RStore => Some (set_rq (set_cb (touch s) i BDone) i RFin, [ECbDone i])
  | RFin => None
  end.

(* thread n+2 *)
Definition step_owner (s : st) : option (st * list ev) :=
  if freed s && negb (destroyed s) then
    Some ({| nsrc := nsrc s; cbs := cbs s; stp := stp s; cb := cb s; sp := sp s; rq := rq s;
             freed := freed s; destroyed := true; completions := completions s;
             late := late s; badtd := badtd s |}, [EDestroy])
  else None.

Definition step (t : nat) (s : st) : option (st * list ev) :=
  match t with
  | O => step_start s
  | S i => if Nat.leb i (nsrc s) then step_req i s
           else if Nat.eqb i (S (nsrc s)) then step_owner s
           else None
  end.

(* n external tokens; req i: requester i will call request_stop; pre i: source i is already
   stopped before start() (its requester, if any, then finds the bit set and does nothing) *)
Definition init (n : nat) (req pre : nat -> bool) : st :=
  {| nsrc := n; cbs := INIT; stp := pre; cb := fun _ => BNew; sp := SReg 0;
     rq := fun i => if req i && negb (pre i) then RSet else RFin;
     freed := false; destroyed := false; completions := 0; late := 0; badtd := 0 |}.

Definition rfin (p : rpc) : bool := match p with RFin => true | _ => false end.
Definition sfin (p : spc) : bool := match p with SFin => true | _ => false end.
(* nothing left to do: start() returned, every requester returned, and the owner has destroyed
   the operation if it was ever completed *)
Definition quiescent (s : st) : bool :=
  sfin (sp s) && forallb (fun i => rfin (rq s i)) (seq 0 (S (nsrc s))) &&
  (negb (freed s) || destroyed s).

(* some source 0..n is requested or pre-stopped *)
Definition any_stop (n : nat) (req pre : nat -> bool) : bool :=
  existsb (fun i => req i || pre i) (seq 0 (S n)).

End StopOnRequest.
