(* E1 model RemoteQueue: the remote-scheduling / wake-up protocol of io_epoll_context
   (source/linux/io_epoll_context.cpp: run_impl 154-189, schedule_remote 218-230,
   execute_pending_local 241-264, acquire_completion_queue_items 266-344,
   try_schedule_local_remote_queue_contents 346-355, signal_remote_queue 357-374;
   include/unifex/linux/io_epoll_context.hpp run 202-211;
   include/unifex/detail/atomic_intrusive_queue.hpp enqueue 101-109,
   try_mark_inactive 145-162, try_mark_inactive_or_dequeue_all 168-180).
   io_uring_context uses the same protocol (remoteQueue_ + remoteQueueEventFd_ +
   remoteQueueReadSubmitted_), with a poll SQE on the eventfd in place of the epoll registration.

   head_ is one atomic pointer: nullptr (I/O thread active, nothing queued), the inactive marker
   (the I/O thread is going to sleep in epoll_wait on the eventfd) or the newest item of a LIFO
   chain.  The eventfd is a kernel counter: write adds 1, read returns the counter and resets it,
   epoll_wait on it returns while the counter is positive (level triggered) -- kernel behaviour
   assumed as documented in eventfd(2) / epoll(7).

   Threads: 0 = the I/O thread inside run(stop_token);  1..k = remote producers, producer p
   schedules its items p.0, p.1, ... ;  k+1..k+m = stoppers calling request_stop() on the stop
   source of run()'s token.  run() first registers its stop callback (hpp 204-209); the stopper
   whose request_stop() sets the stop bit runs the registered callback, which schedules the stop
   operation exactly like a producer (schedule_impl -> schedule_remote, cpp 195-204).  If the stop
   bit is already set when the callback is registered (a stopper was faster, or the token was
   stopped before run(): pre), the callback runs inline on the I/O thread before the loop, which
   then enqueues the stop operation itself.  The stop source is C03's; here it is two bits
   (stop requested, callback registered) with one linearisation point per registration (the lock
   acquisition of try_add_callback) and per request_stop (its stop-bit CAS).
   compare_exchange_weak is modelled without spurious failures.
   Executable definitions only. *)
From Coq Require Import List Bool Arith.
Import ListNotations.

Module RemoteQueue.

Inductive item := IWork (p j : nat) | IStop.

Definition item_eqb (a b : item) : bool :=
  match a, b with
  | IWork p j, IWork q k => Nat.eqb p q && Nat.eqb j k
  | IStop, IStop => true
  | _, _ => false
  end.

(* a value of head_ as seen by one access *)
Inductive ptr := PNull | PInactive | PItem (it : item).

Definition ptr_eqb (a b : ptr) : bool :=
  match a, b with
  | PNull, PNull => true
  | PInactive, PInactive => true
  | PItem x, PItem y => item_eqb x y
  | _, _ => false
  end.

(* schedule_remote(item j): enqueue (load, CAS loop), then write(eventfd) iff told "inactive" *)
Inductive ppc :=
| PSet                          (* stopper: about to request_stop() (stop-bit CAS) *)
| PLoad (j : nat)               (* about to head_.load(relaxed)  (enqueue, line 103) *)
| PCas (j : nat) (old : ptr)    (* item->next set from old; about to CAS old -> item (acq_rel) *)
| PWrite (j : nat).             (* enqueue returned true: about to write(eventfd) (line 363) *)

Inductive kind := KProd | KStopper.

Record prod := { pk : kind; pn : nat; pp : ppc }.

(* the I/O thread *)
Inductive lpc :=
| LReg                          (* run(): about to construct the stop callback (registration) *)
| LPreLoad                      (* stop already requested: inline stop callback, schedule_remote(&stopOp): load *)
| LPreCas (old : ptr)
| LPreWrite
| LExec                         (* execute_pending_local: about to run the next pending item *)
| LMarkLoad                     (* try_mark_inactive: head_.load(relaxed) (line 147) *)
| LMarkCas                      (* loaded nullptr: CAS nullptr -> inactive (149-153) *)
| LXchg                         (* head_.exchange(nullptr, acquire) (line 174) *)
| LWait                         (* remoteQueueReadSubmitted_: epoll_wait (line 270) *)
| LRead                         (* woken by the eventfd: read(eventfd) (line 293) *)
| LRet                          (* shouldStop: run_impl breaks, run() returns *)
| LDone.

Record st := {
  inactive : bool;            (* head_ == the inactive marker *)
  stack : list item;          (* the chain hanging off head_, newest first ([] = nullptr) *)
  efd : nat;                  (* eventfd counter *)
  loop : lpc;
  pending : list item;        (* the batch being executed (front first) *)
  should_stop : bool;         (* stopOp.shouldStop_ *)
  prods : list prod;
  stopped : bool;             (* stop requested on run()'s token *)
  registered : bool;          (* run()'s stop callback is registered with the source *)
  (* ghost *)
  enq : list item;            (* items in the order of their successful enqueue CAS *)
  consumed : list item;       (* items taken out of the batches so far, in order *)
  tokens : nat                (* enqueue() calls that returned true and have not written yet *)
}.

Inductive ev :=
| ELoad (v : ptr)                              (* head_.load(relaxed) *)
| EEnqCas (cur : ptr) (it : item) (ok : bool)  (* enqueue's CAS cur -> it *)
| EMark (cur : ptr) (ok : bool)                (* try_mark_inactive's CAS nullptr -> inactive *)
| EXchg (old : ptr)                            (* exchange(nullptr) *)
| EWrite                                       (* write(eventfd, 1) *)
| EWaitRet                                     (* epoll_wait returned the eventfd *)
| ERead (v : nat)                              (* read(eventfd) = v *)
| EExec (it : item)                            (* the item runs (on the calling thread) *)
| EReturn                                      (* run() returns *)
| ESrcReg (ok : bool)                          (* callback registration: registered / stop already requested *)
| ESrcSet (won : bool).                        (* request_stop(): set the stop bit / already set *)

Definition init (counts : list nat) (nstop : nat) (pre : bool) : st :=
  {| inactive := false; stack := []; efd := 0; loop := LReg;
     pending := []; should_stop := false;
     prods := map (fun n => {| pk := KProd; pn := n; pp := PLoad 0 |}) counts
              ++ repeat {| pk := KStopper; pn := 1; pp := PSet |} nstop;
     stopped := pre; registered := false;
     enq := []; consumed := []; tokens := 0 |}.

Fixpoint set_nth {A} (n : nat) (x : A) (l : list A) : list A :=
  match l, n with
  | [], _ => []
  | _ :: r, O => x :: r
  | y :: r, S n' => y :: set_nth n' x r
  end.

Definition head_ptr (s : st) : ptr :=
  if inactive s then PInactive else match stack s with [] => PNull | x :: _ => PItem x end.

(* field updates *)
Definition set_head (s : st) (ina : bool) (stk : list item) : st :=
  {| inactive := ina; stack := stk; efd := efd s; loop := loop s; pending := pending s;
     should_stop := should_stop s; prods := prods s; stopped := stopped s; registered := registered s; enq := enq s; consumed := consumed s; tokens := tokens s |}.
Definition set_efd (s : st) (v : nat) : st :=
  {| inactive := inactive s; stack := stack s; efd := v; loop := loop s; pending := pending s;
     should_stop := should_stop s; prods := prods s; stopped := stopped s; registered := registered s; enq := enq s; consumed := consumed s; tokens := tokens s |}.
Definition set_loop (s : st) (l : lpc) : st :=
  {| inactive := inactive s; stack := stack s; efd := efd s; loop := l; pending := pending s;
     should_stop := should_stop s; prods := prods s; stopped := stopped s; registered := registered s; enq := enq s; consumed := consumed s; tokens := tokens s |}.
Definition set_batch (s : st) (b : list item) (stp : bool) (c : list item) : st :=
  {| inactive := inactive s; stack := stack s; efd := efd s; loop := loop s; pending := b;
     should_stop := stp; prods := prods s; stopped := stopped s; registered := registered s; enq := enq s; consumed := c; tokens := tokens s |}.
Definition set_prod (s : st) (i : nat) (p : prod) : st :=
  {| inactive := inactive s; stack := stack s; efd := efd s; loop := loop s; pending := pending s;
     should_stop := should_stop s; prods := set_nth i p (prods s); stopped := stopped s;
     registered := registered s; enq := enq s; consumed := consumed s; tokens := tokens s |}.
Definition set_ghost (s : st) (e : list item) (tk : nat) : st :=
  {| inactive := inactive s; stack := stack s; efd := efd s; loop := loop s; pending := pending s;
     should_stop := should_stop s; prods := prods s; stopped := stopped s; registered := registered s; enq := e; consumed := consumed s; tokens := tk |}.

Definition set_src (s : st) (stp reg : bool) : st :=
  {| inactive := inactive s; stack := stack s; efd := efd s; loop := loop s; pending := pending s;
     should_stop := should_stop s; prods := prods s; stopped := stp; registered := reg;
     enq := enq s; consumed := consumed s; tokens := tokens s |}.

Definition with_pp (p : prod) (c : ppc) : prod := {| pk := pk p; pn := pn p; pp := c |}.

(* the successful CAS of enqueue(it): item->next = (old == inactive) ? nullptr : old; head_ = it.
   Returns the new state and whether the I/O thread was inactive. *)
Definition do_enqueue (s : st) (it : item) : st * bool :=
  let woke := inactive s in
  let s1 := set_head s false (it :: (if woke then [] else stack s)) in
  (set_ghost s1 (enq s ++ [it]) (if woke then S (tokens s) else tokens s), woke).

Definition item_of (i : nat) (p : prod) (j : nat) : item :=
  match pk p with KProd => IWork (S i) j | KStopper => IStop end.

(* producer number i (thread id S i) *)
Definition step_prod (i : nat) (s : st) : option (st * list ev) :=
  match nth_error (prods s) i with
  | None => None
  | Some p =>
      match pp p with
      | PSet =>
          match pk p with
          | KProd => None   (* request_stop is the stoppers' entry point only *)
          | KStopper =>
              if stopped s then Some (set_prod s i (with_pp p (PLoad 1)), [ESrcSet false])
              else Some (set_prod (set_src s true (registered s)) i
                           (with_pp p (PLoad (if registered s then 0 else 1))), [ESrcSet true])
          end
      | PLoad j =>
          if Nat.ltb j (pn p)
          then Some (set_prod s i (with_pp p (PCas j (head_ptr s))), [ELoad (head_ptr s)])
          else None
      | PCas j old =>
          let it := item_of i p j in
          let cur := head_ptr s in
          if ptr_eqb cur old then
            let (s1, woke) := do_enqueue s it in
            Some (set_prod s1 i (with_pp p (if woke then PWrite j else PLoad (S j))), [EEnqCas cur it true])
          else Some (set_prod s i (with_pp p (PCas j cur)), [EEnqCas cur it false])
      | PWrite j =>
          let s1 := set_ghost (set_efd s (S (efd s))) (enq s) (pred (tokens s)) in
          Some (set_prod s1 i (with_pp p (PLoad (S j))), [EWrite])
      end
  end.

(* Executing the stop operation only sets shouldStop_ (io_epoll_context.hpp 85-92): no shared
   access, no observable action; it is folded into the step before it. *)
Fixpoint strip_stops (b : list item) : list item * list item :=   (* (stops taken, rest) *)
  match b with
  | IStop :: r => let (a, r') := strip_stops r in (IStop :: a, r')
  | _ => ([], b)
  end.

(* after an access of the I/O thread that leaves it inside / at the end of execute_pending_local
   with batch b still to run: run leading stop operations, then either go on executing, or (batch
   finished) leave the loop when shouldStop_, or go on to look at the remote queue
   (remoteQueueReadSubmitted_ is false whenever this is used). *)
Definition continue_batch (s : st) (b : list item) : st :=
  let (stops, rest) := strip_stops b in
  let stp := should_stop s || negb (match stops with [] => true | _ => false end) in
  let s1 := set_batch s rest stp (consumed s ++ stops) in
  match rest with
  | _ :: _ => set_loop s1 LExec
  | [] => set_loop s1 (if stp then LRet else LMarkLoad)
  end.

Definition step_loop (s : st) : option (st * list ev) :=
  match loop s with
  | LReg =>
      if stopped s then Some (set_loop s LPreLoad, [ESrcReg false])
      else Some (set_loop (set_src s false true) LMarkLoad, [ESrcReg true])
  | LPreLoad => Some (set_loop s (LPreCas (head_ptr s)), [ELoad (head_ptr s)])
  | LPreCas old =>
      let cur := head_ptr s in
      if ptr_eqb cur old then
        let (s1, woke) := do_enqueue s IStop in
        Some (set_loop s1 (if woke then LPreWrite else LMarkLoad), [EEnqCas cur IStop true])
      else Some (set_loop s (LPreCas cur), [EEnqCas cur IStop false])
  | LPreWrite =>   (* not reachable: the queue is active until the loop itself marks it inactive *)
      Some (set_loop (set_ghost (set_efd s (S (efd s))) (enq s) (pred (tokens s))) LMarkLoad, [EWrite])
  | LExec =>
      match pending s with
      | [] => None    (* not reachable: LExec is entered with a work item at the front *)
      | it :: rest =>
          Some (continue_batch (set_batch s rest (should_stop s) (consumed s ++ [it])) rest, [EExec it])
      end
  | LMarkLoad =>
      Some (set_loop s (match stack s with [] => LMarkCas | _ => LXchg end), [ELoad (head_ptr s)])
  | LMarkCas =>
      match stack s with
      | [] => Some (set_loop (set_head s true []) LWait, [EMark PNull true])
      | x :: _ => Some (set_loop s LXchg, [EMark (PItem x) false])
      end
  | LXchg =>
      let b := rev (stack s) in
      Some (continue_batch (set_head s false []) b, [EXchg (head_ptr s)])
  | LWait =>
      if Nat.ltb 0 (efd s) then Some (set_loop s LRead, [EWaitRet]) else None
  | LRead =>
      (* remoteQueueReadSubmitted_ = false; next iteration: nothing local, not stopped: load *)
      Some (set_loop (set_efd s 0) LMarkLoad, [ERead (efd s)])
  | LRet => Some (set_loop s LDone, [EReturn])
  | LDone => None
  end.

Definition step (t : nat) (s : st) : option (st * list ev) :=
  match t with
  | O => step_loop s
  | S i => step_prod i s
  end.

(* ---- observations used by the theorems ---------------------------------------------------- *)
Definition is_work (it : item) : bool := match it with IWork _ _ => true | IStop => false end.
Definition executed (s : st) : list item := filter is_work (consumed s).
Definition at_write (p : prod) : bool := match pp p with PWrite _ => true | _ => false end.
Definition prod_done (p : prod) : bool := match pp p with PLoad j => Nat.leb (pn p) j | _ => false end.
Definition returned (s : st) : bool := match loop s with LDone => true | _ => false end.
(* the I/O thread sleeps in epoll_wait: it is at the wait and the eventfd is not readable *)
Definition blocked (s : st) : bool := match loop s with LWait => Nat.eqb (efd s) 0 | _ => false end.

End RemoteQueue.
