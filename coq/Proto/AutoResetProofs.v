(* Proofs about the E1 model AutoReset (Proto/AutoResetDefs.v): async_auto_reset_event over the
   embedded EventV1.  All theorems: arbitrary initial state, arbitrary thread programs over
   set / set_done / next w (NoDup of the next ids), arbitrary schedules.
   Part 1: invariants of the mutex / state_ / program-counter layer (no event reasoning).
   Part 2: the link to the embedded event (its invariant Inv1, flag consistency).
   Part 3: theorems. *)
From Coq Require Import List Bool Arith Lia.
From V Require Import Base.Sched Proto.EventV1Defs Proto.EventV1Proofs Proto.AutoResetDefs.
Import ListNotations.
Import AutoReset.

(* ------------------------------------------------------------------------------------------ *)
(* Part 1: the outer layer                                                                    *)

Definition holds (p : pc) : bool :=
  match p with ASetEv | AUnlock _ | AResetEv _ => true | _ => false end.
(* a successful try_reset in flight: the thread turned SET into UNSET and has not yet completed *)
Definition valp (p : pc) : bool :=
  match p with AResetEv _ | AUnlock (Some (_, true)) => true | _ => false end.
Definition curp (w : nat) (p : pc) : bool :=
  match p with
  | AWaitEv x | ASusp x | AResetEv x | AUnlock (Some (x, _)) => Nat.eqb x w
  | _ => false
  end.

Definition b2n (b : bool) : nat := if b then 1 else 0.

Fixpoint pcount (f : pc -> bool) (l : list thread) : nat :=
  match l with [] => 0 | th :: r => b2n (f (apc th)) + pcount f r end.

Lemma pcount_app f a b : pcount f (a ++ b) = pcount f a + pcount f b.
Proof. induction a; cbn; lia. Qed.

Definition nexts_of (p : list cmd) : list nat :=
  flat_map (fun c => match c with ANext w => [w] | _ => [] end) p.
Definition all_nexts (progs : list (list cmd)) : list nat := flat_map nexts_of progs.
Definition afut (s : st) : list nat := flat_map (fun th => nexts_of (prog th)) (thr s).

Definition trues (l : list (nat * bool)) : nat := length (filter snd l).

Definition OInv (ready0 : bool) (W0 : list nat) (s : st) : Prop :=
  pcount holds (thr s) = (match mtx s with Some _ => 1 | None => 0 end) /\
  (forall t, mtx s = Some t -> exists th, nth_error (thr s) t = Some th /\ holds (apc th) = true) /\
  (1 <= pcount valp (thr s) -> s3v s = Unset) /\
  trues (results s) + pcount valp (thr s) + (match s3v s with SSet => 1 | _ => 0 end)
    <= b2n ready0 + effs s /\
  (forall w, cnt w (afut s) + pcount (curp w) (thr s) + cnt w (map fst (results s)) = cnt w W0).

Lemma valp_holds p : valp p = true -> holds p = true.
Proof. destruct p as [| |[[? []]|]| | |]; cbn; auto; discriminate. Qed.

Lemma pcount_val_le l : pcount valp l <= pcount holds l.
Proof.
  induction l as [|th l IH]; cbn; [lia|].
  destruct (valp (apc th)) eqn:E; [rewrite (valp_holds _ E)|]; cbn; lia.
Qed.

Lemma step_decomp t s s' evs :
  step t s = Some (s', evs) ->
  exists l1 th l2, thr s = l1 ++ th :: l2 /\ nth_error (thr s) t = Some th /\ length l1 = t /\
                   forall b, EventV1.set_nth t b (thr s) = l1 ++ b :: l2.
Proof.
  unfold step. destruct (nth_error (thr s) t) as [th|] eqn:E; [|discriminate]. intros _.
  destruct (set_nth_split _ _ _ E) as (l1 & l2 & H1 & H2 & H3). exists l1, th, l2. auto.
Qed.

Lemma nth_error_mid {A} (l1 : list A) a l2 : nth_error (l1 ++ a :: l2) (length l1) = Some a.
Proof. induction l1; cbn; auto. Qed.

(* case analysis of one outer step: the delegating cases leave [EventV1.step ...] and
   [ev_busy ...] destructed *)
Ltac ostep H :=
  let l1 := fresh "l1" in let th := fresh "th" in let l2 := fresh "l2" in
  let Hthr := fresh "Hthr" in let Hnth := fresh "Hnth" in let Hset := fresh "Hset" in
  let Hlen := fresh "Hlen" in
  let pr := fresh "pr" in let pcx := fresh "pcx" in
  let e := fresh "e" in let mt := fresh "mt" in let sv := fresh "sv" in
  let ths := fresh "ths" in let res := fresh "res" in let ef := fresh "ef" in
  let Est := fresh "Est" in let Ebusy := fresh "Ebusy" in let Eres := fresh "Eres" in
  destruct (step_decomp _ _ _ _ H) as (l1 & th & l2 & Hthr & Hnth & Hlen & Hset);
  unfold step in H; rewrite Hnth in H; clear Hnth;
  destruct th as [pr pcx]; cbn [prog apc] in H;
  match type of Hthr with thr ?s = _ => destruct s as [e mt sv ths res ef] end;
  unfold delegate, set_thr in H;
  cbn [ev mtx s3v thr results effs] in *; subst ths;
  destruct pcx as [| |fin|cw|cw|cw];
  [ destruct pr as [|[| |w] pr]; [discriminate| | | ];
    [ destruct mt; [discriminate|]; destruct sv
    | destruct mt; [discriminate|]
    | destruct (EventV1.step _ _) as [[e' eevs]|] eqn:Est; [|discriminate];
      destruct (ev_busy _ e') eqn:Ebusy ]
  | destruct (EventV1.step _ _) as [[e' eevs]|] eqn:Est; [|discriminate];
    destruct (ev_busy _ e') eqn:Ebusy
  | idtac
  | destruct (EventV1.step _ _) as [[e' eevs]|] eqn:Est; [|discriminate];
    destruct (ev_busy _ e') eqn:Ebusy
  | destruct (is_resumed cw e) eqn:Eres; [|discriminate]; destruct mt; [discriminate|]; destruct sv
  | destruct (EventV1.step _ _) as [[e' eevs]|] eqn:Est; [|discriminate];
    destruct (ev_busy _ e') eqn:Ebusy ];
  rewrite ?Hset in H; injection H as <- <-.

Local Hint Rewrite pcount_app flat_map_app cnt_app map_app : adb.

Ltac onorm :=
  unfold afut in *; cbn [ev mtx s3v thr results effs] in *;
  autorewrite with adb in *;
  cbn [pcount flat_map nexts_of prog apc holds valp curp b2n app cnt map fst snd trues filter length] in *;
  autorewrite with adb in *;
  cbn [cnt] in *.

Lemma pcount_init f progs : f AIdle = false ->
  pcount f (map (fun p => {| prog := p; apc := AIdle |}) progs) = 0.
Proof. intros Hf. induction progs; cbn; auto. rewrite Hf. cbn. auto. Qed.

Lemma afut_init ready0 progs : afut (init ready0 progs) = all_nexts progs.
Proof.
  unfold afut, all_nexts, init; cbn. induction progs as [|a l IH]; cbn; auto. f_equal. apply IH.
Qed.

Lemma init_oinv ready0 progs : OInv ready0 (all_nexts progs) (init ready0 progs).
Proof.
  unfold OInv. rewrite afut_init. unfold init; cbn.
  rewrite !pcount_init by reflexivity.
  repeat split; try lia.
  - intros t Ht; discriminate.
  - destruct ready0; cbn; lia.
  - intros w. rewrite pcount_init by reflexivity. lia.
Qed.

Lemma nth_error_mid_neq {A} (l1 : list A) a b l2 t :
  t <> length l1 -> nth_error (l1 ++ a :: l2) t = nth_error (l1 ++ b :: l2) t.
Proof.
  revert t; induction l1 as [|x l1 IH]; intros [|t] Hne; cbn in *; auto; try lia.
Qed.

Lemma step_oinv ready0 W0 t s s' evs :
  OInv ready0 W0 s -> step t s = Some (s', evs) -> OInv ready0 W0 s'.
Proof.
  intros (H1 & H2 & H3 & H4 & H5) H.
  ostep H.
  all: pose proof (pcount_val_le l1) as Hv1; pose proof (pcount_val_le l2) as Hv2.
  all: unfold OInv; cbn [ev mtx s3v thr results effs].
  all: split; [onorm; try destruct fin as [[? []]|]; cbn [b2n valp holds] in *; try lia; destruct mt; lia|].
  all: split; [|split; [|split]].
  (* the holder is where mtx says *)
  all: try (intros t0 Ht0; try discriminate;
            first [ injection Ht0 as <-; subst t; rewrite nth_error_mid; eexists; split; [reflexivity|reflexivity]
                  | destruct (H2 _ Ht0) as (th0 & Hn0 & Hh0);
                    destruct (Nat.eq_dec t0 (length l1)) as [->|Hne];
                    [ rewrite nth_error_mid in Hn0; injection Hn0 as <-; cbn in Hh0; try discriminate;
                      rewrite nth_error_mid; eexists; split; reflexivity
                    | erewrite (nth_error_mid_neq _ _ _ _ _ Hne); eexists; split; [exact Hn0|exact Hh0] ] ]).
  all: try (intros w0; specialize (H5 w0)).
  all: onorm; try destruct fin as [[? []]|]; cbn [b2n valp holds curp map fst cnt filter snd length] in *; unfold trues in *; cbn [filter snd length] in *.
  all: try (destruct mt; lia).
  all: try lia.
  all: try (intros Hp; first [exfalso; lia | apply H3; lia | reflexivity]).
  all: try (unfold b2n in *; eqs; lia).
Qed.

(* ------------------------------------------------------------------------------------------ *)
(* Part 2: facts about single steps of the embedded event, by the shape of the stepping thread *)

Module E := EventV1.

Lemma set_nth_length {A} t (x : A) l : length (E.set_nth t x l) = length l.
Proof. revert t; induction l as [|y r IH]; intros [|t]; cbn; auto. Qed.

Lemma nth_set_nth_eq {A} t (x : A) l : t < length l -> nth_error (E.set_nth t x l) t = Some x.
Proof. revert t; induction l as [|y r IH]; intros [|t] H; cbn in *; try lia; auto. apply IH. lia. Qed.

Lemma nth_set_nth_neq {A} t t' (x : A) l : t' <> t -> nth_error (E.set_nth t x l) t' = nth_error l t'.
Proof. revert t t'; induction l as [|y r IH]; intros [|t] [|t'] H; cbn; auto; try congruence. Qed.

Lemma nth_error_lt {A} (l : list A) t a : nth_error l t = Some a -> t < length l.
Proof. intros H. apply nth_error_Some. congruence. Qed.

(* a step of thread t touches only thread t of the thread list *)
Lemma estep_frame t e e' evs :
  E.step t e = Some (e', evs) ->
  length (E.thr e') = length (E.thr e) /\
  (forall t', t' <> t -> nth_error (E.thr e') t' = nth_error (E.thr e) t') /\
  (exists eth', nth_error (E.thr e') t = Some eth').
Proof.
  unfold E.step. destruct (nth_error (E.thr e) t) as [th|] eqn:En; [|discriminate].
  pose proof (nth_error_lt _ _ _ En) as Hlt.
  assert (G : forall b (x : E.st), E.thr x = E.set_nth t b (E.thr e) ->
     length (E.thr x) = length (E.thr e) /\
     (forall t', t' <> t -> nth_error (E.thr x) t' = nth_error (E.thr e) t') /\
     (exists eth', nth_error (E.thr x) t = Some eth')).
  { intros b x ->. rewrite set_nth_length. split; [reflexivity|]. split.
    - intros t' Hne. apply nth_set_nth_neq; auto.
    - eexists. apply nth_set_nth_eq; auto. }
  destruct (E.tpc th) as [|w c|p rest].
  - destruct (E.prog th) as [|[| | |w] r]; [discriminate| | | |].
    + intros [= <- _]. eapply G. reflexivity.
    + destruct (E.top e); intros [= <- _]; eapply G; reflexivity.
    + intros [= <- _]. eapply G. reflexivity.
    + destruct (E.top e); intros [= <- _]; eapply G; reflexivity.
  - destruct (E.ptr_eqb (E.top e) c); [|destruct (E.top e)]; intros [= <- _]; eapply G; reflexivity.
  - destruct p as [| |pw]; [discriminate|discriminate|].
    intros [= <- _]. eapply G. reflexivity.
Qed.

Definition eth_set : E.thread := {| E.prog := [E.CSet]; E.tpc := E.PIdle |}.
Definition eth_reset : E.thread := {| E.prog := [E.CReset]; E.tpc := E.PIdle |}.
Definition eth_wait (w : nat) : E.thread := {| E.prog := [E.CWait w]; E.tpc := E.PIdle |}.
Definition eth_cas (w : nat) (c : E.ptr) : E.thread := {| E.prog := []; E.tpc := E.PCas w c |}.
Definition eth_pop (p : E.ptr) (r : list nat) : E.thread := {| E.prog := []; E.tpc := E.PPop p r |}.

Definition popping (eth : E.thread) : Prop := exists p r, eth = eth_pop p r.

Lemma estep_set t e e' evs :
  nth_error (E.thr e) t = Some eth_set -> E.step t e = Some (e', evs) ->
  E.is_sig (E.top e') = true /\
  exists eth', nth_error (E.thr e') t = Some eth' /\ (eth' = ev_idle \/ popping eth').
Proof.
  intros Hn. pose proof (nth_error_lt _ _ _ Hn) as Hlt. unfold E.step. rewrite Hn. cbn.
  intros [= <- _]. cbn. split; [reflexivity|].
  eexists. split; [apply nth_set_nth_eq; auto|].
  destruct (E.top e); [left; reflexivity|left; reflexivity|right; eexists; eexists; reflexivity].
Qed.

Lemma estep_pop t e e' evs p r :
  nth_error (E.thr e) t = Some (eth_pop p r) -> E.step t e = Some (e', evs) ->
  E.top e' = E.top e /\
  exists eth', nth_error (E.thr e') t = Some eth' /\ (eth' = ev_idle \/ popping eth').
Proof.
  intros Hn. pose proof (nth_error_lt _ _ _ Hn) as Hlt. unfold E.step. rewrite Hn. cbn.
  destruct p as [| |pw]; [discriminate|discriminate|].
  intros [= <- _]. cbn. split; [reflexivity|].
  eexists. split; [apply nth_set_nth_eq; auto|].
  destruct (E.nxt e pw); [left; reflexivity|right; eexists; eexists; reflexivity|right; eexists; eexists; reflexivity].
Qed.

Lemma estep_wait t e e' evs w :
  nth_error (E.thr e) t = Some (eth_wait w) -> E.step t e = Some (e', evs) ->
  E.top e' = E.top e /\
  exists eth', nth_error (E.thr e') t = Some eth' /\ (eth' = ev_idle \/ exists c, eth' = eth_cas w c).
Proof.
  intros Hn. pose proof (nth_error_lt _ _ _ Hn) as Hlt. unfold E.step. rewrite Hn. cbn.
  destruct (E.top e) eqn:Et; intros [= <- _]; cbn; (split; [reflexivity|]);
    eexists; (split; [apply nth_set_nth_eq; auto|]);
    [right; eexists; reflexivity|left; reflexivity|right; eexists; reflexivity].
Qed.

Lemma estep_cas t e e' evs w c :
  nth_error (E.thr e) t = Some (eth_cas w c) -> c <> E.PSig -> E.step t e = Some (e', evs) ->
  E.is_sig (E.top e') = E.is_sig (E.top e) /\
  exists eth', nth_error (E.thr e') t = Some eth' /\ (eth' = ev_idle \/ exists c', eth' = eth_cas w c').
Proof.
  intros Hn Hc. pose proof (nth_error_lt _ _ _ Hn) as Hlt. unfold E.step. rewrite Hn. cbn.
  destruct (E.ptr_eqb (E.top e) c) eqn:Eq.
  - apply ptr_eqb_eq in Eq. intros [= <- _]; cbn. split.
    + rewrite Eq. destruct c; cbn; congruence.
    + eexists. split; [apply nth_set_nth_eq; auto|]. left; reflexivity.
  - destruct (E.top e) eqn:Et; intros [= <- _]; cbn; (split; [reflexivity|]);
      eexists; (split; [apply nth_set_nth_eq; auto|]);
      [right; eexists; reflexivity|left; reflexivity|right; eexists; reflexivity].
Qed.

Lemma estep_reset t e e' evs :
  nth_error (E.thr e) t = Some eth_reset -> E.step t e = Some (e', evs) ->
  nth_error (E.thr e') t = Some ev_idle /\ E.resumed e' = E.resumed e /\
  (E.is_sig (E.top e) = true -> E.top e' = E.PNull) /\
  (E.is_sig (E.top e) = false -> E.top e' = E.top e).
Proof.
  intros Hn. pose proof (nth_error_lt _ _ _ Hn) as Hlt. unfold E.step. rewrite Hn. cbn.
  destruct (E.top e) eqn:Et; intros [= <- _]; cbn; repeat split; auto;
    try (apply nth_set_nth_eq; auto); try discriminate.
Qed.

(* steps never forget a resumption *)
Lemma estep_resumed_mono t e e' evs w :
  E.step t e = Some (e', evs) -> is_resumed w e = true -> is_resumed w e' = true.
Proof.
  intros H Hr. unfold is_resumed in *. rewrite (step_resumes _ _ _ _ H).
  rewrite existsb_app, Hr. apply orb_true_r.
Qed.

(* ------------------------------------------------------------------------------------------ *)
(* injecting a command into an idle event thread                                              *)

Lemma flat_map_set_nth {A} (f : A -> list nat) w t a b l :
  nth_error l t = Some a ->
  cnt w (flat_map f (E.set_nth t b l)) + cnt w (f a) = cnt w (flat_map f l) + cnt w (f b).
Proof.
  revert t; induction l as [|y r IH]; intros [|t] H; cbn in *; try discriminate.
  - injection H as ->. rewrite !cnt_app. lia.
  - rewrite !cnt_app. specialize (IH _ H). lia.
Qed.

Lemma Forall_set_nth {A} (P : A -> Prop) t b l : Forall P l -> P b -> Forall P (E.set_nth t b l).
Proof.
  intros H Hb. revert t; induction H as [|y r Hy Hr IH]; intros [|t]; cbn; constructor; auto.
Qed.

Definition cmd_waits (c : E.cmd) : list nat := match c with E.CWait w => [w] | _ => [] end.

Lemma total_inject w t c e :
  nth_error (E.thr e) t = Some ev_idle ->
  total w (inject t c e) = total w e + cnt w (cmd_waits c).
Proof.
  intros Hn. unfold total, future, inflight, pending, inject; cbn [E.thr E.stk E.resumed].
  pose proof (flat_map_set_nth th_future w t ev_idle {| E.prog := [c]; E.tpc := E.PIdle |} _ Hn) as H1.
  pose proof (flat_map_set_nth th_inflight w t ev_idle {| E.prog := [c]; E.tpc := E.PIdle |} _ Hn) as H2.
  pose proof (flat_map_set_nth th_pending w t ev_idle {| E.prog := [c]; E.tpc := E.PIdle |} _ Hn) as H3.
  unfold th_future, th_inflight, th_pending in *. cbn in H1, H2, H3.
  assert (Hc : cnt w (waits_of [c]) = cnt w (cmd_waits c)).
  { destruct c; cbn; lia. }
  unfold waits_of in Hc. cbn in Hc. rewrite app_nil_r in *. lia.
Qed.

Lemma inject_inv1 t c e :
  nth_error (E.thr e) t = Some ev_idle -> Inv1 e ->
  (forall w, total w e + cnt w (cmd_waits c) <= 1) -> Inv1 (inject t c e).
Proof.
  intros Hn (Htop & Hth & Htot) Hc. split; [exact Htop|]. split.
  - unfold inject; cbn [E.thr E.nxt]. apply Forall_set_nth; [exact Hth|]. exact I.
  - intros w. rewrite total_inject by exact Hn. apply Hc.
Qed.

Lemma inject_nth t c e :
  t < length (E.thr e) ->
  nth_error (E.thr (inject t c e)) t = Some {| E.prog := [c]; E.tpc := E.PIdle |} /\
  (forall t', t' <> t -> nth_error (E.thr (inject t c e)) t' = nth_error (E.thr e) t') /\
  length (E.thr (inject t c e)) = length (E.thr e).
Proof.
  intros Hlt. unfold inject; cbn [E.thr]. split; [apply nth_set_nth_eq; auto|]. split.
  - intros t' Hne. apply nth_set_nth_neq; auto.
  - apply set_nth_length.
Qed.

(* ------------------------------------------------------------------------------------------ *)
(* the link invariant                                                                         *)

Definition th_rel (p : pc) (eth : E.thread) : Prop :=
  match p with
  | AIdle | AUnlock _ | ASusp _ => eth = ev_idle
  | ASetEv => eth = eth_set \/ popping eth
  | AWaitEv w => exists c, eth = eth_cas w c
  | AResetEv _ => eth = eth_reset
  end.

Definition sigv (s : st) : bool := E.is_sig (E.top (ev s)).

Definition crel (sg : bool) (v : s3) (p : pc) (eth : E.thread) : Prop :=
  match p with
  | AResetEv _ => v = Unset /\ sg = true
  | AUnlock (Some (_, true)) => v = Unset /\ sg = false
  | ASetEv => v <> Unset /\ (E.prog eth = [] -> sg = true)
  | _ => True
  end.

Definition special (p : pc) : bool :=
  match p with ASetEv | AResetEv _ | AUnlock (Some (_, true)) => true | _ => false end.

(* the header's invariant: event_ is ready iff state_ is SET or DONE *)
Definition flag_ok (s : st) : Prop := sigv s = true <-> s3v s <> Unset.

Definition LInv (W0 : list nat) (s : st) : Prop :=
  length (E.thr (ev s)) = length (thr s) /\
  (forall t th eth, nth_error (thr s) t = Some th -> nth_error (E.thr (ev s)) t = Some eth ->
     th_rel (apc th) eth /\ crel (sigv s) (s3v s) (apc th) eth) /\
  Inv1 (ev s) /\
  (forall w, cnt w (afut s) + total w (ev s) = cnt w W0) /\
  (pcount special (thr s) = 0 -> flag_ok s).

Lemma special_holds p : special p = true -> holds p = true.
Proof. destruct p as [| |[[? []]|]| | |]; cbn; auto; discriminate. Qed.

Lemma crel_nonholder sg v p eth : holds p = false -> crel sg v p eth.
Proof. destruct p as [| |[[? []]|]| | |]; cbn; auto; discriminate. Qed.

Lemma pcount_zero_nth f l t th :
  pcount f l = 0 -> nth_error l t = Some th -> f (apc th) = false.
Proof.
  revert t; induction l as [|y r IH]; intros [|t] H Hn; cbn in *; try discriminate.
  - injection Hn as ->. destruct (f (apc th)); cbn in H; [lia|reflexivity].
  - eapply IH; eauto. lia.
Qed.

Lemma pcount_mid_nth f l1 a l2 t th :
  pcount f l1 = 0 -> pcount f l2 = 0 -> t <> length l1 ->
  nth_error (l1 ++ a :: l2) t = Some th -> f (apc th) = false.
Proof.
  intros H1 H2 Hne Hn.
  destruct (Nat.lt_ge_cases t (length l1)) as [Hlt|Hge].
  - rewrite nth_error_app1 in Hn by exact Hlt. exact (pcount_zero_nth _ _ _ _ H1 Hn).
  - rewrite nth_error_app2 in Hn by exact Hge.
    destruct (t - length l1) as [|k] eqn:Ek; [lia|]. cbn in Hn. exact (pcount_zero_nth _ _ _ _ H2 Hn).
Qed.

Lemma pcount_special_le l : pcount special l <= pcount holds l.
Proof.
  induction l as [|th l IH]; cbn; [lia|].
  destruct (special (apc th)) eqn:E; [rewrite (special_holds _ E)|]; cbn; lia.
Qed.

Lemma init_linv ready0 progs : LInv (all_nexts progs) (init ready0 progs).
Proof.
  unfold LInv. rewrite afut_init. unfold init; cbn [ev thr s3v]. split; [|split; [|split; [|split]]].
  - cbn. rewrite !map_length. reflexivity.
  - intros t th eth H1 H2. cbn in H2. rewrite map_map in H2.
    apply nth_error_In in H1, H2. apply in_map_iff in H1 as (p & <- & _).
    apply in_map_iff in H2 as (q & <- & _). cbn. auto.
  - split; [|split].
    + unfold top_ok; cbn. destruct ready0; reflexivity.
    + cbn. rewrite map_map. apply Forall_forall. intros x Hx. apply in_map_iff in Hx as (q & <- & _). exact I.
    + intros w. unfold total, future, inflight, pending; cbn. rewrite map_map.
      assert (H : forall (f : E.thread -> list nat), f ev_idle = [] ->
                flat_map f (map (fun _ : list cmd => ev_idle) progs) = []).
      { intros f Hf. induction progs; cbn; auto. rewrite Hf. auto. }
      change {| E.prog := []; E.tpc := E.PIdle |} with ev_idle.
      rewrite !H by reflexivity. cbn. lia.
  - intros w. unfold total, future, inflight, pending; cbn. rewrite map_map.
    assert (H : forall (f : E.thread -> list nat), f ev_idle = [] ->
              flat_map f (map (fun _ : list cmd => ev_idle) progs) = []).
    { intros f Hf. induction progs; cbn; auto. rewrite Hf. auto. }
    change {| E.prog := []; E.tpc := E.PIdle |} with ev_idle.
    rewrite !H by reflexivity. cbn. lia.
  - intros _. unfold flag_ok, sigv; cbn. destruct ready0; cbn; split; congruence.
Qed.

Lemma rel_others (sg sg' : bool) (v v' : s3) l1 a b l2 (el el' : list E.thread) :
  (forall t th eth, nth_error (l1 ++ a :: l2) t = Some th -> nth_error el t = Some eth ->
     th_rel (apc th) eth /\ crel sg v (apc th) eth) ->
  (forall t', t' <> length l1 -> nth_error el' t' = nth_error el t') ->
  ((sg' = sg /\ v' = v) \/ (pcount holds l1 = 0 /\ pcount holds l2 = 0)) ->
  forall t th eth, t <> length l1 ->
    nth_error (l1 ++ b :: l2) t = Some th -> nth_error el' t = Some eth ->
    th_rel (apc th) eth /\ crel sg' v' (apc th) eth.
Proof.
  intros Hrel Hfr Hc t th eth Hne Hn He.
  rewrite (nth_error_mid_neq _ b a _ _ Hne) in Hn. rewrite (Hfr _ Hne) in He.
  destruct (Hrel _ _ _ Hn He) as [Hr Hcr]. split; [exact Hr|].
  destruct Hc as [[-> ->]|[H1 H2]]; [exact Hcr|].
  apply crel_nonholder. exact (pcount_mid_nth _ _ _ _ _ _ H1 H2 Hne Hn).
Qed.

Lemma ev_busy_nth t e eth : nth_error (E.thr e) t = Some eth -> ev_busy t e = negb (E.th_fin eth).
Proof. intros H. unfold ev_busy. now rewrite H. Qed.

Lemma step_linv ready0 W0 t s s' evs :
  (forall w, cnt w W0 <= 1) -> OInv ready0 W0 s -> LInv W0 s ->
  step t s = Some (s', evs) -> LInv W0 s'.
Proof.
  intros HW (O1 & O2 & O3 & O4 & O5) (Hlen & Hrel & HI1 & HE3 & Hfl) H.
  ostep H.
  all: pose proof (pcount_special_le l1) as Hs1; pose proof (pcount_special_le l2) as Hs2.
  all: assert (Htl : length l1 < length (E.thr e))
         by (rewrite Hlen, app_length; cbn; lia).
  all: destruct (nth_error (E.thr e) (length l1)) as [eth|] eqn:Eeth;
         [|apply nth_error_None in Eeth; lia].
  all: destruct (Hrel (length l1) _ eth (nth_error_mid _ _ _) Eeth) as [Hr0 Hc0]; cbn [apc] in Hr0, Hc0.
  all: subst t.
  all: unfold LInv, flag_ok, sigv in *; cbn [ev mtx s3v thr results effs] in *.
  all: rewrite ?pcount_app in *; cbn [pcount apc holds special b2n] in *.
  (* lock steps that hand a command to the event *)
  Ltac lock_inject c :=
    match goal with
    | Htl : length ?l1 < length (E.thr ?e), Hr0 : ?eth = ev_idle |- _ =>
      subst eth;
      destruct (inject_nth (length l1) c e Htl) as (Hin & Hio & Hil);
      split; [rewrite Hil; match goal with H : length (E.thr e) = _ |- _ => rewrite H end;
              rewrite !app_length; reflexivity|];
      split; [intros t0 th0 eth0 Hn0 He0; destruct (Nat.eq_dec t0 (length l1)) as [->|Hne];
              [ rewrite nth_error_mid in Hn0; injection Hn0 as <-; rewrite Hin in He0; injection He0 as <-
              | eapply rel_others; [eassumption|exact Hio|right; lia|exact Hne|exact Hn0|exact He0] ]|];
      [|split; [apply inject_inv1; [assumption|assumption|
                 intros w0; match goal with H : Inv1 e |- _ => destruct H as (_ & _ & Ht); specialize (Ht w0) end;
                 cbn [cmd_waits cnt]; lia]|];
        split; [intros w0; rewrite total_inject by assumption; cbn [cmd_waits cnt];
                match goal with H : forall w, cnt w (afut _) + _ = _ |- _ => specialize (H w0) end;
                unfold afut in *; cbn [thr] in *; rewrite !flat_map_app in *; cbn [flat_map prog nexts_of app] in *;
                rewrite ?cnt_app in *; lia|]]
    end.
  1: { cbn [th_rel] in Hr0. lock_inject E.CSet.
       - cbn. split; [left; reflexivity|]. split; discriminate.
       - intros Hsp; exfalso; lia. }
  1: { cbn [th_rel] in Hr0. lock_inject E.CSet.
       - cbn. split; [left; reflexivity|]. split; discriminate.
       - intros Hsp; exfalso; lia. }
  (* set() on a DONE event: lock and unlock only *)
  1: { cbn [th_rel] in Hr0. subst eth.
       split; [rewrite Hlen, !app_length; reflexivity|].
       split; [intros t0 th0 eth0 Hn0 He0; destruct (Nat.eq_dec t0 (length l1)) as [->|Hne];
               [ rewrite nth_error_mid in Hn0; injection Hn0 as <-; rewrite Eeth in He0; injection He0 as <-;
                 cbn; auto
               | eapply rel_others; [eassumption|reflexivity|left; split; reflexivity|exact Hne|exact Hn0|exact He0] ]|].
       split; [assumption|].
       split; [intros w0; specialize (HE3 w0); unfold afut in *; cbn [thr] in *; rewrite !flat_map_app in *;
               cbn [flat_map prog nexts_of app] in *; rewrite ?cnt_app in *; lia|].
       intros Hsp. apply Hfl. lia. }
  1: { cbn [th_rel] in Hr0. lock_inject E.CSet.
       - cbn. split; [left; reflexivity|]. split; discriminate.
       - intros Hsp; exfalso; lia. }
  (* next: the load of start_or_wait *)
  Ltac afutn H w0 :=
    specialize (H w0); unfold afut in *; cbn [thr] in *; rewrite !flat_map_app in *;
    cbn [flat_map prog nexts_of app] in *; rewrite ?cnt_app in *; cbn [cnt] in *; rewrite ?cnt_app in *.
  1,2: cbn [th_rel] in Hr0; subst eth;
       destruct (inject_nth (length l1) (E.CWait w) e Htl) as (Hin & Hio & Hil);
       assert (Hinj1 : Inv1 (inject (length l1) (E.CWait w) e))
         by (apply inject_inv1; [assumption|assumption|
             intros w0; pose proof (HW w0); afutn HE3 w0; cbn [cmd_waits cnt]; lia]);
       destruct (estep_frame _ _ _ _ Est) as (Hfl1 & Hfo & _);
       destruct (estep_wait _ _ _ _ _ Hin Est) as (Htop & eth' & Hn' & Hsh);
       pose proof (ev_busy_nth _ _ _ Hn') as Hb; rewrite Ebusy in Hb;
       (split; [rewrite Hfl1, Hil, Hlen, !app_length; reflexivity|]);
       (split; [intros t0 th0 eth0 Hn0 He0; destruct (Nat.eq_dec t0 (length l1)) as [->|Hne];
               [ rewrite nth_error_mid in Hn0; injection Hn0 as <-; rewrite Hn' in He0; injection He0 as <-;
                 destruct Hsh as [->|[c ->]]; cbn in Hb; try discriminate; cbn; eauto
               | eapply rel_others; [eassumption| |left; split; [rewrite Htop; reflexivity|reflexivity]|exact Hne|exact Hn0|exact He0];
                 intros t' Hne'; rewrite (Hfo _ Hne'); apply Hio; exact Hne' ]|]);
       (split; [eapply step_inv1; eauto|]);
       (split; [intros w0; destruct Hinj1 as (A & B & C); rewrite (step_total _ _ _ _ A B Est w0);
                rewrite total_inject by assumption; cbn [cmd_waits cnt]; afutn HE3 w0; lia|]);
       intros Hsp; rewrite Htop; cbn [inject E.top]; apply Hfl; lia.
  (* inside event_.set() *)
  1,2: cbn [th_rel crel] in Hr0, Hc0; destruct Hc0 as [Hv Hsg];
       destruct (estep_frame _ _ _ _ Est) as (Hfl1 & Hfo & _);
       assert (Hx : E.is_sig (E.top e') = true /\
                    exists eth', nth_error (E.thr e') (length l1) = Some eth' /\ (eth' = ev_idle \/ popping eth'))
         by (destruct Hr0 as [->|(p & r & ->)];
             [ exact (estep_set _ _ _ _ Eeth Est)
             | destruct (estep_pop _ _ _ _ _ _ Eeth Est) as (Ht & X); split;
               [rewrite Ht; apply Hsg; reflexivity|exact X] ]);
       destruct Hx as (Hsig' & eth' & Hn' & Hsh);
       pose proof (ev_busy_nth _ _ _ Hn') as Hb; rewrite Ebusy in Hb;
       (split; [rewrite Hfl1, Hlen, !app_length; reflexivity|]);
       (split; [intros t0 th0 eth0 Hn0 He0; destruct (Nat.eq_dec t0 (length l1)) as [->|Hne];
               [ rewrite nth_error_mid in Hn0; injection Hn0 as <-; rewrite Hn' in He0; injection He0 as <-;
                 destruct Hsh as [->|(p & r & ->)]; cbn in Hb; try discriminate; cbn;
                 first [ split; [right; eexists; eexists; reflexivity | split; [exact Hv|intros _; exact Hsig']] | auto ]
               | eapply rel_others; [eassumption|exact Hfo|right; split; destruct mt; lia|exact Hne|exact Hn0|exact He0] ]|]);
       (split; [eapply step_inv1; eauto|]);
       (split; [intros w0; destruct HI1 as (A & B & C); rewrite (step_total _ _ _ _ A B Est w0);
                afutn HE3 w0; lia|]);
       intros Hsp; first [exfalso; lia | rewrite Hsig'; split; [intros _; exact Hv|reflexivity]].
  (* unlock *)
  1: { cbn [th_rel] in Hr0; subst eth.
       split; [rewrite Hlen, !app_length; reflexivity|].
       split; [intros t0 th0 eth0 Hn0 He0; destruct (Nat.eq_dec t0 (length l1)) as [->|Hne];
               [ rewrite nth_error_mid in Hn0; injection Hn0 as <-; rewrite Eeth in He0; injection He0 as <-;
                 cbn; auto
               | eapply rel_others; [eassumption|reflexivity|left; split; reflexivity|exact Hne|exact Hn0|exact He0] ]|].
       split; [assumption|].
       split; [intros w0; afutn HE3 w0; lia|].
       intros Hsp. destruct fin as [[w1 [|]]|]; cbn in Hc0, Hfl, Hsp.
       - destruct Hc0 as [-> Hs]. rewrite Hs. split; [discriminate|congruence].
       - apply Hfl; lia.
       - apply Hfl; lia. }
  (* the CAS loop of start_or_wait *)
  1,2: cbn [th_rel] in Hr0; destruct Hr0 as [c ->];
       assert (Hc : c <> E.PSig)
         by (destruct HI1 as (_ & B & _); rewrite Forall_forall in B;
             specialize (B _ (nth_error_In _ _ Eeth)); unfold th_ok in B; cbn in B; tauto);
       destruct (estep_frame _ _ _ _ Est) as (Hfl1 & Hfo & _);
       destruct (estep_cas _ _ _ _ _ _ Eeth Hc Est) as (Hsig' & eth' & Hn' & Hsh);
       pose proof (ev_busy_nth _ _ _ Hn') as Hb; rewrite Ebusy in Hb;
       (split; [rewrite Hfl1, Hlen, !app_length; reflexivity|]);
       (split; [intros t0 th0 eth0 Hn0 He0; destruct (Nat.eq_dec t0 (length l1)) as [->|Hne];
               [ rewrite nth_error_mid in Hn0; injection Hn0 as <-; rewrite Hn' in He0; injection He0 as <-;
                 destruct Hsh as [->|[c' ->]]; cbn in Hb; try discriminate; cbn; eauto
               | eapply rel_others; [eassumption|exact Hfo|left; split; [exact Hsig'|reflexivity]|exact Hne|exact Hn0|exact He0] ]|]);
       (split; [eapply step_inv1; eauto|]);
       (split; [intros w0; destruct HI1 as (A & B & C); rewrite (step_total _ _ _ _ A B Est w0);
                afutn HE3 w0; lia|]);
       intros Hsp; rewrite Hsig'; apply Hfl; lia.
  (* the continuation of a next: try_reset's lock *)
  1: { cbn [th_rel] in Hr0; subst eth;
       (split; [rewrite Hlen, !app_length; reflexivity|]);
       (split; [intros t0 th0 eth0 Hn0 He0; destruct (Nat.eq_dec t0 (length l1)) as [->|Hne];
               [ rewrite nth_error_mid in Hn0; injection Hn0 as <-; rewrite Eeth in He0; injection He0 as <-;
                 cbn; auto
               | eapply rel_others; [eassumption|reflexivity|left; split; reflexivity|exact Hne|exact Hn0|exact He0] ]|]);
       (split; [assumption|]);
       (split; [intros w0; afutn HE3 w0; lia|]);
       intros Hsp; apply Hfl; lia. }
  1: { cbn [th_rel] in Hr0. lock_inject E.CReset.
       - cbn. split; [reflexivity|]. split; [reflexivity|]. apply Hfl; [lia|discriminate].
       - intros Hsp; exfalso; lia. }
  1: { cbn [th_rel] in Hr0; subst eth;
       (split; [rewrite Hlen, !app_length; reflexivity|]);
       (split; [intros t0 th0 eth0 Hn0 He0; destruct (Nat.eq_dec t0 (length l1)) as [->|Hne];
               [ rewrite nth_error_mid in Hn0; injection Hn0 as <-; rewrite Eeth in He0; injection He0 as <-;
                 cbn; auto
               | eapply rel_others; [eassumption|reflexivity|left; split; reflexivity|exact Hne|exact Hn0|exact He0] ]|]);
       (split; [assumption|]);
       (split; [intros w0; afutn HE3 w0; lia|]);
       intros Hsp; apply Hfl; lia. }
  (* inside event_.reset() *)
  1,2: cbn [th_rel crel] in Hr0, Hc0; subst eth; destruct Hc0 as [-> Hsg];
       destruct (estep_frame _ _ _ _ Est) as (Hfl1 & Hfo & _);
       destruct (estep_reset _ _ _ _ Eeth Est) as (Hn' & _ & Htop' & _);
       pose proof (ev_busy_nth _ _ _ Hn') as Hb; rewrite Ebusy in Hb; cbn in Hb; try discriminate;
       specialize (Htop' Hsg);
       (split; [rewrite Hfl1, Hlen, !app_length; reflexivity|]);
       (split; [intros t0 th0 eth0 Hn0 He0; destruct (Nat.eq_dec t0 (length l1)) as [->|Hne];
               [ rewrite nth_error_mid in Hn0; injection Hn0 as <-; rewrite Hn' in He0; injection He0 as <-;
                 cbn; rewrite Htop'; cbn; auto
               | eapply rel_others; [eassumption|exact Hfo|right; split; destruct mt; lia|exact Hne|exact Hn0|exact He0] ]|]);
       (split; [eapply step_inv1; eauto|]);
       (split; [intros w0; destruct HI1 as (A & B & C); rewrite (step_total _ _ _ _ A B Est w0);
                afutn HE3 w0; lia|]);
       intros Hsp; exfalso; lia.
Qed.

(* ------------------------------------------------------------------------------------------ *)
(* Part 3: all schedules                                                                      *)

Definition AInv (ready0 : bool) (W0 : list nat) (s : st) : Prop := OInv ready0 W0 s /\ LInv W0 s.

Lemma ainv_reachable ready0 progs sched :
  NoDup (all_nexts progs) ->
  AInv ready0 (all_nexts progs) (fst (run step sched (init ready0 progs, []))).
Proof.
  intros Hnd. pose proof (NoDup_cnt_le _ Hnd) as HW.
  apply (run_invariant_state st nat aev step (AInv ready0 (all_nexts progs))).
  - intros s t s' evs [HO HL] Hs. split; [eapply step_oinv; eauto|eapply step_linv; eauto].
  - split; [apply init_oinv|apply init_linv].
Qed.

(* enabledness of the embedded event's steps, by thread shape *)
Lemma estep_enabled t e eth :
  nth_error (E.thr e) t = Some eth -> Forall (th_ok (E.nxt e)) (E.thr e) ->
  eth = eth_set \/ eth = eth_reset \/ popping eth \/ (exists w c, eth = eth_cas w c) \/ (exists w, eth = eth_wait w) ->
  E.step t e <> None.
Proof.
  intros Hn Hok Hsh. unfold E.step. rewrite Hn.
  destruct Hsh as [->|[->|[(p & r & ->)|[(w & c & ->)|(w & ->)]]]]; cbn.
  - discriminate.
  - destruct (E.top e); discriminate.
  - rewrite Forall_forall in Hok. specialize (Hok _ (nth_error_In _ _ Hn)).
    unfold th_ok in Hok; cbn in Hok. destruct Hok as [Hl Hne].
    destruct r as [|x r]; [congruence|]. cbn in Hl. destruct Hl as [-> _]. discriminate.
  - destruct (E.ptr_eqb (E.top e) c); [discriminate|]. destruct (E.top e); discriminate.
  - destruct (E.top e); discriminate.
Qed.

Lemma delegate_enabled t s e r d a : E.step t e <> None -> delegate t s e r d a <> None.
Proof. unfold delegate. destruct (E.step t e) as [[e' evs]|]; [discriminate|congruence]. Qed.

Definition can_step_spec (s : st) (t : nat) (th : thread) : Prop :=
  match apc th with
  | ASetEv | AResetEv _ | AUnlock _ | AWaitEv _ => step t s <> None
  | AIdle =>
      match prog th with
      | [] => True
      | ANext _ :: _ => step t s <> None
      | _ => mtx s = None -> step t s <> None
      end
  | ASusp w => is_resumed w (ev s) = true -> mtx s = None -> step t s <> None
  end.

Lemma can_step W0 s t th :
  LInv W0 s -> nth_error (thr s) t = Some th -> can_step_spec s t th.
Proof.
  intros (Hlen & Hrel & HI1 & _) Hn.
  pose proof (nth_error_lt _ _ _ Hn) as Hlt. rewrite <- Hlen in Hlt.
  destruct (nth_error (E.thr (ev s)) t) as [eth|] eqn:He; [|apply nth_error_None in He; lia].
  destruct (Hrel _ _ _ Hn He) as [Hr _]. destruct HI1 as (_ & Hok & _).
  unfold can_step_spec, step. rewrite Hn. destruct th as [pr p]; cbn [apc prog] in *.
  destruct p as [| |fin|w|w|w]; cbn [th_rel] in Hr.
  - destruct pr as [|[| |w] pr]; auto.
    + intros ->. destruct (s3v s); discriminate.
    + intros ->. discriminate.
    + apply delegate_enabled.
      destruct (inject_nth t (E.CWait w) (ev s) Hlt) as (Hin & _ & _).
      eapply estep_enabled; [exact Hin| |right; right; right; right; eexists; reflexivity].
      unfold inject; cbn [E.thr E.nxt]. apply Forall_set_nth; [exact Hok|exact I].
  - apply delegate_enabled. eapply estep_enabled; eauto.
    destruct Hr as [->|Hp]; [left; reflexivity|right; right; left; exact Hp].
  - discriminate.
  - apply delegate_enabled. eapply estep_enabled; eauto.
    destruct Hr as [c ->]. right; right; right; left. eauto.
  - intros -> ->. destruct (s3v s); discriminate.
  - apply delegate_enabled. eapply estep_enabled; eauto.
Qed.

Lemma is_resumed_cnt w e : is_resumed w e = false -> cnt w (E.resumed e) = 0.
Proof.
  unfold is_resumed. induction (E.resumed e) as [|x r IH]; cbn; [reflexivity|].
  rewrite Nat.eqb_sym. destruct (Nat.eqb x w); cbn; [discriminate|auto].
Qed.

Lemma flat_map_all_idle (f : E.thread -> list nat) l :
  f ev_idle = [] -> (forall eth, In eth l -> eth = ev_idle) -> flat_map f l = [].
Proof.
  intros Hf H. induction l as [|x l IH]; cbn; [reflexivity|].
  rewrite (H x (or_introl eq_refl)), Hf. cbn. apply IH. intros y Hy. apply H. now right.
Qed.

Lemma pcount_pos_nth f l t th : nth_error l t = Some th -> f (apc th) = true -> 1 <= pcount f l.
Proof.
  revert t; induction l as [|y r IH]; intros [|t] Hn Hf; cbn in *; try discriminate.
  - injection Hn as ->. rewrite Hf. cbn. lia.
  - specialize (IH _ Hn Hf). lia.
Qed.

(* A state in which no thread can move: every thread has finished its program, except nexts
   that are suspended on the stack of an UNSET event with the mutex free. *)
Theorem terminal_shape ready0 W0 s :
  (forall w, cnt w W0 <= 1) -> AInv ready0 W0 s -> (forall t, step t s = None) ->
  mtx s = None /\
  forall t th, nth_error (thr s) t = Some th ->
    th_fin th = true \/
    exists w, apc th = ASusp w /\ In w (E.stk (ev s)) /\ ~ In w (E.resumed (ev s)) /\ s3v s = Unset.
Proof.
  intros HW [(O1 & O2 & O3 & O4 & O5) HL] Hterm.
  pose proof HL as (Hlen & Hrel & HI1 & HE3 & Hfl).
  assert (Hm : mtx s = None).
  { destruct (mtx s) as [t0|] eqn:Em; [|reflexivity]. exfalso.
    destruct (O2 _ eq_refl) as (th0 & Hn0 & Hh0).
    pose proof (can_step _ _ _ _ HL Hn0) as Hc. unfold can_step_spec in Hc.
    destruct (apc th0); cbn in Hh0; try discriminate; apply Hc; apply Hterm. }
  split; [exact Hm|].
  rewrite Hm in O1.
  (* every thread is idle-finished or suspended *)
  assert (Hq : forall t th, nth_error (thr s) t = Some th ->
             th_fin th = true \/ exists w, apc th = ASusp w /\ is_resumed w (ev s) = false).
  { intros t th Hn. pose proof (can_step _ _ _ _ HL Hn) as Hc. unfold can_step_spec in Hc.
    pose proof (pcount_zero_nth _ _ _ _ O1 Hn) as Hh.
    unfold th_fin. destruct (apc th) as [| |fin|w|w|w] eqn:Ep; cbn in Hh; try discriminate.
    - destruct (prog th) as [|[| |w] pr]; [left; reflexivity| | |]; exfalso; apply Hc; auto.
    - exfalso. apply Hc, Hterm.
    - right. exists w. split; [reflexivity|].
      destruct (is_resumed w (ev s)) eqn:Er; [|reflexivity]. exfalso. apply Hc; auto. }
  (* hence every thread of the embedded event is idle *)
  assert (Hidle : forall eth, In eth (E.thr (ev s)) -> eth = ev_idle).
  { intros eth Hin. apply In_nth_error in Hin as [t He].
    pose proof (nth_error_lt _ _ _ He) as Hlt. rewrite Hlen in Hlt.
    destruct (nth_error (thr s) t) as [th|] eqn:Hn; [|apply nth_error_None in Hn; lia].
    destruct (Hrel _ _ _ Hn He) as [Hr _].
    destruct (Hq _ _ Hn) as [Hf|(w & Ep & _)].
    - unfold th_fin in Hf. destruct (prog th); [|discriminate].
      destruct (apc th); try discriminate. exact Hr.
    - rewrite Ep in Hr. exact Hr. }
  intros t th Hn. destruct (Hq _ _ Hn) as [Hf|(w & Ep & Er)]; [left; exact Hf|right].
  exists w. split; [exact Ep|].
  assert (Hstk : cnt w (E.stk (ev s)) = 1).
  { specialize (O5 w). specialize (HE3 w). pose proof (HW w) as HWw.
    assert (1 <= pcount (curp w) (thr s)).
    { eapply pcount_pos_nth; [exact Hn|]. rewrite Ep. cbn. apply Nat.eqb_refl. }
    unfold total, future, inflight, pending in HE3.
    rewrite !flat_map_all_idle in HE3 by (try reflexivity; exact Hidle).
    rewrite (is_resumed_cnt _ _ Er) in HE3. cbn in HE3. lia. }
  assert (Hin : In w (E.stk (ev s))) by (apply cnt_In; lia).
  split; [exact Hin|]. split; [apply cnt_notin; apply is_resumed_cnt; exact Er|].
  assert (Hsp : pcount special (thr s) = 0) by (pose proof (pcount_special_le (thr s)); lia).
  specialize (Hfl Hsp). unfold flag_ok, sigv in Hfl.
  destruct HI1 as (Htop & _ & _). unfold top_ok in Htop.
  destruct (E.top (ev s)) eqn:Et; cbn in Hfl.
  - destruct (s3v s); [reflexivity| |]; (assert (X : false = true) by (apply Hfl; discriminate); discriminate).
  - rewrite Htop in Hin. destruct Hin.
  - destruct (s3v s); [reflexivity| |]; (assert (X : false = true) by (apply Hfl; discriminate); discriminate).
Qed.

(* the auxiliary counter effs is bounded by the set() calls made *)
Definition is_aset (c : cmd) : bool := match c with ASet => true | _ => false end.
Definition nsets (p : list cmd) : nat := length (filter is_aset p).
Fixpoint rsets (l : list thread) : nat :=
  match l with [] => 0 | th :: r => nsets (prog th) + rsets r end.
Definition total_sets (progs : list (list cmd)) : nat := list_sum (map nsets progs).

Lemma rsets_app a b : rsets (a ++ b) = rsets a + rsets b.
Proof. induction a; cbn; lia. Qed.

Lemma step_effs N t s s' evs :
  effs s + rsets (thr s) <= N -> step t s = Some (s', evs) -> effs s' + rsets (thr s') <= N.
Proof.
  intros HN H. ostep H.
  all: cbn [effs thr] in *; rewrite ?rsets_app in *; cbn [rsets prog] in *; unfold nsets in *; cbn [filter is_aset length] in *; lia.
Qed.

Lemma init_effs ready0 progs : effs (init ready0 progs) + rsets (thr (init ready0 progs)) <= total_sets progs.
Proof.
  unfold init, total_sets; cbn [effs thr]. induction progs as [|p l IH]; cbn [map rsets prog]; [cbn; lia|]. change (list_sum (nsets p :: map nsets l)) with (nsets p + list_sum (map nsets l)). lia.
Qed.

Lemma step_done_absorbing t s s' evs : s3v s = Done -> step t s = Some (s', evs) -> s3v s' = Done.
Proof. intros Hd H. ostep H; cbn in *; congruence. Qed.

Definition nexts (tr : list aev) : list (nat * bool) :=
  flat_map (fun e => match e with ENext w b => [(w, b)] | _ => [] end) tr.

Lemma nexts_map_eev l : nexts (map EEv l) = [].
Proof. induction l; cbn; auto. Qed.

Lemma step_results t s s' evs : step t s = Some (s', evs) -> results s' = rev (nexts evs) ++ results s.
Proof.
  intros H. ostep H; cbn [results]; rewrite ?nexts_map_eev; try reflexivity.
  destruct fin as [[? ?]|]; reflexivity.
Qed.

(* once DONE, a completing next completes with done *)
Lemma step_done_next ready0 W0 t s s' evs w0 b0 :
  OInv ready0 W0 s -> s3v s = Done -> step t s = Some (s', evs) -> In (ENext w0 b0) evs -> b0 = false.
Proof.
  intros (O1 & O2 & O3 & O4 & O5) Hd H Hin. ostep H.
  all: try (apply in_map_iff in Hin as (x & Hx & _); discriminate).
  all: cbn in Hin; repeat (destruct Hin as [Hin|Hin]; try discriminate); try contradiction.
  destruct fin as [[w1 b1]|]; cbn in Hin; [|contradiction].
  destruct Hin as [Hin|[]]. injection Hin as -> ->.
  destruct b0; [|reflexivity]. exfalso.
  cbn [s3v thr] in *. rewrite pcount_app in O3. cbn in O3.
  assert (X : Done = Unset) by (rewrite <- Hd; apply O3; lia). discriminate.
Qed.

Section Theorems.
  Variables (ready0 : bool) (progs : list (list cmd)) (sched : list nat).
  Hypothesis Hnd : NoDup (all_nexts progs).
  Let c := run step sched (init ready0 progs, []).
  Let s := fst c.
  Let tr := snd c.

  Lemma areach : AInv ready0 (all_nexts progs) s.
  Proof. apply ainv_reachable. exact Hnd. Qed.

  (* each set() is consumed by at most one next: the nexts completed with value never outnumber
     the UNSET -> SET transitions (plus the initial state), which never outnumber the set() calls *)
  Theorem set_consumed_at_most_once :
    trues (results s) <= b2n ready0 + effs s /\ effs s <= total_sets progs.
  Proof.
    destruct areach as [(O1 & O2 & O3 & O4 & O5) _]. split; [lia|].
    assert (H : effs s + rsets (thr s) <= total_sets progs).
    { apply (run_invariant_state st nat aev step (fun s => effs s + rsets (thr s) <= total_sets progs)).
      - intros s0 t s' evs H0 Hs. eapply step_effs; eauto.
      - apply init_effs. }
    lia.
  Qed.

  (* every next completes at most once, and only nexts of the programs complete *)
  Theorem next_completes_once :
    NoDup (map fst (results s)) /\ (forall w, In w (map fst (results s)) -> In w (all_nexts progs)) /\
    nexts tr = rev (results s).
  Proof.
    destruct areach as [(O1 & O2 & O3 & O4 & O5) _]. pose proof (NoDup_cnt_le _ Hnd) as HW.
    split; [|split].
    - apply cnt_NoDup. intros w. specialize (O5 w). specialize (HW w). lia.
    - intros w Hin. apply cnt_In in Hin. apply cnt_In. specialize (O5 w). lia.
    - apply (run_invariant st nat aev step (fun c => nexts (snd c) = rev (results (fst c)))).
      + intros c0 t s' evs H0 Hs. cbn [fst snd]. unfold nexts in *. rewrite flat_map_app.
        fold (nexts evs). rewrite (step_results _ _ _ _ Hs), rev_app_distr, rev_involutive, H0. reflexivity.
      + reflexivity.
  Qed.

  (* mutual exclusion, and the header's invariant whenever the mutex is free *)
  Theorem mutex_and_flag :
    pcount holds (thr s) <= 1 /\ (mtx s = None -> flag_ok s).
  Proof.
    destruct areach as [(O1 & _) (_ & _ & _ & _ & Hfl)]. split.
    - destruct (mtx s); lia.
    - intros Hm. rewrite Hm in O1. apply Hfl. pose proof (pcount_special_le (thr s)). lia.
  Qed.

  (* a state where nothing can move: every thread has finished, except nexts suspended on the
     stack of an UNSET event (so no next is left behind once the event is SET or DONE) *)
  Theorem only_unset_blocks :
    (forall t, step t s = None) ->
    mtx s = None /\
    forall t th, nth_error (thr s) t = Some th ->
      th_fin th = true \/
      exists w, apc th = ASusp w /\ In w (E.stk (ev s)) /\ ~ In w (E.resumed (ev s)) /\ s3v s = Unset.
  Proof. apply (terminal_shape ready0 (all_nexts progs)); [apply NoDup_cnt_le; exact Hnd|exact areach]. Qed.

  Theorem done_next_is_done : forall t s' evs w b,
    s3v s = Done -> step t s = Some (s', evs) -> In (ENext w b) evs -> b = false.
  Proof. intros. destruct areach as [HO _]. eapply step_done_next; eauto. Qed.
End Theorems.

(* DONE is permanent *)
Theorem done_absorbing ready0 progs sched1 sched2 :
  s3v (fst (run step sched1 (init ready0 progs, []))) = Done ->
  s3v (fst (run step (sched1 ++ sched2) (init ready0 progs, []))) = Done.
Proof.
  intros H. rewrite run_app.
  apply (run_invariant_state st nat aev step (fun s => s3v s = Done)); [|exact H].
  intros s0 t s' evs H0 Hs. eapply step_done_absorbing; eauto.
Qed.

Definition no_set_done (progs : list (list cmd)) : bool :=
  forallb (forallb (fun c => match c with ASetDone => false | _ => true end)) progs.

(* With two concurrent consumers the property "a next completes done only if the event is DONE"
   FAILS: one set() resumes both waits; the first try_reset turns SET into UNSET and returns
   true; the second finds UNSET, returns false, and its next-sender completes with done although
   set_done() is never called (in a debug build UNIFEX_ASSERT(state_ == DONE) fires). *)
Theorem spurious_done_refuted :
  exists progs sched,
    NoDup (all_nexts progs) /\ no_set_done progs = true /\
    let s := fst (run step sched (init false progs, [])) in
    In (1, false) (results s) /\ s3v s = Unset /\ quiescent s = true.
Proof.
  exists [[ANext 0]; [ANext 1]; [ASet]], [0; 0; 1; 1; 2; 2; 2; 2; 2; 0; 0; 0; 1; 1].
  split; [|split; [reflexivity|]].
  - cbn. repeat constructor; cbn; intuition congruence.
  - vm_compute. repeat split; auto.
Qed.

(* ------------------------------------------------------------------------------------------ *)
(* Part 4: a single consumer never sees a spurious done                                        *)

Lemma estep_noreset t e e' evs eth :
  nth_error (E.thr e) t = Some eth ->
  eth = eth_set \/ popping eth \/ (exists w c, eth = eth_cas w c) \/ (exists w, eth = eth_wait w) ->
  E.step t e = Some (e', evs) -> forall p ok, ~ In (E.EResetCas p ok) evs.
Proof.
  intros Hn Hsh. unfold E.step. rewrite Hn.
  destruct Hsh as [->|[(p & r & ->)|[(w & c & ->)|(w & ->)]]]; cbn.
  - intros [= <- <-] p ok [H|[]]; discriminate.
  - destruct p as [| |pw]; try discriminate. intros [= <- <-] p ok [H|[]]; discriminate.
  - destruct (E.ptr_eqb (E.top e) c); [|destruct (E.top e)]; intros [= <- <-] p ok Hin; cbn in Hin;
      repeat (destruct Hin as [Hin|Hin]; try discriminate); contradiction.
  - destruct (E.top e); intros [= <- <-] p ok Hin; cbn in Hin;
      repeat (destruct Hin as [Hin|Hin]; try discriminate); contradiction.
Qed.

Definition wpc (p : pc) : bool :=
  match p with AWaitEv _ | ASusp _ | AResetEv _ | AUnlock (Some _) => true | _ => false end.
Definition is_nil {A} (l : list A) : bool := match l with [] => true | _ => false end.
Definition cons_th (th : thread) : bool := negb (is_nil (nexts_of (prog th))) || wpc (apc th).
Fixpoint ccount (l : list thread) : nat :=
  match l with [] => 0 | th :: r => b2n (cons_th th) + ccount r end.
Lemma ccount_app a b : ccount (a ++ b) = ccount a + ccount b.
Proof. induction a; cbn; lia. Qed.

Lemma ccount_zero_nth l t th : ccount l = 0 -> nth_error l t = Some th -> cons_th th = false.
Proof.
  revert t; induction l as [|y r IH]; intros [|t] H Hn; cbn in *; try discriminate.
  - injection Hn as ->. destruct (cons_th th); cbn in H; [lia|reflexivity].
  - eapply IH; eauto. lia.
Qed.

Definition PR (w : nat) (e : E.st) : nat := cnt w (pending e) + cnt w (E.resumed e).

Definition SC (s : st) : Prop :=
  ccount (thr s) <= 1 /\
  (forall w, In (w, false) (results s) -> s3v s = Done) /\
  (forall t th w, nth_error (thr s) t = Some th -> apc th = AUnlock (Some (w, false)) -> s3v s = Done) /\
  (forall t th w, nth_error (thr s) t = Some th -> (apc th = AWaitEv w \/ apc th = ASusp w) ->
     1 <= PR w (ev s) -> sigv s = true).

Lemma PR_inject w t c e : nth_error (E.thr e) t = Some ev_idle -> PR w (inject t c e) = PR w e.
Proof.
  intros Hn. unfold PR, pending, inject; cbn [E.thr E.resumed].
  pose proof (flat_map_set_nth th_pending w t ev_idle {| E.prog := [c]; E.tpc := E.PIdle |} _ Hn) as H.
  change (th_pending ev_idle) with (@nil nat) in H.
  change (th_pending {| E.prog := [c]; E.tpc := E.PIdle |}) with (@nil nat) in H. cbn [cnt] in H. lia.
Qed.

Lemma is_resumed_PR w e : is_resumed w e = true -> 1 <= PR w e.
Proof.
  unfold is_resumed, PR. intros H. apply existsb_exists in H as (x & Hin & Hx).
  apply Nat.eqb_eq in Hx. subst x. apply cnt_In in Hin. lia.
Qed.

(* the stepping thread sits at index length l1; every other thread is unchanged *)
Lemma nth_other {A} (l1 : list A) a b l2 t x :
  t <> length l1 -> nth_error (l1 ++ b :: l2) t = Some x -> nth_error (l1 ++ a :: l2) t = Some x.
Proof. intros Hne H. now rewrite (nth_error_mid_neq l1 a b l2 t Hne). Qed.

Lemma nth_in_parts {A} (l1 : list A) a l2 t x :
  t <> length l1 -> nth_error (l1 ++ a :: l2) t = Some x ->
  (exists t1, nth_error l1 t1 = Some x) \/ (exists t2, nth_error l2 t2 = Some x).
Proof.
  intros Hne Hn. destruct (Nat.lt_ge_cases t (length l1)) as [Hlt|Hge].
  - rewrite nth_error_app1 in Hn by exact Hlt. eauto.
  - rewrite nth_error_app2 in Hn by exact Hge.
    destruct (t - length l1) as [|k] eqn:Ek; [lia|]. cbn in Hn. eauto.
Qed.

Lemma other_not_consumer l1 (a : thread) l2 t x :
  ccount l1 = 0 -> ccount l2 = 0 -> t <> length l1 -> nth_error (l1 ++ a :: l2) t = Some x ->
  cons_th x = false.
Proof.
  intros H1 H2 Hne Hn. destruct (nth_in_parts _ _ _ _ _ Hne Hn) as [[t1 Ht]|[t2 Ht]].
  - exact (ccount_zero_nth _ _ _ H1 Ht).
  - exact (ccount_zero_nth _ _ _ H2 Ht).
Qed.

Lemma PR_le_total w e : PR w e <= total w e.
Proof. unfold PR, total. lia. Qed.

Lemma step_sc ready0 W0 t s s' evs :
  (forall w, cnt w W0 <= 1) -> OInv ready0 W0 s -> LInv W0 s -> SC s ->
  step t s = Some (s', evs) -> SC s'.
Proof.
  intros HW (O1 & O2 & O3 & O4 & O5) (Hlen & Hrel & HI1 & HE3 & Hfl) (C0 & S2 & S3 & S4) H.
  ostep H.
  all: pose proof (pcount_special_le l1) as Hs1; pose proof (pcount_special_le l2) as Hs2.
  all: assert (Htl : length l1 < length (E.thr e)) by (rewrite Hlen, app_length; cbn; lia).
  all: destruct (nth_error (E.thr e) (length l1)) as [eth|] eqn:Eeth;
         [|apply nth_error_None in Eeth; lia].
  all: destruct (Hrel (length l1) _ eth (nth_error_mid _ _ _) Eeth) as [Hr0 Hc0]; cbn [apc] in Hr0, Hc0.
  all: subst t.
  all: pose proof (fun w => S3 (length l1) _ w (nth_error_mid _ _ _)) as S3me; cbn [apc] in S3me.
  all: pose proof (fun w => S4 (length l1) _ w (nth_error_mid _ _ _)) as S4me; cbn [apc] in S4me.
  all: unfold SC, flag_ok, sigv in *; cbn [ev mtx s3v thr results effs] in *.
  all: rewrite ?pcount_app, ?ccount_app in *; cbn [pcount ccount apc prog holds special b2n cons_th wpc] in *.
  all: split; [unfold cons_th in *; cbn [prog apc wpc nexts_of flat_map app is_nil negb orb] in *;
               repeat match goal with |- context [is_nil ?x] => destruct (is_nil x) end;
               cbn [negb orb b2n] in *; lia|].
  (* (w,false) in results -> DONE *)
  all: split; [intros w0 Hin;
               first [ specialize (S2 w0 Hin); congruence
                     | destruct fin as [[w1 [|]]|]; cbn in Hin;
                       [ destruct Hin as [Heq|Hin]; [discriminate|exact (S2 _ Hin)]
                       | destruct Hin as [Heq|Hin]; [exact (S3me w1 eq_refl)|exact (S2 _ Hin)]
                       | exact (S2 _ Hin) ] ]|].
  (* about to complete with done -> DONE *)
  all: (split; [intros t0 th0 w0 Hn0 Hp0; destruct (Nat.eq_dec t0 (length l1)) as [->|Hne];
         [ rewrite nth_error_mid in Hn0; injection Hn0 as <-; cbn [apc] in Hp0; try discriminate
         | pose proof (S3 _ _ _ (nth_other _ _ _ _ _ _ Hne Hn0) Hp0); congruence ]|]).
  (* leftover: try_reset found UNSET / DONE *)
  12: { exfalso. pose proof (S4me cw (or_intror eq_refl) (is_resumed_PR _ _ Eres)) as Hsig.
        apply Hfl in Hsig; [congruence|lia]. }
  14: reflexivity.
  (* waiting => (popped or resumed => signalled): steps that leave the event alone or only hand it a command *)
  Ltac s4_same S4 :=
    let t0 := fresh "t0" in let th0 := fresh "th0" in let w0 := fresh "w0" in
    let Hn0 := fresh "Hn0" in let Hp0 := fresh "Hp0" in let HP := fresh "HP" in let Hne := fresh "Hne" in
    intros t0 th0 w0 Hn0 Hp0 HP;
    match type of Hn0 with nth_error (?l1 ++ _ :: _) _ = _ =>
      destruct (Nat.eq_dec t0 (length l1)) as [->|Hne];
      [ rewrite nth_error_mid in Hn0; injection Hn0 as <-; cbn [apc] in Hp0; destruct Hp0; discriminate
      | rewrite ?PR_inject in HP by assumption; cbn [inject E.top];
        exact (S4 _ _ _ (nth_other _ _ _ _ _ _ Hne Hn0) Hp0 HP) ]
    end.
  1,2,3,4: cbn [th_rel] in Hr0; subst eth; s4_same S4.
  (* a thread other than the stepping consumer cannot be waiting: single consumer *)
  Ltac other_waits C0 Hne Hn0 Hp0 :=
    exfalso;
    match type of Hn0 with nth_error (?l1 ++ _ :: ?l2) ?t0 = Some ?th0 =>
      assert (Hz : ccount l1 = 0 /\ ccount l2 = 0) by (unfold cons_th in C0; cbn in C0; rewrite ?orb_true_r in C0; cbn in C0; lia);
      destruct Hz as [Hz1 Hz2];
      pose proof (other_not_consumer _ _ _ _ _ Hz1 Hz2 Hne Hn0) as Hnc;
      unfold cons_th in Hnc; destruct Hp0 as [Hp0|Hp0]; rewrite Hp0 in Hnc; cbn in Hnc;
      rewrite orb_true_r in Hnc; discriminate
    end.
  (* next: the load *)
  1,2: cbn [th_rel] in Hr0; subst eth;
       destruct (inject_nth (length l1) (E.CWait w) e Htl) as (Hin & Hio & Hil);
       assert (Hinj1 : Inv1 (inject (length l1) (E.CWait w) e))
         by (apply inject_inv1; [assumption|assumption|
             intros w1; pose proof (HW w1); afutn HE3 w1; cbn [cmd_waits cnt]; lia]);
       intros t0 th0 w0 Hn0 Hp0 HP; destruct (Nat.eq_dec t0 (length l1)) as [->|Hne];
       [ rewrite nth_error_mid in Hn0; injection Hn0 as <-; cbn [apc] in Hp0;
         assert (w0 = w) by (destruct Hp0 as [Hp0|Hp0]; congruence); subst w0;
         destruct Hinj1 as (A & B & C);
         destruct (step_sigP _ _ _ _ w B Est
                     (estep_noreset _ _ _ _ _ Hin (or_intror (or_intror (or_intror (ex_intro _ w eq_refl)))) Est) HP)
           as [[HPold _]|Hs]; [|exact Hs];
         exfalso; fold (PR w (inject (length l1) (E.CWait w) e)) in HPold;
         rewrite PR_inject in HPold by assumption;
         pose proof (PR_le_total w e); pose proof (HW w); afutn HE3 w; rewrite Nat.eqb_refl in HE3; lia
       | other_waits C0 Hne Hn0 Hp0 ].
  (* inside event_.set(): the exchange signals; the pops keep the flag *)
  1,2: cbn [th_rel] in Hr0;
       assert (Hnr : forall p ok, ~ In (E.EResetCas p ok) eevs)
         by (eapply estep_noreset; [exact Eeth| |exact Est];
             destruct Hr0 as [->|Hp]; [left; reflexivity|right; left; exact Hp]);
       intros t0 th0 w0 Hn0 Hp0 HP; destruct (Nat.eq_dec t0 (length l1)) as [->|Hne];
       [ rewrite nth_error_mid in Hn0; injection Hn0 as <-; cbn [apc] in Hp0; destruct Hp0; discriminate
       | destruct HI1 as (A & B & C);
         destruct (step_sigP _ _ _ _ w0 B Est Hnr HP) as [[HPold Hs]|Hs]; [|exact Hs];
         rewrite Hs; exact (S4 _ _ _ (nth_other _ _ _ _ _ _ Hne Hn0) Hp0 HPold) ].
  (* unlock *)
  1: cbn [th_rel] in Hr0; subst eth; s4_same S4.
  (* the CAS loop of the consumer's own wait *)
  1,2: cbn [th_rel] in Hr0; destruct Hr0 as [c ->];
       assert (Hnr : forall p ok, ~ In (E.EResetCas p ok) eevs)
         by (eapply estep_noreset; [exact Eeth| |exact Est]; right; right; left; eauto);
       intros t0 th0 w0 Hn0 Hp0 HP; destruct (Nat.eq_dec t0 (length l1)) as [->|Hne];
       [ rewrite nth_error_mid in Hn0; injection Hn0 as <-; cbn [apc] in Hp0;
         assert (w0 = cw) by (destruct Hp0 as [Hp0|Hp0]; congruence); subst w0;
         destruct HI1 as (A & B & C);
         destruct (step_sigP _ _ _ _ cw B Est Hnr HP) as [[HPold Hs]|Hs]; [|exact Hs];
         rewrite Hs; exact (S4me cw (or_introl eq_refl) HPold)
       | other_waits C0 Hne Hn0 Hp0 ].
  (* try_reset's lock *)
  1,2,3: cbn [th_rel] in Hr0; subst eth; s4_same S4.
  (* inside event_.reset(): only the consumer itself can be here *)
  1,2: intros t0 th0 w0 Hn0 Hp0 HP; destruct (Nat.eq_dec t0 (length l1)) as [->|Hne];
       [ rewrite nth_error_mid in Hn0; injection Hn0 as <-; cbn [apc] in Hp0; destruct Hp0; discriminate
       | other_waits C0 Hne Hn0 Hp0 ].
Qed.

Definition consumers (progs : list (list cmd)) : nat :=
  length (filter (fun p => negb (is_nil (nexts_of p))) progs).

Lemma init_sc ready0 progs : consumers progs <= 1 -> SC (init ready0 progs).
Proof.
  intros Hc. unfold SC, init; cbn [thr results s3v ev]. split; [|split; [|split]].
  - assert (H : ccount (map (fun p => {| prog := p; apc := AIdle |}) progs) = consumers progs).
    { clear Hc. unfold consumers. induction progs as [|p l IH]; cbn; [reflexivity|].
      unfold cons_th at 1; cbn [prog apc wpc]. rewrite orb_false_r.
      destruct (negb (is_nil (nexts_of p))); cbn; rewrite IH; reflexivity. }
    lia.
  - intros w [].
  - intros t th w Hn Hp. apply nth_error_In in Hn. apply in_map_iff in Hn as (p & <- & _). discriminate.
  - intros t th w Hn Hp. apply nth_error_In in Hn. apply in_map_iff in Hn as (p & <- & _).
    destruct Hp; discriminate.
Qed.

(* With a single consumer (all next commands in one thread's program) a next completes with
   done only if the event is DONE: no spurious done. *)
Theorem single_consumer_done_only_if_done ready0 progs sched :
  NoDup (all_nexts progs) -> consumers progs <= 1 ->
  let s := fst (run step sched (init ready0 progs, [])) in
  forall w, In (w, false) (results s) -> s3v s = Done.
Proof.
  intros Hnd Hc. pose proof (NoDup_cnt_le _ Hnd) as HW.
  assert (H : AInv ready0 (all_nexts progs) (fst (run step sched (init ready0 progs, []))) /\
              SC (fst (run step sched (init ready0 progs, [])))).
  { apply (run_invariant_state st nat aev step
             (fun s => AInv ready0 (all_nexts progs) s /\ SC s)).
    - intros s0 t s' evs [[HO HL] HS] Hs. split; [split|].
      + eapply step_oinv; eauto.
      + eapply step_linv; eauto.
      + eapply step_sc; eauto.
    - split; [split; [apply init_oinv|apply init_linv]|apply init_sc; exact Hc]. }
  destruct H as [_ (_ & S2 & _)]. exact S2.
Qed.
