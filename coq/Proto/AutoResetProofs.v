(* Proofs about the E1 model AutoReset (Proto/AutoResetDefs.v): async_auto_reset_event over the
   embedded EventV1.  All theorems: arbitrary initial state, arbitrary thread programs over
   set / set_done / next w (NoDup of the next ids), arbitrary schedules.
   Part 1: invariants of the mutex / state_ / program-counter layer (no event reasoning).
   Part 2: the link to the embedded event (its invariant Inv1, flag consistency).
   Part 3: theorems. *)
From Coq Require Import List Bool Arith Lia.
From V Require Import Base.Sched Proto.EventV1Defs Proto.EventV1Proofs Proto.AutoResetDefs.
Import ListNotations.
Import AutoReset.

(* ------------------------------------------------------------------------------------------ *)
(* Part 1: the outer layer                                                                    *)

Definition holds (p : pc) : bool :=
  match p with ASetEv | AUnlock _ | AResetEv _ => true | _ => false end.
(* a successful try_reset in flight: the thread turned SET into UNSET and has not yet completed *)
Definition valp (p : pc) : bool :=
  match p with AResetEv _ | AUnlock (Some (_, true)) => true | _ => false end.
Definition curp (w : nat) (p : pc) : bool :=
  match p with
  | AWaitEv x | ASusp x | AResetEv x | AUnlock (Some (x, _)) => Nat.eqb x w
  | _ => false
  end.

Definition b2n (b : bool) : nat := if b then 1 else 0.

Fixpoint pcount (f : pc -> bool) (l : list thread) : nat :=
  match l with [] => 0 | th :: r => b2n (f (apc th)) + pcount f r end.

Lemma pcount_app f a b : pcount f (a ++ b) = pcount f a + pcount f b.
Proof. induction a; cbn; lia. Qed.

Definition nexts_of (p : list cmd) : list nat :=
  flat_map (fun c => match c with ANext w => [w] | _ => [] end) p.
Definition all_nexts (progs : list (list cmd)) : list nat := flat_map nexts_of progs.
Definition afut (s : st) : list nat := flat_map (fun th => nexts_of (prog th)) (thr s).

Definition trues (l : list (nat * bool)) : nat := length (filter snd l).

Definition OInv (ready0 : bool) (W0 : list nat) (s : st) : Prop :=
  pcount holds (thr s) = (match mtx s with Some _ => 1 | None => 0 end) /\
  (forall t, mtx s = Some t -> exists th, nth_error (thr s) t = Some th /\ holds (apc th) = true) /\
  (1 <= pcount valp (thr s) -> s3v s = Unset) /\
  trues (results s) + pcount valp (thr s) + (match s3v s with SSet => 1 | _ => 0 end)
    <= b2n ready0 + effs s /\
  (forall w, cnt w (afut s) + pcount (curp w) (thr s) + cnt w (map fst (results s)) = cnt w W0).

Lemma valp_holds p : valp p = true -> holds p = true.
Proof. destruct p as [| |[[? []]|]| | |]; cbn; auto; discriminate. Qed.

Lemma pcount_val_le l : pcount valp l <= pcount holds l.
Proof.
  induction l as [|th l IH]; cbn; [lia|].
  destruct (valp (apc th)) eqn:E; [rewrite (valp_holds _ E)|]; cbn; lia.
Qed.

Lemma step_decomp t s s' evs :
  step t s = Some (s', evs) ->
  exists l1 th l2, thr s = l1 ++ th :: l2 /\ nth_error (thr s) t = Some th /\ length l1 = t /\
                   forall b, EventV1.set_nth t b (thr s) = l1 ++ b :: l2.
Proof.
  unfold step. destruct (nth_error (thr s) t) as [th|] eqn:E; [|discriminate]. intros _.
  destruct (set_nth_split _ _ _ E) as (l1 & l2 & H1 & H2 & H3). exists l1, th, l2. auto.
Qed.

Lemma nth_error_mid {A} (l1 : list A) a l2 : nth_error (l1 ++ a :: l2) (length l1) = Some a.
Proof. induction l1; cbn; auto. Qed.

(* case analysis of one outer step: the delegating cases leave [EventV1.step ...] and
   [ev_busy ...] destructed *)
Ltac ostep H :=
  let l1 := fresh "l1" in let th := fresh "th" in let l2 := fresh "l2" in
  let Hthr := fresh "Hthr" in let Hnth := fresh "Hnth" in let Hset := fresh "Hset" in
  let Hlen := fresh "Hlen" in
  let pr := fresh "pr" in let pcx := fresh "pcx" in
  let e := fresh "e" in let mt := fresh "mt" in let sv := fresh "sv" in
  let ths := fresh "ths" in let res := fresh "res" in let ef := fresh "ef" in
  let Est := fresh "Est" in let Ebusy := fresh "Ebusy" in let Eres := fresh "Eres" in
  destruct (step_decomp _ _ _ _ H) as (l1 & th & l2 & Hthr & Hnth & Hlen & Hset);
  unfold step in H; rewrite Hnth in H; clear Hnth;
  destruct th as [pr pcx]; cbn [prog apc] in H;
  match type of Hthr with thr ?s = _ => destruct s as [e mt sv ths res ef] end;
  unfold delegate, set_thr in H;
  cbn [ev mtx s3v thr results effs] in *; subst ths;
  destruct pcx as [| |fin|cw|cw|cw];
  [ destruct pr as [|[| |w] pr]; [discriminate| | | ];
    [ destruct mt; [discriminate|]; destruct sv
    | destruct mt; [discriminate|]
    | destruct (EventV1.step _ _) as [[e' eevs]|] eqn:Est; [|discriminate];
      destruct (ev_busy _ e') eqn:Ebusy ]
  | destruct (EventV1.step _ _) as [[e' eevs]|] eqn:Est; [|discriminate];
    destruct (ev_busy _ e') eqn:Ebusy
  | idtac
  | destruct (EventV1.step _ _) as [[e' eevs]|] eqn:Est; [|discriminate];
    destruct (ev_busy _ e') eqn:Ebusy
  | destruct (is_resumed cw e) eqn:Eres; [|discriminate]; destruct mt; [discriminate|]; destruct sv
  | destruct (EventV1.step _ _) as [[e' eevs]|] eqn:Est; [|discriminate];
    destruct (ev_busy _ e') eqn:Ebusy ];
  rewrite ?Hset in H; injection H as <- <-.

Local Hint Rewrite pcount_app flat_map_app cnt_app map_app : adb.

Ltac onorm :=
  unfold afut in *; cbn [ev mtx s3v thr results effs] in *;
  autorewrite with adb in *;
  cbn [pcount flat_map nexts_of prog apc holds valp curp b2n app cnt map fst snd trues filter length] in *;
  autorewrite with adb in *;
  cbn [cnt] in *.

Lemma pcount_init f progs : f AIdle = false ->
  pcount f (map (fun p => {| prog := p; apc := AIdle |}) progs) = 0.
Proof. intros Hf. induction progs; cbn; auto. rewrite Hf. cbn. auto. Qed.

Lemma afut_init ready0 progs : afut (init ready0 progs) = all_nexts progs.
Proof.
  unfold afut, all_nexts, init; cbn. induction progs as [|a l IH]; cbn; auto. f_equal. apply IH.
Qed.

Lemma init_oinv ready0 progs : OInv ready0 (all_nexts progs) (init ready0 progs).
Proof.
  unfold OInv. rewrite afut_init. unfold init; cbn.
  rewrite !pcount_init by reflexivity.
  repeat split; try lia.
  - intros t Ht; discriminate.
  - destruct ready0; cbn; lia.
  - intros w. rewrite pcount_init by reflexivity. lia.
Qed.

Lemma nth_error_mid_neq {A} (l1 : list A) a b l2 t :
  t <> length l1 -> nth_error (l1 ++ a :: l2) t = nth_error (l1 ++ b :: l2) t.
Proof.
  revert t; induction l1 as [|x l1 IH]; intros [|t] Hne; cbn in *; auto; try lia.
Qed.

Lemma step_oinv ready0 W0 t s s' evs :
  OInv ready0 W0 s -> step t s = Some (s', evs) -> OInv ready0 W0 s'.
Proof.
  intros (H1 & H2 & H3 & H4 & H5) H.
  ostep H.
  all: pose proof (pcount_val_le l1) as Hv1; pose proof (pcount_val_le l2) as Hv2.
  all: unfold OInv; cbn [ev mtx s3v thr results effs].
  all: split; [onorm; try destruct fin as [[? []]|]; cbn [b2n valp holds] in *; try lia; destruct mt; lia|].
  all: split; [|split; [|split]].
  (* the holder is where mtx says *)
  all: try (intros t0 Ht0; try discriminate;
            first [ injection Ht0 as <-; subst t; rewrite nth_error_mid; eexists; split; [reflexivity|reflexivity]
                  | destruct (H2 _ Ht0) as (th0 & Hn0 & Hh0);
                    destruct (Nat.eq_dec t0 (length l1)) as [->|Hne];
                    [ rewrite nth_error_mid in Hn0 |- *; injection Hn0 as <-; cbn in Hh0; try discriminate;
                      eexists; split; [reflexivity|reflexivity]
                    | rewrite (nth_error_mid_neq _ _ _ _ _ Hne) in Hn0; eauto ] ]).
  all: try (intros w0; specialize (H5 w0)).
  all: onorm; try destruct fin as [[? []]|]; cbn [b2n valp holds curp map fst cnt filter snd length trues] in *.
  all: try (destruct mt; lia).
  all: try lia.
  all: try (intros Hp; first [exfalso; lia | apply H3; lia | reflexivity]).
  all: try (eqs; lia).
  Show.
