(* E1 model Scope(n spawners, j joiners): the packed admission gate + reference count of
   unifex::v2::async_scope (include/unifex/v2/async_scope.hpp: opState_ = 2*count + open bit,
   try_record_start, record_completion, end_scope, scope_reference, nest sender / nest op, join()),
   which is also the counter of v0::async_scope (include/unifex/v0/async_scope.hpp: try_record_start,
   record_done, end_of_scope, complete(), cleanup(), request_stop()) and, through its member scope_,
   of v1::async_scope (include/unifex/v1/async_scope.hpp: attach = nest on scope_, complete() =
   scope_.join(), request_stop() = scope_.end_scope() + stopSource_.request_stop(), cleanup() =
   request_stop() then scope_.join()).
   The manual reset event the join waits on (v1/async_manual_reset_event.hpp,
   source/async_manual_reset_event_v1.cpp) is abstract here: [evt : bool] plus the stack of
   waiting joiners, all resumed by the first [set]; its internals belong to property C16.
   The stop source is abstract too: [stopped : bool].
   Executable definitions only. *)
From Coq Require Import ZArith List Bool.
Import ListNotations.
Local Open Scope Z_scope.

Module Scope.

(* what the owner of a scope_reference does with it once admitted *)
Inductive plan :=
| PStart    (* connect + start the nest op; the nested work (leaf) completes later *)
| PDetach   (* like PStart, but the nest op's receiver is internal (spawn_detached, spawn_future,
               v0 spawn): a rejected reference just frees its operation, nothing to observe *)
| PFail     (* connect of the admitted nest sender throws (the nested sender's connect fails): the
               half-built nest op releases the reference during unwinding, nothing is started; a
               rejected (empty) nest sender connects without touching the nested sender, so it is
               connected, started and completes with done like PStart *)
| PDrop.    (* drop the nest sender unstarted (or: a copy that is merely destroyed; or a
               spawn_detached / spawn_future whose operation construction throws: admitted
               references are released during unwinding, rejected ones are not observable) *)

(* program counter of one scope_reference (= one try_record_start .. record_completion) *)
Inductive spc :=
| SLoad                 (* try_record_start: about to opState_.load(relaxed)   v2:182 v0:209 *)
| SCas (o : Z)          (* about to compare_exchange_weak(o, o+2, relaxed)      v2:190 v0:217 *)
| SRejected             (* scope_ = nullptr; start of the nest op will set_done  v2:250 *)
| SAdmitted             (* holds a reference; about to start the nested op       v2:248 *)
| SRunning              (* nested op started; it completes later (nest_receiver::complete) *)
| SSub                  (* about to record_completion: fetch_sub(2)               v2:173 v0:224 *)
| SSet                  (* read closed and count = 1: about to evt_.set()         v2:177 v0:228 *)
| SFin (adm : bool).    (* done; adm = it had been admitted (ghost) *)

(* instructions of a closing / joining thread *)
Inductive jop :=
| JClose    (* end_scope v2:162-168 / end_of_scope v0:234-240: fetch_and(~1), then evt_.set() iff
               it read open and count = 0 (before the fix: iff it read count = 0) *)
| JStop     (* stopSource_.request_stop()            (v1, v0 request_stop / cleanup) *)
| JWait     (* start evt_.async_wait(): complete at once if set, else push on the event's stack *)
| JSync     (* v0 await_and_sync: opState_.load(acquire) after the wait   v0:116 *)
| JDone.    (* the join receiver is completed *)

Inductive jmode :=
| JReady     (* running its program *)
| JPend      (* after a JClose that read count = 0: about to evt_.set() *)
| JBlocked.  (* parked on the event *)

Record jst := {
  jprog : list jop;     (* instructions still to run *)
  jmode_ : jmode;
  jwaited : bool        (* ghost: it has got past a JWait *)
}.

Record st := {
  strict : bool;            (* variant of end_scope: true = the code: set the event only if this
                               call closed the scope (it read open and count = 0); false = the
                               code before the fix: set whenever it read count = 0 *)
  w : Z;                    (* opState_ *)
  evt : bool;               (* event signalled *)
  waiters : list nat;       (* joiners parked on the event, most recent first *)
  stopped : bool;           (* stop requested on the scope's stop source *)
  sps : list (plan * spc);
  jns : list jst;
  joined : list nat         (* join completions (joiner index), newest first *)
}.

Inductive ev :=
| ELoad (v : Z)                          (* opState_.load in try_record_start *)
| ECas (found desired : Z) (ok : bool)   (* the CAS: found = expected value on success, the
                                            value actually found on failure *)
| ESub (old : Z)                         (* opState_.fetch_sub(2) *)
| EAnd (old : Z)                         (* opState_.fetch_and(~1) *)
| ESet                                   (* evt_.set() *)
| EResume (j : nat)                      (* joiner j's wait is resumed *)
| EWait (ready : bool)                   (* async_wait started: ready = event already set *)
| EStop (already : bool)                 (* stopSource_.request_stop(): sets the stop bit, or finds
                                            it set already (then it does nothing) *)
| ESync (v : Z)                          (* v0: the acquire load after the wait *)
| ENestStart (i : nat)                   (* nested work of reference i started *)
| ELeafDone (i : nat)                    (* nested work of reference i completed *)
| ENestDone (i : nat)                    (* nest op of a rejected reference completed with done *)
| EJoinDone (j : nat).                   (* join receiver of joiner j completed *)

Definition init (strict_ : bool) (plans : list plan) (progs : list (list jop)) : st :=
  {| strict := strict_; w := 1; evt := false; waiters := []; stopped := false;
     sps := map (fun p => (p, SLoad)) plans;
     jns := map (fun p => {| jprog := p; jmode_ := JReady; jwaited := false |}) progs;
     joined := [] |}.

Fixpoint set_nth {A} (n : nat) (x : A) (l : list A) : list A :=
  match l, n with
  | [], _ => []
  | _ :: r, O => x :: r
  | y :: r, S n' => y :: set_nth n' x r
  end.

Definition closed_word (v : Z) : bool := Z.even v.     (* scope_ended(state) *)
Definition count_of (v : Z) : Z := Z.shiftr v 1.       (* use_count(state) *)

(* evt_.set(): the first set resumes every parked joiner, in stack order *)
Definition wake1 (js : list jst) (j : nat) : list jst :=
  match nth_error js j with
  | Some x =>
      match jmode_ x with
      | JBlocked => set_nth j {| jprog := jprog x; jmode_ := JReady; jwaited := true |} js
      | _ => js
      end
  | None => js
  end.

Definition do_set (s : st) (js : list jst) (sp : list (plan * spc)) : st * list ev :=
  ({| strict := strict s; w := w s; evt := true; waiters := []; stopped := stopped s;
      sps := sp; jns := fold_left wake1 (waiters s) js; joined := joined s |},
   ESet :: map EResume (waiters s)).

Definition upd_sp (s : st) (v : Z) (i : nat) (pl : plan) (p : spc) : st :=
  {| strict := strict s; w := v; evt := evt s; waiters := waiters s; stopped := stopped s;
     sps := set_nth i (pl, p) (sps s); jns := jns s; joined := joined s |}.

Definition after_reject (pl : plan) : spc :=
  match pl with PStart | PFail => SRejected | PDetach | PDrop => SFin false end.
Definition after_admit (pl : plan) : spc :=
  match pl with PStart | PDetach => SAdmitted | PFail | PDrop => SSub end.

Definition step_sp (i : nat) (s : st) : option (st * list ev) :=
  match nth_error (sps s) i with
  | None => None
  | Some (pl, SLoad) =>
      let v := w s in
      Some (upd_sp s v i pl (if closed_word v then after_reject pl else SCas v), [ELoad v])
  | Some (pl, SCas o) =>
      let v := w s in
      if v =? o then Some (upd_sp s (o + 2) i pl (after_admit pl), [ECas o (o + 2) true])
      else Some (upd_sp s v i pl (if closed_word v then after_reject pl else SCas v),
                 [ECas v (o + 2) false])
  | Some (pl, SRejected) => Some (upd_sp s (w s) i pl (SFin false), [ENestDone i])
  | Some (pl, SAdmitted) => Some (upd_sp s (w s) i pl SRunning, [ENestStart i])
  | Some (pl, SRunning) => Some (upd_sp s (w s) i pl SSub, [ELeafDone i])
  | Some (pl, SSub) =>
      let old := w s in
      Some (upd_sp s (old - 2) i pl
              (if closed_word old && (count_of old =? 1) then SSet else SFin true),
            [ESub old])
  | Some (pl, SSet) => Some (do_set s (jns s) (set_nth i (pl, SFin true) (sps s)))
  | Some (_, SFin _) => None
  end.

Definition upd_jn (s : st) (j : nat) (x : jst) : st :=
  {| strict := strict s; w := w s; evt := evt s; waiters := waiters s; stopped := stopped s;
     sps := sps s; jns := set_nth j x (jns s); joined := joined s |}.

Definition step_jn (j : nat) (s : st) : option (st * list ev) :=
  match nth_error (jns s) j with
  | None => None
  | Some x =>
      match jmode_ x with
      | JBlocked => None
      | JPend =>
          Some (do_set s (set_nth j {| jprog := jprog x; jmode_ := JReady; jwaited := jwaited x |} (jns s))
                       (sps s))
      | JReady =>
          match jprog x with
          | [] => None
          | JClose :: r =>
              let old := w s in
              let sets := (count_of old =? 0) && (if strict s then negb (closed_word old) else true) in
              let x' := {| jprog := r; jmode_ := if sets then JPend else JReady; jwaited := jwaited x |} in
              Some ({| strict := strict s; w := Z.land old (-2); evt := evt s; waiters := waiters s;
                       stopped := stopped s; sps := sps s; jns := set_nth j x' (jns s);
                       joined := joined s |}, [EAnd old])
          | JStop :: r =>
              let x' := {| jprog := r; jmode_ := JReady; jwaited := jwaited x |} in
              Some ({| strict := strict s; w := w s; evt := evt s; waiters := waiters s;
                       stopped := true; sps := sps s; jns := set_nth j x' (jns s);
                       joined := joined s |}, [EStop (stopped s)])
          | JWait :: r =>
              if evt s then
                Some (upd_jn s j {| jprog := r; jmode_ := JReady; jwaited := true |},
                      [EWait true; EResume j])
              else
                let x' := {| jprog := r; jmode_ := JBlocked; jwaited := jwaited x |} in
                Some ({| strict := strict s; w := w s; evt := evt s; waiters := j :: waiters s;
                         stopped := stopped s; sps := sps s; jns := set_nth j x' (jns s);
                         joined := joined s |}, [EWait false])
          | JSync :: r =>
              Some (upd_jn s j {| jprog := r; jmode_ := JReady; jwaited := jwaited x |}, [ESync (w s)])
          | JDone :: r =>
              let x' := {| jprog := r; jmode_ := JReady; jwaited := jwaited x |} in
              Some ({| strict := strict s; w := w s; evt := evt s; waiters := waiters s;
                       stopped := stopped s; sps := sps s; jns := set_nth j x' (jns s);
                       joined := j :: joined s |}, [EJoinDone j])
          end
      end
  end.

(* thread ids: 0..n-1 references (spawners), n..n+j-1 joiners *)
Definition nsp (s : st) : nat := length (sps s).
Definition step (t : nat) (s : st) : option (st * list ev) :=
  if Nat.ltb t (nsp s) then step_sp t s else step_jn (t - nsp s) s.

(* ---- observations used by the theorems and by the tie ---- *)
Definition holds (p : spc) : bool :=       (* the reference is counted in opState_ *)
  match p with SAdmitted | SRunning | SSub => true | _ => false end.
Definition sp_fin (p : plan * spc) : bool := match snd p with SFin _ => true | _ => false end.
Definition sp_setting (p : plan * spc) : bool := match snd p with SSet => true | _ => false end.
Definition jn_fin (x : jst) : bool :=
  match jmode_ x, jprog x with JReady, [] => true | _, _ => false end.
Definition quiescent (s : st) : bool := forallb sp_fin (sps s) && forallb jn_fin (jns s).
(* every closer/joiner has returned: the owner may destroy the scope *)
Definition joins_over (s : st) : bool := forallb jn_fin (jns s).
Definition someone_setting (s : st) : bool := existsb sp_setting (sps s).

(* the usual programs *)
Definition prog_join : list jop := [JClose; JWait; JDone].                        (* v2 join, v1 complete *)
Definition prog_v1_cleanup : list jop := [JClose; JStop; JClose; JWait; JDone].   (* v1 cleanup *)
Definition prog_request_stop : list jop := [JClose; JStop].                       (* v1/v0 request_stop *)
Definition prog_v0_complete : list jop := [JClose; JWait; JSync; JDone].
Definition prog_v0_cleanup : list jop := [JClose; JStop; JWait; JSync; JDone].

End Scope.
