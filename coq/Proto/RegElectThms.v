(* Consequences of the invariant of Proto/RegElectProofs.v, for both variants (when_all_range,
   stop_when), all child outcomes (any n, including 0), both stop modes and all schedules. *)
From Coq Require Import ZArith List Bool Lia Arith.
From V Require Import Base.Sched Proto.RegElectDefs Proto.RegElectProofs.
Import ListNotations.
Import RegElect.

Lemma Inv_at_most_once s : Inv s -> length (delivered s) <= 1.
Proof.
  intros HI. destruct (Nat.eq_dec (nkids s) 0) as [H0|H0].
  - destruct (i_n0 _ HI H0) as (_ & _ & H). rewrite H. destruct (var s); [destruct (sfin (sp s)); cbn; lia|lia].
  - pose proof (Inv_nE_le _ HI H0) as H. unfold nE in H. lia.
Qed.

Lemma quiescent_parts s :
  quiescent s = true ->
  sp s = SFin /\ Forall (fun p => p = KFin) (kids s) /\ rq s = RFin /\ (freed s = false \/ destroyed s = true).
Proof.
  unfold quiescent. intros H.
  apply andb_true_iff in H as [H H4]. apply andb_true_iff in H as [H H3]. apply andb_true_iff in H as [H1 H2].
  repeat split.
  - destruct (sp s); cbn in H1; congruence.
  - apply Forall_forall. intros p Hp. rewrite forallb_forall in H2. specialize (H2 p Hp). destruct p; cbn in H2; congruence.
  - destruct (rq s); cbn in H3; congruence.
  - apply orb_true_iff in H4 as [H4|H4]; [left; destruct (freed s); cbn in H4; congruence|right; exact H4].
Qed.

Lemma Forall_fin_count f l : Forall (fun p => p = KFin) l -> f KFin = false -> count_if f l = 0.
Proof. intros H Hf. apply Forall_count_zero. eapply Forall_impl; [|exact H]. cbn. intros p ->. exact Hf. Qed.

Lemma Inv_no_lost s :
  Inv s -> quiescent s = true -> nkids s <> 0 \/ var s = VRange ->
  length (delivered s) = 1 /\ destroyed s = true.
Proof.
  intros HI Hq Hn. destruct (quiescent_parts s Hq) as (Hsp & Hk & Hrq & Hfd).
  assert (HA : nA s = 0) by (apply Forall_fin_count; auto).
  assert (HD : nD s = 0) by (apply Forall_fin_count; auto).
  assert (HW : nW s = 0) by (apply Forall_fin_count; auto).
  assert (HL : nL s = 0) by (apply Forall_fin_count; auto).
  assert (Hcb : cbA (cb s) = 0 /\ cbE (cb s) = 0).
  { pose proof (i_host _ HI) as Hh. unfold host_ok in Hh. rewrite Hsp, Hrq in Hh.
    destruct (cbk s); cbn in Hh; destruct (cb s); cbn in *; intuition discriminate. }
  destruct Hcb as (HcA & HcE).
  assert (Hlen : length (delivered s) = 1).
  { destruct (Nat.eq_dec (nkids s) 0) as [H0|H0].
    - destruct Hn as [Hn|Hn]; [contradiction|].
      destruct (i_n0 _ HI H0) as (_ & _ & H). rewrite H, Hn, Hsp. reflexivity.
    - assert (Hz : nA s + cbA (cb s) = 0) by lia.
      pose proof (i_z0 _ HI H0 Hz) as HE. unfold nE in HE. lia. }
  split; [exact Hlen|].
  destruct Hfd as [Hf|Hd]; [|exact Hd]. unfold freed in Hf. destruct (delivered s); [discriminate|discriminate].
Qed.

Lemma Inv_not_before s :
  Inv s -> delivered s <> [] -> Forall (fun p => actv p = false) (kids s) /\ cbA (cb s) = 0.
Proof.
  intros HI Hd.
  destruct (Nat.eq_dec (nA s + cbA (cb s) + nD s + nW s + nL s + cbE (cb s)) 0) as [H0|H0].
  - split; [apply count_zero_Forall; unfold nA in H0; lia|lia].
  - exfalso. apply Hd. apply (Inv_live_nodeliv _ HI H0).
Qed.

Lemma Inv_rc_nonneg s : Inv s -> (0 <= rc s)%Z.
Proof. intros HI. destruct (i_rc _ HI) as [H|(H & _)]; lia. Qed.

Section Main.
  Variable v : variant.
  Variable outs : list outcome.
  Variables req pre : bool.
  Variable sched : list nat.
  Let s := fst (run step sched (init v outs req pre, [])).

  Theorem at_most_once : length (delivered s) <= 1.
  Proof. apply Inv_at_most_once, inv_reachable. Qed.

  Theorem no_lost : quiescent s = true -> nkids s <> 0 \/ var s = VRange ->
    length (delivered s) = 1 /\ destroyed s = true.
  Proof. apply Inv_no_lost, inv_reachable. Qed.

  Theorem not_before : delivered s <> [] ->
    Forall (fun p => actv p = false) (kids s) /\ cbA (cb s) = 0.
  Proof. apply Inv_not_before, inv_reachable. Qed.

  Theorem rc_nonneg : (0 <= rc s)%Z.
  Proof. apply Inv_rc_nonneg, inv_reachable. Qed.

  (* C04: at every completion of the receiver the stop callback was no longer registered *)
  Theorem never_completed_registered : badreg s = 0 /\ (delivered s <> [] -> registered (cbk s) = false).
  Proof.
    pose proof (inv_reachable v outs req pre sched) as HI. fold s in HI.
    split; [exact (i_badreg _ HI)|]. intros H. apply (i_l _ HI). right; right; exact H.
  Qed.

  (* C04: no access to the operation state after the receiver was completed *)
  Theorem no_late_touch : late s = 0.
  Proof. apply i_late, inv_reachable. Qed.

  (* C04: once the callback is past its request_stop (in particular once it has returned by CRet) the own
     stop source is stopped; if it bailed out (CBail) every child had already dropped its count *)
  Theorem stop_forwarded :
    (cb_fwd (cb s) = true -> own s = true) /\ (cb s = CBail -> nA s = 0).
  Proof.
    pose proof (inv_reachable v outs req pre sched) as HI. fold s in HI.
    split; [exact (i_own _ HI)|exact (i_bail _ HI)].
  Qed.

  (* a child that start() has not started yet holds its count: nothing is delivered before every child is started *)
  Theorem not_before_started : delivered s <> [] -> forall i p, nth_error (kids s) i = Some p -> started s i = true.
  Proof.
    pose proof (inv_reachable v outs req pre sched) as HI. fold s in HI.
    intros Hd i p Hn. destruct (started s i) eqn:Hs; [reflexivity|]. exfalso. apply Hd.
    apply (Inv_live_nodeliv _ HI).
    pose proof (count_pos_nth actv _ _ _ Hn (i_unst _ HI _ _ Hn Hs)). unfold nA. lia.
  Qed.
End Main.
