(* Sequential model Tramp: trampoline_scheduler
   (include/unifex/trampoline_scheduler.hpp:44-78 operation_base::start, trampoline_state;
   source/trampoline_scheduler.cpp:24-31 drain).
   A program is a tree of operations: when an operation is executed (its receiver is completed
   with set_value, or set_done if its stop token was already requested) the receiver starts the
   operation's children, in order, on the same scheduler.  The model is a deterministic machine
   whose control stack is explicit:
     frames   = for every execute() currently on the call stack (innermost first) the children it
                has not started yet;
     depth    = trampoline_state::recursionDepth_ (NOT decremented when execute() returns: it
                counts inline executions since the last reset, see start(), lines 53-55);
     deferred = trampoline_state::head_, a LIFO list (start() pushes at the head, line 58-59;
                drain() pops the head, lines 25-27).
   Executable definitions only. *)
From Coq Require Import List Bool Arith.
Import ListNotations.

Module Tramp.

Inductive tree := Node (label : nat) (stopped : bool) (kids : list tree).

Definition label (t : tree) : nat := match t with Node l _ _ => l end.
Definition is_stopped (t : tree) : bool := match t with Node _ b _ => b end.
Definition kids (t : tree) : list tree := match t with Node _ _ k => k end.

(* one completion: which operation, set_done?, how many execute() frames are on the stack
   (this one included), value of recursionDepth_ when it ran *)
Record entry := { e_label : nat; e_done : bool; e_nest : nat; e_depth : nat }.

Record st := {
  maxd : nat;                   (* maxRecursionDepth_ of the scheduler *)
  frames : list (list tree);
  depth : nat;
  deferred : list tree;
  log : list entry              (* oldest first *)
}.

(* the outermost start(): current_ == nullptr, so a trampoline_state is created
   (recursionDepth_ = 1) and the operation is executed at once (lines 48-51) *)
Definition init (d : nat) (root : tree) : st :=
  {| maxd := d; frames := [kids root]; depth := 1; deferred := [];
     log := [ {| e_label := label root; e_done := is_stopped root; e_nest := 1; e_depth := 1 |} ] |}.

Definition step (s : st) : option st :=
  match frames s with
  | (c :: rest) :: fs =>
      (* the innermost running receiver starts its next child: start() with current_ != nullptr *)
      if Nat.ltb (depth s) (maxd s) then
        (* lines 52-55: ++recursionDepth_; execute() *)
        Some {| maxd := maxd s; frames := kids c :: rest :: fs; depth := S (depth s);
                deferred := deferred s;
                log := log s ++ [ {| e_label := label c; e_done := is_stopped c;
                                     e_nest := S (S (length fs)); e_depth := S (depth s) |} ] |}
      else
        (* lines 56-60: push on head_ *)
        Some {| maxd := maxd s; frames := rest :: fs; depth := depth s;
                deferred := c :: deferred s; log := log s |}
  | [] :: fs =>
      (* the innermost execute() returns *)
      Some {| maxd := maxd s; frames := fs; depth := depth s; deferred := deferred s; log := log s |}
  | [] =>
      (* state.drain() *)
      match deferred s with
      | op :: ds =>
          Some {| maxd := maxd s; frames := [kids op]; depth := 1; deferred := ds;
                  log := log s ++ [ {| e_label := label op; e_done := is_stopped op;
                                       e_nest := 1; e_depth := 1 |} ] |}
      | [] => None      (* drain returns, ~trampoline_state, the outermost start() returns *)
      end
  end.

Fixpoint run (fuel : nat) (s : st) : st :=
  match fuel with
  | O => s
  | S f => match step s with Some s' => run f s' | None => s end
  end.

Fixpoint size (t : tree) : nat :=
  match t with Node _ _ k => S ((fix sizes (l : list tree) : nat :=
                                    match l with [] => 0 | x :: r => size x + sizes r end) k) end.

(* enough fuel for any program (proved in TrampolineProofs.v) *)
Definition fuel_for (root : tree) : nat := 3 * size root.

Definition eval (d : nat) (root : tree) : st := run (fuel_for root) (init d root).

Definition finished (s : st) : bool :=
  match frames s, deferred s with [], [] => true | _, _ => false end.

Definition max_nest (s : st) : nat := fold_right (fun e m => Nat.max (e_nest e) m) 0 (log s).

End Tramp.
