(* Proofs about the E1 model StopSource (Proto/StopSourceDefs.v).  Everything is proved for
   arbitrary thread programs, arbitrary callback bodies and arbitrary schedules.
   Layers of invariants, each preserved by every step given the previous layers:
     A  the lock word (one holder, holder on top of its stack, saved stop bit is current)
     B  the list, registration/execution ghost state, one body frame per running callback
     C  the stop bit, the notifier, the request_stop frames, counts of request_stop events
     D  execution events, the notifier's post-callback frame
     E  destruction
     F  stack shapes for deadlock freedom *)
From Coq Require Import List Bool Arith Lia.
From V Require Import Base.Sched Proto.StopSourceDefs.
Import ListNotations.
Import StopSource.

(* ------------------------------------------------------------------------------------------ *)
(* basics                                                                                     *)

Lemma upd_eq {A} (f : nat -> A) i x : upd f i x i = x.
Proof. unfold upd. now rewrite Nat.eqb_refl. Qed.

Lemma upd_neq {A} (f : nat -> A) i j x : j <> i -> upd f i x j = f j.
Proof. unfold upd. intros H. apply Nat.eqb_neq in H. now rewrite H. Qed.

(* case analysis of one step: every match / if of [step] is destructed *)
Ltac step_inv H :=
  unfold step in H; cbv zeta in H;
  repeat match type of H with
         | context [match ?x with _ => _ end] => destruct x eqn:?
         end;
  try discriminate H; inversion H; subst; clear H.

Ltac eqb_cases :=
  repeat match goal with
         | |- context [Nat.eqb ?a ?b] => destruct (Nat.eqb_spec a b); subst
         | H : context [Nat.eqb ?a ?b] |- _ => destruct (Nat.eqb_spec a b); subst
         end.

(* ------------------------------------------------------------------------------------------ *)
(* Layer A: the lock                                                                          *)

Definition holdsb (f : frame) : bool :=
  match f with FReqLoop | FRegCS _ | FDeregCS _ _ => true | _ => false end.

Definition holder (s : st) (t : nat) : bool :=
  match thr s t with f :: _ => holdsb f | [] => false end.

Definition allnh (l : list frame) : bool := forallb (fun f => negb (holdsb f)) l.
Definition tailfree (l : list frame) : bool :=
  match l with [] => true | _ :: r => allnh r end.

Record InvA (s : st) : Prop := {
  A_tail : forall t, tailfree (thr s t) = true;
  A_locked : forall t, holder s t = true -> locked s = true;
  A_uniq : forall t1 t2, holder s t1 = true -> holder s t2 = true -> t1 = t2;
  A_some : locked s = true -> exists t, holder s t = true;
  A_reg : forall t c r, thr s t = FRegCS c :: r -> stop s = false;
  A_old : forall t c old r, thr s t = FDeregCS c old :: r -> old = stop s
}.

Lemma allnh_tailfree l : allnh l = true -> tailfree l = true.
Proof. destruct l; cbn; auto. intros H. apply andb_true_iff in H. tauto. Qed.

Lemma allnh_head l : allnh l = true -> match l with [] => false | f :: _ => holdsb f end = false.
Proof. destruct l as [|f r]; cbn; auto. destruct (holdsb f); cbn; intros; congruence. Qed.

Lemma holder_upd_other s s' t stk t0 :
  thr s' = upd (thr s) t stk -> t0 <> t -> holder s' t0 = holder s t0.
Proof. intros E Hne. unfold holder. rewrite E, upd_neq; auto. Qed.

Lemma holder_upd_same s s' t stk :
  thr s' = upd (thr s) t stk -> holder s' t = match stk with f :: _ => holdsb f | [] => false end.
Proof. intros E. unfold holder. rewrite E, upd_eq; auto. Qed.

(* a step that neither takes nor releases the lock *)
Lemma A_neutral s s' t f rest stk :
  InvA s -> thr s t = f :: rest -> thr s' = upd (thr s) t stk -> holdsb f = false -> allnh stk = true ->
  locked s' = locked s -> stop s' = stop s -> InvA s'.
Proof.
  intros [HT HL HU HS HR HO] Et E Hf Hstk El Es.
  assert (Hh : holder s t = false) by (unfold holder; now rewrite Et).
  assert (Hh' : holder s' t = false) by (rewrite (holder_upd_same _ _ _ _ E); now apply allnh_head).
  assert (Hoth : forall t0, holder s' t0 = true -> holder s t0 = true /\ t0 <> t).
  { intros t0 H0. destruct (Nat.eq_dec t0 t) as [->|Hne]; [congruence|].
    rewrite (holder_upd_other _ _ _ _ _ E Hne) in H0. auto. }
  constructor.
  - intros t0. rewrite E. unfold upd. destruct (Nat.eqb_spec t0 t); [now apply allnh_tailfree|apply HT].
  - intros t0 H0. rewrite El. apply Hoth in H0. apply (HL t0); tauto.
  - intros t1 t2 H1 H2. apply Hoth in H1, H2. apply HU; tauto.
  - rewrite El. intros Hl. destruct (HS Hl) as [t0 H0]. exists t0.
    destruct (Nat.eq_dec t0 t) as [->|Hne]; [congruence|].
    now rewrite (holder_upd_other _ _ _ _ _ E Hne).
  - intros t0 c r. rewrite E, Es. unfold upd. destruct (Nat.eqb_spec t0 t); [|apply HR].
    intros ->. cbn in Hstk. discriminate.
  - intros t0 c old r. rewrite E, Es. unfold upd. destruct (Nat.eqb_spec t0 t); [|apply HO].
    intros ->. cbn in Hstk. discriminate.
Qed.

(* a step that acquires the lock *)
Lemma A_acq s s' t f rest h tl :
  InvA s -> thr s t = f :: rest -> thr s' = upd (thr s) t (h :: tl) -> locked s = false -> locked s' = true ->
  holdsb h = true -> allnh tl = true ->
  (forall c, h = FRegCS c -> stop s' = false) ->
  (forall c old, h = FDeregCS c old -> old = stop s') -> InvA s'.
Proof.
  intros [HT HL HU HS HR HO] Et E Hl Hl' Hh Htl Hreg Hold.
  assert (Hno : forall t0, holder s t0 = false).
  { intros t0. destruct (holder s t0) eqn:H0; auto. apply HL in H0. congruence. }
  assert (Hoth : forall t0, holder s' t0 = true -> t0 = t).
  { intros t0 H0. destruct (Nat.eq_dec t0 t) as [->|Hne]; auto.
    rewrite (holder_upd_other _ _ _ _ _ E Hne), Hno in H0. discriminate. }
  constructor.
  - intros t0. rewrite E. unfold upd. destruct (Nat.eqb_spec t0 t); [exact Htl|apply HT].
  - auto.
  - intros t1 t2 H1 H2. apply Hoth in H1, H2. congruence.
  - intros _. exists t. rewrite (holder_upd_same _ _ _ _ E). exact Hh.
  - intros t0 c r. rewrite E. unfold upd. destruct (Nat.eqb_spec t0 t).
    + intros [= -> ->]. eapply Hreg; eauto.
    + intros Er. specialize (Hno t0). unfold holder in Hno. rewrite Er in Hno. discriminate.
  - intros t0 c old r. rewrite E. unfold upd. destruct (Nat.eqb_spec t0 t).
    + intros [= -> ->]. eapply Hold; eauto.
    + intros Er. specialize (Hno t0). unfold holder in Hno. rewrite Er in Hno. discriminate.
Qed.

(* a step that releases the lock *)
Lemma A_rel s s' t f rest stk :
  InvA s -> thr s t = f :: rest -> thr s' = upd (thr s) t stk -> holdsb f = true -> locked s' = false ->
  allnh stk = true -> InvA s'.
Proof.
  intros [HT HL HU HS HR HO] Et E Hf Hl' Hstk.
  assert (Hh : holder s t = true) by (unfold holder; now rewrite Et).
  assert (Hno : forall t0, holder s' t0 = false).
  { intros t0. destruct (Nat.eq_dec t0 t) as [->|Hne].
    - rewrite (holder_upd_same _ _ _ _ E). now apply allnh_head.
    - rewrite (holder_upd_other _ _ _ _ _ E Hne). destruct (holder s t0) eqn:H0; auto.
      exfalso. apply Hne. apply HU; auto. }
  constructor.
  - intros t0. rewrite E. unfold upd. destruct (Nat.eqb_spec t0 t); [now apply allnh_tailfree|apply HT].
  - intros t0 H0. rewrite Hno in H0. discriminate.
  - intros t1 t2 H1. rewrite Hno in H1. discriminate.
  - congruence.
  - intros t0 c r Er. specialize (Hno t0). unfold holder in Hno. rewrite Er in Hno. discriminate.
  - intros t0 c old r Er. specialize (Hno t0). unfold holder in Hno. rewrite Er in Hno. discriminate.
Qed.

Ltac solve_allnh := unfold allnh in *; cbn in *; first [assumption | reflexivity].

Lemma InvA_step s t s' ev : InvA s -> step t s = Some (s', ev) -> InvA s'.
Proof.
  intros HA H.
  pose proof (A_tail _ HA t) as HTt. pose proof (A_old _ HA t) as HOt.
  step_inv H.
  all: cbn in HTt.
  all: first
    [ solve [eapply A_neutral; [exact HA|eassumption|reflexivity|reflexivity|solve_allnh|reflexivity|reflexivity]]
    | solve [eapply A_acq; [exact HA|eassumption|reflexivity|assumption|reflexivity|reflexivity|solve_allnh|cbn; intros; congruence|cbn; intros; congruence]]
    | solve [eapply A_rel; [exact HA|eassumption|reflexivity|reflexivity|reflexivity|solve_allnh]]
    | idtac ].
Qed.

Lemma InvA_init progs bods : InvA (init progs bods).
Proof.
  assert (Hh : forall t, holder (init progs bods) t = false).
  { intros t. unfold holder, init; cbn. destruct (nth_error progs t); reflexivity. }
  constructor; cbn.
  - intros t. destruct (nth_error progs t); reflexivity.
  - intros t H. now rewrite Hh in H.
  - intros t1 t2 H. now rewrite Hh in H.
  - discriminate.
  - intros t c r. destruct (nth_error progs t); discriminate.
  - intros t c old r. destruct (nth_error progs t); discriminate.
Qed.

Lemma stop_step s t s' ev : InvA s -> step t s = Some (s', ev) -> stop s = true -> stop s' = true.
Proof.
  intros HA H Hs.
  pose proof (A_reg _ HA t) as HRt. pose proof (A_old _ HA t) as HOt.
  step_inv H; cbn; auto.
  all: try (rewrite (HRt _ _ eq_refl) in Hs; discriminate).
  all: try (rewrite (HOt _ _ _ eq_refl); exact Hs).
Qed.

(* ------------------------------------------------------------------------------------------ *)
(* Layer B: list, registration / execution ghost state, body frames                           *)

Fixpoint nfr (c : nat) (l : list frame) : nat :=
  match l with
  | [] => 0
  | FRun (Some c') _ :: r => (if Nat.eqb c' c then 1 else 0) + nfr c r
  | _ :: r => nfr c r
  end.

Definition isrun (x : xstate) (t : nat) : bool :=
  match x with XRun t' => Nat.eqb t' t | _ => false end.
Definition is_xnone (x : xstate) : bool := match x with XNone => true | _ => false end.
Definition xnone_cst (cs : cstate) : bool :=
  match cs with CNew | CReg | CLinked | CUnlinked => true | _ => false end.

Record InvB (s : st) : Prop := {
  B_nodup : NoDup (lst s);
  B_in : forall c, In c (lst s) <-> cst (cbs s c) = CLinked;
  B_reg : forall t c, In (FRegCS c) (thr s t) -> cst (cbs s c) = CReg;
  B_x : forall c, is_xnone (xst (cbs s c)) = xnone_cst (cst (cbs s c));
  B_fr : forall c t, nfr c (thr s t) = if isrun (xst (cbs s c)) t then 1 else 0
}.

Lemma NoDup_remove_nat c l : NoDup l -> NoDup (remove Nat.eq_dec c l).
Proof.
  induction 1 as [|x l Hx Hn IH]; cbn; [constructor|].
  destruct (Nat.eq_dec c x); auto. constructor; auto.
  intros Hin. apply in_remove in Hin. tauto.
Qed.

Lemma InvB_list s t s' ev : InvA s -> InvB s -> step t s = Some (s', ev) ->
  NoDup (lst s') /\ (forall c, In c (lst s') <-> cst (cbs s' c) = CLinked).
Proof.
  intros HA HB H.
  pose proof (B_nodup _ HB) as HN. pose proof (B_in _ HB) as HI.
  step_inv H; cbn.
  all: try (split; [assumption|]; intros c'; unfold upd; eqb_cases; cbn;
            rewrite ?HI; intuition congruence).
  - rewrite Heql0. split; auto.
  - inversion HN as [|x l' Hx Hl']; subst. split; auto.
    intros c'. unfold upd. destruct (Nat.eqb_spec c' n); subst; cbn.
    + split; [tauto|discriminate].
    + rewrite <- HI. cbn. intuition congruence.
  - assert (Hc : cst (cbs s c) = CReg) by (apply (B_reg _ HB t); rewrite Heql; now left).
    split.
    + constructor; auto. rewrite HI, Hc. discriminate.
    + intros c'. unfold upd. destruct (Nat.eqb_spec c' c); subst; cbn.
      * tauto.
      * rewrite HI. intuition congruence.
  - split; [now apply NoDup_remove_nat|].
    intros c'. unfold upd. destruct (Nat.eqb_spec c' c); subst; cbn.
    + split; [|discriminate]. intros Hin. apply in_remove in Hin. tauto.
    + rewrite <- HI. split.
      * intros Hin. apply in_remove in Hin. tauto.
      * intros Hin. apply in_in_remove; auto.
Qed.


Lemma allnh_notin l f : allnh l = true -> In f l -> holdsb f = false.
Proof.
  unfold allnh. rewrite forallb_forall. intros H Hin. apply H in Hin.
  now destruct (holdsb f).
Qed.

Lemma holding_in_holder s t f : InvA s -> In f (thr s t) -> holdsb f = true -> holder s t = true.
Proof.
  intros HA Hin Hf. pose proof (A_tail _ HA t) as HT. unfold holder.
  destruct (thr s t) as [|g r]; [destruct Hin|]. cbn in HT.
  destruct Hin as [->|Hin]; auto. rewrite (allnh_notin _ _ HT Hin) in Hf. discriminate.
Qed.

Lemma InvB_reg s t s' ev : InvA s -> InvB s -> step t s = Some (s', ev) ->
  forall t0 c0, In (FRegCS c0) (thr s' t0) -> cst (cbs s' c0) = CReg.
Proof.
  intros HA HB H t0 c0.
  assert (Hold : forall t1, In (FRegCS c0) (thr s t1) -> cst (cbs s c0) = CReg)
    by (intros; eapply B_reg; eauto).
  pose proof (Hold t) as Holdt.
  pose proof (A_tail _ HA t) as HTt.
  step_inv H; cbn; unfold upd; eqb_cases; cbn; intros Hin.
  all: repeat match goal with Hx : _ \/ _ |- _ => destruct Hx as [Hx|Hx]; try discriminate Hx end.
  all: try (now apply (Hold t0)).
  all: try (apply Holdt; cbn; tauto).
  all: try reflexivity.
  all: try (match goal with
            | Hi : In (FRegCS ?x) _, Hd : forall t1, In _ (thr ?ss t1) -> _ |- _ =>
                assert (Hc : cst (cbs ss x) = CReg)
                  by (first [apply Holdt; cbn; tauto | eapply Hd; eassumption])
            end; congruence).
  - injection Hin as ->. congruence.
  - assert (cst (cbs s n) = CLinked) by (apply (B_in _ HB); rewrite Heql0; now left).
    assert (cst (cbs s n) = CReg) by (apply Holdt; now right). congruence.
  - assert (cst (cbs s n) = CLinked) by (apply (B_in _ HB); rewrite Heql0; now left).
    assert (cst (cbs s n) = CReg) by (eapply Hold; eauto). congruence.
  - cbn in HTt. pose proof (allnh_notin _ _ HTt Hin). discriminate.
  - exfalso. assert (H1 : holder s t0 = true) by (eapply holding_in_holder; eauto).
    assert (H2 : holder s t = true) by (unfold holder; now rewrite Heql).
    pose proof (A_uniq _ HA _ _ H1 H2). congruence.
Qed.

Lemma InvB_x s t s' ev : InvA s -> InvB s -> step t s = Some (s', ev) ->
  forall c0, is_xnone (xst (cbs s' c0)) = xnone_cst (cst (cbs s' c0)).
Proof.
  intros HA HB H c0.
  pose proof (B_x _ HB c0) as HX.
  pose proof (B_fr _ HB c0 t) as HF.
  pose proof (B_reg _ HB t c0) as HR.
  step_inv H; cbn; unfold upd; eqb_cases; cbn; auto.
  all: try congruence.
  all: try (rewrite HX; match goal with E : cst _ = _ |- _ => rewrite E end; reflexivity).
  - cbn in HF. rewrite Nat.eqb_refl in HF. rewrite <- HX.
    destruct (xst (cbs s n)); cbn in *; auto; lia.
  - rewrite HX, HR; [reflexivity|now left].
Qed.

Lemma InvB_fr s t s' ev : InvA s -> InvB s -> step t s = Some (s', ev) ->
  forall c0 t0, nfr c0 (thr s' t0) = if isrun (xst (cbs s' c0)) t0 then 1 else 0.
Proof.
  intros HA HB H c0 t0.
  pose proof (B_fr _ HB c0 t0) as HF0.
  pose proof (B_fr _ HB c0 t) as HFt.
  pose proof (B_x _ HB c0) as HX.
  step_inv H; cbn; unfold upd; eqb_cases; cbn in *; auto.
  all: try lia.
  all: rewrite ?Nat.eqb_refl in *.
  all: try match goal with E : cst _ = _ |- _ => rewrite E in HX end.
  all: try (destruct (xst (cbs s _)) eqn:EX; cbn in *; eqb_cases; try lia; try congruence; fail).
  all: assert (Hc : cst (cbs s n) = CLinked) by (apply (B_in _ HB); rewrite Heql0; now left).
  all: rewrite Hc in HX.
  all: destruct (xst (cbs s n)) eqn:EX; cbn in *; eqb_cases; try lia; try congruence.
Qed.

Lemma InvB_step s t s' ev : InvA s -> InvB s -> step t s = Some (s', ev) -> InvB s'.
Proof.
  intros HA HB H. destruct (InvB_list _ _ _ _ HA HB H).
  constructor; auto.
  - eapply InvB_reg; eauto.
  - eapply InvB_x; eauto.
  - eapply InvB_fr; eauto.
Qed.

Lemma InvB_init progs bods : InvB (init progs bods).
Proof.
  constructor; cbn.
  - constructor.
  - intros c. split; [tauto|discriminate].
  - intros t c. destruct (nth_error progs t); cbn; [|tauto]. intros [H|[]]. discriminate.
  - reflexivity.
  - intros c t. destruct (nth_error progs t); reflexivity.
Qed.


(* ------------------------------------------------------------------------------------------ *)
(* Layer C: stop bit, notifier, request_stop frames                                           *)

Fixpoint nreqf (l : list frame) : nat :=
  match l with
  | [] => 0
  | (FReqLoop | FReqPost _ | FReqLock) :: r => 1 + nreqf r
  | _ :: r => nreqf r
  end.

Record InvC (s : st) : Prop := {
  C_stop : stop s = false <-> notifier s = None;
  C_req : forall t, notifier s <> Some t -> nreqf (thr s t) = 0;
  C_pop : stop s = false -> forall c, cst (cbs s c) <> CPopped /\ cst (cbs s c) <> CInl
}.

Ltac rw_word := repeat match goal with
  | E : stop _ = _ |- _ => rewrite E
  | E : locked _ = _ |- _ => rewrite E
  end.

Lemma InvC_step s t s' ev : InvA s -> InvB s -> InvC s -> step t s = Some (s', ev) -> InvC s'.
Proof.
  intros HA HB [HS HR HP] H.
  pose proof (A_reg _ HA t) as HRt. pose proof (A_old _ HA t) as HOt.
  pose proof (HR t) as HRqt.
  assert (HN : notifier s = None -> forall t0, nreqf (thr s t0) = 0)
    by (intros E t0; apply HR; rewrite E; discriminate).
  pose proof (HN) as HNt. specialize (fun E => HNt E t).
  step_inv H; (constructor; cbn; [ | intros t0 | intros Hst c0 ]).
  all: rw_word.
  all: try assumption.
  all: try (rewrite (HOt _ _ _ eq_refl); assumption).
  all: try (split; intros; discriminate).
  (* C_req *)
  all: try (unfold upd; eqb_cases; cbn in *; intros Hn; first [ apply HR; assumption | specialize (HRqt Hn); lia | congruence ]).
  (* C_pop *)
  all: try discriminate.
  all: try congruence.
  all: try (rewrite (HOt _ _ _ eq_refl) in Hst).
  all: try (pose proof (HP Hst) as HPs; pose proof (HPs c0) as HP0; unfold upd; eqb_cases; cbn; auto;
            split; try discriminate;
            match goal with E : cst (cbs _ ?x) = _ |- _ => destruct (HPs x); congruence end).
  - intros Hn. unfold upd. eqb_cases; [congruence|]. apply HN. now apply HS.
  - split; [discriminate|]. intros E. rewrite E in HRqt. cbn in HRqt.
    assert (None <> Some t) by discriminate. specialize (HRqt H). discriminate.
  - split; [discriminate|]. intros E. rewrite E in HRqt. cbn in HRqt.
    assert (None <> Some t) by discriminate. specialize (HRqt H). discriminate.
  - rewrite <- HS. split; auto. intros _. eapply HRt; eauto.
  - assert (Hs0 : stop s = false) by (eapply HRt; eauto).
    pose proof (HP Hs0) as HPs. unfold upd. eqb_cases; cbn; auto. split; discriminate.
Qed.

Lemma InvC_init progs bods : InvC (init progs bods).
Proof.
  constructor; cbn.
  - tauto.
  - intros t _. destruct (nth_error progs t); reflexivity.
  - intros _ c. split; discriminate.
Qed.

(* trace counts *)
Definition cnt (p : ev -> bool) (tr : list ev) : nat := length (filter p tr).

Lemma cnt_app p a b : cnt p (a ++ b) = cnt p a + cnt p b.
Proof. unfold cnt. now rewrite filter_app, app_length. Qed.

Lemma cnt_zero_notin p tr e : cnt p tr = 0 -> p e = true -> ~ In e tr.
Proof.
  unfold cnt. intros H Hp Hin.
  assert (Hf : In e (filter p tr)) by (apply filter_In; auto).
  destruct (filter p tr); [destruct Hf|discriminate].
Qed.

Definition is_rsfalse (e : ev) : bool := match snd e with ERsRet false => true | _ => false end.
Definition is_acq03 (e : ev) : bool := match snd e with EAcq true 0 3 => true | _ => false end.

Record InvCT (s : st) (tr : list ev) : Prop := {
  CT_none : notifier s = None -> cnt is_rsfalse tr = 0 /\ cnt is_acq03 tr = 0;
  CT_some : forall w, notifier s = Some w ->
            cnt is_rsfalse tr + nreqf (thr s w) = 1 /\ cnt is_acq03 tr = 1;
  CT_who : forall t, In (t, ERsRet false) tr \/ In (t, EAcq true 0 3) tr -> notifier s = Some t;
  CT_rs : forall t b, In (t, ERsRet b) tr -> stop s = true
}.

Lemma CT_rs_step s tr t s' ev : InvA s ->
  (forall t b, In (t, ERsRet b) tr -> stop s = true) ->
  step t s = Some (s', ev) -> forall t0 b0, In (t0, ERsRet b0) (tr ++ ev) -> stop s' = true.
Proof.
  intros HA HRS H t0 b0 Hin. apply in_app_iff in Hin. destruct Hin as [Hin|Hin].
  - eapply stop_step; eauto.
  - step_inv H; cbn in *; intuition (try discriminate; try congruence).
Qed.

Lemma InvCT_step s tr t s' ev : InvA s -> InvB s -> InvC s -> InvCT s tr ->
  step t s = Some (s', ev) -> InvCT s' (tr ++ ev).
Proof.
  intros HA HB HC [HN HS HW HRS] H.
  pose proof (C_req _ HC t) as HRqt.
  pose proof (C_stop _ HC) as HSt.
  assert (HRS' := CT_rs_step _ _ _ _ _ HA HRS H).
  step_inv H; (constructor; cbn; [ intros En | intros w Ew | intros t0 Hin | exact HRS' ]).
  all: clear HRS'.
  all: rewrite ?cnt_app; cbn; rewrite ?Nat.add_0_r.
  all: try (rewrite !in_app_iff in Hin; cbn in Hin).
  all: try (apply HN; assumption).
  all: try (pose proof (HS _ Ew) as [H1 H2]; split; [|lia]; unfold upd; eqb_cases;
            match goal with E: thr _ _ = _ |- _ => rewrite ?E in H1 end; cbn in *; lia).
  all: try (apply HW; intuition (try discriminate; try congruence); fail).
  - discriminate.
  - injection Ew as <-. assert (En : notifier s = None) by now apply HSt.
    destruct (HN En) as [H1 H2]. rewrite H1, H2, upd_eq. cbn.
    assert (Hz : nreqf (FRun oc (IReqStop :: p) :: l) = 0) by (apply HRqt; rewrite En; discriminate).
    cbn in Hz. lia.
  - assert (En : notifier s = None) by now apply HSt.
    destruct (HN En) as [H1 H2].
    destruct Hin as [[Hin|[Hin|[]]]|[Hin|[Hin|[]]]]; try discriminate.
    + exfalso. eapply cnt_zero_notin; [exact H1| |exact Hin]. reflexivity.
    + exfalso. eapply cnt_zero_notin; [exact H2| |exact Hin]. reflexivity.
    + congruence.
  - exfalso. rewrite En in HRqt. cbn in HRqt. assert (None <> Some t) by discriminate.
    specialize (HRqt H). discriminate.
  - assert (w = t).
    { destruct (Nat.eq_dec w t); auto. exfalso.
      assert (Hn : notifier s <> Some t) by congruence. specialize (HRqt Hn). discriminate. }
    subst w. destruct (HS _ Ew) as [H1 H2]. rewrite Heql in H1. cbn in H1.
    rewrite upd_eq. lia.
  - destruct Hin as [[Hin|[Hin|[Hin|[]]]]|[Hin|[Hin|[Hin|[]]]]]; try discriminate;
      try (apply HW; tauto).
    injection Hin as <-.
    destruct (notifier s) as [w|] eqn:En.
    + destruct (Nat.eq_dec w t); [congruence|]. exfalso.
      assert (Hn : Some w <> Some t) by congruence. specialize (HRqt Hn). discriminate.
    + exfalso. assert (Hn : @None nat <> Some t) by discriminate. specialize (HRqt Hn). discriminate.
Qed.

Lemma InvCT_init progs bods : InvCT (init progs bods) [].
Proof.
  constructor; cbn; auto.
  - discriminate.
  - intros t [[]|[]].
Qed.

(* ------------------------------------------------------------------------------------------ *)
(* Layer D: who executes, the notifier's post-callback frame, callbackCompleted_              *)

Fixpoint npost (c : nat) (l : list frame) : nat :=
  match l with
  | [] => 0
  | FReqPost c' :: r => (if Nat.eqb c' c then 1 else 0) + npost c r
  | _ :: r => npost c r
  end.

(* below a post-callback frame of c there is no body frame and no other post frame of c *)
Fixpoint okst (l : list frame) : Prop :=
  match l with
  | [] => True
  | FReqPost c :: r => nfr c r = 0 /\ npost c r = 0 /\ okst r
  | _ :: r => okst r
  end.

Record InvD (s : st) : Prop := {
  D_not : forall c t', cst (cbs s c) = CPopped -> xst (cbs s c) = XRun t' -> notifier s = Some t';
  D_post : forall t c, In (FReqPost c) (thr s t) ->
           cst (cbs s c) = CPopped /\ completed (cbs s c) = false /\ rdc (cbs s c) = true;
  D_ok : forall t, okst (thr s t);
  D_comp : forall c, completed (cbs s c) = true -> xst (cbs s c) = XEnded /\ cst (cbs s c) = CPopped
}.

Lemma nreqf_in_post l c : In (FReqPost c) l -> nreqf l <> 0.
Proof.
  induction l as [|f r IH]; cbn; [tauto|]. intros [->|Hin]; [discriminate|].
  destruct f; auto.
Qed.

Lemma npost_zero_notin c l : npost c l = 0 -> ~ In (FReqPost c) l.
Proof.
  induction l as [|f r IH]; cbn; [tauto|]. intros Hz [->|Hin].
  - rewrite Nat.eqb_refl in Hz. discriminate.
  - destruct f; try (now apply IH). apply IH; auto.
    match type of Hz with context [Nat.eqb ?a ?b] => destruct (Nat.eqb a b) end; cbn in Hz; lia.
Qed.

Lemma notin_npost_zero c l : ~ In (FReqPost c) l -> npost c l = 0.
Proof.
  induction l as [|f r IH]; cbn; auto. intros Hn.
  assert (Hr : npost c r = 0) by tauto.
  destruct f; auto. destruct (Nat.eqb_spec c0 c); [subst; tauto|auto].
Qed.

Lemma post_notifier s t c : InvC s -> In (FReqPost c) (thr s t) -> notifier s = Some t.
Proof.
  intros HC Hin. destruct (notifier s) as [w|] eqn:En.
  - destruct (Nat.eq_dec w t); [congruence|]. exfalso.
    apply (nreqf_in_post _ _ Hin). apply (C_req _ HC). congruence.
  - exfalso. apply (nreqf_in_post _ _ Hin). apply (C_req _ HC). congruence.
Qed.

Lemma top_req_notifier s t f l : InvC s -> thr s t = f :: l -> nreqf [f] = 1 -> notifier s = Some t.
Proof.
  intros HC E Hf. destruct (notifier s) as [w|] eqn:En.
  - destruct (Nat.eq_dec w t); [congruence|]. exfalso.
    assert (Hz : nreqf (thr s t) = 0) by (apply (C_req _ HC); congruence).
    rewrite E in Hz. destruct f; cbn in *; discriminate.
  - exfalso. assert (Hz : nreqf (thr s t) = 0) by (apply (C_req _ HC); congruence).
    rewrite E in Hz. destruct f; cbn in *; discriminate.
Qed.

Lemma InvD_not s t s' ev : InvA s -> InvB s -> InvC s -> InvD s -> step t s = Some (s', ev) ->
  forall c0 t', cst (cbs s' c0) = CPopped -> xst (cbs s' c0) = XRun t' -> notifier s' = Some t'.
Proof.
  intros HA HB HC HD H c0 t'.
  pose proof (D_not _ HD c0 t') as HN.
  step_inv H; cbn; unfold upd; eqb_cases; cbn; auto.
  all: try congruence.
  - intros Hc _. exfalso. destruct (C_pop _ HC Heqb c0). congruence.
  - intros _ [= <-]. eapply top_req_notifier; eauto.
Qed.

Lemma okst_app_nopost l r : okst r -> (forall c, ~ In (FReqPost c) l) -> okst (l ++ r).
Proof.
  intros Hr. induction l as [|f l IH]; cbn; auto. intros Hn.
  assert (Hl : okst (l ++ r)) by (apply IH; intros c Hc; apply (Hn c); now right).
  destruct f; auto. exfalso. apply (Hn c). now left.
Qed.

Lemma okst_tail f l : okst (f :: l) -> okst l.
Proof. destruct f; cbn; tauto. Qed.

Lemma InvD_ok s t s' ev : InvA s -> InvB s -> InvC s -> InvD s -> step t s = Some (s', ev) ->
  forall t0, okst (thr s' t0).
Proof.
  intros HA HB HC HD H t0.
  pose proof (D_ok _ HD t0) as HO0. pose proof (D_ok _ HD t) as HOt.
  step_inv H; cbn; unfold upd; eqb_cases; cbn in *; auto.
  all: try tauto.
  assert (Hc : cst (cbs s n) = CLinked) by (apply (B_in _ HB); rewrite Heql0; now left).
  pose proof (B_x _ HB n) as HX. rewrite Hc in HX. cbn in HX.
  pose proof (B_fr _ HB n t) as HF. rewrite Heql in HF. cbn in HF.
  destruct (xst (cbs s n)); try discriminate. cbn in HF.
  split; [exact HF|]. split; [|exact HOt].
  apply notin_npost_zero. intros Hin.
  destruct (D_post _ HD t n) as [Hp _]; [rewrite Heql; now right|]. congruence.
Qed.

Lemma InvD_post s t s' ev : InvA s -> InvB s -> InvC s -> InvD s -> step t s = Some (s', ev) ->
  forall t0 c0, In (FReqPost c0) (thr s' t0) ->
  cst (cbs s' c0) = CPopped /\ completed (cbs s' c0) = false /\ rdc (cbs s' c0) = true.
Proof.
  intros HA HB HC HD H t0 c0.
  pose proof (D_post _ HD t0 c0) as HP0. pose proof (D_post _ HD t c0) as HPt.
  pose proof (D_ok _ HD t) as HOt.
  step_inv H; cbn; unfold upd; eqb_cases; cbn in *; intros Hin.
  all: repeat match goal with Hx : _ \/ _ |- _ => destruct Hx as [Hx|Hx]; try discriminate Hx end.
  all: try (now apply HP0).
  all: try (apply HPt; tauto).
  all: try (exfalso; destruct HPt as [? _]; [tauto|congruence]).
  all: try (exfalso; destruct HP0 as [? _]; [tauto|congruence]).
  all: try (destruct HPt as (?&?&?); [tauto|]; repeat split; congruence).
  all: try (destruct HP0 as (?&?&?); [assumption|]; repeat split; congruence).
  - assert (Hc : cst (cbs s n) = CLinked) by (apply (B_in _ HB); rewrite Heql0; now left).
    repeat split. destruct (completed (cbs s n)) eqn:Ec; auto.
    destruct (D_comp _ HD n Ec). congruence.
  - congruence.
  - exfalso. destruct HOt as (_ & Hn & _). exact (npost_zero_notin _ _ Hn Hin).
  - exfalso. assert (H1 : notifier s = Some t0) by (eapply post_notifier; eauto).
    assert (H2 : notifier s = Some t) by (eapply post_notifier; eauto; rewrite Heql; now left).
    congruence.
  - exfalso. assert (Hc : cst (cbs s c) = CReg) by (apply (B_reg _ HB t); rewrite Heql; now left).
    destruct HPt as [? _]; [tauto|congruence].
  - exfalso. assert (Hc : cst (cbs s c) = CReg) by (apply (B_reg _ HB t); rewrite Heql; now left).
    destruct HP0 as [? _]; [tauto|congruence].
Qed.

Lemma InvD_comp s t s' ev : InvA s -> InvB s -> InvC s -> InvD s -> step t s = Some (s', ev) ->
  forall c0, completed (cbs s' c0) = true -> xst (cbs s' c0) = XEnded /\ cst (cbs s' c0) = CPopped.
Proof.
  intros HA HB HC HD H c0.
  pose proof (D_comp _ HD c0) as HC0.
  step_inv H; cbn; unfold upd; eqb_cases; cbn in *; auto.
  all: try (intros Hc; destruct (HC0 Hc); split; congruence).
  - intros Hc. destruct (HC0 Hc) as [_ Hp].
    assert (cst (cbs s n) = CLinked) by (apply (B_in _ HB); rewrite Heql0; now left). congruence.
  - intros _.
    destruct (D_post _ HD t c) as (Hp & _ & _); [rewrite Heql; now left|].
    split; auto.
    pose proof (B_x _ HB c) as HX. rewrite Hp in HX. cbn in HX.
    destruct (xst (cbs s c)) as [|t'|] eqn:EX; try discriminate; auto.
    exfalso.
    assert (H1 : notifier s = Some t') by (eapply D_not; eauto).
    assert (H2 : notifier s = Some t) by (eapply top_req_notifier; eauto).
    assert (t' = t) by congruence. subst t'.
    pose proof (B_fr _ HB c t) as HF. rewrite EX, Heql in HF. cbn in HF. rewrite Nat.eqb_refl in HF.
    pose proof (D_ok _ HD t) as HO. rewrite Heql in HO. cbn in HO. lia.
  - intros Hc. destruct (HC0 Hc) as [_ Hp].
    assert (cst (cbs s c) = CReg) by (apply (B_reg _ HB t); rewrite Heql; now left). congruence.
Qed.

Lemma InvD_step s t s' ev : InvA s -> InvB s -> InvC s -> InvD s -> step t s = Some (s', ev) -> InvD s'.
Proof.
  intros HA HB HC HD H. constructor.
  - eapply InvD_not; eauto.
  - eapply InvD_post; eauto.
  - eapply InvD_ok; eauto.
  - eapply InvD_comp; eauto.
Qed.

Lemma InvD_init progs bods : InvD (init progs bods).
Proof.
  constructor; cbn; try discriminate.
  - intros t c. destruct (nth_error progs t); cbn; [|tauto]. intros [H|[]]. discriminate.
  - intros t. destruct (nth_error progs t); cbn; auto.
Qed.

(* ------------------------------------------------------------------------------------------ *)
(* Layer E: destruction                                                                       *)

Fixpoint ndf (c : nat) (l : list frame) : nat :=
  match l with
  | [] => 0
  | (FDeregLock c' | FDeregCS c' _ | FDeregWait c') :: r => (if Nat.eqb c' c then 1 else 0) + ndf c r
  | _ :: r => ndf c r
  end.

Definition isstarted (d : dstate) (t : nat) : bool :=
  match d with DStarted t' => Nat.eqb t' t | _ => false end.

Record InvE (s : st) : Prop := {
  E_fr : forall c t, ndf c (thr s t) = if isstarted (dst (cbs s c)) t then 1 else 0;
  E_started : forall c t, dst (cbs s c) = DStarted t ->
              cst (cbs s c) = CLinked \/ cst (cbs s c) = CPopped;
  E_done : forall c t, dst (cbs s c) = DDone t ->
           (cst (cbs s c) = CPopped \/ cst (cbs s c) = CInl \/ cst (cbs s c) = CUnlinked) /\
           (forall t', xst (cbs s c) = XRun t' -> t' = t);
  E_post : forall t c, In (FReqPost c) (thr s t) -> removed (cbs s c) = false ->
           forall t', dst (cbs s c) <> DDone t';
  E_wait : forall t c, In (FDeregWait c) (thr s t) ->
           notifier s <> Some t /\ cst (cbs s c) = CPopped
}.

Lemma InvE_fr s t s' ev : InvA s -> InvB s -> InvE s -> step t s = Some (s', ev) ->
  forall c0 t0, ndf c0 (thr s' t0) = if isstarted (dst (cbs s' c0)) t0 then 1 else 0.
Proof.
  intros HA HB HE H c0 t0.
  pose proof (E_fr _ HE c0 t0) as HF0.
  pose proof (E_fr _ HE c0 t) as HFt.
  step_inv H; cbn; unfold upd; eqb_cases; cbn in *; auto.
  all: try lia.
  all: rewrite ?Nat.eqb_refl in *.
  all: try (destruct (dst (cbs s _)) eqn:ED; cbn in *; eqb_cases; try lia; try congruence; fail).
Qed.

Lemma InvE_started s t s' ev : InvA s -> InvB s -> InvE s -> step t s = Some (s', ev) ->
  forall c0 t0, dst (cbs s' c0) = DStarted t0 ->
  cst (cbs s' c0) = CLinked \/ cst (cbs s' c0) = CPopped.
Proof.
  intros HA HB HE H c0 t0.
  pose proof (E_started _ HE c0 t0) as HS0.
  step_inv H; cbn; unfold upd; eqb_cases; cbn in *; auto.
  all: try discriminate.
  all: try (intros Hd; destruct (HS0 Hd); congruence).
Qed.

Lemma dereg_top_started s t c f l : InvE s -> thr s t = f :: l -> ndf c [f] = 1 ->
  dst (cbs s c) = DStarted t /\ (cst (cbs s c) = CLinked \/ cst (cbs s c) = CPopped).
Proof.
  intros HE E Hf. pose proof (E_fr _ HE c t) as HF. rewrite E in HF.
  assert (Hd : dst (cbs s c) = DStarted t).
  { destruct (dst (cbs s c)) as [|t'|t'] eqn:ED; cbn in HF.
    - destruct f; cbn in *; try discriminate; lia.
    - destruct (Nat.eqb_spec t' t); [congruence|]. destruct f; cbn in *; try discriminate; lia.
    - destruct f; cbn in *; try discriminate; lia. }
  split; auto. eapply E_started; eauto.
Qed.

Lemma is_notifier_true s t : is_notifier s t = true -> notifier s = Some t.
Proof.
  unfold is_notifier. destruct (notifier s) as [w|]; [|discriminate].
  intros H. apply Nat.eqb_eq in H. congruence.
Qed.

Lemma is_notifier_false s t : is_notifier s t = false -> notifier s <> Some t.
Proof.
  unfold is_notifier. destruct (notifier s) as [w|]; [|discriminate].
  intros H. apply Nat.eqb_neq in H. congruence.
Qed.

Lemma InvE_done s t s' ev : InvA s -> InvB s -> InvC s -> InvD s -> InvE s -> step t s = Some (s', ev) ->
  forall c0 t0, dst (cbs s' c0) = DDone t0 ->
  (cst (cbs s' c0) = CPopped \/ cst (cbs s' c0) = CInl \/ cst (cbs s' c0) = CUnlinked) /\
  (forall t', xst (cbs s' c0) = XRun t' -> t' = t0).
Proof.
  intros HA HB HC HD HE H c0 t0.
  pose proof (E_done _ HE c0 t0) as HD0.
  step_inv H; cbn; unfold upd; eqb_cases; cbn in *; auto.
  all: try discriminate.
  all: try (intros Hd; destruct (HD0 Hd) as [[?|[?|?]] ?]; split; auto; try congruence; fail).
  all: try (exfalso;
            match goal with E : thr _ _ = _ :: _ |- _ =>
              destruct (dereg_top_started _ _ c _ _ HE E) as [_ [?|?]];
              [cbn; now rewrite Nat.eqb_refl|congruence|congruence] end).
  - intros [= <-]. split; auto. intros t' Hx.
    match goal with E : inl_ready _ _ = true |- _ => rewrite Hx in E; cbn in E; apply Nat.eqb_eq in E end.
    congruence.
  - intros Hd. exfalso. destruct (HD0 Hd) as [Hc _].
    assert (cst (cbs s n) = CLinked) by (apply (B_in _ HB); rewrite Heql0; now left).
    intuition congruence.
  - intros Hd. exfalso. destruct (HD0 Hd) as [Hc _].
    assert (cst (cbs s c) = CReg) by (apply (B_reg _ HB t); rewrite Heql; now left).
    intuition congruence.
  - intros _. split; auto. intros t' Hx.
    pose proof (B_x _ HB c) as HX. rewrite Hx in HX.
    match goal with E : cst (cbs s c) = CLinked |- _ => rewrite E in HX end. discriminate.
  - intros [= <-]. split; auto. intros t' Hx.
    assert (H1 : notifier s = Some t') by (eapply D_not; eauto).
    match goal with E : is_notifier _ _ = true |- _ => apply is_notifier_true in E end. congruence.
  - intros [= <-]. split; auto. intros t' Hx.
    assert (H1 : notifier s = Some t') by (eapply D_not; eauto).
    match goal with E : is_notifier _ _ = true |- _ => apply is_notifier_true in E end. congruence.
  - intros [= <-].
    match goal with E : completed _ = true |- _ => destruct (D_comp _ HD c E) as [Hx Hc] end.
    split; auto.
    intros t' Hx'. congruence.
Qed.

Lemma InvE_post s t s' ev : InvA s -> InvB s -> InvC s -> InvD s -> InvE s -> step t s = Some (s', ev) ->
  forall t0 c0, In (FReqPost c0) (thr s' t0) -> removed (cbs s' c0) = false ->
  forall t', dst (cbs s' c0) <> DDone t'.
Proof.
  intros HA HB HC HD HE H t0 c0.
  pose proof (E_post _ HE t0 c0) as HP0. pose proof (E_post _ HE t c0) as HPt.
  pose proof (D_post _ HD t0 c0) as HQ0. pose proof (D_post _ HD t c0) as HQt.
  step_inv H; cbn; unfold upd; eqb_cases; cbn in *; intros Hin.
  all: repeat match goal with Hx : _ \/ _ |- _ => destruct Hx as [Hx|Hx]; try discriminate Hx end.
  all: try (now apply HP0).
  all: try (apply HPt; tauto).
  all: try (intros; discriminate).
  all: try (exfalso; destruct HQt as (?&?&?); [tauto|]; congruence).
  all: try (exfalso; destruct HQ0 as (?&?&?); [assumption|]; congruence).
  all: try (assert (Hcl : cst (cbs s n) = CLinked) by (apply (B_in _ HB); rewrite Heql0; now left);
            intros _ t' Hd; destruct (E_done _ HE _ _ Hd) as [Hc _]; intuition congruence).
  - intros _. apply HPt; auto.
  - intros _. apply HP0; auto.
Qed.

Lemma InvE_wait s t s' ev : InvA s -> InvB s -> InvC s -> InvD s -> InvE s -> step t s = Some (s', ev) ->
  forall t0 c0, In (FDeregWait c0) (thr s' t0) -> notifier s' <> Some t0 /\ cst (cbs s' c0) = CPopped.
Proof.
  intros HA HB HC HD HE H t0 c0.
  pose proof (E_wait _ HE t0 c0) as HW0. pose proof (E_wait _ HE t c0) as HWt.
  step_inv H; cbn; unfold upd; eqb_cases; cbn in *; intros Hin.
  all: repeat match goal with Hx : _ \/ _ |- _ => destruct Hx as [Hx|Hx]; try discriminate Hx end.
  all: try (now apply HW0).
  all: try (apply HWt; tauto).
  all: try (destruct HWt as [? ?]; [tauto|]; split; congruence).
  all: try (destruct HW0 as [? ?]; [assumption|]; split; congruence).
  all: try (injection Hin as <-; split; [apply is_notifier_false; assumption|];
            match goal with E : thr _ _ = FDeregCS _ _ :: _ |- _ =>
              destruct (dereg_top_started _ _ c _ _ HE E) as [_ [?|?]];
              [cbn; now rewrite Nat.eqb_refl|congruence|congruence] end).
  - exfalso. destruct HWt as [_ Hc]; [tauto|]. destruct (C_pop _ HC Heqb c0). congruence.
  - exfalso. destruct HWt as [_ Hc]; [tauto|].
    assert (cst (cbs s c) = CReg) by (apply (B_reg _ HB t); rewrite Heql; now left). congruence.
  - exfalso. destruct HW0 as [_ Hc]; [assumption|].
    assert (cst (cbs s c) = CReg) by (apply (B_reg _ HB t); rewrite Heql; now left). congruence.
Qed.

Lemma InvE_step s t s' ev : InvA s -> InvB s -> InvC s -> InvD s -> InvE s ->
  step t s = Some (s', ev) -> InvE s'.
Proof.
  intros HA HB HC HD HE H. constructor.
  - eapply InvE_fr; eauto.
  - eapply InvE_started; eauto.
  - eapply InvE_done; eauto.
  - eapply InvE_post; eauto.
  - eapply InvE_wait; eauto.
Qed.

Lemma InvE_init progs bods : InvE (init progs bods).
Proof.
  constructor; cbn; try discriminate.
  all: intros a b; try destruct (nth_error progs a); try destruct (nth_error progs b); cbn;
       try reflexivity; try tauto; intros [H|[]]; discriminate.
Qed.

(* ------------------------------------------------------------------------------------------ *)
(* Trace invariants                                                                           *)

(* a property of every event together with the history before it *)
Definition AtEvent (Q : list ev -> ev -> Prop) (tr : list ev) : Prop :=
  forall pre a post, tr = pre ++ a :: post -> Q pre a.

Lemma AtEvent_nil Q : AtEvent Q [].
Proof. intros pre a post E. destruct pre; discriminate. Qed.

Lemma AtEvent_snoc Q tr e : AtEvent Q tr -> Q tr e -> AtEvent Q (tr ++ [e]).
Proof.
  intros H He pre a post E.
  destruct (@exists_last _ (a :: post)) as (post' & x & Ep); [discriminate|].
  destruct post' as [|a' post'].
  - cbn in Ep. injection Ep as -> ->.
    apply app_inj_tail in E. destruct E as [-> ->]. exact He.
  - cbn in Ep. injection Ep as <- Ep. rewrite Ep in E.
    rewrite app_comm_cons, app_assoc in E. apply app_inj_tail in E. destruct E as [E _].
    eapply H. exact E.
Qed.

Lemma AtEvent_app1 Q tr e : AtEvent Q tr -> Q tr e -> AtEvent Q (tr ++ [e]).
Proof. apply AtEvent_snoc. Qed.

Lemma AtEvent_app2 Q tr e1 e2 :
  AtEvent Q tr -> Q tr e1 -> Q (tr ++ [e1]) e2 -> AtEvent Q (tr ++ [e1; e2]).
Proof.
  intros H H1 H2. change [e1; e2] with ([e1] ++ [e2]). rewrite app_assoc.
  apply AtEvent_snoc; auto. apply AtEvent_snoc; auto.
Qed.

Definition is_exec (c : nat) (e : ev) : bool :=
  match snd e with EExec c' => Nat.eqb c' c | _ => false end.
Definition is_exec_by (t c : nat) (e : ev) : bool := Nat.eqb (fst e) t && is_exec c e.
Definition is_end_by (t c : nat) (e : ev) : bool :=
  Nat.eqb (fst e) t && match snd e with EEnd c' => Nat.eqb c' c | _ => false end.

(* events that read or write callback c (or begin / end its destruction) *)
Definition touches (c : nat) (k : evk) : bool :=
  match k with
  | EExec c' | EDone c' | EWait c' | EDeregBegin c' | EDeregRet c' => Nat.eqb c' c
  | _ => false
  end.

(* nothing touches a callback after its destructor returned *)
Definition Q1 (pre : list ev) (a : ev) : Prop :=
  forall c, touches c (snd a) = true -> forall t, ~ In (t, EDeregRet c) pre.
(* when the destructor of c returns on thread t, c is not executing on any other thread *)
Definition Q2 (pre : list ev) (a : ev) : Prop :=
  forall c, snd a = EDeregRet c -> forall t', t' <> fst a ->
  cnt (is_exec_by t' c) pre = cnt (is_end_by t' c) pre.

Record InvT (s : st) (tr : list ev) : Prop := {
  T_exec : forall c, cnt (is_exec c) tr = if is_xnone (xst (cbs s c)) then 0 else 1;
  T_run : forall t c, cnt (is_exec_by t c) tr = cnt (is_end_by t c) tr + nfr c (thr s t);
  T_ret : forall t c, In (t, EDeregRet c) tr -> dst (cbs s c) = DDone t;
  T_q1 : AtEvent Q1 tr;
  T_q2 : AtEvent Q2 tr
}.

Lemma InvT_exec s tr t s' ev : InvA s -> InvB s -> InvT s tr -> step t s = Some (s', ev) ->
  forall c0, cnt (is_exec c0) (tr ++ ev) = if is_xnone (xst (cbs s' c0)) then 0 else 1.
Proof.
  intros HA HB HT H c0.
  pose proof (T_exec _ _ HT c0) as HE0.
  pose proof (B_x _ HB c0) as HX.
  pose proof (B_fr _ HB c0 t) as HF.
  step_inv H; rewrite cnt_app; cbn; unfold upd; eqb_cases; cbn in *; auto.
  all: try lia.
  all: rewrite ?Nat.eqb_refl in *.
  all: try match goal with E : cst _ = _ |- _ => rewrite E in HX end.
  all: try (destruct (xst (cbs s _)) eqn:EX; cbn in *; eqb_cases; try lia; try congruence; fail).
  assert (Hc : cst (cbs s c0) = CLinked) by (apply (B_in _ HB); rewrite Heql0; now left).
  rewrite Hc in HX. destruct (xst (cbs s c0)); cbn in *; try discriminate. lia.
Qed.

Lemma is_exec_by_ev t c t' k :
  is_exec_by t c (t', k) = Nat.eqb t' t && match k with EExec c' => Nat.eqb c' c | _ => false end.
Proof. reflexivity. Qed.
Lemma is_end_by_ev t c t' k :
  is_end_by t c (t', k) = Nat.eqb t' t && match k with EEnd c' => Nat.eqb c' c | _ => false end.
Proof. reflexivity. Qed.

Lemma InvT_run s tr t s' ev : InvT s tr -> step t s = Some (s', ev) ->
  forall t0 c0, cnt (is_exec_by t0 c0) (tr ++ ev) = cnt (is_end_by t0 c0) (tr ++ ev) + nfr c0 (thr s' t0).
Proof.
  intros HT H t0 c0.
  pose proof (T_run _ _ HT t0 c0) as HR0.
  pose proof (T_run _ _ HT t c0) as HRt.
  step_inv H; rewrite !cnt_app; cbn; rewrite ?is_exec_by_ev, ?is_end_by_ev; cbn;
    rewrite ?andb_false_r; cbn; unfold upd; eqb_cases; cbn in *; auto.
  all: try lia.
  all: rewrite ?Nat.eqb_refl in *; cbn in *; try lia.
  all: eqb_cases; cbn in *; try lia; try congruence.
  all: destruct oc; cbn in *; eqb_cases; lia.
Qed.

Lemma InvT_ret s tr t s' ev : InvE s -> InvT s tr -> step t s = Some (s', ev) ->
  forall t0 c0, In (t0, EDeregRet c0) (tr ++ ev) -> dst (cbs s' c0) = DDone t0.
Proof.
  intros HE HT H t0 c0 Hin.
  pose proof (T_ret _ _ HT t0 c0) as HR0.
  apply in_app_iff in Hin.
  step_inv H; cbn in *; unfold upd; eqb_cases; cbn in *.
  all: repeat match goal with Hx : _ \/ _ |- _ => destruct Hx as [Hx|Hx]; try discriminate Hx end.
  all: try tauto.
  all: try congruence.
  all: try (exfalso; specialize (HR0 Hin); congruence).
  all: exfalso; specialize (HR0 Hin);
       match goal with E : thr _ _ = _ :: _ |- _ =>
         destruct (dereg_top_started _ _ c _ _ HE E) as [? _];
         [cbn; now rewrite Nat.eqb_refl|congruence] end.
Qed.

Lemma step_ev_shape s t s' ev : step t s = Some (s', ev) ->
  (exists e, ev = [e]) \/ (exists e1 e2, ev = [e1; e2]).
Proof. intros H. step_inv H; eauto. Qed.

Lemma step_ev_tid s t s' ev : step t s = Some (s', ev) -> forall e, In e ev -> fst e = t.
Proof.
  intros H e Hin. step_inv H; cbn in Hin;
  repeat match goal with Hx : _ \/ _ |- _ => destruct Hx as [Hx|Hx] end; subst; try reflexivity; tauto.
Qed.

Lemma step_ret_last s t s' e1 e2 : step t s = Some (s', [e1; e2]) ->
  forall t' c, e1 <> (t', EDeregRet c).
Proof. intros H t' c. step_inv H; discriminate. Qed.

(* a callback touched by an event of this step has not been destroyed *)
Lemma step_touch s t s' ev : InvA s -> InvB s -> InvC s -> InvD s -> InvE s ->
  step t s = Some (s', ev) ->
  forall e c, In e ev -> touches c (snd e) = true -> forall t', dst (cbs s c) <> DDone t'.
Proof.
  intros HA HB HC HD HE H e c0 Hin Ht t' Hd.
  destruct (E_done _ HE _ _ Hd) as [Hc _].
  step_inv H; cbn in Hin;
  repeat match goal with Hx : _ \/ _ |- _ => destruct Hx as [Hx|Hx] end; subst; cbn in Ht;
  try discriminate; try tauto.
  all: apply Nat.eqb_eq in Ht; subst.
  all: try congruence.
  all: try (intuition congruence).
  all: try (assert (cst (cbs s c0) = CLinked) by (apply (B_in _ HB); rewrite Heql0; now left);
            intuition congruence).
  all: try (match goal with E : thr _ _ = _ :: _ |- _ =>
              destruct (dereg_top_started _ _ c0 _ _ HE E) as [? _];
              [cbn; now rewrite Nat.eqb_refl|congruence] end).
  all: try (eapply (E_post _ HE t c0); eauto; rewrite Heql; now left).
Qed.

Lemma cnt_other_tid p t' l :
  (forall e, p e = true -> fst e = t') -> (forall e, In e l -> fst e <> t') -> cnt p l = 0.
Proof.
  intros Hp Hl. unfold cnt. induction l as [|e r IH]; cbn; auto.
  destruct (p e) eqn:Ep.
  - exfalso. apply (Hl e); [now left|]. auto.
  - apply IH. intros e' Hin. apply Hl. now right.
Qed.

Lemma is_exec_by_tid t c e : is_exec_by t c e = true -> fst e = t.
Proof. unfold is_exec_by. intros H. apply andb_true_iff in H. destruct H as [H _]. now apply Nat.eqb_eq. Qed.
Lemma is_end_by_tid t c e : is_end_by t c e = true -> fst e = t.
Proof. unfold is_end_by. intros H. apply andb_true_iff in H. destruct H as [H _]. now apply Nat.eqb_eq. Qed.

(* when a destructor returns on t, no other thread has a body frame of that callback *)
Lemma step_ret_quiet s t s' ev : InvA s -> InvB s -> InvC s -> InvD s -> InvE s ->
  step t s = Some (s', ev) ->
  forall e c, In e ev -> snd e = EDeregRet c -> forall t', t' <> t -> nfr c (thr s t') = 0.
Proof.
  intros HA HB HC HD HE H e c0 Hin He t' Hne.
  assert (HE' : InvE s') by (eapply InvE_step; eauto).
  assert (Hd : dst (cbs s' c0) = DDone t).
  { step_inv H; cbn in Hin;
    repeat match goal with Hx : _ \/ _ |- _ => destruct Hx as [Hx|Hx] end; subst; cbn in He;
    try discriminate; try tauto.
    all: injection He as <-; cbn; now rewrite upd_eq. }
  destruct (E_done _ HE' _ _ Hd) as [_ Hx].
  rewrite (B_fr _ HB c0 t').
  assert (Hxs : xst (cbs s' c0) = xst (cbs s c0)).
  { step_inv H; cbn in Hin;
    repeat match goal with Hx : _ \/ _ |- _ => destruct Hx as [Hx|Hx] end; subst; cbn in He;
    try discriminate; try tauto.
    all: injection He as <-; cbn; rewrite upd_eq; cbn; congruence. }
  rewrite Hxs in Hx.
  destruct (xst (cbs s c0)) as [|t''|]; cbn; auto.
  destruct (Nat.eqb_spec t'' t'); auto. subst. exfalso. apply Hne. now apply Hx.
Qed.

Lemma InvT_q1 s tr t s' ev : InvA s -> InvB s -> InvC s -> InvD s -> InvE s -> InvT s tr ->
  step t s = Some (s', ev) -> AtEvent Q1 (tr ++ ev).
Proof.
  intros HA HB HC HD HE HT H.
  assert (Hno : forall e c, In e ev -> touches c (snd e) = true -> forall t', ~ In (t', EDeregRet c) tr).
  { intros e c Hin Ht t' Hr. apply (T_ret _ _ HT) in Hr. revert Hr. eapply step_touch; eauto. }
  destruct (step_ev_shape _ _ _ _ H) as [[e ->]|(e1 & e2 & ->)].
  - apply AtEvent_app1; [apply (T_q1 _ _ HT)|].
    intros c Ht t'. eapply Hno; eauto. now left.
  - apply AtEvent_app2; [apply (T_q1 _ _ HT)| |].
    + intros c Ht t'. eapply Hno; eauto. now left.
    + intros c Ht t' Hin. apply in_app_iff in Hin. destruct Hin as [Hin|[Hin|[]]].
      * revert Hin. eapply Hno; eauto. right; now left.
      * eapply step_ret_last; eauto.
Qed.

Lemma InvT_q2 s tr t s' ev : InvA s -> InvB s -> InvC s -> InvD s -> InvE s -> InvT s tr ->
  step t s = Some (s', ev) -> AtEvent Q2 (tr ++ ev).
Proof.
  intros HA HB HC HD HE HT H.
  assert (Hq : forall e c, In e ev -> snd e = EDeregRet c -> forall t', t' <> fst e ->
               cnt (is_exec_by t' c) tr = cnt (is_end_by t' c) tr).
  { intros e c Hin He t' Hne. rewrite (step_ev_tid _ _ _ _ H e Hin) in Hne.
    rewrite (T_run _ _ HT t' c). erewrite step_ret_quiet; eauto. }
  destruct (step_ev_shape _ _ _ _ H) as [[e ->]|(e1 & e2 & ->)].
  - apply AtEvent_app1; [apply (T_q2 _ _ HT)|].
    intros c He t' Hne. eapply Hq; eauto. now left.
  - apply AtEvent_app2; [apply (T_q2 _ _ HT)| |].
    + intros c He t' Hne. eapply Hq; eauto. now left.
    + intros c He t' Hne. rewrite !cnt_app.
      assert (H1 : fst e1 = t) by (eapply step_ev_tid; eauto; now left).
      assert (H2 : fst e2 = t) by (eapply step_ev_tid; eauto; right; now left).
      rewrite (cnt_other_tid (is_exec_by t' c) t' [e1]);
        [|apply is_exec_by_tid|intros e [<-|[]]; congruence].
      rewrite (cnt_other_tid (is_end_by t' c) t' [e1]);
        [|apply is_end_by_tid|intros e [<-|[]]; congruence].
      rewrite !Nat.add_0_r. eapply Hq; eauto. right; now left.
Qed.

Lemma InvT_step s tr t s' ev : InvA s -> InvB s -> InvC s -> InvD s -> InvE s -> InvT s tr ->
  step t s = Some (s', ev) -> InvT s' (tr ++ ev).
Proof.
  intros HA HB HC HD HE HT H. constructor.
  - eapply InvT_exec; eauto.
  - eapply InvT_run; eauto.
  - eapply InvT_ret; eauto.
  - eapply InvT_q1; eauto.
  - eapply InvT_q2; eauto.
Qed.

Lemma InvT_init progs bods : InvT (init progs bods) [].
Proof.
  constructor; cbn; auto.
  - intros t c. destruct (nth_error progs t); reflexivity.
  - intros t c [].
  - apply AtEvent_nil.
  - apply AtEvent_nil.
Qed.

(* ------------------------------------------------------------------------------------------ *)
(* All layers together, lifted to runs                                                        *)

Record Inv (c : st * list ev) : Prop := {
  I_A : InvA (fst c); I_B : InvB (fst c); I_C : InvC (fst c); I_D : InvD (fst c);
  I_E : InvE (fst c); I_CT : InvCT (fst c) (snd c); I_T : InvT (fst c) (snd c)
}.

Lemma Inv_step c t s' ev : Inv c -> step t (fst c) = Some (s', ev) -> Inv (s', snd c ++ ev).
Proof.
  intros [HA HB HC HD HE HCT HT] H. constructor; cbn.
  - eapply InvA_step; eauto.
  - eapply InvB_step; eauto.
  - eapply InvC_step; eauto.
  - eapply InvD_step; eauto.
  - eapply InvE_step; eauto.
  - eapply InvCT_step; eauto.
  - eapply InvT_step; eauto.
Qed.

Lemma Inv_init progs bods : Inv (init progs bods, []).
Proof.
  constructor; cbn.
  - apply InvA_init. - apply InvB_init. - apply InvC_init. - apply InvD_init.
  - apply InvE_init. - apply InvCT_init. - apply InvT_init.
Qed.

Lemma Inv_run_from c sched : Inv c -> Inv (run step sched c).
Proof. apply run_invariant. intros; eapply Inv_step; eauto. Qed.

Lemma Inv_run progs bods sched : Inv (run step sched (init progs bods, [])).
Proof. apply Inv_run_from, Inv_init. Qed.

(* ------------------------------------------------------------------------------------------ *)
(* Theorems                                                                                   *)

Lemma cnt_pos_in p tr : cnt p tr <> 0 -> exists e, In e tr /\ p e = true.
Proof.
  unfold cnt. induction tr as [|e r IH]; cbn; [congruence|].
  destruct (p e) eqn:Ep.
  - intros _. exists e. auto.
  - intros H. destruct (IH H) as (e' & Hin & Hp). exists e'. auto.
Qed.

Lemma is_acq03_inv e : is_acq03 e = true -> e = (fst e, EAcq true 0 3).
Proof.
  destruct e as [t k]. unfold is_acq03. cbn.
  destruct k as [ar o n| | | | | | | | | |]; try discriminate.
  destruct ar; try discriminate. destruct o; try discriminate.
  do 4 (destruct n; try discriminate). reflexivity.
Qed.

Lemma finished_nreqf s t : finished s t = true -> nreqf (thr s t) = 0.
Proof.
  unfold finished. destruct (thr s t) as [|f l]; auto.
  destruct f; try discriminate. destruct oc; try discriminate.
  destruct k; try discriminate. destruct l; try discriminate. reflexivity.
Qed.

(* exactly one request_stop is the first *)
Theorem first_unique progs bods sched :
  let c := run step sched (init progs bods, []) in
  let s := fst c in let tr := snd c in
  cnt is_rsfalse tr <= 1 /\ cnt is_acq03 tr <= 1 /\
  (cnt is_acq03 tr = 1 <-> stop s = true) /\
  (forall t, In (t, ERsRet false) tr -> In (t, EAcq true 0 3) tr) /\
  (forall t b, In (t, ERsRet b) tr -> stop s = true) /\
  ((forall t, finished s t = true) -> stop s = true -> cnt is_rsfalse tr = 1).
Proof.
  intros c s tr. destruct (Inv_run progs bods sched) as [HA HB HC HD HE HCT HT].
  fold c in HA, HB, HC, HD, HE, HCT, HT. fold s in HA, HB, HC, HD, HE, HCT, HT. fold tr in HCT, HT.
  destruct (notifier s) as [w|] eqn:En.
  - destruct (CT_some _ _ HCT w En) as [H1 H2].
    assert (Hs : stop s = true).
    { destruct (stop s) eqn:Es; auto. apply (C_stop _ HC) in Es. congruence. }
    assert (G4 : forall t, In (t, ERsRet false) tr -> In (t, EAcq true 0 3) tr).
    { intros t Hin.
      assert (Hw : notifier s = Some t) by (apply (CT_who _ _ HCT); now left).
      destruct (cnt_pos_in is_acq03 tr) as (e & Hin' & Hp); [lia|].
      apply is_acq03_inv in Hp. rewrite Hp in Hin'.
      assert (Hw' : notifier s = Some (fst e)) by (apply (CT_who _ _ HCT); now right).
      assert (fst e = t) by congruence. subst t. exact Hin'. }
    assert (G6 : (forall t, finished s t = true) -> stop s = true -> cnt is_rsfalse tr = 1).
    { intros Hf _. rewrite (finished_nreqf _ _ (Hf w)) in H1. lia. }
    split; [lia|]. split; [lia|]. split; [tauto|]. split; [exact G4|]. split; [|exact G6].
    intros t b. apply (CT_rs _ _ HCT).
  - destruct (CT_none _ _ HCT En) as [H1 H2].
    assert (Hs : stop s = false) by (apply (C_stop _ HC); exact En).
    split; [lia|]. split; [lia|]. split; [split; [lia|congruence]|]. split; [|split].
    + intros t Hin. exfalso. eapply cnt_zero_notin; [exact H1| |exact Hin]. reflexivity.
    + intros t b. apply (CT_rs _ _ HCT).
    + congruence.
Qed.

Lemma stop_run c sched : Inv c -> stop (fst c) = true -> stop (fst (run step sched c)) = true.
Proof.
  revert c. induction sched as [|t sched IH]; intros c HI Hs; [exact Hs|].
  rewrite run_cons. unfold step_conf.
  destruct (step t (fst c)) as [[s' ev]|] eqn:E; [|auto].
  apply IH.
  - eapply Inv_step; eauto.
  - cbn. eapply stop_step; eauto. apply (I_A _ HI).
Qed.

(* stop_requested never reverts *)
Theorem stop_monotone progs bods sched1 sched2 :
  stop (fst (run step sched1 (init progs bods, []))) = true ->
  stop (fst (run step (sched1 ++ sched2) (init progs bods, []))) = true.
Proof.
  intros H. rewrite run_app. apply stop_run; auto. apply Inv_run.
Qed.

Theorem cb_at_most_once progs bods sched c :
  cnt (is_exec c) (snd (run step sched (init progs bods, []))) <= 1.
Proof.
  destruct (Inv_run progs bods sched) as [_ _ _ _ _ _ HT].
  rewrite (T_exec _ _ HT c). destruct (is_xnone _); lia.
Qed.

(* a callback has run iff a stop request dequeued it while registered, or its registration
   found the stop already requested; never without a stop request *)
Theorem cb_iff progs bods sched c :
  let cf := run step sched (init progs bods, []) in
  let s := fst cf in let tr := snd cf in
  (cnt (is_exec c) tr = 1 <-> (cst (cbs s c) = CPopped \/ cst (cbs s c) = CInl)) /\
  (cnt (is_exec c) tr = 0 <-> (cst (cbs s c) = CNew \/ cst (cbs s c) = CReg \/
                               cst (cbs s c) = CLinked \/ cst (cbs s c) = CUnlinked)) /\
  (cnt (is_exec c) tr = 1 -> stop s = true).
Proof.
  intros cf s tr. destruct (Inv_run progs bods sched) as [HA HB HC HD HE HCT HT].
  fold cf in HB, HC, HT. fold s in HB, HC, HT. fold tr in HT.
  rewrite (T_exec _ _ HT c). pose proof (B_x _ HB c) as HX.
  assert (Hp := C_pop _ HC).
  destruct (cst (cbs s c)) eqn:Ec; cbn in HX; rewrite HX.
  all: repeat split; try tauto; try congruence; try (intuition congruence).
  all: intros _; destruct (stop s) eqn:Es; auto; destruct (Hp eq_refl c); congruence.
Qed.

(* once the destructor of c has returned on thread t: nothing touches c any more (no execution,
   no callbackCompleted_ access, no second destruction), and at that moment c was not executing
   on any other thread *)
Theorem dereg_quiescent progs bods sched pre t c post :
  snd (run step sched (init progs bods, [])) = pre ++ (t, EDeregRet c) :: post ->
  (forall e, In e post -> touches c (snd e) = false) /\
  (forall e, In e pre -> snd e <> EDeregRet c) /\
  (forall t', t' <> t -> cnt (is_exec_by t' c) pre = cnt (is_end_by t' c) pre).
Proof.
  intros E. destruct (Inv_run progs bods sched) as [_ _ _ _ _ _ HT].
  pose proof (T_q1 _ _ HT) as H1. pose proof (T_q2 _ _ HT) as H2.
  split; [|split].
  - intros e Hin. destruct (touches c (snd e)) eqn:Ht; auto. exfalso.
    apply in_split in Hin. destruct Hin as (p1 & p2 & ->).
    assert (E' : snd (run step sched (init progs bods, [])) = (pre ++ (t, EDeregRet c) :: p1) ++ e :: p2)
      by (rewrite E, <- app_assoc; reflexivity).
    apply (H1 _ _ _ E' c Ht t). apply in_app_iff. right. now left.
  - intros e Hin He. apply in_split in Hin. destruct Hin as (p1 & p2 & ->).
    assert (E' : snd (run step sched (init progs bods, [])) = (p1 ++ e :: p2) ++ (t, EDeregRet c) :: post)
      by exact E.
    destruct e as [te ke]. cbn in He. subst ke.
    apply (H1 _ _ _ E' c) with (t := te); [cbn; apply Nat.eqb_refl|].
    apply in_app_iff. right. now left.
  - intros t' Hne. apply (H2 _ _ _ E c); auto.
Qed.

Lemma in_run_nfr c k l : In (FRun (Some c) k) l -> nfr c l <> 0.
Proof.
  induction l as [|f r IH]; cbn; [tauto|]. intros [->|Hin].
  - rewrite Nat.eqb_refl. discriminate.
  - specialize (IH Hin). destruct f; auto. destruct oc; auto.
    destruct (Nat.eqb n c); cbn; lia.
Qed.

(* the notifying thread never waits for callbackCompleted_; a thread inside a callback that
   request_stop dequeued is the notifying thread; and its remove_callback critical section
   returns at once *)
Theorem self_dereg_nonblocking progs bods sched :
  let s := fst (run step sched (init progs bods, [])) in
  (forall t c, notifier s = Some t -> ~ In (FDeregWait c) (thr s t)) /\
  (forall t c k, In (FRun (Some c) k) (thr s t) -> cst (cbs s c) = CPopped -> notifier s = Some t) /\
  (forall t c old rest, thr s t = FDeregCS c old :: rest -> notifier s = Some t ->
     cst (cbs s c) <> CLinked ->
     exists s', step t s = Some (s', [(t, ERel (word false old)); (t, EDeregRet c)]) /\ thr s' t = rest).
Proof.
  intros s. destruct (Inv_run progs bods sched) as [HA HB HC HD HE HCT HT]. fold s in HB, HD, HE.
  split; [|split].
  - intros t c En Hin. destruct (E_wait _ HE t c Hin). congruence.
  - intros t c k Hin Hc.
    pose proof (B_fr _ HB c t) as HF. pose proof (in_run_nfr _ _ _ Hin) as Hn.
    destruct (xst (cbs s c)) as [|t'|] eqn:EX; cbn in HF; try lia.
    destruct (Nat.eqb_spec t' t); [subst|lia]. eapply D_not; eauto.
  - intros t c old rest Et En Hc. unfold step. rewrite Et.
    assert (Hn : is_notifier s t = true) by (unfold is_notifier; rewrite En; apply Nat.eqb_refl).
    rewrite Hn. destruct (cst (cbs s c)); try congruence; eexists; split; try reflexivity; cbn; apply upd_eq.
Qed.

(* a destroyed callback is not reachable from the list *)
Theorem no_dangling progs bods sched c t :
  let s := fst (run step sched (init progs bods, [])) in
  dst (cbs s c) = DDone t -> ~ In c (lst s).
Proof.
  intros s Hd Hin. destruct (Inv_run progs bods sched) as [HA HB HC HD HE HCT HT]. fold s in HB, HE.
  apply (B_in _ HB) in Hin. destruct (E_done _ HE _ _ Hd) as [Hc _]. intuition congruence.
Qed.

Theorem dereg_ret_destroyed progs bods sched c t :
  let cf := run step sched (init progs bods, []) in
  In (t, EDeregRet c) (snd cf) -> dst (cbs (fst cf) c) = DDone t.
Proof.
  intros cf. destruct (Inv_run progs bods sched) as [_ _ _ _ _ _ HT]. apply (T_ret _ _ HT).
Qed.

(* ------------------------------------------------------------------------------------------ *)
(* What stop_requested observes; in which context a callback is entered                       *)

Definition Q3 (pre : list ev) (a : ev) : Prop :=
  forall b v, snd a = EObs b v -> (Nat.odd v = true <-> cnt is_acq03 pre = 1).
Definition Q4 (pre : list ev) (a : ev) : Prop :=
  forall c, snd a = EExec c ->
  exists pre0 e, pre = pre0 ++ [e] /\ fst e = fst a /\
    (snd e = ERel 1 \/ exists v, snd e = EObs false v /\ Nat.odd v = true).

Lemma odd_word l sp : Nat.odd (word l sp) = sp.
Proof. destruct l, sp; reflexivity. Qed.

Lemma step_obs s t s' ev : step t s = Some (s', ev) ->
  (forall e b v, In e ev -> snd e = EObs b v -> Nat.odd v = stop s /\ exists r, ev = e :: r) /\
  (forall e1 e2 c, ev = [e1; e2] -> snd e2 = EExec c ->
     fst e1 = fst e2 /\ (snd e1 = ERel 1 \/ exists v, snd e1 = EObs false v /\ Nat.odd v = true)) /\
  (forall e r c, ev = e :: r -> snd e <> EExec c).
Proof.
  intros H. step_inv H; (split; [|split]).
  all: try (intros e b v Hin He; cbn in Hin;
            repeat match goal with Hx : _ \/ _ |- _ => destruct Hx as [Hx|Hx] end; subst; cbn in He;
            try discriminate; try tauto; injection He as <- <-; rewrite odd_word; split; eauto; congruence).
  all: try (intros e1 e2 c0 [= <- <-] He; cbn in *; try discriminate; split; auto;
            first [left; reflexivity | right; eexists; split; [reflexivity|apply odd_word]]).
  all: try (intros e r c0 [= <- <-]; cbn; discriminate).
Qed.

Record InvO (s : st) (tr : list ev) : Prop := { O_q3 : AtEvent Q3 tr; O_q4 : AtEvent Q4 tr }.

Lemma InvO_step s tr t s' ev : InvC s -> InvCT s tr -> InvO s tr -> step t s = Some (s', ev) ->
  InvO s' (tr ++ ev).
Proof.
  intros HC HCT [H3 H4] H.
  destruct (step_obs _ _ _ _ H) as (Ho & Hx & Hnx).
  assert (Hs : stop s = true <-> cnt is_acq03 tr = 1).
  { destruct (notifier s) as [w|] eqn:En.
    - destruct (CT_some _ _ HCT w En) as [_ H2]. split; auto. intros _.
      destruct (stop s) eqn:Es; auto. apply (C_stop _ HC) in Es. congruence.
    - destruct (CT_none _ _ HCT En) as [_ H2].
      assert (stop s = false) by (apply (C_stop _ HC); exact En). split; [congruence|lia]. }
  destruct (step_ev_shape _ _ _ _ H) as [[e ->]|(e1 & e2 & ->)]; constructor.
  - apply AtEvent_app1; auto. intros b v He.
    destruct (Ho e b v (or_introl eq_refl) He) as [Hv _]. rewrite Hv. exact Hs.
  - apply AtEvent_app1; auto. intros c He. exfalso. eapply Hnx; eauto.
  - apply AtEvent_app2; auto.
    + intros b v He. destruct (Ho e1 b v (or_introl eq_refl) He) as [Hv _]. rewrite Hv. exact Hs.
    + intros b v He. exfalso.
      destruct (Ho e2 b v (or_intror (or_introl eq_refl)) He) as [_ [r Er]].
      injection Er as E1 E2. subst e1.
      (* the second event equals the first: both are EObs, but the step's first event decides *)
      destruct (Ho e2 b v (or_introl eq_refl) He) as [_ _].
      clear - H He. step_inv H; cbn in He; discriminate.
  - apply AtEvent_app2; auto.
    + intros c He. exfalso. eapply Hnx; eauto.
    + intros c He. destruct (Hx e1 e2 c eq_refl He) as [Hf Hk].
      exists tr, e1. auto.
Qed.

Lemma InvO_init progs bods : InvO (init progs bods) [].
Proof. constructor; apply AtEvent_nil. Qed.

(* ------------------------------------------------------------------------------------------ *)
(* Layer F: stack shape, pending post-callback frames, the list after the stop                *)

(* a non-empty stack has exactly one thread-program frame, at the bottom *)
Fixpoint shape (l : list frame) : bool :=
  match l with
  | [] => false
  | FRun None _ :: r => match r with [] => true | _ => false end
  | _ :: r => shape r
  end.
Definition shape_ok (l : list frame) : bool := match l with [] => true | _ => shape l end.

Record InvF (s : st) : Prop := {
  F_shape : forall t, shape_ok (thr s t) = true;
  F_pend : forall c, cst (cbs s c) = CPopped -> completed (cbs s c) = false ->
           removed (cbs s c) = false -> exists w, In (FReqPost c) (thr s w);
  F_rem : forall c, cst (cbs s c) = CPopped -> removed (cbs s c) = true ->
          exists t, dst (cbs s c) = DDone t;
  F_lst : lst s <> [] -> stop s = true -> exists w, notifier s = Some w /\ nreqf (thr s w) <> 0
}.

Lemma InvF_shape s t s' ev : InvF s -> step t s = Some (s', ev) -> forall t0, shape_ok (thr s' t0) = true.
Proof.
  intros HF H t0. pose proof (F_shape _ HF t0) as H0. pose proof (F_shape _ HF t) as Ht.
  step_inv H; cbn; unfold upd; eqb_cases; cbn in *; auto.
  all: try (destruct oc; cbn in *; auto; destruct l; cbn in *; auto; discriminate).
  all: try (destruct l; cbn in *; auto; discriminate).
Qed.

Ltac upd_cbs :=
  repeat match goal with
  | |- context [upd (cbs ?s) ?c ?r ?c0] =>
      destruct (Nat.eq_dec c0 c);
      [subst; rewrite ?upd_eq | rewrite ?(upd_neq (cbs s) c c0 r) by assumption]
  end.

Lemma InvF_pend s t s' ev : InvB s -> InvD s -> InvF s -> step t s = Some (s', ev) ->
  forall c0, cst (cbs s' c0) = CPopped -> completed (cbs s' c0) = false ->
  removed (cbs s' c0) = false -> exists w, In (FReqPost c0) (thr s' w).
Proof.
  intros HB HD HF H c0.
  pose proof (F_pend _ HF c0) as HP.
  assert (Hkeep : forall stk f l, thr s t = f :: l -> (forall g, In g (f :: l) -> g = FReqPost c0 -> In g stk) ->
            (exists w, In (FReqPost c0) (thr s w)) ->
            exists w, In (FReqPost c0) (upd (thr s) t stk w)).
  { intros stk f l Et Hk [w Hw]. exists w. unfold upd. destruct (Nat.eqb_spec w t); auto.
    subst w. rewrite Et in Hw. apply (Hk _ Hw eq_refl). }
  step_inv H; cbn; upd_cbs; cbn; try discriminate.
  all: try (intros Hc Hcm Hr; eapply Hkeep; [reflexivity| |apply HP; auto];
            intros g Hg ->; cbn in *; intuition (try discriminate; try congruence); fail).
  intros _ _ _. exists t. rewrite upd_eq. right. now left.
Qed.

Lemma InvF_rem s t s' ev : InvB s -> InvE s -> InvF s -> step t s = Some (s', ev) ->
  forall c0, cst (cbs s' c0) = CPopped -> removed (cbs s' c0) = true ->
  exists t0, dst (cbs s' c0) = DDone t0.
Proof.
  intros HB HE HF H c0.
  pose proof (F_rem _ HF c0) as HR.
  step_inv H; cbn; upd_cbs; cbn; try discriminate; auto.
  all: try (intros; eexists; reflexivity).
  intros _ Hr. destruct (HR Heqc1 Hr) as [t0 Hd]. congruence.
Qed.

Lemma InvF_lst s t s' ev : InvA s -> InvC s -> InvF s -> step t s = Some (s', ev) ->
  lst s' <> [] -> stop s' = true -> exists w, notifier s' = Some w /\ nreqf (thr s' w) <> 0.
Proof.
  intros HA HC HF H.
  pose proof (F_lst _ HF) as HL.
  pose proof (A_reg _ HA t) as HRt. pose proof (A_old _ HA t) as HOt.
  assert (Hkeep : forall stk f l, thr s t = f :: l -> nreqf stk = nreqf (f :: l) ->
            (exists w, notifier s = Some w /\ nreqf (thr s w) <> 0) ->
            exists w, notifier s = Some w /\ nreqf (upd (thr s) t stk w) <> 0).
  { intros stk f l Et Hk [w [Hn Hw]]. exists w. split; auto. unfold upd.
    destruct (Nat.eqb_spec w t); auto. subst w. rewrite Et in Hw. congruence. }
  step_inv H; cbn.
  all: try (intros Hl Hs; eapply Hkeep; [reflexivity|reflexivity|apply HL; auto]; fail).
  all: try (intros Hl Hs; rewrite (HOt _ _ _ eq_refl) in Hs;
            eapply Hkeep; [reflexivity|reflexivity|apply HL; auto]; fail).
  all: try (intros; discriminate).
  - intros _ _. exists t. rewrite upd_eq. split; auto. cbn. discriminate.
  - intros Hl. congruence.
  - intros _ _. exists t. rewrite upd_eq. split; [|cbn; discriminate].
    eapply top_req_notifier; eauto.
  - intros Hl Hs. rewrite (HOt _ _ _ eq_refl) in Hs.
    eapply Hkeep; [reflexivity|reflexivity|apply HL; auto].
    intros E. rewrite E in Hl. cbn in Hl. congruence.
Qed.

Lemma InvF_step s t s' ev : InvA s -> InvB s -> InvC s -> InvD s -> InvE s -> InvF s ->
  step t s = Some (s', ev) -> InvF s'.
Proof.
  intros HA HB HC HD HE HF H. constructor.
  - eapply InvF_shape; eauto.
  - eapply InvF_pend; eauto.
  - eapply InvF_rem; eauto.
  - eapply InvF_lst; eauto.
Qed.

Lemma InvF_init progs bods : InvF (init progs bods).
Proof.
  constructor; cbn; try discriminate; try congruence.
  intros t. destruct (nth_error progs t); reflexivity.
Qed.

Record InvX (c : st * list ev) : Prop := {
  X_I : Inv c; X_O : InvO (fst c) (snd c); X_F : InvF (fst c)
}.

Lemma InvX_run progs bods sched : InvX (run step sched (init progs bods, [])).
Proof.
  apply run_invariant.
  - intros c t s' ev [HI HO HF] H. pose proof HI as [HA HB HC HD HE HCT HT]. constructor; cbn.
    + eapply Inv_step; eauto.
    + eapply InvO_step; eauto.
    + eapply InvF_step; eauto.
  - constructor; cbn.
    + apply Inv_init. + apply InvO_init. + apply InvF_init.
Qed.

(* stop_requested() (and the early exit of try_lock_unless_stop_requested) sees the stop bit iff
   some request_stop already took its first step; with first_unique (at most one such step
   ever) the observation never reverts *)
Theorem stop_observed progs bods sched pre t b v post :
  snd (run step sched (init progs bods, [])) = pre ++ (t, EObs b v) :: post ->
  (Nat.odd v = true <-> cnt is_acq03 pre = 1).
Proof.
  intros E. destruct (InvX_run progs bods sched) as [_ [H3 _] _].
  apply (H3 _ _ _ E b v eq_refl).
Qed.

(* a callback body is entered either by the notifying thread right after it released the lock
   in request_stop, or inline by the registering thread right after its registration saw the stop
   bit *)
Theorem exec_context progs bods sched pre t c post :
  snd (run step sched (init progs bods, [])) = pre ++ (t, EExec c) :: post ->
  exists pre0 e, pre = pre0 ++ [e] /\ fst e = t /\
    (snd e = ERel 1 \/ exists v, snd e = EObs false v /\ Nat.odd v = true).
Proof.
  intros E. destruct (InvX_run progs bods sched) as [_ [_ H4] _].
  apply (H4 _ _ _ E c eq_refl).
Qed.

(* after the first request_stop has returned, no callback is left in the list: every callback
   that was registered when the stop was requested has been dequeued (and run) or has been
   deregistered; later registrations run inline *)
Theorem cb_complete progs bods sched :
  let cf := run step sched (init progs bods, []) in
  let s := fst cf in let tr := snd cf in
  (cnt is_rsfalse tr = 1 -> lst s = [] /\ forall c, cst (cbs s c) <> CLinked) /\
  ((forall t, finished s t = true) -> stop s = true -> forall c, cst (cbs s c) <> CLinked).
Proof.
  intros cf s tr. destruct (InvX_run progs bods sched) as [[HA HB HC HD HE HCT HT] _ HF].
  fold cf in HA, HB, HC, HCT, HF. fold s in HA, HB, HC, HCT, HF. fold tr in HCT.
  assert (Hmain : forall w, notifier s = Some w -> nreqf (thr s w) = 0 ->
                  lst s = [] /\ forall c, cst (cbs s c) <> CLinked).
  { intros w En Hz.
    assert (Hs : stop s = true).
    { destruct (stop s) eqn:Es; auto. apply (C_stop _ HC) in Es. congruence. }
    assert (Hl : lst s = []).
    { destruct (lst s) eqn:El; auto. exfalso.
      destruct (F_lst _ HF) as (w' & En' & Hn); [rewrite El; discriminate|exact Hs|].
      congruence. }
    split; auto. intros c Hc. apply (B_in _ HB) in Hc. rewrite Hl in Hc. destruct Hc. }
  split.
  - intros H1. destruct (notifier s) as [w|] eqn:En.
    + destruct (CT_some _ _ HCT w En) as [Hsum _]. apply (Hmain w eq_refl). lia.
    + destruct (CT_none _ _ HCT En). lia.
  - intros Hf Hs. destruct (notifier s) as [w|] eqn:En.
    + apply (Hmain w eq_refl). apply finished_nreqf, Hf.
    + apply (C_stop _ HC) in En. congruence.
Qed.

(* ------------------------------------------------------------------------------------------ *)
(* Deadlock freedom                                                                           *)

Definition dereg_ready (t : nat) (r : cbrec) : bool :=
  match dst r with
  | DNone => match cst r with
             | CInl => inl_ready t (xst r)
             | CLinked | CPopped => true
             | _ => false
             end
  | _ => false
  end.

(* the thread's next instruction waits for the client discipline: registration of an id that was
   already used, destruction (or IWait) of a callback whose constructor has not returned, or a
   second destruction *)
Definition client_wait (s : st) (t : nat) : bool :=
  match thr s t with
  | FRun _ (IReg c :: _) :: _ => match cst (cbs s c) with CNew => false | _ => true end
  | FRun _ (IDereg c :: _) :: _ => negb (dereg_ready t (cbs s c))
  | FRun _ (IWait c :: _) :: _ => negb (regd (cbs s c))
  | _ => false
  end.

Lemma holder_enabled s t : holder s t = true -> step t s <> None.
Proof.
  unfold holder, step. destruct (thr s t) as [|f l]; [discriminate|].
  destruct f; cbn; try discriminate; intros _.
  - destruct (lst s); discriminate.
  - destruct (cst (cbs s c)); try discriminate; destruct (is_notifier s t); discriminate.
Qed.

(* with the lock free and no client wait, a thread that cannot move is finished or spins on
   callbackCompleted_ *)
Lemma blocked_cases s t : locked s = false -> client_wait s t = false -> step t s = None ->
  thr s t = [] \/ (exists l, thr s t = FRun None [] :: l) \/
  (exists c l, thr s t = FDeregWait c :: l /\ completed (cbs s c) = false).
Proof.
  intros Hl Hc H. unfold client_wait in Hc. unfold step in H. rewrite Hl in H.
  destruct (thr s t) as [|f l]; auto. right.
  destruct f.
  - destruct k as [|i k].
    + destruct oc; [discriminate|]. left. eauto.
    + exfalso. destruct i.
      * destruct (cst (cbs s c)); try discriminate. destruct (stop s); discriminate.
      * unfold dereg_ready in Hc. destruct (dst (cbs s c)); try discriminate.
        destruct (cst (cbs s c)); try discriminate. destruct (inl_ready t (xst (cbs s c))); discriminate.
      * destruct (stop s); discriminate.
      * discriminate.
      * destruct (regd (cbs s c)); discriminate.
  - exfalso. destruct (lst s); discriminate.
  - exfalso. destruct (removed (cbs s c)); discriminate.
  - discriminate.
  - discriminate.
  - discriminate.
  - exfalso. destruct (cst (cbs s c)); try discriminate; destruct (is_notifier s t); discriminate.
  - right. destruct (completed (cbs s c)) eqn:Ec; [discriminate|]. eauto.
Qed.

Lemma shape_run_none k l : shape_ok (FRun None k :: l) = true -> l = [].
Proof. cbn. destruct l; auto. discriminate. Qed.

(* if no thread can move, and none is waiting for the client discipline, every thread has
   finished its program: the protocol itself never deadlocks *)
Theorem deadlock_free progs bods sched :
  let s := fst (run step sched (init progs bods, [])) in
  (forall t, step t s = None) -> (forall t, client_wait s t = false) ->
  forall t, finished s t = true.
Proof.
  intros s Hnone Hcw.
  destruct (InvX_run progs bods sched) as [[HA HB HC HD HE HCT HT] _ HF].
  fold s in HA, HB, HC, HD, HE, HF.
  assert (Hl : locked s = false).
  { destruct (locked s) eqn:El; auto. destruct (A_some _ HA El) as [th Hh].
    exfalso. apply (holder_enabled _ _ Hh). apply Hnone. }
  assert (Hnowait : forall t c l, thr s t = FDeregWait c :: l -> completed (cbs s c) = false -> False).
  { intros t c l Et Ec.
    destruct (E_wait _ HE t c) as [Hnt Hcp]; [rewrite Et; now left|].
    destruct (dereg_top_started _ _ c _ _ HE Et) as [Hds _]; [cbn; now rewrite Nat.eqb_refl|].
    assert (Hr : removed (cbs s c) = false).
    { destruct (removed (cbs s c)) eqn:Er; auto. destruct (F_rem _ HF c Hcp Er) as [t0 Hd]. congruence. }
    destruct (F_pend _ HF c Hcp Ec Hr) as [w Hw].
    assert (Hnw : notifier s = Some w) by (eapply post_notifier; eauto).
    destruct (blocked_cases s w Hl (Hcw w) (Hnone w)) as [E|[[l' E]|(c' & l' & E & Ec')]].
    - rewrite E in Hw. destruct Hw.
    - pose proof (F_shape _ HF w) as Hsh. rewrite E in Hsh. apply shape_run_none in Hsh. subst l'.
      rewrite E in Hw. destruct Hw as [Hw|[]]. discriminate.
    - destruct (E_wait _ HE w c') as [Hnw' _]; [rewrite E; now left|]. congruence. }
  intros t. unfold finished.
  destruct (blocked_cases s t Hl (Hcw t) (Hnone t)) as [E|[[l' E]|(c' & l' & E & Ec')]].
  - now rewrite E.
  - pose proof (F_shape _ HF t) as Hsh. rewrite E in Hsh. apply shape_run_none in Hsh. subst l'.
    now rewrite E.
  - exfalso. eapply Hnowait; eauto.
Qed.

(* ------------------------------------------------------------------------------------------ *)
(* Well-formed client programs never run into the discipline guards                           *)

Definition instr_eq_dec : forall a b : instr, {a = b} + {a <> b}.
Proof. decide equality; apply Nat.eq_dec. Defined.

Definition cnti (i : instr) (k : prog) : nat := count_occ instr_eq_dec k i.

(* each callback id is constructed at most once and destroyed at most once in the whole program
   text (thread programs and callback bodies) *)
Definition wf (progs bods : list prog) : Prop :=
  forall c, cnti (IReg c) (concat progs ++ concat bods) <= 1 /\
            cnti (IDereg c) (concat progs ++ concat bods) <= 1.

Fixpoint sumn (n : nat) (f : nat -> nat) : nat :=
  match n with 0 => 0 | S k => sumn k f + f k end.

Lemma sumn_ext n f g : (forall i, i < n -> f i = g i) -> sumn n f = sumn n g.
Proof. induction n; cbn; auto. intros H. rewrite IHn, H; auto. Qed.

Lemma sumn_upd n (f g : nat -> nat) t :
  (forall i, i <> t -> g i = f i) -> t < n -> sumn n g + f t = sumn n f + g t.
Proof.
  intros Hne. induction n; [lia|]. intros Hlt. cbn.
  destruct (Nat.eq_dec t n) as [->|Hn].
  - rewrite (sumn_ext n g f); [lia|]. intros i Hi. apply Hne. lia.
  - rewrite (Hne n) by congruence. assert (t < n) by lia. specialize (IHn H). lia.
Qed.

Lemma sumn_same n (f g : nat -> nat) t :
  (forall i, i <> t -> g i = f i) -> n <= t -> sumn n g = sumn n f.
Proof. intros Hne Hle. apply sumn_ext. intros i Hi. apply Hne. lia. Qed.

Fixpoint stk_cnt (i : instr) (l : list frame) : nat :=
  match l with
  | [] => 0
  | FRun _ k :: r => cnti i k + stk_cnt i r
  | _ :: r => stk_cnt i r
  end.

Definition body_cnt (i : instr) (s : st) (c : nat) : nat :=
  if is_xnone (xst (cbs s c)) then cnti i (bodies s c) else 0.

Definition pend (i : instr) (n m : nat) (s : st) : nat :=
  sumn n (fun t => stk_cnt i (thr s t)) + sumn m (fun c => body_cnt i s c).

Definition used_reg (s : st) (c : nat) : nat := match cst (cbs s c) with CNew => 0 | _ => 1 end.
Definition used_dereg (s : st) (c : nat) : nat := match dst (cbs s c) with DNone => 0 | _ => 1 end.

Record InvW (n m : nat) (s : st) : Prop := {
  W_thr : forall t, n <= t -> thr s t = [];
  W_bod : forall c, m <= c -> bodies s c = [];
  W_reg : forall c, pend (IReg c) n m s + used_reg s c <= 1;
  W_dereg : forall c, pend (IDereg c) n m s + used_dereg s c <= 1
}.

Lemma pend_upd i n m s s' t stk :
  t < n -> thr s' = upd (thr s) t stk -> bodies s' = bodies s ->
  (forall c, is_xnone (xst (cbs s' c)) = is_xnone (xst (cbs s c))) ->
  pend i n m s' + stk_cnt i (thr s t) = pend i n m s + stk_cnt i stk.
Proof.
  intros Hlt Et Eb Ex. unfold pend.
  assert (H1 : sumn m (fun c => body_cnt i s' c) = sumn m (fun c => body_cnt i s c)).
  { apply sumn_ext. intros c _. unfold body_cnt. now rewrite Ex, Eb. }
  assert (H2 : sumn n (fun t0 => stk_cnt i (thr s' t0)) + stk_cnt i (thr s t) =
               sumn n (fun t0 => stk_cnt i (thr s t0)) + stk_cnt i stk).
  { rewrite (sumn_upd n (fun t0 => stk_cnt i (thr s t0)) (fun t0 => stk_cnt i (thr s' t0)) t); auto.
    - rewrite Et, upd_eq. reflexivity.
    - intros j Hj. rewrite Et, upd_neq; auto. }
  lia.
Qed.

(* the step starts the body of callback c: its instructions move from the not-yet-run bodies
   onto the stack *)
Lemma pend_upd_x i n m s s' t stk c r' :
  t < n -> thr s' = upd (thr s) t stk -> bodies s' = bodies s -> cbs s' = upd (cbs s) c r' ->
  is_xnone (xst (cbs s c)) = true -> is_xnone (xst r') = false ->
  (forall c, m <= c -> bodies s c = []) ->
  pend i n m s' + stk_cnt i (thr s t) + cnti i (bodies s c) = pend i n m s + stk_cnt i stk.
Proof.
  intros Hlt Et Eb Ec Hx Hx' Hbod. unfold pend.
  assert (H2 : sumn n (fun t0 => stk_cnt i (thr s' t0)) + stk_cnt i (thr s t) =
               sumn n (fun t0 => stk_cnt i (thr s t0)) + stk_cnt i stk).
  { rewrite (sumn_upd n (fun t0 => stk_cnt i (thr s t0)) (fun t0 => stk_cnt i (thr s' t0)) t); auto.
    - rewrite Et, upd_eq. reflexivity.
    - intros j Hj. rewrite Et, upd_neq; auto. }
  assert (H1 : sumn m (fun c0 => body_cnt i s' c0) + cnti i (bodies s c) =
               sumn m (fun c0 => body_cnt i s c0)).
  { destruct (Nat.lt_ge_cases c m) as [Hc|Hc].
    - pose proof (sumn_upd m (fun c0 => body_cnt i s c0) (fun c0 => body_cnt i s' c0) c) as Hu.
      assert (Hs : body_cnt i s c = cnti i (bodies s c)) by (unfold body_cnt; now rewrite Hx).
      assert (Hs' : body_cnt i s' c = 0) by (unfold body_cnt; rewrite Ec, upd_eq, Hx'; reflexivity).
      cbv beta in Hu. rewrite Hs, Hs' in Hu.
      assert (Hne : forall j, j <> c -> body_cnt i s' j = body_cnt i s j).
      { intros j Hj. unfold body_cnt. rewrite Ec, Eb, upd_neq; auto. }
      specialize (Hu Hne Hc). lia.
    - rewrite (Hbod c Hc). cbn. rewrite Nat.add_0_r. apply sumn_same with (t := c); auto.
      intros j Hj. unfold body_cnt. rewrite Ec, Eb, upd_neq; auto. }
  lia.
Qed.

Lemma cnti_cons i j k : cnti i (j :: k) = (if instr_eq_dec j i then 1 else 0) + cnti i k.
Proof. unfold cnti. cbn. destruct (instr_eq_dec j i); reflexivity. Qed.

Lemma thr_lt n m s t : InvW n m s -> thr s t <> [] -> t < n.
Proof.
  intros HW Hne. destruct (Nat.lt_ge_cases t n); auto. exfalso. apply Hne. apply (W_thr _ _ _ HW). auto.
Qed.

Lemma end_not_xnone s t c l : InvB s -> thr s t = FRun (Some c) [] :: l -> is_xnone (xst (cbs s c)) = false.
Proof.
  intros HB E. pose proof (B_fr _ HB c t) as HF. rewrite E in HF. cbn in HF. rewrite Nat.eqb_refl in HF.
  destruct (xst (cbs s c)); cbn in *; auto; lia.
Qed.

(* relate pend before and after the step (hypothesis E) *)
Ltac pend_rel HB Hlt Hbod :=
  let E := fresh "E" in
  match goal with |- context [pend ?i ?n ?m ?s'] =>
    match goal with Et : thr ?s ?t = _ :: _ |- _ =>
      first
      [ (* the step starts a callback body *)
        match goal with
        | |- context [FRun (Some ?c) (bodies s ?c)] =>
            let Hx := fresh "Hx" in
            assert (Hx : is_xnone (xst (cbs s c)) = true);
            [ rewrite (B_x _ HB c);
              first [ match goal with Hc : cst (cbs s c) = _ |- _ => rewrite Hc; reflexivity end
                    | match goal with Hl : lst s = c :: _ |- _ =>
                        replace (cst (cbs s c)) with CLinked;
                        [reflexivity|symmetry; apply (B_in _ HB); rewrite Hl; now left] end ]
            | assert (E := pend_upd_x i n m s s' t _ c _ Hlt eq_refl eq_refl eq_refl Hx eq_refl Hbod) ]
        end
      | assert (E := pend_upd i n m s s' t _ Hlt eq_refl eq_refl);
        let T := type of E in match T with (?P -> _) =>
          let Hp := fresh "Hp" in
          assert (Hp : P);
          [ intros c1; cbn; unfold upd; eqb_cases; cbn; auto;
            first [ match goal with Hx : xst _ = _ |- _ => rewrite Hx; reflexivity end
                  | match goal with Et' : thr _ _ = FRun (Some _) [] :: _ |- _ =>
                      rewrite (end_not_xnone _ _ _ _ HB Et'); reflexivity end ]
          | specialize (E Hp); clear Hp ] end ];
      rewrite Et in E; cbn [stk_cnt] in E; rewrite ?cnti_cons in E
    end
  end.

Lemma InvW_reg n m s t s' ev : InvB s -> InvW n m s -> step t s = Some (s', ev) ->
  forall c0, pend (IReg c0) n m s' + used_reg s' c0 <= 1.
Proof.
  intros HB HW H c0. pose proof (W_reg _ _ _ HW c0) as H0.
  assert (Hlt : t < n).
  { eapply thr_lt; eauto. unfold step in H. destruct (thr s t); discriminate. }
  pose proof (W_bod _ _ _ HW) as Hbod.
  step_inv H.
  all: pend_rel HB Hlt Hbod.
  all: unfold used_reg in *; cbn; unfold upd; eqb_cases; cbn.
  all: try match goal with Hc : cst (cbs _ _) = _ |- _ => rewrite ?Hc in H0 end.
  all: repeat match goal with E : context [instr_eq_dec ?a ?b] |- _ => destruct (instr_eq_dec a b) end.
  all: try lia; try congruence.
  - assert (Hc : cst (cbs s n0) = CLinked) by (apply (B_in _ HB); rewrite Heql0; now left).
    rewrite Hc in H0. lia.
  - assert (Hc : cst (cbs s c) = CReg) by (apply (B_reg _ HB t); rewrite Heql; now left).
    rewrite Hc in H0. lia.
Qed.

Lemma InvW_dereg n m s t s' ev : InvB s -> InvE s -> InvW n m s -> step t s = Some (s', ev) ->
  forall c0, pend (IDereg c0) n m s' + used_dereg s' c0 <= 1.
Proof.
  intros HB HE HW H c0. pose proof (W_dereg _ _ _ HW c0) as H0.
  assert (Hlt : t < n).
  { eapply thr_lt; eauto. unfold step in H. destruct (thr s t); discriminate. }
  pose proof (W_bod _ _ _ HW) as Hbod.
  step_inv H.
  all: pend_rel HB Hlt Hbod.
  all: unfold used_dereg in *; cbn; unfold upd; eqb_cases; cbn.
  all: try match goal with Hc : dst (cbs _ _) = _ |- _ => rewrite ?Hc in H0 end.
  all: repeat match goal with E : context [instr_eq_dec ?a ?b] |- _ => destruct (instr_eq_dec a b) end.
  all: try lia; try congruence.
  all: match goal with Et : thr _ _ = _ :: _ |- _ =>
         destruct (dereg_top_started _ _ c _ _ HE Et) as [Hds _];
         [cbn; now rewrite Nat.eqb_refl|rewrite Hds in H0; lia] end.
Qed.

Lemma InvW_step n m s t s' ev : InvB s -> InvE s -> InvW n m s -> step t s = Some (s', ev) -> InvW n m s'.
Proof.
  intros HB HE HW H. constructor.
  - intros t0 Ht0. pose proof (W_thr _ _ _ HW t0 Ht0) as E0.
    assert (Hlt : t < n).
    { eapply thr_lt; eauto. unfold step in H. destruct (thr s t); discriminate. }
    assert (t0 <> t) by lia.
    step_inv H; cbn; rewrite upd_neq; auto.
  - intros c Hc. pose proof (W_bod _ _ _ HW c Hc). step_inv H; cbn; auto.
  - eapply InvW_reg; eauto.
  - eapply InvW_dereg; eauto.
Qed.

Lemma sumn_zero n f : (forall i, f i = 0) -> sumn n f = 0.
Proof. intros H. induction n; cbn; auto. rewrite IHn, H. reflexivity. Qed.

Lemma cnti_app i a b : cnti i (a ++ b) = cnti i a + cnti i b.
Proof. unfold cnti. apply count_occ_app. Qed.

(* sum of the per-program counts = count in the concatenation *)
Lemma sumn_concat i (ps : list prog) :
  sumn (length ps) (fun t => cnti i (nth t ps [])) = cnti i (concat ps).
Proof.
  induction ps as [|p ps IH] using rev_ind; cbn; auto.
  rewrite app_length, Nat.add_comm. cbn. rewrite concat_app, cnti_app. cbn. rewrite app_nil_r.
  rewrite app_nth2, Nat.sub_diag by lia. cbn.
  rewrite <- IH. f_equal. apply sumn_ext. intros j Hj. now rewrite app_nth1.
Qed.

Lemma InvW_init progs bods : wf progs bods -> InvW (length progs) (length bods) (init progs bods).
Proof.
  intros Hwf.
  assert (Hp : forall i, pend i (length progs) (length bods) (init progs bods) =
                         cnti i (concat progs ++ concat bods)).
  { intros i. unfold pend. rewrite cnti_app, <- !sumn_concat. f_equal.
    - apply sumn_ext. intros t Ht. cbn.
      destruct (nth_error progs t) eqn:En.
      + cbn. rewrite (nth_error_nth _ _ _ En). lia.
      + apply nth_error_None in En. lia. }
  constructor.
  - intros t Ht. cbn. apply nth_error_None in Ht. now rewrite Ht.
  - intros c Hc. cbn. apply nth_overflow. exact Hc.
  - intros c. rewrite Hp. unfold used_reg. cbn. destruct (Hwf c). lia.
  - intros c. rewrite Hp. unfold used_dereg. cbn. destruct (Hwf c). lia.
Qed.

(* for well-formed programs the discipline guards other than "the constructor has returned"
   never block: a registration instruction always finds a fresh id, a destruction instruction is
   never a second destruction *)
Theorem wf_guards progs bods sched : wf progs bods ->
  let s := fst (run step sched (init progs bods, [])) in
  forall t oc k rest c,
    (thr s t = FRun oc (IReg c :: k) :: rest -> cst (cbs s c) = CNew) /\
    (thr s t = FRun oc (IDereg c :: k) :: rest -> dst (cbs s c) = DNone).
Proof.
  intros Hwf s t oc k rest c.
  assert (HW : InvW (length progs) (length bods) s /\ Inv (run step sched (init progs bods, []))).
  { unfold s.
    apply (run_invariant _ _ _ step (fun c => InvW (length progs) (length bods) (fst c) /\ Inv c)).
    - intros cf t0 s' ev [HW HI] H. split; [|eapply Inv_step; eauto].
      cbn. eapply InvW_step; eauto; apply HI.
    - split; [apply InvW_init; auto|apply Inv_init]. }
  destruct HW as [HW HI].
  assert (Hge : forall i, thr s t = FRun oc (i :: k) :: rest -> 1 <= pend i (length progs) (length bods) s).
  { intros i Et. assert (Hlt : t < length progs) by (eapply thr_lt; eauto; rewrite Et; discriminate).
    unfold pend.
    pose proof (sumn_upd (length progs) (fun t0 => stk_cnt i (thr s t0))
                  (fun t0 => if Nat.eqb t0 t then 0 else stk_cnt i (thr s t0)) t) as Hu.
    cbv beta in Hu. rewrite Nat.eqb_refl in Hu.
    assert (Hne : forall j, j <> t -> (if Nat.eqb j t then 0 else stk_cnt i (thr s j)) = stk_cnt i (thr s j)).
    { intros j Hj. apply Nat.eqb_neq in Hj. now rewrite Hj. }
    specialize (Hu Hne Hlt). rewrite Et in Hu. cbn [stk_cnt] in Hu. rewrite cnti_cons in Hu.
    destruct (instr_eq_dec i i); [|congruence]. lia. }
  split; intros Et.
  - pose proof (W_reg _ _ _ HW c) as H1. specialize (Hge _ Et). unfold used_reg in H1.
    destruct (cst (cbs s c)); auto; lia.
  - pose proof (W_dereg _ _ _ HW c) as H1. specialize (Hge _ Et). unfold used_dereg in H1.
    destruct (dst (cbs s c)); auto; lia.
Qed.

(* a decidable check of well-formedness *)
Definition reg_ids (k : prog) : list nat := flat_map (fun i => match i with IReg c => [c] | _ => [] end) k.
Definition dereg_ids (k : prog) : list nat := flat_map (fun i => match i with IDereg c => [c] | _ => [] end) k.
Fixpoint nodupb (l : list nat) : bool :=
  match l with [] => true | x :: r => negb (existsb (Nat.eqb x) r) && nodupb r end.
Definition wfb (progs bods : list prog) : bool :=
  nodupb (reg_ids (concat progs ++ concat bods)) && nodupb (dereg_ids (concat progs ++ concat bods)).

Lemma nodupb_count l c : nodupb l = true -> count_occ Nat.eq_dec l c <= 1.
Proof.
  induction l as [|x r IH]; cbn; auto. intros H. apply andb_true_iff in H. destruct H as [Hx Hr].
  specialize (IH Hr). destruct (Nat.eq_dec x c) as [->|Hne]; auto.
  assert (Hz : count_occ Nat.eq_dec r c = 0).
  { apply count_occ_not_In. intros Hin. apply negb_true_iff in Hx.
    assert (existsb (Nat.eqb c) r = true) by (apply existsb_exists; exists c; split; auto; apply Nat.eqb_refl).
    congruence. }
  lia.
Qed.

Lemma cnti_reg_ids c k : cnti (IReg c) k = count_occ Nat.eq_dec (reg_ids k) c.
Proof.
  induction k as [|i k IH]; [reflexivity|]. rewrite cnti_cons, IH.
  change (reg_ids (i :: k)) with ((match i with IReg c => [c] | _ => [] end) ++ reg_ids k).
  destruct i; cbn [app count_occ]; try (destruct (instr_eq_dec _ _); [discriminate|reflexivity]).
  destruct (instr_eq_dec (IReg c0) (IReg c)) as [E|E]; destruct (Nat.eq_dec c0 c); try congruence; lia.
Qed.

Lemma cnti_dereg_ids c k : cnti (IDereg c) k = count_occ Nat.eq_dec (dereg_ids k) c.
Proof.
  induction k as [|i k IH]; [reflexivity|]. rewrite cnti_cons, IH.
  change (dereg_ids (i :: k)) with ((match i with IDereg c => [c] | _ => [] end) ++ dereg_ids k).
  destruct i; cbn [app count_occ]; try (destruct (instr_eq_dec _ _); [discriminate|reflexivity]).
  destruct (instr_eq_dec (IDereg c0) (IDereg c)) as [E|E]; destruct (Nat.eq_dec c0 c); try congruence; lia.
Qed.

Lemma wfb_wf progs bods : wfb progs bods = true -> wf progs bods.
Proof.
  unfold wfb. intros H. apply andb_true_iff in H. destruct H as [H1 H2]. intros c. split.
  - rewrite cnti_reg_ids. now apply nodupb_count.
  - rewrite cnti_dereg_ids. now apply nodupb_count.
Qed.

(* a callback that runs inline inside its own registration (stop was already requested) may
   destroy its registration from inside that execution, on whatever thread this happens: the
   destructor returns at once, without touching the source (no lock, no wait) *)
Theorem inline_self_dereg_nonblocking progs bods sched :
  let s := fst (run step sched (init progs bods, [])) in
  forall t c k oc k' rest,
    In (FRun (Some c) k) (thr s t) -> cst (cbs s c) = CInl -> dst (cbs s c) = DNone ->
    thr s t = FRun oc (IDereg c :: k') :: rest ->
    exists s', step t s = Some (s', [(t, EDeregBegin c); (t, EDeregRet c)]) /\
               thr s' t = FRun oc k' :: rest /\ locked s' = locked s /\ lst s' = lst s.
Proof.
  intros s t c k oc k' rest Hin Hc Hd Et.
  destruct (Inv_run progs bods sched) as [HA HB HC HD HE HCT HT]. fold s in HB.
  pose proof (B_fr _ HB c t) as HF. pose proof (in_run_nfr _ _ _ Hin) as Hn.
  assert (Hx : inl_ready t (xst (cbs s c)) = true).
  { destruct (xst (cbs s c)) as [|t'|]; cbn in *; try lia. destruct (Nat.eqb t' t); auto; lia. }
  unfold step. rewrite Et. cbv zeta. rewrite Hd, Hc, Hx.
  eexists. split; [reflexivity|]. cbn. rewrite upd_eq. auto.
Qed.
