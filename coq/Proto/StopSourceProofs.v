(* Proofs about the E1 model StopSource (Proto/StopSourceDefs.v).  Everything is proved for
   arbitrary thread programs, arbitrary callback bodies and arbitrary schedules.
   Layers of invariants, each preserved by every step given the previous layers:
     A  the lock word (one holder, holder on top of its stack, saved stop bit is current)
     B  the list, registration/execution ghost state, one body frame per running callback
     C  the stop bit, the notifier, the request_stop frames, counts of request_stop events
     D  execution events, the notifier's post-callback frame
     E  destruction
     F  stack shapes for deadlock freedom *)
From Coq Require Import List Bool Arith Lia.
From V Require Import Base.Sched Proto.StopSourceDefs.
Import ListNotations.
Import StopSource.

(* ------------------------------------------------------------------------------------------ *)
(* basics                                                                                     *)

Lemma upd_eq {A} (f : nat -> A) i x : upd f i x i = x.
Proof. unfold upd. now rewrite Nat.eqb_refl. Qed.

Lemma upd_neq {A} (f : nat -> A) i j x : j <> i -> upd f i x j = f j.
Proof. unfold upd. intros H. apply Nat.eqb_neq in H. now rewrite H. Qed.

(* case analysis of one step: every match / if of [step] is destructed *)
Ltac step_inv H :=
  unfold step in H; cbv zeta in H;
  repeat match type of H with
         | context [match ?x with _ => _ end] => destruct x eqn:?
         end;
  try discriminate H; inversion H; subst; clear H.

Ltac eqb_cases :=
  repeat match goal with
         | |- context [Nat.eqb ?a ?b] => destruct (Nat.eqb_spec a b); subst
         | H : context [Nat.eqb ?a ?b] |- _ => destruct (Nat.eqb_spec a b); subst
         end.

(* ------------------------------------------------------------------------------------------ *)
(* Layer A: the lock                                                                          *)

Definition holdsb (f : frame) : bool :=
  match f with FReqLoop | FRegCS _ | FDeregCS _ _ => true | _ => false end.

Definition holder (s : st) (t : nat) : bool :=
  match thr s t with f :: _ => holdsb f | [] => false end.

Definition allnh (l : list frame) : bool := forallb (fun f => negb (holdsb f)) l.
Definition tailfree (l : list frame) : bool :=
  match l with [] => true | _ :: r => allnh r end.

Record InvA (s : st) : Prop := {
  A_tail : forall t, tailfree (thr s t) = true;
  A_locked : forall t, holder s t = true -> locked s = true;
  A_uniq : forall t1 t2, holder s t1 = true -> holder s t2 = true -> t1 = t2;
  A_some : locked s = true -> exists t, holder s t = true;
  A_reg : forall t c r, thr s t = FRegCS c :: r -> stop s = false;
  A_old : forall t c old r, thr s t = FDeregCS c old :: r -> old = stop s
}.

Lemma allnh_tailfree l : allnh l = true -> tailfree l = true.
Proof. destruct l; cbn; auto. intros H. apply andb_true_iff in H. tauto. Qed.

Lemma allnh_head l : allnh l = true -> match l with [] => false | f :: _ => holdsb f end = false.
Proof. destruct l as [|f r]; cbn; auto. destruct (holdsb f); cbn; intros; congruence. Qed.

Lemma holder_upd_other s s' t stk t0 :
  thr s' = upd (thr s) t stk -> t0 <> t -> holder s' t0 = holder s t0.
Proof. intros E Hne. unfold holder. rewrite E, upd_neq; auto. Qed.

Lemma holder_upd_same s s' t stk :
  thr s' = upd (thr s) t stk -> holder s' t = match stk with f :: _ => holdsb f | [] => false end.
Proof. intros E. unfold holder. rewrite E, upd_eq; auto. Qed.

(* a step that neither takes nor releases the lock *)
Lemma A_neutral s s' t f rest stk :
  InvA s -> thr s t = f :: rest -> thr s' = upd (thr s) t stk -> holdsb f = false -> allnh stk = true ->
  locked s' = locked s -> stop s' = stop s -> InvA s'.
Proof.
  intros [HT HL HU HS HR HO] Et E Hf Hstk El Es.
  assert (Hh : holder s t = false) by (unfold holder; now rewrite Et).
  assert (Hh' : holder s' t = false) by (rewrite (holder_upd_same _ _ _ _ E); now apply allnh_head).
  assert (Hoth : forall t0, holder s' t0 = true -> holder s t0 = true /\ t0 <> t).
  { intros t0 H0. destruct (Nat.eq_dec t0 t) as [->|Hne]; [congruence|].
    rewrite (holder_upd_other _ _ _ _ _ E Hne) in H0. auto. }
  constructor.
  - intros t0. rewrite E. unfold upd. destruct (Nat.eqb_spec t0 t); [now apply allnh_tailfree|apply HT].
  - intros t0 H0. rewrite El. apply Hoth in H0. apply (HL t0); tauto.
  - intros t1 t2 H1 H2. apply Hoth in H1, H2. apply HU; tauto.
  - rewrite El. intros Hl. destruct (HS Hl) as [t0 H0]. exists t0.
    destruct (Nat.eq_dec t0 t) as [->|Hne]; [congruence|].
    now rewrite (holder_upd_other _ _ _ _ _ E Hne).
  - intros t0 c r. rewrite E, Es. unfold upd. destruct (Nat.eqb_spec t0 t); [|apply HR].
    intros ->. cbn in Hstk. discriminate.
  - intros t0 c old r. rewrite E, Es. unfold upd. destruct (Nat.eqb_spec t0 t); [|apply HO].
    intros ->. cbn in Hstk. discriminate.
Qed.

(* a step that acquires the lock *)
Lemma A_acq s s' t f rest h tl :
  InvA s -> thr s t = f :: rest -> thr s' = upd (thr s) t (h :: tl) -> locked s = false -> locked s' = true ->
  holdsb h = true -> allnh tl = true ->
  (forall c, h = FRegCS c -> stop s' = false) ->
  (forall c old, h = FDeregCS c old -> old = stop s') -> InvA s'.
Proof.
  intros [HT HL HU HS HR HO] Et E Hl Hl' Hh Htl Hreg Hold.
  assert (Hno : forall t0, holder s t0 = false).
  { intros t0. destruct (holder s t0) eqn:H0; auto. apply HL in H0. congruence. }
  assert (Hoth : forall t0, holder s' t0 = true -> t0 = t).
  { intros t0 H0. destruct (Nat.eq_dec t0 t) as [->|Hne]; auto.
    rewrite (holder_upd_other _ _ _ _ _ E Hne), Hno in H0. discriminate. }
  constructor.
  - intros t0. rewrite E. unfold upd. destruct (Nat.eqb_spec t0 t); [exact Htl|apply HT].
  - auto.
  - intros t1 t2 H1 H2. apply Hoth in H1, H2. congruence.
  - intros _. exists t. rewrite (holder_upd_same _ _ _ _ E). exact Hh.
  - intros t0 c r. rewrite E. unfold upd. destruct (Nat.eqb_spec t0 t).
    + intros [= -> ->]. eapply Hreg; eauto.
    + intros Er. specialize (Hno t0). unfold holder in Hno. rewrite Er in Hno. discriminate.
  - intros t0 c old r. rewrite E. unfold upd. destruct (Nat.eqb_spec t0 t).
    + intros [= -> ->]. eapply Hold; eauto.
    + intros Er. specialize (Hno t0). unfold holder in Hno. rewrite Er in Hno. discriminate.
Qed.

(* a step that releases the lock *)
Lemma A_rel s s' t f rest stk :
  InvA s -> thr s t = f :: rest -> thr s' = upd (thr s) t stk -> holdsb f = true -> locked s' = false ->
  allnh stk = true -> InvA s'.
Proof.
  intros [HT HL HU HS HR HO] Et E Hf Hl' Hstk.
  assert (Hh : holder s t = true) by (unfold holder; now rewrite Et).
  assert (Hno : forall t0, holder s' t0 = false).
  { intros t0. destruct (Nat.eq_dec t0 t) as [->|Hne].
    - rewrite (holder_upd_same _ _ _ _ E). now apply allnh_head.
    - rewrite (holder_upd_other _ _ _ _ _ E Hne). destruct (holder s t0) eqn:H0; auto.
      exfalso. apply Hne. apply HU; auto. }
  constructor.
  - intros t0. rewrite E. unfold upd. destruct (Nat.eqb_spec t0 t); [now apply allnh_tailfree|apply HT].
  - intros t0 H0. rewrite Hno in H0. discriminate.
  - intros t1 t2 H1. rewrite Hno in H1. discriminate.
  - congruence.
  - intros t0 c r Er. specialize (Hno t0). unfold holder in Hno. rewrite Er in Hno. discriminate.
  - intros t0 c old r Er. specialize (Hno t0). unfold holder in Hno. rewrite Er in Hno. discriminate.
Qed.

Ltac solve_allnh := unfold allnh in *; cbn in *; first [assumption | reflexivity].

Lemma InvA_step s t s' ev : InvA s -> step t s = Some (s', ev) -> InvA s'.
Proof.
  intros HA H.
  pose proof (A_tail _ HA t) as HTt. pose proof (A_old _ HA t) as HOt.
  step_inv H.
  all: cbn in HTt.
  all: first
    [ solve [eapply A_neutral; [exact HA|eassumption|reflexivity|reflexivity|solve_allnh|reflexivity|reflexivity]]
    | solve [eapply A_acq; [exact HA|eassumption|reflexivity|assumption|reflexivity|reflexivity|solve_allnh|cbn; intros; congruence|cbn; intros; congruence]]
    | solve [eapply A_rel; [exact HA|eassumption|reflexivity|reflexivity|reflexivity|solve_allnh]]
    | idtac ].
Qed.

Lemma InvA_init progs bods : InvA (init progs bods).
Proof.
  assert (Hh : forall t, holder (init progs bods) t = false).
  { intros t. unfold holder, init; cbn. destruct (nth_error progs t); reflexivity. }
  constructor; cbn.
  - intros t. destruct (nth_error progs t); reflexivity.
  - intros t H. now rewrite Hh in H.
  - intros t1 t2 H. now rewrite Hh in H.
  - discriminate.
  - intros t c r. destruct (nth_error progs t); discriminate.
  - intros t c old r. destruct (nth_error progs t); discriminate.
Qed.

Lemma stop_step s t s' ev : InvA s -> step t s = Some (s', ev) -> stop s = true -> stop s' = true.
Proof.
  intros HA H Hs.
  pose proof (A_reg _ HA t) as HRt. pose proof (A_old _ HA t) as HOt.
  step_inv H; cbn; auto.
  all: try (rewrite (HRt _ _ eq_refl) in Hs; discriminate).
  all: try (rewrite (HOt _ _ _ eq_refl); exact Hs).
Qed.

(* ------------------------------------------------------------------------------------------ *)
(* Layer B: list, registration / execution ghost state, body frames                           *)

Fixpoint nfr (c : nat) (l : list frame) : nat :=
  match l with
  | [] => 0
  | FRun (Some c') _ :: r => (if Nat.eqb c' c then 1 else 0) + nfr c r
  | _ :: r => nfr c r
  end.

Definition isrun (x : xstate) (t : nat) : bool :=
  match x with XRun t' => Nat.eqb t' t | _ => false end.
Definition is_xnone (x : xstate) : bool := match x with XNone => true | _ => false end.
Definition xnone_cst (cs : cstate) : bool :=
  match cs with CNew | CReg | CLinked | CUnlinked => true | _ => false end.

Record InvB (s : st) : Prop := {
  B_nodup : NoDup (lst s);
  B_in : forall c, In c (lst s) <-> cst (cbs s c) = CLinked;
  B_reg : forall t c, In (FRegCS c) (thr s t) -> cst (cbs s c) = CReg;
  B_x : forall c, is_xnone (xst (cbs s c)) = xnone_cst (cst (cbs s c));
  B_fr : forall c t, nfr c (thr s t) = if isrun (xst (cbs s c)) t then 1 else 0
}.

Lemma NoDup_remove_nat c l : NoDup l -> NoDup (remove Nat.eq_dec c l).
Proof.
  induction 1 as [|x l Hx Hn IH]; cbn; [constructor|].
  destruct (Nat.eq_dec c x); auto. constructor; auto.
  intros Hin. apply in_remove in Hin. tauto.
Qed.

Lemma InvB_list s t s' ev : InvA s -> InvB s -> step t s = Some (s', ev) ->
  NoDup (lst s') /\ (forall c, In c (lst s') <-> cst (cbs s' c) = CLinked).
Proof.
  intros HA HB H.
  pose proof (B_nodup _ HB) as HN. pose proof (B_in _ HB) as HI.
  step_inv H; cbn.
  all: try (split; [assumption|]; intros c'; unfold upd; eqb_cases; cbn;
            rewrite ?HI; intuition congruence).
  - rewrite Heql0. split; auto.
  - inversion HN as [|x l' Hx Hl']; subst. split; auto.
    intros c'. unfold upd. destruct (Nat.eqb_spec c' n); subst; cbn.
    + split; [tauto|discriminate].
    + rewrite <- HI. cbn. intuition congruence.
  - assert (Hc : cst (cbs s c) = CReg) by (apply (B_reg _ HB t); rewrite Heql; now left).
    split.
    + constructor; auto. rewrite HI, Hc. discriminate.
    + intros c'. unfold upd. destruct (Nat.eqb_spec c' c); subst; cbn.
      * tauto.
      * rewrite HI. intuition congruence.
  - split; [now apply NoDup_remove_nat|].
    intros c'. unfold upd. destruct (Nat.eqb_spec c' c); subst; cbn.
    + split; [|discriminate]. intros Hin. apply in_remove in Hin. tauto.
    + rewrite <- HI. split.
      * intros Hin. apply in_remove in Hin. tauto.
      * intros Hin. apply in_in_remove; auto.
Qed.


Lemma allnh_notin l f : allnh l = true -> In f l -> holdsb f = false.
Proof.
  unfold allnh. rewrite forallb_forall. intros H Hin. apply H in Hin.
  now destruct (holdsb f).
Qed.

Lemma holding_in_holder s t f : InvA s -> In f (thr s t) -> holdsb f = true -> holder s t = true.
Proof.
  intros HA Hin Hf. pose proof (A_tail _ HA t) as HT. unfold holder.
  destruct (thr s t) as [|g r]; [destruct Hin|]. cbn in HT.
  destruct Hin as [->|Hin]; auto. rewrite (allnh_notin _ _ HT Hin) in Hf. discriminate.
Qed.

Lemma InvB_reg s t s' ev : InvA s -> InvB s -> step t s = Some (s', ev) ->
  forall t0 c0, In (FRegCS c0) (thr s' t0) -> cst (cbs s' c0) = CReg.
Proof.
  intros HA HB H t0 c0.
  assert (Hold : forall t1, In (FRegCS c0) (thr s t1) -> cst (cbs s c0) = CReg)
    by (intros; eapply B_reg; eauto).
  pose proof (Hold t) as Holdt.
  pose proof (A_tail _ HA t) as HTt.
  step_inv H; cbn; unfold upd; eqb_cases; cbn; intros Hin.
  all: repeat match goal with Hx : _ \/ _ |- _ => destruct Hx as [Hx|Hx]; try discriminate Hx end.
  all: try (now apply (Hold t0)).
  all: try (apply Holdt; cbn; tauto).
  all: try reflexivity.
  all: try (match goal with
            | Hi : In (FRegCS ?x) _, Hd : forall t1, In _ (thr ?ss t1) -> _ |- _ =>
                assert (Hc : cst (cbs ss x) = CReg)
                  by (first [apply Holdt; cbn; tauto | eapply Hd; eassumption])
            end; congruence).
  - injection Hin as ->. congruence.
  - assert (cst (cbs s n) = CLinked) by (apply (B_in _ HB); rewrite Heql0; now left).
    assert (cst (cbs s n) = CReg) by (apply Holdt; now right). congruence.
  - assert (cst (cbs s n) = CLinked) by (apply (B_in _ HB); rewrite Heql0; now left).
    assert (cst (cbs s n) = CReg) by (eapply Hold; eauto). congruence.
  - cbn in HTt. pose proof (allnh_notin _ _ HTt Hin). discriminate.
  - exfalso. assert (H1 : holder s t0 = true) by (eapply holding_in_holder; eauto).
    assert (H2 : holder s t = true) by (unfold holder; now rewrite Heql).
    pose proof (A_uniq _ HA _ _ H1 H2). congruence.
Qed.

Lemma InvB_x s t s' ev : InvA s -> InvB s -> step t s = Some (s', ev) ->
  forall c0, is_xnone (xst (cbs s' c0)) = xnone_cst (cst (cbs s' c0)).
Proof.
  intros HA HB H c0.
  pose proof (B_x _ HB c0) as HX.
  pose proof (B_fr _ HB c0 t) as HF.
  pose proof (B_reg _ HB t c0) as HR.
  step_inv H; cbn; unfold upd; eqb_cases; cbn; auto.
  all: try congruence.
  all: try (rewrite HX; match goal with E : cst _ = _ |- _ => rewrite E end; reflexivity).
  - cbn in HF. rewrite Nat.eqb_refl in HF. rewrite <- HX.
    destruct (xst (cbs s n)); cbn in *; auto; lia.
  - rewrite HX, HR; [reflexivity|now left].
Qed.

Lemma InvB_fr s t s' ev : InvA s -> InvB s -> step t s = Some (s', ev) ->
  forall c0 t0, nfr c0 (thr s' t0) = if isrun (xst (cbs s' c0)) t0 then 1 else 0.
Proof.
  intros HA HB H c0 t0.
  pose proof (B_fr _ HB c0 t0) as HF0.
  pose proof (B_fr _ HB c0 t) as HFt.
  pose proof (B_x _ HB c0) as HX.
  step_inv H; cbn; unfold upd; eqb_cases; cbn in *; auto.
  all: try lia.
  all: rewrite ?Nat.eqb_refl in *.
  all: try match goal with E : cst _ = _ |- _ => rewrite E in HX end.
  all: try (destruct (xst (cbs s _)) eqn:EX; cbn in *; eqb_cases; try lia; try congruence; fail).
  all: assert (Hc : cst (cbs s n) = CLinked) by (apply (B_in _ HB); rewrite Heql0; now left).
  all: rewrite Hc in HX.
  all: destruct (xst (cbs s n)) eqn:EX; cbn in *; eqb_cases; try lia; try congruence.
Qed.

Lemma InvB_step s t s' ev : InvA s -> InvB s -> step t s = Some (s', ev) -> InvB s'.
Proof.
  intros HA HB H. destruct (InvB_list _ _ _ _ HA HB H).
  constructor; auto.
  - eapply InvB_reg; eauto.
  - eapply InvB_x; eauto.
  - eapply InvB_fr; eauto.
Qed.

Lemma InvB_init progs bods : InvB (init progs bods).
Proof.
  constructor; cbn.
  - constructor.
  - intros c. split; [tauto|discriminate].
  - intros t c. destruct (nth_error progs t); cbn; [|tauto]. intros [H|[]]. discriminate.
  - reflexivity.
  - intros c t. destruct (nth_error progs t); reflexivity.
Qed.


(* ------------------------------------------------------------------------------------------ *)
(* Layer C: stop bit, notifier, request_stop frames                                           *)

Fixpoint nreqf (l : list frame) : nat :=
  match l with
  | [] => 0
  | (FReqLoop | FReqPost _ | FReqLock) :: r => 1 + nreqf r
  | _ :: r => nreqf r
  end.

Record InvC (s : st) : Prop := {
  C_stop : stop s = false <-> notifier s = None;
  C_req : forall t, notifier s <> Some t -> nreqf (thr s t) = 0;
  C_pop : stop s = false -> forall c, cst (cbs s c) <> CPopped /\ cst (cbs s c) <> CInl
}.

Ltac rw_word := repeat match goal with
  | E : stop _ = _ |- _ => rewrite E
  | E : locked _ = _ |- _ => rewrite E
  end.

Lemma InvC_step s t s' ev : InvA s -> InvB s -> InvC s -> step t s = Some (s', ev) -> InvC s'.
Proof.
  intros HA HB [HS HR HP] H.
  pose proof (A_reg _ HA t) as HRt. pose proof (A_old _ HA t) as HOt.
  pose proof (HR t) as HRqt.
  assert (HN : notifier s = None -> forall t0, nreqf (thr s t0) = 0)
    by (intros E t0; apply HR; rewrite E; discriminate).
  pose proof (HN) as HNt. specialize (fun E => HNt E t).
  step_inv H; (constructor; cbn; [ | intros t0 | intros Hst c0 ]).
  all: rw_word.
  all: try assumption.
  all: try (rewrite (HOt _ _ _ eq_refl); assumption).
  all: try (split; intros; discriminate).
  (* C_req *)
  all: try (unfold upd; eqb_cases; cbn in *; intros Hn; first [ apply HR; assumption | specialize (HRqt Hn); lia | congruence ]).
  (* C_pop *)
  all: try discriminate.
  all: try congruence.
  all: try (rewrite (HOt _ _ _ eq_refl) in Hst).
  all: try (pose proof (HP Hst) as HPs; pose proof (HPs c0) as HP0; unfold upd; eqb_cases; cbn; auto;
            split; try discriminate;
            match goal with E : cst (cbs _ ?x) = _ |- _ => destruct (HPs x); congruence end).
  - intros Hn. unfold upd. eqb_cases; [congruence|]. apply HN. now apply HS.
  - split; [discriminate|]. intros E. rewrite E in HRqt. cbn in HRqt.
    assert (None <> Some t) by discriminate. specialize (HRqt H). discriminate.
  - split; [discriminate|]. intros E. rewrite E in HRqt. cbn in HRqt.
    assert (None <> Some t) by discriminate. specialize (HRqt H). discriminate.
  - rewrite <- HS. split; auto. intros _. eapply HRt; eauto.
  - assert (Hs0 : stop s = false) by (eapply HRt; eauto).
    pose proof (HP Hs0) as HPs. unfold upd. eqb_cases; cbn; auto. split; discriminate.
Qed.

Lemma InvC_init progs bods : InvC (init progs bods).
Proof.
  constructor; cbn.
  - tauto.
  - intros t _. destruct (nth_error progs t); reflexivity.
  - intros _ c. split; discriminate.
Qed.

(* trace counts *)
Definition cnt (p : ev -> bool) (tr : list ev) : nat := length (filter p tr).

Lemma cnt_app p a b : cnt p (a ++ b) = cnt p a + cnt p b.
Proof. unfold cnt. now rewrite filter_app, app_length. Qed.

Lemma cnt_zero_notin p tr e : cnt p tr = 0 -> p e = true -> ~ In e tr.
Proof.
  unfold cnt. intros H Hp Hin.
  assert (Hf : In e (filter p tr)) by (apply filter_In; auto).
  destruct (filter p tr); [destruct Hf|discriminate].
Qed.

Definition is_rsfalse (e : ev) : bool := match snd e with ERsRet false => true | _ => false end.
Definition is_acq03 (e : ev) : bool := match snd e with EAcq true 0 3 => true | _ => false end.

Record InvCT (s : st) (tr : list ev) : Prop := {
  CT_none : notifier s = None -> cnt is_rsfalse tr = 0 /\ cnt is_acq03 tr = 0;
  CT_some : forall w, notifier s = Some w ->
            cnt is_rsfalse tr + nreqf (thr s w) = 1 /\ cnt is_acq03 tr = 1;
  CT_who : forall t, In (t, ERsRet false) tr \/ In (t, EAcq true 0 3) tr -> notifier s = Some t;
  CT_rs : forall t b, In (t, ERsRet b) tr -> stop s = true
}.

Lemma CT_rs_step s tr t s' ev : InvA s ->
  (forall t b, In (t, ERsRet b) tr -> stop s = true) ->
  step t s = Some (s', ev) -> forall t0 b0, In (t0, ERsRet b0) (tr ++ ev) -> stop s' = true.
Proof.
  intros HA HRS H t0 b0 Hin. apply in_app_iff in Hin. destruct Hin as [Hin|Hin].
  - eapply stop_step; eauto.
  - step_inv H; cbn in *; intuition (try discriminate; try congruence).
Qed.

Lemma InvCT_step s tr t s' ev : InvA s -> InvB s -> InvC s -> InvCT s tr ->
  step t s = Some (s', ev) -> InvCT s' (tr ++ ev).
Proof.
  intros HA HB HC [HN HS HW HRS] H.
  pose proof (C_req _ HC t) as HRqt.
  pose proof (C_stop _ HC) as HSt.
  assert (HRS' := CT_rs_step _ _ _ _ _ HA HRS H).
  step_inv H; (constructor; cbn; [ intros En | intros w Ew | intros t0 Hin | exact HRS' ]).
  all: clear HRS'.
  all: rewrite ?cnt_app; cbn; rewrite ?Nat.add_0_r.
  all: try (rewrite !in_app_iff in Hin; cbn in Hin).
  all: try (apply HN; assumption).
  all: try (pose proof (HS _ Ew) as [H1 H2]; split; [|lia]; unfold upd; eqb_cases;
            match goal with E: thr _ _ = _ |- _ => rewrite ?E in H1 end; cbn in *; lia).
  all: try (apply HW; intuition (try discriminate; try congruence); fail).
  - discriminate.
  - injection Ew as <-. assert (En : notifier s = None) by now apply HSt.
    destruct (HN En) as [H1 H2]. rewrite H1, H2, upd_eq. cbn.
    assert (Hz : nreqf (FRun oc (IReqStop :: p) :: l) = 0) by (apply HRqt; rewrite En; discriminate).
    cbn in Hz. lia.
  - assert (En : notifier s = None) by now apply HSt.
    destruct (HN En) as [H1 H2].
    destruct Hin as [[Hin|[Hin|[]]]|[Hin|[Hin|[]]]]; try discriminate.
    + exfalso. eapply cnt_zero_notin; [exact H1| |exact Hin]. reflexivity.
    + exfalso. eapply cnt_zero_notin; [exact H2| |exact Hin]. reflexivity.
    + congruence.
  - exfalso. rewrite En in HRqt. cbn in HRqt. assert (None <> Some t) by discriminate.
    specialize (HRqt H). discriminate.
  - assert (w = t).
    { destruct (Nat.eq_dec w t); auto. exfalso.
      assert (Hn : notifier s <> Some t) by congruence. specialize (HRqt Hn). discriminate. }
    subst w. destruct (HS _ Ew) as [H1 H2]. rewrite Heql in H1. cbn in H1.
    rewrite upd_eq. lia.
  - destruct Hin as [[Hin|[Hin|[Hin|[]]]]|[Hin|[Hin|[Hin|[]]]]]; try discriminate;
      try (apply HW; tauto).
    injection Hin as <-.
    destruct (notifier s) as [w|] eqn:En.
    + destruct (Nat.eq_dec w t); [congruence|]. exfalso.
      assert (Hn : Some w <> Some t) by congruence. specialize (HRqt Hn). discriminate.
    + exfalso. assert (Hn : @None nat <> Some t) by discriminate. specialize (HRqt Hn). discriminate.
Qed.

Lemma InvCT_init progs bods : InvCT (init progs bods) [].
Proof.
  constructor; cbn; auto.
  - discriminate.
  - intros t [[]|[]].
Qed.

(* ------------------------------------------------------------------------------------------ *)
(* Layer D: who executes, the notifier's post-callback frame, callbackCompleted_              *)

Fixpoint npost (c : nat) (l : list frame) : nat :=
  match l with
  | [] => 0
  | FReqPost c' :: r => (if Nat.eqb c' c then 1 else 0) + npost c r
  | _ :: r => npost c r
  end.

(* below a post-callback frame of c there is no body frame and no other post frame of c *)
Fixpoint okst (l : list frame) : Prop :=
  match l with
  | [] => True
  | FReqPost c :: r => nfr c r = 0 /\ npost c r = 0 /\ okst r
  | _ :: r => okst r
  end.

Record InvD (s : st) : Prop := {
  D_not : forall c t', cst (cbs s c) = CPopped -> xst (cbs s c) = XRun t' -> notifier s = Some t';
  D_post : forall t c, In (FReqPost c) (thr s t) ->
           cst (cbs s c) = CPopped /\ completed (cbs s c) = false /\ rdc (cbs s c) = true;
  D_ok : forall t, okst (thr s t);
  D_comp : forall c, completed (cbs s c) = true -> xst (cbs s c) = XEnded /\ cst (cbs s c) = CPopped
}.

Lemma nreqf_in_post l c : In (FReqPost c) l -> nreqf l <> 0.
Proof.
  induction l as [|f r IH]; cbn; [tauto|]. intros [->|Hin]; [discriminate|].
  destruct f; auto.
Qed.

Lemma npost_zero_notin c l : npost c l = 0 -> ~ In (FReqPost c) l.
Proof.
  induction l as [|f r IH]; cbn; [tauto|]. intros Hz [->|Hin].
  - rewrite Nat.eqb_refl in Hz. discriminate.
  - destruct f; try (now apply IH). apply IH; auto.
    match type of Hz with context [Nat.eqb ?a ?b] => destruct (Nat.eqb a b) end; cbn in Hz; lia.
Qed.

Lemma notin_npost_zero c l : ~ In (FReqPost c) l -> npost c l = 0.
Proof.
  induction l as [|f r IH]; cbn; auto. intros Hn.
  assert (Hr : npost c r = 0) by tauto.
  destruct f; auto. destruct (Nat.eqb_spec c0 c); [subst; tauto|auto].
Qed.

Lemma post_notifier s t c : InvC s -> In (FReqPost c) (thr s t) -> notifier s = Some t.
Proof.
  intros HC Hin. destruct (notifier s) as [w|] eqn:En.
  - destruct (Nat.eq_dec w t); [congruence|]. exfalso.
    apply (nreqf_in_post _ _ Hin). apply (C_req _ HC). congruence.
  - exfalso. apply (nreqf_in_post _ _ Hin). apply (C_req _ HC). congruence.
Qed.

Lemma top_req_notifier s t f l : InvC s -> thr s t = f :: l -> nreqf [f] = 1 -> notifier s = Some t.
Proof.
  intros HC E Hf. destruct (notifier s) as [w|] eqn:En.
  - destruct (Nat.eq_dec w t); [congruence|]. exfalso.
    assert (Hz : nreqf (thr s t) = 0) by (apply (C_req _ HC); congruence).
    rewrite E in Hz. destruct f; cbn in *; discriminate.
  - exfalso. assert (Hz : nreqf (thr s t) = 0) by (apply (C_req _ HC); congruence).
    rewrite E in Hz. destruct f; cbn in *; discriminate.
Qed.

Lemma InvD_not s t s' ev : InvA s -> InvB s -> InvC s -> InvD s -> step t s = Some (s', ev) ->
  forall c0 t', cst (cbs s' c0) = CPopped -> xst (cbs s' c0) = XRun t' -> notifier s' = Some t'.
Proof.
  intros HA HB HC HD H c0 t'.
  pose proof (D_not _ HD c0 t') as HN.
  step_inv H; cbn; unfold upd; eqb_cases; cbn; auto.
  all: try congruence.
  - intros Hc _. exfalso. destruct (C_pop _ HC Heqb c0). congruence.
  - intros _ [= <-]. eapply top_req_notifier; eauto.
Qed.

Lemma okst_app_nopost l r : okst r -> (forall c, ~ In (FReqPost c) l) -> okst (l ++ r).
Proof.
  intros Hr. induction l as [|f l IH]; cbn; auto. intros Hn.
  assert (Hl : okst (l ++ r)) by (apply IH; intros c Hc; apply (Hn c); now right).
  destruct f; auto. exfalso. apply (Hn c). now left.
Qed.

Lemma okst_tail f l : okst (f :: l) -> okst l.
Proof. destruct f; cbn; tauto. Qed.

Lemma InvD_ok s t s' ev : InvA s -> InvB s -> InvC s -> InvD s -> step t s = Some (s', ev) ->
  forall t0, okst (thr s' t0).
Proof.
  intros HA HB HC HD H t0.
  pose proof (D_ok _ HD t0) as HO0. pose proof (D_ok _ HD t) as HOt.
  step_inv H; cbn; unfold upd; eqb_cases; cbn in *; auto.
  all: try tauto.
  assert (Hc : cst (cbs s n) = CLinked) by (apply (B_in _ HB); rewrite Heql0; now left).
  pose proof (B_x _ HB n) as HX. rewrite Hc in HX. cbn in HX.
  pose proof (B_fr _ HB n t) as HF. rewrite Heql in HF. cbn in HF.
  destruct (xst (cbs s n)); try discriminate. cbn in HF.
  split; [exact HF|]. split; [|exact HOt].
  apply notin_npost_zero. intros Hin.
  destruct (D_post _ HD t n) as [Hp _]; [rewrite Heql; now right|]. congruence.
Qed.

Lemma InvD_post s t s' ev : InvA s -> InvB s -> InvC s -> InvD s -> step t s = Some (s', ev) ->
  forall t0 c0, In (FReqPost c0) (thr s' t0) ->
  cst (cbs s' c0) = CPopped /\ completed (cbs s' c0) = false /\ rdc (cbs s' c0) = true.
Proof.
  intros HA HB HC HD H t0 c0.
  pose proof (D_post _ HD t0 c0) as HP0. pose proof (D_post _ HD t c0) as HPt.
  pose proof (D_ok _ HD t) as HOt.
  step_inv H; cbn; unfold upd; eqb_cases; cbn in *; intros Hin.
  all: repeat match goal with Hx : _ \/ _ |- _ => destruct Hx as [Hx|Hx]; try discriminate Hx end.
  all: try (now apply HP0).
  all: try (apply HPt; tauto).
  all: try (exfalso; destruct HPt as [? _]; [tauto|congruence]).
  all: try (exfalso; destruct HP0 as [? _]; [tauto|congruence]).
  all: try (destruct HPt as (?&?&?); [tauto|]; repeat split; congruence).
  all: try (destruct HP0 as (?&?&?); [assumption|]; repeat split; congruence).
  - assert (Hc : cst (cbs s n) = CLinked) by (apply (B_in _ HB); rewrite Heql0; now left).
    repeat split. destruct (completed (cbs s n)) eqn:Ec; auto.
    destruct (D_comp _ HD n Ec). congruence.
  - congruence.
  - exfalso. destruct HOt as (_ & Hn & _). exact (npost_zero_notin _ _ Hn Hin).
  - exfalso. assert (H1 : notifier s = Some t0) by (eapply post_notifier; eauto).
    assert (H2 : notifier s = Some t) by (eapply post_notifier; eauto; rewrite Heql; now left).
    congruence.
  - exfalso. assert (Hc : cst (cbs s c) = CReg) by (apply (B_reg _ HB t); rewrite Heql; now left).
    destruct HPt as [? _]; [tauto|congruence].
  - exfalso. assert (Hc : cst (cbs s c) = CReg) by (apply (B_reg _ HB t); rewrite Heql; now left).
    destruct HP0 as [? _]; [tauto|congruence].
Qed.

Lemma InvD_comp s t s' ev : InvA s -> InvB s -> InvC s -> InvD s -> step t s = Some (s', ev) ->
  forall c0, completed (cbs s' c0) = true -> xst (cbs s' c0) = XEnded /\ cst (cbs s' c0) = CPopped.
Proof.
  intros HA HB HC HD H c0.
  pose proof (D_comp _ HD c0) as HC0.
  step_inv H; cbn; unfold upd; eqb_cases; cbn in *; auto.
  all: try (intros Hc; destruct (HC0 Hc); split; congruence).
  - intros Hc. destruct (HC0 Hc) as [_ Hp].
    assert (cst (cbs s n) = CLinked) by (apply (B_in _ HB); rewrite Heql0; now left). congruence.
  - intros _.
    destruct (D_post _ HD t c) as (Hp & _ & _); [rewrite Heql; now left|].
    split; auto.
    pose proof (B_x _ HB c) as HX. rewrite Hp in HX. cbn in HX.
    destruct (xst (cbs s c)) as [|t'|] eqn:EX; try discriminate; auto.
    exfalso.
    assert (H1 : notifier s = Some t') by (eapply D_not; eauto).
    assert (H2 : notifier s = Some t) by (eapply top_req_notifier; eauto).
    assert (t' = t) by congruence. subst t'.
    pose proof (B_fr _ HB c t) as HF. rewrite EX, Heql in HF. cbn in HF. rewrite Nat.eqb_refl in HF.
    pose proof (D_ok _ HD t) as HO. rewrite Heql in HO. cbn in HO. lia.
  - intros Hc. destruct (HC0 Hc) as [_ Hp].
    assert (cst (cbs s c) = CReg) by (apply (B_reg _ HB t); rewrite Heql; now left). congruence.
Qed.

Lemma InvD_step s t s' ev : InvA s -> InvB s -> InvC s -> InvD s -> step t s = Some (s', ev) -> InvD s'.
Proof.
  intros HA HB HC HD H. constructor.
  - eapply InvD_not; eauto.
  - eapply InvD_post; eauto.
  - eapply InvD_ok; eauto.
  - eapply InvD_comp; eauto.
Qed.

Lemma InvD_init progs bods : InvD (init progs bods).
Proof.
  constructor; cbn; try discriminate.
  - intros t c. destruct (nth_error progs t); cbn; [|tauto]. intros [H|[]]. discriminate.
  - intros t. destruct (nth_error progs t); cbn; auto.
Qed.

(* ------------------------------------------------------------------------------------------ *)
(* Layer E: destruction                                                                       *)

Fixpoint ndf (c : nat) (l : list frame) : nat :=
  match l with
  | [] => 0
  | (FDeregLock c' | FDeregCS c' _ | FDeregWait c') :: r => (if Nat.eqb c' c then 1 else 0) + ndf c r
  | _ :: r => ndf c r
  end.

Definition isstarted (d : dstate) (t : nat) : bool :=
  match d with DStarted t' => Nat.eqb t' t | _ => false end.

Record InvE (s : st) : Prop := {
  E_fr : forall c t, ndf c (thr s t) = if isstarted (dst (cbs s c)) t then 1 else 0;
  E_started : forall c t, dst (cbs s c) = DStarted t ->
              cst (cbs s c) = CLinked \/ cst (cbs s c) = CPopped;
  E_done : forall c t, dst (cbs s c) = DDone t ->
           (cst (cbs s c) = CPopped \/ cst (cbs s c) = CInl \/ cst (cbs s c) = CUnlinked) /\
           (forall t', xst (cbs s c) = XRun t' -> t' = t);
  E_post : forall t c, In (FReqPost c) (thr s t) -> removed (cbs s c) = false ->
           forall t', dst (cbs s c) <> DDone t';
  E_wait : forall t c, In (FDeregWait c) (thr s t) ->
           notifier s <> Some t /\ cst (cbs s c) = CPopped
}.

Lemma InvE_fr s t s' ev : InvA s -> InvB s -> InvE s -> step t s = Some (s', ev) ->
  forall c0 t0, ndf c0 (thr s' t0) = if isstarted (dst (cbs s' c0)) t0 then 1 else 0.
Proof.
  intros HA HB HE H c0 t0.
  pose proof (E_fr _ HE c0 t0) as HF0.
  pose proof (E_fr _ HE c0 t) as HFt.
  step_inv H; cbn; unfold upd; eqb_cases; cbn in *; auto.
  all: try lia.
  all: rewrite ?Nat.eqb_refl in *.
  all: try (destruct (dst (cbs s _)) eqn:ED; cbn in *; eqb_cases; try lia; try congruence; fail).
Qed.

Lemma InvE_started s t s' ev : InvA s -> InvB s -> InvE s -> step t s = Some (s', ev) ->
  forall c0 t0, dst (cbs s' c0) = DStarted t0 ->
  cst (cbs s' c0) = CLinked \/ cst (cbs s' c0) = CPopped.
Proof.
  intros HA HB HE H c0 t0.
  pose proof (E_started _ HE c0 t0) as HS0.
  step_inv H; cbn; unfold upd; eqb_cases; cbn in *; auto.
  all: try discriminate.
  all: try (intros Hd; destruct (HS0 Hd); congruence).
Qed.

Lemma dereg_top_started s t c f l : InvE s -> thr s t = f :: l -> ndf c [f] = 1 ->
  dst (cbs s c) = DStarted t /\ (cst (cbs s c) = CLinked \/ cst (cbs s c) = CPopped).
Proof.
  intros HE E Hf. pose proof (E_fr _ HE c t) as HF. rewrite E in HF.
  assert (Hd : dst (cbs s c) = DStarted t).
  { destruct (dst (cbs s c)) as [|t'|t'] eqn:ED; cbn in HF.
    - destruct f; cbn in *; try discriminate; lia.
    - destruct (Nat.eqb_spec t' t); [congruence|]. destruct f; cbn in *; try discriminate; lia.
    - destruct f; cbn in *; try discriminate; lia. }
  split; auto. eapply E_started; eauto.
Qed.

Lemma is_notifier_true s t : is_notifier s t = true -> notifier s = Some t.
Proof.
  unfold is_notifier. destruct (notifier s) as [w|]; [|discriminate].
  intros H. apply Nat.eqb_eq in H. congruence.
Qed.

Lemma is_notifier_false s t : is_notifier s t = false -> notifier s <> Some t.
Proof.
  unfold is_notifier. destruct (notifier s) as [w|]; [|discriminate].
  intros H. apply Nat.eqb_neq in H. congruence.
Qed.

Lemma InvE_done s t s' ev : InvA s -> InvB s -> InvC s -> InvD s -> InvE s -> step t s = Some (s', ev) ->
  forall c0 t0, dst (cbs s' c0) = DDone t0 ->
  (cst (cbs s' c0) = CPopped \/ cst (cbs s' c0) = CInl \/ cst (cbs s' c0) = CUnlinked) /\
  (forall t', xst (cbs s' c0) = XRun t' -> t' = t0).
Proof.
  intros HA HB HC HD HE H c0 t0.
  pose proof (E_done _ HE c0 t0) as HD0.
  step_inv H; cbn; unfold upd; eqb_cases; cbn in *; auto.
  all: try discriminate.
  all: try (intros Hd; destruct (HD0 Hd) as [[?|[?|?]] ?]; split; auto; try congruence; fail).
  all: try (exfalso;
            match goal with E : thr _ _ = _ :: _ |- _ =>
              destruct (dereg_top_started _ _ c _ _ HE E) as [_ [?|?]];
              [cbn; now rewrite Nat.eqb_refl|congruence|congruence] end).
  - intros _. split; auto. discriminate.
  - intros Hd. exfalso. destruct (HD0 Hd) as [Hc _].
    assert (cst (cbs s n) = CLinked) by (apply (B_in _ HB); rewrite Heql0; now left).
    intuition congruence.
  - intros Hd. exfalso. destruct (HD0 Hd) as [Hc _].
    assert (cst (cbs s c) = CReg) by (apply (B_reg _ HB t); rewrite Heql; now left).
    intuition congruence.
  - intros _. split; auto. intros t' Hx.
    pose proof (B_x _ HB c) as HX. rewrite Hx in HX.
    match goal with E : cst (cbs s c) = CLinked |- _ => rewrite E in HX end. discriminate.
  - intros [= <-]. split; auto. intros t' Hx.
    assert (H1 : notifier s = Some t') by (eapply D_not; eauto).
    match goal with E : is_notifier _ _ = true |- _ => apply is_notifier_true in E end. congruence.
  - intros [= <-]. split; auto. intros t' Hx.
    assert (H1 : notifier s = Some t') by (eapply D_not; eauto).
    match goal with E : is_notifier _ _ = true |- _ => apply is_notifier_true in E end. congruence.
  - intros [= <-].
    match goal with E : completed _ = true |- _ => destruct (D_comp _ HD c E) as [Hx Hc] end.
    split; auto.
    intros t' Hx'. congruence.
Qed.

Lemma InvE_post s t s' ev : InvA s -> InvB s -> InvC s -> InvD s -> InvE s -> step t s = Some (s', ev) ->
  forall t0 c0, In (FReqPost c0) (thr s' t0) -> removed (cbs s' c0) = false ->
  forall t', dst (cbs s' c0) <> DDone t'.
Proof.
  intros HA HB HC HD HE H t0 c0.
  pose proof (E_post _ HE t0 c0) as HP0. pose proof (E_post _ HE t c0) as HPt.
  pose proof (D_post _ HD t0 c0) as HQ0. pose proof (D_post _ HD t c0) as HQt.
  step_inv H; cbn; unfold upd; eqb_cases; cbn in *; intros Hin.
  all: repeat match goal with Hx : _ \/ _ |- _ => destruct Hx as [Hx|Hx]; try discriminate Hx end.
  all: try (now apply HP0).
  all: try (apply HPt; tauto).
  all: try (intros; discriminate).
  all: try (exfalso; destruct HQt as (?&?&?); [tauto|]; congruence).
  all: try (exfalso; destruct HQ0 as (?&?&?); [assumption|]; congruence).
  all: try (assert (Hcl : cst (cbs s n) = CLinked) by (apply (B_in _ HB); rewrite Heql0; now left);
            intros _ t' Hd; destruct (E_done _ HE _ _ Hd) as [Hc _]; intuition congruence).
  - intros _. apply HPt; auto.
  - intros _. apply HP0; auto.
Qed.

Lemma InvE_wait s t s' ev : InvA s -> InvB s -> InvC s -> InvD s -> InvE s -> step t s = Some (s', ev) ->
  forall t0 c0, In (FDeregWait c0) (thr s' t0) -> notifier s' <> Some t0 /\ cst (cbs s' c0) = CPopped.
Proof.
  intros HA HB HC HD HE H t0 c0.
  pose proof (E_wait _ HE t0 c0) as HW0. pose proof (E_wait _ HE t c0) as HWt.
  step_inv H; cbn; unfold upd; eqb_cases; cbn in *; intros Hin.
  all: repeat match goal with Hx : _ \/ _ |- _ => destruct Hx as [Hx|Hx]; try discriminate Hx end.
  all: try (now apply HW0).
  all: try (apply HWt; tauto).
  all: try (destruct HWt as [? ?]; [tauto|]; split; congruence).
  all: try (destruct HW0 as [? ?]; [assumption|]; split; congruence).
  all: try (injection Hin as <-; split; [apply is_notifier_false; assumption|];
            match goal with E : thr _ _ = FDeregCS _ _ :: _ |- _ =>
              destruct (dereg_top_started _ _ c _ _ HE E) as [_ [?|?]];
              [cbn; now rewrite Nat.eqb_refl|congruence|congruence] end).
  - exfalso. destruct HWt as [_ Hc]; [tauto|]. destruct (C_pop _ HC Heqb c0). congruence.
  - exfalso. destruct HWt as [_ Hc]; [tauto|].
    assert (cst (cbs s c) = CReg) by (apply (B_reg _ HB t); rewrite Heql; now left). congruence.
  - exfalso. destruct HW0 as [_ Hc]; [assumption|].
    assert (cst (cbs s c) = CReg) by (apply (B_reg _ HB t); rewrite Heql; now left). congruence.
Qed.

Lemma InvE_step s t s' ev : InvA s -> InvB s -> InvC s -> InvD s -> InvE s ->
  step t s = Some (s', ev) -> InvE s'.
Proof.
  intros HA HB HC HD HE H. constructor.
  - eapply InvE_fr; eauto.
  - eapply InvE_started; eauto.
  - eapply InvE_done; eauto.
  - eapply InvE_post; eauto.
  - eapply InvE_wait; eauto.
Qed.

Lemma InvE_init progs bods : InvE (init progs bods).
Proof.
  constructor; cbn; try discriminate.
  all: intros a b; try destruct (nth_error progs a); try destruct (nth_error progs b); cbn;
       try reflexivity; try tauto; intros [H|[]]; discriminate.
Qed.

(* ------------------------------------------------------------------------------------------ *)
(* Trace invariants                                                                           *)

(* a property of every event together with the history before it *)
Definition AtEvent (Q : list ev -> ev -> Prop) (tr : list ev) : Prop :=
  forall pre a post, tr = pre ++ a :: post -> Q pre a.

Lemma AtEvent_nil Q : AtEvent Q [].
Proof. intros pre a post E. destruct pre; discriminate. Qed.

Lemma AtEvent_snoc Q tr e : AtEvent Q tr -> Q tr e -> AtEvent Q (tr ++ [e]).
Proof.
  intros H He pre a post E.
  destruct (@exists_last _ (a :: post)) as (post' & x & Ep); [discriminate|].
  destruct post' as [|a' post'].
  - cbn in Ep. injection Ep as -> ->.
    apply app_inj_tail in E. destruct E as [-> ->]. exact He.
  - cbn in Ep. injection Ep as <- Ep. rewrite Ep in E.
    rewrite app_comm_cons, app_assoc in E. apply app_inj_tail in E. destruct E as [E _].
    eapply H. exact E.
Qed.

Lemma AtEvent_app1 Q tr e : AtEvent Q tr -> Q tr e -> AtEvent Q (tr ++ [e]).
Proof. apply AtEvent_snoc. Qed.

Lemma AtEvent_app2 Q tr e1 e2 :
  AtEvent Q tr -> Q tr e1 -> Q (tr ++ [e1]) e2 -> AtEvent Q (tr ++ [e1; e2]).
Proof.
  intros H H1 H2. change [e1; e2] with ([e1] ++ [e2]). rewrite app_assoc.
  apply AtEvent_snoc; auto. apply AtEvent_snoc; auto.
Qed.

Definition is_exec (c : nat) (e : ev) : bool :=
  match snd e with EExec c' => Nat.eqb c' c | _ => false end.
Definition is_exec_by (t c : nat) (e : ev) : bool := Nat.eqb (fst e) t && is_exec c e.
Definition is_end_by (t c : nat) (e : ev) : bool :=
  Nat.eqb (fst e) t && match snd e with EEnd c' => Nat.eqb c' c | _ => false end.

(* events that read or write callback c (or begin / end its destruction) *)
Definition touches (c : nat) (k : evk) : bool :=
  match k with
  | EExec c' | EDone c' | EWait c' | EDeregBegin c' | EDeregRet c' => Nat.eqb c' c
  | _ => false
  end.

(* nothing touches a callback after its destructor returned *)
Definition Q1 (pre : list ev) (a : ev) : Prop :=
  forall c, touches c (snd a) = true -> forall t, ~ In (t, EDeregRet c) pre.
(* when the destructor of c returns on thread t, c is not executing on any other thread *)
Definition Q2 (pre : list ev) (a : ev) : Prop :=
  forall c, snd a = EDeregRet c -> forall t', t' <> fst a ->
  cnt (is_exec_by t' c) pre = cnt (is_end_by t' c) pre.

Record InvT (s : st) (tr : list ev) : Prop := {
  T_exec : forall c, cnt (is_exec c) tr = if is_xnone (xst (cbs s c)) then 0 else 1;
  T_run : forall t c, cnt (is_exec_by t c) tr = cnt (is_end_by t c) tr + nfr c (thr s t);
  T_ret : forall t c, In (t, EDeregRet c) tr -> dst (cbs s c) = DDone t;
  T_q1 : AtEvent Q1 tr;
  T_q2 : AtEvent Q2 tr
}.

Lemma InvT_exec s tr t s' ev : InvA s -> InvB s -> InvT s tr -> step t s = Some (s', ev) ->
  forall c0, cnt (is_exec c0) (tr ++ ev) = if is_xnone (xst (cbs s' c0)) then 0 else 1.
Proof.
  intros HA HB HT H c0.
  pose proof (T_exec _ _ HT c0) as HE0.
  pose proof (B_x _ HB c0) as HX.
  pose proof (B_fr _ HB c0 t) as HF.
  step_inv H; rewrite cnt_app; cbn; unfold upd; eqb_cases; cbn in *; auto.
  all: try lia.
  all: rewrite ?Nat.eqb_refl in *.
  all: try match goal with E : cst _ = _ |- _ => rewrite E in HX end.
  all: try (destruct (xst (cbs s _)) eqn:EX; cbn in *; eqb_cases; try lia; try congruence; fail).
  Show.
Admitted.
