(* E1 model EventV2: v2::async_manual_reset_event with cancellable waiters
     include/unifex/v2/async_manual_reset_event.hpp   (ready, reset, async_wait, _op::type::{start, stop, resume_, reschedule})
     source/async_manual_reset_event_v2.cpp           (set: latch_and_drain into a local list, pop_front + resume_ each)
     include/unifex/cancellable.hpp                   (_op::type::start, stop_type::start, stop_callback, try_complete)
     source/atomic_intrusive_list.cpp                 (push_front_unless_latched_impl, latch_and_drain_impl, unlatch_impl,
                                                       is_latched_impl, pop_front_impl, try_remove_impl) - NOT refined here
   The waiter list is ABSTRACT (its link-level refinement is model AtomicList, property C15):
     - the head word carries the latch (latched = signalled) and a spin lock bit [hl]; push_front_unless_latched,
       latch_and_drain and unlatch are lock(head_) (blocking) and the unlocking store, which publishes the
       item / answers "latched" / latches / unlatches; a latch_and_drain that finds waiters has a step in
       between: the splice (the front item's self pointer is redirected to the setter's local list: from
       then on the waiters are on the local list and try_remove no longer needs the head lock);
     - pop_front on the setter's local list and try_remove are atomic at the store that clears the item's self
       pointer (from then on try_remove(item) answers false; the repeated loads of one failing try_remove
       are below this granularity); try_remove of the front item of the event's list needs the head lock, so
       it blocks while a set / reset holds it (a push in flight redirects the old front item to the new
       item's link word before it unlocks head_, so it does not block the removal);
     - ready() is one load of the head word (it ignores the lock bit).
   Every waiter w has its own stop source, abstracted at its linearisation points exactly as the driver's token
   does (the internals of inplace_stop_source are property C03's model): REGISTER (linked, or the callback runs
   inline when stop was already requested), REQUEST (flag set and the linked callback claimed for execution on
   the requesting thread), DEREGISTER (blocks while the callback runs on another thread), CALLBACK-RETURNED.
   The receiver's scheduler is an inline scheduler: the reschedule hop of a value completion is "handoff" followed
   at once by set_value; its receiver answers get_stop_token with unstoppable_token, so the hop never reads the
   stop source (v2/async_manual_reset_event.hpp:104-119).  A done completion is delivered by stop() directly.

   Threads run programs over Set | Reset | Ready | Wait w | Stop w (= request_stop on the source of w).
   Parameter [fixed]: false = cancellable.hpp as it is; true = the repair proposed for the C19 cancellable
   findings (a start_done bit, value 16: a try_complete that wins on another thread while start() is still
   running waits for it; a completion on the starting thread is signalled through the stack flag).

   Ghost state: a wait operation is FREED when its receiver has been completed ([o_res] non-empty: the receiver
   may destroy the operation).  Every step that accesses a member of a freed operation bumps [late_state]
   (the cancellable state word), [late_self] (the list node) or [late_other] (the stop callback object).
   [o_how] records how the waiter left the list.  Executable definitions only. *)
From Coq Require Import List Bool Arith.
Import ListNotations.

Module EventV2.

Inductive outcome := OValue | ODone.
Inductive cmd := CSet | CReset | CReady | CWait (w : nat) | CStop (w : nat).

(* who calls try_complete(k) *)
Inductive ctx :=
| XFast     (* start(): push_front_unless_latched answered "latched"      [v2/async_manual_reset_event.hpp:214-219] *)
| XResume   (* resume_: set() popped k from its local list               [async_manual_reset_event_v2.cpp:32-34, hpp:153-158] *)
| XStop.    (* stop(): try_remove(this) succeeded                        [hpp:225-230] *)

Inductive how := HLatched | HDrained | HRemoved.

(* the stop callback object inside the operation *)
Inductive cbst :=
| CbNone      (* not constructed yet *)
| CbInline    (* stop was already requested: ran inline in its constructor *)
| CbReg       (* registered with the source *)
| CbClaimed   (* taken by request_stop for execution *)
| CbGone.     (* destroyed by cleanup_ *)

(* the lock bit of head_: free / held by push_front_unless_latched / held by latch_and_drain or unlatch *)
Inductive hlock := HFree | HPush | HExcl.

(* value of the head word without its lock bit *)
Inductive hval := VNil | VLatch | VW (w : nat).

Inductive act :=
(* cancellable type::start                                               [cancellable.hpp:198-215] *)
| AReg (w : nat)            (* construct the stop callback: register, or run it inline *)
(* stop_callback::operator()                                             [cancellable.hpp:122-128] *)
| ACbOr (w : nat)           (* state_.fetch_or(stopped, acq_rel) *)
(* stop_type::start -> nested start -> push_front_unless_latched         [cancellable.hpp:80-84, hpp:211-221] *)
| APushClaim (w : nat)      (* lock(head_) *)
| APushPub (w : nat)        (* unlock(head_, item) *)
| APushLatched (w : nat)    (* unlock(head_, old_head): already latched *)
(* stop_type::start after the nested start returned                      [cancellable.hpp:90-105] *)
| ASyncLoad (w : nat)       (* sync_complete.load(acquire) *)
| AStartedOr (w : nat)      (* state_.fetch_or(started, acq_rel) *)
| ASyncSpin (w : nat)       (* while (!sync_complete.load(acquire)) *)
| ASyncLoad2 (w : nat)      (* repaired variant: flag load after the nested stop() *)
| AOrDone (w : nat)         (* repaired variant: state_.fetch_or(start_done) *)
(* _op::type::stop                                                       [hpp:223-231] *)
| ATryRemove (w : nat)      (* waiters_.try_remove(this) *)
(* try_complete(k) and the completion                                    [cancellable.hpp:137-177] *)
| ATryComplete (k : nat) (c : ctx)   (* state_.fetch_or(completed, acq_rel) *)
| ASyncStore (k : nat) (c : ctx)     (* sync_complete_->store(true, release) *)
| AWaitSD (k : nat) (c : ctx)        (* repaired variant: spin until start_done *)
| ADereg (k : nat) (c : ctx)         (* cleanup_: destroy the stop callback (deregister) *)
| AComplete (k : nat) (c : ctx)      (* reschedule(): handoff + set_value / set_done *)
(* set()                                                                 [async_manual_reset_event_v2.cpp:21-35] *)
| ASetAcq                   (* latch_and_drain: lock(head_) *)
| ASetSplice                (* latch_and_drain: first.self := &local.head_: the waiters are now on the local list *)
| ASetRel                   (* latch_and_drain: unlock(head_, latch) *)
| ASetPop                   (* local.pop_front(): first.self := nullptr, or empty *)
(* reset()                                                               [atomic_intrusive_list.cpp unlatch_impl] *)
| AResetAcq | AResetRel
(* ready()                                                               [is_latched_impl] *)
| AReady
(* request_stop on the source of w, on the requesting thread *)
| AReq (w : nat)
| ACbRet (w : nat)          (* the callback returned into request_stop *)
| AFin.

(* what a thread does when the current call chain returns *)
Inductive cont :=
| KCmd                   (* back in the thread body: next command *)
| KStart (w : nat)       (* nested start() returns into stop_type::start *)
| KHook (w : nat)        (* nested stop() called from stop_type::start returns *)
| KInline (w : nat)      (* inline-executed stop callback returns into type::start *)
| KStopper (w : nat)     (* callback returns into request_stop *)
| KSet.                  (* resume_ returns into the loop of set() *)

Record thread := { prog : list cmd; pc : act; kont : cont; loc : list nat (* set(): the local list *) }.

Record op := {
  o_stopped : bool; o_started : bool; o_completed : bool; o_sd : bool;   (* cancellable state_: 1, 2, 4, 16 *)
  o_flag : bool;            (* the stack flag sync_complete of stop_type::start *)
  o_req : bool;             (* stop requested on the receiver's source *)
  o_cb : cbst;
  o_run : option nat;       (* the thread the callback is running on *)
  o_owner : nat;            (* the thread that runs start() *)
  o_how : option how;       (* ghost: how the waiter left the list *)
  o_res : list outcome;     (* completions delivered to the receiver, newest first *)
  o_ret : bool              (* ghost: start() has returned *)
}.

Record st := {
  fixed : bool;
  latched : bool;           (* head_ == &sentinel_latch_ *)
  hl : hlock;               (* lock bit of head_ *)
  evl : list nat;           (* waiters_ front first *)
  ops : list op;
  thr : list thread;
  late_state : nat; late_self : nat; late_other : nat
}.

Inductive ev :=
| EReg (w : nat) (inl : bool)
| ECsOr (w old new : nat)                 (* cancellable state_.fetch_or(bit, acq_rel) *)
| ECsLd (w v : nat)                       (* repaired variant only: state_.load(acquire) *)
| EHeadAcq (v : hval)                     (* successful lock CAS on head_ (acquire) *)
| EHeadRel (v : hval)                     (* head_.store(v, release) *)
| EHeadLd (l : bool)                      (* head_.load(acquire): latched or not *)
| EReady (b : bool)
| ESyncLd (w : nat) (v : bool)
| ESyncSt (w : nat)
| ESplice (w : nat)                       (* latch_and_drain: front.self.store(&local.head_, release) *)
| ETake (w : nat)                         (* pop_front: w.self.store(nullptr) *)
| EPopNone                                (* pop_front on the empty local list *)
| ERemove (w : nat) (ok : bool)           (* try_remove: w.self.store(nullptr) / w.self read as null *)
| EDereg (w : nat)
| EHandoff (w : nat) | EValue (w : nat) | EDone (w : nat)
| EReq (w : nat) (reg : bool)
| ECbRet (w : nat).

Definition b2n (b : bool) : nat := if b then 1 else 0.
Definition cs_val (o : op) : nat :=
  b2n (o_stopped o) + 2 * b2n (o_started o) + 4 * b2n (o_completed o) + 16 * b2n (o_sd o).

Fixpoint set_nth {A} (n : nat) (x : A) (l : list A) : list A :=
  match l, n with
  | [], _ => []
  | _ :: r, O => x :: r
  | y :: r, S n' => y :: set_nth n' x r
  end.

Definition op0 : op :=
  {| o_stopped := false; o_started := false; o_completed := false; o_sd := false; o_flag := false;
     o_req := false; o_cb := CbNone; o_run := None; o_owner := 0; o_how := None; o_res := []; o_ret := false |}.

Definition w_stopped (o : op) : op :=
  {| o_stopped := true; o_started := o_started o; o_completed := o_completed o; o_sd := o_sd o; o_flag := o_flag o; o_req := o_req o; o_cb := o_cb o; o_run := o_run o; o_owner := o_owner o; o_how := o_how o; o_res := o_res o; o_ret := o_ret o |}.
Definition w_started (o : op) : op :=
  {| o_stopped := o_stopped o; o_started := true; o_completed := o_completed o; o_sd := o_sd o; o_flag := o_flag o; o_req := o_req o; o_cb := o_cb o; o_run := o_run o; o_owner := o_owner o; o_how := o_how o; o_res := o_res o; o_ret := o_ret o |}.
Definition w_completed (o : op) : op :=
  {| o_stopped := o_stopped o; o_started := o_started o; o_completed := true; o_sd := o_sd o; o_flag := o_flag o; o_req := o_req o; o_cb := o_cb o; o_run := o_run o; o_owner := o_owner o; o_how := o_how o; o_res := o_res o; o_ret := o_ret o |}.
Definition w_sd (o : op) : op :=
  {| o_stopped := o_stopped o; o_started := o_started o; o_completed := o_completed o; o_sd := true; o_flag := o_flag o; o_req := o_req o; o_cb := o_cb o; o_run := o_run o; o_owner := o_owner o; o_how := o_how o; o_res := o_res o; o_ret := o_ret o |}.
Definition w_flag (o : op) : op :=
  {| o_stopped := o_stopped o; o_started := o_started o; o_completed := o_completed o; o_sd := o_sd o; o_flag := true; o_req := o_req o; o_cb := o_cb o; o_run := o_run o; o_owner := o_owner o; o_how := o_how o; o_res := o_res o; o_ret := o_ret o |}.
Definition w_req (o : op) : op :=
  {| o_stopped := o_stopped o; o_started := o_started o; o_completed := o_completed o; o_sd := o_sd o; o_flag := o_flag o; o_req := true; o_cb := o_cb o; o_run := o_run o; o_owner := o_owner o; o_how := o_how o; o_res := o_res o; o_ret := o_ret o |}.
Definition w_cb (c : cbst) (o : op) : op :=
  {| o_stopped := o_stopped o; o_started := o_started o; o_completed := o_completed o; o_sd := o_sd o; o_flag := o_flag o; o_req := o_req o; o_cb := c; o_run := o_run o; o_owner := o_owner o; o_how := o_how o; o_res := o_res o; o_ret := o_ret o |}.
Definition w_run (r : option nat) (o : op) : op :=
  {| o_stopped := o_stopped o; o_started := o_started o; o_completed := o_completed o; o_sd := o_sd o; o_flag := o_flag o; o_req := o_req o; o_cb := o_cb o; o_run := r; o_owner := o_owner o; o_how := o_how o; o_res := o_res o; o_ret := o_ret o |}.
Definition w_owner (t : nat) (o : op) : op :=
  {| o_stopped := o_stopped o; o_started := o_started o; o_completed := o_completed o; o_sd := o_sd o; o_flag := o_flag o; o_req := o_req o; o_cb := o_cb o; o_run := o_run o; o_owner := t; o_how := o_how o; o_res := o_res o; o_ret := o_ret o |}.
Definition w_how (h : how) (o : op) : op :=
  {| o_stopped := o_stopped o; o_started := o_started o; o_completed := o_completed o; o_sd := o_sd o; o_flag := o_flag o; o_req := o_req o; o_cb := o_cb o; o_run := o_run o; o_owner := o_owner o; o_how := Some h; o_res := o_res o; o_ret := o_ret o |}.
Definition w_res (x : outcome) (o : op) : op :=
  {| o_stopped := o_stopped o; o_started := o_started o; o_completed := o_completed o; o_sd := o_sd o; o_flag := o_flag o; o_req := o_req o; o_cb := o_cb o; o_run := o_run o; o_owner := o_owner o; o_how := o_how o; o_res := x :: o_res o; o_ret := o_ret o |}.
Definition w_ret (o : op) : op :=
  {| o_stopped := o_stopped o; o_started := o_started o; o_completed := o_completed o; o_sd := o_sd o; o_flag := o_flag o; o_req := o_req o; o_cb := o_cb o; o_run := o_run o; o_owner := o_owner o; o_how := o_how o; o_res := o_res o; o_ret := true |}.

Definition t_goto (a : act) (k : cont) (th : thread) : thread :=
  {| prog := prog th; pc := a; kont := k; loc := loc th |}.
Definition t_loc (l : list nat) (th : thread) : thread :=
  {| prog := prog th; pc := pc th; kont := kont th; loc := l |}.

Definition set_latched (s : st) (b : bool) : st :=
  {| fixed := fixed s; latched := b; hl := hl s; evl := evl s; ops := ops s; thr := thr s; late_state := late_state s; late_self := late_self s; late_other := late_other s |}.
Definition set_hl (s : st) (b : hlock) : st :=
  {| fixed := fixed s; latched := latched s; hl := b; evl := evl s; ops := ops s; thr := thr s; late_state := late_state s; late_self := late_self s; late_other := late_other s |}.
Definition set_evl (s : st) (l : list nat) : st :=
  {| fixed := fixed s; latched := latched s; hl := hl s; evl := l; ops := ops s; thr := thr s; late_state := late_state s; late_self := late_self s; late_other := late_other s |}.
Definition set_ops (s : st) (l : list op) : st :=
  {| fixed := fixed s; latched := latched s; hl := hl s; evl := evl s; ops := l; thr := thr s; late_state := late_state s; late_self := late_self s; late_other := late_other s |}.
Definition set_thr (s : st) (l : list thread) : st :=
  {| fixed := fixed s; latched := latched s; hl := hl s; evl := evl s; ops := ops s; thr := l; late_state := late_state s; late_self := late_self s; late_other := late_other s |}.
Definition bump_state (s : st) : st :=
  {| fixed := fixed s; latched := latched s; hl := hl s; evl := evl s; ops := ops s; thr := thr s; late_state := S (late_state s); late_self := late_self s; late_other := late_other s |}.
Definition bump_self (s : st) : st :=
  {| fixed := fixed s; latched := latched s; hl := hl s; evl := evl s; ops := ops s; thr := thr s; late_state := late_state s; late_self := S (late_self s); late_other := late_other s |}.
Definition bump_other (s : st) : st :=
  {| fixed := fixed s; latched := latched s; hl := hl s; evl := evl s; ops := ops s; thr := thr s; late_state := late_state s; late_self := late_self s; late_other := S (late_other s) |}.


Definition start_of (c : cmd) : act :=
  match c with
  | CSet => ASetAcq | CReset => AResetAcq | CReady => AReady | CWait w => AReg w | CStop w => AReq w
  end.

(* the thread body fetches its next command *)
Definition next_cmd (th : thread) : thread :=
  match prog th with
  | [] => {| prog := []; pc := AFin; kont := KCmd; loc := loc th |}
  | c :: r => {| prog := r; pc := start_of c; kont := KCmd; loc := loc th |}
  end.

Definition cmd_waiter (c : cmd) : nat := match c with CWait w | CStop w => S w | _ => 0 end.
Definition nwaiters (progs : list (list cmd)) : nat :=
  fold_right Nat.max 0 (map (fun p => fold_right Nat.max 0 (map cmd_waiter p)) progs).

Definition init (fx sig0 : bool) (progs : list (list cmd)) : st :=
  {| fixed := fx; latched := sig0; hl := HFree; evl := [];
     ops := repeat op0 (nwaiters progs);
     thr := map (fun p => next_cmd {| prog := p; pc := AFin; kont := KCmd; loc := [] |}) progs;
     late_state := 0; late_self := 0; late_other := 0 |}.

Definition getop (s : st) (k : nat) : op := nth k (ops s) op0.
Definition upd_op (s : st) (k : nat) (f : op -> op) : st :=
  set_ops s (set_nth k (f (getop s k)) (ops s)).
Definition upd_thr (s : st) (t : nat) (f : thread -> thread) : st :=
  match nth_error (thr s) t with
  | Some th => set_thr s (set_nth t (f th) (thr s))
  | None => s
  end.
Definition goto (s : st) (t : nat) (a : act) (k : cont) : st := upd_thr s t (t_goto a k).

Definition freed (s : st) (k : nat) : bool := match o_res (getop s k) with [] => false | _ => true end.
(* an access to the state word / the list node / the callback object of operation k *)
Definition touch_state (s : st) (k : nat) : st := if freed s k then bump_state s else s.
Definition touch_self (s : st) (k : nat) : st := if freed s k then bump_self s else s.
Definition touch_other (s : st) (k : nat) : st := if freed s k then bump_other s else s.

Definition headval (s : st) : hval :=
  if latched s then VLatch else match evl s with [] => VNil | x :: _ => VW x end.

Fixpoint remove_nat (x : nat) (l : list nat) : list nat :=
  match l with
  | [] => []
  | y :: r => if Nat.eqb x y then r else y :: remove_nat x r
  end.
Definition mem_nat (x : nat) (l : list nat) : bool := existsb (Nat.eqb x) l.
Definition hl_free (s : st) : bool := match hl s with HFree => true | _ => false end.
Definition hl_excl (s : st) : bool := match hl s with HExcl => true | _ => false end.
Definition is_front (x : nat) (l : list nat) : bool :=
  match l with y :: _ => Nat.eqb x y | [] => false end.

(* stop_type::start returns to the thread body *)
Definition fin_start (s : st) (t w : nat) : st := upd_thr (upd_op s w w_ret) t next_cmd.

(* the call chain of thread t returns *)
Definition ret (s : st) (t : nat) (k : cont) : st :=
  match k with
  | KCmd => upd_thr s t next_cmd
  | KStart w => goto s t (ASyncLoad w) KCmd
  | KHook w => if fixed s then goto s t (ASyncLoad2 w) KCmd else fin_start s t w
  | KInline w => goto (upd_op s w (w_run None)) t (APushClaim w) KCmd
  | KStopper w => goto s t (ACbRet w) KCmd
  | KSet => goto s t ASetPop KCmd
  end.

Definition outcome_of (c : ctx) : outcome := match c with XStop => ODone | _ => OValue end.

Definition step (t : nat) (s : st) : option (st * list ev) :=
  match nth_error (thr s) t with
  | None => None
  | Some th =>
    let kc := kont th in
    match pc th with
    | AFin => None
    | AReg w =>
        let o := getop s w in
        if o_req o then
          Some (goto (upd_op s w (fun o => w_owner t (w_cb CbInline (w_run (Some t) o)))) t (ACbOr w) (KInline w),
                [EReg w true])
        else Some (goto (upd_op s w (fun o => w_owner t (w_cb CbReg o))) t (APushClaim w) KCmd, [EReg w false])
    | ACbOr w =>
        let o := getop s w in
        let e := ECsOr w (cs_val o) (cs_val (w_stopped o)) in
        let s1 := upd_op (touch_state s w) w w_stopped in
        (* as is: state == started; repaired: masked with stopped, started, completed *)
        if negb (o_stopped o) && o_started o && negb (o_completed o) && (fixed s || negb (o_sd o))
        then Some (goto s1 t (ATryRemove w) kc, [e])
        else Some (ret s1 t kc, [e])
    | APushClaim w =>
        if negb (hl_free s) then None
        else Some (goto (set_hl s HPush) t (if latched s then APushLatched w else APushPub w) kc,
                   [EHeadAcq (headval s)])
    | APushPub w =>
        Some (goto (set_hl (set_evl s (w :: evl s)) HFree) t (ASyncLoad w) KCmd, [EHeadRel (VW w)])
    | APushLatched w =>
        Some (goto (upd_op (set_hl s HFree) w (w_how HLatched)) t (ATryComplete w XFast) (KStart w),
              [EHeadRel (headval s)])
    | ASyncLoad w =>
        if o_flag (getop s w) then Some (fin_start s t w, [ESyncLd w true])
        else Some (goto s t (AStartedOr w) kc, [ESyncLd w false])
    | AStartedOr w =>
        let o := getop s w in
        let e := ECsOr w (cs_val o) (cs_val (w_started o)) in
        let s1 := upd_op (touch_state s w) w w_started in
        if fixed s then
          if o_stopped o && negb (o_completed o) then Some (goto s1 t (ATryRemove w) (KHook w), [e])
          else Some (goto s1 t (AOrDone w) kc, [e])
        else
          if o_stopped o && negb (o_started o) && negb (o_completed o) && negb (o_sd o)
          then Some (goto s1 t (ATryRemove w) (KHook w), [e])
          else if o_completed o then Some (goto s1 t (ASyncSpin w) kc, [e])
          else Some (fin_start s1 t w, [e])
    | ASyncSpin w =>
        if o_flag (getop s w) then Some (fin_start s t w, [ESyncLd w true]) else None
    | ASyncLoad2 w =>
        if o_flag (getop s w) then Some (fin_start s t w, [ESyncLd w true])
        else Some (goto s t (AOrDone w) kc, [ESyncLd w false])
    | AOrDone w =>
        let o := getop s w in
        Some (fin_start (upd_op (touch_state s w) w w_sd) t w, [ECsOr w (cs_val o) (cs_val (w_sd o))])
    | ATryRemove w =>
        let s0 := touch_self s w in
        if mem_nat w (evl s) then
          if is_front w (evl s) && hl_excl s then None
          else Some (goto (upd_op (set_evl s0 (remove_nat w (evl s))) w (w_how HRemoved)) t (ATryComplete w XStop) kc,
                     [ERemove w true])
        else if existsb (fun x => mem_nat w (loc x)) (thr s) then
          Some (goto (upd_op (set_thr s0 (map (fun x => t_loc (remove_nat w (loc x)) x) (thr s))) w (w_how HRemoved))
                     t (ATryComplete w XStop) kc,
                [ERemove w true])
        else Some (ret s0 t kc, [ERemove w false])
    | ATryComplete k c =>
        let o := getop s k in
        let e := ECsOr k (cs_val o) (cs_val (w_completed o)) in
        let s1 := upd_op (touch_state s k) k w_completed in
        if o_completed o then Some (ret s1 t kc, [e])
        else if fixed s then
          if o_sd o then Some (goto s1 t (ADereg k c) kc, [e])
          else if Nat.eqb t (o_owner o) then Some (goto s1 t (ASyncStore k c) kc, [e])
          else Some (goto s1 t (AWaitSD k c) kc, [e])
        else
          if o_started o then Some (goto s1 t (ADereg k c) kc, [e])
          else Some (goto s1 t (ASyncStore k c) kc, [e])
    | ASyncStore k c =>
        Some (goto (upd_op s k w_flag) t (ADereg k c) kc, [ESyncSt k])
    | AWaitSD k c =>
        let o := getop s k in
        if o_sd o then Some (goto (touch_state s k) t (ADereg k c) kc, [ECsLd k (cs_val o)]) else None
    | ADereg k c =>
        let o := getop s k in
        match o_run o with
        | Some r => if Nat.eqb r t
                    then Some (goto (upd_op (touch_other s k) k (w_cb CbGone)) t (AComplete k c) kc, [EDereg k])
                    else None
        | None => Some (goto (upd_op (touch_other s k) k (w_cb CbGone)) t (AComplete k c) kc, [EDereg k])
        end
    | AComplete k c =>
        Some (ret (upd_op s k (w_res (outcome_of c))) t kc,
              match c with XStop => [EDone k] | _ => [EHandoff k; EValue k] end)
    | ASetAcq =>
        if negb (hl_free s) then None
        else Some (goto (set_hl s HExcl) t
                     (if latched s then ASetRel else match evl s with [] => ASetRel | _ => ASetSplice end) kc,
                   [EHeadAcq (headval s)])
    | ASetSplice =>
        match evl s with
        | [] => None     (* cannot happen: the front item cannot leave while head_ is locked *)
        | x :: _ => Some (upd_thr (set_evl s []) t (fun y => t_goto ASetRel kc (t_loc (evl s) y)), [ESplice x])
        end
    | ASetRel =>
        Some (goto (set_latched (set_hl s HFree) true) t ASetPop kc, [EHeadRel VLatch])
    | ASetPop =>
        match loc th with
        | [] => Some (ret s t kc, [EPopNone])
        | x :: r =>
            Some (upd_thr (upd_op (touch_self s x) x (w_how HDrained)) t
                    (fun y => t_goto (ATryComplete x XResume) KSet (t_loc r y)),
                  [ETake x])
        end
    | AResetAcq =>
        if negb (hl_free s) then None else Some (goto (set_hl s HExcl) t AResetRel kc, [EHeadAcq (headval s)])
    | AResetRel =>
        if latched s then Some (ret (set_latched (set_hl s HFree) false) t kc, [EHeadRel VNil])
        else Some (ret (set_hl s HFree) t kc, [EHeadRel (headval s)])
    | AReady =>
        Some (ret s t kc, [EHeadLd (latched s); EReady (latched s)])
    | AReq w =>
        let o := getop s w in
        match o_cb o with
        | CbReg => Some (goto (upd_op s w (fun o => w_req (w_cb CbClaimed (w_run (Some t) o)))) t (ACbOr w) (KStopper w),
                         [EReq w true])
        | _ => Some (ret (upd_op s w w_req) t kc, [EReq w false])
        end
    | ACbRet w =>
        Some (ret (upd_op s w (w_run None)) t kc, [ECbRet w])
    end
  end.

Definition th_fin (th : thread) : bool := match pc th with AFin => true | _ => false end.
(* every thread ran its whole program *)
Definition quiescent (s : st) : bool := forallb th_fin (thr s).

Definition is_none {A} (o : option A) : bool := match o with None => true | _ => false end.
(* no thread can move *)
Definition stuck (s : st) : bool := forallb (fun t => is_none (step t s)) (seq 0 (length (thr s))).

End EventV2.
