(* E1 model AutoReset(ready0, programs): async_auto_reset_event
   (include/unifex/async_auto_reset_event.hpp, source/async_auto_reset_event.cpp):
   std::mutex mutex_ + plain three-valued state_ (UNSET / SET / DONE) + the manual-reset event
   event_ (v1), whose steps are those of the model EventV1 (Proto/EventV1Defs.v): thread t of this
   model owns thread t of the embedded event and feeds it one command at a time.

   Thread programs over set() / set_done() / next w (w = id of the async_wait operation of that
   next-sender).  Steps: every mutex operation (lock is blocking: enabled only when the mutex is
   free; the reads and writes of the plain state_ under the lock are folded into the lock step),
   every step of the embedded event, and the continuation of a next: it becomes enabled when the
   event has handed the wait over to the waiter's scheduler (w in EventV1.resumed) and starts with
   try_reset()'s lock.  The completion of the next-sender is folded into try_reset's unlock.
   Not modelled: the stop callback of next() (its body is set_done(); a cancellation is the
   program command set_done on the cancelling thread) and inline schedulers (with one the
   continuation would run inside event_.set() under the mutex and lock it again).
   [effs] is an auxiliary counter (UNSET -> SET transitions).  Executable definitions only. *)
From Coq Require Import List Bool Arith.
From V Require Import Proto.EventV1Defs.
Import ListNotations.

Module AutoReset.

Inductive s3 := Unset | SSet | Done.
Inductive cmd := ASet | ASetDone | ANext (w : nat).

Inductive pc :=
| AIdle
| ASetEv                               (* holding mutex_, inside event_.set() *)
| AUnlock (fin : option (nat * bool))  (* holding mutex_, about to unlock; Some (w, b): try_reset of
                                          next w returns b and the next-sender completes *)
| AWaitEv (w : nat)                    (* inside event_.async_wait()'s start_or_wait *)
| ASusp (w : nat)                      (* suspended until the wait w is handed over *)
| AResetEv (w : nat).                  (* holding mutex_, inside event_.reset() *)

Record thread := { prog : list cmd; apc : pc }.

Record st := {
  ev : EventV1.st;                (* event_ *)
  mtx : option nat;               (* mutex_: holder *)
  s3v : s3;                       (* state_ *)
  thr : list thread;
  results : list (nat * bool);    (* completed nexts, newest first: (w, true = value / false = done) *)
  effs : nat                      (* auxiliary: number of UNSET -> SET transitions *)
}.

Inductive aev :=
| ELock | EUnlock
| EEv (e : EventV1.ev)
| ENext (w : nat) (value : bool).

Definition ev_idle : EventV1.thread := {| EventV1.prog := []; EventV1.tpc := EventV1.PIdle |}.

Definition init (ready0 : bool) (progs : list (list cmd)) : st :=
  {| ev := EventV1.init ready0 (map (fun _ => []) progs);
     mtx := None;
     s3v := if ready0 then SSet else Unset;
     thr := map (fun p => {| prog := p; apc := AIdle |}) progs;
     results := []; effs := 0 |}.

(* hand command c to thread t of the embedded event *)
Definition inject (t : nat) (c : EventV1.cmd) (e : EventV1.st) : EventV1.st :=
  {| EventV1.top := EventV1.top e; EventV1.nxt := EventV1.nxt e;
     EventV1.thr := EventV1.set_nth t {| EventV1.prog := [c]; EventV1.tpc := EventV1.PIdle |}
                                    (EventV1.thr e);
     EventV1.resumed := EventV1.resumed e; EventV1.stk := EventV1.stk e |}.

Definition ev_busy (t : nat) (e : EventV1.st) : bool :=
  match nth_error (EventV1.thr e) t with
  | Some th => negb (EventV1.th_fin th)
  | None => false
  end.

Definition is_resumed (w : nat) (e : EventV1.st) : bool :=
  existsb (Nat.eqb w) (EventV1.resumed e).

Definition set_thr (s : st) (t : nat) (th : thread) : list thread :=
  EventV1.set_nth t th (thr s).

(* one step of the embedded event on behalf of thread t; [after] = pc once the event command
   has finished, [during] = pc while it has not *)
Definition delegate (t : nat) (s : st) (e : EventV1.st) (r : list cmd) (during after : pc)
  : option (st * list aev) :=
  match EventV1.step t e with
  | None => None
  | Some (e', evs) =>
      let p := if ev_busy t e' then during else after in
      Some ({| ev := e'; mtx := mtx s; s3v := s3v s;
               thr := set_thr s t {| prog := r; apc := p |};
               results := results s; effs := effs s |}, map EEv evs)
  end.

Definition step (t : nat) (s : st) : option (st * list aev) :=
  match nth_error (thr s) t with
  | None => None
  | Some th =>
    match apc th with
    | AIdle =>
      match prog th with
      | [] => None
      (* async_auto_reset_event.cpp:21-28  set(): lock; if state_ != DONE: state_ = SET; event_.set() *)
      | ASet :: r =>
          match mtx s with
          | Some _ => None
          | None =>
            match s3v s with
            | Done => Some ({| ev := ev s; mtx := Some t; s3v := Done;
                               thr := set_thr s t {| prog := r; apc := AUnlock None |};
                               results := results s; effs := effs s |}, [ELock])
            | old => Some ({| ev := inject t EventV1.CSet (ev s); mtx := Some t; s3v := SSet;
                              thr := set_thr s t {| prog := r; apc := ASetEv |};
                              results := results s;
                              effs := match old with Unset => S (effs s) | _ => effs s end |},
                           [ELock])
            end
          end
      (* async_auto_reset_event.cpp:30-35  set_done(): lock; state_ = DONE; event_.set() *)
      | ASetDone :: r =>
          match mtx s with
          | Some _ => None
          | None => Some ({| ev := inject t EventV1.CSet (ev s); mtx := Some t; s3v := Done;
                             thr := set_thr s t {| prog := r; apc := ASetEv |};
                             results := results s; effs := effs s |}, [ELock])
          end
      (* async_auto_reset_event.hpp:104-160  next(): start event_.async_wait(); this step is the
         load of start_or_wait *)
      | ANext w :: r =>
          delegate t s (inject t (EventV1.CWait w) (ev s)) r (AWaitEv w) (ASusp w)
      end
    | AWaitEv w => delegate t s (ev s) (prog th) (AWaitEv w) (ASusp w)
    (* the continuation of let_value(event_.async_wait(), ...): stopCallback.reset(); try_reset():
       async_auto_reset_event.cpp:37-50  lock; state_ == SET: state_ = UNSET; event_.reset(); true
       else false *)
    | ASusp w =>
        if is_resumed w (ev s) then
          match mtx s with
          | Some _ => None
          | None =>
            match s3v s with
            | SSet => Some ({| ev := inject t EventV1.CReset (ev s); mtx := Some t; s3v := Unset;
                               thr := set_thr s t {| prog := prog th; apc := AResetEv w |};
                               results := results s; effs := effs s |}, [ELock])
            | other => Some ({| ev := ev s; mtx := Some t; s3v := other;
                                thr := set_thr s t {| prog := prog th; apc := AUnlock (Some (w, false)) |};
                                results := results s; effs := effs s |}, [ELock])
            end
          end
        else None
    | AResetEv w => delegate t s (ev s) (prog th) (AResetEv w) (AUnlock (Some (w, true)))
    | ASetEv => delegate t s (ev s) (prog th) ASetEv (AUnlock None)
    (* the lock_guard's destructor; then just_void_or_done(b) completes the next-sender *)
    | AUnlock fin =>
        Some ({| ev := ev s; mtx := None; s3v := s3v s;
                 thr := set_thr s t {| prog := prog th; apc := AIdle |};
                 results := match fin with Some r => r :: results s | None => results s end;
                 effs := effs s |},
              EUnlock :: match fin with Some (w, b) => [ENext w b] | None => [] end)
    end
  end.

Definition th_fin (th : thread) : bool :=
  match prog th, apc th with [], AIdle => true | _, _ => false end.
Definition quiescent (s : st) : bool := forallb th_fin (thr s).

(* projections used by the OCaml handler *)
Definition pcs (s : st) : list pc := map apc (thr s).

End AutoReset.
