(* E1 model IoCancel: one async_read_some / async_write_some operation of io_epoll_context
   (include/unifex/linux/io_epoll_context.hpp: read_sender::operation 514-706,
   write_sender::operation 742-935; source/linux/io_epoll_context.cpp: schedule_local 206-216,
   schedule_remote 218-230, execute_pending_local 241-264, acquire_completion_queue_items 266-344)
   together with the kernel-side state it depends on.

   Kernel (assumed as documented in epoll(7), readv(2), pipe(7); NOT verified):
     reg      the epoll instance holds a registration of the descriptor carrying a pointer to the
              operation's completion_base (EPOLL_CTL_ADD adds it unless the descriptor cannot be
              polled -> EPERM, or is registered already -> EEXIST; EPOLL_CTL_DEL removes it, ENOENT
              if absent);
     ready    the descriptor is readable (read op) / writable (write op); set by the peer, cleared
              by a successful readv that drains the pipe; level triggered: epoll_wait returns the
              registration's pointer whenever reg && ready;
     fail     Some k: readv/writev fails with an errno of kind k whatever ready says (KAgain = EAGAIN /
              EWOULDBLOCK, KPerm = EPERM, KOther = any other: EISDIR, EFAULT, ...; the code
              distinguishes nothing else); otherwise it transfers the bytes if ready and fails
              with EAGAIN if not.

   The operation: state_ = io count * 0x10000 + cancel count (fetch_add of io_flag /
   cancel_pending_flag elects who completes), completion_base::enqueued_ / done_op::enqueued_,
   completion_base::execute_ (consumed by execute_pending_local), the stop callback (registered
   with the receiver's stop source; the source is C03's, here: stop bit + callback state with one
   linearisation point per registration / request_stop / deregistration) and its
   callbackCompleted_ flag, which the thread that ran the callback stores AFTER the callback returned
   (source/inplace_stop_token.cpp:56-62) and which the callback's destructor waits for.

   The loop of the I/O thread: batch = items being run by execute_pending_local, localq = items
   scheduled meanwhile; between two batches the loop may take the remote queue (remoteQueue_,
   abstract here: model RemoteQueue owns its wake-up protocol) and calls epoll_wait at most once
   (polled).  These choices are separate thread ids (the I/O thread is one real thread; the ids
   only name which of its enabled alternatives the schedule takes):
     0  the I/O thread's straight-line code (start_io, on_read/write_complete, complete_with_done,
        an inline stop callback, popping the next item)
     1  the I/O thread takes the remote queue        2  its epoll_wait returns the operation
     3  the thread calling start() (remote start only)
     4  the peer (makes the descriptor ready)        5.. stoppers calling request_stop()
   The state is a pair: `core` (everything above; the pc of the one thread that runs the stop
   callback is the global field `runner`) and the stoppers' own status list, so that every property
   of `core` can be decided on the finite transition system of `core` alone, whatever the number
   of stoppers (Proto/IoCancelProofs.v).

   fixed = false: the code as written.  fixed = true: with out/C14/fix_epoll_*.diff applied:
     (6)  start_io registers with epoll BEFORE constructing the stop callback;
     (8)  a failing readv/writev is reported with its errno (only EAGAIN/EWOULDBLOCK park);
     (15) on_read/write_complete: EPOLL_CTL_DEL, fetch_add(io_flag), return if cancelled, only then
          destruct the callback; complete_with_done destructs the callback before set_done.
   Executable definitions only. *)
From Coq Require Import List Bool Arith.
Import ListNotations.

Module IoCancel.

Inductive errkind := KAgain | KPerm | KOther.
Definition is_again (k : errkind) : bool := match k with KAgain => true | _ => false end.

Inductive sysres := SOk | SFail (e : errkind).       (* bytes transferred / -1 with errno e *)
Inductive result := RValue | RError (e : errkind) | RDone.
Inductive qitem := QComp | QDone.                    (* completion_base / done_op of the operation *)
Inductive handler := HStart | HComplete.             (* on_schedule_complete / on_read|write_complete *)
Inductive cbstate :=
| CbNone          (* not constructed *)
| CbReg           (* registered with the stop source *)
| CbInline        (* stop was already requested: ran inline in the constructor (source_ = nullptr) *)
| CbRunning       (* taken by request_stop(), executing on the stopper's thread *)
| CbDone          (* executed, callbackCompleted_ stored *)
| CbUnreg.        (* deregistered before it ran *)

(* the stop callback body = operation::request_stop (hpp 669-686 / 898-915) *)
Inductive cbpc :=
| CCancel         (* state_.fetch_add(cancel_pending_flag) *)
| CDel            (* epoll_ctl(EPOLL_CTL_DEL) *)
| CInc            (* schedule_remote(done_op): ++enqueued_ *)
| CEnq.           (* remoteQueue_.enqueue(done_op) *)

Inductive iopc :=
| IIdle
| ISys0                 (* start_io: readv/writev (552 / 780) *)
| IAddIo0 (r : sysres)  (* start_io: state_.fetch_add(io_flag) (570 / 799) *)
| IReg                  (* start_io: stopCallback_.construct (556 / 784) *)
| IAdd                  (* start_io: epoll_ctl ADD (566 / 795) *)
| IInline (c : cbpc)    (* the callback body running inside the constructor *)
| IDeliver              (* acquire_completion_queue_items: ++enqueued_, push (334-340) *)
| ICUnreg               (* on_*_complete: stopCallback_.destruct() (607 / 836) *)
| ICWait                (*   ... waiting for callbackCompleted_ *)
| ICDel                 (* epoll_ctl DEL (622 / 839) *)
| ICAddIo               (* state_.fetch_add(io_flag) (609 / 842) *)
| ICSys                 (* readv/writev (625 / 854) *)
| IDLoad                (* complete_with_done: completion_base::enqueued_.load() (654 / 883) *)
| IDUnreg | IDWait | IDFin   (* fixed only: stopCallback_.destruct() before set_done *)
| IDResched             (* schedule_local(done_op): ++enqueued_ (665 / 894) *)
| ICrashed.             (* called a null execute_ *)

Inductive rpc := RNone | RCb (c : cbpc) | RStore.         (* the thread running the callback *)
Inductive kst := KSet | KRun | KFin.                      (* a stopper: before request_stop / running the callback / returned *)
Inductive tpc := TInc | TEnq | TFin.                        (* start() off the I/O thread (535-537) *)

Record params := {
  fixed : bool; is_write : bool; remote : bool; pre : bool;
  ready0 : bool; fail : option errkind; pollable : bool
}.

Record core := {
  par : params;
  (* kernel *)
  reg : bool; ready : bool;
  (* operation *)
  s_io : nat; s_cancel : nat; cenq : nat; denq : nat; exec : option handler;
  stopped : bool; cb : cbstate;
  (* queues *)
  batch : list qitem; localq : list qitem; remoteq : list qitem (* newest first *); polled : bool;
  (* threads *)
  io : iopc; starter : tpc; peer_done : bool; runner : rpc;
  (* ghost *)
  completed : list result;   (* completions of the receiver, newest first *)
  uaf : bool;                (* a field of the operation was accessed after its completion *)
  stale : bool;              (* epoll_wait returned the pointer of a completed / consumed completion *)
  xfer : nat;                (* successful readv/writev calls *)
  errs : list errkind        (* errnos of failed readv/writev calls when `fail` is set, newest first *)
}.

Inductive ev :=
| ESys (r : sysres)
| EState (io_add : bool) (old_io old_c : nat)
| ECenqAdd (old : nat) | ECenqSub (old : nat) | ECenqLoad (v : nat)
| EDenqAdd (old : nat) | EDenqSub (old : nat)
| ESrcReg (ok : bool) | ESrcSet (won : bool) | ESrcUnreg
| ECbStore | ECbLoad
| EAdd (e : nat) | EDel (e : nat)              (* errno, 0 = success *)
| EDeliver | EStale
| ERqEnq (it : qitem) | ERqDeq (top : qitem)
| EPeer
| EComplete (r : result)
| ECrash.

Definition init_core (p : params) : core :=
  {| par := p; reg := false; ready := ready0 p;
     s_io := 0; s_cancel := 0; cenq := 0; denq := 0;
     exec := if remote p then Some HStart else None;
     stopped := pre p; cb := CbNone;
     batch := []; localq := []; remoteq := []; polled := false;
     io := if remote p then IIdle else ISys0;
     starter := if remote p then TInc else TFin;
     peer_done := false; runner := RNone;
     completed := []; uaf := false; stale := false; xfer := 0; errs := [] |}.

Fixpoint set_nth {A} (n : nat) (x : A) (l : list A) : list A :=
  match l, n with
  | [], _ => []
  | _ :: r, O => x :: r
  | y :: r, S n' => y :: set_nth n' x r
  end.

(* ---- field updates ------------------------------------------------------------------------- *)
Definition upd_kernel (s : core) (r rd : bool) : core :=
  {| par := par s; reg := r; ready := rd; s_io := s_io s; s_cancel := s_cancel s; cenq := cenq s; denq := denq s;
     exec := exec s; stopped := stopped s; cb := cb s; batch := batch s; localq := localq s; remoteq := remoteq s;
     polled := polled s; io := io s; starter := starter s; peer_done := peer_done s; runner := runner s;
     completed := completed s; uaf := uaf s; stale := stale s; xfer := xfer s; errs := errs s |}.
Definition upd_op (s : core) (i c ce de : nat) (ex : option handler) : core :=
  {| par := par s; reg := reg s; ready := ready s; s_io := i; s_cancel := c; cenq := ce; denq := de;
     exec := ex; stopped := stopped s; cb := cb s; batch := batch s; localq := localq s; remoteq := remoteq s;
     polled := polled s; io := io s; starter := starter s; peer_done := peer_done s; runner := runner s;
     completed := completed s; uaf := uaf s; stale := stale s; xfer := xfer s; errs := errs s |}.
Definition upd_src (s : core) (stp : bool) (c : cbstate) : core :=
  {| par := par s; reg := reg s; ready := ready s; s_io := s_io s; s_cancel := s_cancel s; cenq := cenq s; denq := denq s;
     exec := exec s; stopped := stp; cb := c; batch := batch s; localq := localq s; remoteq := remoteq s;
     polled := polled s; io := io s; starter := starter s; peer_done := peer_done s; runner := runner s;
     completed := completed s; uaf := uaf s; stale := stale s; xfer := xfer s; errs := errs s |}.
Definition upd_q (s : core) (b l r : list qitem) (p : bool) : core :=
  {| par := par s; reg := reg s; ready := ready s; s_io := s_io s; s_cancel := s_cancel s; cenq := cenq s; denq := denq s;
     exec := exec s; stopped := stopped s; cb := cb s; batch := b; localq := l; remoteq := r;
     polled := p; io := io s; starter := starter s; peer_done := peer_done s; runner := runner s;
     completed := completed s; uaf := uaf s; stale := stale s; xfer := xfer s; errs := errs s |}.
Definition upd_io (s : core) (p : iopc) : core :=
  {| par := par s; reg := reg s; ready := ready s; s_io := s_io s; s_cancel := s_cancel s; cenq := cenq s; denq := denq s;
     exec := exec s; stopped := stopped s; cb := cb s; batch := batch s; localq := localq s; remoteq := remoteq s;
     polled := polled s; io := p; starter := starter s; peer_done := peer_done s; runner := runner s;
     completed := completed s; uaf := uaf s; stale := stale s; xfer := xfer s; errs := errs s |}.
Definition upd_thr (s : core) (t : tpc) (pd : bool) (r : rpc) : core :=
  {| par := par s; reg := reg s; ready := ready s; s_io := s_io s; s_cancel := s_cancel s; cenq := cenq s; denq := denq s;
     exec := exec s; stopped := stopped s; cb := cb s; batch := batch s; localq := localq s; remoteq := remoteq s;
     polled := polled s; io := io s; starter := t; peer_done := pd; runner := r;
     completed := completed s; uaf := uaf s; stale := stale s; xfer := xfer s; errs := errs s |}.
Definition upd_ghost (s : core) (c : list result) (u st_ : bool) (x : nat) (e : list errkind) : core :=
  {| par := par s; reg := reg s; ready := ready s; s_io := s_io s; s_cancel := s_cancel s; cenq := cenq s; denq := denq s;
     exec := exec s; stopped := stopped s; cb := cb s; batch := batch s; localq := localq s; remoteq := remoteq s;
     polled := polled s; io := io s; starter := starter s; peer_done := peer_done s; runner := runner s;
     completed := c; uaf := u; stale := st_; xfer := x; errs := e |}.

Definition is_completed (s : core) : bool := match completed s with [] => false | _ => true end.

(* every step that reads or writes a field of the operation object goes through touch *)
Definition touch (s : core) : core :=
  upd_ghost s (completed s) (uaf s || is_completed s) (stale s) (xfer s) (errs s).

Definition complete (s : core) (r : result) : core :=
  upd_ghost s (r :: completed s) (uaf s) (stale s) (xfer s) (errs s).

(* ---- kernel ------------------------------------------------------------------------------------ *)
(* readv / writev on the descriptor *)
Definition do_sys (s : core) : core * sysres :=
  match fail (par s) with
  | Some e => (upd_ghost s (completed s) (uaf s) (stale s) (xfer s) (e :: errs s), SFail e)
  | None =>
      if ready s
      then (upd_ghost (upd_kernel s (reg s) (if is_write (par s) then true else false))
                      (completed s) (uaf s) (stale s) (S (xfer s)) (errs s), SOk)
      else (s, SFail KAgain)
  end.

Definition do_add (s : core) : core * nat :=
  if negb (pollable (par s)) then (s, 1)           (* EPERM *)
  else if reg s then (s, 17)                       (* EEXIST *)
  else (upd_kernel s true (ready s), 0).
Definition do_del (s : core) : core * nat :=
  if reg s then (upd_kernel s false (ready s), 0) else (s, 2).   (* ENOENT *)

(* ---- the operation's code ----------------------------------------------------------------------- *)
(* what the receiver gets for a syscall result *)
Definition result_of (s : core) (r : sysres) : result :=
  match r with
  | SOk => RValue
  | SFail e => if fixed (par s) then RError e else RError KPerm   (* error_code{-int(-1)} *)
  end.

(* does start_io park the operation on this syscall result? *)
Definition parks (s : core) (r : sysres) : bool :=
  match r with
  | SOk => false
  | SFail e => if fixed (par s) then is_again e else true   (* -1 == -EPERM *)
  end.

(* order of on_read/write_complete *)
Definition oc_first (s : core) : iopc :=
  if fixed (par s) then ICDel else ICUnreg.
(* the destruct of the stop callback: with source_ == nullptr (ran inline) or never constructed it
   does nothing observable; the caller skips to k *)
Definition at_unreg (s : core) (unreg k : iopc) : iopc :=
  match cb s with CbInline | CbNone | CbUnreg => k | _ => unreg end.
Definition after_cunreg (s : core) : iopc :=      (* after the callback is gone (on_*_complete) *)
  if fixed (par s) then ICSys else if is_write (par s) then ICDel else ICAddIo.
Definition after_cdel (s : core) : iopc :=
  if fixed (par s) then ICAddIo else if is_write (par s) then ICAddIo else ICSys.
Definition after_caddio (s : core) : iopc :=      (* not cancelled *)
  if fixed (par s) then at_unreg s ICUnreg ICSys
  else if is_write (par s) then ICSys else ICDel.

(* the callback body on some thread: returns the new state, the event and the next pc of the body
   (None = the body returned) *)
Definition step_cb (c : cbpc) (s : core) : core * list ev * option cbpc :=
  match c with
  | CCancel =>
      let s1 := touch (upd_op s (s_io s) (S (s_cancel s)) (cenq s) (denq s) (exec s)) in
      (s1, [EState false (s_io s) (s_cancel s)], if Nat.eqb (s_io s) 0 then Some CDel else None)
  | CDel =>
      let (s1, e) := do_del (touch s) in (s1, [EDel e], Some CInc)
  | CInc =>
      (touch (upd_op s (s_io s) (s_cancel s) (cenq s) (S (denq s)) (exec s)), [EDenqAdd (denq s)], Some CEnq)
  | CEnq =>
      (touch (upd_q s (batch s) (localq s) (QDone :: remoteq s) (polled s)), [ERqEnq QDone], None)
  end.

(* pop the next item of the batch: --enqueued_, exchange(execute_, nullptr), call it (254-259) *)
Definition pop_item (s : core) (it : qitem) (rest : list qitem) : core * list ev :=
  let s0 := upd_q s rest (localq s) (remoteq s) (polled s) in
  match it with
  | QComp =>
      let s1 := touch (upd_op s0 (s_io s) (s_cancel s) (pred (cenq s)) (denq s) None) in
      match exec s with
      | Some HStart => (upd_io s1 ISys0, [ECenqSub (cenq s)])
      | Some HComplete => (upd_io s1 (at_unreg s1 (oc_first s1) (if fixed (par s) then ICDel else after_cunreg s1)), [ECenqSub (cenq s)])
      | None => (upd_io s1 ICrashed, [ECenqSub (cenq s); ECrash])
      end
  | QDone =>
      (upd_io (touch (upd_op s0 (s_io s) (s_cancel s) (cenq s) (pred (denq s)) (exec s))) IDLoad, [EDenqSub (denq s)])
  end.

Definition step_io (s : core) : option (core * list ev) :=
  match io s with
  | IIdle =>
      match batch s with
      | it :: rest => Some (pop_item s it rest)
      | [] =>
          match localq s with
          | it :: rest => Some (pop_item (upd_q s [] [] (remoteq s) false) it rest)
          | [] => None
          end
      end
  | ISys0 =>
      let (s1, r) := do_sys (touch s) in
      Some (upd_io s1 (if parks s r then (if fixed (par s) then IAdd else IReg) else IAddIo0 r), [ESys r])
  | IAddIo0 r =>
      let s1 := touch (upd_op s (S (s_io s)) (s_cancel s) (cenq s) (denq s) (exec s)) in
      if Nat.eqb (s_cancel s) 0
      then Some (upd_io (complete s1 (result_of s r)) IIdle, [EState true (s_io s) (s_cancel s); EComplete (result_of s r)])
      else Some (upd_io s1 IIdle, [EState true (s_io s) (s_cancel s)])
  | IReg =>
      (* execute_ = on_read_complete is set right after the constructor in the code as written and
         before the ADD in the fixed code: no other thread reads it in between *)
      let s0 := touch s in
      if stopped s then Some (upd_io (upd_src s0 true CbInline) (IInline CCancel), [ESrcReg false])
      else
        let s1 := upd_src s0 false CbReg in
        if fixed (par s) then Some (upd_io s1 IIdle, [ESrcReg true])
        else Some (upd_io (upd_op s1 (s_io s) (s_cancel s) (cenq s) (denq s) (Some HComplete)) IAdd, [ESrcReg true])
  | IInline c =>
      match step_cb c s with
      | (s1, e, Some c') => Some (upd_io s1 (IInline c'), e)
      | (s1, e, None) =>
          if fixed (par s) then Some (upd_io s1 IIdle, e)
          else Some (upd_io (upd_op s1 (s_io s1) (s_cancel s1) (cenq s1) (denq s1) (Some HComplete)) IAdd, e)
      end
  | IAdd =>
      let s0 := touch (upd_op s (s_io s) (s_cancel s) (cenq s) (denq s) (Some HComplete)) in
      let (s1, e) := do_add s0 in
      Some (upd_io s1 (if fixed (par s) then IReg else IIdle), [EAdd e])
  | IDeliver =>
      Some (upd_io (touch (upd_q (upd_op s (s_io s) (s_cancel s) (S (cenq s)) (denq s) (exec s))
                                 (batch s) (localq s ++ [QComp]) (remoteq s) (polled s))) IIdle,
            [ECenqAdd (cenq s)])
  | ICUnreg =>
      match cb s with
      | CbReg => Some (upd_io (upd_src (touch s) (stopped s) CbUnreg) (after_cunreg s), [ESrcUnreg])
      | _ => Some (upd_io (touch s) ICWait, [ESrcUnreg])
      end
  | ICWait =>
      match cb s with
      | CbDone => Some (upd_io (touch s) (after_cunreg s), [ECbLoad])
      | _ => None
      end
  | ICDel =>
      let (s1, e) := do_del (touch s) in Some (upd_io s1 (after_cdel s), [EDel e])
  | ICAddIo =>
      let s1 := touch (upd_op s (S (s_io s)) (s_cancel s) (cenq s) (denq s) (exec s)) in
      Some (upd_io s1 (if Nat.eqb (s_cancel s) 0 then after_caddio s else IIdle), [EState true (s_io s) (s_cancel s)])
  | ICSys =>
      let (s1, r) := do_sys (touch s) in
      Some (upd_io (complete s1 (result_of s r)) IIdle, [ESys r; EComplete (result_of s r)])
  | IDLoad =>
      let s0 := touch s in
      if Nat.eqb (cenq s) 0 then
        if fixed (par s) then
          match cb s with
          | CbInline | CbNone | CbUnreg => Some (upd_io (complete s0 RDone) IIdle, [ECenqLoad 0; EComplete RDone])
          | _ => Some (upd_io s0 IDUnreg, [ECenqLoad 0])
          end
        else Some (upd_io (complete s0 RDone) IIdle, [ECenqLoad 0; EComplete RDone])
      else Some (upd_io s0 IDResched, [ECenqLoad (cenq s)])
  | IDUnreg =>
      match cb s with
      | CbReg => Some (upd_io (upd_src (touch s) (stopped s) CbUnreg) IDFin, [ESrcUnreg])
      | _ => Some (upd_io (touch s) IDWait, [ESrcUnreg])
      end
  | IDFin => Some (upd_io (complete (touch s) RDone) IIdle, [EComplete RDone])
  | IDWait =>
      match cb s with
      | CbDone => Some (upd_io (complete (touch s) RDone) IIdle, [ECbLoad; EComplete RDone])
      | _ => None
      end
  | IDResched =>
      Some (upd_io (touch (upd_q (upd_op s (s_io s) (s_cancel s) (cenq s) (S (denq s)) (exec s))
                                 (batch s) (localq s ++ [QDone]) (remoteq s) (polled s))) IIdle,
            [EDenqAdd (denq s)])
  | ICrashed => None
  end.

(* between two batches *)
Definition loop_free (s : core) : bool :=
  match io s, batch s with IIdle, [] => true | _, _ => false end.

(* thread 1: try_schedule_local_remote_queue_contents takes the remote queue (346-355) *)
Definition step_take (s : core) : option (core * list ev) :=
  if loop_free s then
    match remoteq s with
    | [] => None
    | top :: _ => Some (upd_q s (batch s) (localq s ++ rev (remoteq s)) [] (polled s), [ERqDeq top])
    end
  else None.

(* thread 2: epoll_wait returns the registration of the descriptor (270, 329-331).  The harness
   (c14_sys.hpp) never hands a pointer to a completed operation, or to a completion whose execute_
   was consumed, back to the library: it reports it (STALE) and removes the registration. *)
Definition step_deliver (s : core) : option (core * list ev) :=
  if loop_free s && negb (polled s) && reg s && ready s then
    if is_completed s || match exec s with None => true | _ => false end
    then Some (upd_ghost (upd_kernel s false (ready s)) (completed s) (uaf s) true (xfer s) (errs s), [EStale])
    else Some (upd_io (upd_q s (batch s) (localq s) (remoteq s) true) IDeliver, [EDeliver])
  else None.

(* thread 3: start() on another thread: execute_ = on_schedule_complete; schedule_remote(this) *)
Definition step_starter (s : core) : option (core * list ev) :=
  match starter s with
  | TInc => Some (upd_thr (touch (upd_op s (s_io s) (s_cancel s) (S (cenq s)) (denq s) (exec s))) TEnq (peer_done s) (runner s),
                  [ECenqAdd (cenq s)])
  | TEnq => Some (upd_thr (touch (upd_q s (batch s) (localq s) (QComp :: remoteq s) (polled s))) TFin (peer_done s) (runner s),
                  [ERqEnq QComp])
  | TFin => None
  end.

(* thread 4: the peer *)
Definition step_peer (s : core) : option (core * list ev) :=
  if peer_done s then None
  else Some (upd_thr (upd_kernel s (reg s) true) (starter s) true (runner s), [EPeer]).

(* request_stop() on the receiver's stop source by some stopper (stop-bit CAS; the registered
   callback is taken under the source's lock): returns the new core and whether this stopper now
   runs the callback *)
Definition step_set (s : core) : core * list ev * bool :=
  if stopped s then (s, [ESrcSet false], false)
  else
    match cb s with
    | CbReg => (upd_thr (upd_src s true CbRunning) (starter s) (peer_done s) (RCb CCancel), [ESrcSet true], true)
    | c => (upd_src s true c, [ESrcSet true], false)
    end.

(* the stopper that took the callback: the callback body, then callbackCompleted_.store(true) *)
Definition step_run (s : core) : option (core * list ev) :=
  match runner s with
  | RNone => None
  | RCb c =>
      match step_cb c s with
      | (s1, e, Some c') => Some (upd_thr s1 (starter s1) (peer_done s1) (RCb c'), e)
      | (s1, e, None) => Some (upd_thr s1 (starter s1) (peer_done s1) RStore, e)
      end
  | RStore =>
      Some (upd_thr (upd_src (touch s) (stopped s) CbDone) (starter s) (peer_done s) RNone, [ECbStore])
  end.

Definition step_core (t : nat) (s : core) : option (core * list ev) :=
  match t with
  | 0 => step_io s
  | 1 => step_take s
  | 2 => step_deliver s
  | 3 => step_starter s
  | 4 => step_peer s
  | _ => None
  end.

(* ---- the whole system: core + the stoppers' status ------------------------------------------ *)
Record st := { co : core; sts : list kst }.

Definition init (p : params) (nstop : nat) : st := {| co := init_core p; sts := repeat KSet nstop |}.

(* stopper number i (thread 5 + i) *)
Definition step_stopper (i : nat) (s : st) : option (st * list ev) :=
  match nth_error (sts s) i with
  | None => None
  | Some KSet =>
      match step_set (co s) with
      | (c, e, runs) => Some ({| co := c; sts := set_nth i (if runs then KRun else KFin) (sts s) |}, e)
      end
  | Some KRun =>
      match step_run (co s) with
      | Some (c, e) =>
          Some ({| co := c; sts := set_nth i (match runner c with RNone => KFin | _ => KRun end) (sts s) |}, e)
      | None => None
      end
  | Some KFin => None
  end.

Definition step (t : nat) (s : st) : option (st * list ev) :=
  match t with
  | S (S (S (S (S i)))) => step_stopper i s
  | _ => match step_core t (co s) with
         | Some (c, e) => Some ({| co := c; sts := sts s |}, e)
         | None => None
         end
  end.

(* ---- observations ------------------------------------------------------------------------------ *)
Definition crashed (s : core) : bool := match io s with ICrashed => true | _ => false end.
Definition ncompleted (s : core) : nat := length (completed s).
(* the operation is parked waiting for readiness and nothing is wrong with that *)
Definition parked_ok (s : core) : bool :=
  reg s && negb (ready s) && negb (stopped s) &&
  match exec s with Some HComplete => true | _ => false end.

End IoCancel.
