(* E1 model EpollTimer: the timers of linuxos::io_epoll_context with a virtual clock.
   include/unifex/linux/io_epoll_context.hpp
     schedule_at_sender::operation  start 299-305, on_schedule_complete 308-310, complete_with_done 312-321,
     maybe_complete_with_value 324-344, remove_timer_from_queue_and_complete_with_done 346-366,
     start_local 368-385, start_remote 387-390, request_stop 392-398, request_stop_local 400-416,
     request_stop_remote 418-430, cancel_callback 432-436; schedule_at_operation::state_ 111-113
   source/linux/io_epoll_context.cpp
     run_impl 154-189, schedule_local 206-216, schedule_remote 218-230, schedule_at_impl 232-239,
     execute_pending_local 241-264, acquire_completion_queue_items 266-344,
     try_schedule_local_remote_queue_contents 346-355, signal_remote_queue 357-374, remove_timer 376-384,
     update_timers 386-456, try_submit_timer_io 458-471
   include/unifex/detail/intrusive_heap.hpp (Arith/SortedInsertDefs.v: heap_insert / heap_remove)
   source/linux/monotonic_clock.cpp (now = clock_gettime: the virtual clock)

   n timer operations, operation i with a due time, its own stop source, a start mode and a stop mode:
     start  SLocal   started on the I/O thread, in index order, by one schedule() item (Starter) that is
                     already in the remote queue when run() begins
            SRemote  started by its own thread (start_remote: schedule_remote of on_schedule_complete)
     stop   KNone / KPre (stop requested before the operation is started) /
            KRemote (its own thread calls request_stop() at any time: request_stop_remote) /
            KBy j   (the receiver of operation j calls request_stop() from inside its completion, i.e. on
                     the I/O thread: request_stop_local; this includes the case that this operation has
                     already been reaped by update_timers and sits in the same ready batch)
   Thread ids:  0 = I/O thread inside run();  1..n = starter of operation t-1 (SRemote only);
   n+1..2n = stopper of operation t-n-1 (KRemote only);  2n+1+k = the clock advances by k+1 units.

   Granularity: one step per access to a shared atomic (state_ load / fetch_add, remoteQueue_.head_ at
   its linearisation points -- the successful enqueue CAS, the successful CAS to the inactive marker, the
   exchange --, the stop source at its linearisation points -- registration, deregistration, the stop-bit
   CAS, callbackCompleted_ --) and per observable action (every syscall: epoll_wait, read/write of the
   eventfd, read of the timerfd, timerfd_settime, clock_gettime; set_value / set_done).  The I/O thread's
   private work between two such points (local queue, heap insert / remove / pop, execute_, flags
   timersAreDirty_ / remoteQueueReadSubmitted_ / currentDueTime_) is folded into the step before it.
   enqueued_ (an atomic used only by assertions) is a ghost counter here.

   Time unit: one microsecond, so the re-arm threshold of update_timers (1 us) is 1.
   The kernel: the eventfd is a counter (write adds 1, read returns and clears it), the timerfd is a
   one-shot absolute timer (readable from the moment now >= armed time until it is read or set again;
   timerfd_settime with a zero value disarms), epoll_wait is level triggered.  timerfd_settime does not
   fail (it is only ever called with a time later than a clock value already read).
   What the list abstractions of the intrusive queues / the heap cannot express (an item linked twice,
   remove of an item that is not linked, a null execute_, a flag added twice to state_) sets [bad]; the
   proofs show [bad] is never set.
   Executable definitions only. *)
From Coq Require Import ZArith List Bool Arith.
From V Require Import Arith.SortedInsertDefs.
Import ListNotations.
Local Open Scope Z_scope.

Module EpollTimer.

Inductive smode := SLocal | SRemote.
Inductive kmode := KNone | KPre | KRemote | KBy (j : nat).

(* execute_ of the operation *)
Inductive efn :=
| FnNull
| FnStart     (* on_schedule_complete *)
| FnValue     (* maybe_complete_with_value *)
| FnDone      (* complete_with_done *)
| FnRemove.   (* remove_timer_from_queue_and_complete_with_done *)

(* the operation's stop callback *)
Inductive cb_t :=
| CbNone | CbLinked
| CbRunR        (* taken by the remote stopper's request_stop(), executing on that thread *)
| CbCompleted   (* callbackCompleted_ stored *)
| CbInline      (* ran inline at registration: source_ = nullptr, the destructor does nothing *)
| CbGone.

(* start_remote (hpp 387-390): schedule_remote, then the wake-up write if the I/O thread was inactive *)
Inductive spc_t := SInit | SWrite | SDone.
(* remote stopper: request_stop() on the source, then the callback = request_stop_remote (hpp 418-430) *)
Inductive kpc_t := KInit | KFetch | KPush | KWrite | KCompl | KDone.

Inductive item := Starter | Op (i : nat).
(* what the I/O thread still has to do inside the item it is executing *)
Inductive task := TStart (i : nat) | TReqStop (i : nat).

Inductive ipc_t :=
| PStartLd (i : nat)          (* start_local: get_stop_token(receiver_).stop_requested() *)
| PStartReg (i : nat)         (* start_local: stopCallback_.construct *)
| PSet (i : nat)              (* a receiver calls request_stop() on operation i's source *)
| PStopUnreg (i : nat)        (* request_stop_local inside that callback: stopCallback_.destruct() *)
| PStopLd (i : nat)           (* request_stop_local: state_.load *)
| PDereg (i : nat) (r : bool) (* stopCallback_.destruct() of maybe_complete_with_value (r = false) /
                                 remove_timer_from_queue_and_complete_with_done (r = true) *)
| PDeregWait (i : nat) (r : bool)   (* remove_callback spins on callbackCompleted_ *)
| PValLd (i : nat)            (* maybe_complete_with_value: stop_requested() *)
| PRemLd (i : nat)            (* remove_timer_from_queue_and_complete_with_done: state_.load *)
| PComplete (i : nat) (v : bool)    (* set_value (v) / set_done *)
| PNow                        (* update_timers: monotonic_clock::now() *)
| PPop (tnow : Z)             (* update_timers: pop + state_.fetch_add(timer_elapsed_flag) *)
| PArm (t : option Z)         (* try_submit_timer_io: timerfd_settime *)
| PRq                         (* try_mark_inactive_or_dequeue_all *)
| PWait                       (* epoll_wait *)
| PRdEv (tm : bool)           (* read(remoteQueueEventFd_); tm: the timerfd was returned as well *)
| PRdTm                       (* read(timerFd_) *)
| PCrash.                     (* called a null execute_ *)

Record opst := mkop {
  o_due : Z; o_start : smode; o_stop : kmode;
  fn : efn;               (* execute_ *)
  enq : nat;              (* enqueued_ *)
  elapsed : bool;         (* state_ & timer_elapsed_flag *)
  cpend : bool;           (* state_ & cancel_pending_flag *)
  stopped : bool;         (* the stop source's stop bit *)
  cb : cb_t;
  spc : spc_t; kpc : kpc_t;
  ncomp : nat;            (* ghost: completions delivered to the receiver *)
  hseq : nat              (* ghost: number of the heap insertion of this operation *)
}.

Record st := mkst {
  nops : nat;
  ops : nat -> opst;
  now : Z;                    (* the virtual clock *)
  heap : list timer;          (* timers_ from head_ following timerNext_ *)
  dirty : bool;               (* timersAreDirty_ *)
  curdue : option Z;          (* currentDueTime_ *)
  armed : option Z;           (* kernel: the timerfd's expiry time (kept until read / set again) *)
  lq : list item;             (* localQueue_ *)
  pend : list item;           (* the batch execute_pending_local is working on *)
  todo : list task;
  rq : list item;             (* remoteQueue_, newest first *)
  inactive : bool;            (* remoteQueue_.head_ is the inactive marker *)
  efd : nat;                  (* kernel: counter of remoteQueueEventFd_ *)
  rqsub : bool;               (* remoteQueueReadSubmitted_ *)
  ipc : ipc_t;
  bad : bool;
  nins : nat;                 (* ghost: heap insertions so far *)
  pops : list nat             (* ghost: operations reaped by update_timers, in order *)
}.

Inductive ptr := PNull | PInactive | PItem (it : item).

Inductive ev :=
| ESrcLd (i : nat) (b : bool)        (* stop_requested() = b *)
| ESrcReg (i : nat) (ok : bool)      (* callback registered / stop already requested: runs inline *)
| ESrcUnreg (i : nat)                (* remove_callback took the source's lock *)
| ESrcSet (i : nat) (won : bool)     (* request_stop(): set the stop bit / already set *)
| ECbDone (i : nat)                  (* callbackCompleted_.store(true) *)
| ECbSeen (i : nat)                  (* callbackCompleted_.load() = true *)
| EStLd (i : nat) (w : nat)          (* state_.load(relaxed) = w *)
| EStAdd (i : nat) (old new : nat)   (* state_.fetch_add: old -> new *)
| ERqPush (old : ptr) (it : item)    (* enqueue's successful CAS old -> it *)
| ERqMark                            (* CAS nullptr -> inactive *)
| ERqTake (top : ptr)                (* exchange(nullptr) = top *)
| EWrite                             (* write(eventfd) *)
| ERead (v : nat)                    (* read(eventfd) = v *)
| EWait (evr tmr : bool)             (* epoll_wait returned the eventfd / the timerfd (neither: poll, nothing ready) *)
| ETfdRead                           (* read(timerfd) *)
| ESetTime (t : option Z) (h : list nat)   (* timerfd_settime; h = the heap at that moment *)
| ENow (t : Z) (h : list nat)        (* update_timers read the clock *)
| EFire (i : nat) (t : Z) (h : list nat)   (* set_value of operation i at clock value t *)
| EDone (i : nat) (t : Z) (h : list nat)   (* set_done *)
| EClock (t : Z).                    (* the clock now reads t *)

(* ---- field updates ------------------------------------------------------------------------------ *)
Definition set_fn (o : opst) (x : efn) : opst :=
  mkop (o_due o) (o_start o) (o_stop o) x (enq o) (elapsed o) (cpend o) (stopped o) (cb o) (spc o) (kpc o) (ncomp o) (hseq o).
Definition set_enq (o : opst) (x : nat) : opst :=
  mkop (o_due o) (o_start o) (o_stop o) (fn o) x (elapsed o) (cpend o) (stopped o) (cb o) (spc o) (kpc o) (ncomp o) (hseq o).
Definition set_elapsed (o : opst) (x : bool) : opst :=
  mkop (o_due o) (o_start o) (o_stop o) (fn o) (enq o) x (cpend o) (stopped o) (cb o) (spc o) (kpc o) (ncomp o) (hseq o).
Definition set_cpend (o : opst) (x : bool) : opst :=
  mkop (o_due o) (o_start o) (o_stop o) (fn o) (enq o) (elapsed o) x (stopped o) (cb o) (spc o) (kpc o) (ncomp o) (hseq o).
Definition set_stopped (o : opst) (x : bool) : opst :=
  mkop (o_due o) (o_start o) (o_stop o) (fn o) (enq o) (elapsed o) (cpend o) x (cb o) (spc o) (kpc o) (ncomp o) (hseq o).
Definition set_cb (o : opst) (x : cb_t) : opst :=
  mkop (o_due o) (o_start o) (o_stop o) (fn o) (enq o) (elapsed o) (cpend o) (stopped o) x (spc o) (kpc o) (ncomp o) (hseq o).
Definition set_spc (o : opst) (x : spc_t) : opst :=
  mkop (o_due o) (o_start o) (o_stop o) (fn o) (enq o) (elapsed o) (cpend o) (stopped o) (cb o) x (kpc o) (ncomp o) (hseq o).
Definition set_kpc (o : opst) (x : kpc_t) : opst :=
  mkop (o_due o) (o_start o) (o_stop o) (fn o) (enq o) (elapsed o) (cpend o) (stopped o) (cb o) (spc o) x (ncomp o) (hseq o).
Definition set_ncomp (o : opst) (x : nat) : opst :=
  mkop (o_due o) (o_start o) (o_stop o) (fn o) (enq o) (elapsed o) (cpend o) (stopped o) (cb o) (spc o) (kpc o) x (hseq o).
Definition set_hseq (o : opst) (x : nat) : opst :=
  mkop (o_due o) (o_start o) (o_stop o) (fn o) (enq o) (elapsed o) (cpend o) (stopped o) (cb o) (spc o) (kpc o) (ncomp o) x.

Definition upd (f : nat -> opst) (i : nat) (o : opst) : nat -> opst :=
  fun j => if Nat.eqb j i then o else f j.

Definition set_ops (s : st) (x : nat -> opst) : st :=
  mkst (nops s) x (now s) (heap s) (dirty s) (curdue s) (armed s) (lq s) (pend s) (todo s) (rq s) (inactive s) (efd s) (rqsub s) (ipc s) (bad s) (nins s) (pops s).
Definition set_now (s : st) (x : Z) : st :=
  mkst (nops s) (ops s) x (heap s) (dirty s) (curdue s) (armed s) (lq s) (pend s) (todo s) (rq s) (inactive s) (efd s) (rqsub s) (ipc s) (bad s) (nins s) (pops s).
Definition set_heap (s : st) (x : list timer) : st :=
  mkst (nops s) (ops s) (now s) x (dirty s) (curdue s) (armed s) (lq s) (pend s) (todo s) (rq s) (inactive s) (efd s) (rqsub s) (ipc s) (bad s) (nins s) (pops s).
Definition set_dirty (s : st) (x : bool) : st :=
  mkst (nops s) (ops s) (now s) (heap s) x (curdue s) (armed s) (lq s) (pend s) (todo s) (rq s) (inactive s) (efd s) (rqsub s) (ipc s) (bad s) (nins s) (pops s).
Definition set_curdue (s : st) (x : option Z) : st :=
  mkst (nops s) (ops s) (now s) (heap s) (dirty s) x (armed s) (lq s) (pend s) (todo s) (rq s) (inactive s) (efd s) (rqsub s) (ipc s) (bad s) (nins s) (pops s).
Definition set_armed (s : st) (x : option Z) : st :=
  mkst (nops s) (ops s) (now s) (heap s) (dirty s) (curdue s) x (lq s) (pend s) (todo s) (rq s) (inactive s) (efd s) (rqsub s) (ipc s) (bad s) (nins s) (pops s).
Definition set_lq (s : st) (x : list item) : st :=
  mkst (nops s) (ops s) (now s) (heap s) (dirty s) (curdue s) (armed s) x (pend s) (todo s) (rq s) (inactive s) (efd s) (rqsub s) (ipc s) (bad s) (nins s) (pops s).
Definition set_pend (s : st) (x : list item) : st :=
  mkst (nops s) (ops s) (now s) (heap s) (dirty s) (curdue s) (armed s) (lq s) x (todo s) (rq s) (inactive s) (efd s) (rqsub s) (ipc s) (bad s) (nins s) (pops s).
Definition set_todo (s : st) (x : list task) : st :=
  mkst (nops s) (ops s) (now s) (heap s) (dirty s) (curdue s) (armed s) (lq s) (pend s) x (rq s) (inactive s) (efd s) (rqsub s) (ipc s) (bad s) (nins s) (pops s).
Definition set_rq (s : st) (x : list item) (ina : bool) : st :=
  mkst (nops s) (ops s) (now s) (heap s) (dirty s) (curdue s) (armed s) (lq s) (pend s) (todo s) x ina (efd s) (rqsub s) (ipc s) (bad s) (nins s) (pops s).
Definition set_efd (s : st) (x : nat) : st :=
  mkst (nops s) (ops s) (now s) (heap s) (dirty s) (curdue s) (armed s) (lq s) (pend s) (todo s) (rq s) (inactive s) x (rqsub s) (ipc s) (bad s) (nins s) (pops s).
Definition set_rqsub (s : st) (x : bool) : st :=
  mkst (nops s) (ops s) (now s) (heap s) (dirty s) (curdue s) (armed s) (lq s) (pend s) (todo s) (rq s) (inactive s) (efd s) x (ipc s) (bad s) (nins s) (pops s).
Definition set_ipc (s : st) (x : ipc_t) : st :=
  mkst (nops s) (ops s) (now s) (heap s) (dirty s) (curdue s) (armed s) (lq s) (pend s) (todo s) (rq s) (inactive s) (efd s) (rqsub s) x (bad s) (nins s) (pops s).
Definition set_bad (s : st) : st :=
  mkst (nops s) (ops s) (now s) (heap s) (dirty s) (curdue s) (armed s) (lq s) (pend s) (todo s) (rq s) (inactive s) (efd s) (rqsub s) (ipc s) true (nins s) (pops s).
Definition set_nins (s : st) (x : nat) : st :=
  mkst (nops s) (ops s) (now s) (heap s) (dirty s) (curdue s) (armed s) (lq s) (pend s) (todo s) (rq s) (inactive s) (efd s) (rqsub s) (ipc s) (bad s) x (pops s).
Definition set_pops (s : st) (x : list nat) : st :=
  mkst (nops s) (ops s) (now s) (heap s) (dirty s) (curdue s) (armed s) (lq s) (pend s) (todo s) (rq s) (inactive s) (efd s) (rqsub s) (ipc s) (bad s) (nins s) x.

Definition upd_op (s : st) (i : nat) (o : opst) : st := set_ops s (upd (ops s) i o).
Definition flag_bad (s : st) (b : bool) : st := if b then set_bad s else s.

(* ---- parameters --------------------------------------------------------------------------------- *)
Definition spec : Set := (Z * smode * kmode)%type.

Definition op0 (sp : spec) : opst :=
  let '(d, sm, km) := sp in
  mkop d sm km FnNull 0 false false (match km with KPre => true | _ => false end) CbNone SInit KInit 0 0.

Definition is_local (o : opst) : bool := match o_start o with SLocal => true | SRemote => false end.
Definition is_remote_stop (o : opst) : bool := match o_stop o with KRemote => true | _ => false end.
Definition stopped_by (j : nat) (o : opst) : bool :=
  match o_stop o with KBy k => Nat.eqb k j | _ => false end.

(* operations started by the Starter item, in index order *)
Definition locals (s : st) : list nat := filter (fun i => is_local (ops s i)) (seq 0 (nops s)).
(* operations whose stop source the receiver of j triggers, in index order *)
Definition targets (s : st) (j : nat) : list nat := filter (fun i => stopped_by j (ops s i)) (seq 0 (nops s)).

Definition init (specs : list spec) : st :=
  let f := fun i => op0 (nth i specs (0, SRemote, KNone)) in
  let n := length specs in
  let has_local := existsb (fun i => is_local (f i)) (seq 0 n) in
  mkst n f 0 [] false None None [] [] [] (if has_local then [Starter] else []) false 0%nat false
       PRq false 0 [].

(* ---- pieces of the I/O thread ------------------------------------------------------------------- *)
Definition ids (h : list timer) : list nat := map id h.
Definition in_heap (i : nat) (h : list timer) : bool := existsb (fun x => Nat.eqb (id x) i) h.
Definition is_null (f : efn) : bool := match f with FnNull => true | _ => false end.
Definition b2n (b : bool) : nat := if b then 1%nat else 0%nat.
(* the value of state_ *)
Definition stw (o : opst) : nat := (b2n (elapsed o) + 2 * b2n (cpend o))%nat.

Definition head_ptr (s : st) : ptr :=
  if inactive s then PInactive else match rq s with [] => PNull | x :: _ => PItem x end.

(* schedule_local(op) (cpp 206-212) *)
Definition sched_local (s : st) (i : nat) : st :=
  let o := ops s i in
  let s1 := flag_bad s ((0 <? enq o)%nat || is_null (fn o)) in
  set_lq (upd_op s1 i (set_enq o (S (enq o)))) (lq s ++ [Op i]).

(* remoteQueue_.enqueue(op) at its successful CAS (atomic_intrusive_queue.hpp 101-109); schedule_remote's
   ++enqueued_ is folded in.  Returns whether the I/O thread was inactive. *)
Definition rq_push (s : st) (i : nat) : st * bool :=
  let o := ops s i in
  let s1 := flag_bad s ((0 <? enq o)%nat || is_null (fn o)) in
  let woke := inactive s in
  (set_rq (upd_op s1 i (set_enq o (S (enq o)))) (Op i :: (if woke then [] else rq s)) false, woke).

(* remove_timer(op) (cpp 376-384) *)
Definition remove_timer (s : st) (i : nat) : st :=
  let s1 := flag_bad s (negb (in_heap i (heap s))) in
  let s2 := match heap s with
            | x :: _ => if Nat.eqb (id x) i then set_dirty s1 true else s1
            | [] => s1
            end in
  set_heap s2 (heap_remove i (heap s)).

(* schedule_at_impl(op) (cpp 232-239) *)
Definition insert_timer (s : st) (i : nat) : st :=
  let o := ops s i in
  let h := heap_insert (o_due o, i) (heap s) in
  let s1 := flag_bad s (in_heap i (heap s)) in
  let s2 := match h with
            | x :: _ => if Nat.eqb (id x) i then set_dirty s1 true else s1
            | [] => s1
            end in
  set_nins (set_heap (upd_op s2 i (set_hseq o (nins s))) h) (S (nins s)).

(* the rest of the loop body after update_timers (cpp 179-187) *)
Definition after_update (s : st) : st := set_ipc s (if rqsub s then PWait else PRq).

(* update_timers, second half (cpp 416-455): decide about the OS timer *)
Definition arm_logic (s : st) : st :=
  match heap s with
  | [] => match curdue s with
          | Some _ => set_ipc s (PArm None)
          | None => after_update s              (* timersAreDirty_ stays set *)
          end
  | x :: _ =>
      let e := due x in
      match curdue s with
      | Some c => if e <? c - 1 then set_ipc s (PArm (Some e))
                  else after_update (set_dirty s false)
      | None => set_ipc s (PArm (Some e))
      end
  end.

(* update_timers, the reaping loop (cpp 391-413) after the clock was read *)
Definition pop_logic (s : st) (tnow : Z) : st :=
  match heap s with
  | x :: _ => if due x <=? tnow then set_ipc s (PPop tnow) else arm_logic s
  | [] => arm_logic s
  end.

(* cpp 171-173 and on, after execute_pending_local returned *)
Definition leave_batch (s : st) : st :=
  if dirty s then
    match heap s with
    | [] => arm_logic s
    | _ :: _ => set_ipc s PNow
    end
  else after_update s.

Definition after_dereg (s : st) (i : nat) (r : bool) : st :=
  set_ipc s (if r then PRemLd i else PValLd i).

(* execute_pending_local popped operation i: --enqueued_, execute_ taken and cleared, then called (cpp 252-259) *)
Definition exec_op (s : st) (i : nat) : st :=
  let o := ops s i in
  let s1 := upd_op s i (set_fn (set_enq o (pred (enq o))) FnNull) in
  match fn o with
  | FnNull => set_ipc (set_bad s1) PCrash
  | FnStart => set_ipc s1 (PStartLd i)
  | FnDone => set_ipc s1 (PComplete i false)
  | FnValue | FnRemove =>
      let r := match fn o with FnRemove => true | _ => false end in
      match cb o with
      | CbLinked | CbRunR | CbCompleted => set_ipc s1 (PDereg i r)
      | CbInline => after_dereg s1 i r
      | CbNone | CbGone => after_dereg (set_bad s1) i r     (* destructor of a dead callback *)
      end
  end.

(* the while loop of execute_pending_local over the remaining batch p *)
Fixpoint run_pending (s : st) (p : list item) : st :=
  match p with
  | [] => leave_batch (set_pend s [])
  | Starter :: r =>
      match locals s with
      | [] => run_pending s r
      | i :: ls => set_ipc (set_todo (set_pend s r) (map TStart ls)) (PStartLd i)
      end
  | Op i :: r => exec_op (set_pend s r) i
  end.

(* the I/O thread finished one access: what it does next inside the item it is executing, or the next
   item, or the rest of the loop *)
Definition exec_next (s : st) : st :=
  match todo s with
  | TStart i :: r => set_ipc (set_todo s r) (PStartLd i)
  | TReqStop i :: r => set_ipc (set_todo s r) (PSet i)
  | [] => run_pending s (pend s)
  end.

(* top of the loop: execute_pending_local (cpp 241-250) *)
Definition next_iter (s : st) : st :=
  match lq s with
  | [] => leave_batch s
  | _ :: _ => run_pending (set_lq s []) (lq s)
  end.

Definition tfd_ready (s : st) : bool :=
  match armed s with Some c => c <=? now s | None => false end.

(* ---- the I/O thread ----------------------------------------------------------------------------- *)
Definition step_io (s : st) : option (st * list ev) :=
  match ipc s with
  | PStartLd i =>
      let o := ops s i in
      if stopped o then
        (* stop already requested: complete_with_done via the local queue (hpp 370-375) *)
        Some (exec_next (sched_local (upd_op s i (set_fn o FnDone)) i), [ESrcLd i true])
      else
        Some (set_ipc (insert_timer (upd_op s i (set_fn o FnValue)) i) (PStartReg i), [ESrcLd i false])
  | PStartReg i =>
      let o := ops s i in
      if stopped o then
        (* the callback runs inline: request_stop_local; its destruct() finds source_ = nullptr *)
        Some (set_ipc (upd_op s i (set_fn (set_cb o CbInline) FnDone)) (PStopLd i), [ESrcReg i false])
      else
        Some (exec_next (upd_op s i (set_cb o CbLinked)), [ESrcReg i true])
  | PSet i =>
      let o := ops s i in
      if stopped o then Some (exec_next s, [ESrcSet i false])
      else
        let s1 := upd_op s i (set_stopped o true) in
        match cb o with
        | CbLinked => Some (set_ipc s1 (PStopUnreg i), [ESrcSet i true])
        | _ => Some (exec_next s1, [ESrcSet i true])
        end
  | PStopUnreg i =>
      let o := ops s i in
      Some (set_ipc (upd_op s i (set_fn (set_cb o CbGone) FnDone)) (PStopLd i), [ESrcUnreg i])
  | PStopLd i =>
      let o := ops s i in
      if elapsed o then Some (exec_next s, [EStLd i (stw o)])
      else Some (exec_next (sched_local (remove_timer s i) i), [EStLd i (stw o)])
  | PDereg i r =>
      let o := ops s i in
      match cb o with
      | CbLinked => Some (after_dereg (upd_op s i (set_cb o CbGone)) i r, [ESrcUnreg i])
      | CbRunR | CbCompleted => Some (set_ipc s (PDeregWait i r), [ESrcUnreg i])
      | _ => Some (after_dereg (set_bad s) i r, [ESrcUnreg i])
      end
  | PDeregWait i r =>
      let o := ops s i in
      match cb o with
      | CbCompleted => Some (after_dereg (upd_op s i (set_cb o CbGone)) i r, [ECbSeen i])
      | _ => None                                   (* spinning *)
      end
  | PValLd i =>
      let o := ops s i in
      Some (set_ipc s (PComplete i (negb (stopped o))), [ESrcLd i (stopped o)])
  | PRemLd i =>
      let o := ops s i in
      let s1 := if elapsed o then s else remove_timer s i in
      Some (set_ipc s1 (PComplete i false), [EStLd i (stw o)])
  | PComplete i v =>
      let o := ops s i in
      let s1 := upd_op s i (set_ncomp o (S (ncomp o))) in
      let s2 := set_todo s1 (map TReqStop (targets s i) ++ todo s) in
      Some (exec_next s2, [if v then EFire i (now s) (ids (heap s)) else EDone i (now s) (ids (heap s))])
  | PNow => Some (pop_logic s (now s), [ENow (now s) (ids (heap s))])
  | PPop tnow =>
      match heap s with
      | [] => None
      | x :: h =>
          let i := id x in
          let o := ops s i in
          let o1 := set_elapsed o true in
          let s1 := set_pops (set_heap (flag_bad s (elapsed o)) h) (pops s ++ [i]) in
          let s2 := upd_op s1 i o1 in
          let s3 := if cpend o then s2 else sched_local s2 i in
          Some (pop_logic s3 tnow, [EStAdd i (stw o) (stw o1)])
      end
  | PArm t =>
      (* currentDueTime_.reset(); timerfd_settime; currentDueTime_ = t; timersAreDirty_ = false *)
      Some (after_update (set_dirty (set_curdue (set_armed s t) t) false), [ESetTime t (ids (heap s))])
  | PRq =>
      match rq s with
      | [] => Some (set_ipc (set_rqsub (set_rq s [] true) true) PWait, [ERqMark])
      | _ :: _ => Some (next_iter (set_lq (set_rq s [] false) (lq s ++ rev (rq s))), [ERqTake (head_ptr s)])
      end
  | PWait =>
      let evr := (0 <? efd s)%nat in
      let tmr := tfd_ready s in
      if evr then Some (set_ipc s (PRdEv tmr), [EWait evr tmr])
      else if tmr then Some (set_ipc s PRdTm, [EWait evr tmr])
      else match lq s with
           | [] => None                              (* epoll_wait(-1) sleeps *)
           | _ :: _ => Some (next_iter s, [EWait false false])
           end
  | PRdEv tm =>
      let s1 := set_rqsub (set_efd s 0%nat) false in
      Some (if tm then set_ipc s1 PRdTm else next_iter s1, [ERead (efd s)])
  | PRdTm =>
      Some (next_iter (set_dirty (set_curdue (set_armed s None) None) true), [ETfdRead])
  | PCrash => None
  end.

(* ---- starter of operation i: start() off the I/O thread (hpp 387-390, cpp 218-230) ------------- *)
Definition step_start (i : nat) (s : st) : option (st * list ev) :=
  let o := ops s i in
  if is_local o then None else
  match spc o with
  | SInit =>
      let old := head_ptr s in
      let (s1, woke) := rq_push (upd_op s i (set_fn o FnStart)) i in
      let o1 := ops s1 i in
      Some (upd_op s1 i (set_spc o1 (if woke then SWrite else SDone)), [ERqPush old (Op i)])
  | SWrite => Some (upd_op (set_efd s (S (efd s))) i (set_spc o SDone), [EWrite])
  | SDone => None
  end.

(* ---- remote stopper of operation i (inplace_stop_token.cpp 39-76, hpp 418-430) ------------------ *)
Definition step_stop (i : nat) (s : st) : option (st * list ev) :=
  let o := ops s i in
  if negb (is_remote_stop o) then None else
  match kpc o with
  | KInit =>
      if stopped o then Some (upd_op s i (set_kpc o KDone), [ESrcSet i false])
      else
        let o1 := set_stopped o true in
        match cb o with
        | CbLinked => Some (upd_op s i (set_kpc (set_cb o1 CbRunR) KFetch), [ESrcSet i true])
        | _ => Some (upd_op s i (set_kpc o1 KDone), [ESrcSet i true])
        end
  | KFetch =>
      let o1 := set_cpend o true in
      let s1 := flag_bad s (cpend o) in
      if elapsed o then Some (upd_op s1 i (set_kpc o1 KCompl), [EStAdd i (stw o) (stw o1)])
      else Some (upd_op s1 i (set_kpc (set_fn o1 FnRemove) KPush), [EStAdd i (stw o) (stw o1)])
  | KPush =>
      let old := head_ptr s in
      let (s1, woke) := rq_push s i in
      let o1 := ops s1 i in
      Some (upd_op s1 i (set_kpc o1 (if woke then KWrite else KCompl)), [ERqPush old (Op i)])
  | KWrite => Some (upd_op (set_efd s (S (efd s))) i (set_kpc o KCompl), [EWrite])
  | KCompl => Some (upd_op s i (set_kpc (set_cb o CbCompleted) KDone), [ECbDone i])
  | KDone => None
  end.

Definition step (t : nat) (s : st) : option (st * list ev) :=
  let n := nops s in
  match t with
  | O => step_io s
  | S t' =>
      if (t' <? n)%nat then step_start t' s
      else if (t' <? 2 * n)%nat then step_stop (t' - n) s
      else
        let d := Z.of_nat (S (t' - 2 * n)) in
        Some (set_now s (now s + d), [EClock (now s + d)])
  end.

(* ---- observations ------------------------------------------------------------------------------- *)
Definition completions (s : st) : list nat := map (fun i => ncomp (ops s i)) (seq 0 (nops s)).
Definition all_done (s : st) : bool := forallb (fun i => Nat.eqb (ncomp (ops s i)) 1) (seq 0 (nops s)).
Definition is_fire (e : ev) : bool := match e with EFire _ _ _ => true | _ => false end.
Definition is_completion (e : ev) : bool := match e with EFire _ _ _ | EDone _ _ _ => true | _ => false end.
(* the I/O thread sleeps in epoll_wait *)
Definition io_blocked (s : st) : bool :=
  match ipc s with
  | PWait => negb (0 <? efd s)%nat && negb (tfd_ready s) && match lq s with [] => true | _ => false end
  | _ => false
  end.
(* no thread other than the clock can move *)
Definition quiescent (s : st) : bool :=
  forallb (fun t => match step t s with None => true | Some _ => false end) (seq 0 (2 * nops s + 1)).

End EpollTimer.
