(* E1 model UringOp: one async_read_some_at / async_write_some_at operation of io_uring_context
   (include/unifex/linux/io_uring_context.hpp: read_sender::operation 418-573, write_sender::operation
   616-771 (accept_sender::operation 1124-1281 has the same protocol); try_submit_io 302-338;
   source/linux/io_uring_context.cpp: run_impl 395-476, schedule_pending_io 509-512,
   acquire_completion_queue_items 543-633) with the part of the kernel it talks to.

   The protocol: refCount_ starts at 1.  The stop callback (request_stop, 469-481) CASes 1 -> 2 and, on
   success, submits an IORING_OP_ASYNC_CANCEL for the operation (request_stop_local 483-504, on the
   I/O thread; from another thread the cancel operation cop_ first travels through the remote
   queue).  Both the read's and the cancel's completion end in on_read_complete (511-540):
   refCount_.fetch_sub(1) elects the LAST of them (old value 1) to destroy the callback and complete
   the receiver.  When the submission ring has no room, try_submit_io fails, the operation is put on
   pendingIoQueue_ with execute_ = on_schedule_complete and start_io() runs AGAIN later (463-466,
   run_impl 429-432).

   Kernel (assumed as documented in io_uring_enter(2); NOT verified): a submitted read stays in
   flight until the descriptor is readable (then it transfers the bytes and posts a completion with
   the count), or the syscall fails (completion with -errno), or an ASYNC_CANCEL naming it is processed
   (completion with -ECANCELED); the cancel's own completion reports 0 / -ENOENT.  Entries are
   processed in submission order.  `full`: the ring currently has no room (made free by thread 3).

   Threads: 0 = the I/O thread (deterministic: local items, then completions, then the remote queue,
   then pendingIoQueue_ if the ring has room); 1 = the kernel posting one completion; 2 = the peer
   (makes the descriptor readable); 3 = whatever frees ring space; 4.. = stoppers calling
   request_stop() on the receiver's stop source (C03's; here: stop bit, and how many times the
   callback object is linked into the source's list - the code as written links it once per
   start_io() run).

   fixed = false: the code as written.  fixed = true: with out/C14/fix_uring_all.diff applied:
     (10) the callback is constructed once (flag), and
     (16) only after the operation has been submitted or queued, so that an inline callback (stop
          already requested) submits the cancellation AFTER the operation it cancels; request_stop_local
          queues the cancellation on pendingIoQueue_ while the operation still waits there (same reason);
     (17) on_read_complete reports the bytes when the read transferred them, even if stop was
          requested meanwhile.
   Like IoCancel the state is (core, stoppers' status list).  Executable definitions only. *)
From Coq Require Import List Bool Arith.
Import ListNotations.

Module UringOp.

Inductive errkind := KCanceled | KOther.
Inductive cres := CROk | CRErr (e : errkind).               (* result_ of the read's completion *)
Inductive result := RValue | RError (e : errkind) | RDone.
Inductive cqe := CRead (r : cres) | CCancel.                 (* completion-queue entries *)
Inductive litem := LRead (r : cres) | LCancel | LCop.        (* local queue: read completed / cancel
                                                                completed / cop_ arrived from the remote queue *)
Inductive pitem := POp | PCop.                               (* pendingIoQueue_ *)
Inductive cbstate := CbNone | CbReg | CbInline | CbRunning | CbDone | CbUnreg.
Inductive kstate := KNone | KInflight | KEarly | KFinished.  (* a submitted entry, kernel side; KEarly: a
                                                                cancellation submitted before the entry it names *)

Inductive cbpc := CCas | CSubmit | CEnq.                     (* request_stop: CAS; then local submit / remote enqueue *)

Inductive iopc :=
| UIdle
| UReg                  (* start_io: stopCallback_.construct *)
| USubmit               (* start_io: try_submit_io / schedule_pending_io *)
| UInline (c : cbpc)    (* the callback body inside the constructor *)
| UCancelSubmit         (* request_stop_local (from cop_): try_submit_io / schedule_pending_io *)
| USub (r : option cres)(* on_read_complete: refCount_.fetch_sub(1); r = result_ if entered from the read *)
| UUnreg | UWait        (* stopCallback_.destruct() *)
| UFinish.              (* complete the receiver *)

Inductive rpc := RNone | RCb (c : cbpc) | RStore | RSpin.   (* the stopper inside request_stop() *)
Inductive kst := KSet | KRun | KFin.

Record params := { fixed : bool; pre : bool; full0 : bool; ready0 : bool; fail : option errkind }.

Record core := {
  par : params;
  (* kernel *)
  rd : kstate; cn : kstate; cqes : list cqe; ready : bool; full : bool;
  (* operation *)
  refc : nat; res : option cres (* result_ *); constructed : bool (* fixed: the flag *);
  stopped : bool; cb : cbstate; links : nat (* times the callback is linked into the source's list *);
  (* queues *)
  localq : list litem; remoteq : list litem; pend : list pitem;
  (* threads *)
  io : iopc; runner : rpc; peer_done : bool; drained : bool;
  (* ghost *)
  completed : list result; uaf : bool; xfer : nat; lost_cancel : bool
    (* a cancellation was processed while its operation was not in flight yet *)
}.

Inductive ev :=
| ESrcReg (ok : bool) | ESrcSet (won : bool) | ESrcUnreg | ECbStore | ECbLoad | ESpin
| ERef (cas : bool) (old : nat) (ok : bool)       (* refCount_ CAS 1->2 / fetch_sub(1) *)
| ESubmit (what : pitem) (ok : bool)              (* try_submit_io succeeded / queued on pendingIoQueue_ *)
| ERqEnq | ERqDeq
| EKernel (c : cqe)                               (* the kernel posts a completion *)
| EAcquire (n : nat)                              (* acquire_completion_queue_items took n entries *)
| EResubmit (what : pitem)
| EPeer | EDrain
| EComplete (r : result).

Definition init_core (p : params) : core :=
  {| par := p; rd := KNone; cn := KNone; cqes := []; ready := ready0 p; full := full0 p;
     refc := 1; res := None; constructed := false; stopped := pre p; cb := CbNone; links := 0;
     localq := []; remoteq := []; pend := [];
     io := if fixed p then USubmit else UReg; runner := RNone; peer_done := false; drained := false;
     completed := []; uaf := false; xfer := 0; lost_cancel := false |}.

Fixpoint set_nth {A} (n : nat) (x : A) (l : list A) : list A :=
  match l, n with
  | [], _ => []
  | _ :: r, O => x :: r
  | y :: r, S n' => y :: set_nth n' x r
  end.

Definition upd_kernel (s : core) (r c : kstate) (q : list cqe) (rdy fl : bool) : core :=
  {| par := par s; rd := r; cn := c; cqes := q; ready := rdy; full := fl;
     refc := refc s; res := res s; constructed := constructed s; stopped := stopped s; cb := cb s; links := links s;
     localq := localq s; remoteq := remoteq s; pend := pend s;
     io := io s; runner := runner s; peer_done := peer_done s; drained := drained s;
     completed := completed s; uaf := uaf s; xfer := xfer s; lost_cancel := lost_cancel s |}.
Definition upd_op (s : core) (rc : nat) (rs : option cres) (cons : bool) : core :=
  {| par := par s; rd := rd s; cn := cn s; cqes := cqes s; ready := ready s; full := full s;
     refc := rc; res := rs; constructed := cons; stopped := stopped s; cb := cb s; links := links s;
     localq := localq s; remoteq := remoteq s; pend := pend s;
     io := io s; runner := runner s; peer_done := peer_done s; drained := drained s;
     completed := completed s; uaf := uaf s; xfer := xfer s; lost_cancel := lost_cancel s |}.
Definition upd_src (s : core) (stp : bool) (c : cbstate) (l : nat) : core :=
  {| par := par s; rd := rd s; cn := cn s; cqes := cqes s; ready := ready s; full := full s;
     refc := refc s; res := res s; constructed := constructed s; stopped := stp; cb := c; links := l;
     localq := localq s; remoteq := remoteq s; pend := pend s;
     io := io s; runner := runner s; peer_done := peer_done s; drained := drained s;
     completed := completed s; uaf := uaf s; xfer := xfer s; lost_cancel := lost_cancel s |}.
Definition upd_q (s : core) (l r : list litem) (p : list pitem) : core :=
  {| par := par s; rd := rd s; cn := cn s; cqes := cqes s; ready := ready s; full := full s;
     refc := refc s; res := res s; constructed := constructed s; stopped := stopped s; cb := cb s; links := links s;
     localq := l; remoteq := r; pend := p;
     io := io s; runner := runner s; peer_done := peer_done s; drained := drained s;
     completed := completed s; uaf := uaf s; xfer := xfer s; lost_cancel := lost_cancel s |}.
Definition upd_thr (s : core) (i : iopc) (r : rpc) (pd dr : bool) : core :=
  {| par := par s; rd := rd s; cn := cn s; cqes := cqes s; ready := ready s; full := full s;
     refc := refc s; res := res s; constructed := constructed s; stopped := stopped s; cb := cb s; links := links s;
     localq := localq s; remoteq := remoteq s; pend := pend s;
     io := i; runner := r; peer_done := pd; drained := dr;
     completed := completed s; uaf := uaf s; xfer := xfer s; lost_cancel := lost_cancel s |}.
Definition upd_ghost (s : core) (c : list result) (u : bool) (x : nat) (lc : bool) : core :=
  {| par := par s; rd := rd s; cn := cn s; cqes := cqes s; ready := ready s; full := full s;
     refc := refc s; res := res s; constructed := constructed s; stopped := stopped s; cb := cb s; links := links s;
     localq := localq s; remoteq := remoteq s; pend := pend s;
     io := io s; runner := runner s; peer_done := peer_done s; drained := drained s;
     completed := c; uaf := u; xfer := xfer s + x; lost_cancel := lc |}.

Definition set_io (s : core) (i : iopc) : core := upd_thr s i (runner s) (peer_done s) (drained s).
Definition set_runner (s : core) (r : rpc) : core := upd_thr s (io s) r (peer_done s) (drained s).

Definition is_completed (s : core) : bool := match completed s with [] => false | _ => true end.
Definition touch (s : core) : core := upd_ghost s (completed s) (uaf s || is_completed s) 0 (lost_cancel s).
Definition complete (s : core) (r : result) : core := upd_ghost s (r :: completed s) (uaf s) 0 (lost_cancel s).

(* try_submit_io(populateSqe) || schedule_pending_io: returns the new core and whether it was submitted.
   fixed: the cancellation also queues when its operation still waits on pendingIoQueue_
   (execute_ == on_schedule_complete). *)
Definition submit (s : core) (what : pitem) : core * bool :=
  let op_waits := existsb (fun x => match x with POp => true | PCop => false end) (pend s) in
  let must_queue := full s || (fixed (par s) && match what with PCop => op_waits | POp => false end) in
  if must_queue then (upd_q s (localq s) (remoteq s) (pend s ++ [what]), false)
  else match what with
       | POp => (upd_kernel s KInflight (cn s) (cqes s) (ready s) (full s), true)
       | PCop => (upd_kernel s (rd s) (match rd s with KNone => KEarly | _ => KInflight end) (cqes s) (ready s) (full s), true)
       end.

(* the callback body = operation::request_stop, on the I/O thread (inl = true) or on a stopper *)
Definition step_cb (inl : bool) (c : cbpc) (s : core) : core * list ev * option cbpc :=
  match c with
  | CCas =>
      let s0 := touch s in
      if Nat.eqb (refc s) 1
      then (upd_op s0 2 (res s) (constructed s), [ERef true 1 true], Some (if inl then CSubmit else CEnq))
      else (s0, [ERef true (refc s) false], None)
  | CSubmit =>
      let (s1, ok) := submit (touch s) PCop in (s1, [ESubmit PCop ok], None)
  | CEnq =>
      (upd_q (touch s) (localq s) (remoteq s ++ [LCop]) (pend s), [ERqEnq], None)
  end.

(* what the receiver gets (on_read_complete 518-539) *)
Definition result_of (s : core) : result :=
  let r := match res s with Some r => r | None => CRErr KCanceled end in
  if fixed (par s) then
    match r with
    | CROk => RValue
    | CRErr KCanceled => RDone
    | CRErr e => if stopped s then RDone else RError e
    end
  else if stopped s then RDone
  else match r with CROk => RValue | CRErr KCanceled => RDone | CRErr e => RError e end.

Definition after_start (s : core) : iopc := UIdle.

Definition step_io (s : core) : option (core * list ev) :=
  match io s with
  | UIdle =>
      match localq s with
      | it :: rest =>
          let s0 := touch (upd_q s rest (remoteq s) (pend s)) in
          match it with
          | LRead r => Some (set_io (upd_op s0 (refc s) (Some r) (constructed s)) (USub (Some r)), [EAcquire 0])
          | LCancel => Some (set_io s0 (USub None), [EAcquire 0])
          | LCop => Some (set_io s0 UCancelSubmit, [EAcquire 0])
          end
      | [] =>
          match cqes s with
          | _ :: _ =>
              let items := map (fun c => match c with CRead r => LRead r | CCancel => LCancel end) (cqes s) in
              Some (upd_q (upd_kernel s (rd s) (cn s) [] (ready s) (full s)) items (remoteq s) (pend s),
                    [EAcquire (length (cqes s))])
          | [] =>
              match remoteq s with
              | _ :: _ => Some (upd_q s (remoteq s) [] (pend s), [ERqDeq])
              | [] =>
                  if full s then None
                  else match pend s with
                       | POp :: rest =>
                           (* item->execute_(item) = on_schedule_complete = start_io again *)
                           Some (set_io (upd_q s (localq s) (remoteq s) rest) (if fixed (par s) then USubmit else UReg),
                                 [EResubmit POp])
                       | PCop :: rest =>
                           Some (set_io (upd_q s (localq s) (remoteq s) rest) UCancelSubmit, [EResubmit PCop])
                       | [] => None
                       end
              end
          end
      end
  | UReg =>
      let s0 := touch s in
      if fixed (par s) && constructed s then Some (set_io s0 UIdle, [ESrcReg true])   (* not reached: see USubmit *)
      else if stopped s then
        Some (set_io (upd_op (upd_src s0 true CbInline (links s)) (refc s) (res s) true) (UInline CCas), [ESrcReg false])
      else
        Some (set_io (upd_op (upd_src s0 false CbReg (S (links s))) (refc s) (res s) true)
                     (if fixed (par s) then UIdle else USubmit), [ESrcReg true])
  | UInline c =>
      match step_cb true c s with
      | (s1, e, Some c') => Some (set_io s1 (UInline c'), e)
      | (s1, e, None) => Some (set_io s1 (if fixed (par s) then UIdle else USubmit), e)
      end
  | USubmit =>
      let (s1, ok) := submit (touch s) POp in
      Some (set_io s1 (if fixed (par s) then (if constructed s then UIdle else UReg) else UIdle), [ESubmit POp ok])
  | UCancelSubmit =>
      let (s1, ok) := submit (touch s) PCop in Some (set_io s1 UIdle, [ESubmit PCop ok])
  | USub r =>
      let s0 := touch (upd_op s (pred (refc s)) (res s) (constructed s)) in
      if Nat.eqb (refc s) 1
      then Some (set_io s0 (match cb s with CbInline | CbNone | CbUnreg => UFinish | _ => UUnreg end),
                 [ERef false (refc s) true])
      else Some (set_io s0 UIdle, [ERef false (refc s) false])
  | UUnreg =>
      match cb s with
      | CbReg => Some (set_io (upd_src (touch s) (stopped s) CbUnreg (pred (links s))) UFinish, [ESrcUnreg])
      | _ => Some (set_io (touch s) UWait, [ESrcUnreg])
      end
  | UWait =>
      match cb s with
      | CbDone => Some (set_io (touch s) UFinish, [ECbLoad])
      | _ => None
      end
  | UFinish =>
      Some (set_io (complete (touch s) (result_of s)) UIdle, [EComplete (result_of s)])
  end.

(* thread 1: the kernel processes what is in flight, oldest effect first *)
Definition step_kernel (s : core) : option (core * list ev) :=
  match cn s with
  | KEarly =>
      (* processed before the operation it names was submitted: -ENOENT, nothing is cancelled *)
      Some (upd_ghost (upd_kernel s (rd s) KFinished (cqes s ++ [CCancel]) (ready s) (full s))
                      (completed s) (uaf s) 0 true, [EKernel CCancel])
  | KInflight =>
      match rd s with
      | KInflight =>
          Some (upd_kernel s KFinished KFinished (cqes s ++ [CRead (CRErr KCanceled); CCancel]) (ready s) (full s),
                [EKernel (CRead (CRErr KCanceled))])
      | _ => Some (upd_kernel s (rd s) KFinished (cqes s ++ [CCancel]) (ready s) (full s), [EKernel CCancel])
      end
  | _ =>
      match rd s with
      | KInflight =>
          match fail (par s) with
          | Some e => Some (upd_kernel s KFinished (cn s) (cqes s ++ [CRead (CRErr e)]) (ready s) (full s),
                            [EKernel (CRead (CRErr e))])
          | None =>
              if ready s
              then Some (upd_ghost (upd_kernel s KFinished (cn s) (cqes s ++ [CRead CROk]) false (full s))
                                   (completed s) (uaf s) 1 (lost_cancel s), [EKernel (CRead CROk)])
              else None
          end
      | _ => None
      end
  end.

Definition step_peer (s : core) : option (core * list ev) :=
  if peer_done s then None
  else Some (upd_thr (upd_kernel s (rd s) (cn s) (cqes s) true (full s)) (io s) (runner s) true (drained s), [EPeer]).

Definition step_drain (s : core) : option (core * list ev) :=
  if drained s then None
  else Some (upd_thr (upd_kernel s (rd s) (cn s) (cqes s) (ready s) false) (io s) (runner s) (peer_done s) true, [EDrain]).

(* request_stop() on the stop source by some stopper *)
Definition step_set (s : core) : core * list ev * bool :=
  if stopped s then (s, [ESrcSet false], false)
  else
    match cb s with
    | CbReg => (set_runner (upd_src s true CbRunning (pred (links s))) (RCb CCas), [ESrcSet true], true)   (* popped *)
    | c => (upd_src s true c (links s), [ESrcSet true], false)
    end.

(* the stopper that took the callback: body, callbackCompleted_.store(true), then it looks at the
   list again (inplace_stop_token.cpp 46-66): a callback linked twice is still there - for ever *)
Definition step_run (s : core) : option (core * list ev) :=
  match runner s with
  | RNone => None
  | RCb c =>
      match step_cb false c s with
      | (s1, e, Some c') => Some (set_runner s1 (RCb c'), e)
      | (s1, e, None) => Some (set_runner s1 RStore, e)
      end
  | RStore =>
      Some (set_runner (upd_src (touch s) (stopped s) CbDone (links s))
                       (if Nat.leb 1 (links s) then RSpin else RNone), [ECbStore])
  | RSpin => Some (touch s, [ESpin])
  end.

Definition step_core (t : nat) (s : core) : option (core * list ev) :=
  match t with
  | 0 => step_io s
  | 1 => step_kernel s
  | 2 => step_peer s
  | 3 => step_drain s
  | _ => None
  end.

Record st := { co : core; sts : list kst }.
Definition init (p : params) (nstop : nat) : st := {| co := init_core p; sts := repeat KSet nstop |}.

Definition step_stopper (i : nat) (s : st) : option (st * list ev) :=
  match nth_error (sts s) i with
  | None => None
  | Some KSet =>
      match step_set (co s) with
      | (c, e, runs) => Some ({| co := c; sts := set_nth i (if runs then KRun else KFin) (sts s) |}, e)
      end
  | Some KRun =>
      match step_run (co s) with
      | Some (c, e) =>
          Some ({| co := c; sts := set_nth i (match runner c with RNone => KFin | _ => KRun end) (sts s) |}, e)
      | None => None
      end
  | Some KFin => None
  end.

Definition step (t : nat) (s : st) : option (st * list ev) :=
  match t with
  | S (S (S (S i))) => step_stopper i s
  | _ => match step_core t (co s) with
         | Some (c, e) => Some ({| co := c; sts := sts s |}, e)
         | None => None
         end
  end.

(* the read is in flight, the descriptor not readable, nobody asked to stop: legitimately waiting *)
Definition parked_ok (s : core) : bool :=
  match rd s with KInflight => negb (ready s) && negb (stopped s) | _ => false end.
(* ... or it waits for ring space that nobody frees *)
Definition waits_for_ring (s : core) : bool :=
  full s && match pend s with [] => false | _ => true end.
Definition spinning (s : core) : bool := match runner s with RSpin => true | _ => false end.

End UringOp.
