(* Proofs about the E1 model EventV1 (Proto/EventV1Defs.v): v1::async_manual_reset_event.
   Everything is proved for an arbitrary initial flag, arbitrary thread programs (any number of
   threads, setters, resetters and waiters; every waiter id started at most once: NoDup of the
   ids occurring in the programs) and an arbitrary schedule.
   Part 1: the state invariant Inv (the auxiliary lists are the next_ chains; every waiter id is
   in exactly one of the classes future / in flight / on the stack / popped-pending / resumed).
   Part 2: observable-trace specifications (sequential flag history, per-waiter status monitor)
   and the invariant tying them to the state.
   Part 3: the theorems used by Properties_C16_event.v. *)
From Coq Require Import List Bool Arith Lia.
From V Require Import Base.Sched Proto.EventV1Defs.
Import ListNotations.
Import EventV1.

(* ------------------------------------------------------------------------------------------ *)
(* list helpers                                                                               *)

Lemma set_nth_split {A} (l : list A) t a :
  nth_error l t = Some a ->
  exists l1 l2, l = l1 ++ a :: l2 /\ length l1 = t /\ forall b, set_nth t b l = l1 ++ b :: l2.
Proof.
  revert t; induction l as [|y r IH]; intros [|t] H; cbn in *; try discriminate.
  - injection H as ->. exists [], r. auto.
  - destruct (IH _ H) as (l1 & l2 & -> & Hl & Hs).
    exists (y :: l1), l2. cbn. repeat split; auto. intros b. now rewrite Hs.
Qed.

Fixpoint cnt (w : nat) (l : list nat) : nat :=
  match l with
  | [] => 0
  | x :: r => (if Nat.eqb x w then 1 else 0) + cnt w r
  end.

Lemma cnt_app w a b : cnt w (a ++ b) = cnt w a + cnt w b.
Proof. induction a as [|x a IH]; cbn; [reflexivity|]. rewrite IH. lia. Qed.

Lemma cnt_In w l : In w l <-> 1 <= cnt w l.
Proof.
  induction l as [|x r IH]; cbn; [lia|].
  destruct (Nat.eqb_spec x w); split; intros H; try lia; auto.
  - destruct H as [H|H]; [congruence|]. apply IH in H. lia.
  - right. apply IH. lia.
Qed.

Lemma cnt_notin w l : ~ In w l <-> cnt w l = 0.
Proof. rewrite cnt_In. lia. Qed.

Lemma cnt_NoDup l : NoDup l <-> forall w, cnt w l <= 1.
Proof.
  induction l as [|x r IH]; cbn.
  - split; [intros _ w; lia | constructor].
  - split.
    + intros H w. inversion H as [|? ? Hni Hnd]; subst.
      destruct (Nat.eqb_spec x w).
      * subst. apply cnt_notin in Hni. lia.
      * pose proof (proj1 IH Hnd w). lia.
    + intros H. constructor.
      * apply cnt_notin. specialize (H x). rewrite Nat.eqb_refl in H. lia.
      * apply IH. intros w. specialize (H w). destruct (Nat.eqb x w); lia.
Qed.

(* ------------------------------------------------------------------------------------------ *)
(* the classes of waiter ids                                                                  *)

Definition waits_of (p : list cmd) : list nat :=
  flat_map (fun c => match c with CWait w => [w] | _ => [] end) p.
Definition all_waits (progs : list (list cmd)) : list nat := flat_map waits_of progs.

Definition th_future (th : thread) : list nat := waits_of (prog th).
Definition th_inflight (th : thread) : list nat :=
  match tpc th with PCas w _ => [w] | _ => [] end.
Definition th_pending (th : thread) : list nat :=
  match tpc th with PPop _ rest => rest | _ => [] end.

Definition future (s : st) : list nat := flat_map th_future (thr s).
Definition inflight (s : st) : list nat := flat_map th_inflight (thr s).
Definition pending (s : st) : list nat := flat_map th_pending (thr s).

Definition total (w : nat) (s : st) : nat :=
  cnt w (future s) + cnt w (inflight s) + cnt w (pending s) + cnt w (stk s) + cnt w (resumed s).

(* the chain of next_ fields starting at p is exactly l (and ends in nullptr) *)
Fixpoint linked (nx : nat -> ptr) (p : ptr) (l : list nat) : Prop :=
  match l with
  | [] => p = PNull
  | w :: r => p = POp w /\ linked nx (nx w) r
  end.

Definition th_ok (nx : nat -> ptr) (th : thread) : Prop :=
  match tpc th with
  | PIdle => True
  | PCas w e => nx w = e /\ e <> PSig
  | PPop p rest => linked nx p rest /\ rest <> []
  end.

Definition top_ok (s : st) : Prop :=
  match top s with
  | PSig => stk s = []
  | p => linked (nxt s) p (stk s)
  end.

Definition Inv (W0 : list nat) (s : st) : Prop :=
  top_ok s /\ Forall (th_ok (nxt s)) (thr s) /\ forall w, total w s = cnt w W0.

Lemma linked_upd nx w e p l : cnt w l = 0 -> linked nx p l -> linked (upd nx w e) p l.
Proof.
  revert p; induction l as [|x r IH]; cbn; intros p Hc H; [exact H|].
  destruct H as [-> H]. split; [reflexivity|].
  assert (Hu : upd nx w e x = nx x).
  { unfold upd. destruct (Nat.eqb_spec x w); [lia|reflexivity]. }
  rewrite Hu. apply IH; [|exact H]. destruct (Nat.eqb x w); lia.
Qed.

Lemma th_ok_upd nx w e l :
  Forall (th_ok nx) l -> cnt w (flat_map th_inflight l) = 0 -> cnt w (flat_map th_pending l) = 0 ->
  Forall (th_ok (upd nx w e)) l.
Proof.
  induction 1 as [|th l Hth Hl IH]; cbn; intros H1 H2; constructor.
  - rewrite cnt_app in H1, H2. unfold th_ok, th_inflight, th_pending in *.
    destruct (tpc th) as [|w' e'|p rest]; auto.
    + cbn in H1. destruct Hth as [Hn He]. split; [|exact He].
      unfold upd. destruct (Nat.eqb_spec w' w); [lia|exact Hn].
    + destruct Hth as [Hk Hne]. split; [|exact Hne]. apply linked_upd; [lia|exact Hk].
  - rewrite cnt_app in H1, H2. apply IH; lia.
Qed.

Lemma init_inv sig0 progs : Inv (all_waits progs) (init sig0 progs).
Proof.
  unfold Inv, top_ok, init; cbn. repeat split.
  - destruct sig0; reflexivity.
  - induction progs; cbn; constructor; cbn; auto.
  - intros w. unfold total, future, inflight, pending; cbn.
    assert (H1 : forall l, flat_map th_inflight (map (fun p => {| prog := p; tpc := PIdle |}) l) = []).
    { induction l; cbn; auto. }
    assert (H2 : forall l, flat_map th_pending (map (fun p => {| prog := p; tpc := PIdle |}) l) = []).
    { induction l; cbn; auto. }
    assert (H3 : forall l, flat_map th_future (map (fun p => {| prog := p; tpc := PIdle |}) l) = all_waits l).
    { unfold all_waits. induction l as [|a l IH]; cbn; auto. unfold th_future at 1; cbn. f_equal. exact IH. }
    rewrite H1, H2, H3. cbn. lia.
Qed.

(* ------------------------------------------------------------------------------------------ *)
(* case analysis of one step                                                                  *)

Lemma step_decomp t s s' evs :
  step t s = Some (s', evs) ->
  exists l1 th l2, thr s = l1 ++ th :: l2 /\ nth_error (thr s) t = Some th /\
                   forall b, set_nth t b (thr s) = l1 ++ b :: l2.
Proof.
  unfold step. destruct (nth_error (thr s) t) as [th|] eqn:E; [|discriminate]. intros _.
  destruct (set_nth_split _ _ _ E) as (l1 & l2 & H1 & _ & H3). exists l1, th, l2. auto.
Qed.

Lemma ptr_eqb_eq a b : ptr_eqb a b = true <-> a = b.
Proof.
  destruct a, b; cbn; split; intros H; try discriminate; try reflexivity.
  - apply Nat.eqb_eq in H. now subst.
  - injection H as ->. apply Nat.eqb_refl.
Qed.

Ltac step_cases H :=
  let l1 := fresh "l1" in let th := fresh "th" in let l2 := fresh "l2" in
  let Hthr := fresh "Hthr" in let Hnth := fresh "Hnth" in let Hset := fresh "Hset" in
  let pr := fresh "pr" in let pcx := fresh "pcx" in
  let tp := fresh "tp" in let nx := fresh "nx" in let ths := fresh "ths" in
  let rs := fresh "rs" in let sk := fresh "sk" in
  let cw := fresh "cw" in let ce := fresh "ce" in let pp := fresh "pp" in
  let prest := fresh "prest" in let w := fresh "w" in let tw := fresh "tw" in
  let pw := fresh "pw" in let nw := fresh "nw" in
  let Eeq := fresh "Eeq" in let Enx := fresh "Enx" in
  destruct (step_decomp _ _ _ _ H) as (l1 & th & l2 & Hthr & Hnth & Hset);
  unfold step in H; rewrite Hnth in H; clear Hnth;
  destruct th as [pr pcx];
  cbn [prog tpc] in H;
  match type of Hthr with thr ?s = _ => destruct s as [tp nx ths rs sk] end;
  cbn [top nxt thr resumed stk] in *; subst ths;
  destruct pcx as [|cw ce|pp prest];
  [ destruct pr as [|[| | |w] pr]; [discriminate| | | |]; try destruct tp as [| |tw]
  | destruct (ptr_eqb tp ce) eqn:Eeq; [apply ptr_eqb_eq in Eeq; subst ce | destruct tp as [| |tw]]
  | destruct pp as [| |pw]; [discriminate|discriminate|]; destruct (nx pw) as [| |nw] eqn:Enx ];
  cbn [tl idle] in H; rewrite ?Hset in H; clear Hset; injection H as <- <-.

Local Hint Rewrite flat_map_app cnt_app : cdb.

Ltac norm :=
  unfold total, future, inflight, pending, top_ok, idle in *; cbn [top nxt thr resumed stk] in *;
  autorewrite with cdb in *; cbn [flat_map] in *; autorewrite with cdb in *;
  cbn [th_future th_inflight th_pending prog tpc waits_of flat_map app cnt] in *;
  autorewrite with cdb in *; cbn [cnt] in *.

Lemma Forall_mid {A} (P : A -> Prop) l1 a l2 :
  Forall P (l1 ++ a :: l2) <-> Forall P l1 /\ P a /\ Forall P l2.
Proof. rewrite Forall_app, Forall_cons_iff. tauto. Qed.

Ltac lk :=
  repeat match goal with
  | H : th_ok _ {| prog := _; tpc := _ |} |- _ => unfold th_ok in H; cbn [tpc] in H
  | H : _ /\ _ |- _ => destruct H
  | E : ?nx ?w = _, H : context [?nx ?w] |- _ => rewrite E in H
  | H : linked _ PNull ?l |- _ => destruct l; cbn [linked] in H; [clear H | destruct H; discriminate]
  | H : linked _ (POp _) ?l |- _ => destruct l; cbn [linked] in H; [discriminate | destruct H as [? H]]
  | H : linked _ PSig ?l |- _ => destruct l; cbn [linked] in H; [discriminate | destruct H; discriminate]
  | H : POp _ = POp _ |- _ => injection H as H; subst
  | H : ?l = [] |- _ => subst l
  end; cbn [cnt tl] in *.

Ltac eqs :=
  rewrite ?Nat.eqb_refl in *;
  repeat match goal with
  | |- context [?a =? ?b] => destruct (Nat.eqb_spec a b)
  | H : context [?a =? ?b] |- _ => destruct (Nat.eqb_spec a b)
  end.
Ltac spec_upd Htot :=
  try match goal with |- context [upd _ ?w _] =>
    let Hw := fresh "Hw" in pose proof (Htot w) as Hw end.

Lemma step_total t s s' evs :
  top_ok s -> Forall (th_ok (nxt s)) (thr s) -> step t s = Some (s', evs) ->
  forall w, total w s' = total w s.
Proof.
  intros Htop Hth H w0.
  step_cases H.
  all: rewrite Forall_mid in *; destruct Hth as (Hl1 & Hme & Hl2).
  all: norm.
  all: lk; eqs; try lia.
Qed.

(* the link part of the invariant needs only "every waiter id in at most one class" *)
Definition Inv1 (s : st) : Prop :=
  top_ok s /\ Forall (th_ok (nxt s)) (thr s) /\ forall w, total w s <= 1.

Lemma step_inv1 t s s' evs : Inv1 s -> step t s = Some (s', evs) -> Inv1 s'.
Proof.
  intros (Htop & Hth & Htot) H.
  assert (Htot' : forall w, total w s' <= 1).
  { intros w. erewrite step_total; eauto. }
  split; [|split; [|exact Htot']]; clear Htot'.
  - step_cases H.
    all: rewrite Forall_mid in *; destruct Hth as (Hl1 & Hme & Hl2).
    all: spec_upd Htot; clear Htot.
    all: try (destruct tp; [| |]).
    all: norm.
    all: lk; auto.
    all: try (apply linked_upd; [cbn [cnt]; eqs; lia|]).
    all: cbn [linked]; auto; try congruence.
  - step_cases H.
    all: rewrite Forall_mid in *; destruct Hth as (Hl1 & Hme & Hl2).
    all: spec_upd Htot; clear Htot.
    all: norm.
    all: lk.
    all: apply Forall_mid; split; [|split].
    all: try assumption.
    all: try (apply th_ok_upd; [assumption| |]; eqs; lia).
    all: unfold th_ok; cbn [tpc linked]; auto.
    all: try (unfold upd; rewrite Nat.eqb_refl).
    all: repeat split; auto; try congruence.
Qed.

Lemma Inv_Inv1 W0 s : (forall w, cnt w W0 <= 1) -> Inv W0 s -> Inv1 s.
Proof.
  intros HW (Htop & Hth & Htot). repeat split; auto. intros w. rewrite Htot. apply HW.
Qed.

Lemma step_inv W0 t s s' evs :
  (forall w, cnt w W0 <= 1) -> Inv W0 s -> step t s = Some (s', evs) -> Inv W0 s'.
Proof.
  intros HW HI H. pose proof (Inv_Inv1 _ _ HW HI) as HI1.
  destruct (step_inv1 _ _ _ _ HI1 H) as (Htop' & Hth' & _).
  destruct HI as (Htop & Hth & Htot).
  repeat split; auto. intros w. rewrite <- Htot. eapply step_total; eauto.
Qed.

(* ------------------------------------------------------------------------------------------ *)
(* Part 2: specifications over the observable trace                                           *)

(* (a) the event as a sequential flag: set makes it true, a reset CAS that succeeds makes it
   false, nothing else changes it; every access in the trace must return what the flag says *)
Definition sig_upd (b : bool) (e : ev) : bool :=
  match e with
  | ESetX _ => true
  | EResetCas _ true => false
  | _ => b
  end.

Definition obs_ok (b : bool) (e : ev) : bool :=
  match e with
  | EWaitLoad _ p | EReadyLoad p | ESetX p => Bool.eqb (is_sig p) b
  | EWaitCas _ p ok => Bool.eqb (is_sig p) b && negb (ok && b)
  | EResetCas p ok => Bool.eqb (is_sig p) b && Bool.eqb ok b
  | EReady r => Bool.eqb r b
  | EResume _ => true
  end.

Fixpoint hist_ok (b : bool) (tr : list ev) : bool :=
  match tr with
  | [] => true
  | e :: r => obs_ok b e && hist_ok (sig_upd b e) r
  end.

Definition sig_of (b : bool) (tr : list ev) : bool := fold_left sig_upd tr b.

Lemma hist_ok_app b a c : hist_ok b (a ++ c) = hist_ok b a && hist_ok (sig_of b a) c.
Proof.
  revert b; induction a as [|e a IH]; intros b; cbn; [reflexivity|].
  rewrite IH. now rewrite andb_assoc.
Qed.

Lemma sig_of_app b a c : sig_of b (a ++ c) = sig_of (sig_of b a) c.
Proof. unfold sig_of. apply fold_left_app. Qed.

(* (b) the status of waiter w as the trace shows it *)
Inductive wst :=
| WNone      (* its wait has not touched the event *)
| WFlight    (* it read a non-signalled state and has not yet pushed itself *)
| WObs       (* it read the signalled state at its load or at a failed CAS *)
| WPushed    (* its CAS succeeded and no set() exchange happened since *)
| WTaken.    (* its CAS succeeded and a set() exchange happened afterwards *)

Definition wst_upd (w : nat) (x : wst) (e : ev) : wst :=
  match e with
  | EWaitLoad w' p => if Nat.eqb w' w then (if is_sig p then WObs else WFlight) else x
  | EWaitCas w' p ok =>
      if Nat.eqb w' w then (if ok then WPushed else if is_sig p then WObs else WFlight) else x
  | ESetX _ => match x with WPushed => WTaken | _ => x end
  | _ => x
  end.

Definition wst_of (w : nat) (tr : list ev) : wst := fold_left (wst_upd w) tr WNone.

Definition wrel (w : nat) (s : st) (x : wst) : Prop :=
  match x with
  | WNone => cnt w (inflight s) + cnt w (pending s) + cnt w (stk s) + cnt w (resumed s) = 0
  | WFlight => cnt w (inflight s) = 1
  | WObs => cnt w (resumed s) = 1
  | WPushed => cnt w (stk s) = 1
  | WTaken => cnt w (pending s) + cnt w (resumed s) = 1
  end.

(* (c) the resumptions, oldest first *)
Definition resumes (tr : list ev) : list nat :=
  flat_map (fun e => match e with EResume w => [w] | _ => [] end) tr.

Lemma step_hist t s s' evs :
  Forall (th_ok (nxt s)) (thr s) -> step t s = Some (s', evs) ->
  hist_ok (is_sig (top s)) evs = true /\ is_sig (top s') = sig_of (is_sig (top s)) evs.
Proof.
  intros Hth H.
  step_cases H.
  all: rewrite Forall_mid in *; destruct Hth as (Hl1 & Hme & Hl2).
  all: lk; cbn; auto.
  all: destruct tp; cbn; auto; congruence.
Qed.

Lemma step_resumes t s s' evs :
  step t s = Some (s', evs) -> resumed s' = rev (resumes evs) ++ resumed s.
Proof. intros H. step_cases H. all: reflexivity. Qed.

Lemma step_wrel1 w x t s s' evs :
  Inv1 s -> wrel w s x -> step t s = Some (s', evs) ->
  wrel w s' (fold_left (wst_upd w) evs x).
Proof.
  intros (Htop & Hth & Htot) Hx H.
  pose proof (Htot w) as Hw. clear Htot.
  step_cases H.
  all: rewrite Forall_mid in *; destruct Hth as (Hl1 & Hme & Hl2).
  all: cbn [fold_left wst_upd is_sig].
  all: try destruct tp.
  all: destruct x; unfold wrel in *.
  all: norm.
  all: lk; eqs; try lia.
Qed.

Lemma step_wrel W0 w x t s s' evs :
  (forall w, cnt w W0 <= 1) -> Inv W0 s -> wrel w s x -> step t s = Some (s', evs) ->
  wrel w s' (fold_left (wst_upd w) evs x).
Proof. intros HW HI. apply step_wrel1. eapply Inv_Inv1; eauto. Qed.

(* ------------------------------------------------------------------------------------------ *)
(* Part 3: lifting to all schedules                                                           *)

Definition CInv (sig0 : bool) (W0 : list nat) (c : st * list ev) : Prop :=
  Inv W0 (fst c) /\
  hist_ok sig0 (snd c) = true /\
  is_sig (top (fst c)) = sig_of sig0 (snd c) /\
  (forall w, wrel w (fst c) (wst_of w (snd c))) /\
  resumes (snd c) = rev (resumed (fst c)).

Lemma NoDup_cnt_le l : NoDup l -> forall w, cnt w l <= 1.
Proof. apply cnt_NoDup. Qed.

Lemma cinv_reachable sig0 progs sched :
  NoDup (all_waits progs) ->
  CInv sig0 (all_waits progs) (run step sched (init sig0 progs, [])).
Proof.
  intros Hnd. pose proof (NoDup_cnt_le _ Hnd) as HW.
  apply (run_invariant st nat ev step (CInv sig0 (all_waits progs))).
  - intros c t s' evs (Hinv & Hh & Hs & Hw & Hr) Hstep. unfold CInv; cbn [fst snd].
    pose proof Hinv as (Htop & Hth & Htot).
    destruct (step_hist _ _ _ _ Hth Hstep) as [Hh' Hs'].
    split; [eapply step_inv; eauto|].
    split; [rewrite hist_ok_app, Hh, <- Hs; exact Hh'|].
    split; [rewrite sig_of_app, <- Hs; exact Hs'|].
    split.
    + intros w. unfold wst_of. rewrite fold_left_app. eapply step_wrel; eauto.
    + unfold resumes in *. rewrite flat_map_app. fold (resumes evs).
      rewrite (step_resumes _ _ _ _ Hstep), rev_app_distr, rev_involutive, Hr. reflexivity.
  - unfold CInv; cbn [fst snd]. split; [apply init_inv|].
    repeat split.
    + cbn. destruct sig0; reflexivity.
    + intros w. cbn. unfold inflight, pending; cbn.
      assert (H1 : forall l, flat_map th_inflight (map (fun p => {| prog := p; tpc := PIdle |}) l) = []).
      { induction l; cbn; auto. }
      assert (H2 : forall l, flat_map th_pending (map (fun p => {| prog := p; tpc := PIdle |}) l) = []).
      { induction l; cbn; auto. }
      rewrite H1, H2. reflexivity.
Qed.

Section Theorems.
  Variables (sig0 : bool) (progs : list (list cmd)) (sched : list nat).
  Hypothesis Hnd : NoDup (all_waits progs).
  Let c := run step sched (init sig0 progs, []).
  Let s := fst c.
  Let tr := snd c.

  Lemma reach : CInv sig0 (all_waits progs) c.
  Proof. apply cinv_reachable. exact Hnd. Qed.

  Theorem inv_reachable : Inv (all_waits progs) s.
  Proof. apply reach. Qed.

  (* every waiter id of the programs is in exactly one class, ids not in the programs in none *)
  Theorem classification : forall w,
    total w s = if in_dec Nat.eq_dec w (all_waits progs) then 1 else 0.
  Proof.
    intros w. destruct reach as ((_ & _ & Htot) & _). fold s in Htot. rewrite Htot.
    pose proof (NoDup_cnt_le _ Hnd w).
    destruct (in_dec Nat.eq_dec w (all_waits progs)) as [Hin|Hni].
    - apply cnt_In in Hin. lia.
    - apply cnt_notin in Hni. lia.
  Qed.

  Theorem each_waiter_once : NoDup (resumed s) /\ resumes tr = rev (resumed s).
  Proof.
    split; [|apply reach].
    apply cnt_NoDup. intros w. pose proof (classification w) as H. unfold total in H.
    destruct (in_dec Nat.eq_dec w (all_waits progs)); lia.
  Qed.

  Theorem flag_history : hist_ok sig0 tr = true /\ is_sig (top s) = sig_of sig0 tr.
  Proof. destruct reach as (_ & H1 & H2 & _). auto. Qed.

  Theorem stack_shape :
    (top s = PSig -> stk s = []) /\
    (top s <> PSig -> linked (nxt s) (top s) (stk s)) /\
    (forall w, In w (stk s) <-> wst_of w tr = WPushed) /\
    (forall w, In w (stk s) -> ~ In w (resumed s)).
  Proof.
    destruct reach as ((Htop & _ & _) & _ & _ & Hw & _). fold s tr in Htop, Hw.
    unfold top_ok in Htop.
    split; [intros E; now rewrite E in Htop|].
    split; [intros E; destruct (top s); [exact Htop|congruence|exact Htop]|].
    split.
    - intros w. pose proof (classification w) as Hc. unfold total in Hc. specialize (Hw w).
      rewrite cnt_In.
      destruct (in_dec Nat.eq_dec w (all_waits progs)); destruct (wst_of w tr); cbn in Hw;
        split; intros H; try discriminate; try reflexivity; lia.
    - intros w Hin Hr. apply cnt_In in Hin, Hr.
      pose proof (classification w) as Hc. unfold total in Hc.
      destruct (in_dec Nat.eq_dec w (all_waits progs)); lia.
  Qed.

  (* a waiter is resumed only if it saw the signalled state itself or a set() exchanged the
     stack while it was on it; conversely seeing the signalled state resumes at once, and a
     taken waiter is owed its resumption by the setter that took it *)
  Theorem wait_iff_set : forall w,
    (In w (resumed s) -> wst_of w tr = WObs \/ wst_of w tr = WTaken) /\
    (wst_of w tr = WObs -> In w (resumed s)) /\
    (wst_of w tr = WTaken -> In w (resumed s) \/ In w (pending s)).
  Proof.
    intros w. destruct reach as (_ & _ & _ & Hw & _). fold s tr in Hw. specialize (Hw w).
    pose proof (classification w) as Hc. unfold total in Hc.
    rewrite !cnt_In.
    destruct (in_dec Nat.eq_dec w (all_waits progs)); destruct (wst_of w tr); cbn in Hw;
      repeat split; intros H; try discriminate; auto; try lia.
  Qed.

  Lemma quiescent_classes : quiescent s = true -> future s = [] /\ inflight s = [] /\ pending s = [].
  Proof.
    unfold quiescent, future, inflight, pending. generalize (thr s) as l.
    induction l as [|th l IH]; cbn; [auto|].
    intros H. apply andb_prop in H as [H1 H2]. destruct (IH H2) as (-> & -> & ->).
    unfold th_fin in H1. unfold th_future, th_inflight, th_pending.
    destruct (prog th); [|discriminate]. destruct (tpc th); try discriminate. cbn. auto.
  Qed.

  (* at quiescence: every waiter of the programs was resumed or is still on the stack; one that
     was taken by a set() was resumed whatever resets happened; if the event is signalled at
     the end nobody is left behind *)
  Theorem no_stranded_wait : quiescent s = true ->
    (forall w, In w (all_waits progs) -> In w (resumed s) \/ In w (stk s)) /\
    (forall w, wst_of w tr = WTaken -> In w (resumed s)) /\
    (is_sig (top s) = true -> forall w, In w (all_waits progs) -> In w (resumed s)).
  Proof.
    intros Hq. destruct (quiescent_classes Hq) as (Hf & Hi & Hp).
    assert (H1 : forall w, In w (all_waits progs) -> In w (resumed s) \/ In w (stk s)).
    { intros w Hin. pose proof (classification w) as Hc. unfold total in Hc.
      rewrite Hf, Hi, Hp in Hc. cbn in Hc. rewrite !cnt_In.
      destruct (in_dec Nat.eq_dec w (all_waits progs)); [lia|contradiction]. }
    split; [exact H1|]. split.
    - intros w Hw. destruct (proj2 (proj2 (wait_iff_set w)) Hw) as [H|H]; [exact H|].
      rewrite Hp in H. destruct H.
    - intros Hs w Hin. destruct (H1 w Hin) as [H|H]; [exact H|].
      destruct stack_shape as (Hsig & _). destruct (top s); try discriminate.
      rewrite (Hsig eq_refl) in H. destruct H.
  Qed.

  Lemma forallb_false_nth {A} (f : A -> bool) l :
    forallb f l = false -> exists i p, nth_error l i = Some p /\ f p = false.
  Proof.
    induction l as [|y r IH]; cbn; [discriminate|].
    destruct (f y) eqn:Ey; cbn.
    - intros H. destruct (IH H) as (i & p & Hn & Hp). exists (S i), p. auto.
    - intros _. exists 0, y. auto.
  Qed.

  (* no reachable state is stuck: a thread that has not finished its program can move (the
     setter's cursor is never the wild pointer `this`) *)
  Theorem progress : quiescent s = false -> exists t, step t s <> None.
  Proof.
    intros Hq. destruct (forallb_false_nth _ _ Hq) as (t & th & Hn & Hf).
    exists t. destruct reach as ((_ & Hth & _) & _). fold s in Hth.
    assert (Hok : th_ok (nxt s) th).
    { rewrite Forall_forall in Hth. apply Hth. eapply nth_error_In; eauto. }
    unfold step. rewrite Hn. unfold th_fin, th_ok in *.
    destruct (tpc th) as [|w e|p rest].
    - destruct (prog th) as [|[| | |w] r]; [discriminate| | | |].
      + discriminate.
      + destruct (top s); discriminate.
      + discriminate.
      + destruct (top s); discriminate.
    - destruct (ptr_eqb (top s) e); [discriminate|]. destruct (top s); discriminate.
    - destruct Hok as [Hl Hne]. destruct rest as [|x r]; [congruence|].
      cbn in Hl. destruct Hl as [-> _]. discriminate.
  Qed.
End Theorems.

(* a reset (successful or not) changes nothing but the flag word *)
Theorem reset_only_flag t s s' evs p ok :
  step t s = Some (s', evs) -> In (EResetCas p ok) evs ->
  resumed s' = resumed s /\ stk s' = stk s /\ nxt s' = nxt s /\
  pending s' = pending s /\ inflight s' = inflight s /\
  (top s' = if ok then PNull else top s).
Proof.
  intros H Hin. step_cases H.
  all: cbn in Hin; repeat (destruct Hin as [Hin|Hin]; try discriminate); try contradiction.
  all: injection Hin as <- <-.
  all: unfold pending, inflight; cbn [thr]; rewrite !flat_map_app; cbn; repeat split; auto.
Qed.

(* ------------------------------------------------------------------------------------------ *)
(* the auxiliary lists never influence the real state or the events                           *)

Definition erase_th (th : thread) : thread :=
  {| prog := prog th;
     tpc := match tpc th with PPop p _ => PPop p [] | x => x end |}.
Definition erase (s : st) : st :=
  {| top := top s; nxt := nxt s; thr := map erase_th (thr s); resumed := resumed s; stk := [] |}.

Lemma set_nth_map {A B} (f : A -> B) t a l : set_nth t (f a) (map f l) = map f (set_nth t a l).
Proof. revert t; induction l as [|y r IH]; intros [|t]; cbn; auto. now rewrite IH. Qed.

Lemma erase_th_idem th : erase_th (erase_th th) = erase_th th.
Proof. destruct th as [pr [| |]]; reflexivity. Qed.

Lemma erase_set_nth t x x' l :
  erase_th x = erase_th x' ->
  map erase_th (set_nth t x (map erase_th l)) = map erase_th (set_nth t x' l).
Proof.
  intros Hx. revert t; induction l as [|y r IH]; intros [|t]; cbn; auto.
  - rewrite Hx. f_equal. rewrite map_map. apply map_ext. intros; apply erase_th_idem.
  - rewrite erase_th_idem, IH. reflexivity.
Qed.

Definition erase_res (r : option (st * list ev)) : option (st * list ev) :=
  match r with Some (s', evs) => Some (erase s', evs) | None => None end.

(* stepping the erased state gives the same events and the same erased successor *)
Theorem step_erase t s : erase_res (step t (erase s)) = erase_res (step t s).
Proof.
  destruct s as [tp nx ths rs sk]. unfold erase. unfold step. cbn [thr top nxt resumed stk].
  rewrite nth_error_map.
  destruct (nth_error ths t) as [[pr pcx]|] eqn:E; cbn [option_map]; [|reflexivity].
  unfold erase_th at 1 2 3. cbn [prog tpc].
  destruct pcx as [|w e|p rest].
  - destruct pr as [|[| | |w] r]; [reflexivity| | | |]; cbn [tl idle];
      try destruct tp; unfold erase_res, erase; cbn [thr top nxt resumed stk];
      do 3 f_equal; apply erase_set_nth; reflexivity.
  - destruct (ptr_eqb tp e); [|destruct tp];
      unfold erase_res, erase; cbn [thr top nxt resumed stk];
      do 3 f_equal; apply erase_set_nth; reflexivity.
  - destruct p as [| |pw]; [reflexivity|reflexivity|].
    destruct (nx pw); unfold erase_res, erase; cbn [thr top nxt resumed stk];
      do 3 f_equal; apply erase_set_nth; reflexivity.
Qed.

(* ------------------------------------------------------------------------------------------ *)
(* used by the auto-reset event (Proto/AutoResetProofs.v): a waiter enters "popped-pending or
   resumed" only through a step that leaves the event signalled; no step other than a reset
   clears the flag *)
Lemma step_sigP t s s' evs w :
  Forall (th_ok (nxt s)) (thr s) -> step t s = Some (s', evs) ->
  (forall p ok, ~ In (EResetCas p ok) evs) ->
  1 <= cnt w (pending s') + cnt w (resumed s') ->
  (1 <= cnt w (pending s) + cnt w (resumed s) /\ is_sig (top s') = is_sig (top s)) \/
  is_sig (top s') = true.
Proof.
  intros Hth H Hnr HP.
  step_cases H.
  all: rewrite Forall_mid in *; destruct Hth as (Hl1 & Hme & Hl2).
  all: try (exfalso; eapply Hnr; left; reflexivity).
  all: norm.
  all: lk.
  all: try (right; reflexivity).
  all: left; split; [eqs; lia|]; cbn; try reflexivity.
  all: destruct tp; cbn; congruence.
Qed.
