(* Proofs about the E1 model StopImmediately (Proto/StopImmediatelyDefs.v).

   The model has no unbounded parameter (the number of elements, the outcome of every next(source)
   and all timings are chosen by the schedule; the model is cyclic) and finitely many states.  The
   proofs are by *complete* reachability done inside Coq, as in Proto/FutureProofs.v:

     reach p     a list of states computed by a work-list search from init p;
     closed      a boolean check that the list contains init p and every successor (by any of the
                 five thread ids) of every member;
     reach_inv   closed L = true -> for EVERY schedule (any length, any thread ids) the state after
                 the run from init p is a member of L (induction on the schedule through
                 Base/Sched.run_invariant_state; thread ids >= 5 cannot move).

   A property is then checked on every member of reach p (forallb ... = true by vm_compute) and
   transported to all runs by reach_inv; trace properties go through a checked per-step relation
   (conf_inv).  Nothing is sampled: were the search incomplete, closed would evaluate to false. *)
From Coq Require Import List Bool Arith Lia.
From V Require Import Base.Sched Proto.StopImmediatelyDefs.
Import ListNotations.
Import StopImmediately.

(* ------------------------------------------------------------------------------------------ *)
(* decidable equality of states                                                               *)

Definition sstate_eq_dec (a b : sstate) : {a = b} + {a <> b}. Proof. decide equality. Defined.
Definition kind_eq_dec (a b : kind) : {a = b} + {a <> b}. Proof. decide equality. Defined.
Definition ctx_eq_dec (a b : ctx) : {a = b} + {a <> b}. Proof. decide equality. Defined.
Definition cbmode_eq_dec (a b : cbmode) : {a = b} + {a <> b}. Proof. decide equality. Defined.
Definition opst_eq_dec (a b : opst) : {a = b} + {a <> b}. Proof. decide equality. Defined.
Definition params_eq_dec (a b : params) : {a = b} + {a <> b}. Proof. decide equality; apply bool_dec. Defined.
Definition mem_eq_dec (a b : mem) : {a = b} + {a <> b}.
Proof. decide equality; try apply bool_dec; try apply Nat.eq_dec; try apply sstate_eq_dec; apply cbmode_eq_dec. Defined.
Definition ghost_eq_dec (a b : ghost) : {a = b} + {a <> b}.
Proof. decide equality; try apply bool_dec; apply opst_eq_dec. Defined.
Definition pcT_eq_dec (a b : pcT) : {a = b} + {a <> b}.
Proof. decide equality; try apply bool_dec; apply ctx_eq_dec. Defined.
Definition st_eq_dec (a b : st) : {a = b} + {a <> b}.
Proof.
  decide equality; try apply kind_eq_dec; try apply pcT_eq_dec; try apply ghost_eq_dec;
    try apply mem_eq_dec; apply params_eq_dec.
Defined.

Definition mem_st (x : st) (L : list st) : bool := if in_dec st_eq_dec x L then true else false.

Lemma mem_st_In x L : mem_st x L = true <-> In x L.
Proof. unfold mem_st. destruct (in_dec st_eq_dec x L); split; auto; discriminate. Qed.

(* ------------------------------------------------------------------------------------------ *)
(* complete reachability                                                                      *)

Definition tids : list nat := [0; 1; 2; 3; 4].

Definition succs (s : st) : list st :=
  flat_map (fun t => match step t s with Some (s', _) => [s'] | None => [] end) tids.

Fixpoint explore (fuel : nat) (seen todo : list st) : list st :=
  match fuel with
  | O => seen
  | S f =>
      match todo with
      | [] => seen
      | s :: rest =>
          if mem_st s seen then explore f seen rest
          else explore f (s :: seen) (succs s ++ rest)
      end
  end.

Definition reach (p : params) : list st := explore 5000 [] [init p].

Definition closed (p : params) (L : list st) : bool :=
  mem_st (init p) L && forallb (fun s => forallb (fun s' => mem_st s' L) (succs s)) L.

Lemma step_tid t s : 5 <= t -> step t s = None.
Proof.
  intros H. unfold step. destruct t as [|[|[|[|[|t]]]]]; try lia. reflexivity.
Qed.

Lemma tid_in t : t < 5 -> In t tids.
Proof. intros H. destruct t as [|[|[|[|[|t]]]]]; cbn; auto 10. lia. Qed.

Lemma succs_step t s s' evs : step t s = Some (s', evs) -> In s' (succs s).
Proof.
  intros H. unfold succs. apply in_flat_map.
  destruct (le_lt_dec 5 t) as [Hge|Hlt].
  - rewrite (step_tid t s Hge) in H. discriminate.
  - exists t. split; [apply tid_in; exact Hlt|]. rewrite H. left. reflexivity.
Qed.

Theorem reach_inv p L :
  closed p L = true ->
  forall (sched : list nat) (tr : list ev), In (fst (run step sched (init p, tr))) L.
Proof.
  intros Hc sched tr. unfold closed in Hc. apply andb_true_iff in Hc as [Hi Hs].
  apply (run_invariant_state st nat ev step (fun s => In s L)).
  - intros s t s' evs Hin Hst. rewrite forallb_forall in Hs.
    specialize (Hs s Hin). rewrite forallb_forall in Hs.
    apply mem_st_In. apply Hs. eapply succs_step; eauto.
  - apply mem_st_In. exact Hi.
Qed.

Corollary reach_forall p L (P : st -> bool) :
  closed p L = true -> forallb P L = true ->
  forall (sched : list nat) (tr : list ev), P (fst (run step sched (init p, tr))) = true.
Proof.
  intros Hc HP sched tr. rewrite forallb_forall in HP. apply HP. apply reach_inv. exact Hc.
Qed.

Definition all_params (f : params -> bool) : bool :=
  forallb (fun a => forallb (fun b => forallb (fun c =>
     f {| p_fix_start := a; p_fix_signal := b; p_stop := c |})
     [false; true]) [false; true]) [false; true].

Lemma all_params_sound f : all_params f = true -> forall p, f p = true.
Proof.
  unfold all_params. intros H [a b c].
  assert (Hin : forall x : bool, In x [false; true]) by (intros []; cbn; auto).
  rewrite forallb_forall in H. specialize (H a (Hin a)).
  rewrite forallb_forall in H. specialize (H b (Hin b)).
  rewrite forallb_forall in H. exact (H c (Hin c)).
Qed.

Lemma reach_closed_all : all_params (fun p => closed p (reach p)) = true.
Proof. vm_cast_no_check (eq_refl true). Qed.

Lemma reach_closed p : closed p (reach p) = true.
Proof. apply (all_params_sound _ reach_closed_all). Qed.

Definition chk_cfg (p : params) (s : st) : bool := if params_eq_dec (cfg s) p then true else false.
Lemma cfg_reach : all_params (fun p => forallb (chk_cfg p) (reach p)) = true.
Proof. vm_cast_no_check (eq_refl true). Qed.

Lemma implb_elim a b : implb a b = true -> a = true -> b = true.
Proof. intros H ->. exact H. Qed.

Lemma all_runs (cond : params -> bool) (P : st -> bool) :
  all_params (fun p => implb (cond p) (forallb P (reach p))) = true ->
  forall p sched tr, cond p = true -> P (fst (run step sched (init p, tr))) = true.
Proof.
  intros H p sched tr Hc.
  exact (reach_forall p (reach p) P (reach_closed p)
           (implb_elim _ _ (all_params_sound _ H p) Hc) sched tr).
Qed.

(* per-step relations checked on every reachable state *)
Definition step_checked (R : st -> st -> list ev -> bool) (s : st) : bool :=
  forallb (fun t => match step t s with Some (s', evs) => R s s' evs | None => true end) tids.

Lemma step_checked_sound R s t s' evs :
  step_checked R s = true -> step t s = Some (s', evs) -> R s s' evs = true.
Proof.
  intros H Hs. unfold step_checked in H. rewrite forallb_forall in H.
  destruct (le_lt_dec 5 t) as [Hge|Hlt]; [rewrite (step_tid t s Hge) in Hs; discriminate|].
  specialize (H t (tid_in t Hlt)). rewrite Hs in H. exact H.
Qed.

Lemma conf_inv_L p L (R : st -> st -> list ev -> bool) (Q : conf st ev -> Prop) :
  closed p L = true -> forallb (step_checked R) L = true ->
  (forall c s' evs, R (fst c) s' evs = true -> Q c -> Q (s', snd c ++ evs)) ->
  Q (init p, []) ->
  forall sched, Q (run step sched (init p, [])).
Proof.
  intros Hcl Hp HQ H0 sched.
  unfold closed in Hcl. apply andb_true_iff in Hcl as [Hi Hcl].
  rewrite forallb_forall in Hp. rewrite forallb_forall in Hcl.
  assert (HI : In (fst (run step sched (init p, []))) L /\ Q (run step sched (init p, []))).
  { apply (run_invariant st nat ev step (fun c => In (fst c) L /\ Q c)).
    - intros c t s' evs [Hin Hq] Hs. split.
      + cbn [fst]. specialize (Hcl _ Hin). rewrite forallb_forall in Hcl.
        apply mem_st_In, Hcl. eapply succs_step; eauto.
      + apply HQ; [|exact Hq]. eapply step_checked_sound; eauto.
    - split; [|exact H0]. cbn [fst]. apply mem_st_In. exact Hi. }
  tauto.
Qed.

Lemma conf_inv (cond : params -> bool) (R : st -> st -> list ev -> bool) (Q : conf st ev -> Prop) :
  all_params (fun p => implb (cond p) (forallb (step_checked R) (reach p))) = true ->
  (forall c s' evs, R (fst c) s' evs = true -> Q c -> Q (s', snd c ++ evs)) ->
  forall p, cond p = true -> Q (init p, []) ->
  forall sched, Q (run step sched (init p, [])).
Proof.
  intros H HQ p Hc H0.
  exact (conf_inv_L p (reach p) R Q (reach_closed p)
           (implb_elim _ _ (all_params_sound _ H p) Hc) HQ H0).
Qed.

Definition final (p : params) (sched : list nat) : st := fst (run step sched (init p, [])).

Lemma cfg_final p sched : cfg (final p sched) = p.
Proof.
  pose proof (reach_forall p (reach p) (chk_cfg p) (reach_closed p)
                (all_params_sound _ cfg_reach p) sched []) as H.
  unfold final. unfold chk_cfg in H.
  destruct (params_eq_dec (cfg (fst (run step sched (init p, [])))) p); [auto|discriminate].
Qed.

(* ------------------------------------------------------------------------------------------ *)
(* the boolean checkers                                                                       *)

Definition fixed (p : params) : bool := p_fix_start p && p_fix_signal p.
Definition any (p : params) : bool := true.

Definition enabled (t : nat) (s : st) : bool := match step t s with Some _ => true | None => false end.

(* the thread whose stop callback has taken the receiver and has not yet delivered done *)
Definition won_pc (p : pcT) : bool :=
  match p with CbSrcSet _ | CbSrcEnd _ | CbDeregAcq _ | CbDeregRel _ => true | _ => false end.
Definition won_tid (s : st) : option nat :=
  if won_pc (t0pc s) then Some 0
  else if won_pc (tcpc s) then Some 2
  else if won_pc (tapc s) then Some (match ak s with KVal => 1 | KDone => 3 | KErr => 4 end)
  else None.
(* threads that hold the lock of the consumer's stop source are never blocked *)
Definition holder_pc (p : pcT) : bool :=
  match p with NRegRel | CbDeregRel _ | HDeregRel _ | SUnlock _ | SRelRel => true | _ => false end.

(* 1. protocol safety: no assertion of the code fails, every op-state is used in protocol (the
      consumer's next() never completes twice, cleanup(source) never starts while next(source) is
      outstanding, ...), the stop callback that took the receiver completes next() with done *)
Definition chk_protocol (s : st) : bool := negb (bad (g s)) && negb (wrong (g s)).

(* 2. no step touches a destroyed op-state or the destroyed stream *)
Definition chk_nouaf (s : st) : bool := negb (uaf (g s)).

(* 3. done at once: the thread that took the receiver needs nobody but (momentarily) the holder
      of the stop source's lock, who can always move: it never waits for the source *)
Definition chk_at_once (s : st) : bool :=
  match won_tid s with
  | None => true
  | Some t =>
      enabled t s ||
      (ext_locked (m s) &&
       existsb (fun t' => negb (t' =? t) && enabled t' s &&
                          holder_pc (match t' with 0 => t0pc s | 2 => tcpc s | _ => tapc s end)) tids)
  end.

(* 4. the abandoned next(source) is awaited by cleanup: when cleanup() has completed nothing of the
      source is outstanding or alive, cleanup(source) ran (and was destroyed) iff a next(source)
      was ever started, the stop request was forwarded to the source iff the callback won *)
Definition chk_awaited (s : st) : bool :=
  implb (finished (g s))
    (negb (src_out (m s)) && negb (scl_out (m s)) && opst_eqb (snop (g s)) ONone &&
     negb (nop_alive (g s)) && negb (cop_alive (g s)) &&
     opst_eqb (scop (g s)) (if src_ever (g s) then ODead else ONone)) &&
  implb (scl_out (m s)) (negb (src_out (m s)) && opst_eqb (snop (g s)) ONone && opst_eqb (scop (g s)) OStarted) &&
  implb (negb (si_src (m s) =? 0)) (cb_won (g s)) &&
  implb (cb_won (g s) && finished (g s)) (si_src (m s) =? 1).

(* 5. progress *)
Definition chk_progress (s : st) : bool := quiescent s || existsb (fun t => enabled t s) tids.

Lemma chk_protocol_ok : all_params (fun p => implb (any p) (forallb chk_protocol (reach p))) = true.
Proof. vm_cast_no_check (eq_refl true). Qed.
Lemma chk_nouaf_ok : all_params (fun p => implb (fixed p) (forallb chk_nouaf (reach p))) = true.
Proof. vm_cast_no_check (eq_refl true). Qed.
Lemma chk_at_once_ok : all_params (fun p => implb (any p) (forallb chk_at_once (reach p))) = true.
Proof. vm_cast_no_check (eq_refl true). Qed.
Lemma chk_awaited_ok : all_params (fun p => implb (any p) (forallb chk_awaited (reach p))) = true.
Proof. vm_cast_no_check (eq_refl true). Qed.
Lemma chk_progress_ok : all_params (fun p => implb (any p) (forallb chk_progress (reach p))) = true.
Proof. vm_cast_no_check (eq_refl true). Qed.

Lemma opst_eqb_eq a b : opst_eqb a b = true -> a = b.
Proof. destruct a, b; cbn; intros H; try reflexivity; discriminate. Qed.

Section Main.
  Variable p : params.
  Variable sched : list nat.
  Let s := final p sched.

  Theorem protocol_safe : bad (g s) = false /\ wrong (g s) = false.
  Proof.
    pose proof (all_runs any chk_protocol chk_protocol_ok p sched [] eq_refl) as H.
    fold (final p sched) in H. fold s in H. unfold chk_protocol in H.
    apply andb_true_iff in H as [H1 H2]. split; apply negb_true_iff; assumption.
  Qed.

  Theorem no_touch_after_destroy :
    p_fix_start p = true -> p_fix_signal p = true -> uaf (g s) = false.
  Proof.
    intros H1 H2.
    assert (Hc : fixed p = true) by (unfold fixed; rewrite H1, H2; reflexivity).
    pose proof (all_runs fixed chk_nouaf chk_nouaf_ok p sched [] Hc) as H.
    fold (final p sched) in H. fold s in H. unfold chk_nouaf in H. apply negb_true_iff. exact H.
  Qed.

  Theorem done_at_once :
    forall t, won_tid s = Some t ->
      step t s <> None \/
      (ext_locked (m s) = true /\ exists t', t' <> t /\ step t' s <> None /\
         holder_pc (match t' with 0 => t0pc s | 2 => tcpc s | _ => tapc s end) = true).
  Proof.
    intros t Ht.
    pose proof (all_runs any chk_at_once chk_at_once_ok p sched [] eq_refl) as H.
    fold (final p sched) in H. fold s in H. unfold chk_at_once in H. rewrite Ht in H.
    apply orb_true_iff in H as [H|H].
    - left. unfold enabled in H. destruct (step t s); [discriminate|discriminate H].
    - right. apply andb_true_iff in H as [Hl H]. split; [exact Hl|].
      apply existsb_exists in H as (t' & _ & H).
      apply andb_true_iff in H as [H Hh]. apply andb_true_iff in H as [Hn He].
      exists t'. split; [|split].
      + apply negb_true_iff, Nat.eqb_neq in Hn. exact Hn.
      + unfold enabled in He. destruct (step t' s); [discriminate|discriminate He].
      + exact Hh.
  Qed.

  Theorem abandoned_next_awaited_by_cleanup :
    (finished (g s) = true ->
       src_out (m s) = false /\ scl_out (m s) = false /\ snop (g s) = ONone /\
       nop_alive (g s) = false /\ cop_alive (g s) = false /\
       scop (g s) = (if src_ever (g s) then ODead else ONone)) /\
    (scl_out (m s) = true -> src_out (m s) = false /\ snop (g s) = ONone /\ scop (g s) = OStarted) /\
    (si_src (m s) <> 0 -> cb_won (g s) = true) /\
    (cb_won (g s) = true -> finished (g s) = true -> si_src (m s) = 1).
  Proof.
    pose proof (all_runs any chk_awaited chk_awaited_ok p sched [] eq_refl) as H.
    fold (final p sched) in H. fold s in H. unfold chk_awaited in H.
    apply andb_true_iff in H as [H H4]. apply andb_true_iff in H as [H H3].
    apply andb_true_iff in H as [H1 H2].
    split; [|split; [|split]].
    - intros Hf. rewrite Hf in H1. cbn [implb] in H1.
      apply andb_true_iff in H1 as [H1 Hf6]. apply andb_true_iff in H1 as [H1 Hf5].
      apply andb_true_iff in H1 as [H1 Hf4]. apply andb_true_iff in H1 as [H1 Hf3].
      apply andb_true_iff in H1 as [Hf1 Hf2].
      apply negb_true_iff in Hf1, Hf2, Hf4, Hf5. apply opst_eqb_eq in Hf3, Hf6.
      repeat split; assumption.
    - intros Hf. rewrite Hf in H2. cbn in H2.
      apply andb_true_iff in H2 as [H2 Hc]. apply andb_true_iff in H2 as [Ha Hb].
      apply negb_true_iff in Ha. apply opst_eqb_eq in Hb. apply opst_eqb_eq in Hc. tauto.
    - intros Hn. destruct (si_src (m s) =? 0) eqn:E; [apply Nat.eqb_eq in E; contradiction|].
      cbn in H3. exact H3.
    - intros Hw Hf. rewrite Hw, Hf in H4. cbn in H4. apply Nat.eqb_eq. exact H4.
  Qed.

  Theorem progress : quiescent s = false -> exists t, step t s <> None.
  Proof.
    intros Hq.
    pose proof (all_runs any chk_progress chk_progress_ok p sched [] eq_refl) as H.
    fold (final p sched) in H. fold s in H. unfold chk_progress in H. rewrite Hq in H.
    cbn [orb] in H. apply existsb_exists in H as (t & _ & Ht). exists t.
    unfold enabled in Ht. destruct (step t s); [discriminate|discriminate Ht].
  Qed.
End Main.

(* ------------------------------------------------------------------------------------------ *)
(* trace level                                                                                *)

(* the life of the consumer, read off the trace: no next-op / a next() outstanding / cleanup()
   outstanding / finished.  walk returns None as soon as an event comes out of order: a next()
   completing twice or without having been started, a next() started before the previous one
   completed or after done / error, cleanup completing twice, ... *)
Inductive phase := PhIdle | PhOpen | PhCleanup | PhFinished.

Definition phase_step (ph : phase) (e : ev) : option phase :=
  match e, ph with
  | EConsNextCtor, PhIdle => Some PhOpen
  | EConsNextCtor, _ => None
  | EConsNext KVal, PhOpen => Some PhIdle
  | EConsNext _, PhOpen => Some PhCleanup
  | EConsNext _, _ => None
  | EConsCleanup _, PhCleanup => Some PhFinished
  | EConsCleanup _, _ => None
  | _, _ => Some ph
  end.

Fixpoint walk (ph : phase) (tr : list ev) : option phase :=
  match tr with
  | [] => Some ph
  | e :: r => match phase_step ph e with Some ph' => walk ph' r | None => None end
  end.

Lemma walk_app ph a b :
  walk ph (a ++ b) = match walk ph a with Some ph' => walk ph' b | None => None end.
Proof.
  revert ph. induction a as [|e r IH]; intros ph; cbn; [reflexivity|].
  destruct (phase_step ph e); [apply IH|reflexivity].
Qed.

Definition phase_of (s : st) : phase :=
  if finished (g s) then PhFinished
  else if cop_alive (g s) then PhCleanup
  else if nop_alive (g s) then PhOpen else PhIdle.

Definition phase_eqb (a b : phase) : bool :=
  match a, b with
  | PhIdle, PhIdle | PhOpen, PhOpen | PhCleanup, PhCleanup | PhFinished, PhFinished => true
  | _, _ => false
  end.
Lemma phase_eqb_eq a b : phase_eqb a b = true -> a = b.
Proof. destruct a, b; cbn; intros H; try reflexivity; discriminate. Qed.

Definition R_phase (s s' : st) (evs : list ev) : bool :=
  match walk (phase_of s) evs with Some ph => phase_eqb ph (phase_of s') | None => false end.

Lemma R_phase_ok : all_params (fun p => implb (any p) (forallb (step_checked R_phase) (reach p))) = true.
Proof. vm_cast_no_check (eq_refl true). Qed.

(* every next() of the consumer completes exactly once and the rounds do not overlap; nothing
   follows done / error but one cleanup(), which completes at most once *)
Theorem trace_rounds p sched :
  let c := run step sched (init p, []) in walk PhIdle (snd c) = Some (phase_of (fst c)).
Proof.
  cbv zeta.
  apply (conf_inv any R_phase (fun c => walk PhIdle (snd c) = Some (phase_of (fst c))) R_phase_ok);
    [|reflexivity|reflexivity].
  intros c s' evs HR HQ. cbn [fst snd]. unfold R_phase in HR.
  rewrite walk_app, HQ.
  destruct (walk (phase_of (fst c)) evs) as [ph|]; [|discriminate].
  apply phase_eqb_eq in HR. rewrite HR. reflexivity.
Qed.

Corollary quiescent_all_completed p sched :
  let c := run step sched (init p, []) in
  quiescent (fst c) = true -> walk PhIdle (snd c) = Some PhFinished.
Proof.
  cbv zeta. intros Hq. rewrite trace_rounds. unfold phase_of.
  unfold quiescent in Hq. apply andb_true_iff in Hq as [Hf _]. rewrite Hf. reflexivity.
Qed.

(* no element delivered twice, none invented: values reach the consumer only out of the pending
   value completion of the source *)
Definition is_consv (e : ev) : bool := match e with EConsNext KVal => true | _ => false end.
Definition is_srcv (e : ev) : bool := match e with ESrcNextComplete KVal => true | _ => false end.
Definition count (f : ev -> bool) (tr : list ev) : nat := length (filter f tr).

Lemma count_app f a b : count f (a ++ b) = count f a + count f b.
Proof. unfold count. rewrite filter_app, app_length. reflexivity. Qed.

(* a value completion of the source that has been neither delivered nor discarded yet *)
Definition pendv (s : st) : nat :=
  match tapc s with
  | HLoad | HCas1 | HCas2 | HDeregAcq | HDeregRel _ | HDeregWait =>
      match ak s with KVal => 1 | _ => 0 end
  | _ => 0
  end.

Definition R_values (s s' : st) (evs : list ev) : bool :=
  (count is_consv evs + pendv s' <=? pendv s + count is_srcv evs) && (count is_consv evs <=? pendv s).

Lemma R_values_ok : all_params (fun p => implb (any p) (forallb (step_checked R_values) (reach p))) = true.
Proof. vm_cast_no_check (eq_refl true). Qed.

Theorem trace_values p sched :
  let c := run step sched (init p, []) in
  count is_consv (snd c) + pendv (fst c) <= count is_srcv (snd c).
Proof.
  cbv zeta.
  apply (conf_inv any R_values
           (fun c => count is_consv (snd c) + pendv (fst c) <= count is_srcv (snd c)) R_values_ok);
    [|reflexivity|cbn; lia].
  intros c s' evs HR HQ. cbn [fst snd]. unfold R_values in HR.
  apply andb_true_iff in HR as [HR _]. apply Nat.leb_le in HR.
  rewrite !count_app. lia.
Qed.

(* the stop callback takes the receiver at most once, and then the consumer gets no value any more *)
Definition is_won (e : ev) : bool := match e with EStC CsCb _ _ true => true | _ => false end.
Definition R_won (s s' : st) (evs : list ev) : bool :=
  (count is_won evs + (if cb_won (g s) then 1 else 0) =? (if cb_won (g s') then 1 else 0)) &&
  implb (cb_won (g s)) (count is_consv evs =? 0).
Lemma R_won_ok : all_params (fun p => implb (any p) (forallb (step_checked R_won) (reach p))) = true.
Proof. vm_cast_no_check (eq_refl true). Qed.

Fixpoint no_value_after_won (tr : list ev) : bool :=
  match tr with
  | [] => true
  | e :: r => if is_won e then (count is_consv r =? 0) else no_value_after_won r
  end.

Lemma nvaw_app_fresh a b : count is_won a = 0 -> no_value_after_won (a ++ b) = no_value_after_won b.
Proof.
  induction a as [|e r IH]; cbn; [reflexivity|]. unfold count in *. cbn.
  destruct (is_won e); cbn; [discriminate|]. exact IH.
Qed.
Lemma nvaw_app_won a b :
  no_value_after_won a = true -> count is_won a <> 0 -> count is_consv b = 0 ->
  no_value_after_won (a ++ b) = true.
Proof.
  induction a as [|e r IH]; intros Ha Hw Hb.
  - exfalso. apply Hw. reflexivity.
  - cbn [app no_value_after_won] in *. unfold count in Hw. cbn [filter] in Hw.
    destruct (is_won e) eqn:E.
    + apply Nat.eqb_eq in Ha. rewrite count_app, Ha, Hb. reflexivity.
    + apply IH; [exact Ha|exact Hw|exact Hb].
Qed.
(* within one step the winning CAS is the only event *)
Definition R_won_alone (s s' : st) (evs : list ev) : bool :=
  implb (negb (count is_won evs =? 0)) ((length evs =? 1) && negb (cb_won (g s))).
Definition R_won2 (s s' : st) (evs : list ev) : bool := R_won s s' evs && R_won_alone s s' evs.
Lemma R_won2_ok : all_params (fun p => implb (any p) (forallb (step_checked R_won2) (reach p))) = true.
Proof. vm_cast_no_check (eq_refl true). Qed.

Lemma nvaw_no_won evs : count is_won evs = 0 -> no_value_after_won evs = true.
Proof.
  induction evs as [|e r IH]; [reflexivity|]. unfold count in *. cbn.
  destruct (is_won e); cbn; [discriminate|]. exact IH.
Qed.

Theorem trace_stop_ends_values p sched :
  let c := run step sched (init p, []) in
  count is_won (snd c) = (if cb_won (g (fst c)) then 1 else 0) /\
  no_value_after_won (snd c) = true.
Proof.
  cbv zeta.
  apply (conf_inv any R_won2
           (fun c => count is_won (snd c) = (if cb_won (g (fst c)) then 1 else 0) /\
                     no_value_after_won (snd c) = true) R_won2_ok);
    [|reflexivity|split; reflexivity].
  intros c s' evs HR [HQ1 HQ2]. cbn [fst snd].
  unfold R_won2 in HR. apply andb_true_iff in HR as [HR HA]. unfold R_won in HR. unfold R_won_alone in HA.
  apply andb_true_iff in HR as [HR1 HR2]. apply Nat.eqb_eq in HR1.
  split.
  - rewrite count_app, HQ1, Nat.add_comm. exact HR1.
  - destruct (cb_won (g (fst c))) eqn:Ew.
    + cbn in HR2. apply Nat.eqb_eq in HR2. apply nvaw_app_won; [exact HQ2| |exact HR2].
      rewrite HQ1. discriminate.
    + rewrite nvaw_app_fresh; [|exact HQ1].
      destruct (count is_won evs =? 0) eqn:E0.
      * apply Nat.eqb_eq in E0. apply nvaw_no_won. exact E0.
      * cbn in HA. apply andb_true_iff in HA as [HL _]. apply Nat.eqb_eq in HL.
        destruct evs as [|e [|e' r]]; try discriminate. cbn.
        destruct (is_won e); reflexivity.
Qed.

(* ------------------------------------------------------------------------------------------ *)
(* the code as written violates no_touch_after_destroy in two ways                            *)

Definition p_finding9 : params := {| p_fix_start := false; p_fix_signal := true; p_stop := true |}.
Definition p_finding9b : params := {| p_fix_start := true; p_fix_signal := false; p_stop := true |}.

(* T0: the first next-op, stop_requested() = false, nextOp_ constructed, state_ := active;
   TC: request_stop (no callback registered yet); T0: the registration sees the stop bit and
   runs the callback inline: active -> stopped, request_stop on the source, done delivered, the
   consumer destroys the next-op, constructs and starts cleanup (stopped -> cleanup_requested);
   back in start(): stream_ is read from the destroyed next-op *)
Definition sched_finding9 : list nat := [0; 0; 0; 2; 2; 0; 0; 0; 0; 0; 0; 0; 0].

Theorem no_touch_after_destroy_refuted_start :
  exists sched,
    let c := run step sched (init p_finding9, []) in
    uaf (g (fst c)) = true /\ nop_alive (g (fst c)) = false /\
    In ESrcStartBad (snd c) /\ bad (g (fst c)) = false.
Proof. exists sched_finding9. vm_compute. repeat split; auto 40. Qed.

(* T0 starts the first next(); TC: request_stop pops the callback: active -> stopped, done
   delivered, cleanup requested; TA completes next(source) with done: handle_signal destroys
   nextOp_ (holding the receiver), loads cleanup_requested and reads the receiver's stream_ *)
Definition sched_finding9b : list nat := [0; 0; 0; 0; 0; 0; 2; 2; 2; 2; 2; 2; 2; 2; 2; 2; 3; 3].

Theorem no_touch_after_destroy_refuted_signal :
  exists sched,
    let c := run step sched (init p_finding9b, []) in
    uaf (g (fst c)) = true /\ snop (g (fst c)) = ONone /\
    In EDeadReceiver (snd c) /\ bad (g (fst c)) = false.
Proof. exists sched_finding9b. vm_compute. repeat split; auto 60. Qed.
