(* Proofs about the E1 model TakeUntil (Proto/TakeUntilDefs.v).

   The model has no unbounded parameter (ten thread ids, finitely many program counters and
   flags; the counters are capped) and is cyclic in the number of elements, so the proofs are
   by COMPLETE reachability inside Coq (Proto/C19Reach.v): for each of the 4 parameter values
   the reachable set is computed by a work-list search, its closure under every thread id's
   step and the checkers of every element (state predicates and per-step relations between a
   state, its successor and the emitted events) are re-checked by the kernel in ONE reflective
   computation [check_all], and [check_with_sound] lifts them to the state after EVERY schedule
   (any length, any thread ids), hence to any number of elements.  Nothing is sampled: were the
   search incomplete, the closure check would evaluate to false and the proof would fail.
   Trace-level statements are configuration invariants whose step case is the checked per-step
   relation [conf_inv]. *)
From Coq Require Import List Bool Arith Lia PArith NArith FMapPositive.
From V Require Import Base.Sched Proto.C19Reach Proto.TakeUntilDefs.
Import ListNotations.
Import TakeUntil.

(* ------------------------------------------------------------------------------------------ *)
(* decidable equality and an index of states                                                  *)

Definition kind_eq_dec (a b : kind) : {a = b} + {a <> b}. Proof. decide equality. Defined.
Definition sst_eq_dec (a b : sst) : {a = b} + {a <> b}. Proof. decide equality. Defined.
Definition life_eq_dec (a b : life) : {a = b} + {a <> b}. Proof. decide equality. Defined.
Definition rs_eq_dec (a b : rs) : {a = b} + {a <> b}. Proof. decide equality. Defined.
Definition npc_eq_dec (a b : npc) : {a = b} + {a <> b}. Proof. decide equality; apply rs_eq_dec. Defined.
Definition zpc_eq_dec (a b : zpc) : {a = b} + {a <> b}. Proof. decide equality; apply npc_eq_dec. Defined.
Definition xpc_eq_dec (a b : xpc) : {a = b} + {a <> b}.
Proof. decide equality; try apply bool_dec; try apply rs_eq_dec; apply npc_eq_dec. Defined.
Definition ypc_eq_dec (a b : ypc) : {a = b} + {a <> b}. Proof. decide equality. Defined.
Definition apc_eq_dec (a b : apc) : {a = b} + {a <> b}.
Proof. decide equality; try apply bool_dec; try apply kind_eq_dec; try apply xpc_eq_dec; apply ypc_eq_dec. Defined.
Definition bxpc_eq_dec (a b : bxpc) : {a = b} + {a <> b}. Proof. decide equality; apply rs_eq_dec. Defined.
Definition bpc_eq_dec (a b : bpc) : {a = b} + {a <> b}.
Proof. decide equality; try apply bool_dec; try apply bxpc_eq_dec; apply ypc_eq_dec. Defined.
Definition cpc_eq_dec (a b : cpc) : {a = b} + {a <> b}.
Proof. decide equality; try apply bool_dec; apply rs_eq_dec. Defined.
Definition params_eq_dec (a b : params) : {a = b} + {a <> b}. Proof. decide equality; apply bool_dec. Defined.
Definition mem_eq_dec (a b : mem) : {a = b} + {a <> b}.
Proof. decide equality; try apply bool_dec; apply sst_eq_dec. Defined.
Definition ghost_eq_dec (a b : ghost) : {a = b} + {a <> b}.
Proof. decide equality; try apply bool_dec; try apply Nat.eq_dec; apply life_eq_dec. Defined.
Definition st_eq_dec (a b : st) : {a = b} + {a <> b}.
Proof.
  decide equality.
  - apply cpc_eq_dec. - apply bpc_eq_dec. - apply apc_eq_dec. - apply zpc_eq_dec.
  - apply ghost_eq_dec. - apply mem_eq_dec. - apply params_eq_dec.
Defined.

Local Open Scope N_scope.
Definition nb (b : bool) : N := if b then 1 else 0.
Definition c_life (l : life) : N := match l with LNone => 0 | LNew => 1 | LOut => 2 | LRun => 3 | LDead => 4 end.
Definition c_sst (x : sst) : N := match x with S0 => 0 | S3 => 1 | S1 => 2 end.
Definition c_rs (r : rs) : N := match r with R1 => 0 | R2 => 1 end.
Definition c_npc (n : npc) : N := match n with NReg => 0 | NRegRel => 1 | NInl r => 2 + c_rs r end.
Definition c_zpc (z : zpc) : N := match z with ZStart => 0 | ZFin => 1 | ZN n => 2 + c_npc n end.
Definition c_kind (k : kind) : N := match k with KV => 0 | KD => 1 | KE => 2 end.
Definition c_xpc (x : xpc) : N :=
  match x with
  | XDeregAcq => 0 | XDeregRel l => 1 + nb l | XDeregWait => 3 | XRs r => 4 + c_rs r
  | XN n => 6 + c_npc n | XReadyL => 10 | XRs2 r => 11 + c_rs r | XReadyX => 13
  end.
Definition c_ypc (y : ypc) : N := match y with YCompL => 0 | YCompX => 1 end.
Definition c_apc (a : apc) : N :=
  match a with AIdle => 0 | ANext k x => 1 + c_kind k * 14 + c_xpc x | ACl e y => 43 + nb e * 2 + c_ypc y end.
Definition c_bxpc (x : bxpc) : N := match x with BReadyL => 0 | BRs r => 1 + c_rs r | BReadyX => 3 end.
Definition c_bpc (b : bpc) : N :=
  match b with BIdle => 0 | BNext x => 1 + c_bxpc x | BCl e y => 5 + nb e * 2 + c_ypc y end.
Definition c_cpc (c : cpc) : N :=
  match c with CIdle => 0 | CUnl p => 1 + nb p | CRs r => 3 + c_rs r | CCbDone => 5 | CRelock => 6
             | CRelRel => 7 | CFin => 8 end.
Definition code (s : st) : positive :=
  let a := nb (p_fixed (cfg s)) in
  let a := a * 2 + nb (p_stop (cfg s)) in
  let x := m s in
  let a := a * 2 + nb (ext_locked x) in
  let a := a * 2 + nb (ext_stop x) in
  let a := a * 2 + nb (cb_linked x) in
  let a := a * 2 + nb (cb_reg x) in
  let a := a * 2 + nb (cb_done x) in
  let a := a * 3 + c_sst (src_w x) in
  let a := a * 2 + nb (ready x) in
  let a := a * 2 + nb (completed x) in
  let a := a * 2 + nb (src_err x) in
  let a := a * 2 + nb (trg_err x) in
  let a := a * 8 + c_zpc (zp s) in
  let a := a * 64 + c_apc (ap s) in
  let a := a * 16 + c_bpc (bp s) in
  let a := a * 16 + c_cpc (cp s) in
  let y := g s in
  let a := a * 2 + nb (cons_next y) in
  let a := a * 5 + c_life (src_next y) in
  let a := a * 5 + c_life (trg_next y) in
  let a := a * 5 + c_life (cons_cl y) in
  let a := a * 5 + c_life (src_cl y) in
  let a := a * 5 + c_life (trg_cl y) in
  let a := a * 2 + nb (src_cl_pend y) in
  let a := a * 2 + nb (trg_cl_pend y) in
  let a := a * 2 + nb (finished y) in
  let a := a * 3 + N.of_nat (cons_cl_ctor y) in
  let a := a * 3 + N.of_nat (cl_compl y) in
  let a := a * 3 + N.of_nat (src_cl_ctor y) in
  let a := a * 3 + N.of_nat (src_cl_dtor y) in
  let a := a * 3 + N.of_nat (trg_cl_ctor y) in
  let a := a * 3 + N.of_nat (trg_cl_dtor y) in
  let a := a * 2 + nb (tc_a y) in
  let a := a * 2 + nb (tc_b y) in
  let a := a * 2 + nb (fin_src y) in
  let a := a * 2 + nb (fin_trg y) in
  let a := a * 2 + nb (uaf y) in
  let a := a * 2 + nb (bad_dtor y) in
  let a := a * 2 + nb (dup y) in
  let a := a * 2 + nb (ord_bad y) in
  let a := a * 2 + nb (c_stale y) in
  N.succ_pos a.
Local Close Scope N_scope.

Lemma step_bound t s : nthreads <= t -> step t s = None.
Proof. unfold nthreads. intros H. do 10 (destruct t as [|t]; [lia|]). reflexivity. Qed.

Definition the_reach (p : params) := reach st ev code step nthreads 200000 (init p).

Definition all_params : list params :=
  [ {| p_fixed := true; p_stop := false |}; {| p_fixed := true; p_stop := true |};
    {| p_fixed := false; p_stop := false |}; {| p_fixed := false; p_stop := true |} ].

Lemma params_in p : In p all_params.
Proof. destruct p as [[] []]; cbn; tauto. Qed.

(* ------------------------------------------------------------------------------------------ *)
(* the boolean checkers                                                                       *)

Definition le1 (n : nat) : bool := n <=? 1.
Definition eq1 (n : nat) : bool := n =? 1.
Definition bn (b : bool) : nat := if b then 1 else 0.

(* constructed at most once (every variant); by quiescence exactly once *)
Definition chk_ctor (s : st) : bool :=
  le1 (cons_cl_ctor (g s)) && le1 (src_cl_ctor (g s)) && le1 (trg_cl_ctor (g s)) && le1 (cl_compl (g s)) &&
  Bool.eqb (finished (g s)) (eq1 (cl_compl (g s))) &&
  implb (quiescent s) (eq1 (cons_cl_ctor (g s)) && eq1 (src_cl_ctor (g s)) && eq1 (trg_cl_ctor (g s))).

(* [fixed] both child cleanup ops destroyed at most once, never through the wrong name; by
   quiescence exactly once *)
Definition chk_dtor (s : st) : bool :=
  negb (bad_dtor (g s)) && le1 (src_cl_dtor (g s)) && le1 (trg_cl_dtor (g s)) &&
  implb (quiescent s) (eq1 (src_cl_dtor (g s)) && eq1 (trg_cl_dtor (g s)) &&
                       is_dead (src_cl (g s)) && is_dead (trg_cl (g s))).

(* [fixed] the consumer's cleanup completes only after both child cleanups completed and were
   destroyed and after the trigger's next completed; a cleanup of a stream is constructed only
   when no next of that stream is outstanding *)
Definition chk_order (s : st) : bool :=
  implb (finished (g s))
        (is_dead (src_cl (g s)) && is_dead (trg_cl (g s)) && is_dead (trg_next (g s)) &&
         is_dead (src_next (g s)) && negb (cons_next (g s)) &&
         negb (src_cl_pend (g s)) && negb (trg_cl_pend (g s))) &&
  implb (negb (is_none (src_cl (g s)))) (is_dead (src_next (g s)) && negb (cons_next (g s))) &&
  implb (negb (is_none (trg_cl (g s)))) (is_dead (trg_next (g s)) && negb (is_none (src_cl (g s)))) &&
  negb (ord_bad (g s)).

(* cleanupReady_ election: the trigger cleanup is started by exactly one of cleanup start /
   trigger_next_done *)
Definition chk_elect_ready (s : st) : bool :=
  negb (tc_a (g s) && tc_b (g s)) && (trg_cl_ctor (g s) =? bn (tc_a (g s)) + bn (tc_b (g s))) &&
  implb (quiescent s) (tc_a (g s) || tc_b (g s)).

(* cleanupCompleted_ election: exactly one of the two cleanup completions completes the consumer *)
Definition chk_elect_compl (s : st) : bool :=
  negb (fin_src (g s) && fin_trg (g s)) && (cl_compl (g s) =? bn (fin_src (g s)) + bn (fin_trg (g s))) &&
  implb (quiescent s) (fin_src (g s) || fin_trg (g s)).

(* [fixed] no step touches a destroyed op-state or the freed stream, no completion is delivered
   to a consumer op that is not alive *)
Definition chk_safe (s : st) : bool :=
  negb (uaf (g s)) && negb (dup (g s)) && negb (c_stale (g s)).

Definition enabled (t : nat) (s : st) : bool := match step t s with Some _ => true | None => false end.
Definition chk_progress (s : st) : bool := quiescent s || existsb (fun t => enabled t s) (seq 0 nthreads).

Definition chk_cfg (p : params) (s : st) : bool := if params_eq_dec (cfg s) p then true else false.

(* ------------------------------------------------------------------------------------------ *)
(* trace level: per-step relations checked on every reachable state                           *)

Definition step_checked (R : st -> st -> list ev -> bool) (s : st) : bool :=
  forallb (fun t => match step t s with Some (s', evs) => R s s' evs | None => true end) (seq 0 nthreads).

Lemma step_checked_sound R s t s' evs :
  step_checked R s = true -> step t s = Some (s', evs) -> R s s' evs = true.
Proof.
  intros H Hs. unfold step_checked in H. rewrite forallb_forall in H.
  destruct (le_lt_dec nthreads t) as [Hge|Hlt]; [rewrite (step_bound t s Hge) in Hs; discriminate|].
  assert (Hin : In t (seq 0 nthreads)) by (apply in_seq; lia).
  specialize (H t Hin). rewrite Hs in H. exact H.
Qed.

(* 1. what the consumer sees is what the source produced: kinds of the source next completions
      and of the consumer's next completions *)
Definition src_kinds (tr : list ev) : list kind :=
  flat_map (fun e => match e with ESrcNextComplete k => [k] | _ => [] end) tr.
Definition cons_kinds (tr : list ev) : list kind :=
  flat_map (fun e => match e with ECons k => [k] | _ => [] end) tr.
Definition delivered (x : xpc) : bool :=
  match x with XN _ | XReadyL | XRs2 _ | XReadyX => true | _ => false end.
(* the completion thread A is carrying and has not yet handed to the consumer *)
Definition hold (s : st) : list kind :=
  match ap s with ANext k x => if delivered x then [] else [k] | _ => [] end.
Definition kinds_eqb (a b : list kind) : bool := if list_eq_dec kind_eq_dec a b then true else false.
Definition R_kinds (s s' : st) (evs : list ev) : bool :=
  kinds_eqb (cons_kinds evs ++ hold s') (hold s ++ src_kinds evs).

(* 2. the consumer's protocol as an automaton over the trace *)
Inductive cq := QIdle | QNext | QGotV | QGotEnd | QWantCl | QCl | QClGot | QClDead | QFreed | QFin.
Definition cq_eq_dec (a b : cq) : {a = b} + {a <> b}. Proof. decide equality. Defined.
Definition cons_delta (q : cq) (e : ev) : option cq :=
  match e with
  | EConsNextCtor => match q with QIdle => Some QNext | _ => None end
  | ECons KV => match q with QNext => Some QGotV | _ => None end
  | ECons _ => match q with QNext => Some QGotEnd | _ => None end
  | EConsNextDtor => match q with QGotV => Some QIdle | QGotEnd => Some QWantCl | _ => None end
  | EConsClCtor => match q with QWantCl => Some QCl | _ => None end
  | EConsCl _ => match q with QCl => Some QClGot | _ => None end
  | EConsClDtor => match q with QClGot => Some QClDead | _ => None end
  | EStreamDestroyed => match q with QClDead => Some QFreed | _ => None end
  | EConsFinished => match q with QFreed => Some QFin | _ => None end
  | _ => Some q
  end.
Fixpoint cons_run (q : cq) (tr : list ev) : option cq :=
  match tr with
  | [] => Some q
  | e :: r => match cons_delta q e with Some q' => cons_run q' r | None => None end
  end.
Definition aut_of (s : st) : cq :=
  if finished (g s) then QFin else if is_out (cons_cl (g s)) then QCl
  else if cons_next (g s) then QNext else QIdle.
Definition ocq_eqb (a b : option cq) : bool :=
  match a, b with Some x, Some y => if cq_eq_dec x y then true else false | _, _ => false end.
Definition R_aut (s s' : st) (evs : list ev) : bool := ocq_eqb (cons_run (aut_of s) evs) (Some (aut_of s')).

(* 3. the counters count the events of the trace *)
Definition count (f : ev -> bool) (tr : list ev) : nat := length (filter f tr).
Definition is_conscl (e : ev) : bool := match e with EConsCl _ => true | _ => false end.
Definition is_srcclctor (e : ev) : bool := match e with ESrcClCtor => true | _ => false end.
Definition is_trgclctor (e : ev) : bool := match e with ETrgClCtor => true | _ => false end.
Definition is_srccldtor (e : ev) : bool := match e with ESrcClDtor _ => true | _ => false end.
Definition is_trgcldtor (e : ev) : bool := match e with ETrgClDtor _ => true | _ => false end.
Definition is_trgclstart (e : ev) : bool := match e with ETrgClStart => true | _ => false end.
Definition R_counts (s s' : st) (evs : list ev) : bool :=
  (cl_compl (g s') =? cl_compl (g s) + count is_conscl evs) &&
  (src_cl_ctor (g s') =? src_cl_ctor (g s) + count is_srcclctor evs) &&
  (trg_cl_ctor (g s') =? trg_cl_ctor (g s) + count is_trgclctor evs) &&
  (trg_cl_ctor (g s') =? trg_cl_ctor (g s) + count is_trgclstart evs) &&
  (src_cl_dtor (g s') =? src_cl_dtor (g s) + count is_srccldtor evs) &&
  (trg_cl_dtor (g s') =? trg_cl_dtor (g s) + count is_trgcldtor evs).

(* 4. [fixed] nothing of the stream, of the consumer's cleanup-op (destroyed just before) or of
      the last next-op is accessed after the stream was destroyed *)
Definition is_free (e : ev) : bool := match e with EStreamDestroyed => true | _ => false end.
Definition shared_ev (e : ev) : bool :=
  match e with
  | ESrcObs _ | ESrcAcq | ESrcRel | EReadyL _ | EReadyX _ | ECompL _ | ECompX _ | ECbDone | ECbWait
  | ETrgNextDtor | ESrcClDtor _ | ETrgClDtor _ | ETrgClCtor | ESrcClCtor | ESrcNextStart | ESrcNextDtor => true
  | _ => false
  end.
Definition no_shared (tr : list ev) : bool := forallb (fun e => negb (shared_ev e)) tr.
Fixpoint trace_safe (tr : list ev) : bool :=
  match tr with
  | [] => true
  | e :: r => if is_free e then no_shared r else trace_safe r
  end.
Definition R_safe (s s' : st) (evs : list ev) : bool :=
  (if finished (g s) then no_shared evs else trace_safe evs) &&
  implb (existsb is_free evs) (finished (g s')) && implb (finished (g s)) (finished (g s')).

(* the consumer's cleanup result: the source cleanup's error is preferred, then the trigger
   cleanup's, else done, :372-431 *)
Definition expected_res (s : st) : cres :=
  if src_err (m s) then CErrSrc else if trg_err (m s) then CErrTrg else CDone.
Definition cres_eq_dec (a b : cres) : {a = b} + {a <> b}. Proof. decide equality. Defined.
Definition cres_eqb (a b : cres) : bool := if cres_eq_dec a b then true else false.
Definition R_result (s s' : st) (evs : list ev) : bool :=
  forallb (fun e => match e with EConsCl r => cres_eqb r (expected_res s') && finished (g s') | _ => true end) evs &&
  implb (finished (g s)) (finished (g s') && cres_eqb (expected_res s) (expected_res s')).

(* ------------------------------------------------------------------------------------------ *)
(* one reflective check of everything over the complete reachable set                         *)

Definition P_every (s : st) : bool :=
  chk_ctor s && chk_elect_ready s && chk_elect_compl s &&
  step_checked R_kinds s && step_checked R_aut s && step_checked R_counts s && step_checked R_result s.
Definition P_fixed (s : st) : bool :=
  chk_dtor s && chk_order s && chk_safe s && chk_progress s && step_checked R_safe s.
Definition P_all (p : params) (s : st) : bool :=
  chk_cfg p s && P_every s && implb (p_fixed p) (P_fixed s).

Lemma check_all :
  forallb (fun p => check_with st ev st_eq_dec code step nthreads (P_all p) (init p) (the_reach p))
          all_params = true.
Proof. vm_cast_no_check (eq_refl true). Qed.

Theorem P_all_reachable p sched : P_all p (fst (run step sched (init p, []))) = true.
Proof.
  pose proof check_all as H. rewrite forallb_forall in H.
  specialize (H p (params_in p)). cbv beta in H.
  exact (check_with_sound st ev st_eq_dec code step nthreads step_bound (P_all p) (init p)
           (the_reach p) H sched).
Qed.

Definition final (p : params) (sched : list nat) : st := fst (run step sched (init p, [])).

Lemma P_every_final p sched : P_every (final p sched) = true.
Proof.
  pose proof (P_all_reachable p sched) as H. unfold P_all in H.
  apply andb_true_iff in H as [H _]. apply andb_true_iff in H as [_ H]. exact H.
Qed.

Lemma P_fixed_final p sched : p_fixed p = true -> P_fixed (final p sched) = true.
Proof.
  intros Hf. pose proof (P_all_reachable p sched) as H. unfold P_all in H.
  apply andb_true_iff in H as [_ H]. rewrite Hf in H. exact H.
Qed.

Lemma cfg_final p sched : cfg (final p sched) = p.
Proof.
  pose proof (P_all_reachable p sched) as H. unfold P_all in H.
  apply andb_true_iff in H as [H _]. apply andb_true_iff in H as [H _].
  unfold chk_cfg in H. fold (final p sched) in H.
  destruct (params_eq_dec (cfg (final p sched)) p); [assumption|discriminate].
Qed.

Lemma P_every_parts x : P_every x = true ->
  chk_ctor x = true /\ chk_elect_ready x = true /\ chk_elect_compl x = true /\
  step_checked R_kinds x = true /\ step_checked R_aut x = true /\ step_checked R_counts x = true /\
  step_checked R_result x = true.
Proof.
  unfold P_every. intros H. do 6 (apply andb_true_iff in H as [H ?]). repeat split; assumption.
Qed.

Lemma P_fixed_parts x : P_fixed x = true ->
  chk_dtor x = true /\ chk_order x = true /\ chk_safe x = true /\ chk_progress x = true /\
  step_checked R_safe x = true.
Proof.
  unfold P_fixed. intros H. do 4 (apply andb_true_iff in H as [H ?]). repeat split; assumption.
Qed.

(* configuration (state + trace) invariants whose step case is discharged by a per-step relation
   that was checked on every reachable state *)
Lemma conf_inv p (R : st -> st -> list ev -> bool) (Q : conf st ev -> Prop) :
  (forall sched, step_checked R (final p sched) = true) ->
  (forall c s' evs, R (fst c) s' evs = true -> Q c -> Q (s', snd c ++ evs)) ->
  Q (init p, []) ->
  forall sched, Q (run step sched (init p, [])).
Proof.
  intros HR HQ H0 sched. induction sched as [|t sched IH] using rev_ind; [exact H0|].
  rewrite run_app. cbn [run fold_left]. unfold step_conf.
  destruct (step t (fst (run step sched (init p, [])))) as [[s' evs]|] eqn:E; [|exact IH].
  apply HQ; [|exact IH]. eapply step_checked_sound; [apply HR|exact E].
Qed.

Lemma le1_le n : le1 n = true -> n <= 1. Proof. apply Nat.leb_le. Qed.
Lemma eq1_eq n : eq1 n = true -> n = 1. Proof. apply Nat.eqb_eq. Qed.
Lemma is_dead_eq l : is_dead l = true -> l = LDead. Proof. destruct l; cbn; congruence. Qed.
Lemma is_none_false l : is_none l = false <-> l <> LNone. Proof. destruct l; cbn; split; congruence. Qed.
Lemma kinds_eqb_eq a b : kinds_eqb a b = true -> a = b.
Proof. unfold kinds_eqb. destruct (list_eq_dec kind_eq_dec a b); [auto|discriminate]. Qed.
Lemma implb_elim a b : implb a b = true -> a = true -> b = true.
Proof. intros H ->. exact H. Qed.

(* what the checkers mean *)
Lemma chk_ctor_spec x : chk_ctor x = true ->
  cons_cl_ctor (g x) <= 1 /\ src_cl_ctor (g x) <= 1 /\ trg_cl_ctor (g x) <= 1 /\ cl_compl (g x) <= 1 /\
  (finished (g x) = true <-> cl_compl (g x) = 1) /\
  (quiescent x = true -> cons_cl_ctor (g x) = 1 /\ src_cl_ctor (g x) = 1 /\ trg_cl_ctor (g x) = 1 /\ cl_compl (g x) = 1).
Proof.
  unfold chk_ctor. intros H.
  apply andb_true_iff in H as [H Hq]. apply andb_true_iff in H as [H He].
  apply andb_true_iff in H as [H H4]. apply andb_true_iff in H as [H H3].
  apply andb_true_iff in H as [H1 H2].
  apply le1_le in H1, H2, H3, H4.
  assert (Hiff : finished (g x) = true <-> cl_compl (g x) = 1).
  { unfold eq1 in He. split; intros Hx.
    - rewrite Hx in He. cbn in He. apply Nat.eqb_eq.
      destruct (cl_compl (g x) =? 1); [reflexivity|discriminate].
    - rewrite Hx in He. cbn in He. destruct (finished (g x)); [reflexivity|discriminate]. }
  split; [exact H1|]. split; [exact H2|]. split; [exact H3|]. split; [exact H4|]. split; [exact Hiff|].
  intros Hqq. pose proof (implb_elim _ _ Hq Hqq) as Hc.
  apply andb_true_iff in Hc as [Hc Hc3]. apply andb_true_iff in Hc as [Hc1 Hc2].
  apply eq1_eq in Hc1, Hc2, Hc3. repeat split; try assumption.
  apply Hiff. unfold quiescent in Hqq. repeat (apply andb_true_iff in Hqq as [Hqq _]). exact Hqq.
Qed.

Lemma chk_dtor_spec x : chk_dtor x = true ->
  bad_dtor (g x) = false /\ src_cl_dtor (g x) <= 1 /\ trg_cl_dtor (g x) <= 1 /\
  (quiescent x = true ->
     src_cl_dtor (g x) = 1 /\ trg_cl_dtor (g x) = 1 /\ src_cl (g x) = LDead /\ trg_cl (g x) = LDead).
Proof.
  unfold chk_dtor. intros H.
  apply andb_true_iff in H as [H Hq]. apply andb_true_iff in H as [H H3].
  apply andb_true_iff in H as [H1 H2].
  apply negb_true_iff in H1. apply le1_le in H2, H3.
  split; [exact H1|]. split; [exact H2|]. split; [exact H3|].
  intros Hqq. pose proof (implb_elim _ _ Hq Hqq) as Hc.
  apply andb_true_iff in Hc as [Hc Hc4]. apply andb_true_iff in Hc as [Hc Hc3].
  apply andb_true_iff in Hc as [Hc1 Hc2].
  apply eq1_eq in Hc1, Hc2. apply is_dead_eq in Hc3, Hc4. repeat split; assumption.
Qed.

Lemma chk_order_spec x : chk_order x = true ->
  (finished (g x) = true ->
     src_cl (g x) = LDead /\ trg_cl (g x) = LDead /\ trg_next (g x) = LDead /\ src_next (g x) = LDead /\
     cons_next (g x) = false /\ src_cl_pend (g x) = false /\ trg_cl_pend (g x) = false) /\
  (src_cl (g x) <> LNone -> src_next (g x) = LDead /\ cons_next (g x) = false) /\
  (trg_cl (g x) <> LNone -> trg_next (g x) = LDead /\ src_cl (g x) <> LNone) /\
  ord_bad (g x) = false.
Proof.
  unfold chk_order. intros H.
  apply andb_true_iff in H as [H H4]. apply andb_true_iff in H as [H H3].
  apply andb_true_iff in H as [H1 H2]. apply negb_true_iff in H4.
  split; [|split; [|split; [|exact H4]]].
  - intros Hf. pose proof (implb_elim _ _ H1 Hf) as Hc.
    apply andb_true_iff in Hc as [Hc C7]. apply andb_true_iff in Hc as [Hc C6].
    apply andb_true_iff in Hc as [Hc C5]. apply andb_true_iff in Hc as [Hc C4].
    apply andb_true_iff in Hc as [Hc C3]. apply andb_true_iff in Hc as [C1 C2].
    apply is_dead_eq in C1, C2, C3, C4. apply negb_true_iff in C5, C6, C7. repeat split; assumption.
  - intros Hn. apply is_none_false in Hn. rewrite Hn in H2. cbn in H2.
    apply andb_true_iff in H2 as [C1 C2]. apply is_dead_eq in C1. apply negb_true_iff in C2. split; assumption.
  - intros Hn. apply is_none_false in Hn. rewrite Hn in H3. cbn in H3.
    apply andb_true_iff in H3 as [C1 C2]. apply is_dead_eq in C1. apply negb_true_iff in C2.
    split; [assumption|]. apply is_none_false. exact C2.
Qed.

Section Main.
  Variable p : params.
  Variable sched : list nat.
  Let s := final p sched.

  (* 1. the consumer's cleanup-op and both child cleanup ops are constructed at most once, the
        consumer's cleanup completes at most once; when everything is quiet exactly once *)
  Theorem cleanup_ops_constructed_once :
    cons_cl_ctor (g s) <= 1 /\ src_cl_ctor (g s) <= 1 /\ trg_cl_ctor (g s) <= 1 /\ cl_compl (g s) <= 1 /\
    (finished (g s) = true <-> cl_compl (g s) = 1) /\
    (quiescent s = true -> cons_cl_ctor (g s) = 1 /\ src_cl_ctor (g s) = 1 /\ trg_cl_ctor (g s) = 1 /\ cl_compl (g s) = 1).
  Proof.
    destruct (P_every_parts _ (P_every_final p sched)) as (H & _). exact (chk_ctor_spec _ H).
  Qed.

  (* 2. [fixed] both take_until cleanups (sourceOp_ and triggerOp_) are destroyed at most once,
        each through its own name, and exactly once by quiescence *)
  Theorem both_cleanups_destroyed_once :
    p_fixed p = true ->
    bad_dtor (g s) = false /\ src_cl_dtor (g s) <= 1 /\ trg_cl_dtor (g s) <= 1 /\
    (quiescent s = true ->
       src_cl_dtor (g s) = 1 /\ trg_cl_dtor (g s) = 1 /\ src_cl (g s) = LDead /\ trg_cl (g s) = LDead).
  Proof.
    intros Hf. destruct (P_fixed_parts _ (P_fixed_final p sched Hf)) as (H & _). exact (chk_dtor_spec _ H).
  Qed.

  (* 3. [fixed] the consumer's cleanup completes only after both child cleanups completed and
        were destroyed and after the trigger's next completed; the cleanup of a stream is
        constructed only when no next of that stream is outstanding (the trigger cleanup only
        after cleanup start constructed the source cleanup) *)
  Theorem cleanup_after_children :
    p_fixed p = true ->
    (finished (g s) = true ->
       src_cl (g s) = LDead /\ trg_cl (g s) = LDead /\ trg_next (g s) = LDead /\ src_next (g s) = LDead /\
       cons_next (g s) = false /\ src_cl_pend (g s) = false /\ trg_cl_pend (g s) = false) /\
    (src_cl (g s) <> LNone -> src_next (g s) = LDead /\ cons_next (g s) = false) /\
    (trg_cl (g s) <> LNone -> trg_next (g s) = LDead /\ src_cl (g s) <> LNone) /\
    ord_bad (g s) = false.
  Proof.
    intros Hf. destruct (P_fixed_parts _ (P_fixed_final p sched Hf)) as (_ & H & _). exact (chk_order_spec _ H).
  Qed.

  (* 4. cleanupReady_ election: the trigger cleanup is started by exactly one of cleanup start
        (thread A) and trigger_next_done (thread B) *)
  Theorem trigger_cleanup_started_by_exactly_one :
    (tc_a (g s) = true -> tc_b (g s) = true -> False) /\
    trg_cl_ctor (g s) = bn (tc_a (g s)) + bn (tc_b (g s)) /\
    (quiescent s = true -> tc_a (g s) = true \/ tc_b (g s) = true).
  Proof.
    destruct (P_every_parts _ (P_every_final p sched)) as (_ & H & _). fold s in H.
    unfold chk_elect_ready in H. apply andb_true_iff in H as [H H3]. apply andb_true_iff in H as [H1 H2].
    repeat split.
    - intros Ha Hb. rewrite Ha, Hb in H1. discriminate.
    - apply Nat.eqb_eq. assumption.
    - intros Hq. apply orb_true_iff. exact (implb_elim _ _ H3 Hq).
  Qed.

  (* 5. cleanupCompleted_ election: exactly one of the two child cleanup completions completes
        the consumer *)
  Theorem consumer_completed_by_exactly_one :
    (fin_src (g s) = true -> fin_trg (g s) = true -> False) /\
    cl_compl (g s) = bn (fin_src (g s)) + bn (fin_trg (g s)) /\
    (quiescent s = true -> fin_src (g s) = true \/ fin_trg (g s) = true).
  Proof.
    destruct (P_every_parts _ (P_every_final p sched)) as (_ & _ & H & _). fold s in H.
    unfold chk_elect_compl in H. apply andb_true_iff in H as [H H3]. apply andb_true_iff in H as [H1 H2].
    repeat split.
    - intros Ha Hb. rewrite Ha, Hb in H1. discriminate.
    - apply Nat.eqb_eq. assumption.
    - intros Hq. apply orb_true_iff. exact (implb_elim _ _ H3 Hq).
  Qed.

  (* 6. [fixed] no step touches a destroyed operation state or the freed stream, no completion
        is delivered to a consumer op that is not alive *)
  Theorem no_use_after_destroy :
    p_fixed p = true -> uaf (g s) = false /\ dup (g s) = false /\ c_stale (g s) = false.
  Proof.
    intros Hf. destruct (P_fixed_parts _ (P_fixed_final p sched Hf)) as (_ & _ & H & _). fold s in H.
    unfold chk_safe in H. apply andb_true_iff in H as [H H3]. apply andb_true_iff in H as [H1 H2].
    repeat split; apply negb_true_iff; assumption.
  Qed.

  (* 7. [fixed] no deadlock: in a reachable state that is not quiescent some thread can move *)
  Theorem progress : p_fixed p = true -> quiescent s = false -> exists t, step t s <> None.
  Proof.
    intros Hf Hq. destruct (P_fixed_parts _ (P_fixed_final p sched Hf)) as (_ & _ & _ & H & _). fold s in H.
    unfold chk_progress in H. rewrite Hq in H. cbn [orb] in H.
    apply existsb_exists in H as (t & _ & Ht). exists t. unfold enabled in Ht.
    destruct (step t s); [discriminate|discriminate Ht].
  Qed.
End Main.

(* ------------------------------------------------------------------------------------------ *)
(* trace level                                                                                *)

Lemma src_kinds_app a b : src_kinds (a ++ b) = src_kinds a ++ src_kinds b.
Proof. unfold src_kinds. apply flat_map_app. Qed.
Lemma cons_kinds_app a b : cons_kinds (a ++ b) = cons_kinds a ++ cons_kinds b.
Proof. unfold cons_kinds. apply flat_map_app. Qed.

(* 8. the consumer receives exactly the source's completions, in order, nothing twice, nothing
      invented: the kinds of the consumer's next completions followed by the completion thread A
      is still carrying are the kinds of the source's next completions; at quiescence they are
      equal *)
Theorem elements_exact p sched :
  let c := run step sched (init p, []) in
  cons_kinds (snd c) ++ hold (fst c) = src_kinds (snd c) /\
  (quiescent (fst c) = true -> cons_kinds (snd c) = src_kinds (snd c)).
Proof.
  cbv zeta.
  assert (H : cons_kinds (snd (run step sched (init p, []))) ++ hold (fst (run step sched (init p, []))) =
              src_kinds (snd (run step sched (init p, [])))).
  { apply (conf_inv p R_kinds (fun c => cons_kinds (snd c) ++ hold (fst c) = src_kinds (snd c))); [| |reflexivity].
    - intros sc. apply (P_every_parts _ (P_every_final p sc)).
    - intros c s' evs HR HQ. cbn [fst snd]. unfold R_kinds in HR. apply kinds_eqb_eq in HR.
      rewrite cons_kinds_app, src_kinds_app, <- HQ, <- !app_assoc, HR. reflexivity. }
  split; [exact H|]. intros Hq. rewrite <- H.
  unfold quiescent in Hq. apply andb_true_iff in Hq as [Hq _]. apply andb_true_iff in Hq as [Hq _].
  apply andb_true_iff in Hq as [_ Hq]. unfold hold.
  destruct (ap (fst (run step sched (init p, [])))); try discriminate. rewrite app_nil_r. reflexivity.
Qed.

Lemma cons_run_app q a b :
  cons_run q (a ++ b) = match cons_run q a with Some q' => cons_run q' b | None => None end.
Proof.
  revert q. induction a as [|e a IH]; intros q; cbn; [reflexivity|].
  destruct (cons_delta q e); [apply IH|reflexivity].
Qed.

(* 9. the consumer's protocol: over the whole trace the consumer events follow
        ( next-op ctor ; value ; next-op dtor )* ; next-op ctor ; done|error ; next-op dtor ;
        cleanup-op ctor ; cleanup result ; cleanup-op dtor ; stream destroyed ; finished
      i.e. every next-op is completed exactly once before it is destroyed, nothing follows the
      first done / error but one cleanup, which completes exactly once; at quiescence the
      automaton is in its final state *)
Theorem consumer_protocol p sched :
  let c := run step sched (init p, []) in
  cons_run QIdle (snd c) = Some (aut_of (fst c)) /\
  (quiescent (fst c) = true -> cons_run QIdle (snd c) = Some QFin).
Proof.
  cbv zeta.
  assert (H : cons_run QIdle (snd (run step sched (init p, []))) = Some (aut_of (fst (run step sched (init p, []))))).
  { apply (conf_inv p R_aut (fun c => cons_run QIdle (snd c) = Some (aut_of (fst c)))); [| |reflexivity].
    - intros sc. apply (P_every_parts _ (P_every_final p sc)).
    - intros c s' evs HR HQ. cbn [fst snd]. rewrite cons_run_app, HQ. unfold R_aut, ocq_eqb in HR.
      destruct (cons_run (aut_of (fst c)) evs) as [q|]; [|discriminate].
      destruct (cq_eq_dec q (aut_of s')); [subst; reflexivity|discriminate]. }
  split; [exact H|]. intros Hq. rewrite H. unfold quiescent in Hq.
  repeat (apply andb_true_iff in Hq as [Hq _]). unfold aut_of. rewrite Hq. reflexivity.
Qed.

Lemma count_app f a b : count f (a ++ b) = count f a + count f b.
Proof. unfold count. rewrite filter_app, app_length. reflexivity. Qed.

(* 10. the counters of theorems 1, 2 and 4 count events of the trace: completions of the
       consumer's cleanup, constructions / starts / destructions of the two child cleanup ops *)
Theorem trace_counts p sched :
  let c := run step sched (init p, []) in
  count is_conscl (snd c) = cl_compl (g (fst c)) /\
  count is_srcclctor (snd c) = src_cl_ctor (g (fst c)) /\
  count is_trgclctor (snd c) = trg_cl_ctor (g (fst c)) /\
  count is_trgclstart (snd c) = trg_cl_ctor (g (fst c)) /\
  count is_srccldtor (snd c) = src_cl_dtor (g (fst c)) /\
  count is_trgcldtor (snd c) = trg_cl_dtor (g (fst c)).
Proof.
  cbv zeta.
  apply (conf_inv p R_counts (fun c =>
    count is_conscl (snd c) = cl_compl (g (fst c)) /\
    count is_srcclctor (snd c) = src_cl_ctor (g (fst c)) /\
    count is_trgclctor (snd c) = trg_cl_ctor (g (fst c)) /\
    count is_trgclstart (snd c) = trg_cl_ctor (g (fst c)) /\
    count is_srccldtor (snd c) = src_cl_dtor (g (fst c)) /\
    count is_trgcldtor (snd c) = trg_cl_dtor (g (fst c)))).
  - intros sc. apply (P_every_parts _ (P_every_final p sc)).
  - intros c s' evs HR (Q1 & Q2 & Q3 & Q4 & Q5 & Q6). cbn [fst snd]. unfold R_counts in HR.
    apply andb_true_iff in HR as [HR R6]. apply andb_true_iff in HR as [HR R5].
    apply andb_true_iff in HR as [HR R4]. apply andb_true_iff in HR as [HR R3].
    apply andb_true_iff in HR as [R1 R2].
    apply Nat.eqb_eq in R1, R2, R3, R4, R5, R6.
    rewrite !count_app, Q1, Q2, Q3, Q4, Q5, Q6. repeat split; symmetry; assumption.
  - cbn. repeat split; reflexivity.
Qed.

Lemma no_shared_app a b : no_shared (a ++ b) = no_shared a && no_shared b.
Proof. unfold no_shared. apply forallb_app. Qed.

Lemma trace_safe_app_noshared a b :
  trace_safe a = true -> no_shared b = true -> trace_safe (a ++ b) = true.
Proof.
  induction a as [|e r IH]; cbn; intros Ha Hb.
  - destruct b as [|e b]; [reflexivity|]. cbn in *. apply andb_true_iff in Hb as [He Hb].
    destruct (is_free e); [exact Hb|].
    clear He. induction b as [|e' b IHb]; [reflexivity|]. cbn in *.
    apply andb_true_iff in Hb as [_ Hb]. destruct (is_free e'); auto.
  - destruct (is_free e).
    + rewrite no_shared_app, Ha, Hb. reflexivity.
    + auto.
Qed.

Lemma trace_safe_app_fresh a b :
  existsb is_free a = false -> trace_safe (a ++ b) = trace_safe b.
Proof.
  induction a as [|e r IH]; cbn; [reflexivity|]. intros H.
  apply orb_false_iff in H as [He Hr]. rewrite He. auto.
Qed.

(* 11. [fixed] trace form of 6: after the event "stream destroyed" no event of the trace
       accesses the stream's atomics, the consumer's cleanup-op or next-op, or constructs /
       destroys / starts a child operation *)
Theorem trace_no_access_after_stream_destroyed p sched :
  p_fixed p = true -> trace_safe (snd (run step sched (init p, []))) = true.
Proof.
  intros Hf.
  assert (H : trace_safe (snd (run step sched (init p, []))) = true /\
              (finished (g (fst (run step sched (init p, [])))) = false ->
               existsb is_free (snd (run step sched (init p, []))) = false)).
  { apply (conf_inv p R_safe
             (fun c => trace_safe (snd c) = true /\
                       (finished (g (fst c)) = false -> existsb is_free (snd c) = false)));
      [| |split; reflexivity].
    - intros sc. apply (P_fixed_parts _ (P_fixed_final p sc Hf)).
    - intros c s' evs HR [HQ1 HQ2]. cbn [fst snd]. unfold R_safe in HR.
      apply andb_true_iff in HR as [HR H3]. apply andb_true_iff in HR as [H1 H2].
      destruct (finished (g (fst c))) eqn:Ef.
      + cbn in H3. split; [apply trace_safe_app_noshared; assumption|].
        intros Hx. rewrite H3 in Hx. discriminate.
      + specialize (HQ2 eq_refl). split.
        * rewrite trace_safe_app_fresh; assumption.
        * intros Hx. rewrite Hx in H2. rewrite existsb_app, HQ2. cbn [orb].
          destruct (existsb is_free evs); [discriminate H2|reflexivity]. }
  tauto.
Qed.

Lemma cres_eqb_eq a b : cres_eqb a b = true -> a = b.
Proof. unfold cres_eqb. destruct (cres_eq_dec a b); [auto|discriminate]. Qed.

(* 12. the result of the consumer's cleanup: the error of the source cleanup if it failed,
       otherwise the error of the trigger cleanup if that failed, otherwise done -- whichever
       of the two completions delivers it *)
Theorem cleanup_result p sched :
  let c := run step sched (init p, []) in
  forall r, In (EConsCl r) (snd c) -> finished (g (fst c)) = true /\ r = expected_res (fst c).
Proof.
  cbv zeta.
  apply (conf_inv p R_result (fun c => forall r, In (EConsCl r) (snd c) ->
                                         finished (g (fst c)) = true /\ r = expected_res (fst c))).
  - intros sc. apply (P_every_parts _ (P_every_final p sc)).
  - intros c s' evs HR HQ r Hin. cbn [fst snd] in *. unfold R_result in HR.
    apply andb_true_iff in HR as [H1 H2]. apply in_app_or in Hin as [Hin|Hin].
    + destruct (HQ r Hin) as [Hf Hr]. rewrite Hf in H2. cbn in H2. apply andb_true_iff in H2 as [H2 H3].
      apply cres_eqb_eq in H3. split; [exact H2|congruence].
    + rewrite forallb_forall in H1. specialize (H1 _ Hin). cbn in H1.
      apply andb_true_iff in H1 as [H1 H3]. apply cres_eqb_eq in H1. split; assumption.
  - intros r [].
Qed.

(* ------------------------------------------------------------------------------------------ *)
(* the code as written before e46f32d (finding 2) violates theorems 2, 6 and 7                *)

Definition p_finding2 : params := {| p_fixed := false; p_stop := false |}.

(* T0 starts the first next-op; A completes it with done: deregister, request_stop, the consumer
   starts cleanup: source cleanup started, cleanupReady_ false -> exchange first -> return; A
   completes the source cleanup: sourceOp_ destroyed, cleanupCompleted_ exchange first; B
   completes the trigger's next: cleanupReady_ true -> starts the trigger cleanup; B completes
   it: trigger_receiver set_done destroys sourceOp_ a second time (dead storage), triggerOp_
   never; cleanupCompleted_ true -> the consumer is completed *)
Definition sched_finding2 : list nat := [0;0;0; 2;2;2;2;2;2;2;2; 4;4;4; 6;6; 7;7].

Theorem both_cleanups_destroyed_once_refuted :
  exists sched,
    let c := run step sched (init p_finding2, []) in
    quiescent (fst c) = true /\ bad_dtor (g (fst c)) = true /\
    src_cl_dtor (g (fst c)) = 2 /\ trg_cl_dtor (g (fst c)) = 0 /\ trg_cl (g (fst c)) = LRun /\
    In (ESrcClDtor false) (snd c) /\ count is_srccldtor (snd c) = 2 /\ count is_trgcldtor (snd c) = 0.
Proof. exists sched_finding2. vm_compute. repeat split; auto 60. Qed.

(* the trigger cleanup completes while the source cleanup is still outstanding: its op-state is
   destroyed under the source's feet; the later completion of the source cleanup finds a dead
   op-state and the consumer's cleanup never completes *)
Definition sched_finding2b : list nat := [0;0;0; 2;2;2;2;2;2;2;2; 6;6; 7;7;7; 4].

Theorem cleanup_completes_refuted :
  exists sched,
    let c := run step sched (init p_finding2, []) in
    finished (g (fst c)) = false /\ uaf (g (fst c)) = true /\
    (forall t, step t (fst c) = None) /\
    In EViolOutstanding (snd c) /\ In ESrcClCompleteBad (snd c).
Proof.
  exists sched_finding2b. cbv zeta.
  assert (Hen : forallb (fun t => negb (enabled t (fst (run step sched_finding2b (init p_finding2, [])))))
                        (seq 0 nthreads) = true) by (vm_compute; reflexivity).
  split; [vm_compute; reflexivity|]. split; [vm_compute; reflexivity|]. split; [|split].
  - intros t. destruct (le_lt_dec nthreads t) as [Hge|Hlt]; [apply step_bound; exact Hge|].
    rewrite forallb_forall in Hen. assert (Hin : In t (seq 0 nthreads)) by (apply in_seq; lia).
    specialize (Hen t Hin). unfold enabled in Hen.
    destruct (step t (fst (run step sched_finding2b (init p_finding2, [])))); [discriminate|reflexivity].
  - vm_compute. auto 60.
  - vm_compute. auto 60.
Qed.
