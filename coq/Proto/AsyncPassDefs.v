(* E1 model AsyncPass: the single-word rendezvous of unifex::async_pass
   (include/unifex/async_pass.hpp, source/async_pass.cpp), each asynchronous side wrapped in
   cancellable<> (include/unifex/cancellable.hpp: state_ bits stopped/started/completed, the
   stack-local sync_complete flag of stop_type::start) and completing through
   detail/completion_forwarder.hpp (the scheduler hop).

   Threads (thread t runs the party with the same number t; its payload id is t):
     TCall / TThrow   async_call / async_throw, connected to a receiver with its own stop source t
     TAccept          async_accept
     TTryCall / TTryAccept   try_call / try_accept
     TStop k          request_stop on the stop source of party k
   Every access to pass.state_ (the word w), to a cancellable state_ (cstop/cstart/ccomp), to a
   sync_complete flag, and every completion is one step.  The stop source is abstracted to
   register / request / deregister (its internals are another model); the wait of a deregistration
   for a callback running on another thread is a pure delay and is not modelled.
   The scheduler hop of completion_forwarder is the step MHop: with [hs = true] (the tree as it is)
   the hop sees the FINAL receiver's stop token and completes with done when it is stopped; with
   [hs = false] (forwarder receiver answers get_stop_token with unstoppable_token) it never does.
   Not modelled: destruction of an operation state by its receiver (the model keeps every op alive;
   the driver's "destroy" mode checks that on the real code directly).  The field [taken] is a ghost
   (written at the claiming CAS, never read by [step]).
   Executable definitions only. *)
From Coq Require Import List Bool Arith.
Import ListNotations.

Module AsyncPass.

Inductive tkind := TCall | TThrow | TAccept | TTryCall | TTryAccept | TStop (k : nat) | TNone.

(* pass.state_: 0 | caller pointer | acceptor pointer xor 1 *)
Inductive word := WIdle | WCaller (i : nat) | WAcceptor (j : nat).

(* what a receiver is completed with / what an acceptor's deferred completion holds *)
Inductive res :=
| RValue              (* call: set_value() *)
| RDone               (* set_done() *)
| RGot (p : nat)      (* accept: set_value(payload of caller p) *)
| RErr (p : nat)      (* accept: set_error(exception of async_throw p) *)
| RBad.               (* forward_set_value through a null complete_ *)

Inductive cbst := CbNone | CbReg | CbGone.

Inductive mord := OAcq | ORel | OAcqRel.

(* the continuation of a thread is a list of micro-operations *)
Inductive mop :=
| MReg                      (* cancellable type::start: construct the stop callback (register) *)
| MCbOr (k : nat)           (* stop_callback::operator(): state_.fetch_or(stopped) of party k *)
| MLoad                     (* state_.load(acquire) at the head of a claim/suspend loop *)
| MCas (v : word)           (* one compare_exchange of that loop, expected value v *)
| MTc (k : nat) (c : bool)  (* try_complete(k): state_.fetch_or(completed); c: called from call stop() *)
| MSync (k : nat)           (* try_complete: sync_complete_ flag store(true) *)
| MDereg (k : nat)          (* try_complete: cleanup_ destroys the stop callback *)
| MHop (k : nat)            (* forwardingOp_.start: schedule hop, then completes receiver k *)
| MSyncLoad                 (* stop_type::start: sync_complete.load after the nested start *)
| MSetStarted               (* stop_type::start: state_.fetch_or(started) *)
| MSpinSync                 (* stop_type::start: spin until sync_complete (blocking) *)
| MStopCas (k : nat)        (* nested_op.stop(): CAS self -> 0 *)
| MSet (k : nat)            (* request_stop on stop source k *)
| MRet.                     (* try_call / try_accept returns true *)

Inductive ev :=
| EWLoad (v : word)
| ECas (o : mord) (exp des : word)          (* successful compare_exchange *)
| ECasFail (act des : word)                 (* failed: act is the value found (failure order acquire) *)
| ECs (k : nat) (bit : nat) (ostop ostart ocomp : bool)   (* cancellable state_.fetch_or(bit), old bits *)
| ESync (k : nat)
| ESyncLoad (k : nat) (b : bool)
| EReg (k : nat) (b : bool)                 (* b: stop already requested, callback runs inline *)
| ESet (k : nat) | ESeen (k : nat)
| EDereg (k : nat)
| EObs (k : nat) (b : bool)                 (* the hop's scheduler reads stop_requested() *)
| EDeliver (k : nat) (caller : bool) (r : res)
| ETry (t : nat) (acc : bool) (r : option res)
| ETerminate.

Record st := mk {
  hs : bool;                      (* hop stoppable *)
  nthr : nat;
  kd : nat -> tkind;
  w : word;                       (* async_pass_base::state_ *)
  aborted : bool;                 (* std::terminate was called *)
  stk : nat -> list mop;
  cstop : nat -> bool; cstart : nat -> bool; ccomp : nat -> bool;   (* cancellable state_ of party k *)
  sync : nat -> bool;             (* sync_complete of party k's start() frame *)
  stopreq : nat -> bool;          (* stop source k: stop requested *)
  cb : nat -> cbst;               (* stop callback of party k *)
  slot : nat -> option res;       (* accept: complete_/state_; call: Some RDone = cancelled_ *)
  delivered : nat -> list res;    (* completions of receiver k, newest first *)
  tres : nat -> option res;       (* try_call: Some RValue true, Some RDone false; try_accept: payload / RDone *)
  taken : nat -> option nat       (* ghost (never read by step): who ran the call of sender i *)
}.

Definition upd {A} (f : nat -> A) (k : nat) (v : A) : nat -> A :=
  fun x => if Nat.eqb x k then v else f x.

Definition set_w v s := mk (hs s) (nthr s) (kd s) v (aborted s) (stk s) (cstop s) (cstart s) (ccomp s) (sync s) (stopreq s) (cb s) (slot s) (delivered s) (tres s) (taken s).
Definition set_aborted v s := mk (hs s) (nthr s) (kd s) (w s) v (stk s) (cstop s) (cstart s) (ccomp s) (sync s) (stopreq s) (cb s) (slot s) (delivered s) (tres s) (taken s).
Definition set_stk v s := mk (hs s) (nthr s) (kd s) (w s) (aborted s) v (cstop s) (cstart s) (ccomp s) (sync s) (stopreq s) (cb s) (slot s) (delivered s) (tres s) (taken s).
Definition set_cstop v s := mk (hs s) (nthr s) (kd s) (w s) (aborted s) (stk s) v (cstart s) (ccomp s) (sync s) (stopreq s) (cb s) (slot s) (delivered s) (tres s) (taken s).
Definition set_cstart v s := mk (hs s) (nthr s) (kd s) (w s) (aborted s) (stk s) (cstop s) v (ccomp s) (sync s) (stopreq s) (cb s) (slot s) (delivered s) (tres s) (taken s).
Definition set_ccomp v s := mk (hs s) (nthr s) (kd s) (w s) (aborted s) (stk s) (cstop s) (cstart s) v (sync s) (stopreq s) (cb s) (slot s) (delivered s) (tres s) (taken s).
Definition set_sync v s := mk (hs s) (nthr s) (kd s) (w s) (aborted s) (stk s) (cstop s) (cstart s) (ccomp s) v (stopreq s) (cb s) (slot s) (delivered s) (tres s) (taken s).
Definition set_stopreq v s := mk (hs s) (nthr s) (kd s) (w s) (aborted s) (stk s) (cstop s) (cstart s) (ccomp s) (sync s) v (cb s) (slot s) (delivered s) (tres s) (taken s).
Definition set_cb v s := mk (hs s) (nthr s) (kd s) (w s) (aborted s) (stk s) (cstop s) (cstart s) (ccomp s) (sync s) (stopreq s) v (slot s) (delivered s) (tres s) (taken s).
Definition set_slot v s := mk (hs s) (nthr s) (kd s) (w s) (aborted s) (stk s) (cstop s) (cstart s) (ccomp s) (sync s) (stopreq s) (cb s) v (delivered s) (tres s) (taken s).
Definition set_delivered v s := mk (hs s) (nthr s) (kd s) (w s) (aborted s) (stk s) (cstop s) (cstart s) (ccomp s) (sync s) (stopreq s) (cb s) (slot s) v (tres s) (taken s).
Definition set_tres v s := mk (hs s) (nthr s) (kd s) (w s) (aborted s) (stk s) (cstop s) (cstart s) (ccomp s) (sync s) (stopreq s) (cb s) (slot s) (delivered s) v (taken s).
Definition set_taken v s := mk (hs s) (nthr s) (kd s) (w s) (aborted s) (stk s) (cstop s) (cstart s) (ccomp s) (sync s) (stopreq s) (cb s) (slot s) (delivered s) (tres s) v.

Definition start_stack (k : tkind) : list mop :=
  match k with
  | TCall | TThrow | TAccept => [MReg; MLoad; MSyncLoad]
  | TTryCall | TTryAccept => [MLoad]
  | TStop k => [MSet k]
  | TNone => []
  end.

Definition init (hop_stoppable : bool) (prog : list tkind) : st :=
  let kinds := fun t => nth t prog TNone in
  mk hop_stoppable (length prog) kinds WIdle false (fun t => start_stack (kinds t))
     (fun _ => false) (fun _ => false) (fun _ => false) (fun _ => false) (fun _ => false)
     (fun _ => CbNone) (fun _ => None) (fun _ => []) (fun _ => None) (fun _ => None).

Definition is_caller_kind (k : tkind) : bool := match k with TCall | TThrow => true | _ => false end.
Definition is_party_kind (k : tkind) : bool := match k with TCall | TThrow | TAccept => true | _ => false end.

(* the value party k stores in the word / expects in stop() *)
Definition word_of (s : st) (k : nat) : word :=
  if is_caller_kind (kd s k) then WCaller k else WAcceptor k.

Definition word_eqb (a b : word) : bool :=
  match a, b with
  | WIdle, WIdle => true
  | WCaller i, WCaller j => Nat.eqb i j
  | WAcceptor i, WAcceptor j => Nat.eqb i j
  | _, _ => false
  end.

(* what caller i hands to an acceptor: call_or_throw_op_base::call (async_pass.hpp 147-160) *)
Definition payload_res (s : st) (i : nat) : res :=
  match kd s i with TThrow => RErr i | _ => RGot i end.

(* accept_op::locked_set_value / locked_set_error: only if complete_ == nullptr (452-473) *)
Definition fill (j : nat) (r : res) (s : st) : st :=
  set_slot (upd (slot s) j (match slot s j with None => Some r | x => x end)) s.

Definition push (t : nat) (l : list mop) (s : st) : st := set_stk (upd (stk s) t l) s.

(* loop heads of async_pass.cpp: what to do after observing v in state_ *)
Inductive dec := DCas | DFalse | DTerm.
Definition decide (k : tkind) (v : word) : dec :=
  match k with
  | TCall | TThrow => match v with WCaller _ => DTerm | _ => DCas end      (* call_or_suspend_raw 45-64 *)
  | TAccept => match v with WAcceptor _ => DTerm | _ => DCas end           (* accept_or_suspend_raw 66-85 *)
  | TTryCall => match v with WAcceptor _ => DCas | _ => DFalse end         (* try_claim_acceptor 23-32 *)
  | TTryAccept => match v with WCaller _ => DCas | _ => DFalse end         (* try_claim_caller_raw 34-43 *)
  | _ => DFalse
  end.

Definition is_acc_kind (k : tkind) : bool := match k with TTryAccept => true | _ => false end.

Definition after_obs (t : nat) (v : word) (rest : list mop) (s : st) (e : list ev) : st * list ev :=
  match decide (kd s t) v with
  | DCas => (push t (MCas v :: rest) s, e)
  | DFalse => (set_tres (upd (tres s) t (Some RDone)) (push t rest s),
               e ++ [ETry t (is_acc_kind (kd s t)) None])
  | DTerm => (set_aborted true s, e ++ [ETerminate])   (* std::terminate: nothing runs any more *)
  end.

(* successful compare_exchange of thread t with expected value v (w s = v) *)
Definition cas_ok (t : nat) (v : word) (rest : list mop) (s : st) : st * list ev :=
  match kd s t, v with
  | (TCall | TThrow), WAcceptor j =>
      (* call_op::start / throw_op::start 286-301, 352-358: run the call on the claimed acceptor,
         acceptor->unlocked_complete_, then resume_ of itself *)
      (set_taken (upd (taken s) t (Some j))
         (push t (MTc j false :: MTc t false :: rest) (fill j (payload_res s t) (set_w WIdle s))),
       [ECas OAcqRel v WIdle])
  | (TCall | TThrow), WIdle => (push t rest (set_w (WCaller t) s), [ECas ORel v (WCaller t)])
  | TAccept, WCaller i =>
      (* accept_op::start 417-434: caller->call(self), try_complete(self), caller->resume_ *)
      (set_taken (upd (taken s) i (Some t))
         (push t (MTc t false :: MTc i false :: rest) (fill t (payload_res s i) (set_w WIdle s))),
       [ECas OAcqRel v WIdle])
  | TAccept, WIdle => (push t rest (set_w (WAcceptor t) s), [ECas ORel v (WAcceptor t)])
  | TTryCall, WAcceptor j =>
      (* try_call 632-652 *)
      (set_taken (upd (taken s) t (Some j))
         (set_tres (upd (tres s) t (Some RValue))
            (push t (MTc j false :: MRet :: rest) (fill j (RGot t) (set_w WIdle s)))),
       [ECas OAcqRel v WIdle])
  | TTryAccept, WCaller i =>
      (* try_accept 596-614: the scope_guard resumes the caller after the call *)
      (set_taken (upd (taken s) i (Some t))
         (set_tres (upd (tres s) t (Some (payload_res s i)))
            (push t (MTc i false :: MRet :: rest) (set_w WIdle s))),
       [ECas OAcqRel v WIdle])
  | _, _ => (push t rest s, [ECas OAcq v v])    (* not reachable: decide never asks for it *)
  end.

Definition cas_desired (s : st) (t : nat) (v : word) : word :=
  match v with WIdle => word_of s t | _ => WIdle end.

Definition hop_result (s : st) (k : nat) : res :=
  if hs s && stopreq s k then RDone
  else if is_caller_kind (kd s k)
       then match slot s k with Some RDone => RDone | _ => RValue end   (* forward_set_value 318-324 *)
       else match slot s k with Some r => r | None => RBad end.         (* accept forward_set_value 452-463 *)

Definition step (t : nat) (s : st) : option (st * list ev) :=
  if aborted s then None else
  match stk s t with
  | [] => None
  | MReg :: rest =>
      (* cancellable.hpp 197-213 + inplace_stop_callback ctor: not registered when already stopped,
         the callback runs inline *)
      if stopreq s t then Some (push t (MCbOr t :: rest) s, [EReg t true])
      else Some (push t rest (set_cb (upd (cb s) t CbReg) s), [EReg t false])
  | MCbOr k :: rest =>
      (* cancellable.hpp 120-130: fetch_or(stopped); state == started -> nested_op().stop() *)
      let e := [ECs k 1 (cstop s k) (cstart s k) (ccomp s k)] in
      let s1 := set_cstop (upd (cstop s) k true) s in
      if negb (cstop s k) && cstart s k && negb (ccomp s k)
      then Some (push t (MStopCas k :: rest) s1, e)
      else Some (push t rest s1, e)
  | MLoad :: rest => Some (after_obs t (w s) rest s [EWLoad (w s)])
  | MCas v :: rest =>
      if word_eqb (w s) v then Some (cas_ok t v rest s)
      else Some (after_obs t (w s) rest s [ECasFail (w s) (cas_desired s t v)])
  | MTc k c :: rest =>
      (* cancellable.hpp 136-172 *)
      let e := [ECs k 4 (cstop s k) (cstart s k) (ccomp s k)] in
      if ccomp s k then Some (push t rest s, e)
      else
        let s1 := set_ccomp (upd (ccomp s) k true) s in
        let s2 := set_slot (if c then upd (slot s1) k (Some RDone) else slot s1) s1 in   (* cancelled_ = true *)
        let chain := (if cstart s k then [] else [MSync k]) ++
                     (match cb s k with CbNone => [] | _ => [MDereg k] end) ++ [MHop k] in
        Some (push t (chain ++ rest) s2, e)
  | MSync k :: rest => Some (push t rest (set_sync (upd (sync s) k true) s), [ESync k])
  | MDereg k :: rest => Some (push t rest (set_cb (upd (cb s) k CbGone) s), [EDereg k])
  | MHop k :: rest =>
      (* completion_forwarder.hpp 40-70: schedule(get_scheduler(receiver)) connected to a receiver
         that forwards the final receiver's queries; set_done -> set_done(receiver),
         set_value -> outer.forward_set_value() *)
      let r := hop_result s k in
      Some (push t rest (set_delivered (upd (delivered s) k (r :: delivered s k)) s),
            (if hs s then [EObs k (stopreq s k)] else []) ++ [EDeliver k (is_caller_kind (kd s k)) r])
  | MSyncLoad :: rest =>
      (* cancellable.hpp 91-95 *)
      if sync s t then Some (push t rest s, [ESyncLoad t true])
      else Some (push t (MSetStarted :: rest) s, [ESyncLoad t false])
  | MSetStarted :: rest =>
      (* cancellable.hpp 97-108 *)
      let e := [ECs t 2 (cstop s t) (cstart s t) (ccomp s t)] in
      let s1 := set_cstart (upd (cstart s) t true) s in
      if cstop s t && negb (cstart s t) && negb (ccomp s t) then Some (push t (MStopCas t :: rest) s1, e)
      else if ccomp s t then Some (push t (MSpinSync :: rest) s1, e)
      else Some (push t rest s1, e)
  | MSpinSync :: rest =>
      if sync s t then Some (push t rest s, [ESyncLoad t true]) else None
  | MStopCas k :: rest =>
      (* call_op::stop 303-313, throw_op::stop 360-370, accept_op::stop 436-448 *)
      if word_eqb (w s) (word_of s k)
      then
        let s1 := set_w WIdle s in
        let s2 := set_slot (if is_caller_kind (kd s k) then slot s1
                            else upd (slot s1) k (Some RDone)) s1 in   (* locked_complete_with(done) *)
        Some (push t (MTc k (is_caller_kind (kd s k)) :: rest) s2, [ECas OAcqRel (word_of s k) WIdle])
      else Some (push t rest s, [ECasFail (w s) WIdle])
  | MSet k :: rest =>
      (* inplace_stop_source::request_stop *)
      if stopreq s k then Some (push t rest s, [ESeen k])
      else
        let s1 := set_stopreq (upd (stopreq s) k true) s in
        match cb s k with
        | CbReg => Some (push t (MCbOr k :: rest) (set_cb (upd (cb s) k CbGone) s1), [ESet k])
        | _ => Some (push t rest s1, [ESet k])
        end
  | MRet :: rest => Some (push t rest s, [ETry t (is_acc_kind (kd s t)) (tres s t)])
  end.

(* no thread can move *)
Definition stack_empty (s : st) (t : nat) : bool := match stk s t with [] => true | _ => false end.
Definition all_done (s : st) : bool := forallb (stack_empty s) (seq 0 (nthr s)).

End AsyncPass.
