(* Proofs about the AnyBox machine (C18 part A).
   The central object is an executable trace monitor [mon] (the same check the tie applies to the
   implementation's event list): an object id is constructed at most once, moved-from / destroyed only
   while live, never copied; a heap block is freed only while live and with the size it was allocated with.
   Main theorem: for every configuration, number of variables and operation list, the monitor accepts the
   machine's complete trace (operations, then destruction of the remaining wrappers) and ends with the
   empty ledger. *)
From Coq Require Import List Arith Bool Lia.
From V Require Import Proto.AnyBoxDefs.
Import ListNotations.
Import AnyBox.

(* ---------------------------------------------------------------------------------------------- *)
(* the monitor                                                                                      *)
Record ledger := { lobjs : list nat; lblks : list (nat * nat) }.
Definition L0 : ledger := {| lobjs := []; lblks := [] |}.

Definition pair_dec : forall a b : nat * nat, {a = b} + {a <> b}.
Proof. decide equality; apply Nat.eq_dec. Defined.
Arguments pair_dec : simpl never.

Fixpoint rem1 {A : Type} (dec : forall a b : A, {a = b} + {a <> b}) (x : A) (l : list A) : list A :=
  match l with
  | [] => []
  | h :: t => if dec x h then t else h :: rem1 dec x t
  end.

Definition cnt (L : ledger) (i : nat) : nat := count_occ Nat.eq_dec (lobjs L) i.
Definition cntb (L : ledger) (bn : nat * nat) : nat := count_occ pair_dec (lblks L) bn.
Definition has_blk (b : nat) (l : list (nat * nat)) : bool := existsb (fun bn => fst bn =? b) l.

Definition mon_ev (L : ledger) (e : ev) : option ledger :=
  match e with
  | Ctor i => if cnt L i =? 0 then Some {| lobjs := i :: lobjs L; lblks := lblks L |} else None
  | Move n o =>
    if (cnt L n =? 0) && (1 <=? cnt L o) then Some {| lobjs := n :: lobjs L; lblks := lblks L |} else None
  | Copy _ _ => None
  | MThrow o => if 1 <=? cnt L o then Some L else None
  | AThrow _ => Some L
  | Dtor i => if 1 <=? cnt L i then Some {| lobjs := rem1 Nat.eq_dec i (lobjs L); lblks := lblks L |} else None
  | Alloc b n => if has_blk b (lblks L) then None else Some {| lobjs := lobjs L; lblks := (b, n) :: lblks L |}
  | Dealloc b n =>
    if 1 <=? cntb L (b, n) then Some {| lobjs := lobjs L; lblks := rem1 pair_dec (b, n) (lblks L) |} else None
  | Ret _ => Some L
  end.

Fixpoint mon (L : ledger) (evs : list ev) : option ledger :=
  match evs with
  | [] => Some L
  | e :: r => match mon_ev L e with Some L' => mon L' r | None => None end
  end.

Lemma mon_app : forall a b L, mon L (a ++ b) = match mon L a with Some L' => mon L' b | None => None end.
Proof. induction a; simpl; intros; auto. destruct (mon_ev L a); auto. Qed.

Lemma mon_app_some : forall a b L L1 L2, mon L a = Some L1 -> mon L1 b = Some L2 -> mon L (a ++ b) = Some L2.
Proof. intros. rewrite mon_app, H. auto. Qed.

Lemma mon_one : forall L e, mon L [e] = mon_ev L e.
Proof. intros. simpl. destruct (mon_ev L e); auto. Qed.

Lemma mon_no_copy : forall evs L L', mon L evs = Some L' -> forall a b, ~ In (Copy a b) evs.
Proof.
  induction evs; simpl; intros; auto.
  destruct (mon_ev L a) eqn:E; try discriminate.
  intros [H1 | H1]; [subst; discriminate | eapply IHevs; eauto].
Qed.

(* ---------------------------------------------------------------------------------------------- *)
(* counting lemmas                                                                                  *)
Definition ind (a i : nat) : nat := if Nat.eq_dec a i then 1 else 0.
Definition indb (a i : nat * nat) : nat := if pair_dec a i then 1 else 0.

Lemma count_rem1 : forall (A : Type) dec (x y : A) l,
  count_occ dec (rem1 dec x l) y = if dec x y then pred (count_occ dec l y) else count_occ dec l y.
Proof.
  induction l; simpl; intros.
  - destruct (dec x y); auto.
  - destruct (dec x a); subst.
    + destruct (dec a y); subst; simpl; auto.
    + simpl. destruct (dec a y); subst.
      * destruct (dec x y); [congruence | rewrite IHl; destruct (dec x y); congruence].
      * rewrite IHl. auto.
Qed.

Lemma has_blk_false : forall b l, (forall n, count_occ pair_dec l (b, n) = 0) -> has_blk b l = false.
Proof.
  induction l; simpl; intros; auto.
  destruct a as [b' n']. simpl.
  destruct (Nat.eqb_spec b' b); subst; simpl.
  - specialize (H n'). destruct (pair_dec (b, n') (b, n')); [discriminate | congruence].
  - apply IHl. intros n0. specialize (H n0). destruct (pair_dec (b', n') (b, n0)); [discriminate | auto].
Qed.

Lemma count_all_zero_nil : forall (A : Type) dec (l : list A), (forall x, count_occ dec l x = 0) -> l = [].
Proof. intros. apply (count_occ_inv_nil dec). auto. Qed.

(* freshness of the counters w.r.t. the ledger *)
Definition fresh (L : ledger) (x : ctx) : Prop :=
  (forall i : nat, cnid x <= i -> cnt L i = 0) /\ (forall bn : nat * nat, cnblk x <= fst bn -> cntb L bn = 0).
Definition mono (x x' : ctx) : Prop := cnid x <= cnid x' /\ cnblk x <= cnblk x'.

Lemma mono_refl : forall x, mono x x. Proof. unfold mono; intros; lia. Qed.
Lemma mono_trans : forall x y z, mono x y -> mono y z -> mono x z. Proof. unfold mono; intros; lia. Qed.
Lemma fresh_mono : forall L x x', fresh L x -> mono x x' -> fresh L x'.
Proof. unfold fresh, mono; intros L x x' [A B] [C D]; split; intros; [apply A | apply B]; lia. Qed.
Lemma fresh_le : forall L L' x, fresh L x -> (forall i : nat, cnt L' i <= cnt L i) ->
  (forall bn : nat * nat, cntb L' bn <= cntb L bn) -> fresh L' x.
Proof.
  unfold fresh; intros L L' x [A B] C D; split; intros.
  - specialize (A i H). specialize (C i). lia.
  - specialize (B bn H). specialize (D bn). lia.
Qed.

Ltac msplit := repeat match goal with |- _ /\ _ => split end.
Ltac inst_nat i := repeat match goal with H : forall _ : nat, _ |- _ => specialize (H i) end.
Ltac inst_pair p := repeat match goal with H : forall _ : nat * nat, _ |- _ => specialize (H p) end.
Ltac case_ind := unfold ind, indb in *; repeat (match goal with
  | |- context [Nat.eq_dec ?a ?b] => destruct (Nat.eq_dec a b)
  | H : context [Nat.eq_dec ?a ?b] |- _ => destruct (Nat.eq_dec a b)
  | |- context [pair_dec ?a ?b] => destruct (pair_dec a b)
  | H : context [pair_dec ?a ?b] |- _ => destruct (pair_dec a b)
  end); subst; simpl in *; try congruence; try lia.

(* ---------------------------------------------------------------------------------------------- *)
(* effects of the primitives on the ledger                                                         *)
Lemma L_ctor : forall L i, cnt L i = 0 ->
  exists L', mon L [Ctor i] = Some L' /\ (forall j : nat, cnt L' j = cnt L j + ind i j) /\
             (forall bn : nat * nat, cntb L' bn = cntb L bn).
Proof.
  intros. rewrite mon_one. unfold mon_ev. rewrite H. cbn [Nat.eqb]. eexists; split; [reflexivity|]. split; intros; auto.
  unfold cnt, ind; simpl. destruct (Nat.eq_dec i j); lia.
Qed.

Lemma L_dtor : forall L i, 1 <= cnt L i ->
  exists L', mon L [Dtor i] = Some L' /\ (forall j : nat, cnt L' j + ind i j = cnt L j) /\
             (forall bn : nat * nat, cntb L' bn = cntb L bn).
Proof.
  intros. rewrite mon_one. unfold mon_ev. destruct (Nat.leb_spec 1 (cnt L i)); [|lia].
  eexists; split; [reflexivity|]. split; intros; auto.
  unfold cnt, ind in *; simpl. rewrite count_rem1. destruct (Nat.eq_dec i j); subst; lia.
Qed.

Lemma L_ret : forall L r, mon L [Ret r] = Some L.
Proof. reflexivity. Qed.

Lemma L_new_obj : forall L x k p o x' e, new_obj x k p = (o, x', e) -> fresh L x ->
  exists L', mon L e = Some L' /\ fresh L' x' /\ mono x x' /\ oid o = cnid x /\
    (forall j : nat, cnt L' j = cnt L j + ind (oid o) j) /\ (forall bn : nat * nat, cntb L' bn = cntb L bn).
Proof.
  unfold new_obj; intros. inversion H; subst; clear H. simpl oid.
  destruct H0 as [F1 F2].
  destruct (L_ctor L (cnid x)) as [L' [M [C1 C2]]]; [apply F1; lia|].
  exists L'. split; auto. split; [|split; [unfold mono; simpl; lia | split; auto]].
  split; simpl; intros.
  - rewrite C1, F1 by lia. unfold ind. destruct (Nat.eq_dec (cnid x) i); lia.
  - rewrite C2. apply F2; auto.
Qed.

Lemma L_move_obj : forall L x o r x' e, move_obj x o = (r, x', e) -> fresh L x -> 1 <= cnt L (oid o) ->
  exists L', mon L e = Some L' /\ fresh L' x' /\ mono x x' /\
    (forall j : nat, cnt L' j = cnt L j + match r with Some o' => ind (oid o') j | None => 0 end) /\
    (forall bn : nat * nat, cntb L' bn = cntb L bn) /\
    match r with Some o' => oid o' = cnid x /\ opay o' = opay o /\ omoved o' = omoved o /\ ocls o' = ocls o
            | None => True end.
Proof.
  unfold move_obj; intros. destruct H0 as [F1 F2].
  destruct (negb (nt (ocls o)) && (carm x =? 1)); inversion H; subst; clear H.
  - exists L. rewrite mon_one. unfold mon_ev. destruct (Nat.leb_spec 1 (cnt L (oid o))); [|lia].
    msplit; auto; try solve [split; simpl; auto]; try solve [unfold mono; simpl; lia]; intros; lia.
  - rewrite mon_one. unfold mon_ev. rewrite (F1 (cnid x)) by lia. cbn [Nat.eqb andb].
    destruct (Nat.leb_spec 1 (cnt L (oid o))); [|lia].
    eexists; split; [reflexivity|]. split; [|split; [unfold mono; simpl; lia | split; [|split; auto]]].
    + split; simpl; intros.
      * unfold cnt; simpl. destruct (Nat.eq_dec (cnid x) i); [lia|]. apply F1; lia.
      * apply F2; auto.
    + intros. unfold cnt, ind; simpl. destruct (Nat.eq_dec (cnid x) j); lia.
Qed.

Lemma L_alloc : forall L x n r x' e, alloc x n = (r, x', e) -> fresh L x ->
  exists L', mon L e = Some L' /\ fresh L' x' /\ mono x x' /\
    (forall j : nat, cnt L' j = cnt L j) /\
    (forall bn : nat * nat, cntb L' bn = cntb L bn + match r with Some b => indb (b, n) bn | None => 0 end) /\
    match r with Some b => b = cnblk x | None => True end.
Proof.
  unfold alloc; intros. destruct H0 as [F1 F2].
  destruct (carm x =? 2); inversion H; subst; clear H.
  - exists L. rewrite mon_one. unfold mon_ev. msplit; auto; try solve [split; simpl; auto]; try solve [unfold mono; simpl; lia]; intros; lia.
  - rewrite mon_one. unfold mon_ev. rewrite has_blk_false.
    2:{ intros n0. apply (F2 (cnblk x, n0)). simpl; lia. }
    eexists; split; [reflexivity|]. split; [|split; [unfold mono; simpl; lia | split; [|split]; auto]].
    + split; simpl; intros; [apply F1; auto|].
      unfold cntb; simpl. destruct (pair_dec (cnblk x, n) bn); [subst; simpl in *; lia|]. apply F2; lia.
    + intros. unfold cntb, indb; simpl. destruct (pair_dec (cnblk x, n) bn); lia.
Qed.

Lemma L_dealloc : forall L b n, 1 <= cntb L (b, n) ->
  exists L', mon L [Dealloc b n] = Some L' /\ (forall j : nat, cnt L' j = cnt L j) /\
             (forall bn : nat * nat, cntb L' bn + indb (b, n) bn = cntb L bn).
Proof.
  intros. rewrite mon_one. unfold mon_ev. destruct (Nat.leb_spec 1 (cntb L (b, n))); [|lia].
  eexists; split; [reflexivity|]. split; intros; auto.
  unfold cntb, indb in *; simpl. rewrite count_rem1. destruct (pair_dec (b, n) bn); subst; lia.
Qed.

(* contents of boxes / variables, as counts *)
Definition cbox (i : nat) (b : box) : nat :=
  match b with Empty => 0 | Inline o => ind (oid o) i | Heap _ _ o => ind (oid o) i end.
Definition cboxb (bn : nat * nat) (b : box) : nat :=
  match b with Heap blk n _ => indb (blk, n) bn | _ => 0 end.
Definition cvar (i : nat) (x : option box) : nat := match x with Some b => cbox i b | None => 0 end.
Definition cvarb (bn : nat * nat) (x : option box) : nat := match x with Some b => cboxb bn b | None => 0 end.
Fixpoint cvars (i : nat) (l : list (option box)) : nat :=
  match l with [] => 0 | x :: t => cvar i x + cvars i t end.
Fixpoint cvarsb (bn : nat * nat) (l : list (option box)) : nat :=
  match l with [] => 0 | x :: t => cvarb bn x + cvarsb bn t end.

Definition maker_ok (L : ledger) (m : maker) : Prop :=
  match m with MkNew _ _ => True | MkMove o => 1 <= cnt L (oid o) end.

Lemma L_run_maker : forall L x m r x' e, run_maker x m = (r, x', e) -> fresh L x -> maker_ok L m ->
  exists L', mon L e = Some L' /\ fresh L' x' /\ mono x x' /\
    (forall j : nat, cnt L' j = cnt L j + match r with inl o => ind (oid o) j | inr _ => 0 end) /\
    (forall bn : nat * nat, cntb L' bn = cntb L bn).
Proof.
  unfold run_maker; intros. destruct m.
  - destruct (new_obj x k p) as [[o x1] e1] eqn:E. inversion H; subst; clear H.
    destruct (L_new_obj _ _ _ _ _ _ _ E H0) as [L' [M [F [Mo [_ [C1 C2]]]]]].
    exists L'; msplit; auto; apply F.
  - destruct (move_obj x o) as [[[o'|] x1] e1] eqn:E; inversion H; subst; clear H;
    destruct (L_move_obj _ _ _ _ _ _ E H0 H1) as [L' [M [F [Mo [C1 [C2 _]]]]]];
    exists L'; msplit; auto; apply F.
Qed.

Lemma L_build : forall L x c hdr m r x' e, build x c hdr m = (r, x', e) -> fresh L x -> maker_ok L m ->
  exists L', mon L e = Some L' /\ fresh L' x' /\ mono x x' /\
    (forall j : nat, cnt L' j = cnt L j + match r with inl b => cbox j b | inr _ => 0 end) /\
    (forall bn : nat * nat, cntb L' bn = cntb L bn + match r with inl b => cboxb bn b | inr _ => 0 end).
Proof.
  unfold build; intros. destruct (inplace c (mk_cls m)).
  - destruct (run_maker x m) as [[[o|r0] x1] e1] eqn:E; inversion H; subst; clear H;
    destruct (L_run_maker _ _ _ _ _ _ E H0 H1) as [L' [M [F [Mo [C1 C2]]]]];
    exists L'; msplit; auto; try apply F; intros; simpl; rewrite ?C1, ?C2; lia.
  - destruct (alloc x (heap_bytes c hdr (mk_cls m))) as [[[b|] x1] e1] eqn:EA.
    + destruct (L_alloc _ _ _ _ _ _ EA H0) as [L1 [M1 [F1 [Mo1 [C1 [C1b Eb]]]]]].
      assert (MK : maker_ok L1 m) by (destruct m; simpl in *; auto; rewrite C1; auto).
      destruct (run_maker x1 m) as [[[o|r0] x2] e2] eqn:E; inversion H; subst; clear H;
      destruct (L_run_maker _ _ _ _ _ _ E F1 MK) as [L2 [M2 [F2 [Mo2 [C2 C2b]]]]].
      * exists L2. split; [eapply mon_app_some; eauto|]. split; auto. split; [eapply mono_trans; eauto|].
        split; intros; simpl; rewrite ?C2, ?C2b, ?C1, ?C1b; lia.
      * destruct (L_dealloc L2 (cnblk x) (heap_bytes c hdr (mk_cls m))) as [L3 [M3 [C3 C3b]]].
        { rewrite C2b, C1b. unfold indb. destruct (pair_dec _ _); [lia | congruence]. }
        exists L3. split; [eapply mon_app_some; eauto; eapply mon_app_some; eauto|].
        split; [|split; [eapply mono_trans; eauto|]].
        { eapply fresh_le; eauto; intros; [rewrite C3; lia | specialize (C3b bn); lia]. }
        split; intros.
        { rewrite C3, C2, C1; lia. }
        { specialize (C3b bn). rewrite C2b, C1b in C3b. lia. }
    + inversion H; subst; clear H.
      destruct (L_alloc _ _ _ _ _ _ EA H0) as [L1 [M1 [F1 [Mo1 [C1 [C1b _]]]]]].
      exists L1; msplit; auto; try apply F1; intros; rewrite ?C1, ?C1b; lia.
Qed.

Lemma L_destroy : forall L b, (forall i : nat, cbox i b <= cnt L i) -> (forall bn : nat * nat, cboxb bn b <= cntb L bn) ->
  exists L', mon L (destroy_box b) = Some L' /\
    (forall j : nat, cnt L' j + cbox j b = cnt L j) /\ (forall bn : nat * nat, cntb L' bn + cboxb bn b = cntb L bn).
Proof.
  intros. destruct b as [|o|blk n o]; cbn [destroy_box cbox cboxb].
  - exists L; msplit; auto; intros; lia.
  - destruct (L_dtor L (oid o)) as [L' [M [C1 C2]]].
    { specialize (H (oid o)). simpl in H. unfold ind in H. destruct (Nat.eq_dec _ _); [lia | congruence]. }
    exists L'; msplit; auto. intros; rewrite C2; lia.
  - destruct (L_dtor L (oid o)) as [L1 [M1 [C1 C1b]]].
    { specialize (H (oid o)). simpl in H. unfold ind in H. destruct (Nat.eq_dec _ _); [lia | congruence]. }
    destruct (L_dealloc L1 blk n) as [L2 [M2 [C2 C2b]]].
    { rewrite C1b. specialize (H0 (blk, n)). simpl in H0. unfold indb in H0. destruct (pair_dec _ _); [lia | congruence]. }
    exists L2. split; [change [Dtor (oid o); Dealloc blk n] with ([Dtor (oid o)] ++ [Dealloc blk n]); eapply mon_app_some; eauto|].
    split; intros.
    + rewrite C2. apply C1.
    + rewrite <- C1b. apply C2b.
Qed.

Lemma L_move_box : forall L x src r x' e, move_box x src = (r, x', e) -> fresh L x ->
  (forall i : nat, cbox i src <= cnt L i) ->
  exists L', mon L e = Some L' /\ fresh L' x' /\ mono x x' /\
    (forall bn : nat * nat, cntb L' bn = cntb L bn) /\
    match r with
    | inl (d, s') => (forall j : nat, cnt L' j + cbox j src = cnt L j + cbox j d + cbox j s') /\
                     (forall bn : nat * nat, cboxb bn d + cboxb bn s' = cboxb bn src)
    | inr _ => forall j : nat, cnt L' j = cnt L j
    end.
Proof.
  unfold move_box; intros. destruct src as [|o|blk n o].
  - inversion H; subst; clear H. exists L. simpl. msplit; auto; try apply H0; try apply mono_refl; intros; lia.
  - destruct (move_obj x o) as [[[o'|] x1] e1] eqn:E; inversion H; subst; clear H;
    (destruct (L_move_obj L _ _ _ _ _ E H0) as [L' [M [F [Mo [C1 [C2 P]]]]]];
     [specialize (H1 (oid o)); simpl in H1; unfold ind in H1; destruct (Nat.eq_dec _ _); [lia | congruence]|]);
    exists L'; msplit; auto; try apply F; intros; simpl; rewrite ?C1; try lia.
  - inversion H; subst; clear H. exists L. simpl. msplit; auto; try apply H0; try apply mono_refl; intros; lia.
Qed.

Lemma L_assign_box : forall L x dst src d s' r x' e, assign_box x dst src = ((d, s', r), x', e) -> fresh L x ->
  (forall i : nat, cbox i dst + cbox i src <= cnt L i) ->
  (forall bn : nat * nat, cboxb bn dst + cboxb bn src <= cntb L bn) ->
  exists L', mon L e = Some L' /\ fresh L' x' /\ mono x x' /\
    (forall j : nat, cnt L' j + cbox j dst + cbox j src = cnt L j + cbox j d + cbox j s') /\
    (forall bn : nat * nat, cntb L' bn + cboxb bn dst + cboxb bn src = cntb L bn + cboxb bn d + cboxb bn s').
Proof.
  unfold assign_box; intros.
  destruct (L_destroy L dst) as [L1 [M1 [C1 C1b]]].
  { intros i; specialize (H1 i); lia. }
  { intros bn; specialize (H2 bn); lia. }
  assert (F1 : fresh L1 x).
  { eapply fresh_le; eauto; intros; [specialize (C1 i) | specialize (C1b bn)]; lia. }
  destruct (move_box x src) as [[[[d0 s0]|r0] x1] e1] eqn:E; inversion H; subst; clear H.
  - destruct (L_move_box L1 _ _ _ _ _ E F1) as [L2 [M2 [F2 [Mo [C2b [C2 C2c]]]]]].
    { intros i. specialize (H1 i). specialize (C1 i). lia. }
    exists L2. split; [eapply mon_app_some; eauto|]. split; auto. split; auto.
    split; intros.
    + specialize (C2 j). specialize (C1 j). lia.
    + specialize (C2c bn). specialize (C1b bn). rewrite C2b. lia.
  - destruct (L_move_box L1 _ _ _ _ _ E F1) as [L2 [M2 [F2 [Mo [C2b C2]]]]].
    { intros i. specialize (H1 i). specialize (C1 i). lia. }
    exists L2. split; [eapply mon_app_some; eauto|]. split; auto. split; auto.
    split; intros; simpl.
    + specialize (C2 j). specialize (C1 j). lia.
    + specialize (C1b bn). rewrite C2b. lia.
Qed.

(* ---------------------------------------------------------------------------------------------- *)
(* variables                                                                                        *)
Lemma nth_error_upd_same : forall (A : Type) (l : list A) v x y,
  nth_error l v = Some y -> nth_error (upd v x l) v = Some x.
Proof. induction l; destruct v; simpl; intros; try discriminate; eauto. Qed.

Lemma nth_error_upd_other : forall (A : Type) (l : list A) v w x,
  v <> w -> nth_error (upd v x l) w = nth_error l w.
Proof. induction l; destruct v, w; simpl; intros; auto; congruence. Qed.

Lemma length_upd : forall (A : Type) (l : list A) v x, length (upd v x l) = length l.
Proof. induction l; destruct v; simpl; intros; auto. Qed.

Lemma cvars_upd : forall i l v x y, nth_error l v = Some y ->
  cvars i (upd v x l) + cvar i y = cvars i l + cvar i x.
Proof.
  induction l; destruct v; simpl; intros; try discriminate.
  - inversion H; subst. lia.
  - specialize (IHl _ x _ H). lia.
Qed.
Lemma cvarsb_upd : forall bn l v x y, nth_error l v = Some y ->
  cvarsb bn (upd v x l) + cvarb bn y = cvarsb bn l + cvarb bn x.
Proof.
  induction l; destruct v; simpl; intros; try discriminate.
  - inversion H; subst. lia.
  - specialize (IHl _ x _ H). lia.
Qed.
Lemma cvars_upd2 : forall i l v w xv xw yv yw, v <> w -> nth_error l v = Some yv -> nth_error l w = Some yw ->
  cvars i (upd v xv (upd w xw l)) + cvar i yv + cvar i yw = cvars i l + cvar i xv + cvar i xw.
Proof.
  intros. pose proof (cvars_upd i l w xw yw H1).
  assert (nth_error (upd w xw l) v = Some yv) by (rewrite nth_error_upd_other; auto).
  pose proof (cvars_upd i _ v xv yv H3). lia.
Qed.
Lemma cvarsb_upd2 : forall i l v w xv xw yv yw, v <> w -> nth_error l v = Some yv -> nth_error l w = Some yw ->
  cvarsb i (upd v xv (upd w xw l)) + cvarb i yv + cvarb i yw = cvarsb i l + cvarb i xv + cvarb i xw.
Proof.
  intros. pose proof (cvarsb_upd i l w xw yw H1).
  assert (nth_error (upd w xw l) v = Some yv) by (rewrite nth_error_upd_other; auto).
  pose proof (cvarsb_upd i _ v xv yv H3). lia.
Qed.

Definition Inv (s : st) (L : ledger) : Prop :=
  (forall i : nat, cnt L i = cvars i (vars s)) /\ (forall bn : nat * nat, cntb L bn = cvarsb bn (vars s)) /\
  fresh L (ctx0 s 0).

Lemma fresh_arm : forall L x y, fresh L x -> cnid x = cnid y -> cnblk x = cnblk y -> fresh L y.
Proof. unfold fresh; intros L x y [A B] E1 E2; rewrite <- E1, <- E2; auto. Qed.

(* [cg]: close a goal of the form  forall j, <linear equation over counts at j> *)
Ltac pose_get j :=
  repeat match goal with
  | Hv : nth_error ?l ?v = Some ?yv |- _ =>
    lazymatch goal with
    | _ : cvars j (upd v None l) + cvar j yv = cvars j l + cvar j None |- _ => fail
    | _ => pose proof (cvars_upd j l v None yv Hv)
    end
  end;
  repeat match goal with
  | Hv : nth_error ?l ?v = Some ?yv |- _ =>
    lazymatch goal with
    | _ : cvarsb j (upd v None l) + cvarb j yv = cvarsb j l + cvarb j None |- _ => fail
    | _ => pose proof (cvarsb_upd j l v None yv Hv)
    end
  end;
  try match goal with
  | Hv : nth_error ?l ?v = Some ?yv, Hw : nth_error ?l ?w = Some ?yw, N : ?v <> ?w |- _ =>
    first [ pose proof (cvars_upd2 j l v w None None yv yw N Hv Hw)
          | pose proof (cvarsb_upd2 j l v w None None yv yw N Hv Hw) ]
  end.
Ltac pose_goal j :=
  try match goal with
  | Hv : nth_error ?l ?v = Some ?yv, Hw : nth_error ?l ?w = Some ?yw, N : ?v <> ?w
    |- context [cvars j (upd ?v ?xv (upd ?w ?xw ?l))] => pose proof (cvars_upd2 j l v w xv xw yv yw N Hv Hw)
  | Hv : nth_error ?l ?v = Some ?yv, Hw : nth_error ?l ?w = Some ?yw, N : ?v <> ?w
    |- context [cvarsb j (upd ?v ?xv (upd ?w ?xw ?l))] => pose proof (cvarsb_upd2 j l v w xv xw yv yw N Hv Hw)
  | Hv : nth_error ?l ?v = Some ?yv |- context [cvars j (upd ?v ?xv ?l)] => pose proof (cvars_upd j l v xv yv Hv)
  | Hv : nth_error ?l ?v = Some ?yv |- context [cvarsb j (upd ?v ?xv ?l)] => pose proof (cvarsb_upd j l v xv yv Hv)
  end.
Ltac cg := let j := fresh "j" in intro j; pose_get j; pose_goal j; inst_nat j; inst_pair j;
  cbn [cvar cvarb cbox cboxb oid husk] in *; lia.

Lemma inv_fresh : forall s L arm, Inv s L -> fresh L (ctx0 s arm).
Proof. intros s L arm [_ [_ F]]. eapply fresh_arm; eauto. Qed.

Lemma mk_inv : forall vs x L, (forall i : nat, cnt L i = cvars i vs) -> (forall bn : nat * nat, cntb L bn = cvarsb bn vs) ->
  fresh L x -> Inv (mkst vs x) L.
Proof. intros. split; [|split]; auto. Qed.

Lemma step_new : forall c s v k p inpl hdr arm s' e L,
  step c s (ONew v k p inpl hdr arm) = Some (s', e) -> Inv s L -> exists L', mon L e = Some L' /\ Inv s' L'.
Proof.
  intros c s v k p inpl hdr arm s' e L H I. pose proof (inv_fresh _ _ arm I) as F. destruct I as [I1 [I2 _]].
  cbn [step] in H. unfold getv in H. destruct (nth_error (vars s) v) as [[b0|]|] eqn:Hv; try discriminate.
  destruct inpl.
  - destruct (build (ctx0 s arm) c hdr (MkNew k p)) as [[[b|r] x1] e1] eqn:B; inversion H; subst; clear H;
    destruct (L_build L _ _ _ _ _ _ _ B F I) as [L1 [M1 [F1 [Mo [C1 C1b]]]]];
    (exists L1; split; [eapply mon_app_some; eauto|]; apply mk_inv; auto; cg).
  - destruct (new_obj (ctx0 s arm) k p) as [[t x0] e0] eqn:N.
    destruct (L_new_obj L _ _ _ _ _ _ N F) as [L0' [M0 [F0 [Mo0 [Et [C0 C0b]]]]]].
    assert (MK : maker_ok L0' (MkMove t)).
    { simpl. rewrite C0. unfold ind. destruct (Nat.eq_dec _ _); [lia | congruence]. }
    destruct (build x0 c hdr (MkMove t)) as [[[b|r] x1] e1] eqn:B; inversion H; subst; clear H;
    destruct (L_build L0' _ _ _ _ _ _ _ B F0 MK) as [L1 [M1 [F1 [Mo [C1 C1b]]]]];
    (destruct (L_dtor L1 (oid t)) as [L2 [M2 [C2 C2b]]];
     [rewrite C1, C0; unfold ind; destruct (Nat.eq_dec _ _); [lia | congruence]|]);
    (exists L2; split;
     [eapply mon_app_some; eauto; eapply mon_app_some; eauto;
      change [Dtor (oid t); Ret ?r] with ([Dtor (oid t)] ++ [Ret r]); eapply mon_app_some; eauto|];
     apply mk_inv; [cg | cg | eapply fresh_le; eauto; cg]).
Qed.

Lemma step_movec : forall c s v w arm s' e L,
  step c s (OMoveC v w arm) = Some (s', e) -> Inv s L -> exists L', mon L e = Some L' /\ Inv s' L'.
Proof.
  intros c s v w arm s' e L H I. pose proof (inv_fresh _ _ arm I) as F. destruct I as [I1 [I2 _]].
  cbn [step] in H. unfold getv in H.
  destruct (nth_error (vars s) v) as [[b0|]|] eqn:Hv; try discriminate.
  destruct (nth_error (vars s) w) as [[bw|]|] eqn:Hw; try discriminate.
  assert (N : v <> w) by (intro; subst; congruence).
  destruct (move_box (ctx0 s arm) bw) as [[[[d s0]|r] x1] e1] eqn:B; inversion H; subst; clear H.
  - destruct (L_move_box L _ _ _ _ _ B F) as [L1 [M1 [F1 [Mo [C1b [C1 C1c]]]]]]; [cg|].
    exists L1; split; [eapply mon_app_some; eauto|]. apply mk_inv; auto; cg.
  - destruct (L_move_box L _ _ _ _ _ B F) as [L1 [M1 [F1 [Mo [C1b C1]]]]]; [cg|].
    exists L1; split; [eapply mon_app_some; eauto|]. apply mk_inv; auto; cg.
Qed.

Lemma step_movea : forall c s v w arm s' e L,
  step c s (OMoveA v w arm) = Some (s', e) -> Inv s L -> exists L', mon L e = Some L' /\ Inv s' L'.
Proof.
  intros c s v w arm s' e L H I. pose proof (inv_fresh _ _ arm I) as F. pose proof I as I0. destruct I as [I1 [I2 _]].
  cbn [step] in H. unfold getv in H.
  destruct (nth_error (vars s) v) as [[bv|]|] eqn:Hv; try discriminate.
  destruct (nth_error (vars s) w) as [[bw|]|] eqn:Hw; try discriminate.
  destruct (Nat.eqb_spec v w) as [|N].
  - inversion H; subst. exists L; split; auto.
  - destruct (assign_box (ctx0 s arm) bv bw) as [[[[d s0] r] x1] e1] eqn:B. inversion H; subst; clear H.
    destruct (L_assign_box L _ _ _ _ _ _ _ _ B F) as [L1 [M1 [F1 [Mo [C1 C1b]]]]]; [cg | cg |].
    exists L1; split; [eapply mon_app_some; eauto|]. apply mk_inv; auto; cg.
Qed.

Lemma step_del : forall c s v s' e L,
  step c s (ODel v) = Some (s', e) -> Inv s L -> exists L', mon L e = Some L' /\ Inv s' L'.
Proof.
  intros c s v s' e L H I. pose proof (inv_fresh _ _ 0 I) as F. destruct I as [I1 [I2 _]].
  cbn [step] in H. unfold getv in H.
  destruct (nth_error (vars s) v) as [[bv|]|] eqn:Hv; try discriminate. inversion H; subst; clear H.
  destruct (L_destroy L bv) as [L1 [M1 [C1 C1b]]]; [cg | cg |].
  exists L1; split; [eapply mon_app_some; eauto|].
  split; [|split]; cbn [vars]; [cg | cg |]. eapply fresh_le; eauto; cg.
Qed.

Lemma cbox_set_obj : forall i b o o', box_obj b = Some o -> oid o' = oid o -> cbox i (set_obj b o') = cbox i b.
Proof. destruct b; simpl; intros; try discriminate; inversion H; subst; rewrite H0; auto. Qed.
Lemma cboxb_set_obj : forall bn b o', cboxb bn (set_obj b o') = cboxb bn b.
Proof. destruct b; simpl; auto. Qed.

Lemma step_simple : forall c s o s' e L,
  match o with OInv _ | OPoke _ _ _ | ORef _ _ => True | _ => False end ->
  step c s o = Some (s', e) -> Inv s L -> exists L', mon L e = Some L' /\ Inv s' L'.
Proof.
  intros c s o s' e L T H I. destruct o; try contradiction; cbn [step] in H; unfold getv in H.
  - destruct (nth_error (vars s) v) as [[bv|]|] eqn:Hv; try discriminate.
    destruct (box_obj bv); inversion H; subst. exists L; split; auto.
  - destruct (nth_error (vars s) v) as [[bv|]|] eqn:Hv; try discriminate.
    destruct (box_obj bv) as [o|] eqn:BO; inversion H; subst; clear H.
    exists L. split; [destruct t; reflexivity|].
    destruct I as [I1 [I2 F]]. split; [|split]; cbn [vars]; auto.
    + intro j. pose proof (cvars_upd j _ _ (Some (set_obj bv {| oid := oid o; ocls := ocls o; opay := opay o + d; omoved := omoved o |})) _ Hv).
      cbn [cvar] in *. rewrite (cbox_set_obj j bv o) in H by auto. rewrite I1. lia.
    + intro j. pose proof (cvarsb_upd j _ _ (Some (set_obj bv {| oid := oid o; ocls := ocls o; opay := opay o + d; omoved := omoved o |})) _ Hv).
      cbn [cvarb] in *. rewrite cboxb_set_obj in H. rewrite I2. lia.
  - destruct (nth_error (vars s) v) as [[bv|]|] eqn:Hv; try discriminate.
    destruct (nth_error (vars s) w) as [[bw|]|] eqn:Hw; try discriminate.
    destruct (box_obj bv); inversion H; subst. exists L; split; auto.
Qed.

Ltac mon_chain :=
  repeat first [ eassumption | reflexivity
               | match goal with |- mon _ (_ :: _ :: _) = _ =>
                   match goal with |- mon _ (?a :: ?r) = _ => change (a :: r) with ([a] ++ r) end end
               | eapply mon_app_some ].

Lemma step_assignv : forall c s v k p arm s' e L,
  step c s (OAssignV v k p arm) = Some (s', e) -> Inv s L -> exists L', mon L e = Some L' /\ Inv s' L'.
Proof.
  intros c s v k p arm s' e L H I. pose proof (inv_fresh _ _ arm I) as F. destruct I as [I1 [I2 _]].
  cbn [step] in H. unfold getv in H.
  destruct (nth_error (vars s) v) as [[bv|]|] eqn:Hv; try discriminate.
  destruct (new_obj (ctx0 s arm) k p) as [[t x0] e0] eqn:N.
  destruct (L_new_obj L _ _ _ _ _ _ N F) as [La [Ma [Fa [Moa [Et [Ca Cab]]]]]].
  destruct (ckind c).
  - (* any_object: destroy, then build *)
    destruct (L_destroy La bv) as [Lb [Mb [Cb Cbb]]]; [cg | cg |].
    assert (Fb : fresh Lb x0) by (eapply fresh_le; eauto; cg).
    assert (MK : maker_ok Lb (MkMove t)).
    { simpl. specialize (Cb (oid t)). specialize (Ca (oid t)). specialize (I1 (oid t)).
      pose proof (cvars_upd (oid t) _ _ None _ Hv). simpl in H0.
      assert (cnt L (oid t) = 0) by (apply (proj1 F); rewrite Et; lia).
      unfold ind in *. destruct (Nat.eq_dec (oid t) (oid t)); [|congruence]. cbn [cvar] in *. lia. }
    destruct (build x0 c true (MkMove t)) as [[[b|r] x1] e1] eqn:B; inversion H; subst; clear H;
    destruct (L_build Lb _ _ _ _ _ _ _ B Fb MK) as [Lc [Mc [Fc [Moc [Cc Ccb]]]]];
    (destruct (L_dtor Lc (oid t)) as [Ld [Md [Cd Cdb]]];
     [specialize (Cc (oid t)); simpl in MK; lia|]);
    (exists Ld; split; [mon_chain|]; apply mk_inv; [cg | cg | eapply fresh_le; eauto; cg]).
  - (* any_unique: build the temporary wrapper first, then destroy the old contents *)
    assert (MK : maker_ok La (MkMove t)).
    { simpl. rewrite Ca. unfold ind. destruct (Nat.eq_dec _ _); [lia | congruence]. }
    destruct (build x0 c false (MkMove t)) as [[[b|r] x1] e1] eqn:B; inversion H; subst; clear H;
    destruct (L_build La _ _ _ _ _ _ _ B Fa MK) as [Lb [Mb [Fb [Mob [Cb Cbb]]]]].
    + destruct (L_destroy Lb bv) as [Lc [Mc [Cc Ccb]]]; [cg | cg |].
      destruct (L_dtor Lc (oid t)) as [Ld [Md [Cd Cdb]]].
      { specialize (Cc (oid t)). specialize (Cb (oid t)). specialize (Ca (oid t)). specialize (I1 (oid t)).
        pose proof (cvars_upd (oid t) _ _ None _ Hv). simpl in H.
        assert (cnt L (oid t) = 0) by (apply (proj1 F); rewrite Et; lia).
        unfold ind in *. destruct (Nat.eq_dec (oid t) (oid t)); [|congruence]. cbn [cvar] in *. lia. }
      exists Ld; split; [mon_chain|]. apply mk_inv; [cg | cg |].
      eapply fresh_le; [apply Fb | cg | cg].
    + destruct (L_dtor Lb (oid t)) as [Ld [Md [Cd Cdb]]].
      { rewrite Cb, Ca. unfold ind. destruct (Nat.eq_dec _ _); [lia | congruence]. }
      exists Ld; split; [mon_chain|]. apply mk_inv; [cg | cg | eapply fresh_le; eauto; cg].
Qed.

Lemma cvars_upd_twice : forall i l v x1 x2 y, nth_error l v = Some y ->
  cvars i (upd v x2 (upd v x1 l)) + cvar i y = cvars i l + cvar i x2.
Proof.
  intros. pose proof (cvars_upd i l v x1 y H).
  pose proof (cvars_upd i _ v x2 x1 (nth_error_upd_same _ l v x1 y H)). lia.
Qed.
Lemma cvarsb_upd_twice : forall i l v x1 x2 y, nth_error l v = Some y ->
  cvarsb i (upd v x2 (upd v x1 l)) + cvarb i y = cvarsb i l + cvarb i x2.
Proof.
  intros. pose proof (cvarsb_upd i l v x1 y H).
  pose proof (cvarsb_upd i _ v x2 x1 (nth_error_upd_same _ l v x1 y H)). lia.
Qed.

Lemma step_swap : forall c s v w arm s' e L,
  step c s (OSwap v w arm) = Some (s', e) -> Inv s L -> exists L', mon L e = Some L' /\ Inv s' L'.
Proof.
  intros c s v w arm s' e L H I. pose proof (inv_fresh _ _ arm I) as F. destruct I as [I1 [I2 _]].
  cbn [step] in H. unfold getv in H.
  destruct (nth_error (vars s) v) as [[bv|]|] eqn:Hv; try discriminate.
  destruct (nth_error (vars s) w) as [[bw|]|] eqn:Hw; try discriminate.
  destruct (ckind c).
  - (* any_object: std::swap *)
    destruct (move_box (ctx0 s arm) bv) as [[[[tmp a1]|r] x1] e1] eqn:B1.
    + destruct (L_move_box L _ _ _ _ _ B1 F) as [La [Ma [Fa [Moa [Cab [Ca Cac]]]]]]; [cg|].
      destruct (Nat.eqb_spec v w) as [|N].
      * subst w. assert (bw = bv) by congruence. subst bw.
        destruct (assign_box x1 a1 tmp) as [[[[a2 tmp1] r] x2] e2] eqn:B2. inversion H; subst; clear H.
        destruct (L_assign_box La _ _ _ _ _ _ _ _ B2 Fa) as [Lb [Mb [Fb [Mob [Cb Cbb]]]]]; [cg | cg |].
        destruct (L_destroy Lb tmp1) as [Lc [Mc [Cc Ccb]]]; [cg | cg |].
        exists Lc; split; [mon_chain|]. apply mk_inv; [cg | cg | eapply fresh_le; eauto; cg].
      * destruct (assign_box x1 a1 bw) as [[[[a2 b1] r] x2] e2] eqn:B2.
        destruct (L_assign_box La _ _ _ _ _ _ _ _ B2 Fa) as [Lb [Mb [Fb [Mob [Cb Cbb]]]]]; [cg | cg |].
        destruct r as [r|].
        { inversion H; subst; clear H.
          destruct (L_destroy Lb tmp) as [Lc [Mc [Cc Ccb]]]; [cg | cg |].
          exists Lc; split; [mon_chain|]. apply mk_inv; [cg | cg | eapply fresh_le; eauto; cg]. }
        { destruct (assign_box x2 b1 tmp) as [[[[b2 tmp1] r] x3] e3] eqn:B3. inversion H; subst; clear H.
          destruct (L_assign_box Lb _ _ _ _ _ _ _ _ B3 Fb) as [Lc [Mc [Fc [Moc [Cc Ccb]]]]]; [cg | cg |].
          destruct (L_destroy Lc tmp1) as [Ld [Md [Cd Cdb]]]; [cg | cg |].
          exists Ld; split; [mon_chain|]. apply mk_inv; [cg | cg | eapply fresh_le; eauto; cg]. }
    + inversion H; subst; clear H.
      destruct (L_move_box L _ _ _ _ _ B1 F) as [La [Ma [Fa [Moa [Cab Ca]]]]]; [cg|].
      exists La; split; [mon_chain|]. apply mk_inv; auto; cg.
  - (* any_unique: exchange of pointers *)
    inversion H; subst; clear H. exists L; split; [reflexivity|].
    apply mk_inv; auto.
    + destruct (Nat.eqb_spec v w) as [|N].
      * subst w. assert (bw = bv) by congruence. subst bw. intro j.
        pose proof (cvars_upd_twice j _ _ (Some bv) (Some bv) _ Hv). rewrite I1. lia.
      * cg.
    + destruct (Nat.eqb_spec v w) as [|N].
      * subst w. assert (bw = bv) by congruence. subst bw. intro j.
        pose proof (cvarsb_upd_twice j _ _ (Some bv) (Some bv) _ Hv). rewrite I2. lia.
      * cg.
Qed.

Theorem step_inv : forall c s o s' e L,
  step c s o = Some (s', e) -> Inv s L -> exists L', mon L e = Some L' /\ Inv s' L'.
Proof.
  intros. destruct o.
  - eapply step_new; eauto.
  - eapply step_movec; eauto.
  - eapply step_movea; eauto.
  - eapply step_assignv; eauto.
  - eapply step_swap; eauto.
  - eapply step_simple; eauto; exact I.
  - eapply step_simple; eauto; exact I.
  - eapply step_simple; eauto; exact I.
  - eapply step_del; eauto.
Qed.

Lemma run_inv : forall c ops s s' e L,
  run c s ops = (s', e) -> Inv s L -> exists L', mon L e = Some L' /\ Inv s' L'.
Proof.
  induction ops; simpl; intros.
  - inversion H; subst. exists L; auto.
  - destruct (step c s a) as [[s1 e1]|] eqn:S.
    + destruct (run c s1 ops) as [s2 e2] eqn:R. inversion H; subst; clear H.
      destruct (step_inv _ _ _ _ _ _ S H0) as [L1 [M1 I1]].
      destruct (IHops _ _ _ _ R I1) as [L2 [M2 I2]].
      exists L2; split; auto. eapply mon_app_some; eauto.
    + eauto.
Qed.

Lemma cvars_repeat_none : forall i n, cvars i (repeat None n) = 0.
Proof. induction n; simpl; auto. Qed.
Lemma cvarsb_repeat_none : forall i n, cvarsb i (repeat None n) = 0.
Proof. induction n; simpl; auto. Qed.

Lemma inv_init : forall n, Inv (init n) L0.
Proof.
  intros. split; [|split]; simpl; intros.
  - rewrite cvars_repeat_none; auto.
  - rewrite cvarsb_repeat_none; auto.
  - split; intros; reflexivity.
Qed.

Lemma finish_mon : forall l L,
  (forall i : nat, cvars i l <= cnt L i) -> (forall bn : nat * nat, cvarsb bn l <= cntb L bn) ->
  exists L', mon L (finish_evs l) = Some L' /\
    (forall i : nat, cnt L' i + cvars i l = cnt L i) /\ (forall bn : nat * nat, cntb L' bn + cvarsb bn l = cntb L bn).
Proof.
  induction l as [|[b|] t]; cbn [finish_evs cvars cvarsb cvar cvarb]; intros.
  - exists L; msplit; auto; intros; lia.
  - destruct (L_destroy L b) as [L1 [M1 [C1 C1b]]]; [cg | cg |].
    destruct (IHt L1) as [L2 [M2 [C2 C2b]]]; [cg | cg |].
    exists L2; split; [eapply mon_app_some; eauto|]. split; cg.
  - destruct (IHt L) as [L2 [M2 [C2 C2b]]]; [cg | cg |].
    exists L2; msplit; auto; cg.
Qed.

Lemma ledger_empty : forall L, (forall i : nat, cnt L i = 0) -> (forall bn : nat * nat, cntb L bn = 0) -> L = L0.
Proof.
  intros [lo lb] A B. unfold cnt, cntb in *; simpl in *.
  rewrite (count_all_zero_nil _ Nat.eq_dec lo A), (count_all_zero_nil _ pair_dec lb B). reflexivity.
Qed.

(* MAIN: the monitor accepts every complete trace and ends with nothing live *)
Theorem exec_monitored : forall c n ops, mon L0 (exec c n ops) = Some L0.
Proof.
  intros. unfold exec. destruct (run c (init n) ops) as [s e] eqn:R.
  destruct (run_inv _ _ _ _ _ _ R (inv_init n)) as [L [M [I1 [I2 _]]]].
  destruct (finish_mon (vars s) L) as [L' [M' [C Cb]]]; [cg | cg |].
  assert (L' = L0) by (apply ledger_empty; cg). subst L'.
  unfold finish; cbn [snd]. eapply mon_app_some; eauto. eapply mon_app_some; eauto.
Qed.

(* prefix form: the monitor accepts the trace of any operation list before the final destruction,
   and what is live then is exactly what the wrappers own *)
Theorem run_monitored : forall c n ops s e, run c (init n) ops = (s, e) ->
  exists L, mon L0 e = Some L /\ (forall i, cnt L i = cvars i (vars s)) /\ (forall bn, cntb L bn = cvarsb bn (vars s)).
Proof.
  intros. destruct (run_inv _ _ _ _ _ _ H (inv_init n)) as [L [M [I1 [I2 _]]]]. exists L; auto.
Qed.

Theorem never_copies : forall c n ops a b, ~ In (Copy a b) (exec c n ops).
Proof. intros. eapply mon_no_copy. apply exec_monitored. Qed.

(* ---------------------------------------------------------------------------------------------- *)
(* identities are never reused: creation events carry consecutive ids, allocations consecutive      *)
(* block numbers                                                                                    *)
Definition created (e : ev) : list nat := match e with Ctor i => [i] | Move n _ => [n] | _ => [] end.
Definition destroyed (e : ev) : list nat := match e with Dtor i => [i] | _ => [] end.
Definition allocated (e : ev) : list (nat * nat) := match e with Alloc b n => [(b, n)] | _ => [] end.
Definition freed (e : ev) : list (nat * nat) := match e with Dealloc b n => [(b, n)] | _ => [] end.
Definition created_ids (evs : list ev) : list nat := flat_map created evs.
Definition destroyed_ids (evs : list ev) : list nat := flat_map destroyed evs.
Definition allocated_blks (evs : list ev) : list (nat * nat) := flat_map allocated evs.
Definition freed_blks (evs : list ev) : list (nat * nat) := flat_map freed evs.

Definition consecN (a b : nat) (e : list ev) (a' b' : nat) : Prop :=
  created_ids e = seq a (a' - a) /\ a <= a' /\
  map fst (allocated_blks e) = seq b (b' - b) /\ b <= b'.
Notation consec x e x' := (consecN (cnid x) (cnblk x) e (cnid x') (cnblk x')).

Lemma seq_glue : forall a b c, a <= b -> b <= c -> seq a (b - a) ++ seq b (c - b) = seq a (c - a).
Proof. intros. replace (c - a) with ((b - a) + (c - b)) by lia. rewrite seq_app. do 2 f_equal. lia. Qed.

Lemma consec_app : forall a b e1 a1 b1 e2 a2 b2,
  consecN a b e1 a1 b1 -> consecN a1 b1 e2 a2 b2 -> consecN a b (e1 ++ e2) a2 b2.
Proof.
  unfold consecN, created_ids, allocated_blks; intros a b e1 a1 b1 e2 a2 b2 [A [B [C D]]] [A' [B' [C' D']]].
  rewrite !flat_map_app, map_app, A, A', C, C', !seq_glue by lia. msplit; auto; lia.
Qed.
Lemma consec_silent : forall a b e, created_ids e = [] -> allocated_blks e = [] -> consecN a b e a b.
Proof. unfold consecN; intros a b e A B. rewrite A, B, !Nat.sub_diag. simpl. msplit; auto. Qed.

Lemma consec_destroy : forall x b, consec x (destroy_box b) x.
Proof. intros. apply consec_silent; destruct b; reflexivity. Qed.
Lemma consec_one : forall x i, consec x [Dtor i] x.
Proof. intros. apply consec_silent; reflexivity. Qed.
Lemma consec_ret : forall x r, consec x [Ret r] x.
Proof. intros. apply consec_silent; reflexivity. Qed.

Lemma consec_new_obj : forall x k p o x' e, new_obj x k p = (o, x', e) -> consec x e x'.
Proof.
  unfold new_obj, consecN; intros. inversion H; subst; cbn [cnid cnblk bump_id].
  replace (S (cnid x) - cnid x) with 1 by lia. rewrite Nat.sub_diag. msplit; auto.
Qed.
Lemma consec_move_obj : forall x o r x' e, move_obj x o = (r, x', e) -> consec x e x'.
Proof.
  unfold move_obj, consecN; intros.
  destruct (negb (nt (ocls o)) && (carm x =? 1)); inversion H; subst; cbn [cnid cnblk bump_id disarm].
  - rewrite !Nat.sub_diag. msplit; auto.
  - replace (S (cnid x) - cnid x) with 1 by lia. rewrite Nat.sub_diag. msplit; auto.
Qed.
Lemma consec_alloc : forall x n r x' e, alloc x n = (r, x', e) -> consec x e x'.
Proof.
  unfold alloc, consecN; intros. destruct (carm x =? 2); inversion H; subst; cbn [cnid cnblk bump_blk disarm].
  - rewrite !Nat.sub_diag. msplit; auto.
  - replace (S (cnblk x) - cnblk x) with 1 by lia. rewrite Nat.sub_diag. msplit; auto.
Qed.
Lemma consec_run_maker : forall x m r x' e, run_maker x m = (r, x', e) -> consec x e x'.
Proof.
  unfold run_maker; intros. destruct m.
  - destruct (new_obj x k p) as [[o x1] e1] eqn:E. inversion H; subst. eapply consec_new_obj; eauto.
  - destruct (move_obj x o) as [[[o'|] x1] e1] eqn:E; inversion H; subst; eapply consec_move_obj; eauto.
Qed.
Lemma consec_build : forall x c hdr m r x' e, build x c hdr m = (r, x', e) -> consec x e x'.
Proof.
  unfold build; intros. destruct (inplace c (mk_cls m)).
  - destruct (run_maker x m) as [[[o|r0] x1] e1] eqn:E; inversion H; subst; eapply consec_run_maker; eauto.
  - destruct (alloc x (heap_bytes c hdr (mk_cls m))) as [[[b|] x1] e1] eqn:EA.
    + destruct (run_maker x1 m) as [[[o|r0] x2] e2] eqn:E; inversion H; subst; clear H.
      * eapply consec_app; [eapply consec_alloc | eapply consec_run_maker]; eauto.
      * eapply consec_app; [eapply consec_alloc; eauto|].
        eapply consec_app; [eapply consec_run_maker; eauto|]. apply consec_silent; reflexivity.
    + inversion H; subst. eapply consec_alloc; eauto.
Qed.
Lemma consec_move_box : forall x src r x' e, move_box x src = (r, x', e) -> consec x e x'.
Proof.
  unfold move_box; intros. destruct src.
  - inversion H; subst. apply consec_silent; reflexivity.
  - destruct (move_obj x o) as [[[o'|] x1] e1] eqn:E; inversion H; subst; eapply consec_move_obj; eauto.
  - inversion H; subst. apply consec_silent; reflexivity.
Qed.
Lemma consec_assign_box : forall x dst src r x' e, assign_box x dst src = (r, x', e) -> consec x e x'.
Proof.
  unfold assign_box; intros.
  destruct (move_box x src) as [[[[d0 s0]|r0] x1] e1] eqn:E; inversion H; subst; clear H;
  (eapply consec_app; [apply consec_destroy | eapply consec_move_box; eauto]).
Qed.

Ltac consec_chain :=
  repeat first [ eassumption | apply consec_destroy | apply consec_ret
               | match goal with |- consecN _ _ [Dtor _; Ret _] _ _ => apply consec_silent; reflexivity end
               | match goal with |- consecN _ _ [Ret _] _ _ => apply consec_silent; reflexivity end
               | eapply consec_app ].

Lemma step_consec : forall c s o s' e, step c s o = Some (s', e) -> consec (ctx0 s 0) e (ctx0 s' 0).
Proof.
  intros c s o s' e H. destruct o; cbn [step] in H; unfold getv in H.
  - destruct (nth_error (vars s) v) as [[b0|]|]; try discriminate. destruct inpl.
    + destruct (build (ctx0 s arm) c hdr (MkNew k p)) as [[[b|r] x1] e1] eqn:B; inversion H; subst; clear H;
      apply consec_build in B; (eapply consec_app; [exact B | apply consec_silent; reflexivity]).
    + destruct (new_obj (ctx0 s arm) k p) as [[t x0] e0] eqn:N. apply consec_new_obj in N.
      destruct (build x0 c hdr (MkMove t)) as [[[b|r] x1] e1] eqn:B; inversion H; subst; clear H;
      apply consec_build in B;
      (eapply consec_app; [exact N | eapply consec_app; [exact B | apply consec_silent; reflexivity]]).
  - destruct (nth_error (vars s) v) as [[b0|]|]; try discriminate.
    destruct (nth_error (vars s) w) as [[bw|]|]; try discriminate.
    destruct (move_box (ctx0 s arm) bw) as [[[[d s0]|r] x1] e1] eqn:B; inversion H; subst; clear H;
    apply consec_move_box in B; (eapply consec_app; [exact B | apply consec_silent; reflexivity]).
  - destruct (nth_error (vars s) v) as [[bv|]|]; try discriminate.
    destruct (nth_error (vars s) w) as [[bw|]|]; try discriminate.
    destruct (v =? w).
    + inversion H; subst. apply consec_silent; reflexivity.
    + destruct (assign_box (ctx0 s arm) bv bw) as [[[[d s0] r] x1] e1] eqn:B. inversion H; subst; clear H.
      apply consec_assign_box in B. eapply consec_app; [exact B | apply consec_silent; reflexivity].
  - destruct (nth_error (vars s) v) as [[bv|]|]; try discriminate.
    destruct (new_obj (ctx0 s arm) k p) as [[t x0] e0] eqn:N. apply consec_new_obj in N.
    destruct (ckind c).
    + destruct (build x0 c true (MkMove t)) as [[[b|r] x1] e1] eqn:B; inversion H; subst; clear H;
      apply consec_build in B; consec_chain.
    + destruct (build x0 c false (MkMove t)) as [[[b|r] x1] e1] eqn:B; inversion H; subst; clear H;
      apply consec_build in B; consec_chain.
  - destruct (nth_error (vars s) v) as [[bv|]|]; try discriminate.
    destruct (nth_error (vars s) w) as [[bw|]|]; try discriminate.
    destruct (ckind c).
    + destruct (move_box (ctx0 s arm) bv) as [[[[tmp a1]|r] x1] e1] eqn:B1; apply consec_move_box in B1.
      * destruct (v =? w).
        { destruct (assign_box x1 a1 tmp) as [[[[a2 tmp1] r] x2] e2] eqn:B2. inversion H; subst; clear H.
          apply consec_assign_box in B2. consec_chain. }
        { destruct (assign_box x1 a1 bw) as [[[[a2 b1] r] x2] e2] eqn:B2. apply consec_assign_box in B2.
          destruct r as [r|].
          - inversion H; subst; clear H. consec_chain.
          - destruct (assign_box x2 b1 tmp) as [[[[b2 tmp1] r] x3] e3] eqn:B3. inversion H; subst; clear H.
            apply consec_assign_box in B3. consec_chain. }
      * inversion H; subst; clear H. consec_chain.
    + inversion H; subst. apply consec_silent; reflexivity.
  - destruct (nth_error (vars s) v) as [[bv|]|]; try discriminate.
    destruct (box_obj bv); inversion H; subst. apply consec_silent; reflexivity.
  - destruct (nth_error (vars s) v) as [[bv|]|]; try discriminate.
    destruct (box_obj bv); inversion H; subst. apply consec_silent; destruct t; reflexivity.
  - destruct (nth_error (vars s) v) as [[bv|]|]; try discriminate.
    destruct (nth_error (vars s) w) as [[bw|]|]; try discriminate.
    destruct (box_obj bv); inversion H; subst. apply consec_silent; reflexivity.
  - destruct (nth_error (vars s) v) as [[bv|]|]; try discriminate. inversion H; subst.
    eapply consec_app; [apply consec_destroy | apply consec_silent; reflexivity].
Qed.

Lemma run_consec : forall c ops s s' e, run c s ops = (s', e) -> consec (ctx0 s 0) e (ctx0 s' 0).
Proof.
  induction ops; simpl; intros.
  - inversion H; subst. apply consec_silent; reflexivity.
  - destruct (step c s a) as [[s1 e1]|] eqn:S; [|exact (IHops _ _ _ H)].
    destruct (run c s1 ops) as [s2 e2] eqn:R. inversion H; subst; clear H.
    eapply consec_app; [exact (step_consec _ _ _ _ _ S) | exact (IHops _ _ _ R)].
Qed.

Lemma finish_silent : forall l, created_ids (finish_evs l) = [] /\ allocated_blks (finish_evs l) = [].
Proof.
  induction l as [|[b|] t]; simpl; auto. destruct IHt as [A B].
  unfold created_ids, allocated_blks in *. rewrite !flat_map_app, A, B. destruct b; auto.
Qed.

Theorem ids_never_reused : forall c n ops,
  exists k m, created_ids (exec c n ops) = seq 0 k /\ map fst (allocated_blks (exec c n ops)) = seq 0 m.
Proof.
  intros. unfold exec. destruct (run c (init n) ops) as [s e] eqn:R.
  pose proof (run_consec _ _ _ _ _ R) as C.
  assert (F : consecN (nid s) (nblk s) (snd (finish s)) (nid s) (nblk s)).
  { unfold finish; cbn [snd]. destruct (finish_silent (vars s)) as [A B].
    apply consec_silent; unfold created_ids, allocated_blks in *; rewrite flat_map_app, ?A, ?B; reflexivity. }
  pose proof (consec_app _ _ _ _ _ _ _ _ C F) as [A [_ [B _]]]. cbn [ctx0 cnid cnblk init nid nblk] in A, B.
  rewrite Nat.sub_0_r in A, B. eauto.
Qed.

(* from monitor acceptance to counting *)
Lemma mon_balance : forall evs L L', mon L evs = Some L' ->
  (forall i, cnt L i + count_occ Nat.eq_dec (created_ids evs) i = cnt L' i + count_occ Nat.eq_dec (destroyed_ids evs) i) /\
  (forall bn, cntb L bn + count_occ pair_dec (allocated_blks evs) bn = cntb L' bn + count_occ pair_dec (freed_blks evs) bn).
Proof.
  induction evs as [|e r]; cbn [mon]; intros.
  - inversion H; subst. split; intros; simpl; lia.
  - destruct (mon_ev L e) as [L1|] eqn:E; try discriminate.
    destruct (IHr _ _ H) as [A B].
    unfold created_ids, destroyed_ids, allocated_blks, freed_blks in *. cbn [flat_map].
    destruct e; unfold mon_ev in E; cbn [created destroyed allocated freed app].
    + destruct (cnt L i =? 0); inversion E; subst; clear E. split; intros.
      * specialize (A i0). unfold cnt in *; cbn [lobjs count_occ] in *. destruct (Nat.eq_dec i i0); lia.
      * specialize (B bn). unfold cntb in *; cbn [lblks] in *. lia.
    + destruct ((cnt L n =? 0) && (1 <=? cnt L o)); inversion E; subst; clear E. split; intros.
      * specialize (A i). unfold cnt in *; cbn [lobjs count_occ] in *. destruct (Nat.eq_dec n i); lia.
      * specialize (B bn). unfold cntb in *; cbn [lblks] in *. lia.
    + discriminate.
    + destruct (1 <=? cnt L o); inversion E; subst; auto.
    + inversion E; subst; auto.
    + destruct (Nat.leb_spec 1 (cnt L i)); inversion E; subst; clear E. split; intros.
      * specialize (A i0). unfold cnt in *; cbn [lobjs count_occ] in *. rewrite count_rem1 in A.
        destruct (Nat.eq_dec i i0); subst; lia.
      * specialize (B bn). unfold cntb in *; cbn [lblks] in *. lia.
    + destruct (has_blk b (lblks L)); inversion E; subst; clear E. split; intros.
      * specialize (A i). unfold cnt in *; cbn [lobjs] in *. lia.
      * specialize (B bn). unfold cntb in *; cbn [lblks count_occ] in *. destruct (pair_dec (b, n) bn); lia.
    + destruct (Nat.leb_spec 1 (cntb L (b, n))); inversion E; subst; clear E. split; intros.
      * specialize (A i). unfold cnt in *; cbn [lobjs] in *. lia.
      * specialize (B bn). unfold cntb in *; cbn [lblks count_occ] in *. rewrite count_rem1 in B.
        destruct (pair_dec (b, n) bn); subst; lia.
    + inversion E; subst; auto.
Qed.

Lemma count_seq_le1 : forall i a k, count_occ Nat.eq_dec (seq a k) i <= 1.
Proof.
  intros. pose proof (seq_NoDup k a) as N. rewrite (NoDup_count_occ Nat.eq_dec) in N. apply N.
Qed.

(* every wrapped object that is ever constructed (by value or by move) is destroyed exactly once *)
Theorem destroyed_exactly_once : forall c n ops i,
  let tr := exec c n ops in
  count_occ Nat.eq_dec (destroyed_ids tr) i = count_occ Nat.eq_dec (created_ids tr) i /\
  count_occ Nat.eq_dec (created_ids tr) i <= 1.
Proof.
  intros. destruct (mon_balance _ _ _ (exec_monitored c n ops)) as [A _]. specialize (A i).
  destruct (ids_never_reused c n ops) as [k [m [E _]]].
  subst tr. split; [cbn in A; lia|]. rewrite E. apply count_seq_le1.
Qed.

(* every heap block is freed exactly once, with the size it was allocated with *)
Theorem blocks_balanced : forall c n ops bn,
  let tr := exec c n ops in
  count_occ pair_dec (freed_blks tr) bn = count_occ pair_dec (allocated_blks tr) bn /\
  NoDup (map fst (allocated_blks tr)).
Proof.
  intros. destruct (mon_balance _ _ _ (exec_monitored c n ops)) as [_ B]. specialize (B bn).
  destruct (ids_never_reused c n ops) as [k [m [_ E]]].
  subst tr. split; [cbn in B; lia|]. rewrite E. apply seq_NoDup.
Qed.

(* ---------------------------------------------------------------------------------------------- *)
(* moves: pointer transfer for heap storage, state of the two wrappers afterwards                   *)
Definition box_val (b : box) : option nat := match box_obj b with Some o => obs o | None => None end.

Theorem heap_movec_is_pointer_transfer : forall c s v w arm b n o,
  getv s v = Some None -> getv s w = Some (Some (Heap b n o)) ->
  step c s (OMoveC v w arm) =
  Some ({| vars := upd v (Some (Heap b n o)) (upd w (Some Empty) (vars s)); nid := nid s; nblk := nblk s |}, [Ret ROk]).
Proof. intros. cbn [step]. rewrite H, H0. reflexivity. Qed.

Theorem heap_movea_is_pointer_transfer : forall c s v w arm bv b n o, v <> w ->
  getv s v = Some (Some bv) -> getv s w = Some (Some (Heap b n o)) ->
  step c s (OMoveA v w arm) =
  Some ({| vars := upd v (Some (Heap b n o)) (upd w (Some Empty) (vars s)); nid := nid s; nblk := nblk s |},
        destroy_box bv ++ [Ret ROk]).
Proof.
  intros. cbn [step]. rewrite H0, H1. destruct (Nat.eqb_spec v w); [contradiction|].
  unfold assign_box, move_box. cbn. rewrite app_nil_r. reflexivity.
Qed.

(* ---------------------------------------------------------------------------------------------- *)
(* storage is decided exactly by the can_be_stored_inplace predicate, in every reachable state      *)
Definition wfb (c : cfg) (b : box) : Prop :=
  match b with
  | Empty => True
  | Inline o => inplace c (ocls o) = true
  | Heap _ _ o => inplace c (ocls o) = false
  end.
Definition wfv (c : cfg) (x : option box) : Prop := match x with Some b => wfb c b | None => True end.
Definition WF (c : cfg) (s : st) : Prop := Forall (wfv c) (vars s).

Lemma Forall_upd : forall (A : Type) (P : A -> Prop) l v x, Forall P l -> P x -> Forall P (upd v x l).
Proof.
  induction l; destruct v; simpl; intros; auto; inversion H; subst; constructor; auto.
Qed.
Lemma Forall_nth_error : forall (A : Type) (P : A -> Prop) l v y, Forall P l -> nth_error l v = Some y -> P y.
Proof. intros. rewrite Forall_forall in H. apply H. eapply nth_error_In; eauto. Qed.

Lemma run_maker_cls : forall x m o x' e, run_maker x m = (inl o, x', e) -> ocls o = mk_cls m.
Proof.
  unfold run_maker, new_obj, move_obj; intros. destruct m.
  - inversion H; subst; auto.
  - destruct (negb (nt (ocls o0)) && (carm x =? 1)); inversion H; subst; auto.
Qed.
Lemma wf_build : forall x c hdr m b x' e, build x c hdr m = (inl b, x', e) -> wfb c b.
Proof.
  unfold build; intros. destruct (inplace c (mk_cls m)) eqn:IP.
  - destruct (run_maker x m) as [[[o|r0] x1] e1] eqn:E; inversion H; subst. simpl.
    rewrite (run_maker_cls _ _ _ _ _ E); auto.
  - destruct (alloc x (heap_bytes c hdr (mk_cls m))) as [[[b0|] x1] e1]; try (inversion H; fail).
    destruct (run_maker x1 m) as [[[o|r0] x2] e2] eqn:E; inversion H; subst. simpl.
    rewrite (run_maker_cls _ _ _ _ _ E); auto.
Qed.
Lemma wf_move_box : forall c x src r x' e, move_box x src = (r, x', e) -> wfb c src ->
  match r with inl (d, s') => wfb c d /\ wfb c s' | inr _ => True end.
Proof.
  unfold move_box, move_obj; intros. destruct src.
  - inversion H; subst; simpl; auto.
  - destruct (negb (nt (ocls o)) && (carm x =? 1)); inversion H; subst; simpl; auto.
  - inversion H; subst; simpl; auto.
Qed.
Lemma wf_assign_box : forall c x dst src d s' r x' e, assign_box x dst src = ((d, s', r), x', e) ->
  wfb c src -> wfb c d /\ wfb c s'.
Proof.
  unfold assign_box; intros.
  destruct (move_box x src) as [[[[d0 s0]|r0] x1] e1] eqn:E; inversion H; subst; clear H.
  - apply (wf_move_box c) in E; auto.
  - simpl; auto.
Qed.
Lemma wfb_set_obj : forall c b o o', box_obj b = Some o -> ocls o' = ocls o -> wfb c b -> wfb c (set_obj b o').
Proof. destruct b; simpl; intros; try discriminate; inversion H; subst; rewrite H0; auto. Qed.

Lemma step_wf : forall c s o s' e, step c s o = Some (s', e) -> WF c s -> WF c s'.
Proof.
  unfold WF; intros c s o s' e H W. destruct o; cbn [step] in H; unfold getv in H.
  - destruct (nth_error (vars s) v) as [[b0|]|]; try discriminate. destruct inpl.
    + destruct (build (ctx0 s arm) c hdr (MkNew k p)) as [[[b|r] x1] e1] eqn:B; inversion H; subst; clear H; auto.
      apply Forall_upd; auto. apply wf_build in B; auto.
    + destruct (new_obj (ctx0 s arm) k p) as [[t x0] e0].
      destruct (build x0 c hdr (MkMove t)) as [[[b|r] x1] e1] eqn:B; inversion H; subst; clear H; auto.
      apply Forall_upd; auto. apply wf_build in B; auto.
  - destruct (nth_error (vars s) v) as [[b0|]|]; try discriminate.
    destruct (nth_error (vars s) w) as [[bw|]|] eqn:Hw; try discriminate.
    pose proof (Forall_nth_error _ _ _ _ _ W Hw) as Ww.
    destruct (move_box (ctx0 s arm) bw) as [[[[d s0]|r] x1] e1] eqn:B; inversion H; subst; clear H; auto.
    apply (wf_move_box c) in B; auto. destruct B. repeat apply Forall_upd; auto.
  - destruct (nth_error (vars s) v) as [[bv|]|]; try discriminate.
    destruct (nth_error (vars s) w) as [[bw|]|] eqn:Hw; try discriminate.
    pose proof (Forall_nth_error _ _ _ _ _ W Hw) as Ww.
    destruct (v =? w); [inversion H; subst; auto|].
    destruct (assign_box (ctx0 s arm) bv bw) as [[[[d s0] r] x1] e1] eqn:B. inversion H; subst; clear H.
    apply (wf_assign_box c) in B; auto. destruct B. repeat apply Forall_upd; auto.
  - destruct (nth_error (vars s) v) as [[bv|]|]; try discriminate.
    destruct (new_obj (ctx0 s arm) k p) as [[t x0] e0].
    destruct (ckind c).
    + destruct (build x0 c true (MkMove t)) as [[[b|r] x1] e1] eqn:B; inversion H; subst; clear H;
      apply Forall_upd; simpl; auto. apply wf_build in B; auto.
    + destruct (build x0 c false (MkMove t)) as [[[b|r] x1] e1] eqn:B; inversion H; subst; clear H; auto.
      apply Forall_upd; simpl; auto. apply wf_build in B; auto.
  - destruct (nth_error (vars s) v) as [[bv|]|] eqn:Hv; try discriminate.
    destruct (nth_error (vars s) w) as [[bw|]|] eqn:Hw; try discriminate.
    pose proof (Forall_nth_error _ _ _ _ _ W Hv) as Wv. pose proof (Forall_nth_error _ _ _ _ _ W Hw) as Ww.
    destruct (ckind c).
    + destruct (move_box (ctx0 s arm) bv) as [[[[tmp a1]|r] x1] e1] eqn:B1.
      * apply (wf_move_box c) in B1; auto. destruct B1 as [Wt Wa].
        destruct (v =? w).
        { destruct (assign_box x1 a1 tmp) as [[[[a2 tmp1] r] x2] e2] eqn:B2. inversion H; subst; clear H.
          apply (wf_assign_box c) in B2; auto. destruct B2. apply Forall_upd; auto. }
        { destruct (assign_box x1 a1 bw) as [[[[a2 b1] r] x2] e2] eqn:B2.
          apply (wf_assign_box c) in B2; auto. destruct B2 as [W2 W3].
          destruct r as [r|].
          - inversion H; subst; clear H. repeat apply Forall_upd; auto.
          - destruct (assign_box x2 b1 tmp) as [[[[b2 tmp1] r] x3] e3] eqn:B3. inversion H; subst; clear H.
            apply (wf_assign_box c) in B3; auto. destruct B3. repeat apply Forall_upd; auto. }
      * inversion H; subst; auto.
    + inversion H; subst. repeat apply Forall_upd; auto.
  - destruct (nth_error (vars s) v) as [[bv|]|]; try discriminate.
    destruct (box_obj bv); inversion H; subst; auto.
  - destruct (nth_error (vars s) v) as [[bv|]|] eqn:Hv; try discriminate.
    pose proof (Forall_nth_error _ _ _ _ _ W Hv) as Wv.
    destruct (box_obj bv) eqn:BO; inversion H; subst; clear H. cbn [vars].
    apply Forall_upd; auto. simpl. eapply wfb_set_obj; eauto.
  - destruct (nth_error (vars s) v) as [[bv|]|]; try discriminate.
    destruct (nth_error (vars s) w) as [[bw|]|]; try discriminate.
    destruct (box_obj bv); inversion H; subst; auto.
  - destruct (nth_error (vars s) v) as [[bv|]|]; try discriminate. inversion H; subst. cbn [vars].
    apply Forall_upd; simpl; auto.
Qed.

Lemma wf_init : forall c n, WF c (init n).
Proof. unfold WF, init; intros; simpl. induction n; simpl; constructor; simpl; auto. Qed.

Lemma run_wf : forall c ops s s' e, run c s ops = (s', e) -> WF c s -> WF c s'.
Proof.
  induction ops; simpl; intros.
  - inversion H; subst; auto.
  - destruct (step c s a) as [[s1 e1]|] eqn:S; eauto.
    destruct (run c s1 ops) as [s2 e2] eqn:R. inversion H; subst. eapply IHops; eauto. eapply step_wf; eauto.
Qed.

Theorem storage_by_predicate : forall c n ops s e v b, run c (init n) ops = (s, e) -> getv s v = Some (Some b) ->
  match b with
  | Empty => True
  | Inline o => inplace c (ocls o) = true
  | Heap _ _ o => inplace c (ocls o) = false
  end.
Proof.
  intros. pose proof (run_wf _ _ _ _ _ H (wf_init c n)) as W.
  exact (Forall_nth_error _ _ _ _ _ W H0).
Qed.

(* ---------------------------------------------------------------------------------------------- *)
(* results, exception guarantees                                                                    *)
Definition ret_of (e : ev) : list res := match e with Ret r => [r] | _ => [] end.
Definition rets (evs : list ev) : list res := flat_map ret_of evs.
Definition throws (evs : list ev) : list ev :=
  filter (fun e => match e with MThrow _ | AThrow _ => true | _ => false end) evs.

Lemma rets_app : forall a b, rets (a ++ b) = rets a ++ rets b.
Proof. intros. apply flat_map_app. Qed.
Lemma throws_app : forall a b, throws (a ++ b) = throws a ++ throws b.
Proof. intros. apply filter_app. Qed.

Lemma rets_destroy : forall b, rets (destroy_box b) = [] /\ throws (destroy_box b) = [].
Proof. destruct b; auto. Qed.
Lemma rets_new_obj : forall x k p o x' e, new_obj x k p = (o, x', e) -> rets e = [] /\ throws e = [].
Proof. unfold new_obj; intros. inversion H; subst; auto. Qed.
Lemma rets_move_obj : forall x o r x' e, move_obj x o = (r, x', e) ->
  rets e = [] /\ (match r with Some _ => throws e = [] | None => throws e = [MThrow (oid o)] end).
Proof. unfold move_obj; intros. destruct (negb (nt (ocls o)) && (carm x =? 1)); inversion H; subst; auto. Qed.
Lemma rets_run_maker : forall x m r x' e, run_maker x m = (r, x', e) ->
  rets e = [] /\ (match r with inl _ => throws e = [] | inr _ => throws e <> [] end).
Proof.
  unfold run_maker, new_obj, move_obj; intros. destruct m.
  - inversion H; subst; auto.
  - destruct (negb (nt (ocls o)) && (carm x =? 1)); inversion H; subst; simpl; split; auto; discriminate.
Qed.
Lemma rets_build : forall x c hdr m r x' e, build x c hdr m = (r, x', e) ->
  rets e = [] /\ (match r with inl _ => throws e = [] | inr _ => throws e <> [] end).
Proof.
  unfold build; intros. destruct (inplace c (mk_cls m)).
  - destruct (run_maker x m) as [[[o|r0] x1] e1] eqn:E; inversion H; subst; apply rets_run_maker in E; auto.
  - unfold alloc in H. destruct (carm x =? 2).
    + inversion H; subst; simpl; split; auto; discriminate.
    + destruct (run_maker (bump_blk x) m) as [[[o|r0] x2] e2] eqn:E; inversion H; subst; clear H;
      apply rets_run_maker in E; destruct E as [E1 E2]; unfold rets, throws in *; simpl;
      rewrite ?flat_map_app, ?filter_app, ?E1; simpl; split; auto.
      rewrite app_nil_r. auto.
Qed.
Lemma rets_move_box : forall x src r x' e, move_box x src = (r, x', e) ->
  rets e = [] /\ (match r with inl _ => throws e = [] | inr _ => throws e <> [] end).
Proof.
  unfold move_box, move_obj; intros. destruct src.
  - inversion H; subst; auto.
  - destruct (negb (nt (ocls o)) && (carm x =? 1)); inversion H; subst; simpl; split; auto; discriminate.
  - inversion H; subst; auto.
Qed.
Lemma rets_assign_box : forall x dst src d s' r x' e, assign_box x dst src = ((d, s', r), x', e) ->
  rets e = [] /\ (match r with None => throws e = [] | Some _ => throws e <> [] end).
Proof.
  unfold assign_box; intros. destruct (rets_destroy dst) as [D1 D2].
  destruct (move_box x src) as [[[[d0 s0]|r0] x1] e1] eqn:E; inversion H; subst; clear H;
  apply rets_move_box in E; destruct E as [E1 E2]; rewrite rets_app, throws_app, D1, D2, E1; simpl; auto.
Qed.

Lemma move_box_fail : forall x src r x' e, move_box x src = (inr r, x', e) -> exists i, r = RBoom i.
Proof.
  unfold move_box, move_obj; intros. destruct src; try (inversion H; fail).
  destruct (negb (nt (ocls o)) && (carm x =? 1)); inversion H; subst; eauto.
Qed.

(* an inline object of a configuration that promises noexcept moves has a nothrow move constructor *)
Lemma inplace_nothrow : forall c k, inplace c k = true -> (ckind c = KUniq \/ req c = true) -> nt k = true.
Proof.
  unfold inplace; intros c k H [K|R].
  - rewrite K in H; discriminate.
  - destruct (ckind c); try discriminate. rewrite R in H. simpl in H.
    apply andb_true_iff in H. apply H.
Qed.

Lemma move_box_noexcept : forall c x src r x' e, wfb c src -> (ckind c = KUniq \/ req c = true) ->
  move_box x src = (r, x', e) -> exists d s', r = inl (d, s') /\ throws e = [].
Proof.
  unfold move_box, move_obj; intros. destruct src.
  - inversion H1; subst; eauto.
  - simpl in H. rewrite (inplace_nothrow _ _ H H0) in H1. simpl in H1. inversion H1; subst; eauto.
  - inversion H1; subst; eauto.
Qed.

(* the C++ wrappers declare  type(type&&) noexcept(RequireNoexceptMove) / any_unique: noexcept.
   In every reachable state a move-construction or move-assignment of such a wrapper completes normally
   and no wrapped move constructor throws, whatever failure is armed *)
Theorem move_noexcept : forall c n ops s e0 v w arm s' e,
  run c (init n) ops = (s, e0) -> (ckind c = KUniq \/ req c = true) ->
  (step c s (OMoveC v w arm) = Some (s', e) \/ step c s (OMoveA v w arm) = Some (s', e)) ->
  rets e = [ROk] /\ throws e = [].
Proof.
  intros c n ops s e0 v w arm s' e R NE H.
  pose proof (run_wf _ _ _ _ _ R (wf_init c n)) as W. unfold WF in W.
  destruct H as [H|H]; cbn [step] in H; unfold getv in H.
  - destruct (nth_error (vars s) v) as [[b0|]|]; try discriminate.
    destruct (nth_error (vars s) w) as [[bw|]|] eqn:Hw; try discriminate.
    pose proof (Forall_nth_error _ _ _ _ _ W Hw) as Ww. simpl in Ww.
    destruct (move_box (ctx0 s arm) bw) as [[r x1] e1] eqn:B.
    destruct (move_box_noexcept _ _ _ _ _ _ Ww NE B) as [d [s0 [Er T]]]. subst r.
    apply rets_move_box in B. destruct B as [B1 _].
    inversion H; subst. rewrite rets_app, throws_app, B1, T. auto.
  - destruct (nth_error (vars s) v) as [[bv|]|]; try discriminate.
    destruct (nth_error (vars s) w) as [[bw|]|] eqn:Hw; try discriminate.
    pose proof (Forall_nth_error _ _ _ _ _ W Hw) as Ww. simpl in Ww.
    destruct (v =? w); [inversion H; subst; auto|].
    unfold assign_box in H. destruct (move_box (ctx0 s arm) bw) as [[r x1] e1] eqn:B.
    destruct (move_box_noexcept _ _ _ _ _ _ Ww NE B) as [d [s0 [Er T]]]. subst r.
    apply rets_move_box in B. destruct B as [B1 _]. destruct (rets_destroy bv) as [D1 D2].
    inversion H; subst. rewrite !rets_app, !throws_app, B1, T, D1, D2. auto.
Qed.

(* move-construction: strong guarantee *)
Theorem movec_strong : forall c s v w arm s' e r,
  step c s (OMoveC v w arm) = Some (s', e) -> rets e = [r] -> r <> ROk -> vars s' = vars s.
Proof.
  intros c s v w arm s' e r H R NR. cbn [step] in H. unfold getv in H.
  destruct (nth_error (vars s) v) as [[b0|]|]; try discriminate.
  destruct (nth_error (vars s) w) as [[bw|]|]; try discriminate.
  destruct (move_box (ctx0 s arm) bw) as [[[[d s0]|r0] x1] e1] eqn:B; inversion H; subst; clear H; auto.
  apply rets_move_box in B. destruct B as [B1 _]. rewrite rets_app, B1 in R. simpl in R. congruence.
Qed.

(* move-assignment of any_object<RequireNoexceptMove = false>: basic guarantee -- the destination was
   destroyed first and is left empty (invalid_obj vtable), the source is untouched *)
Theorem movea_basic : forall c s v w arm s' e r,
  step c s (OMoveA v w arm) = Some (s', e) -> rets e = [r] -> r <> ROk ->
  getv s' v = Some (Some Empty) /\ getv s' w = getv s w /\ nid s' = nid s.
Proof.
  intros c s v w arm s' e r H R NR. cbn [step] in H. unfold getv in *.
  destruct (nth_error (vars s) v) as [[bv|]|] eqn:Hv; try discriminate.
  destruct (nth_error (vars s) w) as [[bw|]|] eqn:Hw; try discriminate.
  destruct (Nat.eqb_spec v w) as [|N]; [inversion H; subst; simpl in R; congruence|].
  unfold assign_box in H. destruct (rets_destroy bv) as [D1 _].
  destruct (move_box (ctx0 s arm) bw) as [[[[d s0]|r0] x1] e1] eqn:B; inversion H; subst; clear H.
  - apply rets_move_box in B. destruct B as [B1 _]. rewrite !rets_app, D1, B1 in R. simpl in R. congruence.
  - cbn [vars mkst nid]. msplit.
    + erewrite nth_error_upd_same; eauto. rewrite nth_error_upd_other; eauto.
    + rewrite nth_error_upd_other by auto. erewrite nth_error_upd_same; eauto.
    + unfold move_box, move_obj in B. destruct bw; try (inversion B; fail).
      destruct (negb (nt (ocls o)) && (carm (ctx0 s arm) =? 1)); inversion B; subst; auto.
Qed.

(* construction: strong guarantee (the variable stays dead, nothing else changes) *)
Theorem new_strong : forall c s v k p inpl hdr arm s' e r,
  step c s (ONew v k p inpl hdr arm) = Some (s', e) -> rets e = [r] -> r <> ROk -> vars s' = vars s.
Proof.
  intros c s v k p inpl hdr arm s' e r H R NR. cbn [step] in H. unfold getv in H.
  destruct (nth_error (vars s) v) as [[b0|]|]; try discriminate. destruct inpl.
  - destruct (build (ctx0 s arm) c hdr (MkNew k p)) as [[[b|r0] x1] e1] eqn:B; inversion H; subst; clear H; auto.
    apply rets_build in B. destruct B as [B1 _]. rewrite rets_app, B1 in R. simpl in R. congruence.
  - destruct (new_obj (ctx0 s arm) k p) as [[t x0] e0] eqn:N.
    destruct (build x0 c hdr (MkMove t)) as [[[b|r0] x1] e1] eqn:B; inversion H; subst; clear H; auto.
    apply rets_build in B. destruct B as [B1 _]. apply rets_new_obj in N. destruct N as [N1 _].
    rewrite !rets_app, B1, N1 in R. simpl in R. congruence.
Qed.

(* assign-value: any_unique strong guarantee; any_object basic guarantee (left empty) *)
Theorem assignv_guarantee : forall c s v k p arm s' e r,
  step c s (OAssignV v k p arm) = Some (s', e) -> rets e = [r] -> r <> ROk ->
  match ckind c with
  | KUniq => vars s' = vars s
  | KObj => vars s' = upd v (Some Empty) (vars s)
  end.
Proof.
  intros c s v k p arm s' e r H R NR. cbn [step] in H. unfold getv in H.
  destruct (nth_error (vars s) v) as [[bv|]|]; try discriminate.
  destruct (new_obj (ctx0 s arm) k p) as [[t x0] e0] eqn:N. apply rets_new_obj in N. destruct N as [N1 _].
  destruct (rets_destroy bv) as [D1 _].
  destruct (ckind c).
  - destruct (build x0 c true (MkMove t)) as [[[b|r0] x1] e1] eqn:B; inversion H; subst; clear H; auto.
    apply rets_build in B. destruct B as [B1 _]. rewrite !rets_app, B1, N1, D1 in R. simpl in R. congruence.
  - destruct (build x0 c false (MkMove t)) as [[[b|r0] x1] e1] eqn:B; inversion H; subst; clear H; auto.
    apply rets_build in B. destruct B as [B1 _]. rewrite !rets_app, B1, N1, D1 in R. simpl in R. congruence.
Qed.

(* after a successful move-construction: the destination reads what the source read, the source is
   either an empty wrapper or holds the moved-from husk, and in both cases it can be destroyed or
   assigned a new value *)
Theorem movec_both_usable : forall c s v w arm s' e,
  step c s (OMoveC v w arm) = Some (s', e) -> rets e = [ROk] ->
  exists bw d s0, getv s w = Some (Some bw) /\ getv s' v = Some (Some d) /\ getv s' w = Some (Some s0) /\
    box_val d = box_val bw /\
    (s0 = Empty \/ exists o, s0 = Inline (husk o)) /\
    step c s' (ODel w) <> None /\ (forall k p a, step c s' (OAssignV w k p a) <> None) /\
    (forall a, step c s' (OMoveA w v a) <> None).
Proof.
  intros c s v w arm s' e H R. cbn [step] in H. unfold getv in *.
  destruct (nth_error (vars s) v) as [[b0|]|] eqn:Hv; try discriminate.
  destruct (nth_error (vars s) w) as [[bw|]|] eqn:Hw; try discriminate.
  assert (N : v <> w) by (intro; subst; congruence).
  destruct (move_box (ctx0 s arm) bw) as [[[[d s0]|r0] x1] e1] eqn:B; inversion H; subst; clear H.
  2:{ destruct (move_box_fail _ _ _ _ _ B) as [i Ei]. subst r0.
      apply rets_move_box in B. destruct B as [B1 _]. rewrite rets_app, B1 in R. simpl in R. congruence. }
  exists bw, d, s0. cbn [vars mkst].
  assert (G1 : nth_error (upd v (Some d) (upd w (Some s0) (vars s))) v = Some (Some d)).
  { erewrite nth_error_upd_same; eauto. rewrite nth_error_upd_other; eauto. }
  assert (G2 : nth_error (upd v (Some d) (upd w (Some s0) (vars s))) w = Some (Some s0)).
  { rewrite nth_error_upd_other by auto. erewrite nth_error_upd_same; eauto. }
  msplit; auto.
  - unfold move_box, move_obj in B. destruct bw; try (inversion B; subst; reflexivity).
    destruct (negb (nt (ocls o)) && (carm (ctx0 s arm) =? 1)); inversion B; subst. reflexivity.
  - unfold move_box, move_obj in B. destruct bw; try (inversion B; subst; auto; fail).
    destruct (negb (nt (ocls o)) && (carm (ctx0 s arm) =? 1)); inversion B; subst. eauto.
  - cbn [step]. unfold getv. cbn [vars mkst]. rewrite G2. discriminate.
  - intros. cbn [step]. unfold getv. cbn [vars mkst]. rewrite G2.
    destruct (new_obj _ k p) as [[t x0] e0]. destruct (ckind c).
    + destruct (build x0 c true (MkMove t)) as [[[b|r0] x2] e2]; discriminate.
    + destruct (build x0 c false (MkMove t)) as [[[b|r0] x2] e2]; discriminate.
  - intros. cbn [step]. unfold getv. cbn [vars mkst]. rewrite G1, G2.
    destruct (w =? v); [discriminate|]. destruct (assign_box _ s0 d) as [[[[d1 s1] r1] x2] e2]. discriminate.
Qed.

(* ---------------------------------------------------------------------------------------------- *)
(* refinement to the trivial specification: a wrapper variable is an optional cell                   *)
(* abstract cell: None = no wrapper; Some None = a wrapper whose value is unspecified (moved-from,   *)
(* emptied by a failed assignment); Some (Some p) = a wrapper whose wrapped object reads p           *)
Definition acell := option (option nat).
Definition geta (a : list acell) (v : nat) : acell := match nth_error a v with Some x => x | None => None end.
Definition is_ok (r : res) : bool := match r with ROk => true | _ => false end.

Definition sstep (a : list acell) (o : op) (r : res) : list acell :=
  match o with
  | ONew v _ p _ _ _ => if is_ok r then upd v (Some (Some p)) a else a
  | OMoveC v w _ => if is_ok r then upd v (geta a w) (upd w (Some None) a) else a
  | OMoveA v w _ =>
    if v =? w then a
    else if is_ok r then upd v (geta a w) (upd w (Some None) a) else upd v (Some None) a
  | OAssignV v _ p _ => if is_ok r then upd v (Some (Some p)) a else upd v (Some None) a
  | OSwap v w _ =>
    if is_ok r then upd v (geta a w) (upd w (geta a v) a) else upd v (Some None) (upd w (Some None) a)
  | OInv _ | ORef _ _ => a
  | OPoke v d _ => match geta a v with Some (Some p) => upd v (Some (Some (p + d))) a | _ => a end
  | ODel v => upd v None a
  end.

(* what the specification promises about the result of an operation *)
Definition sexpect (a : list acell) (o : op) (r : res) : Prop :=
  match o with
  | OInv v => match geta a v with Some (Some p) => r = RVal p | _ => True end
  | OPoke v d t => match geta a v with Some (Some p) => r = (if t then RPerr (p + d) else RVal (p + d)) | _ => True end
  | ORef v w => match geta a v with Some (Some p) => r = RRef (Some p) (v =? w) | _ => True end
  | _ => True
  end.

Definition rc (x : acell) (y : option box) : Prop :=
  match x, y with
  | None, None => True
  | Some None, Some _ => True
  | Some (Some p), Some b => box_val b = Some p
  | _, _ => False
  end.
Definition Rf (a : list acell) (s : st) : Prop := Forall2 rc a (vars s).

Lemma F2_nth : forall a l v y, Forall2 rc a l -> nth_error l v = Some y -> rc (geta a v) y.
Proof.
  unfold geta. induction a; intros; inversion H; subst.
  - destruct v; discriminate.
  - destruct v; simpl in *; [inversion H0; subst; auto | eapply IHa; eauto].
Qed.
Lemma F2_upd : forall a l v x y, Forall2 rc a l -> rc x y -> Forall2 rc (upd v x a) (upd v y l).
Proof.
  induction a; intros l v x y H H0; inversion H; subst.
  - destruct v; simpl; constructor.
  - destruct v; simpl; constructor; auto.
Qed.
Lemma upd_same : forall (A : Type) (l : list A) v y, nth_error l v = Some y -> upd v y l = l.
Proof. induction l; destruct v; simpl; intros; try discriminate; [inversion H; subst; auto | f_equal; auto]. Qed.
Lemma F2_upd_left : forall a l v x y, Forall2 rc a l -> nth_error l v = Some y -> rc x y -> Forall2 rc (upd v x a) l.
Proof. intros. rewrite <- (upd_same _ l v y H0). apply F2_upd; auto. Qed.
Lemma F2_upd_right : forall a l v y, Forall2 rc a l -> rc (geta a v) y -> Forall2 rc a (upd v y l).
Proof.
  unfold geta. induction a; intros l v y H H0; inversion H; subst.
  - destruct v; simpl; constructor.
  - destruct v; simpl in *; constructor; auto.
Qed.
Lemma rc_alive : forall x b b', rc x (Some b) -> box_val b' = box_val b -> rc x (Some b').
Proof. destruct x as [[p|]|]; simpl; intros; auto; congruence. Qed.
Lemma rc_unknown : forall b, rc (Some None) (Some b).
Proof. simpl; auto. Qed.

Definition maker_val (m : maker) : option nat := match m with MkNew _ p => Some p | MkMove o => obs o end.
Lemma build_val : forall x c hdr m b x' e, build x c hdr m = (inl b, x', e) -> box_val b = maker_val m.
Proof.
  unfold build, run_maker, new_obj, move_obj, alloc; intros.
  destruct (inplace c (mk_cls m)).
  - destruct m.
    + inversion H; subst; reflexivity.
    + destruct (negb (nt (ocls o)) && (carm x =? 1)); inversion H; subst; reflexivity.
  - destruct (carm x =? 2); try (inversion H; fail). destruct m.
    + inversion H; subst; reflexivity.
    + cbn [carm bump_blk] in H. destruct (negb (nt (ocls o)) && (carm x =? 1)); inversion H; subst; reflexivity.
Qed.
Lemma move_box_val : forall x src d s0 x' e, move_box x src = (inl (d, s0), x', e) -> box_val d = box_val src.
Proof.
  unfold move_box, move_obj; intros. destruct src; try (inversion H; subst; reflexivity).
  destruct (negb (nt (ocls o)) && (carm x =? 1)); inversion H; subst; reflexivity.
Qed.
Lemma assign_box_val : forall x dst src d s0 r x' e, assign_box x dst src = ((d, s0, r), x', e) ->
  match r with None => box_val d = box_val src | Some _ => True end.
Proof.
  unfold assign_box; intros.
  destruct (move_box x src) as [[[[d0 s1]|r0] x1] e1] eqn:E; inversion H; subst; auto.
  eapply move_box_val; eauto.
Qed.
Lemma assign_box_res : forall x dst src d s0 r x' e, assign_box x dst src = ((d, s0, r), x', e) ->
  is_ok (res_of r) = match r with None => true | Some _ => false end.
Proof.
  unfold assign_box; intros.
  destruct (move_box x src) as [[[[d0 s1]|r0] x1] e1] eqn:E; inversion H; subst; auto.
  destruct (move_box_fail _ _ _ _ _ E) as [i Ei]; subst; reflexivity.
Qed.
Lemma build_fail : forall x c hdr m r x' e, build x c hdr m = (inr r, x', e) -> is_ok r = false.
Proof.
  unfold build, run_maker, new_obj, move_obj, alloc; intros.
  destruct (inplace c (mk_cls m)).
  - destruct m; [inversion H|]. destruct (negb (nt (ocls o)) && (carm x =? 1)); inversion H; subst; reflexivity.
  - destruct (carm x =? 2); [inversion H; subst; reflexivity|]. destruct m; [inversion H|].
    cbn [carm bump_blk] in H. destruct (negb (nt (ocls o)) && (carm x =? 1)); inversion H; subst; reflexivity.
Qed.

Theorem refine_step : forall c a s o s' e, Rf a s -> step c s o = Some (s', e) ->
  exists r, rets e = [r] /\ sexpect a o r /\ Rf (sstep a o r) s'.
Proof.
  unfold Rf; intros c a s o s' e R H. destruct o; cbn [step] in H; unfold getv in H; cbn [sstep sexpect].
  - (* ONew *)
    destruct (nth_error (vars s) v) as [[b0|]|] eqn:Hv; try discriminate. destruct inpl.
    + destruct (build (ctx0 s arm) c hdr (MkNew k p)) as [[[b|r] x1] e1] eqn:B; inversion H; subst; clear H;
      pose proof (rets_build _ _ _ _ _ _ _ B) as [B1 _]; rewrite rets_app, B1.
      * exists ROk. msplit; auto. cbn [is_ok vars mkst]. apply F2_upd; auto. simpl. apply (build_val _ _ _ _ _ _ _ B).
      * exists r. msplit; auto. rewrite (build_fail _ _ _ _ _ _ _ B). auto.
    + destruct (new_obj (ctx0 s arm) k p) as [[t x0] e0] eqn:N.
      pose proof (rets_new_obj _ _ _ _ _ _ N) as [N1 _].
      destruct (build x0 c hdr (MkMove t)) as [[[b|r] x1] e1] eqn:B; inversion H; subst; clear H;
      pose proof (rets_build _ _ _ _ _ _ _ B) as [B1 _]; rewrite !rets_app, B1, N1.
      * exists ROk. msplit; auto. cbn [is_ok vars mkst]. apply F2_upd; auto. simpl.
        rewrite (build_val _ _ _ _ _ _ _ B). unfold new_obj in N. inversion N; subst. reflexivity.
      * exists r. msplit; auto. rewrite (build_fail _ _ _ _ _ _ _ B). auto.
  - (* OMoveC *)
    destruct (nth_error (vars s) v) as [[b0|]|] eqn:Hv; try discriminate.
    destruct (nth_error (vars s) w) as [[bw|]|] eqn:Hw; try discriminate.
    destruct (move_box (ctx0 s arm) bw) as [[[[d s0]|r] x1] e1] eqn:B; inversion H; subst; clear H;
    pose proof (rets_move_box _ _ _ _ _ B) as [B1 _]; rewrite rets_app, B1.
    + exists ROk. msplit; auto. cbn [is_ok vars mkst]. apply F2_upd; [apply F2_upd; auto; apply rc_unknown|].
      eapply rc_alive; [eapply F2_nth; eauto | eapply move_box_val; eauto].
    + destruct (move_box_fail _ _ _ _ _ B) as [i Ei]. subst r. exists (RBoom i). msplit; auto.
  - (* OMoveA *)
    destruct (nth_error (vars s) v) as [[bv|]|] eqn:Hv; try discriminate.
    destruct (nth_error (vars s) w) as [[bw|]|] eqn:Hw; try discriminate.
    destruct (v =? w).
    + inversion H; subst. exists ROk. msplit; auto.
    + destruct (assign_box (ctx0 s arm) bv bw) as [[[[d s0] r] x1] e1] eqn:B. inversion H; subst; clear H.
      pose proof (rets_assign_box _ _ _ _ _ _ _ _ B) as [B1 _]. rewrite rets_app, B1.
      exists (res_of r). msplit; auto. rewrite (assign_box_res _ _ _ _ _ _ _ _ B).
      pose proof (assign_box_val _ _ _ _ _ _ _ _ B) as V. cbn [vars mkst]. destruct r.
      * unfold assign_box in B. destruct (move_box (ctx0 s arm) bw) as [[[[d0 s1]|r0] x2] e2]; inversion B; subst.
        apply F2_upd; [|apply rc_unknown].
        eapply F2_upd_right; auto. eapply F2_nth; eauto.
      * apply F2_upd; [apply F2_upd; auto; apply rc_unknown|].
        eapply rc_alive; [eapply F2_nth; eauto | auto].
  - (* OAssignV *)
    destruct (nth_error (vars s) v) as [[bv|]|] eqn:Hv; try discriminate.
    destruct (new_obj (ctx0 s arm) k p) as [[t x0] e0] eqn:N.
    pose proof (rets_new_obj _ _ _ _ _ _ N) as [N1 _]. destruct (rets_destroy bv) as [D1 _].
    assert (OT : obs t = Some p) by (unfold new_obj in N; inversion N; subst; reflexivity).
    destruct (ckind c).
    + destruct (build x0 c true (MkMove t)) as [[[b|r] x1] e1] eqn:B; inversion H; subst; clear H;
      pose proof (rets_build _ _ _ _ _ _ _ B) as [B1 _]; rewrite !rets_app, B1, N1, D1.
      * exists ROk. msplit; auto. cbn [is_ok vars mkst]. apply F2_upd; auto. simpl.
        rewrite (build_val _ _ _ _ _ _ _ B). auto.
      * exists r. msplit; auto. rewrite (build_fail _ _ _ _ _ _ _ B). cbn [vars mkst]. apply F2_upd; auto; try apply rc_unknown.
    + destruct (build x0 c false (MkMove t)) as [[[b|r] x1] e1] eqn:B; inversion H; subst; clear H;
      pose proof (rets_build _ _ _ _ _ _ _ B) as [B1 _]; rewrite !rets_app, B1, N1, ?D1.
      * exists ROk. msplit; auto. cbn [is_ok vars mkst]. apply F2_upd; auto. simpl.
        rewrite (build_val _ _ _ _ _ _ _ B). auto.
      * exists r. msplit; auto. rewrite (build_fail _ _ _ _ _ _ _ B). cbn [vars mkst].
        eapply F2_upd_left; eauto; try apply rc_unknown.
  - (* OSwap *)
    destruct (nth_error (vars s) v) as [[bv|]|] eqn:Hv; try discriminate.
    destruct (nth_error (vars s) w) as [[bw|]|] eqn:Hw; try discriminate.
    pose proof (F2_nth _ _ _ _ R Hv) as Rv. pose proof (F2_nth _ _ _ _ R Hw) as Rw.
    destruct (ckind c).
    + destruct (move_box (ctx0 s arm) bv) as [[[[tmp a1]|r] x1] e1] eqn:B1;
      pose proof (rets_move_box _ _ _ _ _ B1) as [E1 _].
      * pose proof (move_box_val _ _ _ _ _ _ B1) as V1.
        destruct (v =? w) eqn:EQ.
        { apply Nat.eqb_eq in EQ. subst w. assert (bw = bv) by congruence. subst bw.
          destruct (assign_box x1 a1 tmp) as [[[[a2 tmp1] r] x2] e2] eqn:B2. inversion H; subst; clear H.
          pose proof (rets_assign_box _ _ _ _ _ _ _ _ B2) as [E2 _]. destruct (rets_destroy tmp1) as [D1 _].
          rewrite !rets_app, E1, E2, D1. exists (res_of r). msplit; auto.
          rewrite (assign_box_res _ _ _ _ _ _ _ _ B2). pose proof (assign_box_val _ _ _ _ _ _ _ _ B2) as V2.
          cbn [vars mkst].
          assert (U : forall (x y : acell), upd v x (upd v y a) = upd v x a).
          { clear. intros. revert v. induction a; destruct v; simpl; auto. f_equal; auto. }
          rewrite !U. destruct r.
          - apply F2_upd; auto; try apply rc_unknown.
          - apply F2_upd; auto. eapply rc_alive; eauto. congruence. }
        { destruct (assign_box x1 a1 bw) as [[[[a2 b1] r] x2] e2] eqn:B2.
          pose proof (rets_assign_box _ _ _ _ _ _ _ _ B2) as [E2 _].
          pose proof (assign_box_val _ _ _ _ _ _ _ _ B2) as V2.
          destruct r as [r|].
          - inversion H; subst; clear H. destruct (rets_destroy tmp) as [D1 _].
            rewrite !rets_app, E1, E2, D1. exists r. msplit; auto.
            pose proof (assign_box_res _ _ _ _ _ _ _ _ B2) as OK. cbn [res_of] in OK. rewrite OK.
            cbn [vars mkst]. repeat apply F2_upd; auto; apply rc_unknown.
          - destruct (assign_box x2 b1 tmp) as [[[[b2 tmp1] r] x3] e3] eqn:B3. inversion H; subst; clear H.
            pose proof (rets_assign_box _ _ _ _ _ _ _ _ B3) as [E3 _]. destruct (rets_destroy tmp1) as [D1 _].
            pose proof (assign_box_val _ _ _ _ _ _ _ _ B3) as V3.
            rewrite !rets_app, E1, E2, E3, D1. exists (res_of r). msplit; auto.
            rewrite (assign_box_res _ _ _ _ _ _ _ _ B3). cbn [vars mkst]. destruct r.
            + repeat apply F2_upd; auto; apply rc_unknown.
            + apply F2_upd; [apply F2_upd; auto|].
              * eapply rc_alive; eauto. congruence.
              * eapply rc_alive; eauto. }
      * inversion H; subst; clear H. destruct (move_box_fail _ _ _ _ _ B1) as [i Ei]. subst r.
        rewrite rets_app, E1. exists (RBoom i). msplit; auto. cbn [is_ok vars mkst].
        (* the specification only promises that both wrappers stay valid *)
        eapply F2_upd_left; [eapply F2_upd_left; [exact R | exact Hw | apply rc_unknown] | exact Hv | apply rc_unknown].
    + inversion H; subst; clear H. exists ROk. msplit; auto. cbn [is_ok vars mkst].
      apply F2_upd; [apply F2_upd; auto|]; auto.
  - (* OInv *)
    destruct (nth_error (vars s) v) as [[bv|]|] eqn:Hv; try discriminate.
    pose proof (F2_nth _ _ _ _ R Hv) as Rv.
    destruct (box_obj bv) as [o|] eqn:BO; inversion H; subst; clear H.
    exists (obs_res o). msplit; auto. destruct (geta a v) as [[p|]|]; auto.
    simpl in Rv. unfold box_val in Rv. rewrite BO in Rv. unfold obs_res. rewrite Rv. auto.
  - (* OPoke *)
    destruct (nth_error (vars s) v) as [[bv|]|] eqn:Hv; try discriminate.
    pose proof (F2_nth _ _ _ _ R Hv) as Rv.
    destruct (box_obj bv) as [o|] eqn:BO; inversion H; subst; clear H. cbn [vars opay].
    exists (if t then RPerr (opay o + d) else RVal (opay o + d)). split; [destruct t; reflexivity|].
    destruct (geta a v) as [[p|]|] eqn:G.
    + simpl in Rv. unfold box_val in Rv. rewrite BO in Rv. unfold obs in Rv.
      destruct (omoved o) eqn:MV; try discriminate. inversion Rv; subst.
      split; [destruct t; reflexivity|]. apply F2_upd; auto. simpl. unfold box_val.
      destruct bv; simpl in *; try discriminate; reflexivity.
    + split; [destruct t; exact I|].
      apply F2_upd_right; auto. rewrite G. apply rc_unknown.
    + simpl in Rv. contradiction.
  - (* ORef *)
    destruct (nth_error (vars s) v) as [[bv|]|] eqn:Hv; try discriminate.
    destruct (nth_error (vars s) w) as [[bw|]|] eqn:Hw; try discriminate.
    pose proof (F2_nth _ _ _ _ R Hv) as Rv.
    destruct (box_obj bv) as [o|] eqn:BO; inversion H; subst; clear H.
    eexists. msplit; [reflexivity | | auto]. destruct (geta a v) as [[p|]|]; auto.
    simpl in Rv. unfold box_val in Rv. rewrite BO in Rv. rewrite Rv. auto.
  - (* ODel *)
    destruct (nth_error (vars s) v) as [[bv|]|] eqn:Hv; try discriminate. inversion H; subst; clear H.
    destruct (rets_destroy bv) as [D1 _]. rewrite rets_app, D1. exists ROk. msplit; auto.
    cbn [vars]. apply F2_upd; auto. simpl. auto.
Qed.

(* the machine and the optional-cell specification run side by side: every operation has exactly one
   result, the result is the one the specification expects whenever the specification knows the value *)
Fixpoint agrees (c : cfg) (a : list acell) (s : st) (ops : list op) : Prop :=
  match ops with
  | [] => True
  | o :: rest =>
    match step c s o with
    | Some (s', e) => exists r, rets e = [r] /\ sexpect a o r /\ agrees c (sstep a o r) s' rest
    | None => agrees c a s rest
    end
  end.

Lemma refine_run : forall c ops a s, Rf a s -> agrees c a s ops.
Proof.
  induction ops; simpl; intros; auto.
  destruct (step c s a) as [[s' e]|] eqn:S; auto.
  destruct (refine_step _ _ _ _ _ _ H S) as [r [A [B C]]]. exists r; auto.
Qed.

Theorem refines_optional_cell : forall c n ops, agrees c (repeat None n) (init n) ops.
Proof.
  intros. apply refine_run. unfold Rf, init; simpl. induction n; simpl; constructor; simpl; auto.
Qed.
