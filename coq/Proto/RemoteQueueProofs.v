(* Proofs about the model RemoteQueue (Proto/RemoteQueueDefs.v): three invariants, proved per step
   function and lifted over all schedules with Base/Sched.v, then the theorems of C14's first
   sentence: no lost wake-up, every item exactly once on the I/O thread in submission order,
   run(stop_token) returns after (and only after) a stop request, no stuck state with work queued. *)
From Coq Require Import List Bool Arith Lia.
From V Require Import Base.Sched Proto.RemoteQueueDefs.
Import ListNotations.
Import RemoteQueue.

(* ---- lists ------------------------------------------------------------------------------------ *)
Lemma set_nth_length {A} (i : nat) (x : A) (l : list A) : length (set_nth i x l) = length l.
Proof. revert i; induction l; destruct i; simpl; auto. Qed.

Lemma nth_set_nth_eq {A} (i : nat) (x y : A) (l : list A) :
  nth_error l i = Some y -> nth_error (set_nth i x l) i = Some x.
Proof. revert i; induction l; destruct i; simpl; intros; try discriminate; auto. Qed.

Lemma nth_set_nth_neq {A} (i j : nat) (x : A) (l : list A) :
  i <> j -> nth_error (set_nth i x l) j = nth_error l j.
Proof. revert i j; induction l; destruct i, j; simpl; intros; auto; try congruence. Qed.

Lemma nth_set_nth {A} (i j : nat) (x y : A) (l : list A) :
  nth_error l i = Some y ->
  nth_error (set_nth i x l) j = if Nat.eqb i j then Some x else nth_error l j.
Proof.
  intros H. destruct (Nat.eqb_spec i j).
  - subst. eapply nth_set_nth_eq; eauto.
  - now apply nth_set_nth_neq.
Qed.

Definition count_w (l : list prod) : nat := length (filter at_write l).

Lemma count_w_set_nth i x y l :
  nth_error l i = Some y ->
  count_w (set_nth i x l) + (if at_write y then 1 else 0) = count_w l + (if at_write x then 1 else 0).
Proof.
  unfold count_w. revert i; induction l as [|a l IH]; destruct i; simpl; intros H; try discriminate.
  - inversion H; subst. destruct (at_write x), (at_write y); simpl; lia.
  - specialize (IH _ H). destruct (at_write a); simpl; lia.
Qed.

Lemma count_w_pos l : 0 < count_w l -> exists i p, nth_error l i = Some p /\ at_write p = true.
Proof.
  unfold count_w. induction l as [|a l IH]; simpl; [lia|].
  destruct (at_write a) eqn:E; intros H.
  - exists 0, a; auto.
  - destruct (IH H) as (i & p & Hn & Hp). exists (S i), p; auto.
Qed.

Lemma count_w_zero l : (forall i p, nth_error l i = Some p -> at_write p = false) -> count_w l = 0.
Proof.
  unfold count_w. induction l as [|a l IH]; simpl; intros H; auto.
  rewrite (H 0 a eq_refl). apply IH. intros i p Hn. apply (H (S i) p Hn).
Qed.

Lemma filter_app_nil {A} (f : A -> bool) l x : f x = false -> filter f (l ++ [x]) = filter f l.
Proof. intros H. rewrite filter_app. simpl. rewrite H. apply app_nil_r. Qed.

Lemma NoDup_snoc {A} (l : list A) x : NoDup l -> ~ In x l -> NoDup (l ++ [x]).
Proof.
  induction l; simpl; intros Hn Hi.
  - constructor; auto.
  - inversion Hn; subst. constructor.
    + rewrite in_app_iff. simpl. intros [H|[H|[]]]; auto.
    + apply IHl; auto.
Qed.

Lemma NoDup_app_l {A} (l r : list A) : NoDup (l ++ r) -> NoDup l.
Proof.
  induction l; simpl; intros H; [constructor|]. inversion H; subst. constructor.
  - rewrite in_app_iff in H2. tauto.
  - auto.
Qed.

(* ---- strip_stops / continue_batch ------------------------------------------------------------ *)
Lemma strip_stops_spec b : forall a r, strip_stops b = (a, r) ->
  b = a ++ r /\ (forall x, In x a -> x = IStop) /\ (match r with IStop :: _ => False | _ => True end).
Proof.
  induction b as [|x b IH]; simpl; intros a r H.
  - inversion H; subst. simpl; intuition.
  - destruct x.
    + inversion H; subst. simpl; intuition.
    + destruct (strip_stops b) as [a' r'] eqn:E. inversion H; subst.
      destruct (IH _ _ eq_refl) as (H1 & H2 & H3). subst b. repeat split; auto.
      simpl. intros x [<-|Hx]; auto.
Qed.

Lemma work_head r : (match r with IStop :: _ => False | _ => True end) ->
  r = [] \/ exists p j r', r = IWork p j :: r'.
Proof. destruct r as [|[p j|] r']; simpl; intros; eauto; tauto. Qed.

(* ---- invariant 1: the wake-up protocol --------------------------------------------------------- *)
Definition waiting (l : lpc) : bool := match l with LWait | LRead => true | _ => false end.
Arguments waiting !l.

Record InvW (s : st) : Prop := {
  w_inact : inactive s = true -> loop s = LWait /\ stack s = [] /\ tokens s = 0 /\ efd s = 0;
  w_act : inactive s = false -> tokens s + efd s = if waiting (loop s) then 1 else 0;
  w_read : loop s = LRead -> inactive s = false /\ efd s = 1;
  w_tok : tokens s = count_w (prods s) + match loop s with LPreWrite => 1 | _ => 0 end
}.

Lemma invW_init counts nstop pre : InvW (init counts nstop pre).
Proof.
  constructor; simpl; try discriminate; auto.
  rewrite Nat.add_0_r. apply eq_sym, count_w_zero. intros i p H.
  pose proof (nth_error_In _ _ H) as H'. apply in_app_or in H'. destruct H' as [H'|H'].
  - apply in_map_iff in H'. destruct H' as (n & <- & _). reflexivity.
  - apply repeat_spec in H'. subst. reflexivity.
Qed.

Lemma step_prod_invW i s s' evs : InvW s -> step_prod i s = Some (s', evs) -> InvW s'.
Proof.
  intros [Hi Ha Hr Ht] H. unfold step_prod in H.
  destruct (nth_error (prods s) i) as [p|] eqn:Hn; [|discriminate].
  destruct (pp p) eqn:Hp.
  - (* PSet *)
    destruct (pk p); [discriminate|].
    destruct (stopped s); inversion H; subst; clear H;
      (constructor; simpl; auto;
       pose proof (count_w_set_nth i (with_pp p (PLoad (if registered s then 0 else 1))) p _ Hn) as C1;
       pose proof (count_w_set_nth i (with_pp p (PLoad 1)) p _ Hn) as C2;
       unfold at_write in C1, C2; rewrite Hp in C1, C2; simpl in C1, C2; lia).
  - (* PLoad *)
    destruct (Nat.ltb j (pn p)); inversion H; subst; clear H.
    constructor; simpl; auto.
    pose proof (count_w_set_nth i (with_pp p (PCas j (head_ptr s))) p _ Hn) as C.
    unfold at_write in C; rewrite Hp in C; simpl in C. lia.
  - (* PCas *)
    destruct (ptr_eqb (head_ptr s) old).
    + unfold do_enqueue in H. inversion H; subst; clear H.
      destruct (inactive s) eqn:Hina.
      * destruct (Hi eq_refl) as (Hl & Hs & Htk & He).
        constructor; simpl; try discriminate.
        -- intros _. rewrite Hl. simpl. lia.
        -- rewrite Hl. discriminate.
        -- pose proof (count_w_set_nth i (with_pp p (PWrite j)) p _ Hn) as C.
           unfold at_write in C; rewrite Hp in C; simpl in C. rewrite Hl in *. lia.
      * specialize (Ha eq_refl).
        constructor; simpl; try discriminate; auto.
        pose proof (count_w_set_nth i (with_pp p (PLoad (S j))) p _ Hn) as C.
        unfold at_write in C; rewrite Hp in C; simpl in C. lia.
    + inversion H; subst; clear H. constructor; simpl; auto.
      pose proof (count_w_set_nth i (with_pp p (PCas j (head_ptr s))) p _ Hn) as C.
      unfold at_write in C; rewrite Hp in C; simpl in C. lia.
  - (* PWrite *)
    inversion H; subst; clear H.
    pose proof (count_w_set_nth i (with_pp p (PLoad (S j))) p _ Hn) as C.
    unfold at_write in C; rewrite Hp in C; simpl in C.
    destruct (inactive s) eqn:Hina.
    + destruct (Hi eq_refl) as (Hl & Hs & Htk & He). rewrite Hl in Ht. lia.
    + specialize (Ha eq_refl).
      assert (Hw : waiting (loop s) = true /\ tokens s = 1 /\ efd s = 0).
      { destruct (waiting (loop s)) eqn:W; [|lia].
        destruct (loop s) eqn:Hl; try discriminate.
        - repeat split; auto; lia.
        - destruct (Hr eq_refl) as [_ He]. lia. }
      destruct Hw as (W & Htk & He).
      constructor; simpl; try (intros; congruence).
      * intros _. rewrite W, Htk, He. reflexivity.
      * intros Hl. rewrite Hl in *. destruct (Hr eq_refl). lia.
      * destruct (loop s); try discriminate; lia.
Qed.

Lemma continue_batch_W s b :
  inactive (continue_batch s b) = inactive s /\ stack (continue_batch s b) = stack s /\
  efd (continue_batch s b) = efd s /\ tokens (continue_batch s b) = tokens s /\
  prods (continue_batch s b) = prods s /\
  (loop (continue_batch s b) = LExec \/ loop (continue_batch s b) = LRet \/ loop (continue_batch s b) = LMarkLoad).
Proof.
  unfold continue_batch. destruct (strip_stops b) as [a r]. destruct r; simpl.
  - destruct (should_stop s || _); simpl; auto 10.
  - auto 10.
Qed.

Lemma step_loop_invW s s' evs : InvW s -> step_loop s = Some (s', evs) -> InvW s'.
Proof.
  intros [Hi Ha Hr Ht] H. unfold step_loop in H.
  assert (Hact : loop s <> LWait -> inactive s = false).
  { intros Hl. destruct (inactive s) eqn:E; auto. destruct (Hi eq_refl); congruence. }
  destruct (loop s) eqn:Hl.
  - (* LReg *)
    specialize (Hact ltac:(discriminate)). specialize (Ha Hact). simpl in Ha.
    destruct (stopped s); inversion H; subst; clear H; constructor; simpl; try discriminate; try congruence; auto.
  - (* LPreLoad *)
    specialize (Hact ltac:(discriminate)). specialize (Ha Hact). simpl in Ha.
    inversion H; subst; clear H; constructor; simpl; try discriminate; try congruence; auto.
  - (* LPreCas *)
    specialize (Hact ltac:(discriminate)). specialize (Ha Hact). simpl in Ha.
    destruct (ptr_eqb (head_ptr s) old).
    + unfold do_enqueue in H. rewrite Hact in H. inversion H; subst; clear H.
      constructor; simpl; try discriminate; auto.
    + inversion H; subst; clear H. constructor; simpl; try discriminate; try congruence; auto.
  - (* LPreWrite: not reachable *)
    specialize (Hact ltac:(discriminate)). specialize (Ha Hact). simpl in Ha. lia.
  - (* LExec *)
    specialize (Hact ltac:(discriminate)). specialize (Ha Hact). simpl in Ha.
    destruct (pending s) as [|it rest]; [discriminate|]. inversion H; subst; clear H.
    match goal with |- InvW (continue_batch ?x ?y) => destruct (continue_batch_W x y) as (E1 & E2 & E3 & E4 & E5 & E6) end.
    simpl in *. constructor; rewrite ?E1, ?E2, ?E3, ?E4, ?E5.
    + congruence.
    + intros _. destruct E6 as [E|[E|E]]; rewrite E; simpl; lia.
    + destruct E6 as [E|[E|E]]; rewrite E; discriminate.
    + destruct E6 as [E|[E|E]]; rewrite E; lia.
  - (* LMarkLoad *)
    specialize (Hact ltac:(discriminate)). specialize (Ha Hact). simpl in Ha.
    inversion H; subst; clear H.
    constructor; simpl; try congruence; auto.
    + intros _. destruct (stack s); simpl; lia.
    + destruct (stack s); discriminate.
    + destruct (stack s); lia.
  - (* LMarkCas *)
    specialize (Hact ltac:(discriminate)). specialize (Ha Hact). simpl in Ha.
    destruct (stack s) eqn:Hs; inversion H; subst; clear H.
    + constructor; simpl; try discriminate; auto.
      * intros _. repeat split; auto; lia.
    + constructor; simpl; try discriminate; try congruence; auto.
  - (* LXchg *)
    specialize (Hact ltac:(discriminate)). specialize (Ha Hact). simpl in Ha.
    inversion H; subst; clear H.
    match goal with |- InvW (continue_batch ?x ?y) => destruct (continue_batch_W x y) as (E1 & E2 & E3 & E4 & E5 & E6) end.
    simpl in *. constructor; rewrite ?E1, ?E2, ?E3, ?E4, ?E5.
    + discriminate.
    + intros _. destruct E6 as [E|[E|E]]; rewrite E; simpl; lia.
    + destruct E6 as [E|[E|E]]; rewrite E; discriminate.
    + destruct E6 as [E|[E|E]]; rewrite E; lia.
  - (* LWait *)
    destruct (Nat.ltb 0 (efd s)) eqn:E; [|discriminate]. apply Nat.ltb_lt in E.
    inversion H; subst; clear H.
    assert (Hina : inactive s = false).
    { destruct (inactive s) eqn:I; auto. destruct (Hi eq_refl) as (_ & _ & _ & He). lia. }
    specialize (Ha Hina). simpl in Ha.
    constructor; simpl; try congruence; auto.
    + intros _. split; auto. lia.
  - (* LRead *)
    destruct (Hr eq_refl) as [Hina He]. specialize (Ha Hina). simpl in Ha.
    inversion H; subst; clear H.
    constructor; simpl; try discriminate; try congruence; auto.
    + intros _. lia.
  - (* LRet *)
    specialize (Hact ltac:(discriminate)). specialize (Ha Hact). simpl in Ha.
    inversion H; subst; clear H. constructor; simpl; try discriminate; try congruence; auto.
  - discriminate.
Qed.

Lemma step_invW t s s' evs : InvW s -> step t s = Some (s', evs) -> InvW s'.
Proof. destruct t; simpl; [apply step_loop_invW | apply step_prod_invW]. Qed.

Theorem invW_reachable counts nstop pre (sched : list nat) :
  InvW (fst (run step sched (init counts nstop pre, []))).
Proof.
  apply (run_invariant_state _ _ _ step InvW); [|apply invW_init].
  intros; eapply step_invW; eauto.
Qed.

(* no lost wake-up: while the I/O thread sleeps in epoll_wait on an unreadable eventfd, either the
   queue is marked inactive and empty (the next enqueue will be told to wake it) or a producer that
   was told so is about to write the eventfd *)
Theorem no_lost_wakeup counts nstop pre (sched : list nat) :
  let s := fst (run step sched (init counts nstop pre, [])) in
  blocked s = true ->
  (inactive s = true /\ stack s = []) \/
  (exists i p, nth_error (prods s) i = Some p /\ at_write p = true).
Proof.
  intros s Hb. pose proof (invW_reachable counts nstop pre sched) as [Hi Ha Hr Ht]. fold s in Hi, Ha, Hr, Ht.
  unfold blocked in Hb. destruct (loop s) eqn:Hl; try discriminate. apply Nat.eqb_eq in Hb.
  destruct (inactive s) eqn:Hina.
  - left. destruct (Hi eq_refl) as (_ & Hs & _). auto.
  - right. specialize (Ha eq_refl). simpl in Ha. apply count_w_pos. lia.
Qed.

(* the eventfd counter never exceeds 1 and at most one wake-up is owed at any time *)
Theorem eventfd_bounded counts nstop pre (sched : list nat) :
  let s := fst (run step sched (init counts nstop pre, [])) in
  tokens s + efd s <= 1.
Proof.
  intros s. pose proof (invW_reachable counts nstop pre sched) as [Hi Ha Hr Ht]. fold s in Hi, Ha, Hr, Ht.
  destruct (inactive s) eqn:Hina.
  - destruct (Hi eq_refl) as (_ & _ & -> & ->). lia.
  - rewrite (Ha eq_refl). destruct (waiting (loop s)); lia.
Qed.

(* ---- invariant 2: the queue ---------------------------------------------------------------------- *)
Definition nidx (c : ppc) : nat :=
  match c with PSet => 0 | PLoad j => j | PCas j _ => j | PWrite j => S j end.

Definition pend_ok (s : st) : Prop :=
  match loop s with
  | LExec => exists p j r, pending s = IWork p j :: r
  | _ => pending s = [] end.

Record InvQ (s : st) : Prop := {
  q_inact : inactive s = true -> stack s = [];
  q_fifo : enq s = consumed s ++ pending s ++ rev (stack s);
  q_pend : pend_ok s;
  q_stop : should_stop s = true <-> In IStop (consumed s);
  q_stoploop : should_stop s = true -> loop s = LExec \/ loop s = LRet \/ loop s = LDone;
  q_ret : loop s = LRet \/ loop s = LDone -> should_stop s = true;
  q_nodup : NoDup (filter is_work (enq s));
  q_own : forall q j, In (IWork q j) (enq s) ->
          exists i p, q = S i /\ nth_error (prods s) i = Some p /\ pk p = KProd /\ j < nidx (pp p)
}.

Lemma invQ_init counts nstop pre : InvQ (init counts nstop pre).
Proof.
  constructor; simpl; auto; try discriminate.
  - reflexivity.
  - split; [discriminate|tauto].
  - intros [H|H]; discriminate.
  - constructor.
  - tauto.
Qed.

(* q_own survives an update of producer i that keeps its kind and does not lower its index *)
Lemma own_set_prod (l : list prod) (en : list item) i p c :
  nth_error l i = Some p -> nidx (pp p) <= nidx c ->
  (forall q j, In (IWork q j) en ->
     exists i p, q = S i /\ nth_error l i = Some p /\ pk p = KProd /\ j < nidx (pp p)) ->
  forall q j, In (IWork q j) en ->
     exists i0 p0, q = S i0 /\ nth_error (set_nth i (with_pp p c) l) i0 = Some p0 /\ pk p0 = KProd /\ j < nidx (pp p0).
Proof.
  intros Hn Hle H q j Hin. destruct (H q j Hin) as (i0 & p0 & -> & Hn0 & Hk & Hj).
  destruct (Nat.eq_dec i i0) as [<-|Hne].
  - rewrite Hn in Hn0. inversion Hn0; subst p0. exists i, (with_pp p c). repeat split; auto.
    + eapply nth_set_nth_eq; eauto.
    + simpl. lia.
  - exists i0, p0. repeat split; auto. rewrite nth_set_nth_neq; auto.
Qed.

Lemma step_prod_invQ i s s' evs : InvQ s -> step_prod i s = Some (s', evs) -> InvQ s'.
Proof.
  intros [Hia Hf Hp Hs Hsl Hr Hnd Ho] H. unfold step_prod in H. unfold pend_ok in Hp.
  destruct (nth_error (prods s) i) as [p|] eqn:Hn; [|discriminate].
  destruct (pp p) eqn:Hpp.
  - destruct (pk p); [discriminate|].
    destruct (stopped s); inversion H; subst; clear H; constructor; unfold pend_ok; simpl; auto;
      eapply own_set_prod; eauto; rewrite Hpp; simpl; lia.
  - destruct (Nat.ltb j (pn p)); inversion H; subst; clear H. constructor; unfold pend_ok; simpl; auto.
    eapply own_set_prod; eauto. rewrite Hpp; simpl; lia.
  - destruct (ptr_eqb (head_ptr s) old).
    + unfold do_enqueue in H. inversion H; subst; clear H.
      assert (Hfifo : enq s ++ [item_of i p j] =
                      consumed s ++ pending s ++ rev (item_of i p j :: (if inactive s then [] else stack s))).
      { simpl. rewrite Hf. destruct (inactive s) eqn:Hina.
        - rewrite (Hia eq_refl). simpl. now rewrite !app_nil_r, <- !app_assoc.
        - now rewrite <- !app_assoc. }
      assert (Hown : forall q k, In (IWork q k) (enq s ++ [item_of i p j]) ->
                exists i0 p0, q = S i0 /\
                  nth_error (set_nth i (with_pp p (if inactive s then PWrite j else PLoad (S j))) (prods s)) i0 = Some p0 /\
                  pk p0 = KProd /\ k < nidx (pp p0)).
      { intros q k Hin. apply in_app_or in Hin. destruct Hin as [Hin|[Hin|[]]].
        - eapply own_set_prod; eauto. rewrite Hpp. destruct (inactive s); simpl; lia.
        - unfold item_of in Hin. destruct (pk p) eqn:Hk; [|discriminate]. inversion Hin; subst q k.
          exists i, (with_pp p (if inactive s then PWrite j else PLoad (S j))). repeat split; auto.
          + eapply nth_set_nth_eq; eauto.
          + destruct (inactive s); simpl; lia. }
      assert (Hnd' : NoDup (filter is_work (enq s ++ [item_of i p j]))).
      { unfold item_of. destruct (pk p) eqn:Hk.
        - rewrite filter_app. simpl. apply NoDup_snoc; auto.
          rewrite filter_In. intros [Hin _]. destruct (Ho _ _ Hin) as (i0 & p0 & E & Hn0 & _ & Hlt).
          inversion E; subst i0. rewrite Hn in Hn0. inversion Hn0; subst p0. rewrite Hpp in Hlt. simpl in Hlt. lia.
        - rewrite filter_app_nil; auto. }
      destruct (inactive s); constructor; unfold pend_ok; simpl; auto; discriminate.
    + inversion H; subst; clear H. constructor; unfold pend_ok; simpl; auto.
      eapply own_set_prod; eauto. rewrite Hpp; simpl; lia.
  - inversion H; subst; clear H. constructor; unfold pend_ok; simpl; auto.
    eapply own_set_prod; eauto. rewrite Hpp; simpl; lia.
Qed.

Definition is_nil {A} (l : list A) : bool := match l with [] => true | _ => false end.

(* what continue_batch establishes: s holds the batch b (in place of its pending field) *)
Lemma continue_batch_Q s b :
  enq s = consumed s ++ b ++ rev (stack s) ->
  (should_stop s = true <-> In IStop (consumed s)) ->
  (should_stop s = true -> b <> [] \/ True) ->
  let s' := continue_batch s b in
  enq s' = enq s /\ stack s' = stack s /\ inactive s' = inactive s /\ prods s' = prods s /\
  stopped s' = stopped s /\ registered s' = registered s /\ efd s' = efd s /\ tokens s' = tokens s /\
  enq s' = consumed s' ++ pending s' ++ rev (stack s') /\
  pend_ok s' /\
  (should_stop s' = true <-> In IStop (consumed s')) /\
  (should_stop s' = true -> loop s' = LExec \/ loop s' = LRet \/ loop s' = LDone) /\
  (loop s' = LRet \/ loop s' = LDone -> should_stop s' = true) /\
  (exists a, consumed s' = consumed s ++ a /\ forall x, In x a -> x = IStop) /\
  (loop s' = LExec \/ loop s' = LRet \/ loop s' = LMarkLoad).
Proof.
  intros Hf Hs _. unfold continue_batch. destruct (strip_stops b) as [a r] eqn:E.
  destruct (strip_stops_spec _ _ _ E) as (Hb & Ha & Hr). subst b.
  set (stp := should_stop s || negb (is_nil a)).
  assert (Hstp : stp = true <-> In IStop (consumed s ++ a)).
  { unfold stp. rewrite in_app_iff, orb_true_iff, Hs. split; intros [H|H]; auto.
    - destruct a as [|x a']; [discriminate|]. right. left. apply Ha. now left.
    - destruct a; [destruct H|]. now right. }
  assert (E1 : (should_stop s || negb match a with [] => true | _ :: _ => false end) = stp) by reflexivity.
  rewrite E1.
  destruct (work_head _ Hr) as [->|(p & j & r' & ->)]; unfold pend_ok; simpl.
  - destruct stp eqn:Es; simpl; repeat split; auto; try tauto; try discriminate;
      try (rewrite Hf, app_nil_r; now rewrite <- !app_assoc);
      try (intros [H|H]; discriminate); try (exists a; split; auto).
  - repeat split; auto; try tauto; try (intros [H|H]; discriminate);
      try (rewrite Hf; now rewrite <- !app_assoc); try (exists a; split; now auto); try apply Hstp; eauto.
Qed.

Lemma step_loop_invQ s s' evs : InvQ s -> step_loop s = Some (s', evs) -> InvQ s'.
Proof.
  intros [Hia Hf Hp Hs Hsl Hr Hnd Ho] H. unfold step_loop in H. unfold pend_ok in Hp.
  assert (Hns : should_stop s = true -> loop s = LExec \/ loop s = LRet \/ loop s = LDone) by exact Hsl.
  destruct (loop s) eqn:Hl.
  - destruct (stopped s); inversion H; subst; clear H; constructor; unfold pend_ok; simpl; auto;
      try (intros [E|E]; discriminate); intros E; destruct (Hns E) as [X|[X|X]]; discriminate.
  - inversion H; subst; clear H; constructor; unfold pend_ok; simpl; auto;
      try (intros [E|E]; discriminate); intros E; destruct (Hns E) as [X|[X|X]]; discriminate.
  - destruct (ptr_eqb (head_ptr s) old).
    + unfold do_enqueue in H. inversion H; subst; clear H.
      assert (Hfifo : enq s ++ [IStop] =
                      consumed s ++ pending s ++ rev (IStop :: (if inactive s then [] else stack s))).
      { simpl. rewrite Hf. destruct (inactive s) eqn:Hina.
        - rewrite (Hia eq_refl). simpl. now rewrite !app_nil_r, <- !app_assoc.
        - now rewrite <- !app_assoc. }
      assert (Hown : forall q k, In (IWork q k) (enq s ++ [IStop]) ->
                exists i0 p0, q = S i0 /\ nth_error (prods s) i0 = Some p0 /\ pk p0 = KProd /\ k < nidx (pp p0)).
      { intros q k Hin. apply in_app_or in Hin. destruct Hin as [Hin|[Hin|[]]]; [auto|discriminate]. }
      destruct (inactive s); constructor; unfold pend_ok; simpl; auto; try discriminate;
        try (rewrite filter_app_nil; auto);
        try (intros [E|E]; discriminate); intros E; destruct (Hns E) as [X|[X|X]]; discriminate.
    + inversion H; subst; clear H; constructor; unfold pend_ok; simpl; auto;
        try (intros [E|E]; discriminate); intros E; destruct (Hns E) as [X|[X|X]]; discriminate.
  - inversion H; subst; clear H; constructor; unfold pend_ok; simpl; auto;
      try (intros [E|E]; discriminate); intros E; destruct (Hns E) as [X|[X|X]]; discriminate.
  - (* LExec *)
    destruct Hp as (p & j & r & Hp). rewrite Hp in H. inversion H; subst; clear H.
    match goal with |- InvQ (continue_batch ?x ?y) =>
      destruct (continue_batch_Q x y) as (E1 & E2 & E3 & E4 & E5 & E6 & E7 & E8 & F1 & F2 & F3 & F4 & F5 & F6 & F7) end.
    + simpl. rewrite Hf, Hp. now rewrite <- !app_assoc.
    + simpl. rewrite Hs, in_app_iff. simpl. split; [tauto|]. intros [X|[X|[]]]; auto. discriminate.
    + auto.
    + constructor; auto; rewrite ?E1, ?E2, ?E3, ?E4; simpl; auto; try discriminate.
  - (* LMarkLoad *)
    inversion H; subst; clear H; constructor; unfold pend_ok; simpl; auto.
    + destruct (stack s); auto.
    + intros E; destruct (Hns E) as [X|[X|X]]; discriminate.
    + destruct (stack s); intros [E|E]; discriminate.
  - (* LMarkCas *)
    destruct (stack s) eqn:Hst; inversion H; subst; clear H; constructor; unfold pend_ok; simpl; auto;
      try (intros [E|E]; discriminate); try (intros E; destruct (Hns E) as [X|[X|X]]; discriminate).
    all: rewrite ?Hst; auto.
  - (* LXchg *)
    inversion H; subst; clear H.
    match goal with |- InvQ (continue_batch ?x ?y) =>
      destruct (continue_batch_Q x y) as (E1 & E2 & E3 & E4 & E5 & E6 & E7 & E8 & F1 & F2 & F3 & F4 & F5 & F6 & F7) end.
    + simpl. rewrite Hf, Hp. simpl. now rewrite app_nil_r.
    + simpl. exact Hs.
    + auto.
    + constructor; auto; rewrite ?E1, ?E2, ?E3, ?E4; simpl; auto; try discriminate.
  - (* LWait *)
    destruct (Nat.ltb 0 (efd s)); [|discriminate].
    inversion H; subst; clear H; constructor; unfold pend_ok; simpl; auto;
      try (intros [E|E]; discriminate); intros E; destruct (Hns E) as [X|[X|X]]; discriminate.
  - inversion H; subst; clear H; constructor; unfold pend_ok; simpl; auto;
      try (intros [E|E]; discriminate); intros E; destruct (Hns E) as [X|[X|X]]; discriminate.
  - (* LRet *)
    inversion H; subst; clear H; constructor; unfold pend_ok; simpl; auto.
  - discriminate.
Qed.

Lemma step_invQ t s s' evs : InvQ s -> step t s = Some (s', evs) -> InvQ s'.
Proof. destruct t; simpl; [apply step_loop_invQ | apply step_prod_invQ]. Qed.

Theorem invQ_reachable counts nstop pre (sched : list nat) :
  InvQ (fst (run step sched (init counts nstop pre, []))).
Proof.
  apply (run_invariant_state _ _ _ step InvQ); [|apply invQ_init].
  intros; eapply step_invQ; eauto.
Qed.


(* ---- invariant 3: the stop request ----------------------------------------------------------------- *)
Definition in_pre (l : lpc) : Prop := l = LPreLoad \/ (exists o, l = LPreCas o) \/ l = LPreWrite.
Definition stop_owed_by (p : prod) : Prop :=
  pk p = KStopper /\ (pp p = PLoad 0 \/ exists o, pp p = PCas 0 o).
Definition owed_loop (l : lpc) : Prop := l = LReg \/ l = LPreLoad \/ exists o, l = LPreCas o.

Record InvS (s : st) : Prop := {
  s_stopped : In IStop (enq s) -> stopped s = true;
  s_reg : registered s = false -> stopped s = false -> loop s = LReg;
  s_stopper : forall i p, nth_error (prods s) i = Some p -> pk p = KStopper -> pn p = 1;
  s_kst : forall i p, nth_error (prods s) i = Some p -> pk p = KStopper -> pp p = PSet \/ stopped s = true;
  s_pre : in_pre (loop s) -> stopped s = true;
  s_owed : stopped s = true ->
           In IStop (enq s) \/ owed_loop (loop s) \/
           exists i p, nth_error (prods s) i = Some p /\ stop_owed_by p
}.

Lemma invS_init counts nstop pre : InvS (init counts nstop pre).
Proof.
  constructor; simpl; auto; try tauto.
  - intros i p H Hk. pose proof (nth_error_In _ _ H) as H'. apply in_app_or in H'. destruct H' as [H'|H'].
    + apply in_map_iff in H'. destruct H' as (n & <- & _). discriminate.
    + apply repeat_spec in H'. subst. reflexivity.
  - intros i p H Hk. pose proof (nth_error_In _ _ H) as H'. apply in_app_or in H'. destruct H' as [H'|H'].
    + apply in_map_iff in H'. destruct H' as (n & <- & _). discriminate.
    + apply repeat_spec in H'. subst. now left.
  - intros [H|[[o H]|H]]; discriminate.
  - intros _. right. left. now left.
Qed.

(* facts about all producers survive an update of producer i when the new value satisfies them *)
Lemma all_set_prod (P : prod -> Prop) (l : list prod) i x i0 p0 :
  nth_error (set_nth i x l) i0 = Some p0 ->
  (forall i p, nth_error l i = Some p -> P p) -> P x -> P p0.
Proof.
  intros Hn H Hx. destruct (Nat.eq_dec i i0) as [<-|Hne].
  - destruct (nth_error l i) eqn:E.
    + rewrite (nth_set_nth_eq _ _ _ _ E) in Hn. now inversion Hn; subst.
    + assert (nth_error (set_nth i x l) i = None).
      { apply nth_error_None. rewrite set_nth_length. now apply nth_error_None. }
      congruence.
  - rewrite nth_set_nth_neq in Hn; eauto.
Qed.

Lemma owed_set_prod (l : list prod) i x y :
  nth_error l i = Some y -> (stop_owed_by y -> stop_owed_by x) ->
  (exists i p, nth_error l i = Some p /\ stop_owed_by p) ->
  exists i0 p0, nth_error (set_nth i x l) i0 = Some p0 /\ stop_owed_by p0.
Proof.
  intros Hn Hxy (i0 & p0 & Hn0 & Ho). destruct (Nat.eq_dec i i0) as [<-|Hne].
  - rewrite Hn in Hn0. inversion Hn0; subst p0. exists i, x. split; auto. eapply nth_set_nth_eq; eauto.
  - exists i0, p0. split; auto. rewrite nth_set_nth_neq; auto.
Qed.

(* a step of producer i that moves its pc to c, leaves stopped/registered/loop alone and either
   does not enqueue or enqueues item_of i p j *)
Lemma prod_move_invS s i p c (en : list item) :
  InvS s -> nth_error (prods s) i = Some p ->
  (pk p = KStopper -> c = PSet \/ stopped s = true) ->
  (en = enq s \/ en = enq s ++ [item_of i p (nidx (pp p))]) ->
  (pk p = KStopper -> pp p = PSet -> en = enq s) ->
  (stop_owed_by p -> stop_owed_by (with_pp p c) \/ In IStop en) ->
  forall s', stopped s' = stopped s -> registered s' = registered s -> loop s' = loop s ->
    prods s' = set_nth i (with_pp p c) (prods s) -> enq s' = en -> InvS s'.
Proof.
  intros [Hst Hrg Hsp Hk Hpre Hod] Hn Hc Hen Hset Hown s' E1 E2 E3 E4 E5.
  constructor; rewrite ?E1, ?E2, ?E3, ?E4, ?E5; auto.
  - intros Hin. destruct Hen as [->| ->]; auto. apply in_app_or in Hin. destruct Hin as [Hin|[Hin|[]]]; auto.
    unfold item_of in Hin. destruct (pk p) eqn:Hkp; [discriminate|].
    destruct (Hk _ _ Hn Hkp) as [X|X]; auto.
    specialize (Hset eq_refl X). exfalso.
    assert (length (enq s ++ [item_of i p (nidx (pp p))]) = length (enq s)) by (f_equal; exact Hset).
    rewrite app_length in H. simpl in H. lia.
  - intros i0 p0 Hn0. apply (all_set_prod (fun p => pk p = KStopper -> pn p = 1) _ _ _ _ _ Hn0); eauto.
    simpl. intros Hkk. eapply Hsp; eauto.
  - intros i0 p0 Hn0.
    apply (all_set_prod (fun p => pk p = KStopper -> pp p = PSet \/ stopped s = true) _ _ _ _ _ Hn0); eauto.
  - intros Hs. destruct (Hod Hs) as [X|[X|(i0 & p0 & Hn0 & Ho)]].
    + left. destruct Hen as [->| ->]; auto. apply in_or_app. now left.
    + right. now left.
    + destruct (Nat.eq_dec i i0) as [<-|Hne].
      * rewrite Hn in Hn0. inversion Hn0; subst p0. destruct (Hown Ho) as [Y|Y]; auto.
        right. right. exists i, (with_pp p c). split; auto. eapply nth_set_nth_eq; eauto.
      * right. right. exists i0, p0. split; auto. rewrite nth_set_nth_neq; auto.
Qed.

Lemma step_prod_invS i s s' evs : InvS s -> step_prod i s = Some (s', evs) -> InvS s'.
Proof.
  intros HI H. pose proof HI as [Hst Hrg Hsp Hk Hpre Hod]. unfold step_prod in H.
  destruct (nth_error (prods s) i) as [p|] eqn:Hn; [|discriminate].
  destruct (pp p) eqn:Hpp.
  - (* PSet *)
    destruct (pk p) eqn:Hkp; [discriminate|].
    destruct (stopped s) eqn:Hstp; inversion H; subst; clear H.
    + eapply (prod_move_invS s i p (PLoad 1) (enq s)); eauto.
      intros [_ [X|[o X]]]; rewrite Hpp in X; discriminate.
    + constructor; simpl; auto.
      * intros i0 p0 Hn0. apply (all_set_prod (fun p => pk p = KStopper -> pn p = 1) _ _ _ _ _ Hn0); eauto.
        simpl. intros Hkk. eapply Hsp; eauto.
      * intros _. destruct (registered s) eqn:Hr.
        -- right. right. exists i, (with_pp p (PLoad 0)). split.
           ++ eapply nth_set_nth_eq; eauto.
           ++ split; simpl; auto.
        -- right. left. left. auto.
  - (* PLoad *)
    destruct (Nat.ltb j (pn p)); inversion H; subst; clear H.
    eapply (prod_move_invS s i p (PCas j (head_ptr s)) (enq s)); eauto.
    + intros Hkp. destruct (Hk _ _ Hn Hkp) as [X|X]; [congruence|auto].
    + intros [Hkp [X|[o X]]]; rewrite Hpp in X; inversion X; subst. left. split; simpl; eauto.
  - (* PCas *)
    destruct (ptr_eqb (head_ptr s) old).
    + unfold do_enqueue in H. inversion H; subst; clear H.
      eapply (prod_move_invS s i p (if inactive s then PWrite j else PLoad (S j)) (enq s ++ [item_of i p j])); eauto.
      * intros Hkp. destruct (Hk _ _ Hn Hkp) as [X|X]; [congruence|auto].
      * right. rewrite Hpp. reflexivity.
      * intros _ X. congruence.
      * intros [Hkp _]. right. apply in_or_app. right. unfold item_of. rewrite Hkp. now left.
    + inversion H; subst; clear H.
      eapply (prod_move_invS s i p (PCas j (head_ptr s)) (enq s)); eauto.
      * intros Hkp. destruct (Hk _ _ Hn Hkp) as [X|X]; [congruence|auto].
      * intros [Hkp [X|[o X]]]; rewrite Hpp in X; inversion X; subst. left. split; simpl; eauto.
  - (* PWrite *)
    inversion H; subst; clear H.
    eapply (prod_move_invS s i p (PLoad (S j)) (enq s)); eauto.
    + intros Hkp. destruct (Hk _ _ Hn Hkp) as [X|X]; [congruence|auto].
    + intros [Hkp [X|[o X]]]; rewrite Hpp in X; discriminate.
Qed.

Lemma continue_batch_S s b :
  enq (continue_batch s b) = enq s /\ prods (continue_batch s b) = prods s /\
  stopped (continue_batch s b) = stopped s /\ registered (continue_batch s b) = registered s /\
  (loop (continue_batch s b) = LExec \/ loop (continue_batch s b) = LRet \/ loop (continue_batch s b) = LMarkLoad).
Proof.
  unfold continue_batch. destruct (strip_stops b) as [a r]. destruct r; simpl.
  - destruct (should_stop s || _); simpl; auto 10.
  - auto 10.
Qed.

(* a step of the loop that leaves the stop bits, the producers and the queue ghost alone and is
   neither at nor going to the registration / inline-callback phase *)
Lemma loop_move_invS s s' :
  InvS s -> stopped s' = stopped s -> registered s' = registered s -> prods s' = prods s -> enq s' = enq s ->
  loop s <> LReg -> ~ in_pre (loop s) -> loop s' <> LReg -> ~ in_pre (loop s') -> InvS s'.
Proof.
  intros [Hst Hrg Hsp Hk Hpre Hod] E1 E2 E3 E4 N1 N2 N3 N4.
  constructor; rewrite ?E1, ?E2, ?E3, ?E4; auto.
  - intros A B. elim N1. auto.
  - intros A. destruct (Hod A) as [X|[X|X]]; auto.
    exfalso. destruct X as [X|[X|[o X]]]; [now elim N1| |]; elim N2; unfold in_pre; eauto.
Qed.

Ltac not_pre := let X := fresh in let o := fresh in
  solve [intros [X|[[o X]|X]]; first [discriminate | rewrite X in *; discriminate]].

Lemma step_loop_invS s s' evs : InvS s -> step_loop s = Some (s', evs) -> InvS s'.
Proof.
  intros HI H. pose proof HI as [Hst Hrg Hsp Hk Hpre Hod]. unfold step_loop in H.
  destruct (loop s) eqn:Hl.
  - (* LReg *)
    destruct (stopped s) eqn:Hs; inversion H; subst; clear H.
    + constructor; simpl; auto.
      * intros A B. congruence.
      * intros _. destruct (Hod eq_refl) as [X|[X|X]]; auto. right. left. right. now left.
    + constructor; simpl; auto.
      * discriminate.
      * not_pre.
      * discriminate.
  - (* LPreLoad *)
    inversion H; subst; clear H. constructor; simpl; auto.
    + intros A B. rewrite Hpre in B; [discriminate|]. left; auto.
    + intros _. apply Hpre. left; auto.
    + intros A. destruct (Hod A) as [X|[X|X]]; auto. right. left. right. right. eauto.
  - (* LPreCas *)
    assert (Hs : stopped s = true) by (apply Hpre; right; left; eauto).
    destruct (ptr_eqb (head_ptr s) old).
    + unfold do_enqueue in H. inversion H; subst; clear H. constructor; simpl; auto.
      * intros A B. congruence.
      * intros _. left. apply in_or_app. right. now left.
    + inversion H; subst; clear H. constructor; simpl; auto.
      * intros A B. congruence.
      * intros A. destruct (Hod A) as [X|[X|X]]; auto. right. left. right. right. eauto.
  - (* LPreWrite *)
    assert (Hs : stopped s = true) by (apply Hpre; right; right; auto).
    inversion H; subst; clear H. constructor; simpl; auto.
    + intros A B. congruence.
    + intros A. destruct (Hod A) as [X|[X|X]]; auto.
      destruct X as [X|[X|[o X]]]; discriminate.
  - (* LExec *)
    destruct (pending s) as [|it rest]; [discriminate|]. inversion H; subst; clear H.
    match goal with |- InvS (continue_batch ?x ?y) => destruct (continue_batch_S x y) as (E1 & E2 & E3 & E4 & E5) end.
    eapply loop_move_invS; eauto; rewrite ?Hl; try discriminate; try not_pre.
    + destruct E5 as [E|[E|E]]; rewrite E; discriminate.
    + destruct E5 as [E|[E|E]]; rewrite E; not_pre.
  - inversion H; subst; clear H.
    eapply loop_move_invS; eauto; simpl; rewrite ?Hl; try discriminate; try not_pre;
      destruct (stack s); try discriminate; not_pre.
  - destruct (stack s); inversion H; subst; clear H;
      eapply loop_move_invS; eauto; simpl; rewrite ?Hl; try discriminate; not_pre.
  - inversion H; subst; clear H.
    match goal with |- InvS (continue_batch ?x ?y) => destruct (continue_batch_S x y) as (E1 & E2 & E3 & E4 & E5) end.
    eapply loop_move_invS; eauto; rewrite ?Hl; try discriminate; try not_pre.
    + destruct E5 as [E|[E|E]]; rewrite E; discriminate.
    + destruct E5 as [E|[E|E]]; rewrite E; not_pre.
  - destruct (Nat.ltb 0 (efd s)); [|discriminate]. inversion H; subst; clear H.
    eapply loop_move_invS; eauto; simpl; rewrite ?Hl; try discriminate; not_pre.
  - inversion H; subst; clear H.
    eapply loop_move_invS; eauto; simpl; rewrite ?Hl; try discriminate; not_pre.
  - inversion H; subst; clear H.
    eapply loop_move_invS; eauto; simpl; rewrite ?Hl; try discriminate; not_pre.
  - discriminate.
Qed.

Lemma step_invS t s s' evs : InvS s -> step t s = Some (s', evs) -> InvS s'.
Proof. destruct t; simpl; [apply step_loop_invS | apply step_prod_invS]. Qed.

Theorem invS_reachable counts nstop pre (sched : list nat) :
  InvS (fst (run step sched (init counts nstop pre, []))).
Proof.
  apply (run_invariant_state _ _ _ step InvS); [|apply invS_init].
  intros; eapply step_invS; eauto.
Qed.

(* ---- theorems --------------------------------------------------------------------------------------- *)
Definition exec_items (tr : list ev) : list item :=
  flat_map (fun e => match e with EExec it => [it] | _ => [] end) tr.

Lemma exec_items_app a b : exec_items (a ++ b) = exec_items a ++ exec_items b.
Proof. unfold exec_items. apply flat_map_app. Qed.

Lemma filter_work_stops a : (forall x, In x a -> x = IStop) -> filter is_work a = [].
Proof.
  induction a as [|x a IH]; simpl; intros H; auto.
  rewrite (H x (or_introl eq_refl)). simpl. apply IH. intros y Hy. apply H. now right.
Qed.

(* items run only in steps of thread 0, one per step, and the ghost list records them *)
Lemma step_executed t s s' evs :
  InvQ s -> step t s = Some (s', evs) ->
  executed s' = executed s ++ exec_items evs /\ (exec_items evs <> [] -> t = 0).
Proof.
  intros HQ H. destruct t; simpl in H.
  - split; auto. pose proof HQ as [Hia Hf Hp Hs Hsl Hr Hnd Ho]. unfold pend_ok in Hp.
    unfold step_loop in H.
    assert (Hfin : forall x, Some x = Some (s', evs) -> executed (fst x) = executed s -> exec_items (snd x) = [] ->
                   executed s' = executed s ++ exec_items evs).
    { intros x E E1 E2. inversion E; subst x. simpl in *. rewrite E1, E2. now rewrite app_nil_r. }
    destruct (loop s) eqn:Hl.
    + destruct (stopped s); eapply Hfin; eauto.
    + eapply Hfin; eauto.
    + destruct (ptr_eqb (head_ptr s) old); [unfold do_enqueue in H; destruct (inactive s)|]; eapply Hfin; eauto.
    + eapply Hfin; eauto.
    + (* LExec *)
      destruct Hp as (p & j & r & Hp). rewrite Hp in H. inversion H; subst; clear H.
      match goal with |- executed (continue_batch ?x ?y) = _ =>
        destruct (continue_batch_Q x y) as (_ & _ & _ & _ & _ & _ & _ & _ & _ & _ & _ & _ & _ & (a & Ha & Hall) & _) end.
      * simpl. rewrite Hf, Hp. now rewrite <- !app_assoc.
      * simpl. rewrite Hs, in_app_iff. simpl. split; [tauto|]. intros [X|[X|[]]]; auto. discriminate.
      * auto.
      * unfold executed. rewrite Ha. simpl. rewrite !filter_app. simpl.
        rewrite (filter_work_stops a Hall). now rewrite app_nil_r.
    + eapply Hfin; eauto.
    + destruct (stack s); eapply Hfin; eauto.
    + (* LXchg *)
      inversion H; subst; clear H.
      match goal with |- executed (continue_batch ?x ?y) = _ =>
        destruct (continue_batch_Q x y) as (_ & _ & _ & _ & _ & _ & _ & _ & _ & _ & _ & _ & _ & (a & Ha & Hall) & _) end.
      * simpl. rewrite Hf, Hp. simpl. now rewrite app_nil_r.
      * simpl. exact Hs.
      * auto.
      * unfold executed. rewrite Ha. simpl. rewrite !filter_app.
        rewrite (filter_work_stops a Hall). reflexivity.
    + destruct (Nat.ltb 0 (efd s)); [|discriminate]. eapply Hfin; eauto.
    + eapply Hfin; eauto.
    + eapply Hfin; eauto.
    + discriminate.
  - unfold step_prod in H. destruct (nth_error (prods s) t) as [p|]; [|discriminate].
    destruct (pp p); try (destruct (pk p)); try (destruct (stopped s)); try (destruct (Nat.ltb j (pn p)));
      try (destruct (ptr_eqb (head_ptr s) old)); try (unfold do_enqueue in H); try discriminate;
      inversion H; subst; clear H; simpl; rewrite app_nil_r; split; auto; intros X; now elim X.
Qed.

Theorem executed_is_trace counts nstop pre (sched : list nat) :
  let c := run step sched (init counts nstop pre, []) in
  exec_items (snd c) = executed (fst c).
Proof.
  intros c. subst c.
  apply (run_invariant _ _ _ step (fun c => InvQ (fst c) /\ exec_items (snd c) = executed (fst c))).
  - intros c t s' evs [HQ He] Hs. simpl. split.
    + eapply step_invQ; eauto.
    + rewrite exec_items_app, He. destruct (step_executed _ _ _ _ HQ Hs) as [-> _]. reflexivity.
  - simpl. split; [apply invQ_init|reflexivity].
Qed.

(* every item runs at most once, only after it was enqueued, in enqueue order; by the I/O thread *)
Theorem each_item_once_in_order counts nstop pre (sched : list nat) :
  let c := run step sched (init counts nstop pre, []) in
  NoDup (exec_items (snd c)) /\
  exists queued, filter is_work (enq (fst c)) = exec_items (snd c) ++ queued.
Proof.
  intros c. pose proof (executed_is_trace counts nstop pre sched) as He. fold c in He. rewrite He.
  pose proof (invQ_reachable counts nstop pre sched) as [Hia Hf Hp Hs Hsl Hr Hnd Ho]. fold c in Hf, Hnd.
  unfold executed. rewrite Hf, filter_app in Hnd. split.
  - eapply NoDup_app_l; eauto.
  - rewrite Hf, filter_app. eauto.
Qed.

Theorem exec_only_on_io_thread counts nstop pre (sched : list nat) t s' evs it :
  let s := fst (run step sched (init counts nstop pre, [])) in
  step t s = Some (s', evs) -> In (EExec it) evs -> t = 0.
Proof.
  intros s Hs Hin. pose proof (invQ_reachable counts nstop pre sched) as HQ. fold s in HQ.
  destruct (step_executed _ _ _ _ HQ Hs) as [_ H]. apply H.
  intros E. assert (In it (exec_items evs)).
  { unfold exec_items. apply in_flat_map. exists (EExec it). split; auto. now left. }
  rewrite E in H0. destruct H0.
Qed.

(* run() returns only after a stop request, with the whole batch that contained the stop operation
   executed: everything enqueued before the stop operation has run *)
Theorem run_returns_only_after_stop counts nstop pre (sched : list nat) :
  let s := fst (run step sched (init counts nstop pre, [])) in
  returned s = true ->
  stopped s = true /\
  exists before after, enq s = before ++ IStop :: after /\
    forall it, In it before -> is_work it = true -> In it (executed s).
Proof.
  intros s Hret.
  pose proof (invQ_reachable counts nstop pre sched) as [Hia Hf Hp Hs Hsl Hr Hnd Ho].
  pose proof (invS_reachable counts nstop pre sched) as [Hst _ _ _ _ _].
  fold s in Hia, Hf, Hp, Hs, Hsl, Hr, Hst. unfold pend_ok in Hp.
  unfold returned in Hret. destruct (loop s) eqn:Hl; try discriminate.
  assert (Hss : should_stop s = true) by (apply Hr; now right).
  apply Hs in Hss. destruct (in_split _ _ Hss) as (b & a & Hc).
  assert (Hin : In IStop (enq s)). { rewrite Hf. apply in_or_app. now left. }
  split; [auto|].
  exists b, (a ++ rev (stack s)). split.
  - rewrite Hf, Hp, Hc. simpl. now rewrite <- app_assoc.
  - intros it Hb Hw. unfold executed. apply filter_In. split; auto. rewrite Hc. apply in_or_app. now left.
Qed.

(* no stuck state with work or a stop request pending: when no thread can move, every producer has
   finished and either run() has returned, or the I/O thread sleeps with the queue marked inactive,
   everything ever enqueued executed and no stop requested *)
Theorem no_stuck counts nstop pre (sched : list nat) :
  let s := fst (run step sched (init counts nstop pre, [])) in
  (forall t, step t s = None) ->
  (forall i p, nth_error (prods s) i = Some p -> prod_done p = true \/ (pk p = KProd /\ pp p = PSet)) /\
  (returned s = true \/
   (blocked s = true /\ inactive s = true /\ stopped s = false /\
    filter is_work (enq s) = executed s /\ stack s = [] /\ pending s = [])).
Proof.
  intros s Hstuck.
  pose proof (invW_reachable counts nstop pre sched) as [Wi Wa Wr Wt].
  pose proof (invQ_reachable counts nstop pre sched) as [Hia Hf Hp Hs Hsl Hr Hnd Ho].
  pose proof (invS_reachable counts nstop pre sched) as [Hst Hrg Hsp Hk Hpre Hod].
  fold s in Wi, Wa, Wr, Wt, Hia, Hf, Hp, Hs, Hsl, Hr, Hst, Hrg, Hsp, Hk, Hpre, Hod. unfold pend_ok in Hp.
  assert (Hprod : forall i p, nth_error (prods s) i = Some p ->
                  (prod_done p = true \/ (pk p = KProd /\ pp p = PSet)) /\ at_write p = false /\ ~ stop_owed_by p).
  { intros i p Hn. specialize (Hstuck (S i)). simpl in Hstuck. unfold step_prod in Hstuck. rewrite Hn in Hstuck.
    unfold prod_done, at_write, stop_owed_by. destruct (pp p) eqn:Hpp.
    - destruct (pk p) eqn:Hkp; [|destruct (stopped s); discriminate].
      repeat split; auto. intros [X _]; discriminate.
    - destruct (Nat.ltb j (pn p)) eqn:E; [discriminate|]. apply Nat.ltb_ge in E.
      repeat split; auto. + left. now apply Nat.leb_le.
      + intros [Hkp [X|[o X]]]; [|discriminate]. inversion X; subst j. rewrite (Hsp _ _ Hn Hkp) in E. lia.
    - destruct (ptr_eqb (head_ptr s) old); unfold do_enqueue in Hstuck; try destruct (inactive s); discriminate.
    - discriminate. }
  split; [intros i p Hn; apply (Hprod i p Hn)|].
  specialize (Hstuck 0). simpl in Hstuck. unfold step_loop in Hstuck.
  destruct (loop s) eqn:Hl.
  - destruct (stopped s); discriminate.
  - discriminate.
  - destruct (ptr_eqb (head_ptr s) old); [unfold do_enqueue in Hstuck; destruct (inactive s)|]; discriminate.
  - discriminate.
  - destruct Hp as (p & j & r & Hp). rewrite Hp in Hstuck. discriminate.
  - discriminate.
  - destruct (stack s); discriminate.
  - discriminate.
  - (* LWait *)
    destruct (Nat.ltb 0 (efd s)) eqn:E; [discriminate|]. apply Nat.ltb_ge in E.
    assert (He : efd s = 0) by lia.
    assert (Hcw : count_w (prods s) = 0).
    { apply count_w_zero. intros i p Hn. apply (Hprod i p Hn). }
    assert (Hina : inactive s = true).
    { destruct (inactive s) eqn:I; auto. specialize (Wa eq_refl). simpl in Wa. lia. }
    right. unfold blocked. rewrite Hl, He. simpl.
    assert (Hstk : stack s = []) by auto.
    assert (Hnst : stopped s = false).
    { destruct (stopped s) eqn:S1; auto. exfalso. destruct (Hod eq_refl) as [X|[X|(i & p & Hn & X)]].
      - rewrite Hf, Hp, Hstk in X. simpl in X. rewrite app_nil_r in X. apply Hs in X.
        destruct (Hsl X) as [Y|[Y|Y]]; discriminate.
      - destruct X as [X|[X|[o X]]]; discriminate.
      - apply (Hprod i p Hn). exact X. }
    repeat split; auto.
    unfold executed. rewrite Hf, Hp, Hstk. simpl. now rewrite app_nil_r.
  - discriminate.
  - discriminate.
  - left. unfold returned. now rewrite Hl.
Qed.

(* run(stop_token) returns after stop: once stop is requested there is no stuck state short of
   run() having returned *)
Theorem run_returns_after_stop counts nstop pre (sched : list nat) :
  let s := fst (run step sched (init counts nstop pre, [])) in
  stopped s = true -> (forall t, step t s = None) -> returned s = true.
Proof.
  intros s Hs Hstuck. destruct (no_stuck counts nstop pre sched Hstuck) as [_ [H|H]]; auto.
  fold s in H. destruct H as (_ & _ & H & _). congruence.
Qed.
