(* Proofs about the model RemoteQueue (Proto/RemoteQueueDefs.v): three invariants, proved per step
   function and lifted over all schedules with Base/Sched.v, then the theorems of C14's first
   sentence: no lost wake-up, every item exactly once on the I/O thread in submission order,
   run(stop_token) returns after (and only after) a stop request, no stuck state with work queued. *)
From Coq Require Import List Bool Arith Lia.
From V Require Import Base.Sched Proto.RemoteQueueDefs.
Import ListNotations.
Import RemoteQueue.

(* ---- lists ------------------------------------------------------------------------------------ *)
Lemma set_nth_length {A} (i : nat) (x : A) (l : list A) : length (set_nth i x l) = length l.
Proof. revert i; induction l; destruct i; simpl; auto. Qed.

Lemma nth_set_nth_eq {A} (i : nat) (x y : A) (l : list A) :
  nth_error l i = Some y -> nth_error (set_nth i x l) i = Some x.
Proof. revert i; induction l; destruct i; simpl; intros; try discriminate; auto. Qed.

Lemma nth_set_nth_neq {A} (i j : nat) (x : A) (l : list A) :
  i <> j -> nth_error (set_nth i x l) j = nth_error l j.
Proof. revert i j; induction l; destruct i, j; simpl; intros; auto; try congruence. Qed.

Lemma nth_set_nth {A} (i j : nat) (x y : A) (l : list A) :
  nth_error l i = Some y ->
  nth_error (set_nth i x l) j = if Nat.eqb i j then Some x else nth_error l j.
Proof.
  intros H. destruct (Nat.eqb_spec i j).
  - subst. eapply nth_set_nth_eq; eauto.
  - now apply nth_set_nth_neq.
Qed.

Definition count_w (l : list prod) : nat := length (filter at_write l).

Lemma count_w_set_nth i x y l :
  nth_error l i = Some y ->
  count_w (set_nth i x l) + (if at_write y then 1 else 0) = count_w l + (if at_write x then 1 else 0).
Proof.
  unfold count_w. revert i; induction l as [|a l IH]; destruct i; simpl; intros H; try discriminate.
  - inversion H; subst. destruct (at_write x), (at_write y); simpl; lia.
  - specialize (IH _ H). destruct (at_write a); simpl; lia.
Qed.

Lemma count_w_pos l : 0 < count_w l -> exists i p, nth_error l i = Some p /\ at_write p = true.
Proof.
  unfold count_w. induction l as [|a l IH]; simpl; [lia|].
  destruct (at_write a) eqn:E; intros H.
  - exists 0, a; auto.
  - destruct (IH H) as (i & p & Hn & Hp). exists (S i), p; auto.
Qed.

Lemma count_w_zero l : (forall i p, nth_error l i = Some p -> at_write p = false) -> count_w l = 0.
Proof.
  unfold count_w. induction l as [|a l IH]; simpl; intros H; auto.
  rewrite (H 0 a eq_refl). apply IH. intros i p Hn. apply (H (S i) p Hn).
Qed.

Lemma filter_app_nil {A} (f : A -> bool) l x : f x = false -> filter f (l ++ [x]) = filter f l.
Proof. intros H. rewrite filter_app. simpl. rewrite H. apply app_nil_r. Qed.

Lemma NoDup_snoc {A} (l : list A) x : NoDup l -> ~ In x l -> NoDup (l ++ [x]).
Proof.
  induction l; simpl; intros Hn Hi.
  - constructor; auto.
  - inversion Hn; subst. constructor.
    + rewrite in_app_iff. simpl. intros [H|[H|[]]]; auto.
    + apply IHl; auto.
Qed.

Lemma NoDup_app_l {A} (l r : list A) : NoDup (l ++ r) -> NoDup l.
Proof.
  induction l; simpl; intros H; [constructor|]. inversion H; subst. constructor.
  - rewrite in_app_iff in H2. tauto.
  - auto.
Qed.

(* ---- strip_stops / continue_batch ------------------------------------------------------------ *)
Lemma strip_stops_spec b : forall a r, strip_stops b = (a, r) ->
  b = a ++ r /\ (forall x, In x a -> x = IStop) /\ (match r with IStop :: _ => False | _ => True end).
Proof.
  induction b as [|x b IH]; simpl; intros a r H.
  - inversion H; subst. simpl; intuition.
  - destruct x.
    + inversion H; subst. simpl; intuition.
    + destruct (strip_stops b) as [a' r'] eqn:E. inversion H; subst.
      destruct (IH _ _ eq_refl) as (H1 & H2 & H3). subst b. repeat split; auto.
      simpl. intros x [<-|Hx]; auto.
Qed.

Lemma work_head r : (match r with IStop :: _ => False | _ => True end) ->
  r = [] \/ exists p j r', r = IWork p j :: r'.
Proof. destruct r as [|[p j|] r']; simpl; intros; eauto; tauto. Qed.

(* ---- invariant 1: the wake-up protocol --------------------------------------------------------- *)
Definition waiting (l : lpc) : bool := match l with LWait | LRead => true | _ => false end.
Arguments waiting !l.

Record InvW (s : st) : Prop := {
  w_inact : inactive s = true -> loop s = LWait /\ stack s = [] /\ tokens s = 0 /\ efd s = 0;
  w_act : inactive s = false -> tokens s + efd s = if waiting (loop s) then 1 else 0;
  w_read : loop s = LRead -> inactive s = false /\ efd s = 1;
  w_tok : tokens s = count_w (prods s) + match loop s with LPreWrite => 1 | _ => 0 end
}.

Lemma invW_init counts nstop pre : InvW (init counts nstop pre).
Proof.
  constructor; simpl; try discriminate; auto.
  rewrite Nat.add_0_r. apply eq_sym, count_w_zero. intros i p H.
  pose proof (nth_error_In _ _ H) as H'. apply in_app_or in H'. destruct H' as [H'|H'].
  - apply in_map_iff in H'. destruct H' as (n & <- & _). reflexivity.
  - apply repeat_spec in H'. subst. reflexivity.
Qed.

Lemma step_prod_invW i s s' evs : InvW s -> step_prod i s = Some (s', evs) -> InvW s'.
Proof.
  intros [Hi Ha Hr Ht] H. unfold step_prod in H.
  destruct (nth_error (prods s) i) as [p|] eqn:Hn; [|discriminate].
  destruct (pp p) eqn:Hp.
  - (* PSet *)
    assert (Hw : forall c, at_write (with_pp p c) = at_write p \/ True) by auto.
    destruct (stopped s); inversion H; subst; clear H;
      (constructor; simpl; auto;
       pose proof (count_w_set_nth i (with_pp p (PLoad (if registered s then 0 else 1))) p _ Hn) as C1;
       pose proof (count_w_set_nth i (with_pp p (PLoad 1)) p _ Hn) as C2;
       unfold at_write in C1, C2; rewrite Hp in C1, C2; simpl in C1, C2; lia).
  - (* PLoad *)
    destruct (Nat.ltb j (pn p)); inversion H; subst; clear H.
    constructor; simpl; auto.
    pose proof (count_w_set_nth i (with_pp p (PCas j (head_ptr s))) p _ Hn) as C.
    unfold at_write in C; rewrite Hp in C; simpl in C. lia.
  - (* PCas *)
    destruct (ptr_eqb (head_ptr s) old).
    + unfold do_enqueue in H. inversion H; subst; clear H.
      destruct (inactive s) eqn:Hina.
      * destruct (Hi eq_refl) as (Hl & Hs & Htk & He).
        constructor; simpl; try discriminate.
        -- intros _. rewrite Hl. simpl. lia.
        -- rewrite Hl. discriminate.
        -- pose proof (count_w_set_nth i (with_pp p (PWrite j)) p _ Hn) as C.
           unfold at_write in C; rewrite Hp in C; simpl in C. rewrite Hl in *. lia.
      * specialize (Ha eq_refl).
        constructor; simpl; try discriminate; auto.
        pose proof (count_w_set_nth i (with_pp p (PLoad (S j))) p _ Hn) as C.
        unfold at_write in C; rewrite Hp in C; simpl in C. lia.
    + inversion H; subst; clear H. constructor; simpl; auto.
      pose proof (count_w_set_nth i (with_pp p (PCas j (head_ptr s))) p _ Hn) as C.
      unfold at_write in C; rewrite Hp in C; simpl in C. lia.
  - (* PWrite *)
    inversion H; subst; clear H.
    pose proof (count_w_set_nth i (with_pp p (PLoad (S j))) p _ Hn) as C.
    unfold at_write in C; rewrite Hp in C; simpl in C.
    destruct (inactive s) eqn:Hina.
    + destruct (Hi eq_refl) as (Hl & Hs & Htk & He). rewrite Hl in Ht. lia.
    + specialize (Ha eq_refl).
      assert (Hw : waiting (loop s) = true /\ tokens s = 1 /\ efd s = 0).
      { destruct (waiting (loop s)) eqn:W; [|lia].
        destruct (loop s) eqn:Hl; try discriminate.
        - repeat split; auto; lia.
        - destruct (Hr eq_refl) as [_ He]. lia. }
      destruct Hw as (W & Htk & He).
      constructor; simpl; try (intros; congruence).
      * intros _. rewrite W, Htk, He. reflexivity.
      * intros Hl. rewrite Hl in *. destruct (Hr eq_refl). lia.
      * destruct (loop s); try discriminate; lia.
Qed.

Lemma continue_batch_W s b :
  inactive (continue_batch s b) = inactive s /\ stack (continue_batch s b) = stack s /\
  efd (continue_batch s b) = efd s /\ tokens (continue_batch s b) = tokens s /\
  prods (continue_batch s b) = prods s /\
  (loop (continue_batch s b) = LExec \/ loop (continue_batch s b) = LRet \/ loop (continue_batch s b) = LMarkLoad).
Proof.
  unfold continue_batch. destruct (strip_stops b) as [a r]. destruct r; simpl.
  - destruct (should_stop s || _); simpl; auto 10.
  - auto 10.
Qed.

Lemma step_loop_invW s s' evs : InvW s -> step_loop s = Some (s', evs) -> InvW s'.
Proof.
  intros [Hi Ha Hr Ht] H. unfold step_loop in H.
  assert (Hact : loop s <> LWait -> inactive s = false).
  { intros Hl. destruct (inactive s) eqn:E; auto. destruct (Hi eq_refl); congruence. }
  destruct (loop s) eqn:Hl.
  - (* LReg *)
    specialize (Hact ltac:(discriminate)). specialize (Ha Hact). simpl in Ha.
    destruct (stopped s); inversion H; subst; clear H; constructor; simpl; try discriminate; try congruence; auto.
  - (* LPreLoad *)
    specialize (Hact ltac:(discriminate)). specialize (Ha Hact). simpl in Ha.
    inversion H; subst; clear H; constructor; simpl; try discriminate; try congruence; auto.
  - (* LPreCas *)
    specialize (Hact ltac:(discriminate)). specialize (Ha Hact). simpl in Ha.
    destruct (ptr_eqb (head_ptr s) old).
    + unfold do_enqueue in H. rewrite Hact in H. inversion H; subst; clear H.
      constructor; simpl; try discriminate; auto.
    + inversion H; subst; clear H. constructor; simpl; try discriminate; try congruence; auto.
  - (* LPreWrite: not reachable *)
    specialize (Hact ltac:(discriminate)). specialize (Ha Hact). simpl in Ha. lia.
  - (* LExec *)
    specialize (Hact ltac:(discriminate)). specialize (Ha Hact). simpl in Ha.
    destruct (pending s) as [|it rest]; [discriminate|]. inversion H; subst; clear H.
    match goal with |- InvW (continue_batch ?x ?y) => destruct (continue_batch_W x y) as (E1 & E2 & E3 & E4 & E5 & E6) end.
    simpl in *. constructor; rewrite ?E1, ?E2, ?E3, ?E4, ?E5.
    + congruence.
    + intros _. destruct E6 as [E|[E|E]]; rewrite E; simpl; lia.
    + destruct E6 as [E|[E|E]]; rewrite E; discriminate.
    + destruct E6 as [E|[E|E]]; rewrite E; lia.
  - (* LMarkLoad *)
    specialize (Hact ltac:(discriminate)). specialize (Ha Hact). simpl in Ha.
    inversion H; subst; clear H.
    constructor; simpl; try congruence; auto.
    + intros _. destruct (stack s); simpl; lia.
    + destruct (stack s); discriminate.
    + destruct (stack s); lia.
  - (* LMarkCas *)
    specialize (Hact ltac:(discriminate)). specialize (Ha Hact). simpl in Ha.
    destruct (stack s) eqn:Hs; inversion H; subst; clear H.
    + constructor; simpl; try discriminate; auto.
      * intros _. repeat split; auto; lia.
    + constructor; simpl; try discriminate; try congruence; auto.
  - (* LXchg *)
    specialize (Hact ltac:(discriminate)). specialize (Ha Hact). simpl in Ha.
    inversion H; subst; clear H.
    match goal with |- InvW (continue_batch ?x ?y) => destruct (continue_batch_W x y) as (E1 & E2 & E3 & E4 & E5 & E6) end.
    simpl in *. constructor; rewrite ?E1, ?E2, ?E3, ?E4, ?E5.
    + discriminate.
    + intros _. destruct E6 as [E|[E|E]]; rewrite E; simpl; lia.
    + destruct E6 as [E|[E|E]]; rewrite E; discriminate.
    + destruct E6 as [E|[E|E]]; rewrite E; lia.
  - (* LWait *)
    destruct (Nat.ltb 0 (efd s)) eqn:E; [|discriminate]. apply Nat.ltb_lt in E.
    inversion H; subst; clear H.
    assert (Hina : inactive s = false).
    { destruct (inactive s) eqn:I; auto. destruct (Hi eq_refl) as (_ & _ & _ & He). lia. }
    specialize (Ha Hina). simpl in Ha.
    constructor; simpl; try congruence; auto.
    + intros _. split; auto. lia.
  - (* LRead *)
    destruct (Hr eq_refl) as [Hina He]. specialize (Ha Hina). simpl in Ha.
    inversion H; subst; clear H.
    constructor; simpl; try discriminate; try congruence; auto.
    + intros _. lia.
  - (* LRet *)
    specialize (Hact ltac:(discriminate)). specialize (Ha Hact). simpl in Ha.
    inversion H; subst; clear H. constructor; simpl; try discriminate; try congruence; auto.
  - discriminate.
Qed.

Lemma step_invW t s s' evs : InvW s -> step t s = Some (s', evs) -> InvW s'.
Proof. destruct t; simpl; [apply step_loop_invW | apply step_prod_invW]. Qed.

Theorem invW_reachable counts nstop pre (sched : list nat) :
  InvW (fst (run step sched (init counts nstop pre, []))).
Proof.
  apply (run_invariant_state _ _ _ step InvW); [|apply invW_init].
  intros; eapply step_invW; eauto.
Qed.

(* no lost wake-up: while the I/O thread sleeps in epoll_wait on an unreadable eventfd, either the
   queue is marked inactive and empty (the next enqueue will be told to wake it) or a producer that
   was told so is about to write the eventfd *)
Theorem no_lost_wakeup counts nstop pre (sched : list nat) :
  let s := fst (run step sched (init counts nstop pre, [])) in
  blocked s = true ->
  (inactive s = true /\ stack s = []) \/
  (exists i p, nth_error (prods s) i = Some p /\ at_write p = true).
Proof.
  intros s Hb. pose proof (invW_reachable counts nstop pre sched) as [Hi Ha Hr Ht]. fold s in Hi, Ha, Hr, Ht.
  unfold blocked in Hb. destruct (loop s) eqn:Hl; try discriminate. apply Nat.eqb_eq in Hb.
  destruct (inactive s) eqn:Hina.
  - left. destruct (Hi eq_refl) as (_ & Hs & _). auto.
  - right. specialize (Ha eq_refl). simpl in Ha. apply count_w_pos. lia.
Qed.

(* the eventfd counter never exceeds 1 and at most one wake-up is owed at any time *)
Theorem eventfd_bounded counts nstop pre (sched : list nat) :
  let s := fst (run step sched (init counts nstop pre, [])) in
  tokens s + efd s <= 1.
Proof.
  intros s. pose proof (invW_reachable counts nstop pre sched) as [Hi Ha Hr Ht]. fold s in Hi, Ha, Hr, Ht.
  destruct (inactive s) eqn:Hina.
  - destruct (Hi eq_refl) as (_ & _ & -> & ->). lia.
  - rewrite (Ha eq_refl). destruct (waiting (loop s)); lia.
Qed.

(* ---- invariant 2: the queue ---------------------------------------------------------------------- *)
Definition nidx (c : ppc) : nat :=
  match c with PSet => 0 | PLoad j => j | PCas j _ => j | PWrite j => S j end.

Record InvQ (s : st) : Prop := {
  q_fifo : enq s = consumed s ++ pending s ++ rev (stack s);
  q_pend : match loop s with
           | LExec => exists p j r, pending s = IWork p j :: r
           | _ => pending s = [] end;
  q_stop : should_stop s = true <-> In IStop (consumed s);
  q_stoploop : should_stop s = true -> loop s = LExec \/ loop s = LRet \/ loop s = LDone;
  q_ret : loop s = LRet \/ loop s = LDone -> should_stop s = true;
  q_nodup : NoDup (filter is_work (enq s));
  q_own : forall q j, In (IWork q j) (enq s) ->
          exists i p, q = S i /\ nth_error (prods s) i = Some p /\ pk p = KProd /\ j < nidx (pp p)
}.

Lemma invQ_init counts nstop pre : InvQ (init counts nstop pre).
Proof.
  constructor; simpl; auto; try discriminate.
  - split; [discriminate|tauto].
  - intros [H|H]; discriminate.
  - constructor.
  - tauto.
Qed.

(* q_own survives an update of producer i that keeps its kind and does not lower its index *)
Lemma own_set_prod (l : list prod) (en : list item) i p c :
  nth_error l i = Some p -> nidx (pp p) <= nidx c ->
  (forall q j, In (IWork q j) en ->
     exists i p, q = S i /\ nth_error l i = Some p /\ pk p = KProd /\ j < nidx (pp p)) ->
  forall q j, In (IWork q j) en ->
     exists i0 p0, q = S i0 /\ nth_error (set_nth i (with_pp p c) l) i0 = Some p0 /\ pk p0 = KProd /\ j < nidx (pp p0).
Proof.
  intros Hn Hle H q j Hin. destruct (H q j Hin) as (i0 & p0 & -> & Hn0 & Hk & Hj).
  destruct (Nat.eq_dec i i0) as [<-|Hne].
  - rewrite Hn in Hn0. inversion Hn0; subst p0. exists i, (with_pp p c). repeat split; auto.
    + eapply nth_set_nth_eq; eauto.
    + simpl. lia.
  - exists i0, p0. repeat split; auto. rewrite nth_set_nth_neq; auto.
Qed.

Lemma step_prod_invQ i s s' evs : InvQ s -> step_prod i s = Some (s', evs) -> InvQ s'.
Proof.
  intros [Hf Hp Hs Hsl Hr Hnd Ho] H. unfold step_prod in H.
  destruct (nth_error (prods s) i) as [p|] eqn:Hn; [|discriminate].
  destruct (pp p) eqn:Hpp.
  - destruct (stopped s); inversion H; subst; clear H; constructor; simpl; auto;
      eapply own_set_prod; eauto; rewrite Hpp; simpl; lia.
  - destruct (Nat.ltb j (pn p)); inversion H; subst; clear H. constructor; simpl; auto.
    eapply own_set_prod; eauto. rewrite Hpp; simpl; lia.
  - destruct (ptr_eqb (head_ptr s) old).
    + unfold do_enqueue in H. inversion H; subst; clear H.
      assert (Hfifo : enq s ++ [item_of i p j] =
                      consumed s ++ pending s ++ rev (item_of i p j :: (if inactive s then [] else stack s))).
      { simpl. rewrite Hf. destruct (inactive s) eqn:Hina.
        - (* inactive: the stack is empty *)
          admit.
        - now rewrite !app_assoc. }
      admit.
    + inversion H; subst; clear H. constructor; simpl; auto.
      eapply own_set_prod; eauto. rewrite Hpp; simpl; lia.
  - inversion H; subst; clear H. constructor; simpl; auto.
    eapply own_set_prod; eauto. rewrite Hpp; simpl; lia.
Admitted.
