(* Proofs about the E1 model AtomicQueue (Proto/AtomicQueueDefs.v): atomic_intrusive_queue.
   For an arbitrary number of producers and items, an arbitrary consumer script, both initial
   states and an arbitrary schedule: nothing is lost or duplicated, the batches handed to the
   consumer concatenate to a prefix of the order of the successful enqueue CASes (FIFO restored
   by make_reversed), and the number of enqueue() calls that returned "consumer was inactive"
   balances the number of successful try_mark_inactive exactly. *)
From Coq Require Import List Bool Arith Lia.
From V Require Import Base.Sched Proto.AtomicQueueDefs.
Import ListNotations.
Import AtomicQueue.

(* ------------------------------------------------------------------------------------------ *)
(* list helpers                                                                               *)

Lemma set_nth_length {A} (i : nat) (x : A) (l : list A) : length (set_nth i x l) = length l.
Proof. revert i; induction l as [|y r IH]; intros [|i]; cbn; auto. Qed.

Lemma nth_error_set_nth_eq {A} (i : nat) (x : A) (l : list A) :
  i < length l -> nth_error (set_nth i x l) i = Some x.
Proof.
  revert i; induction l as [|y r IH]; intros [|i] Hlt; cbn in *; try lia; auto.
  apply IH; lia.
Qed.

Lemma nth_error_set_nth_neq {A} (i j : nat) (x : A) (l : list A) :
  i <> j -> nth_error (set_nth i x l) j = nth_error l j.
Proof.
  revert i j; induction l as [|y r IH]; intros [|i] [|j] Hne; cbn; auto; try congruence.
Qed.

Lemma nth_error_lt {A} (l : list A) i x : nth_error l i = Some x -> i < length l.
Proof. intros H. apply nth_error_Some. congruence. Qed.

Lemma nth_error_set_nth {A} (i j : nat) (x y : A) (l : list A) :
  nth_error (set_nth i x l) j = Some y ->
  (i = j /\ y = x /\ j < length l) \/ (i <> j /\ nth_error l j = Some y).
Proof.
  intros H. destruct (Nat.eq_dec i j) as [->|Hne].
  - left. assert (Hlt : j < length l).
    { apply nth_error_lt in H. now rewrite set_nth_length in H. }
    rewrite nth_error_set_nth_eq in H by exact Hlt. injection H as <-. auto.
  - right. rewrite nth_error_set_nth_neq in H by exact Hne. auto.
Qed.

Lemma NoDup_app_singleton {A} (l : list A) x : NoDup l -> ~ In x l -> NoDup (l ++ [x]).
Proof.
  intros Hn Hx. induction Hn as [|y r Hy Hr IH]; cbn.
  - constructor; [intros []|constructor].
  - constructor.
    + rewrite in_app_iff. cbn. intros [H|[H|[]]]; [auto|]. subst. apply Hx. now left.
    + apply IH. intros H. apply Hx. now right.
Qed.

Lemma NoDup_app_l {A} (l r : list A) : NoDup (l ++ r) -> NoDup l.
Proof.
  induction l as [|x l IH]; cbn; intros H; [constructor|]. inversion H as [|? ? Hx Hn]; subst.
  constructor; [|auto]. intros Hin. apply Hx. apply in_or_app. now left.
Qed.

Lemma nth_error_map_some {A B} (f : A -> B) l i y :
  nth_error (map f l) i = Some y -> exists x, nth_error l i = Some x /\ y = f x.
Proof.
  revert i; induction l as [|a r IH]; intros [|i] H; cbn in *; try discriminate.
  - injection H as <-. eauto.
  - eauto.
Qed.

(* ------------------------------------------------------------------------------------------ *)

Definition b2n (b : bool) : nat := if b then 1 else 0.

(* number of items whose CAS has succeeded *)
Definition pushed (p : ppc) : nat := match p with PLoad j => j | PCas j _ => j end.

(* the consumer's program counter agrees with the operation at the head of the script *)
Definition pc_ok (s : st) : Prop :=
  match cons s with
  | CStart => True
  | CXchg => exists rest, script s = OpDeq :: rest \/ script s = OpInactiveOrDeq :: rest
  | CMarkCas b => exists rest, script s = (if b then OpInactiveOrDeq else OpTryInactive) :: rest
  end.

Record Inv (a0 : bool) (s : st) : Prop := {
  Q_ina : inactive s = true -> stack s = [] /\ cons s = CStart;
  Q_fifo : enq s = delivered s ++ rev (stack s);
  Q_nodup : NoDup (enq s);
  Q_mem : forall p j, In (p, j) (enq s) <->
            exists i n pc, p = S i /\ nth_error (prods s) i = Some (n, pc) /\ j < pushed pc;
  Q_bound : forall i n pc, nth_error (prods s) i = Some (n, pc) ->
            pushed pc <= n /\ (forall j o, pc = PCas j o -> j < n);
  Q_count : marks s + b2n (negb a0) = wakes s + actives s + b2n (inactive s);
  Q_xchg : cons s = CXchg -> stack s <> [];
  Q_pc : pc_ok s;
  Q_final : finalph s = true ->
            all_prods_done s = true /\ inactive s = false /\
            (script s = [OpDeq] \/ (script s = [] /\ stack s = []))
}.

Lemma inv_init a0 counts ops : Inv a0 (init a0 counts ops).
Proof.
  constructor; cbn; try discriminate; auto.
  - constructor.
  - intros p j. split; [intros []|]. intros (i & n & pc & -> & H & Hlt).
    apply nth_error_map_some in H as (x & _ & E). injection E as -> ->. cbn in Hlt. lia.
  - intros i n pc H. apply nth_error_map_some in H as (x & _ & E). injection E as -> ->. cbn.
    split; [lia|]. intros; discriminate.
Qed.

Ltac inv_simpl :=
  unfold nprods, all_prods_done, pc_ok in *;
  cbn [inactive stack script cons prods enq delivered wakes marks actives finalph
       set_head set_cons set_prod add_enq add_delivered add_mark add_active set_final] in *;
  rewrite ?set_nth_length in *.

Lemma mem_same_pushed (l : list (nat * ppc)) i n pc pc' p j :
  nth_error l i = Some (n, pc) -> pushed pc' = pushed pc ->
  (exists i0 n0 pc0, p = S i0 /\ nth_error (set_nth i (n, pc') l) i0 = Some (n0, pc0) /\ j < pushed pc0) <->
  (exists i0 n0 pc0, p = S i0 /\ nth_error l i0 = Some (n0, pc0) /\ j < pushed pc0).
Proof.
  intros En Hp. assert (Hi : i < length l) by (eapply nth_error_lt; eauto). split.
  - intros (i0 & n0 & pc0 & -> & Hn0 & Hlt).
    apply nth_error_set_nth in Hn0 as [(<- & E & _)|(Hne & Hn0)].
    + injection E as -> ->. exists i, n, pc. rewrite <- Hp. auto.
    + exists i0, n0, pc0. auto.
  - intros (i0 & n0 & pc0 & -> & Hn0 & Hlt). destruct (Nat.eq_dec i i0) as [<-|Hne].
    + rewrite En in Hn0. injection Hn0 as <- <-. exists i, n, pc'.
      rewrite nth_error_set_nth_eq by exact Hi. rewrite Hp. auto.
    + exists i0, n0, pc0. rewrite nth_error_set_nth_neq by exact Hne. auto.
Qed.

Lemma all_done_nth (l : list (nat * ppc)) i n pc :
  forallb prod_done l = true -> nth_error l i = Some (n, pc) -> exists j, pc = PLoad j /\ n <= j.
Proof.
  rewrite forallb_forall. intros H Hn.
  specialize (H _ (nth_error_In _ _ Hn)). unfold prod_done in H; cbn in H.
  destruct pc; try discriminate. apply Nat.leb_le in H. eauto.
Qed.

Lemma ptr_eqb_refl p : ptr_eqb p p = true.
Proof. destruct p as [| |[a b]]; cbn; auto. unfold item_eqb; cbn. now rewrite !Nat.eqb_refl. Qed.

Lemma step_prod_inv a0 i s s' evs : Inv a0 s -> step_prod i s = Some (s', evs) -> Inv a0 s'.
Proof.
  intros I H. unfold step_prod in H. destruct I.
  destruct (nth_error (prods s) i) as [[n pc]|] eqn:En; [|discriminate].
  assert (Hi : i < length (prods s)) by (eapply nth_error_lt; eauto).
  destruct pc as [j|j old].
  - (* PLoad *)
    destruct (Nat.ltb_spec j n) as [Hj|]; [|discriminate]. injection H as <- <-.
    constructor; inv_simpl; auto.
    + intros p j0. rewrite Q_mem0. symmetry. eapply mem_same_pushed; eauto.
    + intros i0 n0 pc0 Hn0. apply nth_error_set_nth in Hn0 as [(<- & E & _)|(Hne & Hn0)]; [|eauto].
      injection E as -> ->. cbn. split; [lia|]. intros j1 o E; injection E as <- _. exact Hj.
    + intros Hf. exfalso. destruct (Q_final0 Hf) as [Hd _].
      destruct (all_done_nth _ _ _ _ Hd En) as (j' & E & Hle). injection E as <-. lia.
  - (* PCas *)
    destruct (Q_bound0 _ _ _ En) as [Hb Hlt]. specialize (Hlt j old eq_refl). cbn in Hb.
    assert (Hnf : finalph s = false).
    { destruct (finalph s) eqn:Hf; [|reflexivity]. exfalso. destruct (Q_final0 eq_refl) as [Hd _].
      destruct (all_done_nth _ _ _ _ Hd En) as (j' & E & _). discriminate. }
    destruct (ptr_eqb (head_ptr s) old) eqn:Ecas; injection H as <- <-.
    + (* success *)
      assert (Hfresh : ~ In (S i, j) (enq s)).
      { intros Hin. apply Q_mem0 in Hin as (i0 & n0 & pc0 & E & Hn0 & Hl). injection E as <-.
        rewrite En in Hn0. injection Hn0 as <- <-. cbn in Hl. lia. }
      constructor; inv_simpl; try discriminate.
      * rewrite Q_fifo0. destruct (inactive s) eqn:Ei.
        -- destruct (Q_ina0 eq_refl) as [-> _]. cbn. now rewrite app_nil_r.
        -- cbn. now rewrite app_assoc.
      * apply NoDup_app_singleton; auto.
      * intros p j0. rewrite in_app_iff, Q_mem0. cbn [In]. split.
        -- intros [(i0 & n0 & pc0 & -> & Hn0 & Hl)|[E|[]]].
           ++ destruct (Nat.eq_dec i i0) as [<-|Hne].
              ** rewrite En in Hn0. injection Hn0 as <- <-. cbn in Hl.
                 exists i, n, (PLoad (S j)). rewrite nth_error_set_nth_eq by exact Hi.
                 repeat split; auto; cbn; lia.
              ** exists i0, n0, pc0. rewrite nth_error_set_nth_neq by exact Hne. auto.
           ++ injection E as <- <-. exists i, n, (PLoad (S j)).
              rewrite nth_error_set_nth_eq by exact Hi. repeat split; auto; cbn; lia.
        -- intros (i0 & n0 & pc0 & -> & Hn0 & Hl).
           apply nth_error_set_nth in Hn0 as [(<- & E & _)|(Hne & Hn0)].
           ++ injection E as -> ->. cbn in Hl.
              destruct (Nat.eq_dec j0 j) as [->|Hj]; [right; left; reflexivity|].
              left. exists i, n, (PCas j old). repeat split; auto; cbn; lia.
           ++ left. exists i0, n0, pc0. auto.
      * intros i0 n0 pc0 Hn0. apply nth_error_set_nth in Hn0 as [(<- & E & _)|(Hne & Hn0)]; [|eauto].
        injection E as -> ->. cbn. split; [lia|]. intros; discriminate.
      * destruct (inactive s); cbn in *; lia.
      * exact Q_pc0.
      * rewrite Hnf. discriminate.
    + (* failure: retry with the value seen *)
      constructor; inv_simpl; auto.
      * intros p j0. rewrite Q_mem0. symmetry. eapply mem_same_pushed; eauto.
      * intros i0 n0 pc0 Hn0. apply nth_error_set_nth in Hn0 as [(<- & E & _)|(Hne & Hn0)]; [|eauto].
        injection E as -> ->. cbn. split; [lia|]. intros j1 o E; injection E as <- _. exact Hlt.
      * rewrite Hnf. discriminate.
Qed.

Lemma do_mark_active_inv a0 s ops' :
  Inv a0 s -> cons s = CStart -> finalph s = false -> Inv a0 (fst (do_mark_active s ops')).
Proof.
  intros I Hc Hnf. destruct I. unfold do_mark_active. destruct (inactive s) eqn:Ei; cbn [fst].
  - destruct (Q_ina0 eq_refl) as [Hs _].
    constructor; inv_simpl; rewrite ?Hs, ?Hnf in *; try discriminate; auto; try (cbn in *; lia).
  - constructor; inv_simpl; rewrite ?Ei, ?Hnf; try discriminate; auto; try (cbn in *; lia).
    all: try (rewrite Hc in Q_xchg0; exact Q_xchg0).
Qed.

Lemma do_mark_active_active s ops' : inactive (fst (do_mark_active s ops')) = false.
Proof. unfold do_mark_active. destruct (inactive s) eqn:Ei; cbn; auto. Qed.

Lemma do_mark_active_same s ops' :
  let s1 := fst (do_mark_active s ops') in
  prods s1 = prods s /\ script s1 = ops' /\ cons s1 = CStart /\ finalph s1 = finalph s /\
  (inactive s = false -> stack s1 = stack s).
Proof. unfold do_mark_active. destruct (inactive s); cbn; repeat split; auto; discriminate. Qed.

Ltac fin := try discriminate; eauto; try (cbn in *; lia).

(* in the final phase only [OpDeq] (or nothing) is left of the script *)
Lemma final_script a0 s op rest :
  Inv a0 s -> script s = op :: rest -> op <> OpDeq -> finalph s = false.
Proof.
  intros I Es Hop. destruct (finalph s) eqn:Hf; [|reflexivity]. exfalso.
  destruct (Q_final a0 s I Hf) as (_ & _ & [E|[E _]]); rewrite Es in E; [|discriminate].
  injection E as -> _. auto.
Qed.

Lemma step_cons_inv a0 s s' evs : Inv a0 s -> step_cons s = Some (s', evs) -> Inv a0 s'.
Proof.
  intros I H. unfold step_cons in H.
  destruct (script s) as [|op rest] eqn:Es; [discriminate|].
  assert (Hina : cons s <> CStart -> inactive s = false).
  { intros Hc. destruct (inactive s) eqn:Ei; [|reflexivity]. destruct (Q_ina a0 s I Ei). congruence. }
  assert (Hfi : inactive s = true -> finalph s = false).
  { intros Ei. destruct (finalph s) eqn:Hf; [|reflexivity]. destruct (Q_final a0 s I Hf) as (_ & E & _). congruence. }
  destruct (cons s) as [| |b] eqn:Ec.
  - (* CStart *)
    destruct op.
    + (* OpDeq *)
      destruct (inactive s) eqn:Ei.
      { unfold self_wake in H. destruct (all_prods_done s); [|discriminate].
        injection H as <- <-. apply do_mark_active_inv; auto. }
      destruct I. destruct (stack s) as [|x r] eqn:Est; injection H as <- <-.
      * constructor; inv_simpl; rewrite ?Ei, ?Est, ?Es in *; fin.
