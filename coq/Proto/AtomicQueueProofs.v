(* Proofs about the E1 model AtomicQueue (Proto/AtomicQueueDefs.v): atomic_intrusive_queue.
   For an arbitrary number of producers and items, an arbitrary consumer script, both initial
   states and an arbitrary schedule: nothing is lost or duplicated, the batches handed to the
   consumer concatenate to a prefix of the order of the successful enqueue CASes (FIFO restored
   by make_reversed), and the number of enqueue() calls that returned "consumer was inactive"
   balances the number of successful try_mark_inactive exactly. *)
From Coq Require Import List Bool Arith Lia.
From V Require Import Base.Sched Proto.AtomicQueueDefs.
Import ListNotations.
Import AtomicQueue.

(* ------------------------------------------------------------------------------------------ *)
(* list helpers                                                                               *)

Lemma set_nth_length {A} (i : nat) (x : A) (l : list A) : length (set_nth i x l) = length l.
Proof. revert i; induction l as [|y r IH]; intros [|i]; cbn; auto. Qed.

Lemma nth_error_set_nth_eq {A} (i : nat) (x : A) (l : list A) :
  i < length l -> nth_error (set_nth i x l) i = Some x.
Proof.
  revert i; induction l as [|y r IH]; intros [|i] Hlt; cbn in *; try lia; auto.
  apply IH; lia.
Qed.

Lemma nth_error_set_nth_neq {A} (i j : nat) (x : A) (l : list A) :
  i <> j -> nth_error (set_nth i x l) j = nth_error l j.
Proof.
  revert i j; induction l as [|y r IH]; intros [|i] [|j] Hne; cbn; auto; try congruence.
Qed.

Lemma nth_error_lt {A} (l : list A) i x : nth_error l i = Some x -> i < length l.
Proof. intros H. apply nth_error_Some. congruence. Qed.

Lemma nth_error_set_nth {A} (i j : nat) (x y : A) (l : list A) :
  nth_error (set_nth i x l) j = Some y ->
  (i = j /\ y = x /\ j < length l) \/ (i <> j /\ nth_error l j = Some y).
Proof.
  intros H. destruct (Nat.eq_dec i j) as [->|Hne].
  - left. assert (Hlt : j < length l).
    { apply nth_error_lt in H. now rewrite set_nth_length in H. }
    rewrite nth_error_set_nth_eq in H by exact Hlt. injection H as <-. auto.
  - right. rewrite nth_error_set_nth_neq in H by exact Hne. auto.
Qed.

Lemma NoDup_app_singleton {A} (l : list A) x : NoDup l -> ~ In x l -> NoDup (l ++ [x]).
Proof.
  intros Hn Hx. induction Hn as [|y r Hy Hr IH]; cbn.
  - constructor; [intros []|constructor].
  - constructor.
    + rewrite in_app_iff. cbn. intros [H|[H|[]]]; [auto|]. subst. apply Hx. now left.
    + apply IH. intros H. apply Hx. now right.
Qed.

Lemma NoDup_app_l {A} (l r : list A) : NoDup (l ++ r) -> NoDup l.
Proof.
  induction l as [|x l IH]; cbn; intros H; [constructor|]. inversion H as [|? ? Hx Hn]; subst.
  constructor; [|auto]. intros Hin. apply Hx. apply in_or_app. now left.
Qed.

Lemma nth_error_map_some {A B} (f : A -> B) l i y :
  nth_error (map f l) i = Some y -> exists x, nth_error l i = Some x /\ y = f x.
Proof.
  revert i; induction l as [|a r IH]; intros [|i] H; cbn in *; try discriminate.
  - injection H as <-. eauto.
  - eauto.
Qed.

(* ------------------------------------------------------------------------------------------ *)

Definition b2n (b : bool) : nat := if b then 1 else 0.

(* number of items whose CAS has succeeded *)
Definition pushed (p : ppc) : nat := match p with PLoad j | PCas j _ | POLoad j | POCas j _ => j end.

(* the consumer's program counter agrees with the operation at the head of the script *)
Definition pc_ok (s : st) : Prop :=
  match cons s with
  | CStart => True
  | CXchg => exists rest, script s = OpDeq :: rest \/ script s = OpInactiveOrDeq :: rest \/ script s = OpDeqRev :: rest
  | CMarkCas b => exists rest, script s = (if b then OpInactiveOrDeq else OpTryInactive) :: rest
  end.

Record Inv (a0 : bool) (s : st) : Prop := {
  Q_ina : inactive s = true -> stack s = [] /\ cons s = CStart;
  Q_fifo : enq s = delivered s ++ rev (stack s);
  Q_nodup : NoDup (enq s);
  Q_mem : forall p j, In (p, j) (enq s) <->
            exists i n pc, p = S i /\ nth_error (prods s) i = Some (n, pc) /\ j < pushed pc;
  Q_bound : forall i n pc, nth_error (prods s) i = Some (n, pc) ->
            pushed pc <= n /\ (forall j o, pc = PCas j o \/ pc = POCas j o -> j < n);
  Q_count : marks s + b2n (negb a0) = wakes s + actives s + b2n (inactive s);
  Q_xchg : cons s = CXchg -> stack s <> [];
  Q_pc : pc_ok s;
  Q_final : finalph s = true ->
            all_prods_done s = true /\ inactive s = false /\
            (script s = [OpDeq] \/ (script s = [] /\ stack s = []))
}.

Lemma mkprods_nth counts kinds i n pc :
  nth_error (mkprods counts kinds) i = Some (n, pc) -> pc = PLoad 0 \/ pc = POLoad 0.
Proof.
  revert kinds i; induction counts as [|c r IH]; intros kinds [|i] H; cbn in *; try discriminate.
  - injection H as _ <-. destruct (hd false kinds); auto.
  - eauto.
Qed.

Lemma mkprods_fst counts kinds : map fst (mkprods counts kinds) = counts.
Proof. revert kinds; induction counts as [|c r IH]; intros kinds; cbn; [reflexivity|]. now rewrite IH. Qed.

Lemma inv_init a0 counts kinds ops : Inv a0 (init a0 counts kinds ops).
Proof.
  constructor; cbn; try discriminate; auto.
  - constructor.
  - intros p j. split; [intros []|]. intros (i & n & pc & -> & H & Hlt).
    apply mkprods_nth in H as [->| ->]; cbn in Hlt; lia.
  - intros i n pc H. apply mkprods_nth in H as [->| ->]; cbn; (split; [lia|]); intros j o [E|E]; discriminate.
Qed.

Ltac inv_simpl :=
  unfold nprods, all_prods_done, pc_ok in *;
  cbn [inactive stack script cons prods enq delivered wakes marks actives finalph
       set_head set_cons set_prod add_enq add_delivered add_mark add_active set_final] in *;
  rewrite ?set_nth_length in *.

Lemma mem_same_pushed (l : list (nat * ppc)) i n pc pc' p j :
  nth_error l i = Some (n, pc) -> pushed pc' = pushed pc ->
  (exists i0 n0 pc0, p = S i0 /\ nth_error (set_nth i (n, pc') l) i0 = Some (n0, pc0) /\ j < pushed pc0) <->
  (exists i0 n0 pc0, p = S i0 /\ nth_error l i0 = Some (n0, pc0) /\ j < pushed pc0).
Proof.
  intros En Hp. assert (Hi : i < length l) by (eapply nth_error_lt; eauto). split.
  - intros (i0 & n0 & pc0 & -> & Hn0 & Hlt).
    apply nth_error_set_nth in Hn0 as [(<- & E & _)|(Hne & Hn0)].
    + injection E as -> ->. exists i, n, pc. rewrite <- Hp. auto.
    + exists i0, n0, pc0. auto.
  - intros (i0 & n0 & pc0 & -> & Hn0 & Hlt). destruct (Nat.eq_dec i i0) as [<-|Hne].
    + rewrite En in Hn0. injection Hn0 as <- <-. exists i, n, pc'.
      rewrite nth_error_set_nth_eq by exact Hi. rewrite Hp. auto.
    + exists i0, n0, pc0. rewrite nth_error_set_nth_neq by exact Hne. auto.
Qed.

Lemma all_done_nth (l : list (nat * ppc)) i n pc :
  forallb prod_done l = true -> nth_error l i = Some (n, pc) ->
  exists j, (pc = PLoad j \/ pc = POLoad j) /\ n <= j.
Proof.
  rewrite forallb_forall. intros H Hn.
  specialize (H _ (nth_error_In _ _ Hn)). unfold prod_done in H; cbn in H.
  destruct pc; try discriminate; apply Nat.leb_le in H; eauto.
Qed.

Lemma ptr_eqb_refl p : ptr_eqb p p = true.
Proof. destruct p as [| |[a b]]; cbn; auto. unfold item_eqb; cbn. now rewrite !Nat.eqb_refl. Qed.

(* a producer's load: its pc becomes the CAS pc of the same item *)
Lemma prod_load_inv a0 i s n pc pc' j :
  Inv a0 s -> nth_error (prods s) i = Some (n, pc) -> (pc = PLoad j \/ pc = POLoad j) -> j < n ->
  (exists o, pc' = PCas j o \/ pc' = POCas j o) ->
  Inv a0 (set_prod s i (n, pc')).
Proof.
  intros I En Hpc Hj (o & Hpc'). destruct I.
  assert (Hp : pushed pc' = pushed pc) by (destruct Hpc as [->| ->], Hpc' as [->| ->]; reflexivity).
  constructor; inv_simpl; auto.
  - intros p j0. rewrite Q_mem0. symmetry. eapply mem_same_pushed; eauto.
  - intros i0 n0 pc0 Hn0. apply nth_error_set_nth in Hn0 as [(<- & E & _)|(Hne & Hn0)]; [|eauto].
    injection E as -> ->. destruct Hpc' as [->| ->]; cbn; (split; [lia|]);
      intros j1 o1 [E|E]; try discriminate; injection E as <- _; exact Hj.
  - intros Hf. exfalso. destruct (Q_final0 Hf) as [Hd _].
    destruct (all_done_nth _ _ _ _ Hd En) as (j' & [E|E] & Hle); destruct Hpc as [->| ->]; try discriminate;
      injection E as <-; lia.
Qed.

(* a failed CAS: retry with the value seen *)
Lemma prod_fail_inv a0 i s n pc pc' j :
  Inv a0 s -> nth_error (prods s) i = Some (n, pc) ->
  (exists o o', (pc = PCas j o /\ pc' = PCas j o') \/ (pc = POCas j o /\ pc' = POCas j o')) ->
  Inv a0 (set_prod s i (n, pc')).
Proof.
  intros I En (o & o' & Hpc). destruct I.
  assert (Hp : pushed pc' = pushed pc) by (destruct Hpc as [[-> ->]|[-> ->]]; reflexivity).
  destruct (Q_bound0 _ _ _ En) as [Hb Hlt].
  assert (Hj : j < n) by (destruct Hpc as [[-> _]|[-> _]]; eapply Hlt; eauto).
  constructor; inv_simpl; auto.
  - intros p j0. rewrite Q_mem0. symmetry. eapply mem_same_pushed; eauto.
  - intros i0 n0 pc0 Hn0. apply nth_error_set_nth in Hn0 as [(<- & E & _)|(Hne & Hn0)]; [|eauto].
    injection E as -> ->. destruct Hpc as [[_ ->]|[_ ->]]; cbn; (split; [lia|]);
      intros j1 o1 [E|E]; try discriminate; injection E as <- _; exact Hj.
  - intros Hf. exfalso. destruct (Q_final0 Hf) as [Hd _].
    destruct (all_done_nth _ _ _ _ Hd En) as (j' & [E|E] & _); destruct Hpc as [[-> _]|[-> _]]; discriminate.
Qed.

(* a successful CAS links the item in (re-activating the queue if it replaced the marker) *)
Lemma prod_push_inv a0 i s n pc pc' j :
  Inv a0 s -> nth_error (prods s) i = Some (n, pc) ->
  (exists o, pc = PCas j o \/ pc = POCas j o) -> (pc' = PLoad (S j) \/ pc' = POLoad (S j)) ->
  Inv a0 (set_prod (add_enq (set_head s false ((S i, j) :: (if inactive s then [] else stack s))) (S i, j) (inactive s)) i (n, pc')).
Proof.
  intros I En (o & Hpc) Hpc'. destruct I.
  assert (Hi : i < length (prods s)) by (eapply nth_error_lt; eauto).
  destruct (Q_bound0 _ _ _ En) as [Hb Hlt].
  assert (Hj : j < n) by (destruct Hpc as [->| ->]; eapply Hlt; eauto).
  assert (Hpu : pushed pc = j) by (destruct Hpc as [->| ->]; reflexivity).
  assert (Hpu' : pushed pc' = S j) by (destruct Hpc' as [->| ->]; reflexivity).
  assert (Hnf : finalph s = false).
  { destruct (finalph s) eqn:Hf; [|reflexivity]. exfalso. destruct (Q_final0 eq_refl) as [Hd _].
    destruct (all_done_nth _ _ _ _ Hd En) as (j' & [E|E] & _); destruct Hpc as [->| ->]; discriminate. }
  assert (Hfresh : ~ In (S i, j) (enq s)).
  { intros Hin. apply Q_mem0 in Hin as (i0 & n0 & pc0 & E & Hn0 & Hl). injection E as <-.
    rewrite En in Hn0. injection Hn0 as <- <-. lia. }
  constructor; inv_simpl; try discriminate.
  - rewrite Q_fifo0. destruct (inactive s) eqn:Ei.
    + destruct (Q_ina0 eq_refl) as [-> _]. cbn. now rewrite app_nil_r.
    + cbn. now rewrite app_assoc.
  - apply NoDup_app_singleton; auto.
  - intros p j0. rewrite in_app_iff, Q_mem0. cbn [In]. split.
    + intros [(i0 & n0 & pc0 & -> & Hn0 & Hl)|[E|[]]].
      * destruct (Nat.eq_dec i i0) as [<-|Hne].
        -- rewrite En in Hn0. injection Hn0 as <- <-.
           exists i, n, pc'. rewrite nth_error_set_nth_eq by exact Hi. repeat split; auto; lia.
        -- exists i0, n0, pc0. rewrite nth_error_set_nth_neq by exact Hne. auto.
      * injection E as <- <-. exists i, n, pc'.
        rewrite nth_error_set_nth_eq by exact Hi. repeat split; auto; lia.
    + intros (i0 & n0 & pc0 & -> & Hn0 & Hl).
      apply nth_error_set_nth in Hn0 as [(<- & E & _)|(Hne & Hn0)].
      * injection E as -> ->. rewrite Hpu' in Hl.
        destruct (Nat.eq_dec j0 j) as [->|Hj0]; [right; left; reflexivity|].
        left. exists i, n, pc. repeat split; auto; lia.
      * left. exists i0, n0, pc0. auto.
  - intros i0 n0 pc0 Hn0. apply nth_error_set_nth in Hn0 as [(<- & E & _)|(Hne & Hn0)]; [|eauto].
    injection E as -> ->. rewrite Hpu'. split; [lia|]. intros j1 o1 [E|E]; destruct Hpc' as [->| ->]; discriminate.
  - destruct (inactive s); cbn in *; lia.
  - exact Q_pc0.
  - rewrite Hnf. discriminate.
Qed.

(* enqueue_or_mark_active replaces the marker: the queue is active and empty, the item goes
   straight back to the caller (a batch of one) *)
Lemma prod_direct_inv a0 i s n j o :
  Inv a0 s -> nth_error (prods s) i = Some (n, POCas j o) -> inactive s = true ->
  Inv a0 (set_prod (add_delivered (add_enq (set_head s false []) (S i, j) true) [(S i, j)]) i (n, POLoad (S j))).
Proof.
  intros I En Ei. destruct I.
  assert (Hi : i < length (prods s)) by (eapply nth_error_lt; eauto).
  destruct (Q_bound0 _ _ _ En) as [Hb Hlt]. assert (Hj : j < n) by (eapply Hlt; eauto).
  destruct (Q_ina0 Ei) as [Hst Hc].
  assert (Hnf : finalph s = false).
  { destruct (finalph s) eqn:Hf; [|reflexivity]. exfalso. destruct (Q_final0 eq_refl) as [Hd _].
    destruct (all_done_nth _ _ _ _ Hd En) as (j' & [E|E] & _); discriminate. }
  assert (Hfresh : ~ In (S i, j) (enq s)).
  { intros Hin. apply Q_mem0 in Hin as (i0 & n0 & pc0 & E & Hn0 & Hl). injection E as <-.
    rewrite En in Hn0. injection Hn0 as <- <-. cbn in Hl. lia. }
  constructor; inv_simpl; try discriminate.
  - rewrite Q_fifo0, Hst. cbn. now rewrite !app_nil_r.
  - apply NoDup_app_singleton; auto.
  - intros p j0. rewrite in_app_iff, Q_mem0. cbn [In]. split.
    + intros [(i0 & n0 & pc0 & -> & Hn0 & Hl)|[E|[]]].
      * destruct (Nat.eq_dec i i0) as [<-|Hne].
        -- rewrite En in Hn0. injection Hn0 as <- <-. cbn in Hl.
           exists i, n, (POLoad (S j)). rewrite nth_error_set_nth_eq by exact Hi. repeat split; auto; cbn; lia.
        -- exists i0, n0, pc0. rewrite nth_error_set_nth_neq by exact Hne. auto.
      * injection E as <- <-. exists i, n, (POLoad (S j)).
        rewrite nth_error_set_nth_eq by exact Hi. repeat split; auto; cbn; lia.
    + intros (i0 & n0 & pc0 & -> & Hn0 & Hl).
      apply nth_error_set_nth in Hn0 as [(<- & E & _)|(Hne & Hn0)].
      * injection E as -> ->. cbn in Hl.
        destruct (Nat.eq_dec j0 j) as [->|Hj0]; [right; left; reflexivity|].
        left. exists i, n, (POCas j o). repeat split; auto; cbn; lia.
      * left. exists i0, n0, pc0. auto.
  - intros i0 n0 pc0 Hn0. apply nth_error_set_nth in Hn0 as [(<- & E & _)|(Hne & Hn0)]; [|eauto].
    injection E as -> ->. cbn. split; [lia|]. intros j1 o1 [E|E]; discriminate.
  - rewrite Ei in Q_count0. cbn in *. lia.
  - rewrite Hc. discriminate.
  - rewrite Hc. exact I.
  - rewrite Hnf. discriminate.
Qed.

Lemma step_prod_inv a0 i s s' evs : Inv a0 s -> step_prod i s = Some (s', evs) -> Inv a0 s'.
Proof.
  intros I H. unfold step_prod in H.
  destruct (nth_error (prods s) i) as [[n pc]|] eqn:En; [|discriminate].
  destruct pc as [j|j old|j|j old].
  - destruct (Nat.ltb_spec j n) as [Hj|]; [|discriminate]. injection H as <- <-.
    eapply prod_load_inv; eauto.
  - destruct (ptr_eqb (head_ptr s) old); injection H as <- <-.
    + eapply prod_push_inv; eauto.
    + eapply prod_fail_inv; eauto 6.
  - destruct (Nat.ltb_spec j n) as [Hj|]; [|discriminate]. injection H as <- <-.
    eapply prod_load_inv; eauto.
  - destruct (ptr_eqb (head_ptr s) old); [destruct (inactive s) eqn:Ei|]; injection H as <- <-.
    + eapply prod_direct_inv; eauto.
    + pose proof (prod_push_inv a0 i s n (POCas j old) (POLoad (S j)) j I En) as P.
      rewrite Ei in P. apply P; eauto.
    + eapply prod_fail_inv; eauto 6.
Qed.

Lemma do_mark_active_inv a0 s ops' :
  Inv a0 s -> cons s = CStart -> finalph s = false -> Inv a0 (fst (do_mark_active s ops')).
Proof.
  intros I Hc Hnf. destruct I. unfold do_mark_active. destruct (inactive s) eqn:Ei; cbn [fst].
  - destruct (Q_ina0 eq_refl) as [Hs _].
    constructor; inv_simpl; rewrite ?Hs, ?Hnf in *; try discriminate; auto; try (cbn in *; lia).
  - constructor; inv_simpl; rewrite ?Ei, ?Hnf; try discriminate; auto; try (cbn in *; lia).
    all: try (rewrite Hc in Q_xchg0; exact Q_xchg0).
Qed.

Lemma do_mark_active_active s ops' : inactive (fst (do_mark_active s ops')) = false.
Proof. unfold do_mark_active. destruct (inactive s) eqn:Ei; cbn; auto. Qed.

Lemma do_mark_active_same s ops' :
  let s1 := fst (do_mark_active s ops') in
  prods s1 = prods s /\ script s1 = ops' /\ cons s1 = CStart /\ finalph s1 = finalph s /\
  (inactive s = false -> stack s1 = stack s).
Proof. unfold do_mark_active. destruct (inactive s); cbn; repeat split; auto; discriminate. Qed.

Ltac fin := try discriminate; eauto; try (cbn in *; lia).

(* in the final phase only [OpDeq] (or nothing) is left of the script *)
Lemma final_script a0 s op rest :
  Inv a0 s -> script s = op :: rest -> op <> OpDeq -> finalph s = false.
Proof.
  intros I Es Hop. destruct (finalph s) eqn:Hf; [|reflexivity]. exfalso.
  destruct (Q_final a0 s I Hf) as (_ & _ & [E|[E _]]); rewrite Es in E; [|discriminate].
  injection E as -> _. auto.
Qed.

Ltac qfin Q :=
  let Hf := fresh "Hf" in let E := fresh "E" in
  intros Hf; destruct (Q Hf) as (? & ? & [E|[E ?]]); try discriminate;
  try (injection E as E; subst); try discriminate; auto 6.

Lemma step_cons_inv a0 s s' evs : Inv a0 s -> step_cons s = Some (s', evs) -> Inv a0 s'.
Proof.
  intros I H. unfold step_cons in H.
  destruct (script s) as [|op rest] eqn:Es; [discriminate|].
  assert (Hina : cons s <> CStart -> inactive s = false).
  { intros Hc. destruct (inactive s) eqn:Ei; [|reflexivity]. destruct (Q_ina a0 s I Ei). congruence. }
  assert (Hfi : inactive s = true -> finalph s = false).
  { intros Ei. destruct (finalph s) eqn:Hf; [|reflexivity]. destruct (Q_final a0 s I Hf) as (_ & E & _). congruence. }
  destruct (cons s) as [| |b] eqn:Ec.
  - (* CStart *)
    destruct op.
    + (* OpDeq *)
      destruct (inactive s) eqn:Ei.
      { unfold self_wake in H. destruct (all_prods_done s); [|discriminate].
        injection H as H. replace s' with (fst (do_mark_active s (OpDeq :: rest))) by (now rewrite H).
        apply do_mark_active_inv; auto. }
      destruct I. destruct (stack s) as [|x r] eqn:Est; injection H as <- <-.
      * constructor; inv_simpl; rewrite ?Ei, ?Est, ?Es in *; fin. qfin Q_final0.
      * constructor; inv_simpl; rewrite ?Ei, ?Est, ?Es in *; fin.
    + (* OpDeqRev *)
      assert (Hnf : finalph s = false) by (eapply final_script; eauto; discriminate).
      destruct (inactive s) eqn:Ei.
      { unfold self_wake in H. destruct (all_prods_done s); [|discriminate].
        injection H as H. replace s' with (fst (do_mark_active s (OpDeqRev :: rest))) by (now rewrite H).
        apply do_mark_active_inv; auto. }
      destruct I. destruct (stack s) as [|x r] eqn:Est; injection H as <- <-.
      * constructor; inv_simpl; rewrite ?Ei, ?Est, ?Es, ?Hnf in *; fin.
      * constructor; inv_simpl; rewrite ?Ei, ?Est, ?Es, ?Hnf in *; fin.
    + (* OpTryInactive *)
      assert (Hnf : finalph s = false) by (eapply final_script; eauto; discriminate).
      destruct (inactive s) eqn:Ei.
      { unfold self_wake in H. destruct (all_prods_done s); [|discriminate].
        injection H as H. replace s' with (fst (do_mark_active s (OpTryInactive :: rest))) by (now rewrite H).
        apply do_mark_active_inv; auto. }
      destruct I. destruct (stack s) as [|x r] eqn:Est; injection H as <- <-.
      * constructor; inv_simpl; rewrite ?Ei, ?Est, ?Es, ?Hnf in *; fin.
      * constructor; inv_simpl; rewrite ?Ei, ?Est, ?Es, ?Hnf in *; fin.
    + (* OpInactiveOrDeq *)
      assert (Hnf : finalph s = false) by (eapply final_script; eauto; discriminate).
      destruct (inactive s) eqn:Ei.
      { unfold self_wake in H. destruct (all_prods_done s); [|discriminate].
        injection H as H. replace s' with (fst (do_mark_active s (OpInactiveOrDeq :: rest))) by (now rewrite H).
        apply do_mark_active_inv; auto. }
      destruct I. destruct (stack s) as [|x r] eqn:Est; injection H as <- <-.
      * constructor; inv_simpl; rewrite ?Ei, ?Est, ?Es, ?Hnf in *; fin.
      * constructor; inv_simpl; rewrite ?Ei, ?Est, ?Es, ?Hnf in *; fin.
    + (* OpTryActive *)
      assert (Hnf : finalph s = false) by (eapply final_script; eauto; discriminate).
      injection H as H. replace s' with (fst (do_mark_active s rest)) by (now rewrite H).
      apply do_mark_active_inv; auto.
    + (* OpFinal *)
      assert (Hnf : finalph s = false) by (eapply final_script; eauto; discriminate).
      destruct (all_prods_done s) eqn:Ed; [|discriminate].
      pose proof (do_mark_active_inv a0 s [OpDeq] I Ec Hnf) as I1.
      pose proof (do_mark_active_active s [OpDeq]) as A1.
      destruct (do_mark_active_same s [OpDeq]) as (P1 & S1 & C1 & F1 & K1).
      destruct (do_mark_active s [OpDeq]) as [s1 e1]. cbn [fst] in *.
      injection H as <- <-. destruct I1.
      constructor; inv_simpl; fin. intros _. rewrite P1. auto.
  - (* CXchg *)
    injection H as <- <-. specialize (Hina ltac:(discriminate)). destruct I. unfold do_xchg.
    constructor; inv_simpl; rewrite ?Hina, ?Es in *; fin.
    + rewrite Q_fifo0. cbn. now rewrite app_nil_r.
    + qfin Q_final0.
  - (* CMarkCas *)
    specialize (Hina ltac:(discriminate)).
    assert (Hop : op = if b then OpInactiveOrDeq else OpTryInactive).
    { pose proof (Q_pc a0 s I) as Hpc. unfold pc_ok in Hpc. rewrite Ec in Hpc.
      destruct Hpc as [r' Hr']. rewrite Es in Hr'. now injection Hr' as -> _. }
    assert (Hnf : finalph s = false).
    { eapply final_script; eauto. rewrite Hop. destruct b; discriminate. }
    subst op. destruct I.
    destruct (stack s) as [|x r] eqn:Est.
    + injection H as <- <-.
      constructor; inv_simpl; rewrite ?Est, ?Hina, ?Hnf, ?Es in *; fin.
    + destruct b; injection H as <- <-.
      * constructor; inv_simpl; rewrite ?Est, ?Hina, ?Hnf, ?Es in *; fin.
      * constructor; inv_simpl; rewrite ?Est, ?Hina, ?Hnf, ?Es in *; fin.
Qed.

Lemma step_inv a0 t s s' evs : Inv a0 s -> step t s = Some (s', evs) -> Inv a0 s'.
Proof.
  intros I H. unfold step in H.
  destruct (Nat.eqb t 0); [eapply step_cons_inv; eauto|].
  destruct (Nat.leb t (nprods s)); [eapply step_prod_inv; eauto|discriminate].
Qed.

Theorem inv_reachable a0 counts kinds ops (sched : list nat) :
  Inv a0 (fst (run step sched (init a0 counts kinds ops, []))).
Proof.
  apply (run_invariant_state _ _ _ step (Inv a0)).
  - intros s t s' ev. apply step_inv.
  - apply inv_init.
Qed.

(* ------------------------------------------------------------------------------------------ *)
(* the script ends with the final drain                                                        *)

Definition tail_final (l : list cop) : Prop := exists pre, l = pre ++ [OpFinal].

Lemma tail_final_cons op rest : tail_final (op :: rest) -> op <> OpFinal -> tail_final rest.
Proof.
  intros [[|p pre] E] Hop; cbn in E; injection E as -> E; [congruence|]. subst. now exists pre.
Qed.

Definition FInv (s : st) : Prop := finalph s = false -> tail_final (script s).

Lemma do_mark_active_script s ops' : script (fst (do_mark_active s ops')) = ops' /\
  finalph (fst (do_mark_active s ops')) = finalph s.
Proof. unfold do_mark_active. destruct (inactive s); auto. Qed.

Lemma cons_script_step a0 s s' evs :
  Inv a0 s -> step_cons s = Some (s', evs) ->
  finalph s' = true \/
  (finalph s' = finalph s /\
   (script s' = script s \/ exists op, op <> OpFinal /\ script s = op :: script s')).
Proof.
  intros I H. pose proof (Q_pc a0 s I) as Hpc. unfold pc_ok in Hpc.
  unfold step_cons in H. destruct (script s) as [|op rest] eqn:Es; [discriminate|].
  assert (Hsw : forall o, self_wake s o rest = Some (s', evs) ->
                finalph s' = finalph s /\ script s' = o :: rest).
  { intros o Hs. unfold self_wake in Hs. destruct (all_prods_done s); [|discriminate].
    injection Hs as Hs. destruct (do_mark_active_script s (o :: rest)) as [E1 E2].
    rewrite Hs in E1, E2. cbn in *. auto. }
  destruct (cons s) as [| |b].
  - destruct op.
    + destruct (inactive s); [right; destruct (Hsw _ H) as [-> ->]; auto|].
      destruct (stack s); injection H as <- <-; cbn; right; split; auto.
      right. exists OpDeq. split; [discriminate|reflexivity].
    + destruct (inactive s); [right; destruct (Hsw _ H) as [-> ->]; auto|].
      destruct (stack s); injection H as <- <-; cbn; right; split; auto.
      right. exists OpDeqRev. split; [discriminate|reflexivity].
    + destruct (inactive s); [right; destruct (Hsw _ H) as [-> ->]; auto|].
      destruct (stack s); injection H as <- <-; cbn; right; split; auto.
      right. exists OpTryInactive. split; [discriminate|reflexivity].
    + destruct (inactive s); [right; destruct (Hsw _ H) as [-> ->]; auto|].
      destruct (stack s); injection H as <- <-; cbn; right; split; auto.
    + injection H as H. destruct (do_mark_active_script s rest) as [E1 E2]. rewrite H in E1, E2. cbn in *.
      right. split; [exact E2|]. right. exists OpTryActive. split; [discriminate|]. now rewrite E1.
    + destruct (all_prods_done s); [|discriminate].
      destruct (do_mark_active s [OpDeq]) as [s1 e1]. injection H as <- <-. left. reflexivity.
  - injection H as <- <-. unfold do_xchg; cbn. right. split; [reflexivity|]. right.
    destruct Hpc as [r [E|[E|E]]]; injection E as -> ->; eexists; (split; [|reflexivity]); discriminate.
  - destruct Hpc as [r E]. injection E as -> ->.
    destruct b; destruct (stack s); injection H as <- <-; cbn; right; (split; [reflexivity|]);
      first [left; reflexivity | right; eexists; split; [|reflexivity]; discriminate].
Qed.

Lemma step_finv a0 t s s' evs : Inv a0 s -> FInv s -> step t s = Some (s', evs) -> FInv s'.
Proof.
  unfold FInv, step. intros I F H.
  destruct (Nat.eqb t 0).
  - destruct (cons_script_step a0 s s' evs I H) as [Hf|[Hf [E|(op & Hop & E)]]].
    + rewrite Hf. discriminate.
    + rewrite Hf, E. exact F.
    + rewrite Hf. intros Hn. specialize (F Hn). rewrite E in F. eapply tail_final_cons; eauto.
  - destruct (Nat.leb t (nprods s)); [|discriminate]. unfold step_prod in H.
    destruct (nth_error (prods s) (pred t)) as [[n [j|j old|j|j old]]|]; try discriminate.
    + destruct (Nat.ltb j n); [|discriminate]. injection H as <- <-. exact F.
    + destruct (ptr_eqb (head_ptr s) old); injection H as <- <-; exact F.
    + destruct (Nat.ltb j n); [|discriminate]. injection H as <- <-. exact F.
    + destruct (ptr_eqb (head_ptr s) old); [destruct (inactive s)|]; injection H as <- <-; exact F.
Qed.

Theorem finv_reachable a0 counts kinds pre (sched : list nat) :
  let s := fst (run step sched (init a0 counts kinds (pre ++ [OpFinal]), [])) in
  Inv a0 s /\ FInv s.
Proof.
  apply (run_invariant_state _ _ _ step (fun s => Inv a0 s /\ FInv s)).
  - intros s t s' ev [I F] H. split; [eapply step_inv; eauto|eapply step_finv; eauto].
  - split; [apply inv_init|]. intros _. now exists pre.
Qed.

(* ------------------------------------------------------------------------------------------ *)
(* traces                                                                                      *)

Definition enqs (tr : list ev) : list item :=
  flat_map (fun e => match e with EEnqCas _ it true | EOrmCas _ it _ true => [it] | _ => [] end) tr.
(* what the consumer was handed, normalised to enqueue order (a reversed stack is read backwards) *)
Definition batches (tr : list ev) : list item :=
  flat_map (fun e => match e with EBatch b => b | EBatchRev b => rev b | EDirect it => [it] | _ => [] end) tr.
Definition n_marks (tr : list ev) : nat :=
  length (filter (fun e => match e with EMarkInactive _ true => true | _ => false end) tr).
Definition n_wakes (tr : list ev) : nat :=
  length (filter (fun e => match e with EWake _ | EDirect _ => true | _ => false end) tr).
Definition n_actives (tr : list ev) : nat :=
  length (filter (fun e => match e with EMarkActive _ true => true | _ => false end) tr).

Lemma step_ghost t s s' evs :
  step t s = Some (s', evs) ->
  enq s' = enq s ++ enqs evs /\ delivered s' = delivered s ++ batches evs /\
  marks s' = marks s + n_marks evs /\ wakes s' = wakes s + n_wakes evs /\
  actives s' = actives s + n_actives evs.
Proof.
  unfold step. destruct (Nat.eqb t 0).
  - unfold step_cons, self_wake, do_mark_active, do_xchg.
    destruct (script s) as [|op rest]; [discriminate|].
    destruct (cons s) as [| |b]; [destruct op|destruct op|]; try (destruct (all_prods_done s));
      try (destruct (inactive s)); try (destruct (stack s)); try (destruct b);
      try discriminate; intros H; injection H as <- <-; cbn;
      rewrite ?app_nil_r, ?Nat.add_0_r, ?Nat.add_1_r; auto.
  - destruct (Nat.leb t (nprods s)); [|discriminate]. unfold step_prod.
    destruct (nth_error (prods s) (pred t)) as [[n [j|j old|j|j old]]|]; try discriminate.
    + destruct (Nat.ltb j n); [|discriminate]. intros H; injection H as <- <-; cbn.
      rewrite ?app_nil_r, ?Nat.add_0_r; auto.
    + destruct (ptr_eqb (head_ptr s) old); [destruct (inactive s)|]; intros H; injection H as <- <-; cbn;
        rewrite ?app_nil_r, ?Nat.add_0_r, ?Nat.add_1_r; auto.
    + destruct (Nat.ltb j n); [|discriminate]. intros H; injection H as <- <-; cbn.
      rewrite ?app_nil_r, ?Nat.add_0_r; auto.
    + destruct (ptr_eqb (head_ptr s) old); [destruct (inactive s)|]; intros H; injection H as <- <-; cbn;
        rewrite ?app_nil_r, ?Nat.add_0_r, ?Nat.add_1_r; auto.
Qed.

Definition TInv (c : st * list ev) : Prop :=
  enqs (snd c) = enq (fst c) /\ batches (snd c) = delivered (fst c) /\
  n_marks (snd c) = marks (fst c) /\ n_wakes (snd c) = wakes (fst c) /\
  n_actives (snd c) = actives (fst c).

Theorem tinv_reachable a0 counts kinds ops (sched : list nat) :
  TInv (run step sched (init a0 counts kinds ops, [])).
Proof.
  apply (run_invariant _ _ _ step TInv).
  - intros c t s' ev (H1 & H2 & H3 & H4 & H5) H. apply step_ghost in H as (G1 & G2 & G3 & G4 & G5).
    unfold TInv, enqs, batches, n_marks, n_wakes, n_actives in *; cbn [fst snd].
    rewrite !flat_map_app, !filter_app, !app_length, H1, H2, H3, H4, H5, G1, G2, G3, G4, G5. auto.
  - repeat split; reflexivity.
Qed.

(* ------------------------------------------------------------------------------------------ *)
(* theorems                                                                                    *)

Section Reach.
  Variables (a0 : bool) (counts : list nat) (kinds : list bool) (ops : list cop) (sched : list nat).
  Let c := run step sched (init a0 counts kinds ops, []).
  Let s := fst c.
  Let tr := snd c.
  Let HI : Inv a0 s := inv_reachable a0 counts kinds ops sched.
  Let HT : TInv c := tinv_reachable a0 counts kinds ops sched.

  (* nothing lost, nothing duplicated, FIFO: the batches handed to the consumer, concatenated, plus
     what is still chained off head_ (reversed) are exactly the items in the order of their
     successful CAS; no item occurs twice *)
  Theorem fifo_no_loss :
    enqs tr = batches tr ++ rev (stack s) /\ NoDup (enqs tr).
  Proof.
    destruct HT as (H1 & H2 & _). fold tr s in H1, H2. rewrite H1, H2. split.
    - apply (Q_fifo a0 s HI).
    - apply (Q_nodup a0 s HI).
  Qed.

  Theorem batches_nodup : NoDup (batches tr).
  Proof. destruct fifo_no_loss as [E Hn]. rewrite E in Hn. eapply NoDup_app_l; eauto. Qed.

  (* enqueue() returns true to exactly one producer per successful try_mark_inactive (unless the
     consumer re-activated itself with try_mark_active): at every moment
       #successful try_mark_inactive (+1 if the queue started inactive)
         = #enqueue returned true + #successful try_mark_active (+1 if the queue is inactive now) *)
  Theorem enqueue_inactive_unique :
    n_marks tr + b2n (negb a0) = n_wakes tr + n_actives tr + b2n (inactive s).
  Proof.
    destruct HT as (_ & _ & H3 & H4 & H5). fold tr s in H3, H4, H5. rewrite H3, H4, H5.
    apply (Q_count a0 s HI).
  Qed.

  (* while the consumer is marked inactive nothing is chained off head_ and the consumer is between
     operations *)
  Theorem inactive_empty : inactive s = true -> stack s = [] /\ cons s = CStart.
  Proof. apply (Q_ina a0 s HI). Qed.

  Theorem enq_items : forall p j,
    In (p, j) (enqs tr) <->
    exists i n pc, p = S i /\ nth_error (prods s) i = Some (n, pc) /\ j < pushed pc.
  Proof. destruct HT as (H1 & _). fold tr s in H1. rewrite H1. apply (Q_mem a0 s HI). Qed.
End Reach.

Definition counts_of (s : st) : list nat := map fst (prods s).

Lemma map_fst_set_nth (l : list (nat * ppc)) i n pc pc' :
  nth_error l i = Some (n, pc) -> map fst (set_nth i (n, pc') l) = map fst l.
Proof.
  revert i; induction l as [|y r IH]; intros [|i] H; cbn in *; try discriminate.
  - injection H as ->. reflexivity.
  - f_equal. auto.
Qed.

Lemma step_counts t s s' evs : step t s = Some (s', evs) -> counts_of s' = counts_of s.
Proof.
  unfold step, counts_of. destruct (Nat.eqb t 0).
  - unfold step_cons, self_wake, do_mark_active, do_xchg.
    destruct (script s) as [|op rest]; [discriminate|].
    destruct (cons s) as [| |b]; [destruct op|destruct op|]; try (destruct (all_prods_done s));
      try (destruct (inactive s)); try (destruct (stack s)); try (destruct b);
      try discriminate; intros H; injection H as <- <-; reflexivity.
  - destruct (Nat.leb t (nprods s)); [|discriminate]. unfold step_prod.
    destruct (nth_error (prods s) (pred t)) as [[n [j|j old|j|j old]]|] eqn:En; try discriminate.
    + destruct (Nat.ltb j n); [|discriminate]. intros H; injection H as <- <-; cbn.
      eapply map_fst_set_nth; eauto.
    + destruct (ptr_eqb (head_ptr s) old); intros H; injection H as <- <-; cbn;
        eapply map_fst_set_nth; eauto.
    + destruct (Nat.ltb j n); [|discriminate]. intros H; injection H as <- <-; cbn.
      eapply map_fst_set_nth; eauto.
    + destruct (ptr_eqb (head_ptr s) old); [destruct (inactive s)|]; intros H; injection H as <- <-; cbn;
        eapply map_fst_set_nth; eauto.
Qed.

Lemma counts_reachable a0 counts kinds ops (sched : list nat) :
  counts_of (fst (run step sched (init a0 counts kinds ops, []))) = counts.
Proof.
  apply (run_invariant_state _ _ _ step (fun s => counts_of s = counts)).
  - intros s t s' ev H1 H. apply step_counts in H. congruence.
  - unfold counts_of; cbn. apply mkprods_fst.
Qed.

(* a script that ends with the final drain: when everything has finished, every item of every
   producer has been handed to the consumer exactly once, in the order of the successful CASes *)
Theorem final_all_delivered a0 counts kinds pre (sched : list nat) :
  let c := run step sched (init a0 counts kinds (pre ++ [OpFinal]), []) in
  final (fst c) = true ->
  batches (snd c) = enqs (snd c) /\ NoDup (batches (snd c)) /\ stack (fst c) = [] /\
  forall i n j, nth_error counts i = Some n -> j < n -> In (S i, j) (batches (snd c)).
Proof.
  intros c Hf. destruct (finv_reachable a0 counts kinds pre sched) as [HI HF]. fold c in HI, HF.
  set (s := fst c) in *. unfold final in Hf. destruct (script s) eqn:Es; [|discriminate].
  assert (Hph : finalph s = true).
  { destruct (finalph s) eqn:E; [reflexivity|]. exfalso. destruct (HF E) as [p Hp]. rewrite Es in Hp.
    destruct p; discriminate. }
  destruct (Q_final a0 s HI Hph) as (_ & _ & [E|[_ Hst]]); [rewrite Es in E; discriminate|].
  destruct (fifo_no_loss a0 counts kinds (pre ++ [OpFinal]) sched) as [Hfifo Hnd]. fold c s in Hfifo, Hnd.
  rewrite Hst in Hfifo. cbn in Hfifo. rewrite app_nil_r in Hfifo.
  split; [now rewrite Hfifo|]. split; [rewrite <- Hfifo; exact Hnd|]. split; [exact Hst|].
  intros i n j Hn Hj. rewrite <- Hfifo. apply (enq_items a0 counts kinds (pre ++ [OpFinal]) sched).
  fold c s. pose proof (counts_reachable a0 counts kinds (pre ++ [OpFinal]) sched) as Hc. fold c s in Hc.
  rewrite <- Hc in Hn. unfold counts_of in Hn. apply nth_error_map_some in Hn as ([n' pc] & Hn & ->).
  exists i, n', pc. repeat split; auto. cbn in Hj.
  destruct (all_done_nth _ _ _ _ Hf Hn) as (j' & [->| ->] & Hle); cbn; lia.
Qed.

(* enqueue() returns true exactly when its CAS replaced the inactive marker, which re-activates
   the queue; the step is a producer's *)
Theorem wake_iff_cas_from_inactive a0 counts kinds ops (sched1 : list nat) t s' evs it :
  let c1 := run step sched1 (init a0 counts kinds ops, []) in
  step t (fst c1) = Some (s', evs) ->
  (In (EWake it) evs <-> In (EEnqCas PInactive it true) evs) /\
  (In (EWake it) evs -> inactive (fst c1) = true /\ inactive s' = false /\ t = fst it /\
                        evs = [EEnqCas PInactive it true; EWake it]).
Proof.
  intros c1 H. set (s := fst c1) in *. unfold step in H. destruct (Nat.eqb_spec t 0) as [->|Ht].
  - assert (Hno : forall e, In e evs -> match e with EWake _ | EEnqCas _ _ _ => False | _ => True end).
    { unfold step_cons, self_wake, do_mark_active, do_xchg in H.
      destruct (script s) as [|op rest]; [discriminate|].
      destruct (cons s) as [| |b]; [destruct op|destruct op|]; try (destruct (all_prods_done s));
        try (destruct (inactive s)); try (destruct (stack s)); try (destruct b);
        try discriminate; injection H as <- <-; cbn; intros e He;
        repeat (destruct He as [<-|He]; [exact I|]); destruct He. }
    split; [split; intros Hin; destruct (Hno _ Hin)|intros Hin; destruct (Hno _ Hin)].
  - destruct (Nat.leb t (nprods s)); [|discriminate]. unfold step_prod in H.
    destruct t as [|i]; [congruence|]. cbn [pred] in H.
    destruct (nth_error (prods s) i) as [[n [j|j old|j|j old]]|]; try discriminate.
    + destruct (Nat.ltb j n); [|discriminate]. injection H as <- <-. cbn.
      split; [split; intros [E|[]]; discriminate|intros [E|[]]; discriminate].
    + destruct (ptr_eqb (head_ptr s) old) eqn:Ecas; [|injection H as <- <-; cbn;
        split; [split; intros [E|[]]; discriminate|intros [E|[]]; discriminate]].
      unfold head_ptr in *. destruct (inactive s) eqn:Ei; injection H as <- <-; cbn.
      * split.
        -- split; intros [E|[E|[]]]; try discriminate; injection E as <-; auto.
        -- intros [E|[E|[]]]; try discriminate. injection E as <-. auto.
      * split.
        -- split; intros [E|[]]; try discriminate. destruct (stack s); discriminate.
        -- intros [E|[]]; discriminate.
    + destruct (Nat.ltb j n); [|discriminate]. injection H as <- <-. cbn.
      split; [split; intros [E|[]]; discriminate|intros [E|[]]; discriminate].
    + destruct (ptr_eqb (head_ptr s) old); [destruct (inactive s)|]; injection H as <- <-; cbn;
        (split; [split; intros Hin|intros Hin]); repeat (destruct Hin as [Hin|Hin]; try discriminate); destruct Hin.
Qed.

(* enqueue_or_mark_active returns false (item handed back, queue re-activated) exactly when its CAS
   replaced the inactive marker *)
Theorem direct_iff_cas_from_inactive a0 counts kinds ops (sched1 : list nat) t s' evs it :
  let c1 := run step sched1 (init a0 counts kinds ops, []) in
  step t (fst c1) = Some (s', evs) ->
  (In (EDirect it) evs <-> In (EOrmCas PInactive it true true) evs) /\
  (In (EDirect it) evs -> inactive (fst c1) = true /\ inactive s' = false /\ t = fst it /\
                          evs = [EOrmCas PInactive it true true; EDirect it]).
Proof.
  intros c1 H. set (s := fst c1) in *. unfold step in H. destruct (Nat.eqb_spec t 0) as [->|Ht].
  - assert (Hno : forall e, In e evs -> match e with EDirect _ | EOrmCas _ _ _ _ => False | _ => True end).
    { unfold step_cons, self_wake, do_mark_active, do_xchg in H.
      destruct (script s) as [|op rest]; [discriminate|].
      destruct (cons s) as [| |b]; [destruct op|destruct op|]; try (destruct (all_prods_done s));
        try (destruct (inactive s)); try (destruct (stack s)); try (destruct b);
        try discriminate; injection H as <- <-; cbn; intros e He;
        repeat (destruct He as [<-|He]; [exact I|]); destruct He. }
    split; [split; intros Hin; destruct (Hno _ Hin)|intros Hin; destruct (Hno _ Hin)].
  - destruct (Nat.leb t (nprods s)); [|discriminate]. unfold step_prod in H.
    destruct t as [|i]; [congruence|]. cbn [pred] in H.
    destruct (nth_error (prods s) i) as [[n [j|j old|j|j old]]|]; try discriminate.
    + destruct (Nat.ltb j n); [|discriminate]. injection H as <- <-. cbn.
      split; [split; intros [E|[]]; discriminate|intros [E|[]]; discriminate].
    + destruct (ptr_eqb (head_ptr s) old); [destruct (inactive s)|]; injection H as <- <-; cbn;
        (split; [split; intros Hin|intros Hin]); repeat (destruct Hin as [Hin|Hin]; try discriminate); destruct Hin.
    + destruct (Nat.ltb j n); [|discriminate]. injection H as <- <-. cbn.
      split; [split; intros [E|[]]; discriminate|intros [E|[]]; discriminate].
    + destruct (ptr_eqb (head_ptr s) old) eqn:Ecas; [|injection H as <- <-; cbn;
        split; [split; intros [E|[]]; discriminate|intros [E|[]]; discriminate]].
      unfold head_ptr in *. destruct (inactive s) eqn:Ei; injection H as <- <-; cbn.
      * split.
        -- split; intros [E|[E|[]]]; try discriminate; injection E as <-; auto.
        -- intros [E|[E|[]]]; try discriminate. injection E as <-. auto.
      * split.
        -- split; intros [E|[]]; discriminate.
        -- intros [E|[]]; discriminate.
Qed.
