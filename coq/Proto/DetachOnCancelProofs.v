(* Proofs about the E1 model DetachOnCancel (Proto/DetachOnCancelDefs.v).
   The protocol has a fixed set of participants (one child, one stop callback, one owner of the
   receiver), so the model is finite-state for every parameter record; the proofs are by verified
   reachability: [reach p] computes a set of states, the checker [cert] verifies INSIDE Coq that it
   contains the initial state and is closed under [step] for every thread id, and [cert_sound]
   (an ordinary induction over the schedule through Sched.run_invariant_state) shows that every
   state reached by ANY schedule (any length, any thread ids) lies in it.  A property that holds on
   each member of the closed set therefore holds after every schedule.  All 36 parameter records
   (3 child outcomes x nostop/stop/prestop x late/inline x hold) are covered: [all_params_complete].
   This is a complete fixpoint, not a bounded sweep: the closure check is what makes it a proof. *)
From Coq Require Import List Bool Arith Lia.
From V Require Import Base.Sched Proto.DetachOnCancelDefs.
Import ListNotations.
Import DetachOnCancel.

(* ------------------------------------------------------------------------------------------ *)
(* decidable equality, finite sets of states                                                    *)

Definition dl_eq_dec : forall a b : list (outcome * nat), {a = b} + {a <> b}.
Proof. repeat decide equality. Defined.

Definition st_eq_dec : forall a b : st, {a = b} + {a <> b}.
Proof. repeat decide equality. Defined.

Definition memb (s : st) (R : list st) : bool := if in_dec st_eq_dec s R then true else false.

Lemma memb_In s R : memb s R = true <-> In s R.
Proof. unfold memb. destruct (in_dec st_eq_dec s R); split; auto; discriminate. Qed.

Definition tids : list nat := [0; 1; 2; 3].

Definition succs (s : st) : list st :=
  flat_map (fun t => match step t s with Some (s', _) => [s'] | None => [] end) tids.

Lemma step_succs t s s' evs : step t s = Some (s', evs) -> In s' (succs s).
Proof.
  intros H. unfold succs. apply in_flat_map. exists t. split.
  - destruct t as [|[|[|[|t]]]]; cbn; auto. cbn in H. discriminate.
  - rewrite H. left. reflexivity.
Qed.

Fixpoint add_new (seen new cand : list st) : list st * list st :=
  match cand with
  | [] => (seen, new)
  | x :: r => if memb x seen then add_new seen new r else add_new (x :: seen) (x :: new) r
  end.

Fixpoint bfs (fuel : nat) (seen frontier : list st) : list st :=
  match fuel with
  | O => seen
  | S f => match frontier with
           | [] => seen
           | _ => let (seen', new) := add_new seen [] (flat_map succs frontier) in bfs f seen' new
           end
  end.

(* candidate for the reachable set; its adequacy is CHECKED by [closedb], not assumed *)
Definition reach (p : params) : list st := bfs 200 [init p] [init p].

Definition closedb (R : list st) : bool :=
  forallb (fun s => forallb (fun s' => memb s' R) (succs s)) R.

Lemma closedb_step R : closedb R = true ->
  forall s t s' evs, In s R -> step t s = Some (s', evs) -> In s' R.
Proof.
  unfold closedb. intros H s t s' evs Hin Hs.
  rewrite forallb_forall in H. specialize (H s Hin). rewrite forallb_forall in H.
  apply memb_In. apply H. eapply step_succs; eauto.
Qed.

(* the certificate: R contains init, is closed, and P holds on every member *)
Definition cert (p : params) (P : st -> bool) : bool :=
  let R := reach p in memb (init p) R && closedb R && forallb P R.

Lemma cert_sound p P : cert p P = true ->
  forall sched : list nat, P (fst (run step sched (init p, []))) = true.
Proof.
  unfold cert. intros H sched.
  apply andb_true_iff in H as [H HP]. apply andb_true_iff in H as [Hi Hc].
  rewrite forallb_forall in HP. apply HP.
  apply (run_invariant_state st nat ev step (fun s => In s (reach p))).
  - intros s t s' evs Hin Hs. eapply closedb_step; eauto.
  - cbn [fst]. apply memb_In. exact Hi.
Qed.

(* ------------------------------------------------------------------------------------------ *)
(* all parameter records                                                                        *)

Definition all_params : list params :=
  flat_map (fun o => flat_map (fun m => flat_map (fun i => map (fun h =>
    {| p_out := o; p_stop := m; p_inl := i; p_hold := h |}) [false; true]) [false; true])
    [NoStop; Stop; PreStop]) [OVal; OErr; ODone].

Lemma all_params_complete p : In p all_params.
Proof. destruct p as [[] [] [] []]; cbn; tauto. Qed.

Lemma cert_all (P : params -> st -> bool) :
  forallb (fun p => cert p (P p)) all_params = true ->
  forall p (sched : list nat), P p (fst (run step sched (init p, []))) = true.
Proof.
  intros H p sched. rewrite forallb_forall in H. apply cert_sound. apply H, all_params_complete.
Qed.

(* the schedule-independent environment assumption needed for "... at quiescence": a child that
   completes only on seeing the stop, or only after the receiver completed, needs a stop request *)
Definition valid (p : params) : bool :=
  negb (andb (orb (p_inl p) (p_hold p)) (match p_stop p with NoStop => true | _ => false end)).

(* ------------------------------------------------------------------------------------------ *)
(* the properties as boolean predicates on one state                                            *)

Definition P_one (p : params) (s : st) : bool :=
  Nat.leb (length (delivered s)) 1 &&
  implb (valid p && quiescent s) (Nat.eqb (length (delivered s)) 1).

Definition out_eqb (a b : outcome) : bool :=
  match a, b with OVal, OVal | OErr, OErr | ODone, ODone => true | _, _ => false end.

Lemma out_eqb_eq a b : out_eqb a b = true -> a = b.
Proof. destruct a, b; cbn; congruence. Qed.

(* what is delivered and by whom: the child's own result by thread A while the pointer is still
   in parentOp_ (the stop never won), or done by the thread that ran the stop callback, which has
   nulled the pointer *)
Definition P_result (p : params) (s : st) : bool :=
  forallb (fun d : outcome * nat =>
    let (o, t) := d in
    (Nat.eqb t 1 && out_eqb o (p_out p) && wp s) ||
    (negb (Nat.eqb t 1) && Nat.eqb t (cbt s) && out_eqb o ODone && negb (wp s)))
    (delivered s).

Definition P_freed (p : params) (s : st) : bool :=
  Nat.leb (freed s) 1 &&
  implb (valid p && quiescent s) (Nat.eqb (freed s) 1 && opd s && negb (owned s)).

Definition P_late (p : params) (s : st) : bool :=
  Nat.eqb (late s) 0 && negb (underflow s) && Nat.leb (wc s) 2.

Definition torn_down (s : st) : bool :=
  Nat.eqb (cbdtor s) 1 &&
  match reg s with RUnlinked | RRemoved | RInline | RCompleted => true | _ => false end &&
  match cb s with CIdle | CFin => true | _ => false end &&
  match pb s with BCb | BCbRet => false | _ => true end &&
  match p0 s with T0Cb => false | _ => true end.

Definition P_torn (p : params) (s : st) : bool :=
  Nat.leb (cbdtor s) 1 && implb (op_freed s) (torn_down s).

(* the stop callback has won the CAS on parentOp_ and has not yet completed the receiver *)
Definition cb_won (s : st) : bool :=
  match cb s with CReq | CKid _ | CSub | CDereg _ _ => true | _ => false end.

Definition is_some {A} (o : option A) : bool := negb (is_none o).

Definition P_done (p : params) (s : st) : bool :=
  implb (cb_won s)
    (is_some (step (cbt s) s) &&
     (if dl_eq_dec (delivered s) [] then true else false) &&
     (if dl_eq_dec (delivered (fst (run step (repeat (cbt s) 4) (s, [])))) [(ODone, cbt s)]
      then true else false)).

(* at quiescence every thread has run to its end (no thread is left blocked in a wait) *)
Definition P_final (p : params) (s : st) : bool :=
  implb (valid p && quiescent s)
    (match p0 s with T0Fin => true | _ => false end &&
     match pa s with AFin => true | _ => p_inl p end &&
     match pb s with BFin => true | _ => false end &&
     match cb s with CIdle | CFin => true | _ => false end && opd s).

Definition P_all (p : params) (s : st) : bool :=
  P_one p s && P_result p s && P_freed p s && P_late p s && P_torn p s && P_done p s && P_final p s.

(* the one computation: for each of the 36 parameter records, build the state set, check that it
   contains the initial state, that it is closed under every thread's step, and that every
   property holds on every member *)
Lemma certificate : forallb (fun p => cert p (P_all p)) all_params = true.
Proof. vm_compute. reflexivity. Qed.

Lemma all_reachable p (sched : list nat) : P_all p (fst (run step sched (init p, []))) = true.
Proof. apply (cert_all P_all certificate). Qed.

Lemma P_all_split p s : P_all p s = true ->
  P_one p s = true /\ P_result p s = true /\ P_freed p s = true /\ P_late p s = true /\
  P_torn p s = true /\ P_done p s = true /\ P_final p s = true.
Proof.
  unfold P_all. intros H.
  apply andb_true_iff in H as [H H7]. apply andb_true_iff in H as [H H6].
  apply andb_true_iff in H as [H H5]. apply andb_true_iff in H as [H H4].
  apply andb_true_iff in H as [H H3]. apply andb_true_iff in H as [H1 H2].
  repeat split; assumption.
Qed.

(* ------------------------------------------------------------------------------------------ *)
(* the statements, for all parameters and all schedules                                         *)

Section Main.
  Variable p : params.
  Variable sched : list nat.
  Let s := fst (run step sched (init p, [])).

  (* one_completer *)
  Theorem one_completer :
    length (delivered s) <= 1 /\
    (valid p = true -> quiescent s = true -> length (delivered s) = 1).
  Proof.
    destruct (P_all_split _ _ (all_reachable p sched)) as (H1 & H2 & H3 & H4 & H5 & H6 & H7); fold s in H1, H2, H3, H4, H5, H6, H7.
    unfold P_one in H1. apply andb_true_iff in H1 as [Ha Hb]. split.
    - apply Nat.leb_le. exact Ha.
    - intros Hv Hq. rewrite Hv, Hq in Hb. cbn in Hb. apply Nat.eqb_eq. exact Hb.
  Qed.

  (* who delivers what *)
  Theorem result : forall o t, In (o, t) (delivered s) ->
    (t = 1 /\ o = p_out p /\ wp s = true) \/
    (t <> 1 /\ t = cbt s /\ o = ODone /\ wp s = false).
  Proof.
    destruct (P_all_split _ _ (all_reachable p sched)) as (H1 & H2 & H3 & H4 & H5 & H6 & H7); fold s in H1, H2, H3, H4, H5, H6, H7.
    unfold P_result in H2. rewrite forallb_forall in H2.
    intros o t Hin. specialize (H2 _ Hin). cbn in H2.
    apply orb_true_iff in H2 as [Hx|Hx].
    - left. apply andb_true_iff in Hx as [Hx Hw]. apply andb_true_iff in Hx as [Ht Ho].
      apply Nat.eqb_eq in Ht. apply out_eqb_eq in Ho. auto.
    - right. apply andb_true_iff in Hx as [Hx Hw]. apply andb_true_iff in Hx as [Hx Ho].
      apply andb_true_iff in Hx as [Ht Hc]. apply negb_true_iff in Ht, Hw.
      apply Nat.eqb_neq in Ht. apply Nat.eqb_eq in Hc. apply out_eqb_eq in Ho. auto.
  Qed.

  (* done_at_once: once the stop callback has won the CAS on parentOp_ (and until it has
     completed the receiver) the thread running it is enabled, and scheduling that thread ALONE
     four times -- whatever the child and every other thread are doing, in particular with the child
     still running -- completes the receiver, with done, delivered by that thread *)
  Theorem done_at_once : cb_won s = true ->
    (exists s' evs, step (cbt s) s = Some (s', evs)) /\
    delivered s = [] /\
    delivered (fst (run step (repeat (cbt s) 4) (s, []))) = [(ODone, cbt s)].
  Proof.
    destruct (P_all_split _ _ (all_reachable p sched)) as (H1 & H2 & H3 & H4 & H5 & H6 & H7); fold s in H1, H2, H3, H4, H5, H6, H7.
    unfold P_done in H6. intros Hw. rewrite Hw in H6. cbn [implb] in H6.
    apply andb_true_iff in H6 as [Hx Hd]. apply andb_true_iff in Hx as [Hx He].
    repeat split.
    - unfold is_some, is_none in Hx. destruct (step (cbt s) s) as [[s' evs]|]; [eauto|discriminate].
    - destruct (dl_eq_dec (delivered s) []) as [E|E]; [exact E|discriminate He].
    - destruct (dl_eq_dec (delivered (fst (run step (repeat (cbt s) 4) (s, [])))) [(ODone, cbt s)])
        as [E|E]; [exact E|discriminate Hd].
  Qed.

  (* child_freed_exactly_once (quiescence includes thread D having destroyed the parent op) *)
  Theorem child_freed_exactly_once :
    freed s <= 1 /\
    (valid p = true -> quiescent s = true -> freed s = 1 /\ opd s = true /\ owned s = false).
  Proof.
    destruct (P_all_split _ _ (all_reachable p sched)) as (H1 & H2 & H3 & H4 & H5 & H6 & H7); fold s in H1, H2, H3, H4, H5, H6, H7.
    unfold P_freed in H3. apply andb_true_iff in H3 as [Ha Hb]. split.
    - apply Nat.leb_le. exact Ha.
    - intros Hv Hq. rewrite Hv, Hq in Hb. cbn in Hb.
      apply andb_true_iff in Hb as [Hb Ho]. apply andb_true_iff in Hb as [Hf Hd].
      apply Nat.eqb_eq in Hf. apply negb_true_iff in Ho. auto.
  Qed.

  (* never_used_after_free: no step touches the parent op after the receiver completed nor the
     heap state after it was freed; the count never underflows and stays within its 2 bits *)
  Theorem never_used_after_free : late s = 0 /\ underflow s = false /\ wc s <= 2.
  Proof.
    destruct (P_all_split _ _ (all_reachable p sched)) as (H1 & H2 & H3 & H4 & H5 & H6 & H7); fold s in H1, H2, H3, H4, H5, H6, H7.
    unfold P_late in H4. apply andb_true_iff in H4 as [Hx Hc]. apply andb_true_iff in Hx as [Hl Hu].
    apply Nat.eqb_eq in Hl. apply negb_true_iff in Hu. apply Nat.leb_le in Hc. auto.
  Qed.

  (* the callback is torn down before the receiver is completed: callback_ was destroyed exactly
     once, it is deregistered (or its execution is over: callbackCompleted_), and no thread is
     inside the callback or about to write callbackCompleted_ *)
  Theorem callback_torn_down_before_completion :
    cbdtor s <= 1 /\ (delivered s <> [] -> torn_down s = true).
  Proof.
    destruct (P_all_split _ _ (all_reachable p sched)) as (H1 & H2 & H3 & H4 & H5 & H6 & H7); fold s in H1, H2, H3, H4, H5, H6, H7.
    unfold P_torn in H5. apply andb_true_iff in H5 as [Ha Hb]. split.
    - apply Nat.leb_le. exact Ha.
    - intros Hd. unfold op_freed in Hb. destruct (delivered s); [congruence|exact Hb].
  Qed.

  (* no deadlock: a state in which nobody can move is a final state of every thread *)
  Theorem quiescent_is_final : valid p = true -> quiescent s = true ->
    p0 s = T0Fin /\ (pa s = AFin \/ p_inl p = true) /\ pb s = BFin /\
    (cb s = CIdle \/ cb s = CFin) /\ opd s = true.
  Proof.
    destruct (P_all_split _ _ (all_reachable p sched)) as (H1 & H2 & H3 & H4 & H5 & H6 & H7); fold s in H1, H2, H3, H4, H5, H6, H7.
    unfold P_final in H7. intros Hv Hq. rewrite Hv, Hq in H7. cbn [andb implb] in H7.
    apply andb_true_iff in H7 as [Hx Hd]. apply andb_true_iff in Hx as [Hx Hc].
    apply andb_true_iff in Hx as [Hx Hb]. apply andb_true_iff in Hx as [H0' Ha].
    repeat split; auto.
    - destruct (p0 s); try discriminate; reflexivity.
    - destruct (pa s); auto.
    - destruct (pb s); try discriminate; reflexivity.
    - destruct (cb s); try discriminate; auto.
  Qed.
End Main.
