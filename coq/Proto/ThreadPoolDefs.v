(* E1 model ThreadPool(k): static_thread_pool
   (include/unifex/static_thread_pool.hpp:123-146, source/static_thread_pool.cpp).
   k worker threads, k thread_state records (mutex, condition_variable, FIFO queue,
   stopRequested_), the round-robin counter nextThread_.
   Threads: 0 = owner (constructor: creates the k workers; later request_stop() and join(), i.e.
   the destructor); 1..p = producers, producer x starts its schedule() operations x.0, x.1, ...
   (each start() is one enqueue()); p+1..p+k = the workers (worker w runs run(w));
   p+k+1..p+2k = the environment: a spurious wake-up of worker w's cv_.wait.
   Every mutex / condvar / atomic operation is one step; the private queue manipulation made
   while a mutex is held is folded into the step that acquired it.
   Executable definitions only. *)
From Coq Require Import List Bool Arith.
Import ListNotations.

Module ThreadPool.

Definition item := (nat * nat)%type.   (* producer (thread id), sequence number *)

(* one thread_state *)
Record qst := { qown : option nat;      (* owner of mut_ *)
                qitems : list item;     (* queue_, front first *)
                qstop : bool }.         (* stopRequested_ *)

(* owner thread: constructor (static_thread_pool.cpp:24-42), request_stop (49-53,
   thread_state::request_stop 149-153), join (80-85) *)
Inductive mpc :=
| MSpawn (i : nat)         (* about to create worker i *)
| MStopLock (dtor : bool) (q : nat)    (* thread_state q: about to lock; then stopRequested_ = true.
                                         dtor = false: an explicit request_stop() racing the producers;
                                         dtor = true: the destructor's request_stop() *)
| MStopNotify (dtor : bool) (q : nat)  (* holds mut_ q: about to cv_.notify_one() *)
| MStopUnlock (dtor : bool) (q : nat)
| MJoin (i : nat)
| MDone.

(* producer: context::enqueue (87-104) of its j-th item *)
Inductive ppc :=
| PFetch (j : nat)               (* about to nextThread_.fetch_add(1) *)
| PTry (j start i : nat)         (* try_push (125-136) on queue (start+i) mod k: about to try_lock *)
| PPushLock (j start : nat)      (* every try_push failed: push (138-145) on queue start: about to lock *)
| PNotify (j q : nat)            (* holds mut_ q, queue was empty: about to cv_.notify_one() *)
| PUnlock (j q : nat).           (* about to unlock mut_ q *)

(* worker w: context::run (55-78), try_pop (106-112), pop (114-123) *)
Inductive wpc :=
| WNotStarted
| WScan (i : nat)                        (* try_pop on queue (w+i) mod k: about to try_lock *)
| WScanUnlock (i q : nat) (t : option item)  (* holds mut_ q (try_lock succeeded); popped t or found it empty *)
| WPopLock                               (* pop() on its own queue: about to lock *)
| WPopWait                               (* holds own mutex, empty and not stopped: about to cv_.wait *)
| WPopBlocked (notified : bool)
| WPopUnlock (t : option item)           (* holds own mutex: popped t, or None = stop requested: return *)
| WExec (t : item)                       (* about to task->execute(task) *)
| WDone.

Record st := {
  race : bool;                 (* true: the owner calls request_stop() right after construction, racing the
                                  producers; in both cases the destructor (request_stop + join) runs only
                                  after every producer returned from its last start() *)
  next : nat;                  (* nextThread_ *)
  queues : list qst;
  mainpc : mpc;
  prods : list (nat * ppc);
  workers : list wpc;
  (* ghost *)
  enq : list item;             (* every item ever pushed, in the order of the pushes *)
  late : list item;            (* items pushed into a queue whose stopRequested_ was already set *)
  executed : list (item * nat) (* completions: item, worker index; oldest first *)
}.

Inductive ev :=
| ESpawn (w : nat)
| EFetch (old : nat)                  (* nextThread_.fetch_add(1) *)
| ELock (q : nat)                     (* blocking lock of mut_ q acquired *)
| ETryLock (q : nat) (ok : bool)      (* try_to_lock on mut_ q *)
| EEnq (q : nat) (it : item)          (* the lock acquisition (try or blocking) under which it is pushed on queue q *)
| EUnlock (q : nat)
| ENotify (q : nat)
| EWait (q : nat)
| EJoin (w : nat)
| ERun (it : item) (w : nat)
| ESpurious (w : nat).

Definition nq (s : st) : nat := length (queues s).
Definition nprods (s : st) : nat := length (prods s).
Definition worker_tid (s : st) (w : nat) : nat := S (nprods s + w).

Definition init (rc : bool) (k : nat) (counts : list nat) : st :=
  {| race := rc; next := 0;
     queues := repeat {| qown := None; qitems := []; qstop := false |} k;
     mainpc := MSpawn 0; prods := map (fun n => (n, PFetch 0)) counts;
     workers := repeat WNotStarted k; enq := []; late := []; executed := [] |}.

Fixpoint set_nth {A} (n : nat) (x : A) (l : list A) : list A :=
  match l, n with
  | [], _ => []
  | _ :: r, O => x :: r
  | y :: r, S n' => y :: set_nth n' x r
  end.

Definition getq (s : st) (q : nat) : qst :=
  nth q (queues s) {| qown := Some 0; qitems := []; qstop := true |}.

Definition q_free (s : st) (q : nat) : bool :=
  Nat.ltb q (nq s) && match qown (getq s q) with None => true | Some _ => false end.

(* field updates *)
Definition set_queue (s : st) (q : nat) (x : qst) : st :=
  {| race := race s; next := next s; queues := set_nth q x (queues s); mainpc := mainpc s;
     prods := prods s; workers := workers s; enq := enq s; late := late s; executed := executed s |}.
Definition set_main (s : st) (p : mpc) : st :=
  {| race := race s; next := next s; queues := queues s; mainpc := p;
     prods := prods s; workers := workers s; enq := enq s; late := late s; executed := executed s |}.
Definition set_prod (s : st) (i : nat) (p : nat * ppc) : st :=
  {| race := race s; next := next s; queues := queues s; mainpc := mainpc s;
     prods := set_nth i p (prods s); workers := workers s; enq := enq s; late := late s;
     executed := executed s |}.
Definition set_worker (s : st) (w : nat) (p : wpc) : st :=
  {| race := race s; next := next s; queues := queues s; mainpc := mainpc s;
     prods := prods s; workers := set_nth w p (workers s); enq := enq s; late := late s;
     executed := executed s |}.
Definition set_next (s : st) (n : nat) : st :=
  {| race := race s; next := n; queues := queues s; mainpc := mainpc s;
     prods := prods s; workers := workers s; enq := enq s; late := late s; executed := executed s |}.
Definition add_enq (s : st) (it : item) (is_late : bool) : st :=
  {| race := race s; next := next s; queues := queues s; mainpc := mainpc s;
     prods := prods s; workers := workers s; enq := enq s ++ [it];
     late := if is_late then late s ++ [it] else late s; executed := executed s |}.
Definition add_executed (s : st) (it : item) (w : nat) : st :=
  {| race := race s; next := next s; queues := queues s; mainpc := mainpc s;
     prods := prods s; workers := workers s; enq := enq s; late := late s;
     executed := executed s ++ [(it, w)] |}.

Definition lockq (x : qst) (t : nat) : qst := {| qown := Some t; qitems := qitems x; qstop := qstop x |}.
Definition unlockq (x : qst) : qst := {| qown := None; qitems := qitems x; qstop := qstop x |}.

(* cv_.notify_one on queue q: only worker q ever waits on it *)
Definition wake (w : wpc) : wpc := match w with WPopBlocked false => WPopBlocked true | _ => w end.
Definition notify (s : st) (q : nat) : st :=
  match nth_error (workers s) q with
  | Some w => set_worker s q (wake w)
  | None => s
  end.

Definition prod_done (p : nat * ppc) : bool :=
  match snd p with PFetch j => Nat.leb (fst p) j | _ => false end.
Definition all_prods_done (s : st) : bool := forallb prod_done (prods s).

Definition step_main (s : st) : option (st * list ev) :=
  let k := nq s in
  match mainpc s with
  | MSpawn i =>
      match nth_error (workers s) i with
      | Some WNotStarted =>
          Some (set_worker (set_main s (if Nat.eqb (S i) k then MStopLock (negb (race s)) 0 else MSpawn (S i))) i (WScan 0),
                [ESpawn i])
      | _ => None
      end
  | MStopLock d q =>
      if q_free s q && (negb d || all_prods_done s) then
        let x := getq s q in
        Some (set_main (set_queue s q {| qown := Some 0; qitems := qitems x; qstop := true |}) (MStopNotify d q),
              [ELock q])
      else None
  | MStopNotify d q => Some (set_main (notify s q) (MStopUnlock d q), [ENotify q])
  | MStopUnlock d q =>
      Some (set_main (set_queue s q (unlockq (getq s q)))
                     (if Nat.eqb (S q) k then (if d then MJoin 0 else MStopLock true 0) else MStopLock d (S q)),
            [EUnlock q])
  | MJoin i =>
      match nth_error (workers s) i with
      | Some WDone => Some (set_main s (if Nat.eqb (S i) k then MDone else MJoin (S i)), [EJoin i])
      | _ => None
      end
  | MDone => None
  end.

(* push it on queue q, whose mutex thread t has just acquired: try_push 130-135 / push 140-144 *)
Definition do_push (s : st) (t q : nat) (it : item) : st * bool :=
  let x := getq s q in
  let was_empty := match qitems x with [] => true | _ => false end in
  (add_enq (set_queue s q {| qown := Some t; qitems := qitems x ++ [it]; qstop := qstop x |}) it (qstop x),
   was_empty).

(* producer number x (thread id S x) *)
Definition step_prod (x : nat) (s : st) : option (st * list ev) :=
  let k := nq s in
  match nth_error (prods s) x with
  | None => None
  | Some (n, PFetch j) =>
      (* the scheduler is available only once the constructor has returned *)
      if Nat.ltb j n && Nat.ltb 0 k && negb (match mainpc s with MSpawn _ => true | _ => false end)
      then Some (set_prod (set_next s (S (next s))) x (n, PTry j (Nat.modulo (next s) k) 0), [EFetch (next s)])
      else None
  | Some (n, PTry j start i) =>
      let q := Nat.modulo (start + i) k in
      if q_free s q then
        let (s1, was_empty) := do_push s (S x) q (S x, j) in
        Some (set_prod s1 x (n, if was_empty then PNotify j q else PUnlock j q), [EEnq q (S x, j)])
      else
        Some (set_prod s x (n, if Nat.eqb (S i) k then PPushLock j start else PTry j start (S i)),
              [ETryLock q false])
  | Some (n, PPushLock j start) =>
      if q_free s start then
        let (s1, was_empty) := do_push s (S x) start (S x, j) in
        Some (set_prod s1 x (n, if was_empty then PNotify j start else PUnlock j start), [EEnq start (S x, j)])
      else None
  | Some (n, PNotify j q) => Some (set_prod (notify s q) x (n, PUnlock j q), [ENotify q])
  | Some (n, PUnlock j q) =>
      Some (set_prod (set_queue s q (unlockq (getq s q))) x (n, PFetch (S j)), [EUnlock q])
  end.

(* worker w has just acquired its own mutex inside pop(): lines 116-122 *)
Definition pop_acquired (s : st) (w : nat) : st :=
  let x := getq s w in
  let t := worker_tid s w in
  match qitems x with
  | it :: r => set_worker (set_queue s w {| qown := Some t; qitems := r; qstop := qstop x |}) w (WPopUnlock (Some it))
  | [] => set_worker (set_queue s w (lockq x t)) w (if qstop x then WPopUnlock None else WPopWait)
  end.

Definition step_worker (w : nat) (s : st) : option (st * list ev) :=
  let k := nq s in
  let me := worker_tid s w in
  match nth_error (workers s) w with
  | None => None
  | Some WNotStarted => None
  | Some (WScan i) =>
      let q := Nat.modulo (w + i) k in
      if q_free s q then
        let x := getq s q in
        match qitems x with
        | it :: r =>
            Some (set_worker (set_queue s q {| qown := Some me; qitems := r; qstop := qstop x |}) w
                             (WScanUnlock i q (Some it)), [ETryLock q true])
        | [] => Some (set_worker (set_queue s q (lockq x me)) w (WScanUnlock i q None), [ETryLock q true])
        end
      else Some (set_worker s w (if Nat.eqb (S i) k then WPopLock else WScan (S i)), [ETryLock q false])
  | Some (WScanUnlock i q t) =>
      Some (set_worker (set_queue s q (unlockq (getq s q))) w
                       (match t with
                        | Some it => WExec it
                        | None => if Nat.eqb (S i) k then WPopLock else WScan (S i)
                        end), [EUnlock q])
  | Some WPopLock => if q_free s w then Some (pop_acquired s w, [ELock w]) else None
  | Some WPopWait =>
      Some (set_worker (set_queue s w (unlockq (getq s w))) w (WPopBlocked false), [EWait w; EUnlock w])
  | Some (WPopBlocked true) => if q_free s w then Some (pop_acquired s w, [ELock w]) else None
  | Some (WPopBlocked false) => None
  | Some (WPopUnlock t) =>
      Some (set_worker (set_queue s w (unlockq (getq s w))) w
                       (match t with Some it => WExec it | None => WDone end), [EUnlock w])
  | Some (WExec it) => Some (set_worker (add_executed s it w) w (WScan 0), [ERun it w])
  | Some WDone => None
  end.

Definition step_spur (w : nat) (s : st) : option (st * list ev) :=
  match nth_error (workers s) w with
  | Some (WPopBlocked false) => Some (set_worker s w (WPopBlocked true), [ESpurious w])
  | _ => None
  end.

Definition step (t : nat) (s : st) : option (st * list ev) :=
  let p := nprods s in
  let k := nq s in
  if Nat.eqb t 0 then step_main s
  else if Nat.leb t p then step_prod (pred t) s
  else if Nat.leb t (p + k) then step_worker (t - S p) s
  else if Nat.leb t (p + k + k) then step_spur (t - S (p + k)) s
  else None.

Definition worker_done (w : wpc) : bool := match w with WDone => true | _ => false end.

Definition final (s : st) : bool :=
  match mainpc s with
  | MDone => all_prods_done s && forallb worker_done (workers s)
  | _ => false
  end.

Definition queued (s : st) : list item := flat_map qitems (queues s).

End ThreadPool.
