From Coq Require Import List Bool Arith Lia.
From V Require Import Base.Sched Proto.MutexV2Defs Proto.MutexV2Proofs.
Import ListNotations.
Import MutexV2.

(* ------------------------------------------------------------------ invariants for progress *)
Definition is_srcholder (k : nat) (x : act * cont) : nat :=
  match x with
  | (ARegRel i, _) | (ADeregRel i _ _, _) | (SRel i _, _) | (SRel2 i, _) => eqn i k
  | _ => 0
  end.
Definition is_sacq (k : nat) (x : act * cont) : nat :=
  match x with
  | (SAcq i, _) | (SRel i false, _) => eqn i k
  | _ => 0
  end.
(* request_stop is between taking k's callback off the list and callbackCompleted_.store *)
Definition is_cbregion (k : nat) (x : act * cont) : nat :=
  match x with
  | (SRel i true, _) | (SCbDone i, _) => eqn i k
  | (_, KStopper i) => eqn i k
  | _ => 0
  end.
Definition is_syncstore (k : nat) (x : act * cont) : nat :=
  match x with (ASyncStore i _, _) => eqn i k | _ => 0 end.
Definition waits_cb (a : act) : option nat :=
  match a with ADeregRel k _ true | ADeregWait k _ => Some k | _ => None end.

Record PInv (s : st) : Prop := {
  p_minv : MInv s;
  p_linv : LInv s;
  (* the source's spin lock is held by exactly the thread between its lock CAS and unlock store *)
  p_sl : forall k, b2n (o_src_locked (ops s k)) = sumf (is_srcholder k) (thr s);
  (* request_stop runs once: after it took the callback no SAcq is pending *)
  p_c0 : forall k, o_cb (ops s k) = CbPopped -> sumf (is_sacq k) (thr s) = 0;
  (* a callback taken by request_stop is executing (or about to), unless it has completed or was
     deregistered from inside its own execution *)
  p_c1 : forall k, o_cb (ops s k) = CbPopped ->
         o_cbdone (ops s k) = true \/ o_rdc (ops s k) = true \/ sumf (is_cbregion k) (thr s) >= 1;
  p_c3 : forall k, o_rdc (ops s k) = true ->
         (exists a kc, nth_error (thr s) (nl s + k) = Some (a, kc) /\ is_post k (a, kc) = 1) \/ o_res (ops s k) <> [];
  p_c4 : forall t k c kc, nth_error (thr s) t = Some (ADeregAcq k c, kc) ->
         o_cb (ops s k) = CbLinked \/ o_cb (ops s k) = CbPopped;
  p_c5 : forall t a kc k, nth_error (thr s) t = Some (a, kc) -> waits_cb a = Some k ->
         o_cb (ops s k) = CbPopped /\ t <> nl s + k;
  p_c6 : forall t a k, nth_error (thr s) t = Some (a, KStopper k) -> act_ix a = Some k /\ stop_a a = None;
  (* the sync_complete handshake of stop_type::start *)
  p_yk : forall t a kc i, nth_error (thr s) t = Some (a, kc) ->
         (a = ASyncLoad i \/ a = AStartedOr i \/ a = ASyncSpin i) -> kc = KTop i;
  p_y0a : forall t a kc i, nth_error (thr s) t = Some (a, kc) -> (a = ASyncLoad i \/ a = AStartedOr i) ->
         o_started (ops s i) = false;
  p_y0k : forall t a i, nth_error (thr s) t = Some (a, KAfterStart i) -> o_started (ops s i) = false;
  p_y1 : forall t a kc i, nth_error (thr s) t = Some (a, kc) -> (as_a a = Some i \/ as_k kc = Some i) ->
         o_sync (ops s i) <> None;
  p_y2 : forall i, o_started (ops s i) = false -> o_completed (ops s i) = true -> o_sync (ops s i) = Some false ->
         sumf (is_syncstore i) (thr s) >= 1;
  p_y3 : forall t kc i, nth_error (thr s) t = Some (ASyncSpin i, kc) ->
         o_sync (ops s i) = Some true \/ sumf (is_syncstore i) (thr s) >= 1
}.

Lemma nth_set_nth_eq' {A} (l : list A) n x y : nth_error l n = Some y -> nth_error (set_nth n x l) n = Some x.
Proof. intros H. rewrite nth_set_nth, Nat.eqb_refl, H. reflexivity. Qed.


Lemma sumf_only {A} (f : A -> nat) l t0 y :
  nth_error l t0 = Some y -> (forall n x, n <> t0 -> nth_error l n = Some x -> f x = 0) -> sumf f l = f y.
Proof.
  revert t0. induction l as [|a l IH]; intros t0 H0 Hz.
  - destruct t0; discriminate.
  - destruct t0; simpl in *.
    + inversion H0; subst. unfold sumf. simpl.
      assert (E : sumf f l = 0) by (apply sumf_zero; intros n x Hn; apply (Hz (S n) x); auto).
      unfold sumf in E. lia.
    + unfold sumf in *. simpl. rewrite (Hz 0 a) by auto. simpl.
      apply (IH t0 H0). intros n x Hn Hx. apply (Hz (S n) x); auto.
Qed.

(* a thread that holds the handle of k and a thread that has won try_complete(k) exclude each other *)
Lemma pre_post_excl s t1 x1 t2 x2 k : Inv s ->
  nth_error (thr s) t1 = Some x1 -> is_pre k x1 = 1 ->
  nth_error (thr s) t2 = Some x2 -> is_post k x2 = 1 -> False.
Proof.
  intros I H1 P1 H2 P2.
  pose proof (sumf_nth_le (is_pre k) _ _ _ H1) as L1. pose proof (sumf_nth_le (is_post k) _ _ _ H2) as L2.
  pose proof (v_hs1 _ I k) as A. pose proof (v_hs2 _ I k) as B. pose proof (v_ps _ I k) as C.
  unfold handles, posts in *. assert (E : sumf (is_pre k) (thr s) + inq s k = 1) by lia.
  rewrite (B E) in C. simpl in C. lia.
Qed.

Lemma two_posts_excl s t1 x1 t2 x2 k : Inv s -> t1 <> t2 ->
  nth_error (thr s) t1 = Some x1 -> is_post k x1 = 1 ->
  nth_error (thr s) t2 = Some x2 -> is_post k x2 = 1 -> False.
Proof.
  intros I N H1 P1 H2 P2.
  pose proof (sumf_two (is_post k) _ _ _ _ _ H1 H2 N) as L.
  pose proof (v_ps _ I k) as C. unfold posts in C. destruct (o_completed (ops s k)); simpl in C; lia.
Qed.

Lemma step_p_c0 s t s' evs : PInv s -> step t s = Some (s', evs) ->
  forall k, o_cb (ops s' k) = CbPopped -> sumf (is_sacq k) (thr s') = 0.
Proof.
  intros P H k Hc. pose proof (p_minv _ P) as M. pose proof (m_inv _ M) as I. pose proof (p_c0 _ P k) as E0.
  step_split' H Hth; simpl; try (destruct kc; simpl; try kill_ki I Hth); destr_if; use_sum Hth;
    unfold getop in *; simpl in *; eqb_cases; subst; simpl in *;
    try (specialize (E0 Hc)); try lia; try congruence.
  all: match type of Hth with nth_error _ _ = Some ?xx => assert (S1 : sumf (is_sacq k) (thr s) = is_sacq k xx) by
         (apply (sumf_only _ _ t _ Hth); intros n [a0 kc0] Hn Hx;
          destruct (is_sacq k (a0, kc0)) eqn:Z; auto; exfalso; apply Hn;
          rewrite (m_styp_a _ M _ _ _ _ Hth eq_refl);
          destruct a0; simpl in Z; try discriminate; unfold eqn in Z;
          try (destruct popped; try discriminate);
          destruct (Nat.eqb_spec i k); try discriminate; subst;
          eapply (m_styp_a _ M _ _ _ _ Hx); reflexivity) end;
       simpl in S1; unfold eqn in S1; rewrite Nat.eqb_refl in S1; lia.
Qed.

Lemma step_p_y3 s t s' evs : PInv s -> step t s = Some (s', evs) ->
  forall t0 kc i, nth_error (thr s') t0 = Some (ASyncSpin i, kc) ->
  o_sync (ops s' i) = Some true \/ sumf (is_syncstore i) (thr s') >= 1.
Proof.
  intros P H t0 kc0 i0 H0. pose proof (p_minv _ P) as M. pose proof (m_inv _ M) as I.
  step_split' H Hth; simpl in H0;
  (destruct (nth_thr_cases _ _ _ _ _ _ Hth H0) as [[-> E]|[N E]];
   [ try (destruct kc; simpl in E; try kill_ki I Hth);
     repeat match type of E with context [if ?b then _ else _] => destruct b eqn:? end;
     try discriminate E; injection E as Ea Eb; subst
   | pose proof (p_y3 _ P _ _ _ E) as E0 ]);
  simpl; try (destruct kc; simpl; try kill_ki I Hth); destr_if; use_sum Hth;
    unfold getop in *; simpl in *; eqb_cases; subst; simpl in *; try congruence;
    try (destruct E0 as [E0|E0]; [left; exact E0|right; lia]; fail);
    try (left; reflexivity).
  all: try (exfalso; apply N; rewrite (v_own_a _ I _ _ _ _ E eq_refl); symmetry; eapply (v_own_a _ I _ _ _ _ Hth); reflexivity).
  all: pose proof (p_y0a _ P _ _ _ _ Hth (or_intror eq_refl)) as Y0;
       pose proof (p_y1 _ P _ _ _ _ Hth (or_introl eq_refl)) as Y1;
       pose proof (p_y2 _ P i Y0) as Y2;
       destruct (o_sync (ops s i)) as [[|]|] eqn:Esy; [left; reflexivity| |congruence];
       right; assert (X : sumf (is_syncstore i) (thr s) >= 1) by (apply Y2; auto); lia.
Qed.
