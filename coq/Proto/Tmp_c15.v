From Coq Require Import List Bool Arith Lia.
From V Require Import Base.Sched Proto.MutexV2Defs Proto.MutexV2Proofs.
Import ListNotations.
Import MutexV2.

(* ------------------------------------------------------------------ thread typing, quiescence *)
Definition stop_a (a : act) : option nat :=
  match a with
  | SAcq i | SRel i _ | SCbDone i | SAcq2 i | SRel2 i => Some i
  | _ => None
  end.
Definition is_try_a (a : act) : bool := match a with TTry _ | ARelease _ => true | _ => false end.

Record MInv (s : st) : Prop := {
  m_inv : Inv s;
  m_len : 2 * nl s <= length (thr s);
  (* request_stop for locker i runs on thread nl + i; try_lock threads come after *)
  m_styp_a : forall t a kc i, nth_error (thr s) t = Some (a, kc) -> stop_a a = Some i -> t = nl s + i;
  m_styp_k : forall t a i, nth_error (thr s) t = Some (a, KStopper i) -> t = nl s + i;
  m_ttyp : forall t a kc, nth_error (thr s) t = Some (a, kc) -> is_try_a a = true -> 2 * nl s <= t;
  m_fin : forall t kc, nth_error (thr s) t = Some (AFin, kc) -> kc = KEnd;
  (* a locker's thread ends only after it released the mutex (or its receiver got set_done: then
     it stays in AWaitGot) *)
  m_fi : forall t a, t < nl s -> nth_error (thr s) t = Some (a, KEnd) -> a = AWaitGot t \/ o_released (ops s t) = true;
  m_rl : forall t a kc i, nth_error (thr s) t = Some (a, kc) -> own_a a = Some i \/ own_k kc = Some i ->
         o_released (ops s i) = false
}.

Lemma released_mono s t s' evs k : step t s = Some (s', evs) ->
  o_released (ops s k) = true -> o_released (ops s' k) = true.
Proof.
  intros H Hc. step_split' H Hth; simpl; unfold getop in *; destr_if; simpl; auto.
Qed.

Lemma released_change s t s' evs k : step t s = Some (s', evs) ->
  o_released (ops s' k) = true ->
  o_released (ops s k) = true \/ exists kc, nth_error (thr s) t = Some (AWaitGot k, kc).
Proof.
  intros H Hc.
  step_split' H Hth; simpl in *; unfold getop in *; destr_if; simpl in *; auto;
    try (match goal with Q : (_ =? _) = true |- _ => apply Nat.eqb_eq in Q; subst end; simpl in *; auto);
    try (right; eauto).
Qed.

Lemma step_minv s t s' evs : MInv s -> step t s = Some (s', evs) -> MInv s'.
Proof.
  intros M H. pose proof (m_inv _ M) as I.
  destruct (step_consts _ _ _ _ H) as [_ Enl].
  constructor.
  - eapply step_inv; eauto.
  - rewrite Enl. pose proof (m_len _ M) as L.
    assert (length (thr s') = length (thr s)); [|lia].
    clear - H. step_split' H Hth; simpl; unfold ret; simpl; rewrite ?length_set_nth; reflexivity.
  - intros t0 a0 kc0 i0 H0 Hs. rewrite Enl.
    step_split' H Hth; simpl in H0;
    (destruct (nth_thr_cases _ _ _ _ _ _ Hth H0) as [[-> E]|[N E]];
     [ injection E as Ea Ek; subst a0 kc0; try (destruct kc; simpl in Hs; try kill_ki I Hth);
       repeat match type of Hs with context [if ?b then _ else _] => destruct b eqn:? end;
       simpl in Hs; try discriminate Hs; injection Hs as Ei; subst i0;
       first [ eapply (m_styp_a _ M _ _ _ _ Hth); reflexivity | eapply (m_styp_k _ M _ _ _ Hth) ]
     | eapply (m_styp_a _ M); eauto ]).
  - intros t0 a0 i0 H0. rewrite Enl.
    step_split' H Hth; simpl in H0;
    (destruct (nth_thr_cases _ _ _ _ _ _ Hth H0) as [[-> E]|[N E]];
     [ try (destruct kc; simpl in E; try kill_ki I Hth);
       repeat match type of E with context [if ?b then _ else _] => destruct b eqn:? end;
       try discriminate E; injection E as Ea Ei; subst;
       first [ eapply (m_styp_a _ M _ _ _ _ Hth); reflexivity | eapply (m_styp_k _ M _ _ _ Hth) ]
     | eapply (m_styp_k _ M); eauto ]).
  - intros t0 a0 kc0 H0 Hs. rewrite Enl.
    step_split' H Hth; simpl in H0;
    (destruct (nth_thr_cases _ _ _ _ _ _ Hth H0) as [[-> E]|[N E]];
     [ injection E as Ea Ek; subst a0 kc0; try (destruct kc; simpl in Hs; try kill_ki I Hth);
       repeat match type of Hs with context [if ?b then _ else _] => destruct b eqn:? end;
       simpl in Hs; try discriminate Hs;
       eapply (m_ttyp _ M _ _ _ Hth); reflexivity
     | eapply (m_ttyp _ M); eauto ]).
  - intros t0 kc0 H0.
    step_split' H Hth; simpl in H0;
    (destruct (nth_thr_cases _ _ _ _ _ _ Hth H0) as [[-> E]|[N E]];
     [ try (destruct kc; simpl in E; try kill_ki I Hth);
       repeat match type of E with context [if ?b then _ else _] => destruct b eqn:? end;
       try discriminate E; injection E as Ea; subst; reflexivity
     | eapply (m_fin _ M); eauto ]).
  - intros t0 a0 Ht0 H0. rewrite Enl in Ht0.
    pose proof (released_mono _ _ _ _ t0 H) as RM.
    step_split' H Hth; simpl in H0;
    (destruct (nth_thr_cases _ _ _ _ _ _ Hth H0) as [[-> E]|[N E]];
     [ try (destruct kc; simpl in E; try kill_ki I Hth);
       repeat match type of E with context [if ?b then _ else _] => destruct b eqn:? end;
       try discriminate E; injection E as Ea; subst
     | destruct (m_fi _ M _ _ Ht0 E) as [X|X]; [left; exact X|right; apply RM; exact X] ]).
    all: try (exfalso; pose proof (m_styp_k _ M _ _ _ Hth); lia).
    all: try (exfalso; pose proof (m_styp_a _ M _ _ _ _ Hth eq_refl); lia).
    all: try (exfalso; pose proof (m_ttyp _ M _ _ _ Hth eq_refl); lia).
    all: try (left; f_equal; symmetry; eapply (v_own_k _ I _ _ _ _ Hth); reflexivity).
    all: try (destruct (m_fi _ M _ _ Ht0 Hth) as [X|X]; [try discriminate X|right; apply RM; exact X]).
    all: right; assert (Ei : i = t) by (eapply eq_sym, (v_own_a _ I _ _ _ _ Hth); reflexivity); subst i;
         unfold getop; simpl; rewrite Nat.eqb_refl; reflexivity.
  - intros t0 a0 kc0 i0 H0 Ho.
    assert (RC := released_change _ _ _ _ i0 H).
    destruct (o_released (ops s' i0)) eqn:Er; auto. exfalso. specialize (RC eq_refl).
    revert Er RC.
    step_split' H Hth; simpl in H0; intros Er RC;
    (destruct (nth_thr_cases _ _ _ _ _ _ Hth H0) as [[-> E]|[N E]];
     [ injection E as Ea Ek; subst a0 kc0
     | ]);
    (destruct RC as [RC|[kc1 RC]];
     [ | try discriminate RC ]).
    all: try (rewrite (m_rl _ M _ _ _ _ E Ho) in RC; discriminate RC).
    all: try (destruct kc; simpl in Ho; try kill_ki I Hth).
    all: try (destruct Ho as [Ho|Ho];
              repeat match type of Ho with context [if ?b then _ else _] => destruct b eqn:? end;
              simpl in Ho; try discriminate Ho; injection Ho as Ei; subst i0;
              first [ rewrite (m_rl _ M _ _ _ _ Hth (or_introl eq_refl)) in RC
                    | rewrite (m_rl _ M _ _ _ _ Hth (or_intror eq_refl)) in RC ]; discriminate RC).
    all: injection RC as Ei _; subst i0; apply N;
         assert (Et : t = i) by (eapply (v_own_a _ I _ _ _ _ Hth); reflexivity);
         assert (Et0 : t0 = i) by (destruct Ho as [Ho|Ho]; [eapply (v_own_a _ I _ _ _ _ E Ho)|eapply (v_own_k _ I _ _ _ _ E Ho)]);
         congruence.
Qed.

Lemma combine_nth_error {A B} (l1 : list A) (l2 : list B) k x y :
  nth_error (combine l1 l2) k = Some (x, y) -> nth_error l1 k = Some x /\ nth_error l2 k = Some y.
Proof.
  revert l2 k. induction l1 as [|a l1 IH]; intros l2 k H; simpl in H.
  - destruct k; discriminate.
  - destruct l2 as [|b l2]; [destruct k; discriminate|]. destruct k; simpl in *.
    + inversion H. auto.
    + apply IH. exact H.
Qed.

Lemma seq_nth_error b n k x : nth_error (seq b n) k = Some x -> x = b + k /\ k < n.
Proof.
  revert b k. induction n as [|n IH]; intros b k H; simpl in H.
  - destruct k; discriminate.
  - destruct k; simpl in H.
    + inversion H. lia.
    + apply IH in H. lia.
Qed.

Lemma init_thr_pos fx hs nt t a kc :
  nth_error (thr (init fx hs nt)) t = Some (a, kc) ->
  let n := length hs in
  (t < n /\ a = AReg t /\ kc = KTop t) \/
  (n <= t < 2 * n /\ (a = SAcq (t - n) \/ a = AFin) /\ kc = KEnd) \/
  (2 * n <= t /\ (exists j, a = TTry j) /\ kc = KEnd).
Proof.
  unfold init. cbn [thr]. intros H n. fold n in H.
  destruct (Nat.ltb_spec t n) as [E1|E1].
  - left. rewrite nth_error_app1 in H by (rewrite map_length, seq_length; auto).
    rewrite nth_error_map in H. destruct (nth_error (seq 0 n) t) eqn:E; [|discriminate].
    apply seq_nth_error in E. simpl in H. inversion H. destruct E as [-> _]. auto.
  - right. rewrite nth_error_app2 in H by (rewrite map_length, seq_length; auto). rewrite map_length, seq_length in H.
    assert (Lc : length (combine (seq 0 n) hs) = n) by (rewrite combine_length, seq_length; apply Nat.min_id).
    destruct (Nat.ltb_spec (t - n) n) as [E2|E2].
    + left. rewrite nth_error_app1 in H by (rewrite map_length, Lc; auto).
      rewrite nth_error_map in H. destruct (nth_error (combine (seq 0 n) hs) (t - n)) as [[i b]|] eqn:E; [|discriminate].
      apply combine_nth_error in E. destruct E as [Es _]. apply seq_nth_error in Es. simpl in Es, H.
      destruct Es as [-> _]. inversion H. split; [lia|]. split; auto. destruct b; auto.
    + right. rewrite nth_error_app2 in H by (rewrite map_length, Lc; auto). rewrite map_length, Lc in H.
      rewrite nth_error_map in H. destruct (nth_error (seq 0 nt) (t - n - n)) eqn:E; [|discriminate].
      simpl in H. inversion H. split; [lia|]. split; eauto.
Qed.

Lemma init_minv fx hs nt : MInv (init fx hs nt).
Proof.
  constructor.
  - apply init_inv.
  - simpl. rewrite !app_length, !map_length, seq_length, combine_length, seq_length, Nat.min_id. lia.
  - intros t a kc i H Hs. apply init_thr_pos in H. simpl.
    destruct H as [(H1 & -> & ->)|[(H1 & [->| ->] & ->)|(H1 & [j ->] & ->)]]; simpl in Hs; inversion Hs; subst; lia.
  - intros t a i H. apply init_thr_pos in H.
    destruct H as [(H1 & _ & E)|[(H1 & _ & E)|(H1 & _ & E)]]; discriminate.
  - intros t a kc H Hs. apply init_thr_pos in H. simpl.
    destruct H as [(H1 & -> & ->)|[(H1 & [->| ->] & ->)|(H1 & [j ->] & ->)]]; simpl in Hs; try discriminate; lia.
  - intros t kc H. apply init_thr_pos in H.
    destruct H as [(H1 & E & _)|[(H1 & _ & E)|(H1 & _ & E)]]; try discriminate; auto.
  - intros t a Ht H. apply init_thr_pos in H. simpl in Ht.
    destruct H as [(H1 & _ & E)|[(H1 & _ & E)|(H1 & _ & E)]]; try discriminate; lia.
  - intros t a kc i H Ho. reflexivity.
Qed.

Lemma minv_reachable fx hs nt sched : MInv (fst (run step sched (init fx hs nt, []))).
Proof.
  apply (run_invariant_state _ _ _ step MInv).
  - intros s t s' ev I H. eapply step_minv; eauto.
  - apply init_minv.
Qed.
