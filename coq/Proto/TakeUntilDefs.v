(* E1 model TakeUntil: the race protocol of unifex::take_until (include/unifex/take_until.hpp)
   as driven by a reduce_stream-like consumer over two asynchronous source streams (the source
   and the trigger), together with the two stop sources involved at lock granularity
   (source/inplace_stop_token.cpp): the stream's internal stopSource_ (no callbacks are ever
   registered on it by the scripted sources: request_stop is "see the stop bit -> return" or
   "CAS 0->3, store 1") and the consumer's external stop source ext with the cancel_callback
   of the current next-op (registration / request_stop / deregistration as in Proto/FutureDefs.v).

   There is no consumer thread: the consumer (what reduce_stream's receivers do) runs inline in
   the completion of next / cleanup on the thread that delivers it: value -> destroy the next-op,
   construct and start a new one; done / error -> destroy the next-op, construct and start the
   cleanup-op; cleanup completion -> destroy the cleanup-op, finished: the stream is freed.

   Physical threads and model thread ids (the outcome of every completion is chosen by the
   SCHEDULE: from an idle thread the id picks the kind, a completion in progress can only be
   moved by the id that opened it):
     0          T0: the very first start of a next-op
     1 / 2 / 3  A completes the outstanding source next with value / done / error
     4 / 5      A completes the source cleanup with done / error
     6          B completes the trigger next (value, error and done are treated alike, :55-69)
     7 / 8      B completes the trigger cleanup with done / error
     9          C: ext.request_stop (exists iff p_stop)
   The model is cyclic: after a value the same thread constructs and starts the next next-op, so
   any number of elements is covered by a finite state space.
   Parameter p_fixed: false = trigger_receiver set_done destroys sourceOp_ (DESIGN.md section 8
   finding 2), true = it destroys triggerOp_ like set_error (the code of /repo after e46f32d).
   Ghost state: life cycle of every operation state (consumer next-op / cleanup-op, source next
   op innerOp_, trigger next op triggerNextOp_, source / trigger cleanup ops sourceOp_ /
   triggerOp_), constructor / destructor counters (capped at 2), who started the trigger
   cleanup, who completed the consumer, sticky flags uaf (a step touched a destroyed op-state or
   the freed stream), bad_dtor (destructor run on the wrong / a dead op-state), dup (a completion
   delivered to a consumer op that is not alive), ord_bad (a cleanup of a stream started while a
   next of that stream was outstanding).
   Line numbers refer to take_until.hpp.  Executable definitions only. *)
From Coq Require Import List Bool Arith.
Import ListNotations.

Module TakeUntil.

Inductive kind := KV | KD | KE.
(* stopSource_.state_ : 0, locked + stop requested (3), stop requested (1) *)
Inductive sst := S0 | S3 | S1.
(* life of an operation state: not constructed, constructed, started (outstanding), completed
   (its completion is being delivered), destroyed *)
Inductive life := LNone | LNew | LOut | LRun | LDead.
(* result of the consumer's cleanup: done, the source cleanup's error, the trigger cleanup's *)
Inductive cres := CDone | CErrSrc | CErrTrg.
Inductive who := WA | WB.

Record params := { p_fixed : bool; p_stop : bool }.

Record mem := {
  ext_locked : bool;         (* lock bit of the consumer's stop source ext *)
  ext_stop : bool;           (* its stop-requested bit *)
  cb_linked : bool;          (* the cancel_callback of the current next-op is in ext's list *)
  cb_reg : bool;             (* it was registered (not run inline): its destructor deregisters *)
  cb_done : bool;            (* its callbackCompleted_ *)
  src_w : sst;               (* stopSource_.state_ *)
  ready : bool;              (* cleanupReady_ , :448 *)
  completed : bool;          (* cleanupCompleted_ , :308 *)
  src_err : bool;            (* sourceError_ set *)
  trg_err : bool             (* triggerError_ set *)
}.

Record ghost := {
  cons_next : bool;          (* the consumer's next-op is alive *)
  src_next : life;           (* innerOp_ (inside the consumer's next-op) *)
  trg_next : life;           (* triggerNextOp_ (inside the stream) *)
  cons_cl : life;            (* the consumer's cleanup-op: LNone / LOut (alive) / LDead *)
  src_cl : life;             (* sourceOp_ (inside the consumer's cleanup-op) *)
  trg_cl : life;             (* triggerOp_ (inside the consumer's cleanup-op) *)
  src_cl_pend : bool;        (* the source cleanup leaf waits to be completed *)
  trg_cl_pend : bool;
  finished : bool;           (* the consumer's cleanup completed: the stream is freed *)
  cons_cl_ctor : nat;        (* consumer cleanup-ops constructed (capped at 2) *)
  cl_compl : nat;            (* completions of the consumer's cleanup *)
  src_cl_ctor : nat; src_cl_dtor : nat; trg_cl_ctor : nat; trg_cl_dtor : nat;
  tc_a : bool; tc_b : bool;  (* the trigger cleanup was started by cleanup start / by trigger_next_done *)
  fin_src : bool; fin_trg : bool;   (* the consumer was completed by the source / trigger cleanup's completion *)
  uaf : bool; bad_dtor : bool; dup : bool; ord_bad : bool;
  c_stale : bool             (* the next-op was destroyed while C was running its callback *)
}.

(* stopSource_.request_stop: first access (observe the stop bit / CAS 0->3), store 1 *)
Inductive rs := R1 | R2.
(* start of a next-op from the registration of the stop callback on, :190-192 *)
Inductive npc := NReg | NRegRel | NInl (r : rs).
Inductive zpc := ZStart | ZN (n : npc) | ZFin.
(* completion of the source next: receiver_wrapper :113-130, then the consumer inline *)
Inductive xpc :=
| XDeregAcq | XDeregRel (linked : bool) | XDeregWait   (* stopCallback_.destruct: remove_callback *)
| XRs (r : rs)                                         (* done / error: stopSource_.request_stop, :121 :128 *)
| XN (n : npc)                                         (* value: the consumer starts the next next-op *)
| XReadyL                                              (* cleanup start: cleanupReady_.load, :333 *)
| XRs2 (r : rs)                                        (* :335 *)
| XReadyX.                                             (* :336 *)
(* source_cleanup_done / _error, trigger_cleanup_done / _error: load, exchange, :362-432 *)
Inductive ypc := YCompL | YCompX.
Inductive apc := AIdle | ANext (k : kind) (x : xpc) | ACl (e : bool) (y : ypc).
(* trigger_next_done, :454-471 *)
Inductive bxpc := BReadyL | BRs (r : rs) | BReadyX.
Inductive bpc := BIdle | BNext (x : bxpc) | BCl (e : bool) (y : ypc).
(* ext.request_stop, inplace_stop_token.cpp:40-77 *)
Inductive cpc := CIdle | CUnl (popped : bool) | CRs (r : rs) | CCbDone | CRelock | CRelRel | CFin.

Record st := { cfg : params; m : mem; g : ghost; zp : zpc; ap : apc; bp : bpc; cp : cpc }.

Inductive ev :=
| EConsNextCtor | EConsNextDtor                     (* the consumer's next-op *)
| ECons (k : kind)                                  (* the consumer's next completes *)
| EConsClCtor | EConsClDtor
| EConsCl (r : cres)                                (* the consumer's cleanup completes *)
| EStreamDestroyed | EConsFinished
| ESrcNextCtor | ESrcNextStart | ESrcNextDtor
| ESrcNextComplete (k : kind)
| ETrgNextCtor | ETrgNextStart | ETrgNextComplete | ETrgNextDtor
| ESrcClCtor | ESrcClStart
| ESrcClComplete (e : bool)
| ESrcClCompleteBad                                 (* completion of a destroyed source cleanup op *)
| ESrcClDtor (ok : bool)                            (* false: destructor on storage holding no live op-state *)
| ETrgClCtor | ETrgClStart
| ETrgClComplete (e : bool)
| ETrgClCompleteBad
| ETrgClDtor (ok : bool)
| EViolOutstanding                                  (* the source cleanup op is destroyed while outstanding *)
| EExtObs (locked : bool)                           (* registration sees ext's stop bit *)
| EExtAcq (arel : bool) (old new : nat)             (* lock acquisition on ext *)
| EExtRel (v : nat)
| ECbDone | ECbWait                                 (* callbackCompleted_ store / successful load *)
| ESrcObs (locked : bool)                           (* request_stop sees stopSource_'s stop bit *)
| ESrcAcq | ESrcRel                                 (* CAS 0->3 / store 1 *)
| EReadyL (v : bool) | EReadyX (old : bool)         (* cleanupReady_ *)
| ECompL (v : bool) | ECompX (old : bool).          (* cleanupCompleted_ *)

(* ---------------------------------------------------------------------------------------- *)
(* record updates                                                                           *)

Definition set_ext_locked (v : bool) (x : mem) : mem :=
  {| ext_locked := v; ext_stop := ext_stop x; cb_linked := cb_linked x; cb_reg := cb_reg x; cb_done := cb_done x; src_w := src_w x; ready := ready x; completed := completed x; src_err := src_err x; trg_err := trg_err x |}.
Definition set_ext_stop (v : bool) (x : mem) : mem :=
  {| ext_locked := ext_locked x; ext_stop := v; cb_linked := cb_linked x; cb_reg := cb_reg x; cb_done := cb_done x; src_w := src_w x; ready := ready x; completed := completed x; src_err := src_err x; trg_err := trg_err x |}.
Definition set_cb_linked (v : bool) (x : mem) : mem :=
  {| ext_locked := ext_locked x; ext_stop := ext_stop x; cb_linked := v; cb_reg := cb_reg x; cb_done := cb_done x; src_w := src_w x; ready := ready x; completed := completed x; src_err := src_err x; trg_err := trg_err x |}.
Definition set_cb_reg (v : bool) (x : mem) : mem :=
  {| ext_locked := ext_locked x; ext_stop := ext_stop x; cb_linked := cb_linked x; cb_reg := v; cb_done := cb_done x; src_w := src_w x; ready := ready x; completed := completed x; src_err := src_err x; trg_err := trg_err x |}.
Definition set_cb_done (v : bool) (x : mem) : mem :=
  {| ext_locked := ext_locked x; ext_stop := ext_stop x; cb_linked := cb_linked x; cb_reg := cb_reg x; cb_done := v; src_w := src_w x; ready := ready x; completed := completed x; src_err := src_err x; trg_err := trg_err x |}.
Definition set_src_w (v : sst) (x : mem) : mem :=
  {| ext_locked := ext_locked x; ext_stop := ext_stop x; cb_linked := cb_linked x; cb_reg := cb_reg x; cb_done := cb_done x; src_w := v; ready := ready x; completed := completed x; src_err := src_err x; trg_err := trg_err x |}.
Definition set_ready (v : bool) (x : mem) : mem :=
  {| ext_locked := ext_locked x; ext_stop := ext_stop x; cb_linked := cb_linked x; cb_reg := cb_reg x; cb_done := cb_done x; src_w := src_w x; ready := v; completed := completed x; src_err := src_err x; trg_err := trg_err x |}.
Definition set_completed (v : bool) (x : mem) : mem :=
  {| ext_locked := ext_locked x; ext_stop := ext_stop x; cb_linked := cb_linked x; cb_reg := cb_reg x; cb_done := cb_done x; src_w := src_w x; ready := ready x; completed := v; src_err := src_err x; trg_err := trg_err x |}.
Definition set_src_err (v : bool) (x : mem) : mem :=
  {| ext_locked := ext_locked x; ext_stop := ext_stop x; cb_linked := cb_linked x; cb_reg := cb_reg x; cb_done := cb_done x; src_w := src_w x; ready := ready x; completed := completed x; src_err := v; trg_err := trg_err x |}.
Definition set_trg_err (v : bool) (x : mem) : mem :=
  {| ext_locked := ext_locked x; ext_stop := ext_stop x; cb_linked := cb_linked x; cb_reg := cb_reg x; cb_done := cb_done x; src_w := src_w x; ready := ready x; completed := completed x; src_err := src_err x; trg_err := v |}.
Definition set_cons_next (v : bool) (x : ghost) : ghost :=
  {| cons_next := v; src_next := src_next x; trg_next := trg_next x; cons_cl := cons_cl x; src_cl := src_cl x; trg_cl := trg_cl x; src_cl_pend := src_cl_pend x; trg_cl_pend := trg_cl_pend x; finished := finished x; cons_cl_ctor := cons_cl_ctor x; cl_compl := cl_compl x; src_cl_ctor := src_cl_ctor x; src_cl_dtor := src_cl_dtor x; trg_cl_ctor := trg_cl_ctor x; trg_cl_dtor := trg_cl_dtor x; tc_a := tc_a x; tc_b := tc_b x; fin_src := fin_src x; fin_trg := fin_trg x; uaf := uaf x; bad_dtor := bad_dtor x; dup := dup x; ord_bad := ord_bad x; c_stale := c_stale x |}.
Definition set_src_next (v : life) (x : ghost) : ghost :=
  {| cons_next := cons_next x; src_next := v; trg_next := trg_next x; cons_cl := cons_cl x; src_cl := src_cl x; trg_cl := trg_cl x; src_cl_pend := src_cl_pend x; trg_cl_pend := trg_cl_pend x; finished := finished x; cons_cl_ctor := cons_cl_ctor x; cl_compl := cl_compl x; src_cl_ctor := src_cl_ctor x; src_cl_dtor := src_cl_dtor x; trg_cl_ctor := trg_cl_ctor x; trg_cl_dtor := trg_cl_dtor x; tc_a := tc_a x; tc_b := tc_b x; fin_src := fin_src x; fin_trg := fin_trg x; uaf := uaf x; bad_dtor := bad_dtor x; dup := dup x; ord_bad := ord_bad x; c_stale := c_stale x |}.
Definition set_trg_next (v : life) (x : ghost) : ghost :=
  {| cons_next := cons_next x; src_next := src_next x; trg_next := v; cons_cl := cons_cl x; src_cl := src_cl x; trg_cl := trg_cl x; src_cl_pend := src_cl_pend x; trg_cl_pend := trg_cl_pend x; finished := finished x; cons_cl_ctor := cons_cl_ctor x; cl_compl := cl_compl x; src_cl_ctor := src_cl_ctor x; src_cl_dtor := src_cl_dtor x; trg_cl_ctor := trg_cl_ctor x; trg_cl_dtor := trg_cl_dtor x; tc_a := tc_a x; tc_b := tc_b x; fin_src := fin_src x; fin_trg := fin_trg x; uaf := uaf x; bad_dtor := bad_dtor x; dup := dup x; ord_bad := ord_bad x; c_stale := c_stale x |}.
Definition set_cons_cl (v : life) (x : ghost) : ghost :=
  {| cons_next := cons_next x; src_next := src_next x; trg_next := trg_next x; cons_cl := v; src_cl := src_cl x; trg_cl := trg_cl x; src_cl_pend := src_cl_pend x; trg_cl_pend := trg_cl_pend x; finished := finished x; cons_cl_ctor := cons_cl_ctor x; cl_compl := cl_compl x; src_cl_ctor := src_cl_ctor x; src_cl_dtor := src_cl_dtor x; trg_cl_ctor := trg_cl_ctor x; trg_cl_dtor := trg_cl_dtor x; tc_a := tc_a x; tc_b := tc_b x; fin_src := fin_src x; fin_trg := fin_trg x; uaf := uaf x; bad_dtor := bad_dtor x; dup := dup x; ord_bad := ord_bad x; c_stale := c_stale x |}.
Definition set_src_cl (v : life) (x : ghost) : ghost :=
  {| cons_next := cons_next x; src_next := src_next x; trg_next := trg_next x; cons_cl := cons_cl x; src_cl := v; trg_cl := trg_cl x; src_cl_pend := src_cl_pend x; trg_cl_pend := trg_cl_pend x; finished := finished x; cons_cl_ctor := cons_cl_ctor x; cl_compl := cl_compl x; src_cl_ctor := src_cl_ctor x; src_cl_dtor := src_cl_dtor x; trg_cl_ctor := trg_cl_ctor x; trg_cl_dtor := trg_cl_dtor x; tc_a := tc_a x; tc_b := tc_b x; fin_src := fin_src x; fin_trg := fin_trg x; uaf := uaf x; bad_dtor := bad_dtor x; dup := dup x; ord_bad := ord_bad x; c_stale := c_stale x |}.
Definition set_trg_cl (v : life) (x : ghost) : ghost :=
  {| cons_next := cons_next x; src_next := src_next x; trg_next := trg_next x; cons_cl := cons_cl x; src_cl := src_cl x; trg_cl := v; src_cl_pend := src_cl_pend x; trg_cl_pend := trg_cl_pend x; finished := finished x; cons_cl_ctor := cons_cl_ctor x; cl_compl := cl_compl x; src_cl_ctor := src_cl_ctor x; src_cl_dtor := src_cl_dtor x; trg_cl_ctor := trg_cl_ctor x; trg_cl_dtor := trg_cl_dtor x; tc_a := tc_a x; tc_b := tc_b x; fin_src := fin_src x; fin_trg := fin_trg x; uaf := uaf x; bad_dtor := bad_dtor x; dup := dup x; ord_bad := ord_bad x; c_stale := c_stale x |}.
Definition set_src_cl_pend (v : bool) (x : ghost) : ghost :=
  {| cons_next := cons_next x; src_next := src_next x; trg_next := trg_next x; cons_cl := cons_cl x; src_cl := src_cl x; trg_cl := trg_cl x; src_cl_pend := v; trg_cl_pend := trg_cl_pend x; finished := finished x; cons_cl_ctor := cons_cl_ctor x; cl_compl := cl_compl x; src_cl_ctor := src_cl_ctor x; src_cl_dtor := src_cl_dtor x; trg_cl_ctor := trg_cl_ctor x; trg_cl_dtor := trg_cl_dtor x; tc_a := tc_a x; tc_b := tc_b x; fin_src := fin_src x; fin_trg := fin_trg x; uaf := uaf x; bad_dtor := bad_dtor x; dup := dup x; ord_bad := ord_bad x; c_stale := c_stale x |}.
Definition set_trg_cl_pend (v : bool) (x : ghost) : ghost :=
  {| cons_next := cons_next x; src_next := src_next x; trg_next := trg_next x; cons_cl := cons_cl x; src_cl := src_cl x; trg_cl := trg_cl x; src_cl_pend := src_cl_pend x; trg_cl_pend := v; finished := finished x; cons_cl_ctor := cons_cl_ctor x; cl_compl := cl_compl x; src_cl_ctor := src_cl_ctor x; src_cl_dtor := src_cl_dtor x; trg_cl_ctor := trg_cl_ctor x; trg_cl_dtor := trg_cl_dtor x; tc_a := tc_a x; tc_b := tc_b x; fin_src := fin_src x; fin_trg := fin_trg x; uaf := uaf x; bad_dtor := bad_dtor x; dup := dup x; ord_bad := ord_bad x; c_stale := c_stale x |}.
Definition set_finished (v : bool) (x : ghost) : ghost :=
  {| cons_next := cons_next x; src_next := src_next x; trg_next := trg_next x; cons_cl := cons_cl x; src_cl := src_cl x; trg_cl := trg_cl x; src_cl_pend := src_cl_pend x; trg_cl_pend := trg_cl_pend x; finished := v; cons_cl_ctor := cons_cl_ctor x; cl_compl := cl_compl x; src_cl_ctor := src_cl_ctor x; src_cl_dtor := src_cl_dtor x; trg_cl_ctor := trg_cl_ctor x; trg_cl_dtor := trg_cl_dtor x; tc_a := tc_a x; tc_b := tc_b x; fin_src := fin_src x; fin_trg := fin_trg x; uaf := uaf x; bad_dtor := bad_dtor x; dup := dup x; ord_bad := ord_bad x; c_stale := c_stale x |}.
Definition set_cons_cl_ctor (v : nat) (x : ghost) : ghost :=
  {| cons_next := cons_next x; src_next := src_next x; trg_next := trg_next x; cons_cl := cons_cl x; src_cl := src_cl x; trg_cl := trg_cl x; src_cl_pend := src_cl_pend x; trg_cl_pend := trg_cl_pend x; finished := finished x; cons_cl_ctor := v; cl_compl := cl_compl x; src_cl_ctor := src_cl_ctor x; src_cl_dtor := src_cl_dtor x; trg_cl_ctor := trg_cl_ctor x; trg_cl_dtor := trg_cl_dtor x; tc_a := tc_a x; tc_b := tc_b x; fin_src := fin_src x; fin_trg := fin_trg x; uaf := uaf x; bad_dtor := bad_dtor x; dup := dup x; ord_bad := ord_bad x; c_stale := c_stale x |}.
Definition set_cl_compl (v : nat) (x : ghost) : ghost :=
  {| cons_next := cons_next x; src_next := src_next x; trg_next := trg_next x; cons_cl := cons_cl x; src_cl := src_cl x; trg_cl := trg_cl x; src_cl_pend := src_cl_pend x; trg_cl_pend := trg_cl_pend x; finished := finished x; cons_cl_ctor := cons_cl_ctor x; cl_compl := v; src_cl_ctor := src_cl_ctor x; src_cl_dtor := src_cl_dtor x; trg_cl_ctor := trg_cl_ctor x; trg_cl_dtor := trg_cl_dtor x; tc_a := tc_a x; tc_b := tc_b x; fin_src := fin_src x; fin_trg := fin_trg x; uaf := uaf x; bad_dtor := bad_dtor x; dup := dup x; ord_bad := ord_bad x; c_stale := c_stale x |}.
Definition set_src_cl_ctor (v : nat) (x : ghost) : ghost :=
  {| cons_next := cons_next x; src_next := src_next x; trg_next := trg_next x; cons_cl := cons_cl x; src_cl := src_cl x; trg_cl := trg_cl x; src_cl_pend := src_cl_pend x; trg_cl_pend := trg_cl_pend x; finished := finished x; cons_cl_ctor := cons_cl_ctor x; cl_compl := cl_compl x; src_cl_ctor := v; src_cl_dtor := src_cl_dtor x; trg_cl_ctor := trg_cl_ctor x; trg_cl_dtor := trg_cl_dtor x; tc_a := tc_a x; tc_b := tc_b x; fin_src := fin_src x; fin_trg := fin_trg x; uaf := uaf x; bad_dtor := bad_dtor x; dup := dup x; ord_bad := ord_bad x; c_stale := c_stale x |}.
Definition set_src_cl_dtor (v : nat) (x : ghost) : ghost :=
  {| cons_next := cons_next x; src_next := src_next x; trg_next := trg_next x; cons_cl := cons_cl x; src_cl := src_cl x; trg_cl := trg_cl x; src_cl_pend := src_cl_pend x; trg_cl_pend := trg_cl_pend x; finished := finished x; cons_cl_ctor := cons_cl_ctor x; cl_compl := cl_compl x; src_cl_ctor := src_cl_ctor x; src_cl_dtor := v; trg_cl_ctor := trg_cl_ctor x; trg_cl_dtor := trg_cl_dtor x; tc_a := tc_a x; tc_b := tc_b x; fin_src := fin_src x; fin_trg := fin_trg x; uaf := uaf x; bad_dtor := bad_dtor x; dup := dup x; ord_bad := ord_bad x; c_stale := c_stale x |}.
Definition set_trg_cl_ctor (v : nat) (x : ghost) : ghost :=
  {| cons_next := cons_next x; src_next := src_next x; trg_next := trg_next x; cons_cl := cons_cl x; src_cl := src_cl x; trg_cl := trg_cl x; src_cl_pend := src_cl_pend x; trg_cl_pend := trg_cl_pend x; finished := finished x; cons_cl_ctor := cons_cl_ctor x; cl_compl := cl_compl x; src_cl_ctor := src_cl_ctor x; src_cl_dtor := src_cl_dtor x; trg_cl_ctor := v; trg_cl_dtor := trg_cl_dtor x; tc_a := tc_a x; tc_b := tc_b x; fin_src := fin_src x; fin_trg := fin_trg x; uaf := uaf x; bad_dtor := bad_dtor x; dup := dup x; ord_bad := ord_bad x; c_stale := c_stale x |}.
Definition set_trg_cl_dtor (v : nat) (x : ghost) : ghost :=
  {| cons_next := cons_next x; src_next := src_next x; trg_next := trg_next x; cons_cl := cons_cl x; src_cl := src_cl x; trg_cl := trg_cl x; src_cl_pend := src_cl_pend x; trg_cl_pend := trg_cl_pend x; finished := finished x; cons_cl_ctor := cons_cl_ctor x; cl_compl := cl_compl x; src_cl_ctor := src_cl_ctor x; src_cl_dtor := src_cl_dtor x; trg_cl_ctor := trg_cl_ctor x; trg_cl_dtor := v; tc_a := tc_a x; tc_b := tc_b x; fin_src := fin_src x; fin_trg := fin_trg x; uaf := uaf x; bad_dtor := bad_dtor x; dup := dup x; ord_bad := ord_bad x; c_stale := c_stale x |}.
Definition set_tc_a (v : bool) (x : ghost) : ghost :=
  {| cons_next := cons_next x; src_next := src_next x; trg_next := trg_next x; cons_cl := cons_cl x; src_cl := src_cl x; trg_cl := trg_cl x; src_cl_pend := src_cl_pend x; trg_cl_pend := trg_cl_pend x; finished := finished x; cons_cl_ctor := cons_cl_ctor x; cl_compl := cl_compl x; src_cl_ctor := src_cl_ctor x; src_cl_dtor := src_cl_dtor x; trg_cl_ctor := trg_cl_ctor x; trg_cl_dtor := trg_cl_dtor x; tc_a := v; tc_b := tc_b x; fin_src := fin_src x; fin_trg := fin_trg x; uaf := uaf x; bad_dtor := bad_dtor x; dup := dup x; ord_bad := ord_bad x; c_stale := c_stale x |}.
Definition set_tc_b (v : bool) (x : ghost) : ghost :=
  {| cons_next := cons_next x; src_next := src_next x; trg_next := trg_next x; cons_cl := cons_cl x; src_cl := src_cl x; trg_cl := trg_cl x; src_cl_pend := src_cl_pend x; trg_cl_pend := trg_cl_pend x; finished := finished x; cons_cl_ctor := cons_cl_ctor x; cl_compl := cl_compl x; src_cl_ctor := src_cl_ctor x; src_cl_dtor := src_cl_dtor x; trg_cl_ctor := trg_cl_ctor x; trg_cl_dtor := trg_cl_dtor x; tc_a := tc_a x; tc_b := v; fin_src := fin_src x; fin_trg := fin_trg x; uaf := uaf x; bad_dtor := bad_dtor x; dup := dup x; ord_bad := ord_bad x; c_stale := c_stale x |}.
Definition set_fin_src (v : bool) (x : ghost) : ghost :=
  {| cons_next := cons_next x; src_next := src_next x; trg_next := trg_next x; cons_cl := cons_cl x; src_cl := src_cl x; trg_cl := trg_cl x; src_cl_pend := src_cl_pend x; trg_cl_pend := trg_cl_pend x; finished := finished x; cons_cl_ctor := cons_cl_ctor x; cl_compl := cl_compl x; src_cl_ctor := src_cl_ctor x; src_cl_dtor := src_cl_dtor x; trg_cl_ctor := trg_cl_ctor x; trg_cl_dtor := trg_cl_dtor x; tc_a := tc_a x; tc_b := tc_b x; fin_src := v; fin_trg := fin_trg x; uaf := uaf x; bad_dtor := bad_dtor x; dup := dup x; ord_bad := ord_bad x; c_stale := c_stale x |}.
Definition set_fin_trg (v : bool) (x : ghost) : ghost :=
  {| cons_next := cons_next x; src_next := src_next x; trg_next := trg_next x; cons_cl := cons_cl x; src_cl := src_cl x; trg_cl := trg_cl x; src_cl_pend := src_cl_pend x; trg_cl_pend := trg_cl_pend x; finished := finished x; cons_cl_ctor := cons_cl_ctor x; cl_compl := cl_compl x; src_cl_ctor := src_cl_ctor x; src_cl_dtor := src_cl_dtor x; trg_cl_ctor := trg_cl_ctor x; trg_cl_dtor := trg_cl_dtor x; tc_a := tc_a x; tc_b := tc_b x; fin_src := fin_src x; fin_trg := v; uaf := uaf x; bad_dtor := bad_dtor x; dup := dup x; ord_bad := ord_bad x; c_stale := c_stale x |}.
Definition set_uaf (v : bool) (x : ghost) : ghost :=
  {| cons_next := cons_next x; src_next := src_next x; trg_next := trg_next x; cons_cl := cons_cl x; src_cl := src_cl x; trg_cl := trg_cl x; src_cl_pend := src_cl_pend x; trg_cl_pend := trg_cl_pend x; finished := finished x; cons_cl_ctor := cons_cl_ctor x; cl_compl := cl_compl x; src_cl_ctor := src_cl_ctor x; src_cl_dtor := src_cl_dtor x; trg_cl_ctor := trg_cl_ctor x; trg_cl_dtor := trg_cl_dtor x; tc_a := tc_a x; tc_b := tc_b x; fin_src := fin_src x; fin_trg := fin_trg x; uaf := v; bad_dtor := bad_dtor x; dup := dup x; ord_bad := ord_bad x; c_stale := c_stale x |}.
Definition set_bad_dtor (v : bool) (x : ghost) : ghost :=
  {| cons_next := cons_next x; src_next := src_next x; trg_next := trg_next x; cons_cl := cons_cl x; src_cl := src_cl x; trg_cl := trg_cl x; src_cl_pend := src_cl_pend x; trg_cl_pend := trg_cl_pend x; finished := finished x; cons_cl_ctor := cons_cl_ctor x; cl_compl := cl_compl x; src_cl_ctor := src_cl_ctor x; src_cl_dtor := src_cl_dtor x; trg_cl_ctor := trg_cl_ctor x; trg_cl_dtor := trg_cl_dtor x; tc_a := tc_a x; tc_b := tc_b x; fin_src := fin_src x; fin_trg := fin_trg x; uaf := uaf x; bad_dtor := v; dup := dup x; ord_bad := ord_bad x; c_stale := c_stale x |}.
Definition set_dup (v : bool) (x : ghost) : ghost :=
  {| cons_next := cons_next x; src_next := src_next x; trg_next := trg_next x; cons_cl := cons_cl x; src_cl := src_cl x; trg_cl := trg_cl x; src_cl_pend := src_cl_pend x; trg_cl_pend := trg_cl_pend x; finished := finished x; cons_cl_ctor := cons_cl_ctor x; cl_compl := cl_compl x; src_cl_ctor := src_cl_ctor x; src_cl_dtor := src_cl_dtor x; trg_cl_ctor := trg_cl_ctor x; trg_cl_dtor := trg_cl_dtor x; tc_a := tc_a x; tc_b := tc_b x; fin_src := fin_src x; fin_trg := fin_trg x; uaf := uaf x; bad_dtor := bad_dtor x; dup := v; ord_bad := ord_bad x; c_stale := c_stale x |}.
Definition set_ord_bad (v : bool) (x : ghost) : ghost :=
  {| cons_next := cons_next x; src_next := src_next x; trg_next := trg_next x; cons_cl := cons_cl x; src_cl := src_cl x; trg_cl := trg_cl x; src_cl_pend := src_cl_pend x; trg_cl_pend := trg_cl_pend x; finished := finished x; cons_cl_ctor := cons_cl_ctor x; cl_compl := cl_compl x; src_cl_ctor := src_cl_ctor x; src_cl_dtor := src_cl_dtor x; trg_cl_ctor := trg_cl_ctor x; trg_cl_dtor := trg_cl_dtor x; tc_a := tc_a x; tc_b := tc_b x; fin_src := fin_src x; fin_trg := fin_trg x; uaf := uaf x; bad_dtor := bad_dtor x; dup := dup x; ord_bad := v; c_stale := c_stale x |}.
Definition set_c_stale (v : bool) (x : ghost) : ghost :=
  {| cons_next := cons_next x; src_next := src_next x; trg_next := trg_next x; cons_cl := cons_cl x; src_cl := src_cl x; trg_cl := trg_cl x; src_cl_pend := src_cl_pend x; trg_cl_pend := trg_cl_pend x; finished := finished x; cons_cl_ctor := cons_cl_ctor x; cl_compl := cl_compl x; src_cl_ctor := src_cl_ctor x; src_cl_dtor := src_cl_dtor x; trg_cl_ctor := trg_cl_ctor x; trg_cl_dtor := trg_cl_dtor x; tc_a := tc_a x; tc_b := tc_b x; fin_src := fin_src x; fin_trg := fin_trg x; uaf := uaf x; bad_dtor := bad_dtor x; dup := dup x; ord_bad := ord_bad x; c_stale := v |}.

Definition M (f : mem -> mem) (s : st) : st :=
  {| cfg := cfg s; m := f (m s); g := g s; zp := zp s; ap := ap s; bp := bp s; cp := cp s |}.
Definition Gh (f : ghost -> ghost) (s : st) : st :=
  {| cfg := cfg s; m := m s; g := f (g s); zp := zp s; ap := ap s; bp := bp s; cp := cp s |}.
Definition set_zp (v : zpc) (s : st) : st :=
  {| cfg := cfg s; m := m s; g := g s; zp := v; ap := ap s; bp := bp s; cp := cp s |}.
Definition set_ap (v : apc) (s : st) : st :=
  {| cfg := cfg s; m := m s; g := g s; zp := zp s; ap := v; bp := bp s; cp := cp s |}.
Definition set_bp (v : bpc) (s : st) : st :=
  {| cfg := cfg s; m := m s; g := g s; zp := zp s; ap := ap s; bp := v; cp := cp s |}.
Definition set_cp (v : cpc) (s : st) : st :=
  {| cfg := cfg s; m := m s; g := g s; zp := zp s; ap := ap s; bp := bp s; cp := v |}.

(* ---------------------------------------------------------------------------------------- *)

Definition init (p : params) : st :=
  {| cfg := p;
     m := {| ext_locked := false; ext_stop := false; cb_linked := false; cb_reg := false;
             cb_done := false; src_w := S0; ready := false; completed := false;
             src_err := false; trg_err := false |};
     g := {| cons_next := false; src_next := LNone; trg_next := LNone; cons_cl := LNone;
             src_cl := LNone; trg_cl := LNone; src_cl_pend := false; trg_cl_pend := false;
             finished := false; cons_cl_ctor := 0; cl_compl := 0;
             src_cl_ctor := 0; src_cl_dtor := 0; trg_cl_ctor := 0; trg_cl_dtor := 0;
             tc_a := false; tc_b := false; fin_src := false; fin_trg := false;
             uaf := false; bad_dtor := false; dup := false; ord_bad := false; c_stale := false |};
     zp := ZStart; ap := AIdle; bp := BIdle;
     cp := if p_stop p then CIdle else CFin |}.

(* counters are capped at 2 = "more than once" *)
Definition inc2 (n : nat) : nat := match n with 0 => 1 | _ => 2 end.

Definition is_out (l : life) : bool := match l with LOut => true | _ => false end.
Definition is_none (l : life) : bool := match l with LNone => true | _ => false end.
Definition is_dead (l : life) : bool := match l with LDead => true | _ => false end.

Definition flag_uaf (s : st) : st := Gh (set_uaf true) s.
Definition flag_dup (s : st) : st := Gh (set_dup true) s.
Definition flag_ord (s : st) : st := Gh (set_ord_bad true) s.
Definition flag_bad_dtor (s : st) : st := Gh (set_bad_dtor true) s.

(* every access to a member of the stream / the consumer's next-op / the consumer's cleanup-op *)
Definition touch_stream (s : st) : st := if finished (g s) then flag_uaf s else s.
Definition touch_next (s : st) : st := if cons_next (g s) then s else flag_uaf s.
Definition touch_cl (s : st) : st := if is_out (cons_cl (g s)) then s else flag_uaf s.

Definition stopbit (s : st) : nat := if ext_stop (m s) then 1 else 0.

(* stopSource_.request_stop with no callback registered, inplace_stop_token.cpp:40-77,111-133:
   try_lock_unless_stop_requested returns at once when it sees the stop bit *)
Definition rs_step (r : rs) (s : st) : st * list ev * option rs :=
  let s0 := touch_stream s in
  match r with
  | R1 => match src_w (m s0) with
          | S0 => (M (set_src_w S3) s0, [ESrcAcq], Some R2)
          | S3 => (s0, [ESrcObs true], None)
          | S1 => (s0, [ESrcObs false], None)
          end
  | R2 => (M (set_src_w S1) s0, [ESrcRel], None)
  end.

(* the consumer constructs a next-op (connect constructs innerOp_, :173) and calls start, :176-189:
   the first time the trigger's next is constructed and started *)
Definition new_next (s : st) : st * list ev :=
  let s0 := touch_stream s in
  let s1 := if cons_next (g s0) || is_out (cons_cl (g s0)) then flag_dup s0 else s0 in
  let s2 := Gh (fun x => set_cons_next true (set_src_next LNew x)) s1 in
  let s3 := M (fun x => set_cb_reg false (set_cb_done false x)) s2 in
  if is_none (trg_next (g s3)) then
    (Gh (set_trg_next LOut) s3, [EConsNextCtor; ESrcNextCtor; ETrgNextCtor; ETrgNextStart])
  else (s3, [EConsNextCtor; ESrcNextCtor]).

(* start of innerOp_, :192 *)
Definition finish_start (s : st) : st * list ev :=
  let s0 := touch_next s in
  let s1 := match src_next (g s0) with LNew => s0 | _ => flag_uaf s0 end in
  let s2 := if is_none (src_cl (g s1)) then s1 else flag_ord s1 in
  (Gh (set_src_next LOut) s2, [ESrcNextStart]).

(* stopCallback_.construct, :190: try_add_callback, or run the callback inline when stop was
   already requested on ext (register_callback); None = blocked on ext's lock *)
Definition n_step (n : npc) (s : st) : option (st * list ev * option npc) :=
  match n with
  | NReg =>
      if ext_stop (m s) then Some (touch_next s, [EExtObs (ext_locked (m s))], Some (NInl R1))
      else if ext_locked (m s) then None
      else Some (M (fun x => set_ext_locked true (set_cb_linked true (set_cb_reg true x))) (touch_next s),
                 [EExtAcq true 0 2], Some NRegRel)
  | NRegRel =>
      let (s1, evs) := finish_start (M (set_ext_locked false) s) in
      Some (s1, EExtRel 0 :: evs, None)
  | NInl r =>
      match rs_step r s with
      | (s1, evs, Some r') => Some (s1, evs, Some (NInl r'))
      | (s1, evs, None) => let (s2, e2) := finish_start s1 in Some (s2, evs ++ e2, None)
      end
  end.

Definition c_in_callback (c : cpc) : bool :=
  match c with CUnl true | CRs _ | CCbDone => true | _ => false end.

(* the consumer destroys its next-op (innerOp_ with it) *)
Definition destroy_next (s : st) : st * list ev :=
  let s0 := if is_out (src_next (g s)) || cb_linked (m s) then flag_uaf s else s in
  let s1 := if c_in_callback (cp s0) then Gh (set_c_stale true) s0 else s0 in
  (M (fun x => set_cb_reg false (set_cb_done false x))
     (Gh (fun x => set_cons_next false (set_src_next LDead x)) s1),
   [ESrcNextDtor; EConsNextDtor]).

(* the consumer constructs its cleanup-op and calls start, :323-331: the source cleanup is
   constructed and started *)
Definition start_cleanup (s : st) : st * list ev :=
  let s0 := touch_stream s in
  let s1 := if cons_next (g s0) || negb (is_none (cons_cl (g s0))) then flag_dup s0 else s0 in
  let s2 := if is_out (src_next (g s1)) then flag_ord s1 else s1 in
  (Gh (fun x => set_cons_cl LOut (set_cons_cl_ctor (inc2 (cons_cl_ctor x))
                 (set_src_cl LOut (set_src_cl_ctor (inc2 (src_cl_ctor x)) (set_src_cl_pend true x))))) s2,
   [EConsClCtor; ESrcClCtor; ESrcClStart]).

(* the consumer's next completes with k: destroy the next-op, go on (inline) *)
Definition deliver (k : kind) (s : st) : st * list ev :=
  let s0 := touch_next s in
  let s1 := if cons_next (g s0) then s0 else flag_dup s0 in
  let (s2, e2) := destroy_next s1 in
  let (s3, e3) := match k with KV => new_next s2 | _ => start_cleanup s2 end in
  (s3, ECons k :: e2 ++ e3).

(* start_trigger_cleanup, :348-360 (reached through cleanupOperation_ from trigger_next_done) *)
Definition start_trg_cleanup (w : who) (s : st) : st * list ev :=
  let s0 := touch_cl (touch_stream s) in
  let s1 := if is_dead (trg_next (g s0)) then s0 else flag_ord s0 in
  let s2 := Gh (fun x => set_trg_cl LOut (set_trg_cl_ctor (inc2 (trg_cl_ctor x)) (set_trg_cl_pend true x))) s1 in
  (Gh (match w with WA => set_tc_a true | WB => set_tc_b true end) s2, [ETrgClCtor; ETrgClStart]).

(* the consumer's cleanup receiver is completed, :371-376 :393 :405-410 :427-431; the consumer
   destroys its cleanup-op and is finished: the stream is freed *)
Definition finish_consumer (by_src e : bool) (s : st) : st * list ev :=
  let s0 := touch_cl s in
  let r := match by_src, e with
           | true, false => if trg_err (m s0) then CErrTrg else CDone
           | true, true => CErrSrc
           | false, false => if src_err (m s0) then CErrSrc else CDone
           | false, true => if src_err (m s0) then CErrSrc else CErrTrg
           end in
  let s1 := if is_out (cons_cl (g s0)) then s0 else flag_dup s0 in
  let s2 := Gh (fun x => set_cons_cl LDead (set_finished true (set_cl_compl (inc2 (cl_compl x)) x))) s1 in
  (Gh (if by_src then set_fin_src true else set_fin_trg true) s2,
   [EConsCl r; EConsClDtor; EStreamDestroyed; EConsFinished]).

(* source_cleanup_done / _error, trigger_cleanup_done / _error *)
Definition y_step (by_src e : bool) (y : ypc) (s : st) : st * list ev * option ypc :=
  let s0 := touch_cl s in
  match y with
  | YCompL =>
      if completed (m s0) then
        let (s1, e1) := finish_consumer by_src e s0 in (s1, ECompL true :: e1, None)
      else (s0, [ECompL false], Some YCompX)
  | YCompX =>
      let old := completed (m s0) in
      let s1 := M (set_completed true) s0 in
      if old then let (s2, e2) := finish_consumer by_src e s1 in (s2, ECompX true :: e2, None)
      else (s1, [ECompX false], None)
  end.

(* cleanupReady_: load / exchange, shared by cleanup start (:333-345) and trigger_next_done (:455-470) *)
Definition ready_load (w : who) (s : st) : st * list ev * bool :=
  let s0 := touch_stream s in
  if ready (m s0) then let (s1, e1) := start_trg_cleanup w s0 in (s1, EReadyL true :: e1, true)
  else (s0, [EReadyL false], false).
Definition ready_xchg (w : who) (s : st) : st * list ev :=
  let s0 := touch_stream s in
  let old := ready (m s0) in
  let s1 := M (set_ready true) s0 in
  if old then let (s2, e2) := start_trg_cleanup w s1 in (s2, EReadyX true :: e2)
  else (s1, [EReadyX false]).

(* ---------------------------------------------------------------------------------------- *)
(* thread T0                                                                                *)

Definition step_z (s : st) : option (st * list ev) :=
  match zp s with
  | ZStart => let (s1, evs) := new_next s in Some (set_zp (ZN NReg) s1, evs)
  | ZN n =>
      match n_step n s with
      | None => None
      | Some (s1, evs, Some n') => Some (set_zp (ZN n') s1, evs)
      | Some (s1, evs, None) => Some (set_zp ZFin s1, evs)
      end
  | ZFin => None
  end.

(* ---------------------------------------------------------------------------------------- *)
(* thread A                                                                                 *)

Definition tid_of_kind (k : kind) : nat := match k with KV => 1 | KD => 2 | KE => 3 end.
Definition tid_of_srccl (e : bool) : nat := if e then 5 else 4.
Definition tid_of_trgcl (e : bool) : nat := if e then 8 else 7.

(* the stop callback is gone: value -> forward (:116); done / error -> request_stop first *)
Definition after_dereg (k : kind) (s : st) (evs : list ev) : st * list ev :=
  match k with
  | KV => let (s1, e1) := deliver KV s in (set_ap (ANext KV (XN NReg)) s1, evs ++ e1)
  | _ => (set_ap (ANext k (XRs R1)) s, evs)
  end.

Definition step_a_next (k : kind) (x : xpc) (s : st) : option (st * list ev) :=
  match x with
  | XDeregAcq =>
      if ext_locked (m s) then None
      else
        let linked := cb_linked (m s) in
        Some (set_ap (ANext k (XDeregRel linked))
                (M (fun y => set_ext_locked true (set_cb_linked false y)) (touch_next s)),
              [EExtAcq false (stopbit s) (stopbit s + 2)])
  | XDeregRel linked =>
      let s0 := M (set_ext_locked false) s in
      if linked then Some (after_dereg k s0 [EExtRel (stopbit s)])
      else Some (set_ap (ANext k XDeregWait) s0, [EExtRel (stopbit s)])
  | XDeregWait =>
      if cb_done (m s) then Some (after_dereg k (touch_next s) [ECbWait]) else None
  | XRs r =>
      match rs_step r s with
      | (s1, evs, Some r') => Some (set_ap (ANext k (XRs r')) s1, evs)
      | (s1, evs, None) => let (s2, e2) := deliver k s1 in Some (set_ap (ANext k XReadyL) s2, evs ++ e2)
      end
  | XN n =>
      match n_step n s with
      | None => None
      | Some (s1, evs, Some n') => Some (set_ap (ANext k (XN n')) s1, evs)
      | Some (s1, evs, None) => Some (set_ap AIdle s1, evs)
      end
  | XReadyL =>
      match ready_load WA s with
      | (s1, evs, true) => Some (set_ap AIdle s1, evs)
      | (s1, evs, false) => Some (set_ap (ANext k (XRs2 R1)) s1, evs)     (* cleanupOperation_ = this, :334 *)
      end
  | XRs2 r =>
      match rs_step r s with
      | (s1, evs, Some r') => Some (set_ap (ANext k (XRs2 r')) s1, evs)
      | (s1, evs, None) => Some (set_ap (ANext k XReadyX) s1, evs)
      end
  | XReadyX => let (s1, evs) := ready_xchg WA s in Some (set_ap AIdle s1, evs)
  end.

Definition step_a (t : nat) (s : st) : option (st * list ev) :=
  match ap s with
  | AIdle =>
      let next (k : kind) : option (st * list ev) :=
        if is_out (src_next (g s)) then
          let s1 := Gh (set_src_next LRun) s in
          (* src_next_op do_complete -> receiver_wrapper set_value / set_done / set_error, :113-130 *)
          if cb_reg (m s1) then Some (set_ap (ANext k XDeregAcq) s1, [ESrcNextComplete k])
          else Some (after_dereg k s1 [ESrcNextComplete k])
        else None in
      let cl (e : bool) : option (st * list ev) :=
        if src_cl_pend (g s) then
          let s1 := Gh (set_src_cl_pend false) s in
          if is_out (src_cl (g s1)) then
            (* source_receiver set_done / set_error: sourceOp_.destruct, :228-243 *)
            let s2 := Gh (fun x => set_src_cl LDead (set_src_cl_dtor (inc2 (src_cl_dtor x)) x)) (touch_cl s1) in
            let s3 := if e then M (set_src_err true) s2 else s2 in
            Some (set_ap (ACl e YCompL) s3, [ESrcClComplete e; ESrcClDtor true])
          else Some (flag_uaf s1, [ESrcClCompleteBad])
        else None in
      match t with
      | 1 => next KV | 2 => next KD | 3 => next KE
      | 4 => cl false | 5 => cl true
      | _ => None
      end
  | ANext k x => if Nat.eqb t (tid_of_kind k) then step_a_next k x s else None
  | ACl e y =>
      if Nat.eqb t (tid_of_srccl e) then
        match y_step true e y s with
        | (s1, evs, Some y') => Some (set_ap (ACl e y') s1, evs)
        | (s1, evs, None) => Some (set_ap AIdle s1, evs)
        end
      else None
  end.

(* ---------------------------------------------------------------------------------------- *)
(* thread B                                                                                 *)

(* trigger_receiver set_done / set_error, :269-284: as written set_done destroys sourceOp_
   (set_error always destroyed triggerOp_) *)
Definition trg_cl_destruct (e : bool) (s : st) : st * list ev :=
  if p_fixed (cfg s) || e then
    (Gh (fun x => set_trg_cl LDead (set_trg_cl_dtor (inc2 (trg_cl_dtor x)) x)) s, [ETrgClDtor true])
  else
    let s0 := Gh (set_trg_cl LRun) (flag_bad_dtor s) in
    let s1 := Gh (fun x => set_src_cl_dtor (inc2 (src_cl_dtor x)) x) s0 in
    match src_cl (g s1) with
    | LOut => (Gh (set_src_cl LDead) s1, [EViolOutstanding; ESrcClDtor true])
    | LNew | LRun => (Gh (set_src_cl LDead) s1, [ESrcClDtor true])
    | LNone | LDead => (s1, [ESrcClDtor false])
    end.

Definition step_b (t : nat) (s : st) : option (st * list ev) :=
  match bp s with
  | BIdle =>
      match t with
      | 6 =>
          if is_out (trg_next (g s)) then
            (* trigger_next_receiver: triggerNextOp_.destruct, trigger_next_done, :65-69 *)
            Some (set_bp (BNext BReadyL) (Gh (set_trg_next LDead) (touch_stream s)),
                  [ETrgNextComplete; ETrgNextDtor])
          else None
      | 7 | 8 =>
          let e := Nat.eqb t 8 in
          if trg_cl_pend (g s) then
            let s1 := Gh (set_trg_cl_pend false) s in
            if is_out (trg_cl (g s1)) then
              let (s2, e2) := trg_cl_destruct e (touch_cl s1) in
              let s3 := if e then M (set_trg_err true) s2 else s2 in
              Some (set_bp (BCl e YCompL) s3, ETrgClComplete e :: e2)
            else Some (flag_uaf s1, [ETrgClCompleteBad])
          else None
      | _ => None
      end
  | BNext x =>
      if Nat.eqb t 6 then
        match x with
        | BReadyL =>
            match ready_load WB s with
            | (s1, evs, true) => Some (set_bp BIdle s1, evs)
            | (s1, evs, false) => Some (set_bp (BNext (BRs R1)) s1, evs)
            end
        | BRs r =>
            match rs_step r s with
            | (s1, evs, Some r') => Some (set_bp (BNext (BRs r')) s1, evs)
            | (s1, evs, None) => Some (set_bp (BNext BReadyX) s1, evs)
            end
        | BReadyX => let (s1, evs) := ready_xchg WB s in Some (set_bp BIdle s1, evs)
        end
      else None
  | BCl e y =>
      if Nat.eqb t (tid_of_trgcl e) then
        match y_step false e y s with
        | (s1, evs, Some y') => Some (set_bp (BCl e y') s1, evs)
        | (s1, evs, None) => Some (set_bp BIdle s1, evs)
        end
      else None
  end.

(* ---------------------------------------------------------------------------------------- *)
(* thread C: ext.request_stop, inplace_stop_token.cpp:40-77; the callback is cancel_callback,
   :83-87: stopSource_.request_stop                                                         *)

Definition step_c (s : st) : option (st * list ev) :=
  match cp s with
  | CIdle =>
      if ext_locked (m s) then None
      else
        let popped := cb_linked (m s) in
        Some (set_cp (CUnl popped)
                (M (fun x => set_ext_locked true (set_ext_stop true (set_cb_linked false x))) s),
              [EExtAcq true 0 3])
  | CUnl popped =>
      let s0 := M (set_ext_locked false) s in
      if popped then Some (set_cp (CRs R1) (touch_next s0), [EExtRel 1])
      else Some (set_cp CFin s0, [EExtRel 1])
  | CRs r =>
      match rs_step r s with
      | (s1, evs, Some r') => Some (set_cp (CRs r') s1, evs)
      | (s1, evs, None) => Some (set_cp CCbDone s1, evs)
      end
  | CCbDone =>
      let s0 := if c_stale (g s) then flag_uaf s else touch_next s in
      Some (set_cp CRelock (M (set_cb_done true) s0), [ECbDone])
  | CRelock =>
      if ext_locked (m s) then None
      else Some (set_cp CRelRel (M (set_ext_locked true) s), [EExtAcq false 1 3])
  | CRelRel => Some (set_cp CFin (M (set_ext_locked false) s), [EExtRel 1])
  | CFin => None
  end.

Definition step (t : nat) (s : st) : option (st * list ev) :=
  match t with
  | 0 => step_z s
  | 1 | 2 | 3 | 4 | 5 => step_a t s
  | 6 | 7 | 8 => step_b t s
  | 9 => step_c s
  | _ => None
  end.

Definition nthreads : nat := 10.

Definition z_fin (p : zpc) : bool := match p with ZFin => true | _ => false end.
Definition a_idle (p : apc) : bool := match p with AIdle => true | _ => false end.
Definition b_idle (p : bpc) : bool := match p with BIdle => true | _ => false end.
Definition c_fin (p : cpc) : bool := match p with CFin => true | _ => false end.
(* the consumer is finished and every thread is back in its driver loop / has returned *)
Definition quiescent (s : st) : bool :=
  finished (g s) && z_fin (zp s) && a_idle (ap s) && b_idle (bp s) && c_fin (cp s).

End TakeUntil.
