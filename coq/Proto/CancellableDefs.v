(* E1 model Cancellable: the three-party arbitration of unifex::cancellable<> / try_complete
   (include/unifex/cancellable.hpp: _op::stop_type::start, _op::stop_callback, _op::type::start,
   try_complete) around a nested operation that obeys the contract of every real client
   (v2::async_mutex, v2::async_manual_reset_event, async_pass): the natural completion and the
   nested stop() hook first arbitrate on a word OUTSIDE the operation ("slot"), the winner calls
   try_complete(op) and whoever gets true completes the receiver.

   Threads: 0 = start()            (type::start, stop_type::start, nested.start(), possibly the
                                    stop callback run inline by the registration, possibly
                                    nested.stop() called from start())
            1 = thread A           (the natural completion handed over by nested.start())
            2 = thread B           (request_stop on the receiver's stop source + the stop callback)
            3 = the receiver's owner (destroys the operation once the receiver completed)

   The external inplace_stop_source is abstracted at its linearisation points (its internals are
   property C03's model): REG (try_add_callback: linked, or run inline when already stopped), SET
   (request_stop: flag set and, under the same lock hold, the linked callback claimed for
   execution on thread 2), DEREG (remove_callback's lock acquisition: unlinks / same thread /
   must wait), the store of callbackCompleted_ by thread 2 and the blocking wait for it.

   The model parameter [fx]: false = the code as it is in the tree; true = the proposed repair
   (a start_done bit: a try_complete that wins on another thread while start() is still
   running waits for it; completion on the starting thread is signalled through the stack flag).

   Ghost state: [freed] is set when the winner completes the receiver (from then on the owner may
   destroy the operation at any time); every step that accesses a member of the operation while
   [freed] is set bumps [late].  [dangling] counts stores to the stack flag of start() after
   start() returned.  Executable definitions only. *)
From Coq Require Import List Bool Arith.
Import ListNotations.

Module Cancellable.

Inductive nmode := NSync | NAsync | NNone.
Record params := { early : bool; nm : nmode; fx : bool }.

Inductive outcome := OVal | ODone.

(* the stop callback object (inplace_stop_callback inside the operation) *)
Inductive cbst :=
| CbNone      (* not constructed yet *)
| CbReg       (* linked into the source's list *)
| CbInline    (* source_ = nullptr: ran inline in its constructor; the destructor does nothing *)
| CbRun       (* claimed by request_stop on thread 2: executing or about to *)
| CbRunRm     (* executing on thread 2 and deregistered by thread 2 itself meanwhile *)
| CbDone      (* executed, callbackCompleted_ stored *)
| CbGone.     (* unlinked before it ran *)

Inductive slotst := SIdle | SArmed | STaken | SRemoved.
Definition slot_val (x : slotst) : nat :=
  match x with SIdle => 0 | SArmed => 1 | STaken => 2 | SRemoved => 3 end.

(* nested.start(): not called / running / returned *)
Inductive nstate := NS0 | NSRun | NSRet.

(* program counter inside try_complete (cancellable.hpp:137-177) *)
Inductive tpc :=
| TOr          (* state_.fetch_or(completed) *)
| TFlag        (* sync_complete_ flag store *)
| TWaitSD      (* fx only: spin until start_done *)
| TDereg       (* cleanup_: destroy the callback: remove_callback locks the source *)
| TDeregWait   (* remove_callback spins on callbackCompleted_ *)
| TComplete.   (* try_complete returned true: the caller completes the receiver *)

(* who called try_complete on thread 0 *)
Inductive cont := KSync | KHook | KEarly.

Inductive pc0 :=
| S0Reg            (* type::start: construct the stop callback (line 201) *)
| S0CbOr           (* the callback runs inline: fetch_or(stopped) (line 124) *)
| S0Early          (* StopsEarly: state_.load (line 208) *)
| S0EarlyHook      (* nested.stop() instead of start (line 209) *)
| S0NStart         (* stop_type::start: sync_complete_ = &flag; nested.start() (lines 81-84) *)
| S0Arm            (* nested.start(): hand the completion to thread A *)
| S0Tc (c : cont) (t : tpc)
| S0LoadFlag       (* sync_complete.load (line 90) *)
| S0OrStarted      (* state_.fetch_or(started) (line 95) *)
| S0Hook           (* nested.stop() called from start() (line 97) *)
| S0Slot (c : cont)   (* nested.stop(): CAS slot armed -> removed *)
| S0Spin           (* as-is: spin on the flag (line 103) *)
| S0LoadFlag2      (* fx: flag load after nested.stop() *)
| S0OrDone         (* fx: state_.fetch_or(start_done) *)
| S0Fin.

Inductive pcA := A1Cas | A1Tc (t : tpc) | A1Fin.

Inductive pcB :=
| B2Set            (* request_stop on the source *)
| B2CbOr           (* stop_callback: fetch_or(stopped) (line 124) *)
| B2Hook           (* nested.stop() (line 126) *)
| B2Slot
| B2Tc (t : tpc)
| B2CbRet          (* request_stop stores callbackCompleted_ *)
| B2Fin.

Record st := {
  b_stop : bool; b_start : bool; b_comp : bool; b_sd : bool;   (* state_ bits 1,2,4,16 *)
  syncp : bool;            (* sync_complete_ <> nullptr *)
  flag : bool;             (* the stack-local sync_complete of stop_type::start *)
  src : bool;              (* stop requested on the receiver's source *)
  cb : cbst;
  slot : slotst;
  p0 : pc0; pA : pcA; pB : pcB;
  destroyed : bool;        (* thread 3 destroyed the operation *)
  nst : nstate;
  freed : bool;            (* ghost: the receiver has been completed *)
  completions : list outcome;   (* newest first *)
  hooks : nat;             (* nested.stop() calls *)
  hook_bad : bool;         (* ghost: a hook ran before nested.start() returned (and not instead of it) *)
  late : nat;              (* ghost: member accesses while freed *)
  dangling : nat;          (* ghost: flag stores after start() returned *)
  lost : nat               (* ghost: try_complete calls that returned false *)
}.

Inductive ev :=
| EReg (inl : bool)            (* callback registered (false) / run inline (true) *)
| ESet                         (* request_stop set the flag *)
| EDereg                       (* remove_callback took the source's lock *)
| ECbS                         (* callbackCompleted_.store(true) *)
| ECbL                         (* callbackCompleted_.load() = true *)
| EStOr (old new : nat)        (* state_.fetch_or *)
| EStL (v : nat)               (* state_.load *)
| ESyncS                       (* flag.store(true) *)
| ESyncL (v : bool)            (* flag.load *)
| ESlotS                       (* slot.store(armed) *)
| ESlotC (old new : nat) (ok : bool)   (* slot CAS *)
| ENStart | ENStop
| ERoot (o : outcome)
| EDestroyed.

Definition init (p : params) : st :=
  {| b_stop := false; b_start := false; b_comp := false; b_sd := false;
     syncp := false; flag := false; src := false; cb := CbNone; slot := SIdle;
     p0 := S0Reg; pA := A1Cas; pB := B2Set; destroyed := false; nst := NS0;
     freed := false; completions := []; hooks := 0; hook_bad := false; late := 0;
     dangling := 0; lost := 0 |}.

(* ---- field updates ---------------------------------------------------------------------- *)
Definition with_bits (s : st) (a b c d : bool) : st :=
  {| b_stop := a; b_start := b; b_comp := c; b_sd := d;
     syncp := syncp s; flag := flag s; src := src s; cb := cb s; slot := slot s;
     p0 := p0 s; pA := pA s; pB := pB s; destroyed := destroyed s; nst := nst s;
     freed := freed s; completions := completions s; hooks := hooks s;
     hook_bad := hook_bad s; late := late s; dangling := dangling s; lost := lost s |}.
Definition with_sync (s : st) (sp f : bool) : st :=
  {| b_stop := b_stop s; b_start := b_start s; b_comp := b_comp s; b_sd := b_sd s;
     syncp := sp; flag := f; src := src s; cb := cb s; slot := slot s;
     p0 := p0 s; pA := pA s; pB := pB s; destroyed := destroyed s; nst := nst s;
     freed := freed s; completions := completions s; hooks := hooks s;
     hook_bad := hook_bad s; late := late s; dangling := dangling s; lost := lost s |}.
Definition with_src (s : st) (x : bool) (c : cbst) : st :=
  {| b_stop := b_stop s; b_start := b_start s; b_comp := b_comp s; b_sd := b_sd s;
     syncp := syncp s; flag := flag s; src := x; cb := c; slot := slot s;
     p0 := p0 s; pA := pA s; pB := pB s; destroyed := destroyed s; nst := nst s;
     freed := freed s; completions := completions s; hooks := hooks s;
     hook_bad := hook_bad s; late := late s; dangling := dangling s; lost := lost s |}.
Definition with_slot (s : st) (x : slotst) : st :=
  {| b_stop := b_stop s; b_start := b_start s; b_comp := b_comp s; b_sd := b_sd s;
     syncp := syncp s; flag := flag s; src := src s; cb := cb s; slot := x;
     p0 := p0 s; pA := pA s; pB := pB s; destroyed := destroyed s; nst := nst s;
     freed := freed s; completions := completions s; hooks := hooks s;
     hook_bad := hook_bad s; late := late s; dangling := dangling s; lost := lost s |}.
Definition with_p0 (s : st) (x : pc0) : st :=
  {| b_stop := b_stop s; b_start := b_start s; b_comp := b_comp s; b_sd := b_sd s;
     syncp := syncp s; flag := flag s; src := src s; cb := cb s; slot := slot s;
     p0 := x; pA := pA s; pB := pB s; destroyed := destroyed s; nst := nst s;
     freed := freed s; completions := completions s; hooks := hooks s;
     hook_bad := hook_bad s; late := late s; dangling := dangling s; lost := lost s |}.
Definition with_pA (s : st) (x : pcA) : st :=
  {| b_stop := b_stop s; b_start := b_start s; b_comp := b_comp s; b_sd := b_sd s;
     syncp := syncp s; flag := flag s; src := src s; cb := cb s; slot := slot s;
     p0 := p0 s; pA := x; pB := pB s; destroyed := destroyed s; nst := nst s;
     freed := freed s; completions := completions s; hooks := hooks s;
     hook_bad := hook_bad s; late := late s; dangling := dangling s; lost := lost s |}.
Definition with_pB (s : st) (x : pcB) : st :=
  {| b_stop := b_stop s; b_start := b_start s; b_comp := b_comp s; b_sd := b_sd s;
     syncp := syncp s; flag := flag s; src := src s; cb := cb s; slot := slot s;
     p0 := p0 s; pA := pA s; pB := x; destroyed := destroyed s; nst := nst s;
     freed := freed s; completions := completions s; hooks := hooks s;
     hook_bad := hook_bad s; late := late s; dangling := dangling s; lost := lost s |}.
Definition with_nst (s : st) (x : nstate) : st :=
  {| b_stop := b_stop s; b_start := b_start s; b_comp := b_comp s; b_sd := b_sd s;
     syncp := syncp s; flag := flag s; src := src s; cb := cb s; slot := slot s;
     p0 := p0 s; pA := pA s; pB := pB s; destroyed := destroyed s; nst := x;
     freed := freed s; completions := completions s; hooks := hooks s;
     hook_bad := hook_bad s; late := late s; dangling := dangling s; lost := lost s |}.
Definition with_destroyed (s : st) : st :=
  {| b_stop := b_stop s; b_start := b_start s; b_comp := b_comp s; b_sd := b_sd s;
     syncp := syncp s; flag := flag s; src := src s; cb := cb s; slot := slot s;
     p0 := p0 s; pA := pA s; pB := pB s; destroyed := true; nst := nst s;
     freed := freed s; completions := completions s; hooks := hooks s;
     hook_bad := hook_bad s; late := late s; dangling := dangling s; lost := lost s |}.
(* the receiver is completed with [o] *)
Definition complete (s : st) (o : outcome) : st :=
  {| b_stop := b_stop s; b_start := b_start s; b_comp := b_comp s; b_sd := b_sd s;
     syncp := syncp s; flag := flag s; src := src s; cb := cb s; slot := slot s;
     p0 := p0 s; pA := pA s; pB := pB s; destroyed := destroyed s; nst := nst s;
     freed := true; completions := o :: completions s; hooks := hooks s;
     hook_bad := hook_bad s; late := late s; dangling := dangling s; lost := lost s |}.
(* a nested.stop() call; [ok] = it is legitimate at this point *)
Definition hook (s : st) (ok : bool) : st :=
  {| b_stop := b_stop s; b_start := b_start s; b_comp := b_comp s; b_sd := b_sd s;
     syncp := syncp s; flag := flag s; src := src s; cb := cb s; slot := slot s;
     p0 := p0 s; pA := pA s; pB := pB s; destroyed := destroyed s; nst := nst s;
     freed := freed s; completions := completions s; hooks := S (hooks s);
     hook_bad := hook_bad s || negb ok; late := late s; dangling := dangling s; lost := lost s |}.
(* an access to a member of the operation *)
Definition touch (s : st) : st :=
  {| b_stop := b_stop s; b_start := b_start s; b_comp := b_comp s; b_sd := b_sd s;
     syncp := syncp s; flag := flag s; src := src s; cb := cb s; slot := slot s;
     p0 := p0 s; pA := pA s; pB := pB s; destroyed := destroyed s; nst := nst s;
     freed := freed s; completions := completions s; hooks := hooks s;
     hook_bad := hook_bad s; late := if freed s then S (late s) else late s;
     dangling := dangling s; lost := lost s |}.
Definition dangle (s : st) : st :=
  {| b_stop := b_stop s; b_start := b_start s; b_comp := b_comp s; b_sd := b_sd s;
     syncp := syncp s; flag := flag s; src := src s; cb := cb s; slot := slot s;
     p0 := p0 s; pA := pA s; pB := pB s; destroyed := destroyed s; nst := nst s;
     freed := freed s; completions := completions s; hooks := hooks s;
     hook_bad := hook_bad s; late := late s; dangling := S (dangling s); lost := lost s |}.

Definition lose (s : st) : st :=
  {| b_stop := b_stop s; b_start := b_start s; b_comp := b_comp s; b_sd := b_sd s;
     syncp := syncp s; flag := flag s; src := src s; cb := cb s; slot := slot s;
     p0 := p0 s; pA := pA s; pB := pB s; destroyed := destroyed s; nst := nst s;
     freed := freed s; completions := completions s; hooks := hooks s;
     hook_bad := hook_bad s; late := late s; dangling := dangling s; lost := S (lost s) |}.

Definition b2n (b : bool) : nat := if b then 1 else 0.
(* the value of state_ *)
Definition stv (s : st) : nat :=
  b2n (b_stop s) + 2 * b2n (b_start s) + 4 * b2n (b_comp s) + 16 * b2n (b_sd s).

Definition is_fin0 (p : pc0) : bool := match p with S0Fin => true | _ => false end.

(* ---- try_complete, executed by thread [tid] ---------------------------------------------- *)
Inductive tres := TGo (t : tpc) | TRet.

(* entry of cleanup_: an inline (or absent) callback has nothing to deregister *)
Definition cleanup_entry (s : st) : tres :=
  match cb s with CbInline | CbNone => TGo TComplete | _ => TGo TDereg end.

Definition tc_step (p : params) (tid : nat) (o : outcome) (t : tpc) (s : st)
  : option (st * list ev * tres) :=
  match t with
  | TOr =>
      (* lines 146-167: fetch_or(completed); loser returns false; the winner reads
         sync_complete_ / starter_ and decides how to synchronise with start() *)
      let s1 := touch s in
      let old := stv s in
      let s2 := with_bits s1 (b_stop s) (b_start s) true (b_sd s) in
      let e := [EStOr old (stv s2)] in
      if b_comp s then Some (lose s2, e, TRet)
      else
        let nxt :=
          if fx p then
            if b_sd s then cleanup_entry s
            else if Nat.eqb tid 0 then (if syncp s then TGo TFlag else cleanup_entry s)
            else TGo TWaitSD
          else
            if b_start s then cleanup_entry s
            else if syncp s then TGo TFlag else cleanup_entry s in
        Some (s2, e, nxt)
  | TFlag =>
      (* line 165: flag->store(true) through sync_complete_: the flag lives on the stack of
         thread 0 inside stop_type::start() *)
      let s1 := if is_fin0 (p0 s) then dangle s else s in
      Some (with_sync s1 (syncp s) true, [ESyncS], cleanup_entry s)
  | TWaitSD =>
      if b_sd s then Some (touch s, [EStL (stv s)], cleanup_entry s) else None
  | TDereg =>
      (* line 170 cleanup_ -> ~inplace_stop_callback -> remove_callback *)
      match cb s with
      | CbReg => Some (with_src (touch s) (src s) CbGone, [EDereg], TGo TComplete)
      | CbRun =>
          if Nat.eqb tid 2 then Some (with_src (touch s) (src s) CbRunRm, [EDereg], TGo TComplete)
          else Some (touch s, [EDereg], TGo TDeregWait)
      | CbDone =>
          if Nat.eqb tid 2 then Some (touch s, [EDereg], TGo TComplete)
          else Some (touch s, [EDereg], TGo TDeregWait)
      | _ => None
      end
  | TDeregWait =>
      match cb s with
      | CbDone => Some (touch s, [ECbL], TGo TComplete)
      | _ => None
      end
  | TComplete =>
      Some (complete (touch s) o, [ERoot o], TRet)
  end.

(* the condition under which the stop callback calls nested.stop() (line 125):
   as is: state == started exactly; fx: masked with stopped|started|completed *)
Definition hook_cond (p : params) (s : st) : bool :=
  negb (b_stop s) && b_start s && negb (b_comp s) && (fx p || negb (b_sd s)).

(* nested.stop(): CAS slot armed -> removed; on failure with "taken" it returns at once *)
Definition slot_cas_stop (s : st) : st * list ev * bool (* go on to try_complete *) :=
  match slot s with
  | SArmed => (with_slot s SRemoved, [ESlotC 1 3 true], true)
  | STaken => (s, [ESlotC 2 3 false], false)
  | x => (s, [ESlotC (slot_val x) 3 false], true)
  end.

(* ---- thread 0 ---------------------------------------------------------------------------- *)
Definition ret0 (p : params) (c : cont) (s : st) : st :=
  match c with
  | KSync => with_p0 (with_nst s NSRet) S0LoadFlag
  | KHook => with_p0 s (if fx p then S0LoadFlag2 else S0Fin)
  | KEarly => with_p0 s S0Fin
  end.

Definition after_reg (p : params) : pc0 := if early p then S0Early else S0NStart.

Definition step0 (p : params) (s : st) : option (st * list ev) :=
  match p0 s with
  | S0Reg =>
      let s1 := touch s in
      if src s then Some (with_p0 (with_src s1 true CbInline) S0CbOr, [EReg true])
      else Some (with_p0 (with_src s1 false CbReg) (after_reg p), [EReg false])
  | S0CbOr =>
      if hook_cond p s then None   (* cannot happen: started is not set before nested.start() *)
      else
        let s1 := touch s in
        let s2 := with_bits s1 true (b_start s) (b_comp s) (b_sd s) in
        Some (with_p0 s2 (after_reg p), [EStOr (stv s) (stv s2)])
  | S0Early =>
      Some (with_p0 (touch s) (if b_stop s then S0EarlyHook else S0NStart), [EStL (stv s)])
  | S0EarlyHook =>
      let s1 := hook (touch s) (match nst s with NS0 => true | _ => false end) in
      Some (with_p0 s1 (match nm p with NAsync => S0Slot KEarly | _ => S0Tc KEarly TOr end),
            [ENStop])
  | S0NStart =>
      let s1 := with_nst (with_sync (touch s) true false) NSRun in
      match nm p with
      | NSync => Some (with_p0 s1 (S0Tc KSync TOr), [ENStart])
      | NAsync => Some (with_p0 s1 S0Arm, [ENStart])
      | NNone => Some (with_p0 (with_nst s1 NSRet) S0LoadFlag, [ENStart])
      end
  | S0Arm =>
      Some (with_p0 (with_nst (with_slot s SArmed) NSRet) S0LoadFlag, [ESlotS])
  | S0Tc c t =>
      match tc_step p 0 (match c with KSync => OVal | _ => ODone end) t s with
      | None => None
      | Some (s1, e, TGo t') => Some (with_p0 s1 (S0Tc c t'), e)
      | Some (s1, e, TRet) => Some (ret0 p c s1, e)
      end
  | S0LoadFlag =>
      Some (with_p0 s (if flag s then S0Fin else S0OrStarted), [ESyncL (flag s)])
  | S0OrStarted =>
      let s1 := touch s in
      let s2 := with_bits s1 (b_stop s) true (b_comp s) (b_sd s) in
      let nxt :=
        if fx p then (if b_stop s && negb (b_comp s) then S0Hook else S0OrDone)
        else if b_stop s && negb (b_start s) && negb (b_comp s) && negb (b_sd s) then S0Hook
        else if b_comp s then S0Spin else S0Fin in
      Some (with_p0 s2 nxt, [EStOr (stv s) (stv s2)])
  | S0Hook =>
      let s1 := hook (touch s) (match nst s with NSRet => true | _ => false end) in
      Some (with_p0 s1 (match nm p with NAsync => S0Slot KHook | _ => S0Tc KHook TOr end),
            [ENStop])
  | S0Slot c =>
      let '(s1, e, go) := slot_cas_stop s in
      if go then Some (with_p0 s1 (S0Tc c TOr), e) else Some (ret0 p c s1, e)
  | S0Spin =>
      if flag s then Some (with_p0 s S0Fin, [ESyncL true]) else None
  | S0LoadFlag2 =>
      Some (with_p0 s (if flag s then S0Fin else S0OrDone), [ESyncL (flag s)])
  | S0OrDone =>
      let s1 := touch s in
      let s2 := with_bits s1 (b_stop s) (b_start s) (b_comp s) true in
      Some (with_p0 s2 S0Fin, [EStOr (stv s) (stv s2)])
  | S0Fin => None
  end.

(* ---- thread A ---------------------------------------------------------------------------- *)
Definition stepA (p : params) (s : st) : option (st * list ev) :=
  match pA s with
  | A1Cas =>
      match slot s with
      | SIdle => None                      (* not armed (yet) *)
      | SArmed => Some (with_pA (with_slot s STaken) (A1Tc TOr), [ESlotC 1 2 true])
      | x => Some (with_pA s A1Fin, [ESlotC (slot_val x) 2 false])
      end
  | A1Tc t =>
      match tc_step p 1 OVal t s with
      | None => None
      | Some (s1, e, TGo t') => Some (with_pA s1 (A1Tc t'), e)
      | Some (s1, e, TRet) => Some (with_pA s1 A1Fin, e)
      end
  | A1Fin => None
  end.

(* ---- thread B ---------------------------------------------------------------------------- *)
(* the callback body returned: request_stop stores callbackCompleted_ unless the callback was
   removed during its own execution *)
Definition after_body (s : st) : pcB :=
  match cb s with CbRunRm => B2Fin | _ => B2CbRet end.

Definition stepB (p : params) (s : st) : option (st * list ev) :=
  match pB s with
  | B2Set =>
      if src s then None
      else match cb s with
           | CbReg => Some (with_pB (with_src s true CbRun) B2CbOr, [ESet])
           | c => Some (with_pB (with_src s true c) B2Fin, [ESet])
           end
  | B2CbOr =>
      let s1 := touch s in
      let s2 := with_bits s1 true (b_start s) (b_comp s) (b_sd s) in
      Some (with_pB s2 (if hook_cond p s then B2Hook else after_body s),
            [EStOr (stv s) (stv s2)])
  | B2Hook =>
      let s1 := hook (touch s) (match nst s with NSRet => true | _ => false end) in
      Some (with_pB s1 (match nm p with NAsync => B2Slot | _ => B2Tc TOr end), [ENStop])
  | B2Slot =>
      let '(s1, e, go) := slot_cas_stop s in
      if go then Some (with_pB s1 (B2Tc TOr), e) else Some (with_pB s1 (after_body s1), e)
  | B2Tc t =>
      match tc_step p 2 ODone t s with
      | None => None
      | Some (s1, e, TGo t') => Some (with_pB s1 (B2Tc t'), e)
      | Some (s1, e, TRet) => Some (with_pB s1 (after_body s1), e)
      end
  | B2CbRet =>
      Some (with_pB (with_src (touch s) (src s) CbDone) B2Fin, [ECbS])
  | B2Fin => None
  end.

(* ---- thread 3: the owner of the receiver --------------------------------------------------- *)
(* ~stop_type loads state_ (line 111); a completed operation needs no cleanup *)
Definition stepD (p : params) (s : st) : option (st * list ev) :=
  match completions s with
  | [] => None
  | _ => if destroyed s then None
         else Some (with_destroyed s, [EStL (stv s); EDestroyed])
  end.

Definition step (p : params) (t : nat) (s : st) : option (st * list ev) :=
  match t with
  | 0 => step0 p s
  | 1 => stepA p s
  | 2 => stepB p s
  | 3 => stepD p s
  | _ => None
  end.

Definition is_none {A} (o : option A) : bool := match o with None => true | _ => false end.
(* no thread can move *)
Definition quiescent (p : params) (s : st) : bool :=
  is_none (step p 0 s) && is_none (step p 1 s) && is_none (step p 2 s) && is_none (step p 3 s).

Definition finA (x : pcA) : bool := match x with A1Fin => true | _ => false end.
Definition finB (x : pcB) : bool := match x with B2Fin => true | _ => false end.

End Cancellable.
