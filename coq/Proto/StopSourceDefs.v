(* E1 model StopSource: inplace_stop_source / inplace_stop_token / inplace_stop_callback
   (include/unifex/inplace_stop_token.hpp, source/inplace_stop_token.cpp).
   Executable definitions only.

   Lock granularity: the state_ byte is a spin lock bit (2) plus the stop bit (1).  Every critical
   section is one blocking Acq step and one Rel step; the plain (non atomic) list and field
   updates made inside the critical section are folded into its Rel step.

   Client programs: every thread runs a list of instructions; callback bodies are programs too
   (they may register, deregister other callbacks or themselves, request stop), so re-entrancy is
   inside the quantifier.  Numbers of threads and callbacks are arbitrary (functions over nat).

   Client discipline is enforced dynamically instead of by a hypothesis: [IReg c] is enabled only
   while c has never been registered, [IDereg c] only once the registration of c returned and
   nobody started deregistering c (the owner's external synchronisation: a destructor runs after
   the constructor returned, and once) -- except that a callback running inline inside its own
   registration may destroy itself from inside that execution (the completion path of an
   operation destroys the operation state, callback included).  A thread whose instruction violates the discipline
   simply waits for ever. *)
From Coq Require Import List Bool Arith.
Import ListNotations.

Module StopSource.

Inductive instr :=
| IReg (c : nat)      (* construct inplace_stop_callback number c on the token *)
| IDereg (c : nat)    (* destroy it *)
| IReqStop            (* source.request_stop() *)
| IStopReq            (* source.stop_requested() *)
| IWait (c : nat).    (* owner synchronisation only: wait until the constructor of c returned *)
Definition prog := list instr.

(* registration state of a callback; CLinked <-> prevPtr_ != nullptr (it is in callbacks_) *)
Inductive cstate :=
| CNew                (* not constructed yet *)
| CReg                (* constructor inside try_add_callback, holds the lock *)
| CLinked             (* in the list *)
| CPopped             (* dequeued by request_stop (prevPtr_ = nullptr) *)
| CInl                (* registration found stop requested: source_ = nullptr, runs inline *)
| CUnlinked.          (* removed from the list by remove_callback before it ever ran *)
(* ghost: execution of the callback body *)
Inductive xstate := XNone | XRun (t : nat) | XEnded.
(* ghost: destruction *)
Inductive dstate := DNone | DStarted (t : nat) | DDone (t : nat).

Record cbrec := {
  cst : cstate;
  xst : xstate;
  dst : dstate;
  completed : bool;   (* callbackCompleted_ *)
  rdc : bool;         (* removedDuringCallback_ != nullptr *)
  removed : bool      (* the notifier's local flag the pointer refers to *)
}.

Definition cb0 : cbrec :=
  {| cst := CNew; xst := XNone; dst := DNone; completed := false; rdc := false; removed := false |}.

(* a thread is a stack of frames, head = innermost *)
Inductive frame :=
| FRun (oc : option nat) (k : prog)   (* running a program: None = the thread's own, Some c = body of callback c *)
| FReqLoop                            (* request_stop: holds the lock, about to test callbacks_ *)
| FReqPost (c : nat)                  (* request_stop: execute of c returned *)
| FReqLock                            (* request_stop: about to lock again *)
| FRegCS (c : nat)                    (* try_add_callback: holds the lock *)
| FDeregLock (c : nat)                (* remove_callback: about to lock *)
| FDeregCS (c : nat) (old : bool)     (* remove_callback: holds the lock; old = stop bit read by lock *)
| FDeregWait (c : nat).               (* remove_callback: spinning on callbackCompleted_ *)

Inductive evk :=
| EAcq (ar : bool) (old new : nat)   (* successful CAS on state_ that sets the lock bit; ar: acq_rel
                                 (try_lock_unless_stop_requested), otherwise acquire (lock) *)
| ERel (v : nat)              (* store release to state_ clearing the lock bit *)
| EObs (acq : bool) (v : nat) (* a load of state_ the code acted on: stop_requested (acquire) or
                                 the stop-already-requested exit of try_lock_unless_stop_requested (relaxed) *)
| EExec (c : nat)             (* body of callback c entered *)
| EEnd (c : nat)              (* body of callback c left *)
| EDone (c : nat)             (* callbackCompleted_.store(true, release) *)
| EWait (c : nat)             (* callbackCompleted_.load(acquire) returned true *)
| EDeregBegin (c : nat)       (* destructor of c called *)
| EDeregRet (c : nat)         (* destructor of c returned *)
| ERsRet (b : bool)           (* request_stop returned b  (false = this call was the first) *)
| EWaitReg (c : nat).         (* IWait c passed *)
Definition ev := (nat * evk)%type.

Record st := {
  locked : bool;
  stop : bool;
  lst : list nat;             (* callbacks_, head first *)
  notifier : option nat;      (* notifyingThreadId_ *)
  cbs : nat -> cbrec;
  thr : nat -> list frame;
  bodies : nat -> prog
}.

Definition upd {A} (f : nat -> A) (i : nat) (x : A) : nat -> A :=
  fun j => if Nat.eqb j i then x else f j.

Definition word (l sp : bool) : nat := (if l then 2 else 0) + (if sp then 1 else 0).

Definition set_thr (s : st) (t : nat) (k : list frame) : st :=
  {| locked := locked s; stop := stop s; lst := lst s; notifier := notifier s; cbs := cbs s;
     thr := upd (thr s) t k; bodies := bodies s |}.
Definition set_cb (s : st) (c : nat) (r : cbrec) : st :=
  {| locked := locked s; stop := stop s; lst := lst s; notifier := notifier s;
     cbs := upd (cbs s) c r; thr := thr s; bodies := bodies s |}.
Definition set_word (s : st) (l sp : bool) : st :=
  {| locked := l; stop := sp; lst := lst s; notifier := notifier s; cbs := cbs s;
     thr := thr s; bodies := bodies s |}.
Definition set_lst (s : st) (l : list nat) : st :=
  {| locked := locked s; stop := stop s; lst := l; notifier := notifier s; cbs := cbs s;
     thr := thr s; bodies := bodies s |}.
Definition set_notifier (s : st) (n : option nat) : st :=
  {| locked := locked s; stop := stop s; lst := lst s; notifier := n; cbs := cbs s;
     thr := thr s; bodies := bodies s |}.

(* the constructor of the callback has returned *)
Definition regd (r : cbrec) : bool :=
  match cst r, xst r with
  | CNew, _ | CReg, _ => false
  | CInl, XEnded => true
  | CInl, _ => false
  | _, _ => true
  end.

(* a callback that ran inline (source_ = nullptr) may be destroyed by thread t: its constructor
   has returned, or t is the thread still inside the inline execution *)
Definition inl_ready (t : nat) (x : xstate) : bool :=
  match x with XEnded => true | XRun t' => Nat.eqb t' t | XNone => false end.

Definition is_notifier (s : st) (t : nat) : bool :=
  match notifier s with Some n => Nat.eqb n t | None => false end.

Definition step (t : nat) (s : st) : option (st * list ev) :=
  match thr s t with
  | [] => None
  | FRun oc [] :: rest =>
      match oc with
      | None => None
      (* the callback body returns.  For an inline callback this is also where the constructor
         (register_callback, inplace_stop_token.hpp) returns. *)
      | Some c =>
          let r := cbs s c in
          Some (set_thr (set_cb s c {| cst := cst r; xst := XEnded; dst := dst r; completed := completed r;
                                       rdc := rdc r; removed := removed r |}) t rest,
                [(t, EEnd c)])
      end
  | FRun oc (i :: k) :: rest =>
      let cont := FRun oc k :: rest in
      match i with
      (* stop_requested(): state_.load(acquire), inplace_stop_token.hpp *)
      | IStopReq => Some (set_thr s t cont, [(t, EObs true (word (locked s) (stop s)))])
      | IWait c => if regd (cbs s c) then Some (set_thr s t cont, [(t, EWaitReg c)]) else None
      (* request_stop(), first step: try_lock_unless_stop_requested(true), inplace_stop_token.cpp:40-46,
         96-120; blocking while locked and not stopped *)
      | IReqStop =>
          if stop s then
            Some (set_thr s t cont, [(t, EObs false (word (locked s) true)); (t, ERsRet true)])
          else if locked s then None
          else Some (set_thr (set_notifier (set_word s true true) (Some t)) t (FReqLoop :: cont),
                     [(t, EAcq true 0 3)])
      (* constructor: register_callback -> try_add_callback -> try_lock_unless_stop_requested(false),
         inplace_stop_token.cpp:122-127; on failure source_ = nullptr and execute() inline *)
      | IReg c =>
          let r := cbs s c in
          match cst r with
          | CNew =>
              if stop s then
                Some (set_thr (set_cb s c {| cst := CInl; xst := XRun t; dst := dst r;
                                             completed := completed r; rdc := rdc r; removed := removed r |})
                              t (FRun (Some c) (bodies s c) :: cont),
                      [(t, EObs false (word (locked s) true)); (t, EExec c)])
              else if locked s then None
              else Some (set_thr (set_cb (set_word s true false) c
                                    {| cst := CReg; xst := xst r; dst := dst r; completed := completed r;
                                       rdc := rdc r; removed := removed r |})
                                 t (FRegCS c :: cont),
                         [(t, EAcq true 0 2)])
          | _ => None
          end
      (* destructor: waits (external synchronisation) until the constructor returned; with
         source_ == nullptr it does nothing; otherwise remove_callback *)
      | IDereg c =>
          let r := cbs s c in
          match dst r with
          | DNone =>
              match cst r with
              | CInl =>
                  (* source_ was set to nullptr before the inline execute(): the destructor does not
                     touch the source; allowed once the constructor returned or, before that, from
                     inside the inline execution itself (same thread) *)
                  if inl_ready t (xst r) then
                    Some (set_thr (set_cb s c {| cst := cst r; xst := xst r; dst := DDone t;
                                                 completed := completed r; rdc := rdc r; removed := removed r |})
                                  t cont,
                          [(t, EDeregBegin c); (t, EDeregRet c)])
                  else None
              | CLinked | CPopped =>
                  Some (set_thr (set_cb s c {| cst := cst r; xst := xst r; dst := DStarted t;
                                               completed := completed r; rdc := rdc r; removed := removed r |})
                                t (FDeregLock c :: cont),
                        [(t, EDeregBegin c)])
              | _ => None
              end
          | _ => None
          end
      end
  (* request_stop loop head, inplace_stop_token.cpp:48-58 and 70-75 *)
  | FReqLoop :: rest =>
      match lst s with
      | [] => Some (set_thr (set_word s false true) t rest, [(t, ERel 1); (t, ERsRet false)])
      | c :: l =>
          let r := cbs s c in
          Some (set_thr (set_cb (set_lst (set_word s false true) l) c
                           {| cst := CPopped; xst := XRun t; dst := dst r; completed := completed r;
                              rdc := true; removed := false |})
                        t (FRun (Some c) (bodies s c) :: FReqPost c :: rest),
                [(t, ERel 1); (t, EExec c)])
      end
  (* after execute(): inplace_stop_token.cpp:63-68; when the callback was removed during its own
     execution nothing of it is touched and the next access is the lock *)
  | FReqPost c :: rest =>
      let r := cbs s c in
      if removed r then
        if locked s then None
        else Some (set_thr (set_word s true (stop s)) t (FReqLoop :: rest),
                   [(t, EAcq false (word false (stop s)) (word true (stop s)))])
      else
        Some (set_thr (set_cb s c {| cst := cst r; xst := xst r; dst := dst r; completed := true;
                                     rdc := false; removed := removed r |})
                      t (FReqLock :: rest),
              [(t, EDone c)])
  (* lock(), inplace_stop_token.cpp:77-90 *)
  | FReqLock :: rest =>
      if locked s then None
      else Some (set_thr (set_word s true (stop s)) t (FReqLoop :: rest),
                 [(t, EAcq false (word false (stop s)) (word true (stop s)))])
  (* try_add_callback critical section and unlock(0), inplace_stop_token.cpp:129-138 *)
  | FRegCS c :: rest =>
      let r := cbs s c in
      Some (set_thr (set_cb (set_lst (set_word s false false) (c :: lst s)) c
                       {| cst := CLinked; xst := xst r; dst := dst r; completed := completed r;
                          rdc := rdc r; removed := removed r |})
                    t rest,
            [(t, ERel 0)])
  (* remove_callback: lock(), inplace_stop_token.cpp:141-143 *)
  | FDeregLock c :: rest =>
      if locked s then None
      else Some (set_thr (set_word s true (stop s)) t (FDeregCS c (stop s) :: rest),
                 [(t, EAcq false (word false (stop s)) (word true (stop s)))])
  (* remove_callback critical section, unlock(oldState) and the thread-private decision after it,
     inplace_stop_token.cpp:145-164 *)
  | FDeregCS c old :: rest =>
      let r := cbs s c in
      match cst r with
      | CLinked =>
          Some (set_thr (set_cb (set_lst (set_word s false old) (remove Nat.eq_dec c (lst s))) c
                           {| cst := CUnlinked; xst := xst r; dst := DDone t; completed := completed r;
                              rdc := rdc r; removed := removed r |})
                        t rest,
                [(t, ERel (word false old)); (t, EDeregRet c)])
      | _ =>
          if is_notifier s t then
            Some (set_thr (set_cb (set_word s false old) c
                             {| cst := cst r; xst := xst r; dst := DDone t; completed := completed r;
                                rdc := rdc r; removed := if rdc r then true else removed r |})
                          t rest,
                  [(t, ERel (word false old)); (t, EDeregRet c)])
          else
            Some (set_thr (set_word s false old) t (FDeregWait c :: rest),
                  [(t, ERel (word false old))])
      end
  (* remove_callback: wait for callbackCompleted_, inplace_stop_token.cpp:165-171 *)
  | FDeregWait c :: rest =>
      let r := cbs s c in
      if completed r then
        Some (set_thr (set_cb s c {| cst := cst r; xst := xst r; dst := DDone t; completed := completed r;
                                     rdc := rdc r; removed := removed r |})
                      t rest,
              [(t, EWait c); (t, EDeregRet c)])
      else None
  end.

Definition init (progs : list prog) (bods : list prog) : st :=
  {| locked := false; stop := false; lst := []; notifier := None;
     cbs := fun _ => cb0;
     thr := fun t => match nth_error progs t with Some p => [FRun None p] | None => [] end;
     bodies := fun c => nth c bods [] |}.

(* a thread that has run its whole program *)
Definition finished (s : st) (t : nat) : bool :=
  match thr s t with
  | [] => true
  | [FRun None []] => true
  | _ => false
  end.

(* projections for the model driver *)
Definition cb_summary (s : st) (c : nat) : (cstate * xstate * dstate * bool) :=
  let r := cbs s c in (cst r, xst r, dst r, completed r).

End StopSource.
