(* Proofs about the E1 model Cancellable (Proto/CancellableDefs.v).

   For each of the 12 parameter values (StopsEarly x nested behaviour x as-is/repaired) the model
   is a finite-state machine (every program counter only moves forward).  The proofs are by
   reflection on a COMPLETE inductive invariant: [reach p] computes the set of reachable states
   by a work-list search; [closed] checks inside Coq that the set contains the initial state and
   is closed under [step p t] for every thread id (ids >= 4 cannot move); [reach_invariant] then
   shows by induction over an ARBITRARY schedule (run_invariant_state) that every state of every
   run is in the set, and the properties are decided on every element of the set.  Nothing is
   sampled: the kernel re-checks closure and the properties of all reachable states.

   Soundness does not depend on the hash [code] being injective: membership compares the stored
   state with [st_eq_dec]. *)
From Coq Require Import List Bool Arith Lia PArith NArith FMapPositive.
From V Require Import Base.Sched Proto.CancellableDefs.
Import ListNotations.
Import Cancellable.

(* ------------------------------------------------------------------------------------------ *)
(* decidable equality of states                                                               *)

Definition outcome_eq_dec : forall a b : outcome, {a = b} + {a <> b}.
Proof. decide equality. Defined.
Definition cbst_eq_dec : forall a b : cbst, {a = b} + {a <> b}.
Proof. decide equality. Defined.
Definition slotst_eq_dec : forall a b : slotst, {a = b} + {a <> b}.
Proof. decide equality. Defined.
Definition nstate_eq_dec : forall a b : nstate, {a = b} + {a <> b}.
Proof. decide equality. Defined.
Definition tpc_eq_dec : forall a b : tpc, {a = b} + {a <> b}.
Proof. decide equality. Defined.
Definition cont_eq_dec : forall a b : cont, {a = b} + {a <> b}.
Proof. decide equality. Defined.
Definition pc0_eq_dec : forall a b : pc0, {a = b} + {a <> b}.
Proof. decide equality; try apply tpc_eq_dec; apply cont_eq_dec. Defined.
Definition pcA_eq_dec : forall a b : pcA, {a = b} + {a <> b}.
Proof. decide equality; apply tpc_eq_dec. Defined.
Definition pcB_eq_dec : forall a b : pcB, {a = b} + {a <> b}.
Proof. decide equality; apply tpc_eq_dec. Defined.
Definition st_eq_dec : forall a b : st, {a = b} + {a <> b}.
Proof.
  decide equality; try apply Bool.bool_dec; try apply Nat.eq_dec;
    try apply cbst_eq_dec; try apply slotst_eq_dec; try apply nstate_eq_dec;
    try apply pc0_eq_dec; try apply pcA_eq_dec; try apply pcB_eq_dec.
  apply (list_eq_dec outcome_eq_dec).
Defined.

(* ------------------------------------------------------------------------------------------ *)
(* a hash of states (only used to index the map)                                              *)

Local Open Scope N_scope.
Definition nb (b : bool) : N := if b then 1 else 0.
Definition c_cb (x : cbst) : N :=
  match x with CbNone => 0 | CbReg => 1 | CbInline => 2 | CbRun => 3 | CbRunRm => 4
             | CbDone => 5 | CbGone => 6 end.
Definition c_slot (x : slotst) : N :=
  match x with SIdle => 0 | SArmed => 1 | STaken => 2 | SRemoved => 3 end.
Definition c_nst (x : nstate) : N := match x with NS0 => 0 | NSRun => 1 | NSRet => 2 end.
Definition c_tpc (x : tpc) : N :=
  match x with TOr => 0 | TFlag => 1 | TWaitSD => 2 | TDereg => 3 | TDeregWait => 4
             | TComplete => 5 end.
Definition c_cont (x : cont) : N := match x with KSync => 0 | KHook => 1 | KEarly => 2 end.
Definition c_pc0 (x : pc0) : N :=
  match x with
  | S0Reg => 0 | S0CbOr => 1 | S0Early => 2 | S0EarlyHook => 3 | S0NStart => 4 | S0Arm => 5
  | S0LoadFlag => 6 | S0OrStarted => 7 | S0Hook => 8 | S0Spin => 9 | S0LoadFlag2 => 10
  | S0OrDone => 11 | S0Fin => 12
  | S0Slot c => 13 + c_cont c
  | S0Tc c t => 16 + 6 * c_cont c + c_tpc t
  end.
Definition c_pcA (x : pcA) : N :=
  match x with A1Cas => 0 | A1Fin => 1 | A1Tc t => 2 + c_tpc t end.
Definition c_pcB (x : pcB) : N :=
  match x with B2Set => 0 | B2CbOr => 1 | B2Hook => 2 | B2Slot => 3 | B2CbRet => 4
             | B2Fin => 5 | B2Tc t => 6 + c_tpc t end.
Fixpoint c_outs (l : list outcome) : N :=
  match l with
  | [] => 0
  | OVal :: r => 1 + 3 * c_outs r
  | ODone :: r => 2 + 3 * c_outs r
  end.

Definition mix (acc radix v : N) : N := acc * radix + v.

Definition code (s : st) : positive :=
  let a := nb (b_stop s) in
  let a := mix a 2 (nb (b_start s)) in
  let a := mix a 2 (nb (b_comp s)) in
  let a := mix a 2 (nb (b_sd s)) in
  let a := mix a 2 (nb (syncp s)) in
  let a := mix a 2 (nb (flag s)) in
  let a := mix a 2 (nb (src s)) in
  let a := mix a 8 (c_cb (cb s)) in
  let a := mix a 4 (c_slot (slot s)) in
  let a := mix a 64 (c_pc0 (p0 s)) in
  let a := mix a 8 (c_pcA (pA s)) in
  let a := mix a 16 (c_pcB (pB s)) in
  let a := mix a 2 (nb (destroyed s)) in
  let a := mix a 4 (c_nst (nst s)) in
  let a := mix a 2 (nb (freed s)) in
  let a := mix a 2 (nb (hook_bad s)) in
  let a := mix a 16 (c_outs (completions s)) in
  let a := mix a 8 (N.of_nat (hooks s)) in
  let a := mix a 16 (N.of_nat (late s)) in
  let a := mix a 8 (N.of_nat (dangling s)) in
  let a := mix a 4 (N.of_nat (lost s)) in
  N.succ_pos a.
Local Close Scope N_scope.

(* ------------------------------------------------------------------------------------------ *)
(* reachable set, closure check                                                               *)

Definition smap := PositiveMap.t st.

Definition succs (p : params) (s : st) : list st :=
  flat_map (fun t => match step p t s with Some (s', _) => [s'] | None => [] end) [0; 1; 2; 3].

Definition inR (R : smap) (s : st) : bool :=
  match PositiveMap.find (code s) R with
  | Some s' => if st_eq_dec s s' then true else false
  | None => false
  end.

Fixpoint add_new (l : list st) (work : list st) (seen : smap) : list st * smap :=
  match l with
  | [] => (work, seen)
  | s :: r =>
      match PositiveMap.find (code s) seen with
      | Some _ => add_new r work seen
      | None => add_new r (s :: work) (PositiveMap.add (code s) s seen)
      end
  end.

Fixpoint bfs (p : params) (fuel : nat) (work : list st) (seen : smap) : smap :=
  match fuel with
  | O => seen
  | S f =>
      match work with
      | [] => seen
      | s :: w => let '(w', seen') := add_new (succs p s) w seen in bfs p f w' seen'
      end
  end.

Definition reach (p : params) : smap :=
  bfs p 4000 [init p] (PositiveMap.add (code (init p)) (init p) (PositiveMap.empty st)).

Definition closed (p : params) (R : smap) : bool :=
  forallb (fun cs => forallb (inR R) (succs p (snd cs))) (PositiveMap.elements R).

Definition all_ok (P : st -> bool) (R : smap) : bool :=
  forallb (fun cs => P (snd cs)) (PositiveMap.elements R).

Lemma inR_elements R s : inR R s = true -> In (code s, s) (PositiveMap.elements R).
Proof.
  unfold inR. destruct (PositiveMap.find (code s) R) as [s'|] eqn:E; [|discriminate].
  destruct (st_eq_dec s s') as [->|]; [|discriminate]. intros _.
  apply PositiveMap.elements_correct. exact E.
Qed.

Lemma step_in_succs p t s s' evs : step p t s = Some (s', evs) -> In s' (succs p s).
Proof.
  intros H. unfold succs. apply in_flat_map.
  destruct t as [|[|[|[|t]]]]; [exists 0|exists 1|exists 2|exists 3|discriminate H];
    (split; [cbn; tauto|rewrite H; left; reflexivity]).
Qed.

Lemma closed_step p R : closed p R = true ->
  forall s t s' evs, inR R s = true -> step p t s = Some (s', evs) -> inR R s' = true.
Proof.
  intros Hc s t s' evs Hin Hs. unfold closed in Hc. rewrite forallb_forall in Hc.
  specialize (Hc _ (inR_elements _ _ Hin)). cbn [snd] in Hc. rewrite forallb_forall in Hc.
  apply Hc. eapply step_in_succs; eauto.
Qed.

(* every state of every run is in a closed set that contains the initial state *)
Theorem reach_invariant p R :
  inR R (init p) = true -> closed p R = true ->
  forall sched, inR R (fst (run (step p) sched (init p, []))) = true.
Proof.
  intros Hi Hc sched.
  apply (run_invariant_state st nat ev (step p) (fun s => inR R s = true)); [|exact Hi].
  intros s t s' e HI Hs. eapply closed_step; eauto.
Qed.

Lemma all_ok_in P R s : all_ok P R = true -> inR R s = true -> P s = true.
Proof.
  unfold all_ok. rewrite forallb_forall. intros H Hin.
  exact (H _ (inR_elements _ _ Hin)).
Qed.

(* ------------------------------------------------------------------------------------------ *)
(* the properties, as one decidable predicate on states                                       *)

Definition is_async (p : params) : bool := match nm p with NAsync => true | _ => false end.

Definition cb_torn_down (c : cbst) : bool :=
  match c with CbReg | CbRun => false | _ => true end.

(* what holds when no thread can move any more *)
Definition final_ok (s : st) : bool :=
  Nat.eqb (length (completions s)) 1 && destroyed s && is_fin0 (p0 s) && finB (pB s) &&
  (finA (pA s) || match slot s with SIdle => true | _ => false end).

(* properties that hold for the code as it is AND for the repaired code *)
Definition P_common (p : params) (s : st) : bool :=
  Nat.leb (length (completions s)) 1 &&                     (* at most one completion *)
  Nat.leb (hooks s) 1 &&                                    (* the stop hook runs at most once *)
  negb (hook_bad s) &&                                      (* ... after nested.start() returned, or instead of it *)
  Nat.eqb (dangling s) 0 &&                                 (* the stack flag is never written after start() returned *)
  (negb (quiescent p s) || final_ok s) &&                   (* exactly one completion at quiescence, no deadlock *)
  (negb (freed s) || cb_torn_down (cb s)) &&                (* callback deregistered / finished before completion *)
  (match completions s with ODone :: _ => src s | _ => true end) &&   (* done only after a stop request *)
  (fx p || negb (b_sd s)) &&
  Nat.eqb (lost s) 0.                                       (* try_complete never returns false *)

(* quiet_after_completion *)
Definition P_quiet (s : st) : bool := Nat.eqb (late s) 0.

Definition P_all (p : params) (s : st) : bool :=
  P_common p s && (if fx p || negb (is_async p) then P_quiet s else true).

Definition check_with (p : params) (R : smap) : bool :=
  inR R (init p) && closed p R && all_ok (P_all p) R.

Definition all_params : list params :=
  flat_map (fun e => flat_map (fun n => map (fun f => {| early := e; nm := n; fx := f |})
                                           [false; true])
                              [NSync; NAsync; NNone])
           [false; true].

Lemma check_all : forallb (fun p => check_with p (reach p)) all_params = true.
Proof. vm_compute. reflexivity. Qed.

Lemma params_in p : In p all_params.
Proof. destruct p as [[] [] []]; cbn; tauto. Qed.

Lemma check_with_sound p R : check_with p R = true ->
  forall sched, P_all p (fst (run (step p) sched (init p, []))) = true.
Proof.
  unfold check_with. intros H sched.
  apply andb_true_iff in H as [H H3]. apply andb_true_iff in H as [H1 H2].
  eapply all_ok_in; [exact H3|]. apply reach_invariant; assumption.
Qed.

Lemma check_p p : check_with p (reach p) = true.
Proof.
  pose proof check_all as H. rewrite forallb_forall in H.
  specialize (H p (params_in p)). cbv beta in H. exact H.
Qed.

Theorem P_all_reachable p sched : P_all p (fst (run (step p) sched (init p, []))) = true.
Proof. exact (check_with_sound p (reach p) (check_p p) sched). Qed.

(* ------------------------------------------------------------------------------------------ *)
(* the statements                                                                             *)

Lemma final_ok_spec s : final_ok s = true ->
  length (completions s) = 1 /\ destroyed s = true /\ p0 s = S0Fin /\ pB s = B2Fin /\
  (pA s = A1Fin \/ slot s = SIdle).
Proof.
  unfold final_ok. intros H.
  apply andb_true_iff in H as [H H5]. apply andb_true_iff in H as [H H4].
  apply andb_true_iff in H as [H H3]. apply andb_true_iff in H as [H1 H2].
  apply Nat.eqb_eq in H1. repeat split; try assumption.
  - destruct (p0 s); try discriminate H3; reflexivity.
  - destruct (pB s); try discriminate H4; reflexivity.
  - apply orb_true_iff in H5 as [H5|H5].
    + left. destruct (pA s); try discriminate H5; reflexivity.
    + right. destruct (slot s); try discriminate H5; reflexivity.
Qed.

Lemma P_common_spec p s : P_common p s = true ->
  length (completions s) <= 1 /\
  hooks s <= 1 /\
  hook_bad s = false /\
  dangling s = 0 /\
  (quiescent p s = true -> final_ok s = true) /\
  (freed s = true -> cb_torn_down (cb s) = true) /\
  (forall r, completions s = ODone :: r -> src s = true) /\
  (fx p = false -> b_sd s = false) /\
  lost s = 0.
Proof.
  unfold P_common. intros H.
  apply andb_true_iff in H as [H H9]. apply Nat.eqb_eq in H9.
  apply andb_true_iff in H as [H H8]. apply andb_true_iff in H as [H H7].
  apply andb_true_iff in H as [H H6]. apply andb_true_iff in H as [H H5].
  apply andb_true_iff in H as [H H4]. apply andb_true_iff in H as [H H3].
  apply andb_true_iff in H as [H1 H2].
  apply Nat.leb_le in H1. apply Nat.leb_le in H2. apply negb_true_iff in H3.
  apply Nat.eqb_eq in H4.
  repeat split; try assumption.
  - intros Hq. rewrite Hq in H5. exact H5.
  - intros Hf. rewrite Hf in H6. exact H6.
  - intros r Hr. rewrite Hr in H7. exact H7.
  - intros Hf. rewrite Hf in H8. apply negb_true_iff in H8. exact H8.
Qed.

Section Main.
  Variable p : params.
  Variable sched : list nat.
  Let s := fst (run (step p) sched (init p, [])).

  Lemma P_common_s : P_common p s = true.
  Proof.
    pose proof (P_all_reachable p sched) as H. unfold P_all in H.
    apply andb_true_iff in H as [H _]. exact H.
  Qed.

  (* the receiver is completed at most once, and exactly once when no thread can move any more;
     then the operation has been destroyed, start() and the stop request have returned and
     thread A is done or was never armed: no deadlock, nothing lost *)
  Theorem one_completer :
    length (completions s) <= 1 /\
    (quiescent p s = true ->
       length (completions s) = 1 /\ destroyed s = true /\ p0 s = S0Fin /\ pB s = B2Fin /\
       (pA s = A1Fin \/ slot s = SIdle)).
  Proof.
    destruct (P_common_spec p s P_common_s) as (H1 & _ & _ & _ & H5 & _).
    split; [exact H1|]. intros Hq. apply final_ok_spec. exact (H5 Hq).
  Qed.

  (* the stop hook runs at most once, and only after nested.start() returned (or, in StopsEarly
     mode, instead of it) *)
  Theorem stop_hook_once_only_if_started : hooks s <= 1 /\ hook_bad s = false.
  Proof.
    destruct (P_common_spec p s P_common_s) as (_ & H2 & H3 & _). split; assumption.
  Qed.

  (* a done completion is only delivered if stop was requested; the stop callback is
     deregistered or has finished (or is the completing thread's own) when the receiver is
     completed; the stack flag of start() is never written after start() returned *)
  Theorem completion_side_conditions :
    (forall r, completions s = ODone :: r -> src s = true) /\
    (freed s = true -> cb s <> CbReg /\ cb s <> CbRun) /\
    dangling s = 0.
  Proof.
    destruct (P_common_spec p s P_common_s) as (_ & _ & _ & H4 & _ & H6 & H7 & _).
    split; [exact H7|]. split; [|exact H4].
    intros Hf. specialize (H6 Hf). split; intros Hc; rewrite Hc in H6; discriminate H6.
  Qed.

  (* under the contract of the nested operation (completion and stop() arbitrate on the slot
     first) the `completed` bit is never contended: no try_complete call returns false *)
  Theorem try_complete_never_loses : lost s = 0.
  Proof.
    destruct (P_common_spec p s P_common_s) as (_ & _ & _ & _ & _ & _ & _ & _ & H9). exact H9.
  Qed.

  (* quiet_after_completion: after the receiver has been completed no thread accesses a member
     of the operation - for the repaired protocol, and for the code as it is unless the nested
     operation hands its completion to another thread *)
  Theorem quiet_after_completion_cond :
    fx p = true \/ nm p <> NAsync -> late s = 0.
  Proof.
    intros Hc. pose proof (P_all_reachable p sched) as H. unfold P_all in H.
    apply andb_true_iff in H as [_ H].
    assert (E : fx p || negb (is_async p) = true).
    { destruct Hc as [->|Hn]; [reflexivity|].
      unfold is_async. destruct (nm p); try (exfalso; apply Hn; reflexivity);
        apply orb_true_r. }
    rewrite E in H. apply Nat.eqb_eq. exact H.
  Qed.
End Main.

(* ------------------------------------------------------------------------------------------ *)
(* the code as it is violates quiet_after_completion: two windows in stop_type::start()       *)

(* W1 (cancellable.hpp:90-95): start() finds the stack flag clear, thread A then runs the whole
   try_complete and completes the receiver, start() then executes state_.fetch_or(started) on an
   operation the receiver may already have destroyed. *)
Definition w1_sched (e : bool) : list nat :=
  (if e then [0] else []) ++ [0; 0; 0; 0; 1; 1; 1; 1; 1; 0].

(* W2 (cancellable.hpp:95-97): stop is requested first; start()'s fetch_or(started) returns
   exactly `stopped`, so start() is going to call nested.stop(); before it does, thread A
   completes (its try_complete sees started and does not synchronise with start() at all);
   nested.stop() then runs on a dead operation. *)
Definition w2_sched (e : bool) : list nat :=
  if e then [0; 0; 0; 0; 0; 2; 2; 0; 1; 1; 1; 2; 1; 1; 0]
  else [2; 0; 0; 0; 0; 0; 0; 1; 1; 1; 1; 0].

Theorem quiet_after_completion_refuted : forall e : bool,
  let p := {| early := e; nm := NAsync; fx := false |} in
  (exists sched, 0 < late (fst (run (step p) sched (init p, [])))) /\
  (* W1: the last two events are the completion of the receiver and then fetch_or(started) *)
  (let c := run (step p) (w1_sched e) (init p, []) in
   late (fst c) = 1 /\ completions (fst c) = [OVal] /\
   firstn 2 (rev (snd c)) = [EStOr 4 6; ERoot OVal]) /\
  (* W2: the last two events are the completion of the receiver and then the nested stop hook *)
  (let c := run (step p) (w2_sched e) (init p, []) in
   late (fst c) = 1 /\ completions (fst c) = [OVal] /\ hooks (fst c) = 1 /\
   firstn 2 (rev (snd c)) = [ENStop; ERoot OVal]).
Proof.
  intros [|]; cbv zeta.
  - split; [exists (w1_sched true); vm_compute; lia|].
    split; vm_compute; repeat split.
  - split; [exists (w1_sched false); vm_compute; lia|].
    split; vm_compute; repeat split.
Qed.
