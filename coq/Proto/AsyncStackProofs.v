(* Proofs about the AsyncStack model (Proto/AsyncStackDefs.v): for every op tree, every family of traced
   runs and every schedule, no assert of the async-stack code fires, every thread's chain of roots is
   exactly the roots of its open brackets (hence restored at quiescence), activations and deactivations
   balance per (root, frame), and the parent chain of a started operation's frame lists its ancestors. *)
From Coq Require Import List Bool Arith Lia.
From V Require Import Base.Sched Proto.AsyncStackDefs.
Import ListNotations.
Import AsyncStack.

Arguments upd : simpl never.

Lemma upd_eq {A} (f : nat -> A) i v : upd f i v i = v.
Proof. unfold upd. now rewrite Nat.eqb_refl. Qed.
Lemma upd_neq {A} (f : nat -> A) i v j : j <> i -> upd f i v j = f j.
Proof. unfold upd. intros H. destruct (Nat.eqb_spec j i); congruence. Qed.

Lemma oeqb_eq a b : oeqb a b = true <-> a = b.
Proof.
  destruct a as [x|], b as [y|]; simpl; split; try congruence; intros H.
  - apply Nat.eqb_eq in H. congruence.
  - inversion H. apply Nat.eqb_refl.
Qed.

(* ---- the invariant ------------------------------------------------------------------------ *)
Definition own (s : st) (t r : nat) : Prop :=
  r < nroots s /\ r_thr (roots s r) = t /\ r_live (roots s r) = true.

Definition icond (s : st) (t : nat) (it : item) : Prop :=
  match it with
  | Do _ => True
  | Opening kd r f n prep body =>
      own s t r /\ r_top (roots s r) = None /\ f_root (frames s f) = None /\
      match kd with
      | KS => f = n /\ n < nops s /\ begun s n = Some r /\ started s n = false /\
              (f_parent (frames s n) = if prep then par s n else None) /\
              (forall p, par s n = Some p -> started s p = true)
      | KW => f = n /\ n < nops s /\ begun s n = Some r /\ started s n = false /\ prep = true /\
              par s n = None /\ f_parent (frames s n) = None
      | KC => f = nops s + r /\ n < nops s /\ started s n = true
      | KL => False
      end
  | Closing kd r f pop =>
      own s t r /\
      if pop then r_top (roots s r) = None
      else r_top (roots s r) = Some f /\
           match kd with
           | KS => f < nops s /\ started s f = true
           | KW => f < nops s /\ started s f = true /\ f_root (frames s f) = Some r
           | KC => f = nops s + r /\ f_root (frames s f) = Some r
           | KL => False
           end
  end.

Inductive linked (s : st) : option nat -> list nat -> Prop :=
| linked_nil : linked s None []
| linked_cons r l : linked s (r_next (roots s r)) l -> linked s (Some r) (r :: l).

Definition tinv (s : st) (t : nat) : Prop :=
  Forall (icond s t) (conts s t) /\
  linked s (cur s t) (pending_roots (conts s t)) /\
  NoDup (pending_roots (conts s t)).

Record GI (s : st) : Prop := {
  gi_failed : failed s = false;
  gi_thr : forall t, t < nthreads s -> tinv s t;
  gi_fresh : forall n, n < nops s -> begun s n = None -> started s n = false /\ frames s n = frame0;
  gi_started : forall n, started s n = true ->
      n < nops s /\ f_parent (frames s n) = par s n /\ forall p, par s n = Some p -> started s p = true;
  gi_live : forall r, r_live (roots s r) = true ->
      r < nroots s /\ r_thr (roots s r) < nthreads s /\ In r (pending_roots (conts s (r_thr (roots s r))));
  gi_dead : forall r, r_live (roots s r) = false -> r_top (roots s r) = None;
  gi_beyond : forall r, nroots s <= r -> roots s r = root0 /\ frames s (nops s + r) = frame0
}.

Definition item_root (it : item) : option nat :=
  match it with Do _ => None | Opening _ r _ _ _ _ => Some r | Closing _ r _ _ => Some r end.
(* the frame whose contents the item's condition depends on *)
Definition item_frame (it : item) : option nat :=
  match it with
  | Opening _ _ f _ _ _ => Some f
  | Closing KW _ f false | Closing KC _ f false => Some f
  | _ => None
  end.
Definition item_op (it : item) : option nat :=
  match it with
  | Opening _ _ _ n _ _ => Some n
  | Closing KS _ f false | Closing KW _ f false => Some f
  | _ => None
  end.

Lemma icond_frame s s' t it :
  icond s t it ->
  nops s' = nops s -> par s' = par s -> nroots s <= nroots s' ->
  (forall r, item_root it = Some r -> roots s' r = roots s r) ->
  (forall f, item_frame it = Some f -> frames s' f = frames s f) ->
  (forall n, item_op it = Some n -> begun s' n = begun s n /\ started s' n = started s n) ->
  (forall n, started s n = true -> started s' n = true) ->
  icond s' t it.
Proof.
  intros H Hn Hp Hr Hro Hfr Hop Hmono.
  destruct it as [a|kd r f n prep body|kd r f pop]; simpl in *; auto.
  - destruct H as ((H1 & H2 & H3) & H4 & H5 & H6).
    specialize (Hro r eq_refl). specialize (Hfr f eq_refl). destruct (Hop n eq_refl) as [Hb Hs].
    unfold own. rewrite Hro, Hfr, Hn, Hp.
    repeat split; auto; try lia.
    destruct kd; auto.
    + destruct H6 as (-> & ? & ? & ? & ? & ?). rewrite Hb, Hs, Hfr. repeat split; auto.
    + destruct H6 as (? & ? & ?). rewrite Hs. repeat split; auto.
    + destruct H6 as (-> & ? & ? & ? & ? & ? & ?). rewrite Hb, Hs, Hfr. repeat split; auto.
  - destruct H as ((H1 & H2 & H3) & H4).
    specialize (Hro r eq_refl). unfold own. rewrite Hro.
    split; [repeat split; auto; lia|].
    destruct pop; auto. destruct H4 as [H4 H5]. split; auto.
    destruct kd; auto.
    + destruct (Hop f eq_refl) as [_ Hs]. rewrite Hn, Hs. auto.
    + rewrite Hn, (Hfr f eq_refl). auto.
    + destruct (Hop f eq_refl) as [_ Hs]. rewrite Hn, Hs, (Hfr f eq_refl). auto.
Qed.

(* ---- small facts ---------------------------------------------------------------------------- *)
Lemma pending_roots_app a b : pending_roots (a ++ b) = pending_roots a ++ pending_roots b.
Proof. induction a as [|x a IH]; simpl; auto. destruct x; simpl; rewrite IH; auto. Qed.
Lemma pending_roots_do body : pending_roots (map Do body) = [].
Proof. induction body; simpl; auto. Qed.
Lemma forall_do s t body : Forall (icond s t) (map Do body).
Proof. induction body; simpl; constructor; simpl; auto. Qed.

Lemma in_pending_item r k : In r (pending_roots k) -> exists it, In it k /\ item_root it = Some r.
Proof.
  induction k as [|x k IH]; simpl; [tauto|]. destruct x; simpl.
  - intros H. destruct (IH H) as (it & ? & ?). eauto.
  - intros [<-|H]; [eexists; split; [left; reflexivity|reflexivity]|]. destruct (IH H) as (it & ? & ?). eauto.
  - intros [<-|H]; [eexists; split; [left; reflexivity|reflexivity]|]. destruct (IH H) as (it & ? & ?). eauto.
Qed.
Lemma item_in_pending it k r : In it k -> item_root it = Some r -> In r (pending_roots k).
Proof.
  induction k as [|x k IH]; simpl; [tauto|]. intros [->|H] E.
  - destruct it; simpl in *; try discriminate; inversion E; subst; left; auto.
  - destruct x; simpl; auto.
Qed.

Lemma linked_ext s s' c l :
  (forall r, In r l -> r_next (roots s' r) = r_next (roots s r)) -> linked s c l -> linked s' c l.
Proof.
  intros H L. induction L; constructor. rewrite H by (left; auto). apply IHL. intros; apply H; right; auto.
Qed.

Lemma icond_root_own s t it r : icond s t it -> item_root it = Some r -> own s t r.
Proof. destruct it; simpl; try discriminate; intros H E; inversion E; subst; tauto. Qed.

(* two items on different roots never depend on the same frame *)
Lemma excl_frame s t1 t2 h it r1 r2 f :
  icond s t1 h -> icond s t2 it -> item_root h = Some r1 -> item_root it = Some r2 -> r1 <> r2 ->
  item_frame h = Some f -> item_frame it = Some f -> False.
Proof.
  intros H1 H2 E1 E2 Hne F1 F2.
  destruct h as [a|kd r f1 n prep body|kd r f1 pop]; simpl in *; try discriminate;
  destruct it as [a'|kd' r' f2 n' prep' body'|kd' r' f2 pop']; simpl in *; try discriminate.
  - inversion E1; inversion E2; inversion F1; inversion F2; subst.
    destruct H1 as (_ & _ & A1 & B1), H2 as (_ & _ & A2 & B2).
    destruct kd, kd'; try tauto; intuition (try congruence; try lia).
  - inversion E1; inversion E2; subst. destruct pop'; [destruct kd'; discriminate|].
    destruct H1 as (_ & _ & A1 & B1), H2 as (_ & A2 & B2).
    destruct kd'; try discriminate; inversion F1; inversion F2; subst;
      destruct kd; try tauto; intuition (try congruence; try lia).
  - inversion E1; inversion E2; subst. destruct pop; [destruct kd; discriminate|].
    destruct H1 as (_ & A1 & B1), H2 as (_ & _ & A2 & B2).
    destruct kd; try discriminate; inversion F1; inversion F2; subst;
      destruct kd'; try tauto; intuition (try congruence; try lia).
  - inversion E1; inversion E2; subst. destruct pop; [destruct kd; discriminate|]. destruct pop'; [destruct kd'; discriminate|].
    destruct H1 as (_ & A1 & B1), H2 as (_ & A2 & B2).
    destruct kd; try discriminate; destruct kd'; try discriminate; inversion F1; inversion F2; subst;
      intuition (try congruence; try lia).
Qed.

(* an operation about to be activated is not the operation of any other item *)
Lemma excl_op_started s t1 t2 kd r1 f n prep body it r2 :
  icond s t1 (Opening kd r1 f n prep body) -> (kd = KS \/ kd = KW) ->
  icond s t2 it -> item_root it = Some r2 -> r1 <> r2 -> item_op it = Some n -> False.
Proof.
  intros H1 Hk H2 E2 Hne O2.
  assert (Hb : begun s n = Some r1 /\ started s n = false).
  { destruct H1 as (_ & _ & _ & B). destruct Hk; subst kd; tauto. }
  destruct Hb as [Hb Hs].
  destruct it as [a'|kd' r' f2 n' prep' body'|kd' r' f2 pop']; simpl in *; try discriminate.
  - inversion E2; inversion O2; subst. destruct H2 as (_ & _ & _ & B2).
    destruct kd'; try tauto; intuition congruence.
  - inversion E2; subst. destruct pop'; [destruct kd'; discriminate|].
    destruct H2 as (_ & _ & B2). destruct kd'; try discriminate; inversion O2; subst; intuition congruence.
Qed.

(* an operation that has not begun is not the operation of any item *)
Lemma excl_op_begun s t2 it n :
  (forall m, m < nops s -> begun s m = None -> started s m = false /\ frames s m = frame0) ->
  begun s n = None -> icond s t2 it -> item_op it = Some n -> False.
Proof.
  intros G Hb H2 O2.
  destruct it as [a'|kd' r' f2 n' prep' body'|kd' r' f2 pop']; simpl in *; try discriminate.
  - inversion O2; subst. destruct H2 as (_ & _ & _ & B2).
    destruct kd'; try tauto.
    + intuition congruence.
    + destruct B2 as (_ & Hn & Hs). destruct (G n Hn Hb). congruence.
    + intuition congruence.
  - destruct pop'; [destruct kd'; discriminate|].
    destruct H2 as (_ & _ & B2). destruct kd'; try discriminate; inversion O2; subst;
      (destruct (G n) as [? _]; [tauto|auto|]; intuition congruence).
Qed.

(* ---- what a step of thread t leaves alone --------------------------------------------------- *)
Record frame_rel (s s' : st) (t : nat) (wr wf wo : nat -> Prop) : Prop := {
  fr_nops : nops s' = nops s; fr_par : par s' = par s; fr_nthr : nthreads s' = nthreads s;
  fr_nroots : nroots s <= nroots s';
  fr_roots : forall r, r < nroots s -> ~ wr r -> roots s' r = roots s r;
  fr_frames : forall f, ~ wf f -> frames s' f = frames s f;
  fr_ops : forall n, ~ wo n -> begun s' n = begun s n /\ started s' n = started s n;
  fr_mono : forall n, started s n = true -> started s' n = true;
  fr_conts : forall t', t' <> t -> conts s' t' = conts s t';
  fr_cur : forall t', t' <> t -> cur s' t' = cur s t'
}.

Lemma items_preserved s s' t wr wf wo t2 l :
  frame_rel s s' t wr wf wo -> Forall (icond s t2) l ->
  (forall it r, In it l -> item_root it = Some r -> ~ wr r) ->
  (forall it f, In it l -> item_frame it = Some f -> ~ wf f) ->
  (forall it n, In it l -> item_op it = Some n -> ~ wo n) ->
  Forall (icond s' t2) l.
Proof.
  intros F H Hr Hf Ho. rewrite Forall_forall in *. intros it Hin.
  apply (icond_frame s s' t2 it (H it Hin)); try apply F.
  - intros r E. apply (fr_roots _ _ _ _ _ _ F); [|eauto].
    destruct (icond_root_own _ _ _ _ (H it Hin) E); auto.
  - intros f E. apply (fr_frames _ _ _ _ _ _ F). eauto.
  - intros n E. apply (fr_ops _ _ _ _ _ _ F). eauto.
Qed.

Lemma others_ok s s' t h k wo :
  GI s -> t < nthreads s -> conts s t = h :: k ->
  frame_rel s s' t (fun r => item_root h = Some r) (fun f => item_frame h = Some f) wo ->
  (forall t2 it n, t2 < nthreads s -> In it (conts s t2) -> (t2 <> t \/ In it k) ->
                   item_op it = Some n -> ~ wo n) ->
  (forall t2, t2 < nthreads s -> t2 <> t -> tinv s' t2) /\
  Forall (icond s' t) k /\
  (forall r, In r (pending_roots k) -> roots s' r = roots s r).
Proof.
  intros G Ht Hc F Hwo.
  destruct (gi_thr s G t Ht) as (HF & HL & HN). rewrite Hc in HF, HL, HN.
  assert (Hh : icond s t h) by (inversion HF; auto).
  assert (Hk : Forall (icond s t) k) by (inversion HF; auto).
  assert (Hnotin : forall r, item_root h = Some r -> ~ In r (pending_roots k)).
  { intros r E. destruct h; simpl in *; try discriminate; inversion E; subst; inversion HN; auto. }
  split; [|split].
  - intros t2 Ht2 Hne. destruct (gi_thr s G t2 Ht2) as (HF2 & HL2 & HN2).
    unfold tinv. rewrite (fr_conts _ _ _ _ _ _ F t2 Hne), (fr_cur _ _ _ _ _ _ F t2 Hne).
    assert (Hroots : forall it r, In it (conts s t2) -> item_root it = Some r -> ~ item_root h = Some r).
    { intros it r Hin E E'. rewrite Forall_forall in HF2.
      destruct (icond_root_own _ _ _ _ (HF2 it Hin) E) as (_ & A & _).
      destruct (icond_root_own _ _ _ _ Hh E') as (_ & B & _). congruence. }
    split; [|split]; auto.
    + eapply items_preserved; [exact F|exact HF2|exact Hroots| | ].
      * intros it f Hin E E'. rewrite Forall_forall in HF2.
        destruct h as [a|kd r1 f1 n1 p1 b1|kd r1 f1 p1]; try discriminate.
        -- destruct it as [a'|kd' r' f2 n' prep' body'|kd' r' f2 pop']; try discriminate;
           (eapply (excl_frame s t t2); [exact Hh|exact (HF2 _ Hin)|reflexivity|reflexivity| |exact E'|exact E];
            intros ->; eapply Hroots; eauto; reflexivity).
        -- destruct it as [a'|kd' r' f2 n' prep' body'|kd' r' f2 pop']; try discriminate;
           (eapply (excl_frame s t t2); [exact Hh|exact (HF2 _ Hin)|reflexivity|reflexivity| |exact E'|exact E];
            intros ->; eapply Hroots; eauto; reflexivity).
      * intros it n Hin E. eapply Hwo; eauto.
    + eapply linked_ext; [|exact HL2]. intros r Hin. f_equal.
      destruct (in_pending_item _ _ Hin) as (it & Hit & E). rewrite Forall_forall in HF2.
      apply (fr_roots _ _ _ _ _ _ F); [destruct (icond_root_own _ _ _ _ (HF2 it Hit) E); auto|eauto].
  - eapply items_preserved; [exact F|exact Hk| | | ].
    + intros it r Hin E E'. eapply Hnotin; eauto. eapply item_in_pending; eauto.
    + intros it f Hin E E'. rewrite Forall_forall in Hk.
      destruct h as [a|kd r1 f1 n1 p1 b1|kd r1 f1 p1]; try discriminate;
      destruct it as [a'|kd' r' f2 n' prep' body'|kd' r' f2 pop']; try discriminate;
      (eapply (excl_frame s t t); [exact Hh|exact (Hk _ Hin)|reflexivity|reflexivity| |exact E'|exact E];
       intros ->; eapply Hnotin; [reflexivity|]; eapply item_in_pending; eauto; reflexivity).
    + intros it n Hin E. eapply (Hwo t); eauto. rewrite Hc. right; auto.
  - intros r Hin. destruct (in_pending_item _ _ Hin) as (it & Hit & E). rewrite Forall_forall in Hk.
    apply (fr_roots _ _ _ _ _ _ F); [destruct (icond_root_own _ _ _ _ (Hk it Hit) E); auto|].
    intros E'. eapply Hnotin; eauto.
Qed.

(* ---- assembling the invariant after a step of thread t whose continuation was h :: k --------- *)
Lemma build_GI s s' t h k knew wo :
  GI s -> t < nthreads s -> conts s t = h :: k ->
  frame_rel s s' t (fun r => item_root h = Some r) (fun f => item_frame h = Some f) wo ->
  (forall t2 it n, t2 < nthreads s -> In it (conts s t2) -> (t2 <> t \/ In it k) ->
                   item_op it = Some n -> ~ wo n) ->
  failed s' = false ->
  conts s' t = knew ++ k ->
  Forall (icond s' t) knew ->
  (linked s (match item_root h with Some r => r_next (roots s r) | None => cur s t end) (pending_roots k) ->
   linked s' (cur s' t) (pending_roots knew ++ pending_roots k)) ->
  (forall r, In r (pending_roots knew) -> ~ In r (pending_roots k)) -> NoDup (pending_roots knew) ->
  (forall n, n < nops s' -> begun s' n = None -> started s' n = false /\ frames s' n = frame0) ->
  (forall n, started s' n = true ->
      n < nops s' /\ f_parent (frames s' n) = par s' n /\ forall p, par s' n = Some p -> started s' p = true) ->
  (forall r, r_live (roots s' r) = true ->
      r < nroots s' /\ r_thr (roots s' r) < nthreads s' /\ In r (pending_roots (conts s' (r_thr (roots s' r))))) ->
  (forall r, r_live (roots s' r) = false -> r_top (roots s' r) = None) ->
  (forall r, nroots s' <= r -> roots s' r = root0 /\ frames s' (nops s' + r) = frame0) ->
  GI s'.
Proof.
  intros G Ht Hc F Hwo Hfail Hc' Hnew Hlink Hdisj Hnd G1 G2 G3 G4 G5.
  destruct (others_ok s s' t h k wo G Ht Hc F Hwo) as (Hoth & Htail & Hsame).
  destruct (gi_thr s G t Ht) as (HF & HL & HN). rewrite Hc in HF, HL, HN.
  constructor; auto.
  intros t2 Ht2. rewrite (fr_nthr _ _ _ _ _ _ F) in Ht2.
  destruct (Nat.eq_dec t2 t) as [->|Hne]; [|auto].
  unfold tinv. rewrite Hc', pending_roots_app. split; [|split].
  - apply Forall_app. auto.
  - apply Hlink. destruct h as [a|kd r f n p b|kd r f p]; simpl in *; auto; inversion HL; auto.
  - assert (NoDup (pending_roots k)).
    { destruct h; simpl in HN; auto; inversion HN; auto. }
    clear - Hdisj Hnd H. induction (pending_roots knew) as [|x l IH]; simpl; auto.
    inversion Hnd; subst. constructor.
    + rewrite in_app_iff. intros [?|?]; [tauto|]. eapply Hdisj; eauto. left; auto.
    + apply IH; auto. intros r Hr. apply Hdisj. right; auto.
Qed.

(* the current root of a thread is the root of the first bracket item of its continuation *)
Lemma cur_is_head s t r l : linked s (cur s t) (r :: l) -> cur s t = Some r.
Proof. intros H. inversion H; auto. Qed.

Lemma tail_roots_small s t k : Forall (icond s t) k -> forall r, In r (pending_roots k) -> r < nroots s.
Proof.
  intros H r Hin. destruct (in_pending_item _ _ Hin) as (it & Hit & E). rewrite Forall_forall in H.
  destruct (icond_root_own _ _ _ _ (H it Hit) E); auto.
Qed.

(* ---- the step preserves the invariant ------------------------------------------------------- *)
Ltac updsimp :=
  repeat match goal with
  | |- context [upd _ ?i _ ?i] => rewrite upd_eq
  | |- context [upd _ ?i _ ?j] => rewrite (upd_neq _ i _ j) by (try lia; try congruence; auto)
  | H : context [upd _ ?i _ ?i] |- _ => rewrite upd_eq in H
  | H : context [upd _ ?i _ ?j] |- _ => rewrite (upd_neq _ i _ j) in H by (try lia; try congruence; auto)
  end.

Lemma linked_small s t k c : Forall (icond s t) k -> linked s c (pending_roots k) ->
  forall s', (forall r, r < nroots s -> r_next (roots s' r) = r_next (roots s r)) -> linked s' c (pending_roots k).
Proof.
  intros HF HL s' H. eapply linked_ext; [|exact HL]. intros r Hin. apply H. eapply tail_roots_small; eauto.
Qed.

Lemma step_obs s t tag k :
  GI s -> t < nthreads s -> conts s t = Do (AObs tag) :: k -> GI (set_conts s t k).
Proof.
  intros G Ht Hc.
  destruct (gi_thr s G t Ht) as (HF & HL & HN). rewrite Hc in HF, HL, HN. simpl in HL, HN.
  eapply (build_GI s _ t _ k [] (fun _ => False) G Ht Hc); simpl; auto.
  - constructor; simpl; auto; intros; updsimp; auto.
  - apply (gi_failed s G).
  - updsimp. auto.
  - intros L. eapply linked_ext; [|exact L]. auto.
  - constructor.
  - apply (gi_fresh s G).
  - apply (gi_started s G).
  - intros r Hr. destruct (gi_live s G r Hr) as (A & B & C). split; [|split]; auto.
    destruct (Nat.eq_dec (r_thr (roots s r)) t) as [E|E]; updsimp; auto.
    rewrite E, Hc in C. rewrite E. updsimp. auto.
  - apply (gi_dead s G).
  - apply (gi_beyond s G).
Qed.

(* facts about the root constructor *)
Lemma push_frame_rel s t wo :
  (forall n, ~ wo n -> begun (prim_root_push t s) n = begun s n) ->
  frame_rel s (prim_root_push t s) t (fun _ => False) (fun _ => False) wo.
Proof.
  intros H. constructor; simpl; auto; intros; updsimp; auto.
Qed.

Lemma step_start s t n body k :
  GI s -> t < nthreads s -> conts s t = Do (AStart n body) :: k ->
  begun s n = None -> n < nops s -> parent_started s n = true ->
  GI (set_conts (set_begun (prim_root_push t s) n (nroots s)) t (Opening KS (nroots s) n n false body :: k)).
Proof.
  intros G Ht Hc Hb Hn Hp.
  destruct (gi_thr s G t Ht) as (HF & HL & HN). rewrite Hc in HF, HL, HN. simpl in HL, HN.
  assert (HFk : Forall (icond s t) k) by (inversion HF; auto).
  destruct (gi_fresh s G n Hn Hb) as [Hs Hfr].
  eapply (build_GI s _ t _ k [Opening KS (nroots s) n n false body] (fun m => m = n) G Ht Hc); simpl; auto.
  - constructor; simpl; auto; intros; updsimp; auto.
  - intros t2 it m Ht2 Hin _ E ->. rewrite Forall_forall in *.
    eapply (excl_op_begun s t2 it n (gi_fresh s G) Hb); eauto.
    destruct (gi_thr s G t2 Ht2) as (HF2 & _). rewrite Forall_forall in HF2. auto.
  - apply (gi_failed s G).
  - updsimp. auto.
  - constructor; [|constructor]. simpl. unfold own; simpl. updsimp. simpl. rewrite Hfr. simpl.
    repeat split; auto.
    intros p Hpar. unfold parent_started in Hp. rewrite Hpar in Hp. auto.
  - intros L. updsimp. constructor. simpl. updsimp. simpl.
    eapply linked_small; eauto. intros r Hr. simpl. updsimp. auto.
  - intros r [<-|[]] Hin. pose proof (tail_roots_small s t k HFk _ Hin). lia.
  - constructor; [simpl; tauto|constructor].
  - intros m Hm. destruct (Nat.eq_dec m n) as [->|Hne]; updsimp; [discriminate|]. apply (gi_fresh s G m Hm).
  - apply (gi_started s G).
  - intros r. destruct (Nat.eq_dec r (nroots s)) as [->|Hne]; updsimp; simpl.
    + intros _. split; [lia|]. split; auto. updsimp. simpl. auto.
    + intros Hr. destruct (gi_live s G r Hr) as (A & B & C). split; [lia|]. split; auto.
      destruct (Nat.eq_dec (r_thr (roots s r)) t) as [E|E]; updsimp; auto.
      rewrite E, Hc in C. simpl in C. rewrite E. updsimp. simpl. auto.
  - intros r. destruct (Nat.eq_dec r (nroots s)) as [->|Hne]; updsimp; simpl; [discriminate|apply (gi_dead s G)].
  - intros r Hr. updsimp. apply (gi_beyond s G). lia.
Qed.

Lemma push_live s t k' h k :
  GI s -> t < nthreads s -> conts s t = h :: k -> item_root h = None ->
  (forall r, In r (pending_roots k) -> In r (pending_roots k')) -> In (nroots s) (pending_roots k') ->
  forall s', roots s' = upd (roots s) (nroots s) {| r_top := None; r_next := cur s t; r_thr := t; r_live := true |} ->
  nroots s' = S (nroots s) -> nthreads s' = nthreads s -> conts s' = upd (conts s) t k' ->
  forall r, r_live (roots s' r) = true ->
      r < nroots s' /\ r_thr (roots s' r) < nthreads s' /\ In r (pending_roots (conts s' (r_thr (roots s' r)))).
Proof.
  intros G Ht Hc Hh Hsub Hin s' Hr Hn Hth Hk r. rewrite Hr, Hn, Hth, Hk.
  destruct (Nat.eq_dec r (nroots s)) as [->|Hne]; updsimp; simpl.
  - intros _. split; [lia|]. split; auto. updsimp. auto.
  - intros Hl. destruct (gi_live s G r Hl) as (A & B & C). split; [lia|]. split; auto.
    destruct (Nat.eq_dec (r_thr (roots s r)) t) as [E|E]; updsimp; auto.
    rewrite E, Hc in C. rewrite E. updsimp. apply Hsub.
    destruct h; simpl in *; try discriminate; auto.
Qed.

Lemma step_wait s t n m body k :
  GI s -> t < nthreads s -> conts s t = Do (AWait n m body) :: k ->
  begun s n = None -> n < nops s -> par s n = None ->
  GI (set_conts (set_waits (set_begun (prim_root_push t s) n (nroots s)) n m) t
                (Opening KW (nroots s) n n true body :: k)).
Proof.
  intros G Ht Hc Hb Hn Hp.
  destruct (gi_thr s G t Ht) as (HF & HL & HN). rewrite Hc in HF, HL, HN. simpl in HL, HN.
  assert (HFk : Forall (icond s t) k) by (inversion HF; auto).
  destruct (gi_fresh s G n Hn Hb) as [Hs Hfr].
  eapply (build_GI s _ t _ k [Opening KW (nroots s) n n true body] (fun m => m = n) G Ht Hc); simpl; auto.
  - constructor; simpl; auto; intros; updsimp; auto.
  - intros t2 it m' Ht2 Hin _ E ->.
    eapply (excl_op_begun s t2 it n (gi_fresh s G) Hb); eauto.
    destruct (gi_thr s G t2 Ht2) as (HF2 & _). rewrite Forall_forall in HF2. auto.
  - apply (gi_failed s G).
  - updsimp. auto.
  - constructor; [|constructor]. simpl. unfold own; simpl. updsimp. simpl. rewrite Hfr. simpl.
    repeat split; auto.
  - intros L. updsimp. constructor. simpl. updsimp. simpl.
    eapply linked_small; eauto. intros r Hr. simpl. updsimp. auto.
  - intros r [<-|[]] Hin. pose proof (tail_roots_small s t k HFk _ Hin). lia.
  - constructor; [simpl; tauto|constructor].
  - intros m' Hm. destruct (Nat.eq_dec m' n) as [->|Hne]; updsimp; [discriminate|]. apply (gi_fresh s G m' Hm).
  - apply (gi_started s G).
  - intros r. apply (push_live s t (Opening KW (nroots s) n n true body :: k) _ k G Ht Hc eq_refl
                       (fun r H => or_intror H) (or_introl eq_refl)
                       (set_conts (set_waits (set_begun (prim_root_push t s) n (nroots s)) n m) t
                          (Opening KW (nroots s) n n true body :: k)) eq_refl eq_refl eq_refl eq_refl r).
  - intros r. destruct (Nat.eq_dec r (nroots s)) as [->|Hne]; updsimp; simpl; [discriminate|apply (gi_dead s G)].
  - intros r Hr. updsimp. apply (gi_beyond s G). lia.
Qed.

Lemma step_complete s t n body k :
  GI s -> t < nthreads s -> conts s t = Do (AComplete n body) :: k ->
  n < nops s -> started s n = true ->
  GI (set_conts (prim_root_push t s) t (Opening KC (nroots s) (nops s + nroots s) n false body :: k)).
Proof.
  intros G Ht Hc Hn Hs.
  destruct (gi_thr s G t Ht) as (HF & HL & HN). rewrite Hc in HF, HL, HN. simpl in HL, HN.
  assert (HFk : Forall (icond s t) k) by (inversion HF; auto).
  destruct (gi_beyond s G (nroots s) (le_n _)) as [_ Hfr].
  eapply (build_GI s _ t _ k [Opening KC (nroots s) (nops s + nroots s) n false body] (fun m => False) G Ht Hc); simpl; auto.
  - constructor; simpl; auto; intros; updsimp; auto.
  - apply (gi_failed s G).
  - updsimp. auto.
  - constructor; [|constructor]. simpl. unfold own; simpl. updsimp. simpl. rewrite Hfr. simpl.
    repeat split; auto.
  - intros L. updsimp. constructor. simpl. updsimp. simpl.
    eapply linked_small; eauto. intros r Hr. simpl. updsimp. auto.
  - intros r [<-|[]] Hin. pose proof (tail_roots_small s t k HFk _ Hin). lia.
  - constructor; [simpl; tauto|constructor].
  - apply (gi_fresh s G).
  - apply (gi_started s G).
  - intros r. apply (push_live s t (Opening KC (nroots s) (nops s + nroots s) n false body :: k) _ k G Ht Hc eq_refl
                       (fun r H => or_intror H) (or_introl eq_refl)
                       (set_conts (prim_root_push t s) t
                          (Opening KC (nroots s) (nops s + nroots s) n false body :: k)) eq_refl eq_refl eq_refl eq_refl r).
  - intros r. destruct (Nat.eq_dec r (nroots s)) as [->|Hne]; updsimp; simpl; [discriminate|apply (gi_dead s G)].
  - intros r Hr. updsimp. apply (gi_beyond s G). lia.
Qed.

Lemma step_loop s t body k :
  GI s -> t < nthreads s -> conts s t = Do (ALoop body) :: k ->
  GI (set_conts (prim_root_push t s) t (map Do body ++ Closing KL (nroots s) 0 true :: k)).
Proof.
  intros G Ht Hc.
  destruct (gi_thr s G t Ht) as (HF & HL & HN). rewrite Hc in HF, HL, HN. simpl in HL, HN.
  assert (HFk : Forall (icond s t) k) by (inversion HF; auto).
  eapply (build_GI s _ t _ k (map Do body ++ [Closing KL (nroots s) 0 true]) (fun m => False) G Ht Hc); simpl; auto.
  - constructor; simpl; auto; intros; updsimp; auto.
  - apply (gi_failed s G).
  - updsimp. rewrite <- app_assoc. auto.
  - apply Forall_app. split; [apply forall_do|]. constructor; [|constructor].
    simpl. unfold own; simpl. updsimp. simpl. auto.
  - intros L. updsimp. rewrite pending_roots_app, pending_roots_do. simpl. constructor. simpl. updsimp. simpl.
    eapply linked_small; eauto. intros r Hr. simpl. updsimp. auto.
  - intros r. rewrite pending_roots_app, pending_roots_do. simpl. intros [<-|[]] Hin.
    pose proof (tail_roots_small s t k HFk _ Hin). lia.
  - rewrite pending_roots_app, pending_roots_do. simpl. constructor; [simpl; tauto|constructor].
  - apply (gi_fresh s G).
  - apply (gi_started s G).
  - assert (A1 : forall r', In r' (pending_roots k) -> In r' (pending_roots (map Do body ++ Closing KL (nroots s) 0 true :: k))).
    { intros r' Hr. rewrite pending_roots_app, pending_roots_do. simpl. auto. }
    assert (A2 : In (nroots s) (pending_roots (map Do body ++ Closing KL (nroots s) 0 true :: k))).
    { rewrite pending_roots_app, pending_roots_do. simpl. auto. }
    intros r. apply (push_live s t (map Do body ++ Closing KL (nroots s) 0 true :: k) _ k G Ht Hc eq_refl A1 A2
                       (set_conts (prim_root_push t s) t (map Do body ++ Closing KL (nroots s) 0 true :: k))
                       eq_refl eq_refl eq_refl eq_refl r).
  - intros r. destruct (Nat.eq_dec r (nroots s)) as [->|Hne]; updsimp; simpl; [discriminate|apply (gi_dead s G)].
  - intros r Hr. updsimp. apply (gi_beyond s G). lia.
Qed.

(* steps that neither push nor pop keep the live-root bookkeeping *)
Lemma keep_live s s' t h k k' r0 :
  GI s -> conts s t = h :: k -> item_root h = Some r0 ->
  (forall r, r_live (roots s' r) = r_live (roots s r) /\ r_thr (roots s' r) = r_thr (roots s r)) ->
  nroots s' = nroots s -> nthreads s' = nthreads s -> conts s' = upd (conts s) t k' ->
  pending_roots k' = r0 :: pending_roots k ->
  forall r, r_live (roots s' r) = true ->
      r < nroots s' /\ r_thr (roots s' r) < nthreads s' /\ In r (pending_roots (conts s' (r_thr (roots s' r)))).
Proof.
  intros G Hc Hh Hsame Hn Hth Hk Hp r. destruct (Hsame r) as [-> ->]. rewrite Hn, Hth, Hk.
  intros Hl. destruct (gi_live s G r Hl) as (A & B & C). split; [|split]; auto.
  destruct (Nat.eq_dec (r_thr (roots s r)) t) as [E|E]; updsimp; auto.
  rewrite E, Hc in C. rewrite E. updsimp. rewrite Hp.
  destruct h; simpl in *; try discriminate; inversion Hh; subst; auto.
Qed.

Lemma step_setparent_gen s s1 t r n body k :
  GI s -> t < nthreads s -> conts s t = Opening KS r n n false body :: k ->
  (forall x, x <> n -> frames s1 x = frames s x) ->
  f_parent (frames s1 n) = par s n -> f_root (frames s1 n) = f_root (frames s n) ->
  roots s1 = roots s -> nroots s1 = nroots s -> cur s1 = cur s -> begun s1 = begun s ->
  started s1 = started s -> failed s1 = failed s -> conts s1 = conts s -> nthreads s1 = nthreads s ->
  par s1 = par s -> nops s1 = nops s ->
  GI (set_conts s1 t (Opening KS r n n true body :: k)).
Proof.
  intros G Ht Hc E1 E2 E2' R1 R2 R3 R4 R5 R6 R7 R8 R9 R10.
  destruct (gi_thr s G t Ht) as (HF & HL & HN). rewrite Hc in HF, HL, HN. simpl in HL, HN.
  assert (HFk : Forall (icond s t) k) by (inversion HF; auto).
  assert (Hh : icond s t (Opening KS r n n false body)) by (inversion HF; auto).
  destruct Hh as (Hown & Htop & Hfroot & _ & Hn & Hb & Hs & Hpar & Hps).
  eapply (build_GI s _ t _ k [Opening KS r n n true body] (fun m => False) G Ht Hc); simpl; auto.
  - constructor; simpl; auto; try congruence; try lia.
    + intros; rewrite R4, R5; auto.
    + intros; rewrite R7; updsimp; auto.
  - rewrite R6. apply (gi_failed s G).
  - rewrite R7. updsimp. auto.
  - constructor; [|constructor]. simpl. unfold own; simpl. rewrite R1, R2, R4, R5, R9, R10.
    rewrite E2, E2'. destruct Hown as (? & ? & ?). repeat split; auto.
  - intros L. rewrite R3. rewrite (cur_is_head _ _ _ _ HL). constructor. simpl. rewrite R1.
    eapply linked_ext; [|exact L]. intros; simpl; rewrite R1; auto.
  - intros r' [<-|[]] Hin. inversion HN; auto.
  - constructor; [simpl; tauto|constructor].
  - rewrite R10, R4, R5. intros m Hm Hbm. destruct (gi_fresh s G m Hm Hbm) as [A B]. split; auto.
    rewrite E1; auto. congruence.
  - rewrite R5, R9, R10. intros m Hm. destruct (gi_started s G m Hm) as (A & B & C). split; [|split]; auto.
    rewrite E1; auto. congruence.
  - intros r'. apply (keep_live s (set_conts s1 t (Opening KS r n n true body :: k)) t _ k
                        (Opening KS r n n true body :: k) r G Hc eq_refl); simpl; auto.
    + intros; rewrite R1; auto.
    + rewrite R7. auto.
  - rewrite R1. apply (gi_dead s G).
  - rewrite R1, R2, R10. intros r' Hr. destruct (gi_beyond s G r' Hr) as [A B]. split; auto.
    rewrite E1; auto. lia.
Qed.

Lemma step_setparent s t r f n body k :
  GI s -> t < nthreads s -> conts s t = Opening KS r f n false body :: k ->
  GI (set_conts (match par s n with
                 | None => s
                 | Some p => set_frame s f {| f_parent := Some p; f_root := f_root (frames s f) |}
                 end) t (Opening KS r f n true body :: k)).
Proof.
  intros G Ht Hc.
  destruct (gi_thr s G t Ht) as (HF & _). rewrite Hc in HF.
  assert (Hh : icond s t (Opening KS r f n false body)) by (inversion HF; auto).
  destruct Hh as (_ & _ & _ & -> & _ & _ & _ & Hpar & _).
  apply (step_setparent_gen s _ t r n body k G Ht Hc); destruct (par s n) eqn:Ep; simpl; auto; intros; updsimp; auto.
Qed.

(* a step that works on the head bracket's own root r and frame only *)
Lemma step_inplace s s1 t h knew r k wo :
  GI s -> t < nthreads s -> conts s t = h :: k -> item_root h = Some r ->
  pending_roots knew = [r] ->
  (forall x, x <> r -> roots s1 x = roots s x) ->
  r_next (roots s1 r) = r_next (roots s r) -> r_thr (roots s1 r) = r_thr (roots s r) ->
  r_live (roots s1 r) = r_live (roots s r) ->
  (forall f, item_frame h <> Some f -> frames s1 f = frames s f) ->
  (forall n, ~ wo n -> begun s1 n = begun s n /\ started s1 n = started s n) ->
  (forall n, started s n = true -> started s1 n = true) ->
  (forall t2 it n, t2 < nthreads s -> In it (conts s t2) -> (t2 <> t \/ In it k) ->
                   item_op it = Some n -> ~ wo n) ->
  cur s1 = cur s -> nroots s1 = nroots s -> nthreads s1 = nthreads s -> nops s1 = nops s -> par s1 = par s ->
  conts s1 = conts s -> failed s1 = false ->
  Forall (icond (set_conts s1 t (knew ++ k)) t) knew ->
  (forall n, n < nops s1 -> begun s1 n = None -> started s1 n = false /\ frames s1 n = frame0) ->
  (forall n, started s1 n = true ->
      n < nops s1 /\ f_parent (frames s1 n) = par s1 n /\ forall p, par s1 n = Some p -> started s1 p = true) ->
  (forall x, nroots s <= x -> frames s1 (nops s + x) = frame0) ->
  GI (set_conts s1 t (knew ++ k)).
Proof.
  intros G Ht Hc Hr Hp Rx Rn Rt Rl Fx Ox Om Hwo C1 C2 C3 C4 C5 C6 C7 Hnew G1 G2 G3.
  destruct (gi_thr s G t Ht) as (HF & HL & HN). rewrite Hc in HF, HL, HN.
  assert (HFk : Forall (icond s t) k) by (inversion HF; auto).
  assert (Hh : icond s t h) by (inversion HF; auto).
  assert (Hown : own s t r) by (eapply icond_root_own; eauto).
  assert (HL' : linked s (cur s t) (r :: pending_roots k)).
  { destruct h; simpl in *; try discriminate; inversion Hr; subst; auto. }
  assert (HN' : NoDup (r :: pending_roots k)).
  { destruct h; simpl in *; try discriminate; inversion Hr; subst; auto. }
  eapply (build_GI s _ t h k knew wo G Ht Hc); simpl; auto.
  - constructor; simpl; auto; try lia.
    + intros x _ Hx. apply Rx. congruence.
    + intros; rewrite C6; updsimp; auto.
    + intros; rewrite C1; auto.
  - rewrite C6. updsimp. auto.
  - rewrite Hr, Hp, C1. intros L. rewrite (cur_is_head _ _ _ _ HL'). simpl. constructor. simpl. rewrite Rn.
    eapply linked_ext; [|exact L]. intros x Hx. simpl. rewrite Rx; auto.
    intros ->. inversion HN'; auto.
  - rewrite Hp. intros x [<-|[]]. inversion HN'; auto.
  - rewrite Hp. constructor; [simpl; tauto|constructor].
  - intros x. rewrite C2, C3, C6. intros Hl.
    assert (Hl' : r_live (roots s x) = true).
    { destruct (Nat.eq_dec x r) as [->|Hne]; [rewrite <- Rl; auto|rewrite <- Rx; auto]. }
    destruct (gi_live s G x Hl') as (A & B & C).
    assert (Et : r_thr (roots s1 x) = r_thr (roots s x)).
    { destruct (Nat.eq_dec x r) as [->|Hne]; [auto|rewrite Rx; auto]. }
    rewrite Et. split; [|split]; auto.
    destruct (Nat.eq_dec (r_thr (roots s x)) t) as [E|E]; updsimp; auto.
    rewrite E, Hc in C. rewrite E. updsimp. rewrite pending_roots_app, Hp. simpl.
    destruct h; simpl in *; try discriminate; inversion Hr; subst; auto.
  - intros x Hx. destruct (Nat.eq_dec x r) as [->|Hne].
    + rewrite Rl in Hx. destruct Hown as (_ & _ & ?). congruence.
    + rewrite (Rx x Hne) in Hx |- *. apply (gi_dead s G); auto.
  - rewrite C2, C4. intros x Hx. split; [|apply G3; auto].
    rewrite Rx; [apply (gi_beyond s G); auto|]. destruct Hown. lia.
Qed.

Lemma head_facts s t h k r :
  GI s -> t < nthreads s -> conts s t = h :: k -> item_root h = Some r ->
  icond s t h /\ cur s t = Some r /\ own s t r /\ Forall (icond s t) k /\ ~ In r (pending_roots k).
Proof.
  intros G Ht Hc Hr. destruct (gi_thr s G t Ht) as (HF & HL & HN). rewrite Hc in HF, HL, HN.
  assert (Hh : icond s t h) by (inversion HF; auto).
  split; auto. split; [|split; [eapply icond_root_own; eauto|split; [inversion HF; auto|]]].
  - destruct h; simpl in *; try discriminate; inversion Hr; subst; inversion HL; auto.
  - destruct h; simpl in *; try discriminate; inversion Hr; subst; inversion HN; auto.
Qed.

Lemma step_copy s t r c n body k :
  GI s -> t < nthreads s -> conts s t = Opening KC r c n false body :: k ->
  forall p,
  GI (set_conts (set_frame s c {| f_parent := p; f_root := f_root (frames s c) |}) t (Opening KC r c n true body :: k)).
Proof.
  intros G Ht Hc p.
  destruct (head_facts s t _ k r G Ht Hc eq_refl) as (Hh & Hcur & Hown & HFk & Hnin).
  destruct Hh as (_ & Htop & Hfroot & -> & Hn & Hs).
  change (Opening KC r (nops s + r) n true body :: k) with ([Opening KC r (nops s + r) n true body] ++ k).
  eapply (step_inplace s _ t _ _ r k (fun _ => False) G Ht Hc eq_refl); simpl; auto.
  - intros f Hf. updsimp. auto.
  - apply (gi_failed s G).
  - constructor; [|constructor]. simpl. unfold own in *. simpl. updsimp. simpl. tauto.
  - intros m Hm Hb. destruct (gi_fresh s G m Hm Hb). updsimp. auto.
  - intros m Hm. destruct (gi_started s G m Hm) as (A & B & C). updsimp. auto.
  - intros x Hx. destruct Hown. updsimp. apply (gi_beyond s G x Hx).
Qed.

Lemma step_activate_ok s t kd r f n body k :
  GI s -> t < nthreads s -> conts s t = Opening kd r f n true body :: k -> activate_ok t r f s = true.
Proof.
  intros G Ht Hc.
  destruct (head_facts s t _ k r G Ht Hc eq_refl) as (Hh & Hcur & Hown & HFk & Hnin).
  destruct Hh as (_ & Htop & Hfroot & _).
  unfold activate_ok. rewrite Hcur, Htop, Hfroot. simpl. rewrite Nat.eqb_refl. auto.
Qed.

Lemma other_items_roots s t k r t2 it r2 :
  GI s -> t < nthreads s -> t2 < nthreads s -> own s t r -> ~ In r (pending_roots k) -> Forall (icond s t) k ->
  In it (conts s t2) -> (t2 <> t \/ In it k) -> item_root it = Some r2 -> r <> r2 /\ icond s t2 it.
Proof.
  intros G Ht Ht2 Hown Hnin HFk Hin Hor E.
  destruct (gi_thr s G t2 Ht2) as (HF2 & _). rewrite Forall_forall in HF2. pose proof (HF2 it Hin) as Hi.
  split; auto. intros <-. destruct Hor as [Hne|Hk].
  - destruct (icond_root_own _ _ _ _ Hi E) as (_ & A & _). destruct Hown as (_ & B & _). congruence.
  - apply Hnin. eapply item_in_pending; eauto.
Qed.

Lemma item_op_root it n : item_op it = Some n -> exists r, item_root it = Some r.
Proof. destruct it; simpl; try discriminate; eauto. Qed.

Lemma step_activate s t kd r f n body k :
  GI s -> t < nthreads s -> conts s t = Opening kd r f n true body :: k ->
  GI (set_conts (if Nat.ltb f (nops s) then set_started (prim_activate r f s) f
                 else set_completed (prim_activate r f s) n) t (map Do body ++ Closing kd r f false :: k)).
Proof.
  intros G Ht Hc.
  destruct (head_facts s t _ k r G Ht Hc eq_refl) as (Hh & Hcur & Hown & HFk & Hnin).
  pose proof Hh as Hh0.
  destruct Hh as (_ & Htop & Hfroot & Hkd).
  replace (map Do body ++ Closing kd r f false :: k) with ((map Do body ++ [Closing kd r f false]) ++ k)
    by (rewrite <- app_assoc; auto).
  assert (Hp : pending_roots (map Do body ++ [Closing kd r f false]) = [r]).
  { rewrite pending_roots_app, pending_roots_do. auto. }
  assert (Hwo : forall t2 it m, t2 < nthreads s -> In it (conts s t2) -> (t2 <> t \/ In it k) ->
                   item_op it = Some m -> ~ (m = f /\ f < nops s)).
  { intros t2 it m Ht2 Hin Hor E [-> Hlt].
    destruct (item_op_root _ _ E) as (r2 & E2).
    destruct (other_items_roots s t k r t2 it r2 G Ht Ht2 Hown Hnin HFk Hin Hor E2) as [Hne Hi].
    assert (Hk : (kd = KS \/ kd = KW) /\ f = n).
    { destruct kd; [split; [left; auto|tauto]|destruct Hkd as (? & ?); lia|split; [right; auto|tauto]|destruct Hkd]. }
    destruct Hk as [Hk ->].
    eapply (excl_op_started s t t2 kd r n n true body it r2); eauto. }
  destruct (Nat.ltb_spec f (nops s)) as [Hlt|Hge].
  - (* an operation's own frame: KS or KW *)
    assert (Hk : (kd = KS \/ kd = KW) /\ f = n /\ begun s n = Some r /\ started s n = false /\
                 f_parent (frames s n) = par s n /\ (forall p, par s n = Some p -> started s p = true)).
    { destruct kd; [| | |destruct Hkd].
      - destruct Hkd as (-> & ? & ? & ? & ? & ?). repeat split; auto.
      - destruct Hkd as (? & ?). lia.
      - destruct Hkd as (-> & ? & ? & ? & ? & Hpn & ?). repeat split; auto; try congruence. }
    destruct Hk as (Hk & -> & Hb & Hs & Hpar & Hps).
    eapply (step_inplace s _ t _ _ r k (fun m => m = n /\ n < nops s) G Ht Hc eq_refl Hp); simpl; auto.
    + intros x Hx. updsimp. auto.
    + updsimp. auto.
    + updsimp. auto.
    + updsimp. auto.
    + intros x Hx. updsimp. auto.
    + intros m Hm. split; auto. destruct (Nat.eq_dec m n) as [->|Hne]; [exfalso; apply Hm; auto|updsimp; auto].
    + intros m Hm. destruct (Nat.eq_dec m n) as [->|?]; updsimp; auto.
    + apply (gi_failed s G).
    + apply Forall_app. split; [apply forall_do|]. constructor; [|constructor].
      simpl. unfold own in *. simpl. updsimp. simpl. updsimp. simpl.
      split; [tauto|]. split; auto. destruct Hk; subst kd; auto.
    + intros m Hm Hbm. assert (m <> n) by congruence. updsimp. apply (gi_fresh s G m Hm Hbm).
    + intros m. destruct (Nat.eq_dec m n) as [->|Hne]; updsimp.
      * intros _. simpl. split; auto. split; auto.
        intros p Hpp. destruct (Nat.eq_dec p n) as [->|?]; updsimp; auto.
      * intros Hm. destruct (gi_started s G m Hm) as (A & B & C). split; auto. split; auto.
        intros p Hpp. destruct (Nat.eq_dec p n) as [->|?]; updsimp; auto.
    + intros x Hx. updsimp. apply (gi_beyond s G x Hx).
  - (* a completion bracket's copy *)
    assert (Hk : kd = KC /\ f = nops s + r /\ n < nops s /\ started s n = true).
    { destruct kd; [destruct Hkd as (? & ? & ?); lia| |destruct Hkd as (? & ? & ?); lia|destruct Hkd].
      destruct Hkd as (? & ? & ?). auto. }
    destruct Hk as (-> & -> & Hn & Hs).
    eapply (step_inplace s _ t _ _ r k (fun m => False) G Ht Hc eq_refl Hp); simpl; auto.
    + intros x Hx. updsimp. auto.
    + updsimp. auto.
    + updsimp. auto.
    + updsimp. auto.
    + intros x Hx. updsimp. auto.
    + apply (gi_failed s G).
    + apply Forall_app. split; [apply forall_do|]. constructor; [|constructor].
      simpl. unfold own in *. simpl. updsimp. simpl. updsimp. simpl. tauto.
    + intros m Hm Hbm. updsimp. apply (gi_fresh s G m Hm Hbm).
    + intros m Hm. destruct (gi_started s G m Hm) as (A & B & C). updsimp. auto.
    + intros x Hx. destruct Hown. updsimp. apply (gi_beyond s G x Hx).
Qed.

Lemma step_deactivate_ok s t kd r f k :
  GI s -> t < nthreads s -> conts s t = Closing kd r f false :: k -> closing_kind_strict kd = true ->
  deactivate_ok t f s = true /\ f_root (frames s f) = Some r.
Proof.
  intros G Ht Hc Hk.
  destruct (head_facts s t _ k r G Ht Hc eq_refl) as (Hh & Hcur & Hown & HFk & Hnin).
  destruct Hh as (_ & Htop & Hkd).
  assert (Hfr : f_root (frames s f) = Some r).
  { destruct kd; try discriminate; simpl in Hkd; tauto. }
  split; auto. unfold deactivate_ok. rewrite Hfr, Hcur, Htop. simpl. rewrite !Nat.eqb_refl. auto.
Qed.

Lemma step_deactivate s t kd r f k :
  GI s -> t < nthreads s -> conts s t = Closing kd r f false :: k -> closing_kind_strict kd = true ->
  GI (set_conts (prim_deactivate f s) t (Closing kd r f true :: k)).
Proof.
  intros G Ht Hc Hk.
  destruct (step_deactivate_ok s t kd r f k G Ht Hc Hk) as [_ Hfr].
  destruct (head_facts s t _ k r G Ht Hc eq_refl) as (Hh & Hcur & Hown & HFk & Hnin).
  destruct Hh as (_ & Htop & Hkd).
  unfold prim_deactivate. rewrite Hfr.
  change (Closing kd r f true :: k) with ([Closing kd r f true] ++ k).
  assert (Hif : item_frame (Closing kd r f false) = Some f) by (destruct kd; try discriminate; auto; simpl in Hkd; tauto).
  eapply (step_inplace s _ t _ _ r k (fun m => False) G Ht Hc eq_refl); simpl; auto.
  - intros x Hx. updsimp. auto.
  - updsimp. auto.
  - updsimp. auto.
  - updsimp. auto.
  - intros x Hx. assert (x <> f) by (intros ->; apply Hx; exact Hif). updsimp. auto.
  - apply (gi_failed s G).
  - constructor; [|constructor]. simpl. unfold own in *. simpl. updsimp. simpl. tauto.
  - intros m Hm Hbm. destruct (gi_fresh s G m Hm Hbm) as [A B].
    assert (m <> f).
    { intros ->. destruct kd; try discriminate; [destruct Hkd as (? & ?); lia|]. destruct Hkd as (? & ? & ?). congruence. }
    updsimp. auto.
  - intros m Hm. destruct (gi_started s G m Hm) as (A & B & C). split; auto. split; auto.
    destruct (Nat.eq_dec m f) as [->|?]; updsimp; auto.
  - intros x Hx. destruct (gi_beyond s G x Hx) as [_ B].
    assert (nops s + x <> f).
    { destruct Hown. destruct kd; try discriminate; [destruct Hkd as (? & ?); lia|destruct Hkd as (? & ?); lia]. }
    updsimp. auto.
Qed.

Lemma step_ensure_ok s t r f k :
  GI s -> t < nthreads s -> conts s t = Closing KS r f false :: k -> ensure_ok t r f s = true.
Proof.
  intros G Ht Hc.
  destruct (head_facts s t _ k r G Ht Hc eq_refl) as (Hh & Hcur & Hown & HFk & Hnin).
  destruct Hh as (_ & Htop & Hkd).
  unfold ensure_ok. rewrite Hcur, Htop. simpl. rewrite !Nat.eqb_refl. auto.
Qed.

Lemma step_ensure s t r f k :
  GI s -> t < nthreads s -> conts s t = Closing KS r f false :: k ->
  GI (set_conts (prim_ensure r s) t (Closing KS r f true :: k)).
Proof.
  intros G Ht Hc.
  destruct (head_facts s t _ k r G Ht Hc eq_refl) as (Hh & Hcur & Hown & HFk & Hnin).
  destruct Hh as (_ & Htop & Hkd).
  change (Closing KS r f true :: k) with ([Closing KS r f true] ++ k).
  eapply (step_inplace s _ t _ _ r k (fun m => False) G Ht Hc eq_refl); simpl; auto.
  - intros x Hx. updsimp. auto.
  - updsimp. auto.
  - updsimp. auto.
  - updsimp. auto.
  - apply (gi_failed s G).
  - constructor; [|constructor]. simpl. unfold own in *. simpl. updsimp. simpl. tauto.
  - apply (gi_fresh s G).
  - apply (gi_started s G).
  - intros x Hx. apply (gi_beyond s G x Hx).
Qed.

Lemma step_pop_ok s t kd r f k :
  GI s -> t < nthreads s -> conts s t = Closing kd r f true :: k -> pop_ok t r s = true.
Proof.
  intros G Ht Hc.
  destruct (head_facts s t _ k r G Ht Hc eq_refl) as (Hh & Hcur & Hown & HFk & Hnin).
  destruct Hh as (_ & Htop). unfold pop_ok. rewrite Hcur, Htop. simpl. rewrite Nat.eqb_refl. auto.
Qed.

Lemma step_pop s t kd r f k :
  GI s -> t < nthreads s -> conts s t = Closing kd r f true :: k ->
  GI (set_conts (prim_root_pop t r s) t k).
Proof.
  intros G Ht Hc.
  destruct (head_facts s t _ k r G Ht Hc eq_refl) as (Hh & Hcur & Hown & HFk & Hnin).
  destruct Hh as (_ & Htop).
  eapply (build_GI s _ t _ k [] (fun m => False) G Ht Hc); simpl; auto.
  - constructor; simpl; auto; intros; updsimp; auto; congruence.
  - apply (gi_failed s G).
  - updsimp. auto.
  - intros L. updsimp. eapply linked_ext; [|exact L]. intros x Hx. simpl.
    assert (x <> r) by (intros ->; auto). updsimp. auto.
  - constructor.
  - apply (gi_fresh s G).
  - apply (gi_started s G).
  - intros x. destruct (Nat.eq_dec x r) as [->|Hne]; updsimp; simpl; [discriminate|].
    intros Hl. destruct (gi_live s G x Hl) as (A & B & C). split; [|split]; auto.
    destruct (Nat.eq_dec (r_thr (roots s x)) t) as [E|E]; updsimp; auto.
    rewrite E, Hc in C. rewrite E. updsimp. simpl in C. destruct C; [congruence|auto].
  - intros x. destruct (Nat.eq_dec x r) as [->|Hne]; updsimp; simpl; auto. apply (gi_dead s G).
  - intros x Hx. destruct Hown. assert (x <> r) by lia. updsimp. apply (gi_beyond s G x Hx).
Qed.

Definition no_assert (evs : list ev) : Prop := Forall (fun e => is_assert e = false) evs.

Lemma step_GI s t s' evs : GI s -> step t s = Some (s', evs) -> GI s' /\ no_assert evs.
Proof.
  intros G. unfold step.
  destruct (Nat.ltb_spec t (nthreads s)) as [Ht|Ht]; simpl; [|discriminate].
  destruct (conts s t) as [|h k] eqn:Hc; [discriminate|].
  destruct h as [a|kd r f n prep body|kd r f pop].
  - destruct a as [n body|n body|n m body|body|tag].
    + destruct (begun s n) eqn:Hb; [discriminate|].
      destruct (Nat.ltb_spec n (nops s)) as [Hn|Hn]; simpl; [|discriminate].
      destruct (parent_started s n) eqn:Hp; [|discriminate].
      intros E; inversion E; subst; clear E. split; [|repeat constructor].
      apply step_start; auto.
    + destruct (Nat.ltb_spec n (nops s)) as [Hn|Hn]; simpl; [|discriminate].
      destruct (started s n) eqn:Hs; [|discriminate].
      intros E; inversion E; subst; clear E. split; [|repeat constructor].
      apply step_complete; auto.
    + destruct (begun s n) eqn:Hb; [discriminate|].
      destruct (Nat.ltb_spec n (nops s)) as [Hn|Hn]; simpl; [|discriminate].
      destruct (oeqb (par s n) None) eqn:Hp; [|discriminate]. apply oeqb_eq in Hp.
      intros E; inversion E; subst; clear E. split; [|repeat constructor].
      apply step_wait; auto.
    + intros E; inversion E; subst; clear E. split; [|repeat constructor].
      apply step_loop; auto.
    + intros E; inversion E; subst; clear E. split; [|repeat constructor].
      apply step_obs with (tag := tag); auto.
  - assert (Hh : icond s t (Opening kd r f n prep body)).
    { destruct (gi_thr s G t Ht) as (HF & _). rewrite Hc in HF. inversion HF; auto. }
    destruct prep.
    + rewrite (step_activate_ok s t kd r f n body k G Ht Hc).
      assert (E0 : forall X : option (st * list ev), match kd with KS | KC | KW | KL => X end = X) by (destruct kd; auto).
      destruct kd; intros E; inversion E; subst; clear E; (split; [|repeat constructor]);
        apply (step_activate s t _ r f n body k G Ht Hc).
    + destruct kd.
      * intros E; inversion E; subst; clear E. split; [|repeat constructor]. apply step_setparent; auto.
      * intros E; inversion E; subst; clear E. split; [|repeat constructor]. apply step_copy; auto.
      * destruct Hh as (_ & _ & _ & _ & _ & _ & _ & Hp & _). discriminate.
      * destruct Hh as (_ & _ & _ & []).
  - destruct pop.
    + rewrite (step_pop_ok s t kd r f k G Ht Hc).
      assert (E0 : forall X : option (st * list ev), match kd with KS | KC | KW | KL => X end = X) by (destruct kd; auto).
      destruct kd; intros E; inversion E; subst; clear E; (split; [|repeat constructor]);
        apply (step_pop s t _ r f k G Ht Hc).
    + destruct kd.
      * simpl. rewrite (step_ensure_ok s t r f k G Ht Hc).
        intros E; inversion E; subst; clear E. split; [|repeat constructor]. apply step_ensure; auto.
      * simpl. destruct (step_deactivate_ok s t KC r f k G Ht Hc eq_refl) as [-> ->].
        intros E; inversion E; subst; clear E. split; [|repeat constructor]. apply step_deactivate; auto.
      * destruct (negb (completed s (waits s f))); [discriminate|].
        destruct (step_deactivate_ok s t KW r f k G Ht Hc eq_refl) as [-> ->].
        intros E; inversion E; subst; clear E. split; [|repeat constructor]. apply step_deactivate; auto.
      * assert (Hh : icond s t (Closing KL r f false)).
        { destruct (gi_thr s G t Ht) as (HF & _). rewrite Hc in HF. inversion HF; auto. }
        destruct Hh as (_ & _ & []).
Qed.

(* ---- the initial state and runs --------------------------------------------------------------- *)
Lemma init_GI pars progs : GI (init pars progs).
Proof.
  constructor; simpl; auto.
  - intros t Ht. unfold tinv. simpl. rewrite pending_roots_do. split; [apply forall_do|]. split; constructor.
  - intros; discriminate.
  - intros; discriminate.
Qed.

Definition reach (pars : list (option nat)) (progs : list (list act)) (sched : list nat) : conf st ev :=
  run step sched (init pars progs, []).

Lemma reach_GI pars progs sched :
  GI (fst (reach pars progs sched)) /\ no_assert (snd (reach pars progs sched)).
Proof.
  unfold reach. apply (run_invariant st nat ev step (fun c => GI (fst c) /\ no_assert (snd c))).
  - intros c t s' evs [G N] E. simpl. destruct (step_GI _ _ _ _ G E) as [G' N']. split; auto.
    unfold no_assert in *. apply Forall_app. auto.
  - simpl. split; [apply init_GI|constructor].
Qed.

Lemma all_nil_spec k n : all_nil k n = true -> forall t, t < n -> k t = [].
Proof.
  induction n as [|n IH]; simpl; intros H t Ht; [lia|].
  destruct (k n) eqn:E; [|discriminate].
  destruct (Nat.eq_dec t n) as [->|?]; auto. apply IH; auto. lia.
Qed.

(* T1: no assert of the async-stack code can fire *)
Theorem no_assert_fires pars progs sched :
  failed (fst (reach pars progs sched)) = false /\ count is_assert (snd (reach pars progs sched)) = 0.
Proof.
  destruct (reach_GI pars progs sched) as [G N]. split; [apply (gi_failed _ G)|].
  unfold count. induction N; simpl; auto. rewrite H. auto.
Qed.

(* T2: a thread's chain of roots is exactly the roots of its open brackets, innermost first *)
Theorem root_chain_is_open_brackets pars progs sched t :
  let s := fst (reach pars progs sched) in
  t < nthreads s -> linked s (cur s t) (pending_roots (conts s t)).
Proof.
  intros s Ht. destruct (reach_GI pars progs sched) as [G _]. destruct (gi_thr _ G t Ht) as (_ & L & _). exact L.
Qed.

Theorem roots_restored pars progs sched :
  let s := fst (reach pars progs sched) in
  quiescent s = true ->
  (forall t, t < nthreads s -> cur s t = None) /\
  (forall r, r_live (roots s r) = false /\ r_top (roots s r) = None).
Proof.
  intros s Q. destruct (reach_GI pars progs sched) as [G _]. fold s in G.
  pose proof (all_nil_spec _ _ Q) as Hnil.
  split.
  - intros t Ht. destruct (gi_thr _ G t Ht) as (_ & L & _). rewrite (Hnil t Ht) in L. inversion L; auto.
  - intros r. assert (Hd : r_live (roots s r) = false).
    { destruct (r_live (roots s r)) eqn:E; auto. destruct (gi_live _ G r E) as (_ & B & C).
      rewrite (Hnil _ B) in C. destruct C. }
    split; auto. apply (gi_dead _ G); auto.
Qed.

(* ---- balance: activations and deactivations per (root, frame) -------------------------------- *)
Definition active (s : st) (r f : nat) : nat := if oeqb (r_top (roots s r)) (Some f) then 1 else 0.

Lemma oeqb_refl a : oeqb a a = true.
Proof. apply oeqb_eq. auto. Qed.
Lemma oeqb_neq a b : a <> b -> oeqb a b = false.
Proof. intros H. destruct (oeqb a b) eqn:E; auto. apply oeqb_eq in E. congruence. Qed.

Lemma active_same s s' r f : r_top (roots s' r) = r_top (roots s r) -> active s' r f = active s r f.
Proof. unfold active. intros ->. auto. Qed.

Lemma step_balance s t s' evs :
  GI s -> step t s = Some (s', evs) ->
  forall r f, count (is_act r f) evs + active s r f = count (is_deact r f) evs + active s' r f.
Proof.
  intros G E r0 f0.
  assert (Hpush : forall s2, roots s2 = roots (prim_root_push t s) -> active s r0 f0 = active s2 r0 f0).
  { intros s2 Hs2. symmetry. apply active_same. rewrite Hs2. simpl. destruct (Nat.eq_dec r0 (nroots s)) as [->|?]; updsimp; auto.
    simpl. destruct (gi_beyond s G (nroots s) (le_n _)) as [-> _]. auto. }
  revert E. unfold step.
  destruct (Nat.ltb_spec t (nthreads s)) as [Ht|Ht]; simpl; [|discriminate].
  destruct (conts s t) as [|h k] eqn:Hc; [discriminate|].
  destruct h as [a|kd r f n prep body|kd r f pop].
  - destruct a as [n body|n body|n m body|body|tag].
    + destruct (begun s n); [discriminate|]. destruct (_ && _); [|discriminate].
      intros E; inversion E; subst; clear E. unfold count; simpl. apply Hpush; reflexivity.
    + destruct (_ && _); [|discriminate].
      intros E; inversion E; subst; clear E. unfold count; simpl. apply Hpush; reflexivity.
    + destruct (begun s n); [discriminate|]. destruct (_ && _); [|discriminate].
      intros E; inversion E; subst; clear E. unfold count; simpl. apply Hpush; reflexivity.
    + intros E; inversion E; subst; clear E. unfold count; simpl. apply Hpush; reflexivity.
    + intros E; inversion E; subst; clear E. unfold count; simpl. auto.
  - destruct prep.
    + pose proof (step_activate_ok s t kd r f n body k G Ht Hc) as Hok. rewrite Hok.
      unfold activate_ok in Hok. apply andb_prop in Hok. destruct Hok as [Hok _]. apply andb_prop in Hok.
      destruct Hok as [_ Htop]. apply oeqb_eq in Htop.
      assert (Hres : forall s2, r_top (roots s2 r) = Some f ->
                 (forall x, x <> r -> r_top (roots s2 x) = r_top (roots s x)) ->
                 count (is_act r0 f0) [EActivate r f] + active s r0 f0 =
                 count (is_deact r0 f0) [EActivate r f] + active s2 r0 f0).
      { intros s2 H1 H2. unfold count, active. simpl.
        destruct (Nat.eq_dec r0 r) as [->|Hr].
        - rewrite Htop, H1. rewrite Nat.eqb_refl. simpl.
          destruct (Nat.eq_dec f0 f) as [->|Hf]; [rewrite !Nat.eqb_refl; auto|].
          destruct (Nat.eqb_spec f0 f); [congruence|]. destruct (Nat.eqb_spec f f0); [congruence|]. auto.
        - rewrite H2 by auto. destruct (Nat.eqb_spec r0 r); [congruence|]. simpl. auto. }
      assert (E0 : forall X : option (st * list ev), match kd with KS | KC | KW | KL => X end = X) by (destruct kd; auto).
      destruct kd; intros E; inversion E; subst; clear E; apply Hres;
        try (destruct (f <? nops s); simpl; updsimp; auto);
        try (intros x Hx; destruct (f <? nops s); simpl; updsimp; auto).
    + destruct kd; try (destruct (par s n)); intros E; inversion E; subst; clear E; unfold count; simpl; auto.
  - destruct (gi_thr s G t Ht) as (HF & _). rewrite Hc in HF.
    assert (Hh : icond s t (Closing kd r f pop)) by (inversion HF; auto).
    destruct pop.
    + rewrite (step_pop_ok s t kd r f k G Ht Hc).
      assert (Hres : count (is_act r0 f0) [ERootPop r (r_next (roots s r))] + active s r0 f0 =
                     count (is_deact r0 f0) [ERootPop r (r_next (roots s r))] +
                     active (set_conts (prim_root_pop t r s) t k) r0 f0).
      { unfold count; simpl. symmetry. apply active_same. simpl.
        destruct (Nat.eq_dec r0 r) as [->|?]; updsimp; auto. }
      destruct kd; intros E; inversion E; subst; clear E; exact Hres.
    + destruct Hh as (_ & Htop & Hkd).
      assert (Hres : forall s2 e, r_top (roots s2 r) = None ->
                 (forall x, x <> r -> r_top (roots s2 x) = r_top (roots s x)) ->
                 is_act r0 f0 e = false -> is_deact r0 f0 e = (Nat.eqb r0 r && Nat.eqb f0 f) ->
                 count (is_act r0 f0) [e] + active s r0 f0 = count (is_deact r0 f0) [e] + active s2 r0 f0).
      { intros s2 e H1 H2 H3 H4. unfold count, active. simpl. rewrite H3, H4.
        destruct (Nat.eq_dec r0 r) as [->|Hr].
        - rewrite Htop, H1. rewrite Nat.eqb_refl. simpl.
          destruct (Nat.eq_dec f0 f) as [->|Hf]; [rewrite !Nat.eqb_refl; auto|].
          destruct (Nat.eqb_spec f0 f); [congruence|]. destruct (Nat.eqb_spec f f0); [congruence|]. auto.
        - rewrite H2 by auto. destruct (Nat.eqb_spec r0 r); [congruence|]. simpl. auto. }
      destruct kd.
      * simpl. rewrite (step_ensure_ok s t r f k G Ht Hc).
        intros E; inversion E; subst; clear E. apply Hres; simpl; updsimp; auto.
        -- intros x Hx. updsimp. auto.
        -- rewrite Htop. auto.
      * simpl. destruct (step_deactivate_ok s t KC r f k G Ht Hc eq_refl) as [Hd Hfr]. rewrite Hd, Hfr.
        intros E; inversion E; subst; clear E. unfold prim_deactivate. rewrite Hfr.
        apply Hres; simpl; updsimp; auto. intros x Hx. updsimp. auto.
      * destruct (negb (completed s (waits s f))); [discriminate|].
        destruct (step_deactivate_ok s t KW r f k G Ht Hc eq_refl) as [Hd Hfr]. rewrite Hd, Hfr.
        intros E; inversion E; subst; clear E. unfold prim_deactivate. rewrite Hfr.
        apply Hres; simpl; updsimp; auto. intros x Hx. updsimp. auto.
      * destruct Hkd.
Qed.

Lemma count_app p a b : count p (a ++ b) = count p a + count p b.
Proof. unfold count. rewrite filter_app, app_length. auto. Qed.

(* T3: at any time, per (root, frame): activations = deactivations + (1 if the frame is the root's top now).
   A frame is deactivated only on the root (hence by the thread) that activated it, and not more often. *)
Theorem balanced pars progs sched r f :
  let c := reach pars progs sched in
  count (is_act r f) (snd c) = count (is_deact r f) (snd c) + active (fst c) r f.
Proof.
  unfold reach.
  apply (run_invariant st nat ev step
           (fun c => GI (fst c) /\ count (is_act r f) (snd c) = count (is_deact r f) (snd c) + active (fst c) r f)).
  - intros c t s' evs [G B] E. simpl. destruct (step_GI _ _ _ _ G E) as [G' _]. split; auto.
    rewrite !count_app. pose proof (step_balance _ _ _ _ G E r f). lia.
  - simpl. split; [apply init_GI|]. reflexivity.
Qed.

Theorem balanced_at_quiescence pars progs sched :
  let c := reach pars progs sched in
  quiescent (fst c) = true ->
  forall r f, count (is_act r f) (snd c) = count (is_deact r f) (snd c).
Proof.
  intros c Q r f. subst c. rewrite (balanced pars progs sched r f).
  destruct (roots_restored pars progs sched Q) as [_ H]. destruct (H r) as [_ Ht].
  unfold active. rewrite Ht. simpl. lia.
Qed.

(* ---- the parent chain ---------------------------------------------------------------------------- *)
Lemma step_params s t s' evs : step t s = Some (s', evs) ->
  par s' = par s /\ nops s' = nops s /\ nthreads s' = nthreads s.
Proof.
  unfold step. destruct (negb (t <? nthreads s)); [discriminate|].
  destruct (conts s t) as [|h k]; [discriminate|].
  destruct h as [a|kd r f n prep body|kd r f pop].
  - destruct a as [n body|n body|n m body|body|tag];
      repeat match goal with |- context [match ?x with _ => _ end] => destruct x end;
      try discriminate; intros E; inversion E; subst; simpl; auto.
  - destruct prep; destruct kd;
      repeat match goal with |- context [match ?x with _ => _ end] => destruct x end;
      try discriminate; intros E; inversion E; subst; simpl; auto.
  - destruct pop; destruct kd; simpl;
      repeat match goal with |- context [match ?x with _ => _ end] => destruct x eqn:? end;
      try discriminate; intros E; inversion E; subst; simpl; auto;
      unfold prim_deactivate; repeat match goal with |- context [match ?x with _ => _ end] => destruct x end; simpl; auto.
Qed.

Definition par_ok (pars : list (option nat)) : Prop :=
  forall n p, nth n pars None = Some p -> p < n.

Lemma reach_params pars progs sched :
  let s := fst (reach pars progs sched) in
  par s = (fun n => nth n pars None) /\ nops s = length pars /\ nthreads s = length progs.
Proof.
  unfold reach.
  apply (run_invariant_state st nat ev step
           (fun s => par s = (fun n => nth n pars None) /\ nops s = length pars /\ nthreads s = length progs)).
  - intros s t s' evs (A & B & C) E. destruct (step_params _ _ _ _ E) as (-> & -> & ->). auto.
  - simpl. auto.
Qed.

Lemma chain_anc s : GI s -> (forall n p, par s n = Some p -> p < n) ->
  forall fuel n, n < fuel -> started s n = true -> chain s fuel n = anc (par s) fuel n.
Proof.
  intros G Hok fuel. induction fuel as [|fuel IH]; intros n Hn Hs; [lia|].
  simpl. destruct (gi_started s G n Hs) as (_ & -> & Hp).
  destruct (par s n) as [p|] eqn:E; auto.
  f_equal. apply IH; auto. specialize (Hok n p E). lia.
Qed.

(* T4: the parent chain of a started operation's frame lists the frames of its ancestors up to the root of
   the op tree (the frame of the outermost connected operation, or sync_wait's initial frame) *)
Theorem chain_reaches_root pars progs sched n :
  par_ok pars ->
  let s := fst (reach pars progs sched) in
  started s n = true ->
  chain s (S n) n = anc (fun m => nth m pars None) (S n) n.
Proof.
  intros Hok s Hs. destruct (reach_GI pars progs sched) as [G _]. fold s in G.
  destruct (reach_params pars progs sched) as (Hp & _). fold s in Hp.
  rewrite <- Hp. apply chain_anc; auto. rewrite Hp. exact Hok.
Qed.

(* the temporary frame of a completion bracket gets the parent of the receiver's operation frame: the chain
   seen while operation n completes is: the copy, then the ancestors of n's parent *)
Definition copy_ok (pr : nat -> option nat) (e : ev) : Prop :=
  match e with
  | ECopy c n p => p = match pr n with None => None | Some d => pr d end
  | _ => True
  end.

Lemma step_copy_ok s t s' evs : GI s -> step t s = Some (s', evs) -> Forall (copy_ok (par s)) evs.
Proof.
  intros G. unfold step.
  destruct (Nat.ltb_spec t (nthreads s)) as [Ht|Ht]; simpl; [|discriminate].
  destruct (conts s t) as [|h k] eqn:Hc; [discriminate|].
  assert (Hh : icond s t h).
  { destruct (gi_thr s G t Ht) as (HF & _). rewrite Hc in HF. inversion HF; auto. }
  destruct h as [a|kd r f n prep body|kd r f pop].
  - destruct a as [n body|n body|n m body|body|tag];
      repeat match goal with |- context [match ?x with _ => _ end] => destruct x end;
      try discriminate; intros E; inversion E; subst; repeat constructor.
  - destruct prep; destruct kd;
      repeat match goal with |- context [match ?x with _ => _ end] => destruct x eqn:? end;
      try discriminate; intros E; inversion E; subst; repeat constructor; simpl; auto.
    + destruct Hh as (_ & _ & _ & _ & _ & Hs). destruct (gi_started s G n Hs) as (_ & _ & Hp).
      destruct (gi_started s G n0 (Hp n0 Heqo)) as (_ & -> & _). rewrite Heqo. auto.
    + rewrite Heqo. auto.
  - destruct pop; destruct kd; simpl;
      repeat match goal with |- context [match ?x with _ => _ end] => destruct x eqn:? end;
      try discriminate; intros E; inversion E; subst; repeat constructor.
Qed.

Theorem copies_chain_to_grandparent pars progs sched :
  Forall (copy_ok (fun n => nth n pars None)) (snd (reach pars progs sched)).
Proof.
  unfold reach.
  apply (run_invariant st nat ev step
     (fun c => GI (fst c) /\ par (fst c) = (fun n => nth n pars None) /\ Forall (copy_ok (fun n => nth n pars None)) (snd c))).
  - intros c t s' evs (G & P & F) E. simpl. destruct (step_GI _ _ _ _ G E) as [G' _].
    destruct (step_params _ _ _ _ E) as (-> & _). split; auto. split; auto.
    apply Forall_app. split; auto. rewrite <- P. eapply step_copy_ok; eauto.
  - simpl. split; [apply init_GI|]. split; auto.
Qed.
