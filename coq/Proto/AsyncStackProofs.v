(* Proofs about the AsyncStack model (Proto/AsyncStackDefs.v): for every op tree, every family of traced
   runs and every schedule, no assert of the async-stack code fires, every thread's chain of roots is
   exactly the roots of its open brackets (hence restored at quiescence), activations and deactivations
   balance per (root, frame), and the parent chain of a started operation's frame lists its ancestors. *)
From Coq Require Import List Bool Arith Lia.
From V Require Import Base.Sched Proto.AsyncStackDefs.
Import ListNotations.
Import AsyncStack.

Lemma upd_eq {A} (f : nat -> A) i v : upd f i v i = v.
Proof. unfold upd. now rewrite Nat.eqb_refl. Qed.
Lemma upd_neq {A} (f : nat -> A) i v j : j <> i -> upd f i v j = f j.
Proof. unfold upd. intros H. destruct (Nat.eqb_spec j i); congruence. Qed.

Lemma oeqb_eq a b : oeqb a b = true <-> a = b.
Proof.
  destruct a as [x|], b as [y|]; simpl; split; try congruence; intros H.
  - apply Nat.eqb_eq in H. congruence.
  - inversion H. apply Nat.eqb_refl.
Qed.

(* ---- the invariant ------------------------------------------------------------------------ *)
Definition own (s : st) (t r : nat) : Prop :=
  r < nroots s /\ r_thr (roots s r) = t /\ r_live (roots s r) = true.

Definition icond (s : st) (t : nat) (it : item) : Prop :=
  match it with
  | Do _ => True
  | Opening kd r f n prep body =>
      own s t r /\ r_top (roots s r) = None /\ f_root (frames s f) = None /\
      match kd with
      | KS => f = n /\ n < nops s /\ begun s n = Some r /\ started s n = false /\
              (prep = true -> f_parent (frames s n) = par s n)
      | KW => f = n /\ n < nops s /\ begun s n = Some r /\ started s n = false /\ prep = true /\
              par s n = None /\ f_parent (frames s n) = None
      | KC => f = nops s + r /\ n < nops s /\ started s n = true
      | KL => False
      end
  | Closing kd r f pop =>
      own s t r /\
      if pop then r_top (roots s r) = None
      else r_top (roots s r) = Some f /\
           match kd with
           | KS => f < nops s /\ started s f = true
           | KW => f < nops s /\ started s f = true /\ f_root (frames s f) = Some r
           | KC => f = nops s + r /\ f_root (frames s f) = Some r
           | KL => False
           end
  end.

Inductive linked (s : st) : option nat -> list nat -> Prop :=
| linked_nil : linked s None []
| linked_cons r l : linked s (r_next (roots s r)) l -> linked s (Some r) (r :: l).

Definition tinv (s : st) (t : nat) : Prop :=
  Forall (icond s t) (conts s t) /\
  linked s (cur s t) (pending_roots (conts s t)) /\
  NoDup (pending_roots (conts s t)).

Record GI (s : st) : Prop := {
  gi_failed : failed s = false;
  gi_thr : forall t, t < nthreads s -> tinv s t;
  gi_fresh : forall n, n < nops s -> begun s n = None -> started s n = false /\ frames s n = frame0;
  gi_started : forall n, started s n = true ->
      n < nops s /\ f_parent (frames s n) = par s n /\ forall p, par s n = Some p -> started s p = true;
  gi_live : forall r, r_live (roots s r) = true ->
      r < nroots s /\ r_thr (roots s r) < nthreads s /\ In r (pending_roots (conts s (r_thr (roots s r))));
  gi_dead : forall r, r_live (roots s r) = false -> r_top (roots s r) = None;
  gi_beyond : forall r, nroots s <= r -> roots s r = root0 /\ frames s (nops s + r) = frame0
}.

Definition item_root (it : item) : option nat :=
  match it with Do _ => None | Opening _ r _ _ _ _ => Some r | Closing _ r _ _ => Some r end.
(* the frame whose contents the item's condition depends on *)
Definition item_frame (it : item) : option nat :=
  match it with
  | Opening _ _ f _ _ _ => Some f
  | Closing KW _ f false | Closing KC _ f false => Some f
  | _ => None
  end.
Definition item_op (it : item) : option nat :=
  match it with
  | Opening _ _ _ n _ _ => Some n
  | Closing KS _ f false | Closing KW _ f false => Some f
  | _ => None
  end.

Lemma icond_frame s s' t it :
  icond s t it ->
  nops s' = nops s -> par s' = par s -> nroots s <= nroots s' ->
  (forall r, item_root it = Some r -> roots s' r = roots s r) ->
  (forall f, item_frame it = Some f -> frames s' f = frames s f) ->
  (forall n, item_op it = Some n -> begun s' n = begun s n /\ started s' n = started s n) ->
  icond s' t it.
Proof.
  intros H Hn Hp Hr Hro Hfr Hop.
  destruct it as [a|kd r f n prep body|kd r f pop]; simpl in *; auto.
  - destruct H as ((H1 & H2 & H3) & H4 & H5 & H6).
    specialize (Hro r eq_refl). specialize (Hfr f eq_refl). destruct (Hop n eq_refl) as [Hb Hs].
    unfold own. rewrite Hro, Hfr, Hn, Hp.
    repeat split; auto; try lia.
    destruct kd; auto.
    + destruct H6 as (-> & ? & ? & ? & ?). rewrite Hb, Hs, Hfr. repeat split; auto.
    + destruct H6 as (? & ? & ?). rewrite Hs. repeat split; auto.
    + destruct H6 as (-> & ? & ? & ? & ? & ? & ?). rewrite Hb, Hs, Hfr. repeat split; auto.
  - destruct H as ((H1 & H2 & H3) & H4).
    specialize (Hro r eq_refl). unfold own. rewrite Hro.
    split; [repeat split; auto; lia|].
    destruct pop; auto. destruct H4 as [H4 H5]. split; auto.
    destruct kd; auto.
    + destruct (Hop f eq_refl) as [_ Hs]. rewrite Hn, Hs. auto.
    + rewrite Hn, (Hfr f eq_refl). auto.
    + destruct (Hop f eq_refl) as [_ Hs]. rewrite Hn, Hs, (Hfr f eq_refl). auto.
Qed.
