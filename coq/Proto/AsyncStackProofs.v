(* Proofs about the AsyncStack model (Proto/AsyncStackDefs.v): for every op tree, every family of traced
   runs and every schedule, no assert of the async-stack code fires, every thread's chain of roots is
   exactly the roots of its open brackets (hence restored at quiescence), activations and deactivations
   balance per (root, frame), and the parent chain of a started operation's frame lists its ancestors. *)
From Coq Require Import List Bool Arith Lia.
From V Require Import Base.Sched Proto.AsyncStackDefs.
Import ListNotations.
Import AsyncStack.

Arguments upd : simpl never.

Lemma upd_eq {A} (f : nat -> A) i v : upd f i v i = v.
Proof. unfold upd. now rewrite Nat.eqb_refl. Qed.
Lemma upd_neq {A} (f : nat -> A) i v j : j <> i -> upd f i v j = f j.
Proof. unfold upd. intros H. destruct (Nat.eqb_spec j i); congruence. Qed.

Lemma oeqb_eq a b : oeqb a b = true <-> a = b.
Proof.
  destruct a as [x|], b as [y|]; simpl; split; try congruence; intros H.
  - apply Nat.eqb_eq in H. congruence.
  - inversion H. apply Nat.eqb_refl.
Qed.

(* ---- the invariant ------------------------------------------------------------------------ *)
Definition own (s : st) (t r : nat) : Prop :=
  r < nroots s /\ r_thr (roots s r) = t /\ r_live (roots s r) = true.

Definition icond (s : st) (t : nat) (it : item) : Prop :=
  match it with
  | Do _ => True
  | Opening kd r f n prep body =>
      own s t r /\ r_top (roots s r) = None /\ f_root (frames s f) = None /\
      match kd with
      | KS => f = n /\ n < nops s /\ begun s n = Some r /\ started s n = false /\
              (f_parent (frames s n) = if prep then par s n else None) /\
              (forall p, par s n = Some p -> started s p = true)
      | KW => f = n /\ n < nops s /\ begun s n = Some r /\ started s n = false /\ prep = true /\
              par s n = None /\ f_parent (frames s n) = None
      | KC => f = nops s + r /\ n < nops s /\ started s n = true
      | KL => False
      end
  | Closing kd r f pop =>
      own s t r /\
      if pop then r_top (roots s r) = None
      else r_top (roots s r) = Some f /\
           match kd with
           | KS => f < nops s /\ started s f = true
           | KW => f < nops s /\ started s f = true /\ f_root (frames s f) = Some r
           | KC => f = nops s + r /\ f_root (frames s f) = Some r
           | KL => False
           end
  end.

Inductive linked (s : st) : option nat -> list nat -> Prop :=
| linked_nil : linked s None []
| linked_cons r l : linked s (r_next (roots s r)) l -> linked s (Some r) (r :: l).

Definition tinv (s : st) (t : nat) : Prop :=
  Forall (icond s t) (conts s t) /\
  linked s (cur s t) (pending_roots (conts s t)) /\
  NoDup (pending_roots (conts s t)).

Record GI (s : st) : Prop := {
  gi_failed : failed s = false;
  gi_thr : forall t, t < nthreads s -> tinv s t;
  gi_fresh : forall n, n < nops s -> begun s n = None -> started s n = false /\ frames s n = frame0;
  gi_started : forall n, started s n = true ->
      n < nops s /\ f_parent (frames s n) = par s n /\ forall p, par s n = Some p -> started s p = true;
  gi_live : forall r, r_live (roots s r) = true ->
      r < nroots s /\ r_thr (roots s r) < nthreads s /\ In r (pending_roots (conts s (r_thr (roots s r))));
  gi_dead : forall r, r_live (roots s r) = false -> r_top (roots s r) = None;
  gi_beyond : forall r, nroots s <= r -> roots s r = root0 /\ frames s (nops s + r) = frame0
}.

Definition item_root (it : item) : option nat :=
  match it with Do _ => None | Opening _ r _ _ _ _ => Some r | Closing _ r _ _ => Some r end.
(* the frame whose contents the item's condition depends on *)
Definition item_frame (it : item) : option nat :=
  match it with
  | Opening _ _ f _ _ _ => Some f
  | Closing KW _ f false | Closing KC _ f false => Some f
  | _ => None
  end.
Definition item_op (it : item) : option nat :=
  match it with
  | Opening _ _ _ n _ _ => Some n
  | Closing KS _ f false | Closing KW _ f false => Some f
  | _ => None
  end.

Lemma icond_frame s s' t it :
  icond s t it ->
  nops s' = nops s -> par s' = par s -> nroots s <= nroots s' ->
  (forall r, item_root it = Some r -> roots s' r = roots s r) ->
  (forall f, item_frame it = Some f -> frames s' f = frames s f) ->
  (forall n, item_op it = Some n -> begun s' n = begun s n /\ started s' n = started s n) ->
  (forall n, started s n = true -> started s' n = true) ->
  icond s' t it.
Proof.
  intros H Hn Hp Hr Hro Hfr Hop Hmono.
  destruct it as [a|kd r f n prep body|kd r f pop]; simpl in *; auto.
  - destruct H as ((H1 & H2 & H3) & H4 & H5 & H6).
    specialize (Hro r eq_refl). specialize (Hfr f eq_refl). destruct (Hop n eq_refl) as [Hb Hs].
    unfold own. rewrite Hro, Hfr, Hn, Hp.
    repeat split; auto; try lia.
    destruct kd; auto.
    + destruct H6 as (-> & ? & ? & ? & ? & ?). rewrite Hb, Hs, Hfr. repeat split; auto.
    + destruct H6 as (? & ? & ?). rewrite Hs. repeat split; auto.
    + destruct H6 as (-> & ? & ? & ? & ? & ? & ?). rewrite Hb, Hs, Hfr. repeat split; auto.
  - destruct H as ((H1 & H2 & H3) & H4).
    specialize (Hro r eq_refl). unfold own. rewrite Hro.
    split; [repeat split; auto; lia|].
    destruct pop; auto. destruct H4 as [H4 H5]. split; auto.
    destruct kd; auto.
    + destruct (Hop f eq_refl) as [_ Hs]. rewrite Hn, Hs. auto.
    + rewrite Hn, (Hfr f eq_refl). auto.
    + destruct (Hop f eq_refl) as [_ Hs]. rewrite Hn, Hs, (Hfr f eq_refl). auto.
Qed.

(* ---- small facts ---------------------------------------------------------------------------- *)
Lemma pending_roots_app a b : pending_roots (a ++ b) = pending_roots a ++ pending_roots b.
Proof. induction a as [|x a IH]; simpl; auto. destruct x; simpl; rewrite IH; auto. Qed.
Lemma pending_roots_do body : pending_roots (map Do body) = [].
Proof. induction body; simpl; auto. Qed.
Lemma forall_do s t body : Forall (icond s t) (map Do body).
Proof. induction body; simpl; constructor; simpl; auto. Qed.

Lemma in_pending_item r k : In r (pending_roots k) -> exists it, In it k /\ item_root it = Some r.
Proof.
  induction k as [|x k IH]; simpl; [tauto|]. destruct x; simpl.
  - intros H. destruct (IH H) as (it & ? & ?). eauto.
  - intros [<-|H]; [eexists; split; [left; reflexivity|reflexivity]|]. destruct (IH H) as (it & ? & ?). eauto.
  - intros [<-|H]; [eexists; split; [left; reflexivity|reflexivity]|]. destruct (IH H) as (it & ? & ?). eauto.
Qed.
Lemma item_in_pending it k r : In it k -> item_root it = Some r -> In r (pending_roots k).
Proof.
  induction k as [|x k IH]; simpl; [tauto|]. intros [->|H] E.
  - destruct it; simpl in *; try discriminate; inversion E; subst; left; auto.
  - destruct x; simpl; auto.
Qed.

Lemma linked_ext s s' c l :
  (forall r, In r l -> r_next (roots s' r) = r_next (roots s r)) -> linked s c l -> linked s' c l.
Proof.
  intros H L. induction L; constructor. rewrite H by (left; auto). apply IHL. intros; apply H; right; auto.
Qed.

Lemma icond_root_own s t it r : icond s t it -> item_root it = Some r -> own s t r.
Proof. destruct it; simpl; try discriminate; intros H E; inversion E; subst; tauto. Qed.

(* two items on different roots never depend on the same frame *)
Lemma excl_frame s t1 t2 h it r1 r2 f :
  icond s t1 h -> icond s t2 it -> item_root h = Some r1 -> item_root it = Some r2 -> r1 <> r2 ->
  item_frame h = Some f -> item_frame it = Some f -> False.
Proof.
  intros H1 H2 E1 E2 Hne F1 F2.
  destruct h as [a|kd r f1 n prep body|kd r f1 pop]; simpl in *; try discriminate;
  destruct it as [a'|kd' r' f2 n' prep' body'|kd' r' f2 pop']; simpl in *; try discriminate.
  - inversion E1; inversion E2; inversion F1; inversion F2; subst.
    destruct H1 as (_ & _ & A1 & B1), H2 as (_ & _ & A2 & B2).
    destruct kd, kd'; try tauto; intuition (try congruence; try lia).
  - inversion E1; inversion E2; subst. destruct pop'; [destruct kd'; discriminate|].
    destruct H1 as (_ & _ & A1 & B1), H2 as (_ & A2 & B2).
    destruct kd'; try discriminate; inversion F1; inversion F2; subst;
      destruct kd; try tauto; intuition (try congruence; try lia).
  - inversion E1; inversion E2; subst. destruct pop; [destruct kd; discriminate|].
    destruct H1 as (_ & A1 & B1), H2 as (_ & _ & A2 & B2).
    destruct kd; try discriminate; inversion F1; inversion F2; subst;
      destruct kd'; try tauto; intuition (try congruence; try lia).
  - inversion E1; inversion E2; subst. destruct pop; [destruct kd; discriminate|]. destruct pop'; [destruct kd'; discriminate|].
    destruct H1 as (_ & A1 & B1), H2 as (_ & A2 & B2).
    destruct kd; try discriminate; destruct kd'; try discriminate; inversion F1; inversion F2; subst;
      intuition (try congruence; try lia).
Qed.

(* an operation about to be activated is not the operation of any other item *)
Lemma excl_op_started s t1 t2 kd r1 f n prep body it r2 :
  icond s t1 (Opening kd r1 f n prep body) -> (kd = KS \/ kd = KW) ->
  icond s t2 it -> item_root it = Some r2 -> r1 <> r2 -> item_op it = Some n -> False.
Proof.
  intros H1 Hk H2 E2 Hne O2.
  assert (Hb : begun s n = Some r1 /\ started s n = false).
  { destruct H1 as (_ & _ & _ & B). destruct Hk; subst kd; tauto. }
  destruct Hb as [Hb Hs].
  destruct it as [a'|kd' r' f2 n' prep' body'|kd' r' f2 pop']; simpl in *; try discriminate.
  - inversion E2; inversion O2; subst. destruct H2 as (_ & _ & _ & B2).
    destruct kd'; try tauto; intuition congruence.
  - inversion E2; subst. destruct pop'; [destruct kd'; discriminate|].
    destruct H2 as (_ & _ & B2). destruct kd'; try discriminate; inversion O2; subst; intuition congruence.
Qed.

(* an operation that has not begun is not the operation of any item *)
Lemma excl_op_begun s t2 it n :
  (forall m, m < nops s -> begun s m = None -> started s m = false /\ frames s m = frame0) ->
  begun s n = None -> icond s t2 it -> item_op it = Some n -> False.
Proof.
  intros G Hb H2 O2.
  destruct it as [a'|kd' r' f2 n' prep' body'|kd' r' f2 pop']; simpl in *; try discriminate.
  - inversion O2; subst. destruct H2 as (_ & _ & _ & B2).
    destruct kd'; try tauto.
    + intuition congruence.
    + destruct B2 as (_ & Hn & Hs). destruct (G n Hn Hb). congruence.
    + intuition congruence.
  - destruct pop'; [destruct kd'; discriminate|].
    destruct H2 as (_ & _ & B2). destruct kd'; try discriminate; inversion O2; subst;
      (destruct (G n) as [? _]; [tauto|auto|]; intuition congruence).
Qed.

(* ---- what a step of thread t leaves alone --------------------------------------------------- *)
Record frame_rel (s s' : st) (t : nat) (wr wf wo : nat -> Prop) : Prop := {
  fr_nops : nops s' = nops s; fr_par : par s' = par s; fr_nthr : nthreads s' = nthreads s;
  fr_nroots : nroots s <= nroots s';
  fr_roots : forall r, r < nroots s -> ~ wr r -> roots s' r = roots s r;
  fr_frames : forall f, ~ wf f -> frames s' f = frames s f;
  fr_ops : forall n, ~ wo n -> begun s' n = begun s n /\ started s' n = started s n;
  fr_mono : forall n, started s n = true -> started s' n = true;
  fr_conts : forall t', t' <> t -> conts s' t' = conts s t';
  fr_cur : forall t', t' <> t -> cur s' t' = cur s t'
}.

Lemma items_preserved s s' t wr wf wo t2 l :
  frame_rel s s' t wr wf wo -> Forall (icond s t2) l ->
  (forall it r, In it l -> item_root it = Some r -> ~ wr r) ->
  (forall it f, In it l -> item_frame it = Some f -> ~ wf f) ->
  (forall it n, In it l -> item_op it = Some n -> ~ wo n) ->
  Forall (icond s' t2) l.
Proof.
  intros F H Hr Hf Ho. rewrite Forall_forall in *. intros it Hin.
  apply (icond_frame s s' t2 it (H it Hin)); try apply F.
  - intros r E. apply (fr_roots _ _ _ _ _ _ F); [|eauto].
    destruct (icond_root_own _ _ _ _ (H it Hin) E); auto.
  - intros f E. apply (fr_frames _ _ _ _ _ _ F). eauto.
  - intros n E. apply (fr_ops _ _ _ _ _ _ F). eauto.
Qed.

Lemma others_ok s s' t h k wo :
  GI s -> t < nthreads s -> conts s t = h :: k ->
  frame_rel s s' t (fun r => item_root h = Some r) (fun f => item_frame h = Some f) wo ->
  (forall t2 it n, t2 < nthreads s -> In it (conts s t2) -> (t2 <> t \/ In it k) ->
                   item_op it = Some n -> ~ wo n) ->
  (forall t2, t2 < nthreads s -> t2 <> t -> tinv s' t2) /\
  Forall (icond s' t) k /\
  (forall r, In r (pending_roots k) -> roots s' r = roots s r).
Proof.
  intros G Ht Hc F Hwo.
  destruct (gi_thr s G t Ht) as (HF & HL & HN). rewrite Hc in HF, HL, HN.
  assert (Hh : icond s t h) by (inversion HF; auto).
  assert (Hk : Forall (icond s t) k) by (inversion HF; auto).
  assert (Hnotin : forall r, item_root h = Some r -> ~ In r (pending_roots k)).
  { intros r E. destruct h; simpl in *; try discriminate; inversion E; subst; inversion HN; auto. }
  split; [|split].
  - intros t2 Ht2 Hne. destruct (gi_thr s G t2 Ht2) as (HF2 & HL2 & HN2).
    unfold tinv. rewrite (fr_conts _ _ _ _ _ _ F t2 Hne), (fr_cur _ _ _ _ _ _ F t2 Hne).
    assert (Hroots : forall it r, In it (conts s t2) -> item_root it = Some r -> ~ item_root h = Some r).
    { intros it r Hin E E'. rewrite Forall_forall in HF2.
      destruct (icond_root_own _ _ _ _ (HF2 it Hin) E) as (_ & A & _).
      destruct (icond_root_own _ _ _ _ Hh E') as (_ & B & _). congruence. }
    split; [|split]; auto.
    + eapply items_preserved; [exact F|exact HF2|exact Hroots| | ].
      * intros it f Hin E E'. rewrite Forall_forall in HF2.
        destruct h as [a|kd r1 f1 n1 p1 b1|kd r1 f1 p1]; try discriminate.
        -- destruct it as [a'|kd' r' f2 n' prep' body'|kd' r' f2 pop']; try discriminate;
           (eapply (excl_frame s t t2); [exact Hh|exact (HF2 _ Hin)|reflexivity|reflexivity| |exact E'|exact E];
            intros ->; eapply Hroots; eauto; reflexivity).
        -- destruct it as [a'|kd' r' f2 n' prep' body'|kd' r' f2 pop']; try discriminate;
           (eapply (excl_frame s t t2); [exact Hh|exact (HF2 _ Hin)|reflexivity|reflexivity| |exact E'|exact E];
            intros ->; eapply Hroots; eauto; reflexivity).
      * intros it n Hin E. eapply Hwo; eauto.
    + eapply linked_ext; [|exact HL2]. intros r Hin. f_equal.
      destruct (in_pending_item _ _ Hin) as (it & Hit & E). rewrite Forall_forall in HF2.
      apply (fr_roots _ _ _ _ _ _ F); [destruct (icond_root_own _ _ _ _ (HF2 it Hit) E); auto|eauto].
  - eapply items_preserved; [exact F|exact Hk| | | ].
    + intros it r Hin E E'. eapply Hnotin; eauto. eapply item_in_pending; eauto.
    + intros it f Hin E E'. rewrite Forall_forall in Hk.
      destruct h as [a|kd r1 f1 n1 p1 b1|kd r1 f1 p1]; try discriminate;
      destruct it as [a'|kd' r' f2 n' prep' body'|kd' r' f2 pop']; try discriminate;
      (eapply (excl_frame s t t); [exact Hh|exact (Hk _ Hin)|reflexivity|reflexivity| |exact E'|exact E];
       intros ->; eapply Hnotin; [reflexivity|]; eapply item_in_pending; eauto; reflexivity).
    + intros it n Hin E. eapply (Hwo t); eauto. rewrite Hc. right; auto.
  - intros r Hin. destruct (in_pending_item _ _ Hin) as (it & Hit & E). rewrite Forall_forall in Hk.
    apply (fr_roots _ _ _ _ _ _ F); [destruct (icond_root_own _ _ _ _ (Hk it Hit) E); auto|].
    intros E'. eapply Hnotin; eauto.
Qed.

(* ---- assembling the invariant after a step of thread t whose continuation was h :: k --------- *)
Lemma build_GI s s' t h k knew wo :
  GI s -> t < nthreads s -> conts s t = h :: k ->
  frame_rel s s' t (fun r => item_root h = Some r) (fun f => item_frame h = Some f) wo ->
  (forall t2 it n, t2 < nthreads s -> In it (conts s t2) -> (t2 <> t \/ In it k) ->
                   item_op it = Some n -> ~ wo n) ->
  failed s' = false ->
  conts s' t = knew ++ k ->
  Forall (icond s' t) knew ->
  (linked s (match item_root h with Some r => r_next (roots s r) | None => cur s t end) (pending_roots k) ->
   linked s' (cur s' t) (pending_roots knew ++ pending_roots k)) ->
  (forall r, In r (pending_roots knew) -> ~ In r (pending_roots k)) -> NoDup (pending_roots knew) ->
  (forall n, n < nops s' -> begun s' n = None -> started s' n = false /\ frames s' n = frame0) ->
  (forall n, started s' n = true ->
      n < nops s' /\ f_parent (frames s' n) = par s' n /\ forall p, par s' n = Some p -> started s' p = true) ->
  (forall r, r_live (roots s' r) = true ->
      r < nroots s' /\ r_thr (roots s' r) < nthreads s' /\ In r (pending_roots (conts s' (r_thr (roots s' r))))) ->
  (forall r, r_live (roots s' r) = false -> r_top (roots s' r) = None) ->
  (forall r, nroots s' <= r -> roots s' r = root0 /\ frames s' (nops s' + r) = frame0) ->
  GI s'.
Proof.
  intros G Ht Hc F Hwo Hfail Hc' Hnew Hlink Hdisj Hnd G1 G2 G3 G4 G5.
  destruct (others_ok s s' t h k wo G Ht Hc F Hwo) as (Hoth & Htail & Hsame).
  destruct (gi_thr s G t Ht) as (HF & HL & HN). rewrite Hc in HF, HL, HN.
  constructor; auto.
  intros t2 Ht2. rewrite (fr_nthr _ _ _ _ _ _ F) in Ht2.
  destruct (Nat.eq_dec t2 t) as [->|Hne]; [|auto].
  unfold tinv. rewrite Hc', pending_roots_app. split; [|split].
  - apply Forall_app. auto.
  - apply Hlink. destruct h as [a|kd r f n p b|kd r f p]; simpl in *; auto; inversion HL; auto.
  - assert (NoDup (pending_roots k)).
    { destruct h; simpl in HN; auto; inversion HN; auto. }
    clear - Hdisj Hnd H. induction (pending_roots knew) as [|x l IH]; simpl; auto.
    inversion Hnd; subst. constructor.
    + rewrite in_app_iff. intros [?|?]; [tauto|]. eapply Hdisj; eauto. left; auto.
    + apply IH; auto. intros r Hr. apply Hdisj. right; auto.
Qed.

(* the current root of a thread is the root of the first bracket item of its continuation *)
Lemma cur_is_head s t r l : linked s (cur s t) (r :: l) -> cur s t = Some r.
Proof. intros H. inversion H; auto. Qed.

Lemma tail_roots_small s t k : Forall (icond s t) k -> forall r, In r (pending_roots k) -> r < nroots s.
Proof.
  intros H r Hin. destruct (in_pending_item _ _ Hin) as (it & Hit & E). rewrite Forall_forall in H.
  destruct (icond_root_own _ _ _ _ (H it Hit) E); auto.
Qed.
